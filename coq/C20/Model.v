(* C20 — Presentation Exchange (component/models/presexch): executable model.  No proofs here.

   Holder  = PresentationDefinition.CreateVP  (definition.go: makeRequirement/toRequirement/toLogic,
             applyRequirement with the bitset SolutionIterator of internal/requirementlogic,
             filterCredentialsThatMatchDescriptor = filterFormat + filterSchema + filterConstraints,
             limitDisclosure/createNewCredential for plain (non BBS+, non SD-JWT) credentials, merge).
   Verifier = PresentationDefinition.Match (api.go: getMatchedCreds + evalSubmissionRequirements).

   Third-party engines are abstracted the same way for both sides: a JSONPath is the name of a
   credentialSubject member, a JSON-schema filter is a conjunction of type/const/minimum/maximum/enum
   on a scalar, a schema URI is satisfied by a credential type (JSON-LD term -> IRI is a bijection on
   the vocabulary used).  `variant` AsIs = the code as found, Fixed = after the two fix: commits. *)
From Coq Require Import List NArith ZArith Bool.
Import ListNotations.

Inductive variant := AsIs | Fixed.

Definition memN (x : N) (l : list N) : bool := existsb (N.eqb x) l.
Fixpoint nodupN (l : list N) : list N :=
  match l with [] => [] | x :: r => if memN x r then nodupN r else x :: nodupN r end.

(* ================= requirement logic (internal/requirementlogic) ================= *)
Inductive req := Req (ids : list N) (nested : list req) (cnt mn mx : Z).

(* RequirementLogic.isLenApplicable *)
Definition len_ok (cnt mn mx val : Z) : bool :=
  negb (Z.ltb 0 cnt && negb (Z.eqb val cnt)) &&
  negb (Z.ltb 0 mn && Z.ltb val mn) &&
  negb (Z.ltb 0 mx && Z.ltb mx val).

(* RequirementLogic.IsSatisfiedBy (the satisfied descriptors are collected in a set: distinct ids) *)
Fixpoint satisfied (r : req) (s : list N) : bool :=
  match r with
  | Req ids nested cnt mn mx =>
      match nested with
      | [] => len_ok cnt mn mx (Z.of_nat (length (filter (fun i => memN i s) (nodupN ids))))
      | _ =>
          let fix count (l : list req) : nat :=
            match l with [] => O | c :: t => ((if satisfied c s then 1 else 0) + count t)%nat end in
          len_ok cnt mn mx (Z.of_nat (count nested))
      end
  end.

(* RequirementLogic.GetAllDescriptors *)
Fixpoint all_ids (r : req) : list N :=
  match r with
  | Req ids nested _ _ _ =>
      match nested with
      | [] => ids
      | _ => (fix go (l : list req) : list N := match l with [] => [] | c :: t => all_ids c ++ go t end) nested
      end
  end.

(* --- BitsetSolutionIterator --- *)
Record iter := { it_state : N; it_descs : list N; it_done : bool }.

(* NewBitsetIterator: the definition's descriptor ids, in order, that the requirement mentions *)
Definition new_iter (r : req) (descs : list N) : iter :=
  {| it_state := 0; it_descs := filter (fun d => memN d (all_ids r)) descs; it_done := false |}.

Fixpoint current_from (i : N) (st : N) (descs : list N) : list N :=
  match descs with
  | [] => []
  | d :: t => if N.testbit st i then d :: current_from (N.succ i) st t else current_from (N.succ i) st t
  end.
Definition current (st : N) (descs : list N) : list N := current_from 0 st descs.

(* incrementUntilValid; None = out of fuel (never for fuel >= 2^len, see Proofs) *)
Fixpoint search (fuel : nat) (r : req) (st : N) (descs : list N) : option (N * list N) :=
  match fuel with
  | O => None
  | S f =>
      match current st descs with
      | [] => Some (st, [])
      | cur => if satisfied r cur then Some (st, cur) else search f r (N.succ st) descs
      end
  end.

Fixpoint positions_from (i : nat) (ex descs : list N) : list nat :=
  match descs with
  | [] => []
  | d :: t => if memN d ex then i :: positions_from (S i) ex t else positions_from (S i) ex t
  end.
Fixpoint remove_pos_from (i : nat) (pos : list nat) (descs : list N) : list N :=
  match descs with
  | [] => []
  | d :: t => if existsb (Nat.eqb i) pos then remove_pos_from (S i) pos t else d :: remove_pos_from (S i) pos t
  end.

(* excludeDescriptors *)
Definition exclude_step (st : N) (descs : list N) (pos : list nat) : N * list N :=
  let k := N.of_nat (fold_right Nat.max O pos) in
  let bit := N.shiftl 1 k in
  let st1 := N.ldiff st (N.pred bit) in
  (N.shiftr (st1 + bit) (N.of_nat (length pos)), remove_pos_from 0 pos descs).

Definition fuel_for (descs : list N) : nat := S (Nat.pow 2 (length descs)).

(* Next: None = out of fuel; Some (it, []) = iteration complete *)
Definition next (r : req) (it : iter) (ex : list N) : option (iter * list N) :=
  if it_done it then Some (it, []) else
  let pos := positions_from 0 ex (it_descs it) in
  let '(st1, ds1) := match pos with
                     | [] => (N.succ (it_state it), it_descs it)
                     | _ => exclude_step (it_state it) (it_descs it) pos
                     end in
  match search (fuel_for ds1) r st1 ds1 with
  | None => None
  | Some (st2, cur) =>
      Some ({| it_state := st2; it_descs := ds1; it_done := match cur with [] => true | _ => false end |}, cur)
  end.

(* ================= credentials and definitions ================= *)
(* VArr: an array-valued member (of scalars): no scalar filter keyword accepts the array itself; its elements are
   addressed by index paths *)
Inductive jv := VNum (z : Z) | VStr (s : N) | VBool (b : bool) | VArr (l : list jv).
Fixpoint jv_eqb (a b : jv) : bool :=
  match a, b with
  | VNum x, VNum y => Z.eqb x y
  | VStr x, VStr y => N.eqb x y
  | VBool x, VBool y => Bool.eqb x y
  | VArr x, VArr y =>
      (fix go (x y : list jv) : bool :=
         match x, y with
         | [], [] => true
         | p :: r, q :: t => jv_eqb p q && go r t
         | _, _ => false
         end) x y
  | _, _ => false
  end.

(* path keys: k < 1000 names a leaf (k < 100 top-level member a<k>, 100*o + k member a<k> of the nested object o<o>);
   1000*(i+1) + k names element i of the array-valued leaf k ($.credentialSubject.a6[1] = 2006) *)
Definition is_idx (k : N) : bool := N.leb 1000 k.
Definition path_base (k : N) : N := if is_idx k then N.modulo k 1000 else k.
Definition path_pos (k : N) : nat := N.to_nat (N.div k 1000 - 1).

(* c_id 0 = no id; c_subject 0 = no subject id; c_jwt 0 = not a JWT credential, else the alg code;
   c_proofs = linked-data proof types; c_types = credential type TERMS, c_ctx = the JSON-LD context the credential
   uses (1 or 2): a schema URI is satisfied by a type term through the IRI that context gives the term (type_iri);
   c_sd = SD-JWT credential (every credentialSubject leaf is one disclosure; c_jwt is then its alg);
   c_rawsubj = the holder keeps the subject as a map it built itself, not in the form ParseCredential produces;
   c_attrs = credentialSubject leaves (key, value): key < 100 is a top-level member, key = 100*o + k the member
   k of the nested object o (the same claim name at two levels) *)
Record cred := { c_id : N; c_issuer : N; c_subject : N; c_ctx : N; c_types : list N; c_proofs : list N; c_jwt : N;
                 c_sd : bool; c_rawsubj : bool; c_attrs : list (N * jv) }.

Record jfilter := { ft_type : N;                 (* 0 none, 1 number, 2 string, 3 boolean *)
                   ft_const : option jv; ft_min : option Z; ft_max : option Z; ft_enum : list jv }.
Record field := { f_paths : list N; f_filter : option jfilter; f_optional : bool; f_pred : bool }.
Record constraints := { k_limit : bool; k_sii : bool; k_fields : list field }.
(* Format: ldp, ldp_vc, ldp_vp (proof types), jwt, jwt_vc, jwt_vp (algs); None = absent *)
Record format := { fm_ldp : option (list N); fm_ldpvc : option (list N); fm_ldpvp : option (list N);
                   fm_jwt : option (list N); fm_jwtvc : option (list N); fm_jwtvp : option (list N) }.
Record desc := { d_id : N; d_groups : list N; d_schema : list (N * bool);   (* (uri, required); [] = no schema member *)
                 d_constraints : option constraints; d_format : option format }.
Inductive sreq :=
| SFrom (all : bool) (cnt mn mx : Z) (grp : N)
| SNested (all : bool) (cnt mn mx : Z) (cs : list sreq).
Record defn := { p_format : option format; p_reqs : list sreq; p_descs : list desc }.

(* ---- toRequirement + toLogic; None = "no descriptors for from" ---- *)
Definition mk_logic (ids : list N) (nested : list req) (cnt mn mx : Z) : req :=
  let total := match nested with [] => Z.of_nat (length ids) | _ => Z.of_nat (length nested) end in
  Req ids nested cnt mn (if Z.eqb cnt 0 && Z.eqb mx 0 then total else mx).

Fixpoint to_logic (descs : list desc) (s : sreq) : option req :=
  match s with
  | SFrom all cnt mn mx g =>
      let ids := map d_id (filter (fun d => memN g (d_groups d)) descs) in
      match ids with
      | [] => None
      | _ => Some (mk_logic ids [] (if all then Z.of_nat (length ids) else cnt) mn mx)
      end
  | SNested all cnt mn mx cs =>
      let fix go (l : list sreq) : option (list req) :=
        match l with
        | [] => Some []
        | c :: t => match to_logic descs c with
                    | None => None
                    | Some r => match go t with None => None | Some rs => Some (r :: rs) end
                    end
        end in
      match go cs with
      | None => None
      | Some rs => Some (mk_logic [] rs (if all then Z.of_nat (length rs) else cnt) mn mx)
      end
  end.

Fixpoint to_logics (descs : list desc) (l : list sreq) : option (list req) :=
  match l with
  | [] => Some []
  | c :: t => match to_logic descs c with
              | None => None
              | Some r => match to_logics descs t with None => None | Some rs => Some (r :: rs) end
              end
  end.

(* makeRequirement + toLogic *)
Definition make_req (p : defn) : option req :=
  match p_reqs p with
  | [] => Some (mk_logic (map d_id (p_descs p)) [] (Z.of_nat (length (p_descs p))) 0 0)
  | srs => match to_logics (p_descs p) srs with
           | None => None
           | Some rs => Some (mk_logic [] rs (Z.of_nat (length srs)) 0 0)
           end
  end.

(* ================= descriptor evaluation ================= *)
Definition find_attr (k : N) (l : list (N * jv)) : option jv :=
  match find (fun kv => N.eqb (fst kv) k) l with Some kv => Some (snd kv) | None => None end.
Definition lookup (k : N) (c : cred) : option jv :=
  if is_idx k then
    match find_attr (path_base k) (c_attrs c) with
    | Some (VArr l) => nth_error l (path_pos k)
    | _ => None
    end
  else find_attr k (c_attrs c).

Definition type_ok (t : N) (v : jv) : bool :=
  match t, v with
  | 0%N, _ => true
  | 1%N, VNum _ => true
  | 2%N, VStr _ => true
  | 3%N, VBool _ => true
  | _, _ => false
  end.
Definition filter_ok (f : jfilter) (v : jv) : bool :=
  type_ok (ft_type f) v &&
  match ft_const f with None => true | Some c => jv_eqb c v end &&
  match ft_min f, v with Some m, VNum z => Z.leb m z | _, _ => true end &&
  match ft_max f, v with Some m, VNum z => Z.leb z m | _, _ => true end &&
  match ft_enum f with [] => true | l => existsb (jv_eqb v) l end.

(* filterField: true = nil, false = errPathNotApplicable *)
Fixpoint field_paths_ok (f : field) (c : cred) (paths : list N) (last : bool) : bool :=
  match paths with
  | [] => last
  | p :: r =>
      match lookup p c with
      | Some v => if match f_filter f with None => true | Some ft => filter_ok ft v end then true
                  else field_paths_ok f c r false
      | None => if f_optional f then true else field_paths_ok f c r false
      end
  end.
Definition field_ok (c : cred) (f : field) : bool := field_paths_ok f c (f_paths f) true.

Definition subject_is_issuer (c : cred) : bool := negb (N.eqb (c_subject c) 0) && N.eqb (c_subject c) (c_issuer c).

(* filterConstraints on one credential (constraints present) *)
Definition constraints_ok (k : constraints) (c : cred) : bool :=
  (negb (k_sii k) || subject_is_issuer c) &&
  match k_fields k with [] => false | fs => forallb (field_ok c) fs end.

(* JSON-LD: the IRI a type term stands for depends on the credential's context.  Vocabulary of the harness: term 1
   (VerifiableCredential) is IRI 1 everywhere; context 1 maps the terms 2,3,4 to the IRIs 2,3,4; context 2 maps term 3
   to the same IRI 3 but the terms 2 and 4 to the other IRIs 12 and 14 *)
Definition type_iri (ctx t : N) : N :=
  if N.eqb ctx 2 && (N.eqb t 2 || N.eqb t 4) then t + 10 else t.
Definition type_iris (c : cred) : list N := map (type_iri (c_ctx c)) (c_types c).

(* filterSchema on one credential *)
Fixpoint schema_loop (l : list (N * bool)) (c : cred) (app : bool) : bool :=
  match l with
  | [] => app
  | (uri, required) :: t =>
      if memN uri (type_iris c) then schema_loop t c true
      else if required then false else schema_loop t c app
  end.
Definition schema_ok (l : list (N * bool)) (c : cred) : bool := schema_loop l c false.

Definition has_any (want have : list N) : bool := existsb (fun w => memN w have) want.
Definition by_proof (o : option (list N)) (c : cred) : bool :=
  match o with None => false | Some l => has_any l (c_proofs c) end.
Definition by_alg (o : option (list N)) (c : cred) : bool :=
  match o with None => false | Some l => negb (N.eqb (c_jwt c) 0) && memN (c_jwt c) l end.
Definition format_not_nil (o : option format) : bool :=
  match o with
  | None => false
  | Some f => match fm_ldp f, fm_ldpvc f, fm_ldpvp f, fm_jwt f, fm_jwtvc f, fm_jwtvp f with
              | None, None, None, None, None, None => false
              | _, _, _, _, _, _ => true
              end
  end.

(* wrapped credential: (original index in the holder's list, credential) *)
Definition icred := (nat * cred)%type.

(* filterFormat: format code (1 ldp .. 6 jwt_vp, 0 none) and the first non-empty class *)
Definition filter_format (f : format) (cs : list icred) : N * list icred :=
  let cls (p : cred -> bool) := filter (fun ic => p (snd ic)) cs in
  let c1 := cls (by_proof (fm_ldp f)) in
  let c2 := cls (by_proof (fm_ldpvc f)) in
  let c3 := cls (by_proof (fm_ldpvp f)) in
  let c4 := cls (by_alg (fm_jwt f)) in
  let c5 := cls (by_alg (fm_jwtvc f)) in
  let c6 := cls (by_alg (fm_jwtvp f)) in
  match c1, c2, c3, c4, c5, c6 with
  | _ :: _, _, _, _, _, _ => (1%N, c1)
  | _, _ :: _, _, _, _, _ => (2%N, c2)
  | _, _, _ :: _, _, _, _ => (3%N, c3)
  | _, _, _, _ :: _, _, _ => (4%N, c4)
  | _, _, _, _, _ :: _, _ => (5%N, c5)
  | _, _, _, _, _, _ :: _ => (6%N, c6)
  | _, _, _, _, _, _ => (0%N, [])
  end.

(* filterCredentialsThatMatchDescriptor *)
Definition match_descriptor (p : defn) (d : desc) (cs : list icred) : N * list icred :=
  let fmt := if format_not_nil (d_format d) then d_format d else p_format p in
  let '(code, l1) := match fmt with
                     | Some f => if format_not_nil fmt then filter_format f cs else (0%N, cs)
                     | None => (0%N, cs)
                     end in
  let l2 := match d_schema d with [] => l1 | s => filter (fun ic => schema_ok s (snd ic)) l1 end in
  let l3 := match d_constraints d with
            | None => l2
            | Some k => filter (fun ic => constraints_ok k (snd ic)) l2
            end in
  (code, l3).

(* ---- limitDisclosure (plain credentials) ---- *)
Inductive ckey := KId (id : N) | KPtr (i : nat) | KTmp (d : N) (i : nat).
Definition ckey_eqb (a b : ckey) : bool :=
  match a, b with
  | KId x, KId y => N.eqb x y
  | KPtr x, KPtr y => Nat.eqb x y
  | KTmp d x, KTmp e y => N.eqb d e && Nat.eqb x y
  | _, _ => false
  end.
Record wcred := { w_key : ckey; w_src : nat; w_cred : cred }.

Definition set_attr (k : N) (v : jv) (l : list (N * jv)) : list (N * jv) :=
  if existsb (fun kv => N.eqb (fst kv) k) l
  then map (fun kv => if N.eqb (fst kv) k then (k, v) else kv) l
  else l ++ [(k, v)].

(* sjson.Set of an array element *)
Fixpoint set_nth_jv (n : nat) (v : jv) (l : list jv) : list jv :=
  match n, l with
  | _, [] => [v]
  | O, _ :: t => v :: t
  | S m, x :: t => x :: set_nth_jv m v t
  end.
Definition set_elem (k : N) (pos : nat) (v : jv) (l : list (N * jv)) : list (N * jv) :=
  match find_attr k l with
  | Some (VArr a) => set_attr k (VArr (set_nth_jv pos v a)) l
  | _ => set_attr k (VArr [v]) l
  end.

Fixpoint insert_N (x : N) (l : list N) : list N :=
  match l with [] => [x] | y :: t => if N.leb x y then x :: l else y :: insert_N x t end.
(* the streaming JSONPath evaluator reports matches in document order: the elements of one array by rising index *)
Definition doc_order (paths : list N) : list N :=
  filter (fun k => negb (is_idx k)) paths ++ fold_right insert_N [] (filter is_idx paths).

(* positions of kept array elements in the limited credential (compactArrayPaths/getPath): (index path, position) *)
Definition posmap := list (N * nat).
Definition pos_of (k : N) (pm : posmap) : option nat :=
  match find (fun e => N.eqb (fst e) k) pm with Some e => Some (snd e) | None => None end.
Definition next_pos (k : N) (pm : posmap) : nat :=
  length (filter (fun e => N.eqb (path_base (fst e)) (path_base k)) pm).

(* createNewCredential: every path of every field that exists in the source is written into the template (value,
   or true for a predicate field).  compact = the template is the minimal one (limit_disclosure): array elements
   land on consecutive positions; otherwise (repaired code) on their own position. *)
Fixpoint write_paths (src : cred) (pred compact : bool) (paths : list N) (pm : posmap) (acc : list (N * jv))
  : posmap * list (N * jv) :=
  match paths with
  | [] => (pm, acc)
  | p :: r =>
      match lookup p src with
      | Some v =>
          let v' := if pred then VBool true else v in
          if is_idx p then
            if compact then
              match pos_of p pm with
              | Some n => write_paths src pred compact r pm (set_elem (path_base p) n v' acc)
              | None => let n := next_pos p pm in
                        write_paths src pred compact r (pm ++ [(p, n)]) (set_elem (path_base p) n v' acc)
              end
            else write_paths src pred compact r pm (set_elem (path_base p) (path_pos p) v' acc)
          else write_paths src pred compact r pm (set_attr p v' acc)
      | None => write_paths src pred compact r pm acc
      end
  end.

(* v = AsIs: before fixes 1df7ff3 / d3f0a75 every field numbered the positions anew and the positions were the
   compacted ones even on the full credential *)
Fixpoint write_fields (v : variant) (src : cred) (limit : bool) (fs : list field) (pm : posmap) (acc : list (N * jv))
  : list (N * jv) :=
  match fs with
  | [] => acc
  | f :: r =>
      let compact := match v with AsIs => true | Fixed => limit end in
      let '(pm', acc') := write_paths src (f_pred f) compact (doc_order (f_paths f)) (match v with AsIs => [] | Fixed => pm end) acc in
      write_fields v src limit r pm' acc'
  end.

Definition id_key (v : variant) (i : nat) (c : cred) : ckey :=
  match v with
  | AsIs => KId (c_id c)
  | Fixed => if N.eqb (c_id c) 0 then KPtr i else KId (c_id c)
  end.

(* the new credential of createNewCredential (plain credentials).  The template of a limited credential keeps
   id, type, issuer, issuanceDate and toSubject(subject): the subject id alone for the parsed single-subject form,
   the WHOLE subject for a subject held as a map (pinned by the package's example tests: known finding) *)
Definition limited_cred (v : variant) (k : constraints) (c : cred) : cred :=
  {| c_id := c_id c; c_issuer := c_issuer c; c_subject := c_subject c; c_ctx := c_ctx c; c_types := c_types c;
     c_proofs := if k_limit k then [] else c_proofs c; c_jwt := c_jwt c; c_sd := false; c_rawsubj := false;
     c_attrs := write_fields v c (k_limit k) (k_fields k) []
                             (if k_limit k then (if c_rawsubj c then c_attrs c else []) else c_attrs c) |}.

(* getLimitedDisclosures (SD-JWT): the disclosures kept are those of the leaves a field path names, identified by
   their position (digest listed in the parent object of the path), never by claim name alone *)
Definition requested (k : constraints) (key : N) : bool := existsb (fun f => memN key (f_paths f)) (k_fields k).
Definition sd_limited (k : constraints) (c : cred) : cred :=
  {| c_id := c_id c; c_issuer := c_issuer c; c_subject := c_subject c; c_ctx := c_ctx c; c_types := c_types c;
     c_proofs := c_proofs c; c_jwt := c_jwt c; c_sd := true; c_rawsubj := false;
     c_attrs := filter (fun kv => requested k (fst kv)) (c_attrs c) |}.

Definition limit_one (v : variant) (d : desc) (ic : icred) : list wcred :=
  let '(i, c) := ic in
  match d_constraints d with
  | None => [{| w_key := id_key v i c; w_src := i; w_cred := c |}]
  | Some k =>
      if c_sd c then
        if k_limit k then [{| w_key := KTmp (d_id d) i; w_src := i; w_cred := sd_limited k c |}]
        else [{| w_key := id_key v i c; w_src := i; w_cred := c |}]
      else
      let pred := existsb f_pred (k_fields k) in
      (* supportsSelectiveDisclosure: a BBS+ credential (proof type 3) is limited by deriving a proof that reveals
         the template + requested members: at the level of members the same credential as the field copy *)
      if k_limit k && negb (pred || subject_is_issuer c || memN 3 (c_proofs c)) then []
      else if k_limit k || pred then [{| w_key := KTmp (d_id d) i; w_src := i; w_cred := limited_cred v k c |}]
      else [{| w_key := id_key v i c; w_src := i; w_cred := c |}]
  end.
Definition limit_disclosure (v : variant) (d : desc) (l : list icred) : list wcred :=
  flat_map (limit_one v d) l.

(* ================= applyRequirement ================= *)
Record dmatch := { m_desc : N; m_fmt : N; m_creds : list wcred }.

Definition find_desc (p : defn) (id : N) : option desc := find (fun d => N.eqb (d_id d) id) (p_descs p).
Definition find_match (ms : list dmatch) (id : N) : option dmatch := find (fun m => N.eqb (m_desc m) id) ms.

Fixpoint index_creds (i : nat) (cs : list cred) : list icred :=
  match cs with [] => [] | c :: t => (i, c) :: index_creds (S i) t end.

(* the inner loop over one candidate solution: (solved, evaluated', matches', exclude') *)
Fixpoint eval_sol (v : variant) (p : defn) (cs : list icred) (sol : list N)
         (evaluated : list N) (ms : list dmatch) : bool * list N * list dmatch * list N :=
  match sol with
  | [] => (true, evaluated, ms, [])
  | id :: rest =>
      if memN id evaluated then
        match find_match ms id with
        | None => (false, evaluated, ms, [])
        | Some _ => eval_sol v p cs rest evaluated ms
        end
      else
        match find_desc p id with
        | None => (false, id :: evaluated, ms, [id])        (* unreachable: ids come from the definition *)
        | Some d =>
            let '(code, l) := match_descriptor p d cs in
            match limit_disclosure v d l with
            | [] => (false, id :: evaluated, ms, [id])
            | ws => eval_sol v p cs rest (id :: evaluated) ({| m_desc := id; m_fmt := code; m_creds := ws |} :: ms)
            end
        end
  end.

Inductive hres :=
| HOk (fmt : N) (sel : list dmatch)      (* vp format code, the selected descriptors with their credentials *)
| HNoFrom                                (* "no descriptors for from" *)
| HNoCreds                               (* ErrNoCredentials *)
| HFuel.                                 (* model ran out of fuel (never: see Proofs) *)

Fixpoint apply_loop (fuel : nat) (v : variant) (p : defn) (cs : list icred) (r : req) (it : iter)
         (evaluated : list N) (ms : list dmatch) (ex : list N) : hres :=
  match fuel with
  | O => HFuel
  | S f =>
      match next r it ex with
      | None => HFuel
      | Some (it', sol) =>
          match sol with
          | [] => HNoCreds
          | _ =>
              let '(solved, ev', ms', ex') := eval_sol v p cs sol evaluated ms in
              if solved then
                let sel := flat_map (fun id => match find_match ms' id with Some m => [m] | None => [] end) sol in
                let fmt := fold_left (fun acc m => if N.eqb (m_fmt m) 0 then acc else m_fmt m) sel 3%N in
                HOk fmt sel
              else apply_loop f v p cs r it' ev' ms' ex'
          end
      end
  end.

Definition holder_select (v : variant) (p : defn) (creds : list cred) : hres :=
  match make_req p with
  | None => HNoFrom
  | Some r =>
      let it := new_iter r (map d_id (p_descs p)) in
      apply_loop (S (S (Nat.pow 2 (length (it_descs it)))) + length (it_descs it)) v p (index_creds 0 creds) r it [] [] []
  end.

(* ---- the code as found before fix d2cbd9f: limit disclosure of an SD-JWT credential REPLACED the disclosures of
   the credential object itself, which every input descriptor (and the caller) shares: the holder's credential
   list is state of the selection loop, and a wrapped SD-JWT credential is a reference into it (it shows whatever
   the object holds when the presentation is assembled).  Kept as a separate copy of the loop so that the
   repaired functions above stay pure. ---- *)
Fixpoint set_nth (i : nat) (c : cred) (l : list icred) : list icred :=
  match l with
  | [] => []
  | (j, x) :: t => if Nat.eqb i j then (j, c) :: t else (j, x) :: set_nth i c t
  end.

Definition limit_shared (d : desc) (cs : list icred) (l : list icred) : list wcred * list icred :=
  fold_left (fun (acc : list wcred * list icred) (ic : icred) =>
               let '(ws, st) := acc in
               let '(i, c0) := ic in
               (* the object as it is now *)
               let c := match find (fun jc => Nat.eqb (fst jc) i) st with Some jc => snd jc | None => c0 end in
               match d_constraints d with
               | Some k =>
                   if c_sd c && k_limit k
                   then (ws ++ [{| w_key := KId (c_id c); w_src := i; w_cred := sd_limited k c |}], set_nth i (sd_limited k c) st)
                   else (ws ++ limit_one AsIs d (i, c), st)
               | None => (ws ++ limit_one AsIs d (i, c), st)
               end) l ([], cs).

Fixpoint eval_sol_shared (p : defn) (cs : list icred) (sol : list N) (evaluated : list N) (ms : list dmatch)
  : bool * list N * list dmatch * list N * list icred :=
  match sol with
  | [] => (true, evaluated, ms, [], cs)
  | id :: rest =>
      if memN id evaluated then
        match find_match ms id with
        | None => (false, evaluated, ms, [], cs)
        | Some _ => eval_sol_shared p cs rest evaluated ms
        end
      else
        match find_desc p id with
        | None => (false, id :: evaluated, ms, [id], cs)
        | Some d =>
            let '(code, l) := match_descriptor p d cs in
            let '(ws, cs') := limit_shared d cs l in
            match ws with
            | [] => (false, id :: evaluated, ms, [id], cs')
            | _ => eval_sol_shared p cs' rest (id :: evaluated) ({| m_desc := id; m_fmt := code; m_creds := ws |} :: ms)
            end
        end
  end.

Fixpoint apply_loop_shared (fuel : nat) (p : defn) (cs : list icred) (r : req) (it : iter)
         (evaluated : list N) (ms : list dmatch) (ex : list N) : hres * list icred :=
  match fuel with
  | O => (HFuel, cs)
  | S f =>
      match next r it ex with
      | None => (HFuel, cs)
      | Some (it', sol) =>
          match sol with
          | [] => (HNoCreds, cs)
          | _ =>
              let '(solved, ev', ms', ex', cs') := eval_sol_shared p cs sol evaluated ms in
              if solved then
                let sel := flat_map (fun id => match find_match ms' id with Some m => [m] | None => [] end) sol in
                let fmt := fold_left (fun acc m => if N.eqb (m_fmt m) 0 then acc else m_fmt m) sel 3%N in
                (HOk fmt sel, cs')
              else apply_loop_shared f p cs' r it' ev' ms' ex'
          end
      end
  end.

(* a wrapped SD-JWT credential shows what the shared object holds at the end *)
Definition resolve_shared (cs : list icred) (w : wcred) : wcred :=
  if c_sd (w_cred w)
  then match find (fun jc => Nat.eqb (fst jc) (w_src w)) cs with
       | Some jc => {| w_key := w_key w; w_src := w_src w; w_cred := snd jc |}
       | None => w
       end
  else w.

(* ================= merge ================= *)
Fixpoint insert_dm (m : dmatch) (l : list dmatch) : list dmatch :=
  match l with
  | [] => [m]
  | x :: t => if N.leb (m_desc m) (m_desc x) then m :: l else x :: insert_dm m t
  end.
Definition sort_dm (l : list dmatch) : list dmatch := fold_right insert_dm [] l.

Fixpoint key_index (k : ckey) (keys : list ckey) : option nat :=
  match keys with
  | [] => None
  | x :: t => if ckey_eqb k x then Some O else match key_index k t with Some n => Some (S n) | None => None end
  end.

(* one descriptor-map entry: descriptor id, index into verifiableCredential, vc format (2 ldp_vc, 5 jwt_vc) *)
Record mapping := { mp_id : N; mp_idx : nat; mp_vcfmt : N }.

Fixpoint merge_creds (d : N) (ws : list wcred) (keys : list ckey) (out : list cred) (maps : list mapping)
  : list ckey * list cred * list mapping :=
  match ws with
  | [] => (keys, out, maps)
  | w :: t =>
      let vcfmt := if N.eqb (c_jwt (w_cred w)) 0 then 2%N else 5%N in
      match key_index (w_key w) keys with
      | Some n => merge_creds d t keys out (maps ++ [{| mp_id := d; mp_idx := n; mp_vcfmt := vcfmt |}])
      | None => merge_creds d t (keys ++ [w_key w]) (out ++ [w_cred w])
                            (maps ++ [{| mp_id := d; mp_idx := length out; mp_vcfmt := vcfmt |}])
      end
  end.
Fixpoint merge_all (sel : list dmatch) (keys : list ckey) (out : list cred) (maps : list mapping)
  : list cred * list mapping :=
  match sel with
  | [] => (out, maps)
  | m :: t => let '(k', o', mp') := merge_creds (m_desc m) (m_creds m) keys out maps in merge_all t k' o' mp'
  end.

(* what CreateVP hands over *)
Record vp := { vp_fmt : N; vp_creds : list cred; vp_map : list mapping }.
Inductive cres := COk (x : vp) | CNoFrom | CNoCreds | CFuel.

Definition create_vp (v : variant) (p : defn) (creds : list cred) : cres :=
  match holder_select v p creds with
  | HOk fmt sel => let '(out, maps) := merge_all (sort_dm sel) [] [] [] in
                   COk {| vp_fmt := fmt; vp_creds := out; vp_map := maps |}
  | HNoFrom => CNoFrom
  | HNoCreds => CNoCreds
  | HFuel => CFuel
  end.

(* CreateVP as found before fix d2cbd9f (shared SD-JWT credential objects) *)
Definition create_vp_shared (p : defn) (creds : list cred) : cres :=
  match make_req p with
  | None => CNoFrom
  | Some r =>
      let it := new_iter r (map d_id (p_descs p)) in
      match apply_loop_shared (S (S (Nat.pow 2 (length (it_descs it)))) + length (it_descs it)) p (index_creds 0 creds) r it [] [] [] with
      | (HOk fmt sel, cs') =>
          let sel' := map (fun m => {| m_desc := m_desc m; m_fmt := m_fmt m; m_creds := map (resolve_shared cs') (m_creds m) |}) sel in
          let '(out, maps) := merge_all (sort_dm sel') [] [] [] in
          COk {| vp_fmt := fmt; vp_creds := out; vp_map := maps |}
      | (HNoFrom, _) => CNoFrom
      | (HNoCreds, _) => CNoCreds
      | (HFuel, _) => CFuel
      end
  end.

(* ================= Match ================= *)
Inductive mres :=
| MOk (l : list (N * cred))              (* descriptor id -> credential, in order of first appearance, last write wins *)
| MUnknownId | MBadPath | MSchema | MReq | MNoFrom.

Fixpoint put_match (id : N) (c : cred) (l : list (N * cred)) : list (N * cred) :=
  match l with
  | [] => [(id, c)]
  | (i, x) :: t => if N.eqb i id then (i, c) :: t else (i, x) :: put_match id c t
  end.

Fixpoint matched_creds (p : defn) (disable_schema : bool) (creds : list cred) (maps : list mapping)
         (acc : list (N * cred)) : mres :=
  match maps with
  | [] => MOk acc
  | m :: t =>
      match find_desc p (mp_id m) with
      | None => MUnknownId
      | Some d =>
          match nth_error creds (mp_idx m) with
          | None => MBadPath
          | Some c =>
              if schema_ok (d_schema d) c || disable_schema
              then matched_creds p disable_schema creds t (put_match (mp_id m) c acc)
              else MSchema
          end
      end
  end.

(* evalSubmissionRequirements *)
Definition eval_requirements (v : variant) (p : defn) (matched : list N) : option mres :=
  let every := forallb (fun d => memN (d_id d) matched) (p_descs p) in
  match v with
  | AsIs => if every then None else Some MReq
  | Fixed =>
      match p_reqs p with
      | [] => if every then None else Some MReq
      | _ => match make_req p with
             | None => Some MNoFrom
             | Some r => if satisfied r matched then None else Some MReq
             end
      end
  end.

Definition verifier_match (v : variant) (p : defn) (disable_schema : bool) (x : vp) : mres :=
  match matched_creds p disable_schema (vp_creds x) (vp_map x) [] with
  | MOk l => match eval_requirements v p (map fst l) with None => MOk l | Some e => e end
  | e => e
  end.

(* definitions of the v2 flavour carry no schema member: the caller disables schema validation *)
Definition no_schemas (p : defn) : bool := forallb (fun d => match d_schema d with [] => true | _ => false end) (p_descs p).

(* ================= CreateVPArray and Match with a merged submission ================= *)
(* CreateVPArray hands over one presentation per credential of the same merged list and one submission whose
   entries have path $[i] / $.verifiableCredential[0]: as data the same (credentials, descriptor map) pair, mp_idx
   being the presentation index.  Match with WithMergedSubmission walks the presentations in order and, for each,
   its entries in submission order (entries pointing past the last presentation are never looked at). *)
Definition by_presentation (n : nat) (maps : list mapping) : list mapping :=
  flat_map (fun i => filter (fun mp => Nat.eqb (mp_idx mp) i) maps) (seq 0 n).

Definition verifier_match_merged (v : variant) (p : defn) (disable_schema : bool) (x : vp) : mres :=
  match matched_creds p disable_schema (vp_creds x) (by_presentation (length (vp_creds x)) (vp_map x)) [] with
  | MOk l => match eval_requirements v p (map fst l) with None => MOk l | Some e => e end
  | e => e
  end.

(* ================= MatchSubmissionRequirement ================= *)
(* the descriptors in the order matchRequirement visits them; None = "no descriptors for from" *)
Fixpoint sreq_descs (descs : list desc) (s : sreq) : option (list desc) :=
  match s with
  | SFrom _ _ _ _ g => match filter (fun d => memN g (d_groups d)) descs with [] => None | l => Some l end
  | SNested _ _ _ _ cs =>
      (fix go (l : list sreq) : option (list desc) :=
         match l with
         | [] => Some []
         | c :: t => match sreq_descs descs c, go t with Some a, Some b => Some (a ++ b) | _, _ => None end
         end) cs
  end.
Fixpoint sreqs_descs (descs : list desc) (l : list sreq) : option (list desc) :=
  match l with
  | [] => Some []
  | c :: t => match sreq_descs descs c, sreqs_descs descs t with Some a, Some b => Some (a ++ b) | _, _ => None end
  end.

(* per visited descriptor the credentials MatchSubmissionRequirement reports; apply = WithSelectiveDisclosureApply *)
Definition msr_one (v : variant) (p : defn) (cs : list icred) (apply : bool) (d : desc) : N * list cred :=
  let l := snd (match_descriptor p d cs) in
  (d_id d, if apply then map w_cred (limit_disclosure v d l) else map snd l).

Definition msr (v : variant) (p : defn) (creds : list cred) (apply : bool) : option (list (N * list cred)) :=
  let ds := match p_reqs p with [] => Some (p_descs p) | srs => sreqs_descs (p_descs p) srs end in
  match ds with
  | None => None
  | Some l => Some (map (msr_one v p (index_creds 0 creds) apply) l)
  end.
