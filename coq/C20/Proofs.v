(* C20 — lemmas. *)
From Coq Require Import List NArith ZArith Bool Lia.
Import ListNotations.
From VF Require Import C20.Model.

(* ---------- iterator soundness: search only returns sets that satisfy the requirement ---------- *)
Lemma search_sound : forall fuel r st descs st' cur,
  search fuel r st descs = Some (st', cur) -> cur <> [] -> satisfied r cur = true /\ cur = current st' descs.
Proof.
  induction fuel as [|f IH]; intros r st descs st' cur H Hne; simpl in H; [discriminate|].
  destruct (current st descs) as [|x xs] eqn:Hc.
  - inversion H; subst. congruence.
  - destruct (satisfied r (x :: xs)) eqn:Hs.
    + inversion H; subst. split; [exact Hs | symmetry; exact Hc].
    + eapply IH; eauto.
Qed.
