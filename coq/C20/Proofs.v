(* C20 — lemmas (holder side). *)
From Coq Require Import List NArith ZArith Bool Lia.
Import ListNotations.
From VF Require Import C20.Model.

Lemma memN_In : forall x l, memN x l = true <-> In x l.
Proof.
  intros x l. unfold memN. rewrite existsb_exists. split.
  - intros [y [Hy He]]. apply N.eqb_eq in He. subst. exact Hy.
  - intros H. exists x. split; [exact H | apply N.eqb_refl].
Qed.

Lemma ckey_eqb_eq : forall a b, ckey_eqb a b = true <-> a = b.
Proof.
  intros [x|x|d x] [y|y|e y]; simpl; split; intros H; try discriminate; try congruence.
  - apply N.eqb_eq in H. congruence.
  - inversion H. apply N.eqb_refl.
  - apply Nat.eqb_eq in H. congruence.
  - inversion H. apply Nat.eqb_refl.
  - apply andb_true_iff in H as [H1 H2]. apply N.eqb_eq in H1. apply Nat.eqb_eq in H2. congruence.
  - inversion H. rewrite N.eqb_refl, Nat.eqb_refl. reflexivity.
Qed.

(* ---------- iterator soundness ---------- *)
Lemma search_sound : forall fuel r st descs st' cur,
  search fuel r st descs = Some (st', cur) -> cur <> [] -> satisfied r cur = true /\ cur = current st' descs.
Proof.
  induction fuel as [|f IH]; intros r st descs st' cur H Hne; simpl in H; [discriminate|].
  destruct (current st descs) as [|x xs] eqn:Hc.
  - inversion H; subst. congruence.
  - destruct (satisfied r (x :: xs)) eqn:Hs.
    + inversion H; subst. split; [exact Hs | symmetry; exact Hc].
    + eapply IH; eauto.
Qed.

Lemma current_from_sub : forall descs i st x, In x (current_from i st descs) -> In x descs.
Proof.
  induction descs as [|d t IH]; intros i st x H; simpl in *; [exact H|].
  destruct (N.testbit st i); [destruct H as [H|H]; [left; exact H | right; eapply IH; eauto] | right; eapply IH; eauto].
Qed.

Lemma remove_pos_sub : forall descs i pos x, In x (remove_pos_from i pos descs) -> In x descs.
Proof.
  induction descs as [|d t IH]; intros i pos x H; simpl in *; [exact H|].
  destruct (existsb (Nat.eqb i) pos); [right; eapply IH; eauto|].
  destruct H as [H|H]; [left; exact H | right; eapply IH; eauto].
Qed.


Lemma next_sound : forall r it ex it' sol,
  next r it ex = Some (it', sol) -> sol <> [] ->
  satisfied r sol = true /\ (forall x, In x sol -> In x (it_descs it)).
Proof.
  intros r it ex it' sol H Hne. unfold next in H.
  destruct (it_done it); [inversion H; subst; congruence|].
  destruct (positions_from 0 ex (it_descs it)) as [|p ps] eqn:Hp.
  - destruct (search (fuel_for (it_descs it)) r (N.succ (it_state it)) (it_descs it)) as [[st2 cur]|] eqn:Hs; [|discriminate].
    inversion H; subst. destruct (search_sound _ _ _ _ _ _ Hs Hne) as [H1 H2]. split; [exact H1|].
    intros x Hx. rewrite H2 in Hx. eapply current_from_sub; exact Hx.
  - unfold exclude_step in H.
    match type of H with context [search ?f r ?s ?d] => destruct (search f r s d) as [[st2 cur]|] eqn:Hs; [|discriminate] end.
    inversion H; subst. destruct (search_sound _ _ _ _ _ _ Hs Hne) as [H1 H2]. split; [exact H1|].
    intros x Hx. rewrite H2 in Hx. apply current_from_sub in Hx. eapply remove_pos_sub; exact Hx.
Qed.

(* ---------- the holder's selection ---------- *)
Definition good (v : variant) (p : defn) (cs : list icred) (m : dmatch) : Prop :=
  exists d, find_desc p (m_desc m) = Some d /\ d_id d = m_desc m /\ In d (p_descs p) /\
            m_creds m = limit_disclosure v d (snd (match_descriptor p d cs)) /\ m_creds m <> [].

Lemma find_desc_spec : forall p id d, find_desc p id = Some d -> d_id d = id /\ In d (p_descs p).
Proof.
  intros p id d H. unfold find_desc in H. apply find_some in H as [H1 H2]. apply N.eqb_eq in H2. auto.
Qed.
Lemma find_match_spec : forall ms id m, find_match ms id = Some m -> m_desc m = id /\ In m ms.
Proof.
  intros ms id m H. unfold find_match in H. apply find_some in H as [H1 H2]. apply N.eqb_eq in H2. auto.
Qed.

Definition found (ms : list dmatch) (id : N) : Prop := exists m, find_match ms id = Some m.

Lemma found_cons : forall m ms id, found ms id -> found (m :: ms) id.
Proof.
  intros m ms id [x Hx]. unfold found, find_match in *. simpl.
  destruct (N.eqb (m_desc m) id); eauto.
Qed.

Lemma eval_sol_inv : forall v p cs sol ev ms b ev' ms' ex',
  eval_sol v p cs sol ev ms = (b, ev', ms', ex') ->
  Forall (good v p cs) ms ->
  Forall (good v p cs) ms' /\ (forall id, found ms id -> found ms' id) /\
  (b = true -> forall id, In id sol -> found ms' id).
Proof.
  intros v p cs sol. induction sol as [|id rest IH]; intros ev ms b ev' ms' ex' H G; simpl in H.
  - inversion H; subst. repeat split; auto. intros _ id [].
  - destruct (memN id ev) eqn:Hev.
    + destruct (find_match ms id) as [m|] eqn:Hf.
      * destruct (IH _ _ _ _ _ _ H G) as [A [B C]]. repeat split; auto.
        intros Hb x [Hx|Hx]; [subst; apply B; exists m; exact Hf | apply C; auto].
      * inversion H; subst. repeat split; auto. discriminate.
    + destruct (find_desc p id) as [d|] eqn:Hd.
      * destruct (match_descriptor p d cs) as [code l] eqn:Hm.
        destruct (limit_disclosure v d l) as [|w ws] eqn:Hl.
        -- inversion H; subst. repeat split; auto. discriminate.
        -- set (m := {| m_desc := id; m_fmt := code; m_creds := w :: ws |}) in *.
           assert (Gm : good v p cs m).
           { destruct (find_desc_spec _ _ _ Hd) as [E1 E2]. exists d. simpl. repeat split; auto.
             - rewrite Hm. simpl. symmetry. exact Hl.
             - discriminate. }
           destruct (IH _ _ _ _ _ _ H (Forall_cons _ Gm G)) as [A [B C]]. repeat split; auto.
           ++ intros x Hx. apply B. apply found_cons. exact Hx.
           ++ intros Hb x [Hx|Hx]; [|apply C; auto]. subst x. apply B.
              exists m. unfold find_match. simpl. rewrite N.eqb_refl. reflexivity.
      * inversion H; subst. repeat split; auto. discriminate.
Qed.

Definition sel_of (ms : list dmatch) (sol : list N) : list dmatch :=
  flat_map (fun id => match find_match ms id with Some m => [m] | None => [] end) sol.

Lemma sel_of_ids : forall ms sol, (forall id, In id sol -> found ms id) -> map m_desc (sel_of ms sol) = sol.
Proof.
  intros ms sol. induction sol as [|id rest IH]; intros H; simpl; [reflexivity|].
  destruct (H id (or_introl eq_refl)) as [m Hm]. rewrite Hm. simpl.
  destruct (find_match_spec _ _ _ Hm) as [E _]. rewrite E. f_equal. apply IH. intros x Hx. apply H. right. exact Hx.
Qed.

Lemma sel_of_in : forall ms sol m, In m (sel_of ms sol) -> In m ms.
Proof.
  intros ms sol m H. unfold sel_of in H. apply in_flat_map in H as [id [_ H]].
  destruct (find_match ms id) as [x|] eqn:Hf; [|contradiction].
  destruct H as [H|[]]. subst. apply find_match_spec in Hf. tauto.
Qed.

Lemma apply_loop_spec : forall fuel v p cs r it ev ms ex fmt sel,
  apply_loop fuel v p cs r it ev ms ex = HOk fmt sel ->
  Forall (good v p cs) ms ->
  exists sol, sol <> [] /\ satisfied r sol = true /\ map m_desc sel = sol /\ Forall (good v p cs) sel.
Proof.
  induction fuel as [|f IH]; intros v p cs r it ev ms ex fmt sel H G; simpl in H; [discriminate|].
  destruct (next r it ex) as [[it' sol]|] eqn:Hn; [|discriminate].
  destruct sol as [|s0 srest] eqn:Hsol; [discriminate|].
  destruct (eval_sol v p cs (s0 :: srest) ev ms) as [[[solved ev'] ms'] ex'] eqn:He.
  destruct (eval_sol_inv _ _ _ _ _ _ _ _ _ _ He G) as [A [B C]].
  destruct solved.
  - inversion H; subst. exists (s0 :: srest). split; [discriminate|].
    destruct (next_sound _ _ _ _ _ Hn) as [S1 _]; [discriminate|]. split; [exact S1|].
    split.
    + apply (sel_of_ids ms' (s0 :: srest)). apply C. reflexivity.
    + apply Forall_forall. intros m Hm. rewrite Forall_forall in A. apply A.
      eapply (sel_of_in ms' (s0 :: srest)). exact Hm.
  - eapply IH; eauto.
Qed.

Lemma holder_select_spec : forall v p creds fmt sel,
  holder_select v p creds = HOk fmt sel ->
  exists r sol, make_req p = Some r /\ sol <> [] /\ satisfied r sol = true /\ map m_desc sel = sol /\
                Forall (good v p (index_creds 0 creds)) sel.
Proof.
  intros v p creds fmt sel H. unfold holder_select in H.
  destruct (make_req p) as [r|] eqn:Hr; [|discriminate].
  apply apply_loop_spec in H; [|constructor].
  destruct H as [sol H]. exists r, sol. tauto.
Qed.
