(* C20 — property theorems only. *)
From Coq Require Import List NArith ZArith Bool.
Import ListNotations.
From VF Require Import C20.Model C20.Proofs.

(* every set the solution iterator's search returns satisfies the requirement it was created for *)
Theorem iterator_search_sound : forall fuel r st descs st' cur,
  search fuel r st descs = Some (st', cur) -> cur <> [] -> satisfied r cur = true /\ cur = current st' descs.
Proof. exact search_sound. Qed.
Print Assumptions iterator_search_sound.
