(* C20 — property theorems only.  Every proof is `exact <lemma>` or a closed computation on a witness. *)
From Coq Require Import List NArith ZArith Bool.
Import ListNotations.
From VF Require Import C20.Model C20.Proofs C20.ProofsB C20.ProofsC C20.ProofsD C20.ProofsE C20.ProofsF.
Local Open Scope N_scope.

(* FULL STATEMENT, verifier side (repaired code).  For every definition (any descriptors with distinct ids, any
   schema lists, formats, constraints, any submission-requirement tree) and every list of credentials (ids, when
   present, distinct): if CreateVP produces a presentation, Match on that presentation for the same definition
   succeeds, returns at least one credential, and every credential it returns under descriptor id is (the
   disclosed form of) a credential of the holder that satisfies that descriptor's schema list and constraints.
   `disable` is WithDisableSchemaValidation, which a verifier must pass for definitions without schema members. *)
Theorem verifier_accepts : forall p creds x disable,
  NoDup (map d_id (p_descs p)) -> unique_ids creds ->
  (disable = false -> forall d, In d (p_descs p) -> d_schema d <> []) ->
  create_vp Fixed p creds = COk x ->
  exists l, verifier_match Fixed p disable x = MOk l /\ l <> [] /\
    forall id c, In (id, c) l ->
      exists d w, find_desc p id = Some d /\ derives Fixed p creds d w /\ c = w_cred w.
Proof. exact verifier_accepts_lemma. Qed.
Print Assumptions verifier_accepts.

(* The same for the other public entry point pair, CreateVPArray (one presentation per credential and one merged
   submission with paths $[i] / $.verifiableCredential[0]) and Match with that merged submission: as data the same
   credential list and descriptor map, walked presentation by presentation on the verifier side. *)
Theorem verifier_accepts_presentation_array : forall p creds x disable,
  NoDup (map d_id (p_descs p)) -> unique_ids creds ->
  (disable = false -> forall d, In d (p_descs p) -> d_schema d <> []) ->
  create_vp Fixed p creds = COk x ->
  exists l, verifier_match_merged Fixed p disable x = MOk l /\ l <> [] /\
    forall id c, In (id, c) l ->
      exists d w, find_desc p id = Some d /\ derives Fixed p creds d w /\ c = w_cred w.
Proof. exact verifier_accepts_merged_lemma. Qed.
Print Assumptions verifier_accepts_presentation_array.

(* MatchSubmissionRequirement (what a holder application is offered per descriptor): every credential reported
   under a descriptor of the definition is a holder credential satisfying it, or with
   WithSelectiveDisclosureApply its disclosed form. *)
Theorem match_submission_requirement_sound : forall v p creds apply out id cs c,
  msr v p creds apply = Some out -> In (id, cs) out -> In c cs ->
  exists d, d_id d = id /\ In d (p_descs p) /\
    if apply then exists w, derives v p creds d w /\ c = w_cred w
    else exists i, nth_error creds i = Some c /\ sat_desc d c.
Proof. exact msr_sound_lemma. Qed.
Print Assumptions match_submission_requirement_sound.

(* Holder side: every descriptor-map entry points at a credential of the presentation that derives from a holder
   credential satisfying that descriptor, and every credential of the presentation is pointed at by an entry:
   credentials that satisfy no (selected) descriptor are never included. *)
Theorem holder_output_satisfies : forall p creds x,
  unique_ids creds -> create_vp Fixed p creds = COk x ->
  (forall mp, In mp (vp_map x) ->
     exists c d w, nth_error (vp_creds x) (mp_idx mp) = Some c /\ find_desc p (mp_id mp) = Some d /\
                   derives Fixed p creds d w /\ c = w_cred w) /\
  (forall n, (n < length (vp_creds x))%nat -> exists mp, In mp (vp_map x) /\ mp_idx mp = n).
Proof. exact holder_output_lemma. Qed.
Print Assumptions holder_output_satisfies.

(* `derives` unfolded once: the source credential is one of the holder's and passes the descriptor's filters *)
Theorem derived_from_satisfying_credential : forall v p creds d w,
  derives v p creds d w ->
  exists c, nth_error creds (w_src w) = Some c /\
            (d_schema d <> [] -> schema_ok (d_schema d) c = true) /\
            (forall k, d_constraints d = Some k -> constraints_ok k c = true) /\
            c_id (w_cred w) = c_id c /\ c_issuer (w_cred w) = c_issuer c /\ c_subject (w_cred w) = c_subject c.
Proof.
  intros v p creds d w [c [N [[S K] D]]]. exists c. repeat split; auto;
    destruct D as [[_ [k [_ [[_ E]|[_ [_ E]]]]]]|[_ [E _]]]; rewrite E; reflexivity.
Qed.
Print Assumptions derived_from_satisfying_credential.

(* Limited disclosure, FULL statement: under limit_disclosure = required every credentialSubject leaf of the
   disclosed credential is named by a path of one of the descriptor's fields (the mandatory members id / type /
   issuer / issuanceDate / subject id are the other record fields of the model and carry no claims).
   REFUTED for the code as it is: a credential whose subject the holder keeps as a map (not the form
   ParseCredential produces) goes into the template whole (toSubject), known finding
   limit-disclosure-reveals-unrequested-member/subject-held-as-map, pinned by the package's example tests. *)
Definition limited_only_requested_statement : Prop := forall v p creds d w k,
  derives v p creds d w -> d_constraints d = Some k -> k_limit k = true ->
  forall a, In a (map fst (c_attrs (w_cred w))) ->
  exists f q, In f (k_fields k) /\ In q (f_paths f) /\ (q = a \/ path_base q = a).

Definition raw_cred : cred :=
  {| c_id := 1; c_issuer := 50; c_subject := 50; c_ctx := 1; c_types := [1]; c_proofs := []; c_jwt := 0; c_sd := false;
     c_rawsubj := true; c_attrs := [(1, VStr 1); (2, VNum 5)] |}.
Definition limit_a1 : desc :=
  {| d_id := 1; d_groups := []; d_schema := [(1, false)];
     d_constraints := Some {| k_limit := true; k_sii := false;
        k_fields := [{| f_paths := [1]; f_filter := None; f_optional := false; f_pred := false |}] |};
     d_format := None |}.

Theorem limited_disclosure_only_requested_refuted : ~ limited_only_requested_statement.
Proof.
  intros H.
  set (k := {| k_limit := true; k_sii := false;
               k_fields := [{| f_paths := [1]; f_filter := None; f_optional := false; f_pred := false |}] |}).
  set (w := {| w_key := KTmp 1 0; w_src := 0%nat; w_cred := limited_cred Fixed k raw_cred |}).
  assert (D : derives Fixed {| p_format := None; p_reqs := []; p_descs := [limit_a1] |} [raw_cred] limit_a1 w).
  { exists raw_cred. split; [reflexivity|]. split.
    - split; [intros _; reflexivity|]. intros k' Hk. inversion Hk; subst. reflexivity.
    - left. split; [reflexivity|]. exists k. split; [reflexivity|]. left. split; reflexivity. }
  destruct (H _ _ _ _ _ k D eq_refl eq_refl 2) as [f [q [F1 [F2 F3]]]]; [vm_compute; auto|].
  destruct F1 as [F1|[]]. subst f. destruct F2 as [F2|[]]. subst q. destruct F3 as [F3|F3]; vm_compute in F3; discriminate.
Qed.
Print Assumptions limited_disclosure_only_requested_refuted.

(* PARTIAL, guard = the holder's credential has the subject in the parsed form (c_rawsubj = false): plain LDP / JWT
   credentials (field copy) and SD-JWT credentials (disclosure selection) *)
Theorem limited_disclosure_only_requested_partial : forall v p creds d w k,
  derives v p creds d w -> d_constraints d = Some k -> k_limit k = true ->
  (forall c, nth_error creds (w_src w) = Some c -> c_rawsubj c = false) ->
  forall a, In a (map fst (c_attrs (w_cred w))) ->
  exists f q, In f (k_fields k) /\ In q (f_paths f) /\ (q = a \/ path_base q = a).
Proof. exact limited_lemma. Qed.
Print Assumptions limited_disclosure_only_requested_partial.

(* SD-JWT form: the limited credential opens exactly the leaves of the holder's credential that a field path
   names, by leaf (position), with their values: a leaf with the same claim name at another level is a different
   key and stays closed *)
Theorem sdjwt_limited_exactly_requested : forall k c kv,
  In kv (c_attrs (sd_limited k c)) <-> In kv (c_attrs c) /\ requested k (fst kv) = true.
Proof. exact sd_limited_exact. Qed.
Print Assumptions sdjwt_limited_exactly_requested.

(* The solution iterator: every set returned by Next satisfies the requirement and consists of descriptors the
   iterator still holds (fuel exhaustion is a separate outcome, None). *)
Theorem iterator_sound : forall r it ex it' sol,
  next r it ex = Some (it', sol) -> sol <> [] ->
  satisfied r sol = true /\ (forall x, In x sol -> In x (it_descs it)).
Proof. exact next_sound. Qed.
Print Assumptions iterator_sound.

(* A descriptor passed in the exclude list of a Next call is in no set returned by that call or by any later call,
   whatever the later exclude lists are (iter_run = any sequence of Next calls). *)
Theorem iterator_excluded_never_reappears : forall r it ex exs outs x,
  iter_run r it (ex :: exs) = Some outs -> In x ex -> forall sol, In sol outs -> ~ In x sol.
Proof. exact excluded_gone. Qed.
Print Assumptions iterator_excluded_never_reappears.

(* COMPLETENESS of the solution iterator (the exclusion arithmetic).  For every requirement and distinct descriptors:
   in any run of Next calls that follows the holder's protocol (nothing excluded at the first call; afterwards only
   descriptors of the set returned last, any number of them at once) and reaches the end (a call returned nothing),
   every non-empty selection T of the descriptors that were never excluded (any bit mask u over them) that satisfies
   the requirement was returned by one of the calls.  So CreateVP answers ErrNoCredentials only when no satisfying
   selection of satisfiable descriptors exists. *)
Theorem iterator_complete : forall r descs exs outs,
  NoDup (it_descs (new_iter r descs)) ->
  iter_run r (new_iter r descs) exs = Some outs -> protocol [] exs outs -> In [] outs ->
  forall u, let T := current u (filter (kept (concat exs)) (it_descs (new_iter r descs))) in
            T <> [] -> satisfied r T = true -> In T outs.
Proof. exact iterator_complete_lemma. Qed.
Print Assumptions iterator_complete.

(* Termination of the model's iterator: on an iterator made by NewBitsetIterator every sequence of Next calls with
   any exclude lists runs to the end; the fuel S(2^|descs|) of the search is never exhausted (the state stays below
   2^|descs| through the exclusion arithmetic). *)
Theorem iterator_never_out_of_fuel : forall r descs exs, exists outs, iter_run r (new_iter r descs) exs = Some outs.
Proof. intros r descs exs. apply iter_run_total. apply new_iter_wf. Qed.
Print Assumptions iterator_never_out_of_fuel.

(* The model of CreateVP has no out-of-fuel escape: the selection loop (one Next call per candidate solution) ends
   within its fuel for every definition and credential list: each Next call strictly lowers 2^|descs| - state. *)
Theorem create_vp_never_out_of_fuel : forall v p creds, create_vp v p creds <> CFuel.
Proof.
  intros v p creds. unfold create_vp. pose proof (holder_select_no_fuel v p creds) as H.
  destruct (holder_select v p creds); try discriminate; [|congruence].
  destruct (merge_all (sort_dm sel) [] [] []). discriminate.
Qed.
Print Assumptions create_vp_never_out_of_fuel.

(* the selection CreateVP makes satisfies the definition's requirement logic, and only evaluated descriptors
   with at least one credential are in it *)
Theorem holder_selection_satisfies_requirement : forall v p creds fmt sel,
  holder_select v p creds = HOk fmt sel ->
  exists r sol, make_req p = Some r /\ sol <> [] /\ satisfied r sol = true /\ map m_desc sel = sol /\
                Forall (good v p (index_creds 0 creds)) sel.
Proof. exact holder_select_spec. Qed.
Print Assumptions holder_selection_satisfies_requirement.

(* IsSatisfiedBy depends on the set of descriptor ids only (order and repetitions of the list are irrelevant) *)
Theorem satisfied_is_a_set_property : forall r s1 s2,
  (forall x, memN x s1 = memN x s2) -> satisfied r s1 = satisfied r s2.
Proof. exact satisfied_ext. Qed.
Print Assumptions satisfied_is_a_set_property.

(* ---------- witnesses ---------- *)
Definition fconst (k : N) (z : Z) : field :=
  {| f_paths := [k]; f_filter := Some {| ft_type := 1; ft_const := Some (VNum z); ft_min := None; ft_max := None; ft_enum := [] |};
     f_optional := false; f_pred := false |}.
Definition dsimple (i : N) (g : list N) : desc :=
  {| d_id := i; d_groups := g; d_schema := [(1, false)];
     d_constraints := Some {| k_limit := false; k_sii := false; k_fields := [fconst i (Z.of_N i)] |}; d_format := None |}.
Definition csimple (id : N) (attrs : list (N * jv)) : cred :=
  {| c_id := id; c_issuer := 50; c_subject := 60; c_ctx := 1; c_types := [1]; c_proofs := []; c_jwt := 0; c_sd := false; c_rawsubj := false; c_attrs := attrs |}.

Definition pick_one_of_two : defn :=
  {| p_format := None; p_reqs := [SFrom false 1 0 0 1]; p_descs := [dsimple 1 [1]; dsimple 2 [1]] |}.

(* HISTORICAL REFUTATIONS (code as found, corpus/C20): *)
(* 1. pick count 1 of {d1,d2}, one credential for d1: CreateVP succeeds, Match rejects its output *)
Theorem verifier_accepts_asis_refuted :
  exists x, create_vp AsIs pick_one_of_two [csimple 101 [(1, VNum 1)]] = COk x /\
            verifier_match AsIs pick_one_of_two false x = MReq /\
            exists l, verifier_match Fixed pick_one_of_two false x = MOk l.
Proof. eexists. split; [vm_compute; reflexivity|]. split; [vm_compute; reflexivity|]. eexists. vm_compute. reflexivity. Qed.
Print Assumptions verifier_accepts_asis_refuted.

(* 2. two credentials without id, one per descriptor: as found, the presentation carries the first one only, d2 is
   mapped to it and Match returns for d2 a credential that fails d2's constraints; repaired, both are carried *)
Definition two_descriptors : defn := {| p_format := None; p_reqs := []; p_descs := [dsimple 1 []; dsimple 2 []] |}.
Theorem holder_output_satisfies_asis_refuted :
  let creds := [csimple 0 [(1, VNum 1)]; csimple 0 [(2, VNum 2)]] in
  (exists x c k, create_vp AsIs two_descriptors creds = COk x /\ length (vp_creds x) = 1%nat /\
                 In {| mp_id := 2; mp_idx := 0; mp_vcfmt := 2 |} (vp_map x) /\
                 nth_error (vp_creds x) 0 = Some c /\ d_constraints (dsimple 2 []) = Some k /\ constraints_ok k c = false) /\
  (exists x, create_vp Fixed two_descriptors creds = COk x /\ length (vp_creds x) = 2%nat /\
             In {| mp_id := 2; mp_idx := 1; mp_vcfmt := 2 |} (vp_map x)).
Proof.
  split.
  - eexists. eexists. eexists. split; [vm_compute; reflexivity|]. vm_compute. repeat split; auto.
  - eexists. split; [vm_compute; reflexivity|]. vm_compute. auto.
Qed.
Print Assumptions holder_output_satisfies_asis_refuted.

(* 3. (before fix d2cbd9f) one SD-JWT credential under d1 (no limit, asks a1) and d2 (limit_disclosure required, asks
   a2): limiting for d2 replaced the disclosures of the shared credential object, so the single presented
   credential shows a2 only and the credential handed over for d1 does not show a1; repaired, d1 gets the full
   credential and d2 a limited copy *)
Definition dfield (i : N) (limit : bool) (key : N) : desc :=
  {| d_id := i; d_groups := []; d_schema := [(1, false)];
     d_constraints := Some {| k_limit := limit; k_sii := false;
        k_fields := [{| f_paths := [key]; f_filter := None; f_optional := false; f_pred := false |}] |};
     d_format := None |}.
Definition sd_cred : cred :=
  {| c_id := 7; c_issuer := 50; c_subject := 60; c_ctx := 1; c_types := [1]; c_proofs := []; c_jwt := 1; c_sd := true;
     c_rawsubj := false; c_attrs := [(1, VStr 1); (2, VNum 5); (3, VNum 6)] |}.
Definition shared_object_defn : defn :=
  {| p_format := None; p_reqs := []; p_descs := [dfield 1 false 1; dfield 2 true 2] |}.

Theorem holder_output_satisfies_sdjwt_asis_refuted :
  (exists x c, create_vp_shared shared_object_defn [sd_cred] = COk x /\ length (vp_creds x) = 1%nat /\
               In {| mp_id := 1; mp_idx := 0; mp_vcfmt := 5 |} (vp_map x) /\
               nth_error (vp_creds x) 0 = Some c /\ lookup 1 c = None) /\
  (exists x c, create_vp Fixed shared_object_defn [sd_cred] = COk x /\ length (vp_creds x) = 2%nat /\
               In {| mp_id := 1; mp_idx := 0; mp_vcfmt := 5 |} (vp_map x) /\
               nth_error (vp_creds x) 0 = Some c /\ lookup 1 c = Some (VStr 1)).
Proof.
  split; eexists; eexists; (split; [vm_compute; reflexivity|]); vm_compute; repeat split; auto.
Qed.
Print Assumptions holder_output_satisfies_sdjwt_asis_refuted.

(* ---------- non-vacuity: a nested rule, a limited-disclosure descriptor with a predicate, a JWT credential ---------- *)
Example accepts_nonvacuous :
  let dl := {| d_id := 3; d_groups := [2]; d_schema := [(1, true)];
               d_constraints := Some {| k_limit := true; k_sii := false;
                  k_fields := [{| f_paths := [7; 8]; f_filter := Some {| ft_type := 1; ft_const := None; ft_min := Some 18%Z; ft_max := None; ft_enum := [] |};
                                  f_optional := false; f_pred := true |}] |};
               d_format := None |} in
  let p := {| p_format := None;
              p_reqs := [SNested true 0 0 0 [SFrom false 1 0 0 1; SFrom false 0 1 0 2]];
              p_descs := [dsimple 1 [1]; dsimple 2 [1]; dl] |} in
  let creds := [csimple 11 [(2, VNum 2); (9, VStr 1)];
                {| c_id := 12; c_issuer := 50; c_subject := 60; c_ctx := 1; c_types := [1]; c_proofs := []; c_jwt := 1; c_sd := false; c_rawsubj := false;
                   c_attrs := [(7, VNum 17); (8, VNum 30); (9, VStr 4)] |}] in
  NoDup (map d_id (p_descs p)) /\ unique_ids creds /\
  exists x, create_vp Fixed p creds = COk x /\
            vp_map x = [{| mp_id := 2; mp_idx := 0; mp_vcfmt := 2 |}; {| mp_id := 3; mp_idx := 1; mp_vcfmt := 5 |}] /\
            map c_attrs (vp_creds x) = [[(2, VNum 2); (9, VStr 1)]; [(7, VBool true); (8, VBool true)]] /\
            exists l, verifier_match Fixed p false x = MOk l /\ map fst l = [2; 3].
Proof.
  cbv zeta. split; [repeat constructor; simpl; intuition discriminate|]. split.
  - intros i j ci cj Hi Hj E _.
    destruct i as [|[|[|i]]]; destruct j as [|[|[|j]]]; simpl in *; try discriminate; try reflexivity;
      inversion Hi; inversion Hj; subst; discriminate.
  - eexists. split; [vm_compute; reflexivity|]. vm_compute. repeat split. eexists. split; reflexivity.
Qed.

(* non-vacuity, SD-JWT: the claim name a1 at two levels (keys 1 and 501), a nested array (502); the descriptor asks
   for o5.a1 under limited disclosure; a second descriptor without limit gets the full credential *)
Example sdjwt_nonvacuous :
  let dl := {| d_id := 1; d_groups := []; d_schema := [(1, false)];
               d_constraints := Some {| k_limit := true; k_sii := false;
                  k_fields := [{| f_paths := [501]; f_filter := None; f_optional := false; f_pred := false |}] |};
               d_format := None |} in
  let p := {| p_format := None; p_reqs := []; p_descs := [dl; dsimple 2 []] |} in
  let creds := [{| c_id := 7; c_issuer := 50; c_subject := 60; c_ctx := 1; c_types := [1]; c_proofs := []; c_jwt := 1; c_sd := true;
                   c_rawsubj := false; c_attrs := [(1, VStr 1); (2, VNum 2); (501, VStr 2); (502, VArr [VNum 7])] |}] in
  exists x, create_vp Fixed p creds = COk x /\
            map c_attrs (vp_creds x) = [[(501, VStr 2)]; [(1, VStr 1); (2, VNum 2); (501, VStr 2); (502, VArr [VNum 7])]] /\
            exists l, verifier_match Fixed p false x = MOk l /\ map fst l = [1; 2].
Proof. cbv zeta. eexists. split; [vm_compute; reflexivity|]. vm_compute. split; [reflexivity|]. eexists. split; reflexivity. Qed.

(* non-vacuity, iterator: pick 1 of [all of {1,2,3}; all of {4}], descriptor 3 turns out unsatisfiable *)
Example iterator_nonvacuous :
  let r := Req [] [Req [1; 2; 3] [] 3 0 0; Req [4] [] 1 0 0] 1 0 0 in
  iter_run r (new_iter r [1; 2; 3; 4]) [[]; [3]; []] = Some [[1; 2; 3]; [4]; [1; 4]].
Proof. vm_compute. reflexivity. Qed.

(* non-vacuity, completeness: pick 1 of [all of {1,2,3}; all of {4}], descriptor 3 unsatisfiable: the run ends, the
   protocol holds, and both satisfying selections without 3 that exist ({4} and {1,4}, {2,4}, {1,2,4}) were returned *)
Example iterator_complete_nonvacuous :
  let r := Req [] [Req [1; 2; 3] [] 3 0 0; Req [4] [] 1 0 0] 1 0 0 in
  exists outs, iter_run r (new_iter r [1; 2; 3; 4]) [[]; [3]; []; []; []; []] = Some outs /\
               protocol [] [[]; [3]; []; []; []; []] outs /\ In [] outs /\
               In [4] outs /\ In [1; 4] outs /\ In [2; 4] outs /\ In [1; 2; 4] outs.
Proof. eexists. split; [vm_compute; reflexivity|]. simpl. intuition. Qed.

(* non-vacuity, JSON-LD contexts: two credentials carry the same type term 2; under context 1 it is IRI 2, under
   context 2 it is IRI 12.  A descriptor whose schema names IRI 12 takes the second credential only, whatever the
   order of the holder's list, and Match accepts. *)
Example contexts_nonvacuous :
  let cr (id ctx : N) := {| c_id := id; c_issuer := 50; c_subject := 60; c_ctx := ctx; c_types := [1; 2]; c_proofs := []; c_jwt := 0;
                            c_sd := false; c_rawsubj := false; c_attrs := [(1, VNum (Z.of_N id))] |} in
  let d := {| d_id := 1; d_groups := []; d_schema := [(12, false)]; d_constraints := None; d_format := None |} in
  let p := {| p_format := None; p_reqs := []; p_descs := [d] |} in
  (exists x, create_vp Fixed p [cr 1 1; cr 2 2] = COk x /\ map c_id (vp_creds x) = [2] /\
             exists l, verifier_match Fixed p false x = MOk l) /\
  (exists x, create_vp Fixed p [cr 2 2; cr 1 1] = COk x /\ map c_id (vp_creds x) = [2]) /\
  create_vp Fixed p [cr 1 1] = CNoCreds.
Proof.
  cbv zeta. split; [|split].
  - eexists. split; [vm_compute; reflexivity|]. split; [reflexivity|]. eexists. vm_compute. reflexivity.
  - eexists. split; [vm_compute; reflexivity|]. reflexivity.
  - vm_compute. reflexivity.
Qed.
