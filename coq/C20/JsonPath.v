(* C20 — the JSONPath subset and the JSON-schema filter subset presexch relies on, over common/Json.v.  No proofs here.

   filterField (definition.go) evaluates a field's paths with PaesslerAG/jsonpath (`jsonpath.Get`) and hands the
   value to gojsonschema; compactArrayPaths evaluates the same path TEXTS with kawamuray/jsonpath (a streaming
   evaluator over the credential's bytes) and getPath renumbers array positions.  The two engines read different
   dialects; this file models both on the common subset

       $   .name   ['name']   ["name"]   ."name"   [n]   [*]   .*   ..name

   from the path text (the model parses the text itself).  Not modelled (never generated): ranges, unions, filters,
   scripts, negative indices, names with quotes or backslashes, numeric member names, the bare path `$`, duplicate
   member names in one object, non-integer numbers. *)
From Coq Require Import List String Ascii ZArith Bool NArith Arith DecimalString.
Import ListNotations.
From VF Require Import common.Json.
Open Scope string_scope.
Open Scope list_scope.

(* ================= path text -> steps ================= *)
Inductive notation := NDot | NBr1 | NBr2 | NDotQ.     (* .name  ['name']  ["name"]  ."name" *)
Inductive step :=
| SName (q : notation) (s : string)
| SIdx (n : nat)
| SWildN            (* .*  *)
| SWildI            (* [*] *)
| SDesc (s : string).  (* ..name *)

Definition ch (c : ascii) (d : string) : bool := match d with String x EmptyString => Ascii.eqb c x | _ => false end.
Definition is_digit (c : ascii) : bool := let n := nat_of_ascii c in (48 <=? n)%nat && (n <=? 57)%nat.
Definition is_letter (c : ascii) : bool :=
  let n := nat_of_ascii c in ((97 <=? n) && (n <=? 122) || (65 <=? n) && (n <=? 90) || (n =? 95))%nat.

Fixpoint take_while (p : ascii -> bool) (s : string) : string * string :=
  match s with
  | EmptyString => (EmptyString, EmptyString)
  | String c r => if p c then let (a, b) := take_while p r in (String c a, b) else (EmptyString, s)
  end.
Fixpoint nat_of_digits (acc : nat) (s : string) : nat :=
  match s with EmptyString => acc | String c r => nat_of_digits (10 * acc + (nat_of_ascii c - 48)) r end.

Definition name_char (c : ascii) : bool := negb (ch c "." || ch c "[").
Definition not_squote (c : ascii) : bool := negb (ch c "'").
Definition not_dquote (c : ascii) : bool := negb (ch c """").
Definition is_empty (s : string) : bool := match s with EmptyString => true | _ => false end.
Definition ocons (x : step) (o : option (list step)) : option (list step) :=
  match o with Some l => Some (x :: l) | None => None end.

(* the text after `$` *)
Fixpoint parse_steps (fuel : nat) (s : string) : option (list step) :=
  match fuel with
  | O => None
  | S f =>
      match s with
      | EmptyString => Some []
      | String c r =>
          if ch c "." then
            match r with
            | String d r2 =>
                if ch d "." then
                  let (nm, rest) := take_while name_char r2 in
                  if is_empty nm then None else ocons (SDesc nm) (parse_steps f rest)
                else if ch d "*" then ocons SWildN (parse_steps f r2)
                else if ch d """" then
                  let (nm, rest) := take_while not_dquote r2 in
                  match rest with
                  | String _ r3 => ocons (SName NDotQ nm) (parse_steps f r3)
                  | EmptyString => None
                  end
                else
                  let (nm, rest) := take_while name_char r in
                  if is_empty nm then None else ocons (SName NDot nm) (parse_steps f rest)
            | EmptyString => None
            end
          else if ch c "[" then
            match r with
            | String d r2 =>
                if ch d "*" then
                  match r2 with String e r3 => if ch e "]" then ocons SWildI (parse_steps f r3) else None | _ => None end
                else if ch d "'" then
                  let (nm, rest) := take_while not_squote r2 in
                  match rest with
                  | String _ (String e r3) => if ch e "]" then ocons (SName NBr1 nm) (parse_steps f r3) else None
                  | _ => None
                  end
                else if ch d """" then
                  let (nm, rest) := take_while not_dquote r2 in
                  match rest with
                  | String _ (String e r3) => if ch e "]" then ocons (SName NBr2 nm) (parse_steps f r3) else None
                  | _ => None
                  end
                else
                  let (ds, rest) := take_while is_digit r in
                  if is_empty ds then None else
                  match rest with
                  | String e r3 => if ch e "]" then ocons (SIdx (nat_of_digits 0 ds)) (parse_steps f r3) else None
                  | _ => None
                  end
            | EmptyString => None
            end
          else None
      end
  end.

Definition parse_path (s : string) : option (list step) :=
  match s with
  | String c r => if ch c "$" then parse_steps (S (String.length r)) r else None
  | EmptyString => None
  end.

(* --- the two dialects --- *)
Fixpoint all_chars (p : ascii -> bool) (s : string) : bool :=
  match s with EmptyString => true | String c r => p c && all_chars p r end.
(* a Go identifier (text/scanner): PaesslerAG's .name and ..name *)
Definition is_ident (s : string) : bool :=
  match s with
  | EmptyString => false
  | String c r => is_letter c && all_chars (fun x => is_letter x || is_digit x) r
  end.
(* PaesslerAG: a single-quoted name is read as a CHARACTER literal (one character); ."name" is not accepted *)
Definition p_step_ok (s : step) : bool :=
  match s with
  | SName NDot n => is_ident n
  | SName NBr1 n => Nat.eqb (String.length n) 1
  | SName NBr2 _ => true
  | SName NDotQ _ => false
  | SDesc n => is_ident n
  | _ => true
  end.
(* kawamuray: no single quotes, no recursive descent; a dotted name ends at . [ + ? *)
Definition k_step_ok (s : step) : bool :=
  match s with
  | SName NBr1 _ => false
  | SName NDot n => all_chars (fun c => negb (ch c "+" || ch c "?")) n
  | SDesc _ => false
  | _ => true
  end.
Definition p_parse (s : string) : option (list step) :=
  match parse_path s with Some st => if forallb p_step_ok st then Some st else None | None => None end.
Definition k_parse (s : string) : option (list step) :=
  match parse_path s with
  | Some [] => None
  | Some st => if forallb k_step_ok st then Some st else None
  | None => None
  end.

(* ================= locations and selection ================= *)
Inductive lelem := LK (k : string) | LI (i : nat).
Definition loc := list lelem.
Definition pre (e : lelem) (lv : loc * json) : loc * json := (e :: fst lv, snd lv).

(* a node of the document at a location (an object member is ANY member with that name) *)
Fixpoint node_at (j : json) (l : loc) (v : json) : Prop :=
  match l with
  | [] => j = v
  | LK k :: r => match j with JObj m => exists x, In (k, x) m /\ node_at x r v | _ => False end
  | LI i :: r => match j with JArr a => exists x, nth_error a i = Some x /\ node_at x r v | _ => False end
  end.

Fixpoint kids_arr (i : nat) (l : list json) : list (loc * json) :=
  match l with [] => [] | x :: r => ([LI i], x) :: kids_arr (S i) r end.
Definition kids_obj (m : list (string * json)) : list (loc * json) := map (fun kv => ([LK (fst kv)], snd kv)) m.

(* every node below (and including) j, a node after the nodes below it (the order in which a streaming reader
   sees values END) *)
Fixpoint postnodes (j : json) : list (loc * json) :=
  match j with
  | JArr l => (fix go (i : nat) (l : list json) : list (loc * json) :=
                 match l with [] => [] | x :: r => map (pre (LI i)) (postnodes x) ++ go (S i) r end) 0%nat l
  | JObj m => (fix go (m : list (string * json)) : list (loc * json) :=
                 match m with [] => [] | kv :: r => map (pre (LK (fst kv))) (postnodes (snd kv)) ++ go r end) m
  | _ => []
  end ++ [([], j)].

Definition under (l : loc) (lv : loc * json) : loc * json := (l ++ fst lv, snd lv).

(* any = the wildcard forms range over members AND elements (PaesslerAG's star selector); otherwise .* ranges over
   members only and [*] over elements only (kawamuray's name / index wildcards) *)
Definition step_sel (any : bool) (s : step) (lv : loc * json) : list (loc * json) :=
  let (l, v) := lv in
  match s with
  | SName _ k => match v with
                 | JObj m => match lookup m k with Some x => [(l ++ [LK k], x)] | None => [] end
                 | _ => []
                 end
  | SIdx n => match v with
              | JArr a => match nth_error a n with Some x => [(l ++ [LI n], x)] | None => [] end
              | _ => []
              end
  | SWildN => match v with
              | JObj m => map (under l) (kids_obj m)
              | JArr a => if any then map (under l) (kids_arr 0 a) else []
              | _ => []
              end
  | SWildI => match v with
              | JArr a => map (under l) (kids_arr 0 a)
              | JObj m => if any then map (under l) (kids_obj m) else []
              | _ => []
              end
  | SDesc k => flat_map (fun n => match snd n with
                                  | JObj m => match lookup m k with Some x => [(l ++ fst n ++ [LK k], x)] | None => [] end
                                  | _ => []
                                  end) (postnodes v)
  end.
Fixpoint select (any : bool) (steps : list step) (cur : list (loc * json)) : list (loc * json) :=
  match steps with [] => cur | s :: r => select any r (flat_map (step_sel any s) cur) end.

Definition definite (steps : list step) : bool :=
  forallb (fun s => match s with SName _ _ | SIdx _ => true | _ => false end) steps.

(* jsonpath.Get (PaesslerAG): None = error.  A definite path gives its node (error when there is none); a path with
   a wildcard or recursive descent gives the array of its matches (member order of a wildcard over an object is not
   defined: compared as a multiset) *)
Definition p_eval (path : string) (doc : json) : option (bool * list json) :=
  match p_parse path with
  | Some st => Some (definite st, map snd (select true st [([], doc)]))
  | None => None
  end.
Definition p_get (path : string) (doc : json) : option json :=
  match p_eval path doc with
  | Some (true, [x]) => Some x
  | Some (true, _) => None
  | Some (false, l) => Some (JArr l)
  | None => None
  end.

(* ================= the streaming evaluator and getPath ================= *)
Definition elem_match (s : step) (e : lelem) : bool :=
  match s, e with
  | SName _ k, LK k' => String.eqb k k'
  | SIdx n, LI i => Nat.eqb n i
  | SWildN, LK _ => true
  | SWildI, LI _ => true
  | _, _ => false
  end.
Fixpoint loc_match (st : list step) (l : loc) : bool :=
  match st, l with
  | [], [] => true
  | s :: r, e :: t => elem_match s e && loc_match r t
  | _, _ => false
  end.

(* a value is reported when it ENDS, once per path that matches it *)
Definition k_stream (paths : list (list step)) (doc : json) : list loc :=
  flat_map (fun lv => flat_map (fun p => if loc_match p (fst lv) then [fst lv] else []) paths) (postnodes doc).

Definition dec (n : nat) : string := NilZero.string_of_uint (Nat.to_uint n).
Definition join (l : list string) : string := String.concat "." l.
Definition pset := list (string * nat).
Definition set_find (k : string) (s : pset) : option nat :=
  match find (fun e => String.eqb (fst e) k) s with Some e => Some (snd e) | None => None end.
Definition set_get (k : string) (s : pset) : nat := match set_find k s with Some n => n | None => O end.
Definition set_put (k : string) (n : nat) (s : pset) : pset :=
  (k, n) :: filter (fun e => negb (String.eqb (fst e) k)) s.

(* the code as found (F0), after fix cd5ac52 (F1: member names escaped in the path text), after fix 215a538 too (F2: the
   count of an array's kept elements has a key of its own) *)
Inductive fixlevel := F0 | F1 | F2.
Definition esc_on (fx : fixlevel) : bool := match fx with F0 => false | _ => true end.
Definition sep_on (fx : fixlevel) : bool := match fx with F2 => true | _ => false end.

(* fix cd5ac52: a '.' (and the escape character) inside a member name is escaped in the dot-joined path text *)
Fixpoint esc_key (s : string) : string :=
  match s with
  | EmptyString => EmptyString
  | String c r => if ch c "\" || ch c "." then String "\"%char (String c (esc_key r)) else String c (esc_key r)
  end.

(* getPath: (set', newPath, oldPath); the keys of the numbering are the dot-joined texts, as in the code.
   fx: which repairs are in *)
Fixpoint get_path (fx : fixlevel) (keys : loc) (orig new : list string) (s : pset) : pset * string * string :=
  match keys with
  | [] => (s, join new, join orig)
  | LK k :: r => let k' := if esc_on fx then esc_key k else k in get_path fx r (orig ++ [k']) (new ++ [k']) s
  | LI v :: r =>
      let counter := if sep_on fx then (join orig ++ ".")%string else join orig in
      let orig' := orig ++ [dec v] in
      let mapper := join orig' in
      let s' := match set_find mapper s with
                | Some _ => s
                | None => let c := set_get counter s in set_put counter (S c) (set_put mapper c s)
                end in
      get_path fx r orig' (new ++ [dec (set_get mapper s')]) s'
  end.

Fixpoint nodup_str (l : list string) : list string :=
  match l with
  | [] => []
  | x :: r => if existsb (String.eqb x) r then nodup_str r else x :: nodup_str r
  end.
Fixpoint parse_all (l : list string) : option (list (list step)) :=
  match l with
  | [] => Some []
  | p :: r => match k_parse p, parse_all r with Some a, Some b => Some (a :: b) | _, _ => None end
  end.

(* compactArrayPathsInto over a fresh numbering: (newPath, oldPath) in report order; None = a path text is refused.
   The evaluator keeps its queries in a map keyed by the path text: a repeated text is one query. *)
Definition k_compact (fx : fixlevel) (paths : list string) (doc : json) (s : pset) : option (list (string * string) * pset) :=
  match parse_all paths with
  | None => None
  | Some _ =>
      match parse_all (nodup_str paths) with
      | None => None
      | Some ps =>
          Some (fold_left (fun (acc : list (string * string) * pset) (l : loc) =>
                             let '(s', n, o) := get_path fx l [] [] (snd acc) in (fst acc ++ [(n, o)], s'))
                          (k_stream ps doc) ([], s))
      end
  end.

(* ================= JSON-schema filter subset ================= *)
(* equality of JSON values whatever the member order (gojsonschema compares the re-marshalled texts) *)
Fixpoint json_eqb (a b : json) {struct a} : bool :=
  match a, b with
  | JNull, JNull => true
  | JBool x, JBool y => Bool.eqb x y
  | JNum x, JNum y => Z.eqb x y
  | JStr x, JStr y => String.eqb x y
  | JArr x, JArr y =>
      (fix go (x y : list json) : bool :=
         match x, y with
         | [], [] => true
         | p :: r, q :: t => json_eqb p q && go r t
         | _, _ => false
         end) x y
  | JObj x, JObj y =>
      Nat.eqb (List.length x) (List.length y) &&
      (fix go (x : list (string * json)) : bool :=
         match x with
         | [] => true
         | kv :: r => match lookup y (fst kv) with Some w => json_eqb (snd kv) w | None => false end && go r
         end) x
  | _, _ => false
  end.

(* typ "" = absent; minlen / maxlen 0 = absent (the Filter struct drops a zero: maxLength 0 cannot be expressed);
   pattern and format are not modelled *)
Inductive schema :=
  Schema (typ : string) (cnst : option json) (enum : list json) (mn mx emn emx : option Z) (minlen maxlen : nat)
         (nt : option schema) (cont : option schema).

Definition type_matches (t : string) (v : json) : bool :=
  if String.eqb t "" then true else
  match v with
  | JNull => String.eqb t "null"
  | JBool _ => String.eqb t "boolean"
  | JNum _ => String.eqb t "number" || String.eqb t "integer"
  | JStr _ => String.eqb t "string"
  | JArr _ => String.eqb t "array"
  | JObj _ => String.eqb t "object"
  end.
Definition zopt (o : option Z) (f : Z -> bool) : bool := match o with Some m => f m | None => true end.

Fixpoint schema_valid (s : schema) (v : json) {struct s} : bool :=
  match s with
  | Schema typ c en mn mx emn emx minl maxl nt ct =>
      type_matches typ v &&
      match c with Some x => json_eqb x v | None => true end &&
      match en with [] => true | _ => existsb (fun e => json_eqb e v) en end &&
      match v with
      | JNum z => zopt mn (fun m => Z.leb m z) && zopt mx (fun m => Z.leb z m) &&
                  zopt emn (fun m => Z.ltb m z) && zopt emx (fun m => Z.ltb z m)
      | _ => true
      end &&
      match v with
      | JStr t => (Nat.eqb minl 0 || Nat.leb minl (String.length t)) && (Nat.eqb maxl 0 || Nat.leb (String.length t) maxl)
      | _ => true
      end &&
      match nt with Some s' => negb (schema_valid s' v) | None => true end &&
      match ct with
      | Some s' => match v with JArr l => existsb (schema_valid s') l | _ => true end
      | None => true
      end
  end.

Fixpoint nodup_json (l : list json) : bool :=
  match l with [] => true | x :: r => negb (existsb (json_eqb x) r) && nodup_json r end.
(* the schema compiles: gojsonschema refuses minLength > maxLength and repeated enum items, also in sub-schemas *)
Fixpoint schema_wf (s : schema) : bool :=
  match s with
  | Schema _ _ en _ _ _ _ minl maxl nt ct =>
      (Nat.eqb minl 0 || Nat.eqb maxl 0 || Nat.leb minl maxl) && nodup_json en &&
      match nt with Some s' => schema_wf s' | None => true end &&
      match ct with Some s' => schema_wf s' | None => true end
  end.
(* validatePatch: a schema that does not compile accepts nothing *)
Definition schema_accepts (s : schema) (v : json) : bool := schema_wf s && schema_valid s v.

(* filterField over the JSON document: true = nil, false = errPathNotApplicable *)
Fixpoint field_paths_json (doc : json) (sch : option schema) (opt : bool) (paths : list string) (last : bool) : bool :=
  match paths with
  | [] => last
  | p :: r =>
      match p_get p doc with
      | Some v => if match sch with None => true | Some s => schema_accepts s v end then true
                  else field_paths_json doc sch opt r false
      | None => if opt then true else field_paths_json doc sch opt r false
      end
  end.
Definition field_json_ok (doc : json) (sch : option schema) (opt : bool) (paths : list string) : bool :=
  field_paths_json doc sch opt paths true.

(* ================= createNewCredential at the level of JSON (gjson / sjson on dot-joined paths) ================= *)
Fixpoint split_dots (s : string) : list string :=
  match s with
  | EmptyString => [EmptyString]
  | String c r => let l := split_dots r in
                  if ch c "." then EmptyString :: l
                  else match l with x :: t => String c x :: t | [] => [String c EmptyString] end
  end.
(* the path text as gjson / sjson read it: a backslash makes the next character part of the name *)
Fixpoint split_esc (s : string) : list string :=
  match s with
  | EmptyString => [EmptyString]
  | String c r =>
      if ch c "\" then
        match r with
        | String d r2 => match split_esc r2 with x :: t => String d x :: t | [] => [String d EmptyString] end
        | EmptyString => [EmptyString]
        end
      else
        let l := split_esc r in
        if ch c "." then EmptyString :: l
        else match l with x :: t => String c x :: t | [] => [String c EmptyString] end
  end.
Definition all_digits (s : string) : bool := negb (is_empty s) && all_chars is_digit s.

(* gjson.GetBytes(src, path).Value(): a path component is a member name on an object, an index on an array *)
Fixpoint gj_get (comps : list string) (doc : json) : option json :=
  match comps with
  | [] => Some doc
  | c :: r =>
      match doc with
      | JObj m => match lookup m c with Some x => gj_get r x | None => None end
      | JArr a => if all_digits c then match nth_error a (nat_of_digits 0 c) with Some x => gj_get r x | None => None end
                  else None
      | _ => None
      end
  end.

(* a value created for a path that does not exist yet: a numeric component makes an array (padded with null) *)
Fixpoint sj_create (comps : list string) (v : json) : json :=
  match comps with
  | [] => v
  | c :: r => if all_digits c then JArr (repeat JNull (nat_of_digits 0 c) ++ [sj_create r v])
              else JObj [(c, sj_create r v)]
  end.
Fixpoint set_member (c : string) (f : option json -> option json) (m : list (string * json)) : option (list (string * json)) :=
  match m with
  | [] => match f None with Some x => Some [(c, x)] | None => None end
  | kv :: r => if String.eqb (fst kv) c
               then match f (Some (snd kv)) with Some x => Some ((c, x) :: r) | None => None end
               else match set_member c f r with Some r' => Some (kv :: r') | None => None end
  end.
Fixpoint set_index (i : nat) (f : option json -> option json) (a : list json) : option (list json) :=
  match i, a with
  | O, [] => match f None with Some x => Some [x] | None => None end
  | O, y :: r => match f (Some y) with Some x => Some (x :: r) | None => None end
  | S n, [] => match set_index n f [] with Some r' => Some (JNull :: r') | None => None end
  | S n, y :: r => match set_index n f r with Some r' => Some (y :: r') | None => None end
  end.
(* sjson.SetBytes: None = error (a non-numeric component on an array); a scalar on the way is replaced *)
Fixpoint sj_set (comps : list string) (v : json) (doc : option json) {struct comps} : option json :=
  match comps with
  | [] => Some v
  | c :: r =>
      match doc with
      | Some (JObj m) => match set_member c (sj_set r v) m with Some m' => Some (JObj m') | None => None end
      | Some (JArr a) => if all_digits c
                         then match set_index (nat_of_digits 0 c) (sj_set r v) a with Some a' => Some (JArr a') | None => None end
                         else None
      | _ => Some (sj_create comps v)
      end
  end.

Fixpoint has_prefix (p s : string) : bool :=
  match p, s with
  | EmptyString, _ => true
  | String a p', String b s' => Ascii.eqb a b && has_prefix p' s'
  | _, _ => false
  end.
Fixpoint has_substring (p s : string) : bool :=
  has_prefix p s || match s with EmptyString => false | String _ r => has_substring p r end.

(* one field of createNewCredential: (paths, predicate) *)
Definition jfield := (list string * bool)%type.
Definition write_one (fx : fixlevel) (limit pred : bool) (src : json) (acc : option json) (no : string * string) : option json :=
  match acc with
  | None => None
  | Some t =>
      let (n, o) := no in
      if has_substring "credentialSchema" n then Some t else
      let target := if limit then n else o in
      let split := if esc_on fx then split_esc else split_dots in
      let val := if pred then JBool true else match gj_get (split o) src with Some x => x | None => JNull end in
      sj_set (split target) val (Some t)
  end.
(* createNewCredential's loop: the numbering of array positions is shared by all fields; None = an error *)
Fixpoint limit_fields (fx : fixlevel) (limit : bool) (src : json) (fs : list jfield) (s : pset) (t : json) : option json :=
  match fs with
  | [] => Some t
  | (paths, pred) :: r =>
      match k_compact fx paths src s with
      | None => None
      | Some (l, s') =>
          match fold_left (write_one fx limit pred src) l (Some t) with
          | Some t' => limit_fields fx limit src r s' t'
          | None => None
          end
      end
  end.
Definition limit_json (fx : fixlevel) (limit : bool) (src template : json) (fs : list jfield) : option json :=
  limit_fields fx limit src fs [] template.
