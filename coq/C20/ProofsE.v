(* C20 — lemmas (iterator: the fuel of the model always suffices). *)
From Coq Require Import List NArith ZArith Bool Lia ZifyN ZifyNat ZifyBool.
Import ListNotations.
From VF Require Import C20.Model C20.Proofs C20.ProofsD.
Local Open Scope N_scope.

Definition L (ds : list N) : N := N.of_nat (length ds).

Lemma current_from_zero : forall ds i st,
  (forall j, i <= j -> j < i + L ds -> N.testbit st j = false) -> current_from i st ds = [].
Proof.
  induction ds as [|d t IH]; intros i st H; simpl; [reflexivity|].
  unfold L in H. simpl length in H. rewrite Nat2N.inj_succ in H.
  rewrite (H i) by lia. apply IH. intros j H1 H2. apply H; unfold L in *; lia.
Qed.

Lemma current_top : forall ds, current (2 ^ L ds) ds = [].
Proof.
  intros ds. apply current_from_zero. intros j _ Hj. apply N.pow2_bits_false. lia.
Qed.

Lemma pow2_nat : forall n, N.of_nat (Nat.pow 2 n) = 2 ^ N.of_nat n.
Proof.
  induction n as [|n IH]; [reflexivity|].
  rewrite Nat.pow_succ_r', Nat2N.inj_mul, IH, (Nat2N.inj_succ n), N.pow_succ_r'. reflexivity.
Qed.

Lemma search_total : forall fuel r st ds,
  st <= 2 ^ L ds -> (N.to_nat (2 ^ L ds - st) < fuel)%nat ->
  exists st' cur, search fuel r st ds = Some (st', cur) /\ st' <= 2 ^ L ds /\ (cur <> [] -> st' < 2 ^ L ds).
Proof.
  induction fuel as [|f IH]; intros r st ds Hle Hf; [lia|]. simpl.
  destruct (current st ds) as [|x xs] eqn:Hc.
  - exists st, []. split; [reflexivity|]. split; [exact Hle|]. congruence.
  - assert (Hlt : st < 2 ^ L ds).
    { destruct (N.eq_dec st (2 ^ L ds)) as [E|E]; [rewrite E, current_top in Hc; discriminate | lia]. }
    destruct (satisfied r (x :: xs)).
    + exists st, (x :: xs). split; [reflexivity|]. split; [exact Hle|]. intros _. exact Hlt.
    + apply IH; lia.
Qed.

Lemma search_fuel_for : forall r st ds,
  st <= 2 ^ L ds ->
  exists st' cur, search (fuel_for ds) r st ds = Some (st', cur) /\ (cur <> [] -> st' < 2 ^ L ds).
Proof.
  intros r st ds H. destruct (search_total (fuel_for ds) r st ds H) as [st' [cur [A [_ B]]]].
  - unfold fuel_for. assert (E : N.of_nat (Nat.pow 2 (length ds)) = 2 ^ L ds) by apply pow2_nat. lia.
  - exists st', cur. auto.
Qed.

(* positions are valid indices, and removing them shortens the list by their number *)
Lemma positions_lt : forall ds j ex q, In q (positions_from j ex ds) -> (q < j + length ds)%nat.
Proof.
  induction ds as [|d t IH]; intros j ex q H; simpl in H; [contradiction|].
  destruct (memN d ex); [destruct H as [H|H]; [simpl; lia|]|]; apply IH in H; simpl; lia.
Qed.

Lemma filter_positions_len : forall ds j ex,
  (length (filter (kept ex) ds) + length (positions_from j ex ds) = length ds)%nat.
Proof.
  induction ds as [|d t IH]; intros j ex; simpl; [reflexivity|]. unfold kept at 1.
  destruct (memN d ex); simpl; specialize (IH (S j) ex); lia.
Qed.

Lemma max_in : forall (l : list nat) b, (forall q, In q l -> (q < b)%nat) -> l <> [] -> (fold_right Nat.max O l < b)%nat.
Proof.
  induction l as [|x t IH]; intros b H Hne; [congruence|]. simpl.
  destruct t as [|y t'].
  - simpl. specialize (H x (or_introl eq_refl)). lia.
  - assert (fold_right Nat.max 0%nat (y :: t') < b)%nat by (apply IH; [intros q Hq; apply H; right; exact Hq | discriminate]).
    specialize (H x (or_introl eq_refl)). lia.
Qed.

(* the arithmetic of excludeDescriptors keeps the state within the shortened bit range *)
Lemma exclude_bound : forall a len k m,
  a < 2 ^ len -> k < len -> m <= len ->
  N.shiftr (N.ldiff a (N.pred (N.shiftl 1 k)) + N.shiftl 1 k) m <= 2 ^ (len - m).
Proof.
  intros a len k m Ha Hk Hm.
  change (N.pred (N.shiftl 1 k)) with (N.ones k). rewrite N.ldiff_ones_r, N.shiftl_1_l.
  rewrite N.shiftr_div_pow2, N.shiftl_mul_pow2, N.shiftr_div_pow2.
  assert (P : 2 ^ k <> 0) by (apply N.pow_nonzero; discriminate).
  assert (Q : 2 ^ m <> 0) by (apply N.pow_nonzero; discriminate).
  assert (S1 : 2 ^ len = 2 ^ k * 2 ^ (len - k)) by (rewrite <- N.pow_add_r; f_equal; lia).
  assert (D : a / 2 ^ k < 2 ^ (len - k)) by (apply N.div_lt_upper_bound; [exact P | rewrite <- S1; exact Ha]).
  assert (C : a / 2 ^ k * 2 ^ k + 2 ^ k <= 2 ^ len).
  { replace (a / 2 ^ k * 2 ^ k + 2 ^ k) with ((a / 2 ^ k + 1) * 2 ^ k) by lia.
    rewrite S1, (N.mul_comm (2 ^ k)). apply N.mul_le_mono_r. lia. }
  assert (S2 : 2 ^ len = 2 ^ (len - m) * 2 ^ m) by (rewrite <- N.pow_add_r; f_equal; lia).
  apply (N.div_le_mono _ _ (2 ^ m) Q) in C. rewrite S2 in C. rewrite N.div_mul in C by exact Q. exact C.
Qed.

Definition wf_iter (it : iter) : Prop := it_done it = false -> it_state it < 2 ^ L (it_descs it).

Lemma next_total : forall r it ex, wf_iter it -> exists it' sol, next r it ex = Some (it', sol) /\ wf_iter it'.
Proof.
  intros r it ex W. unfold next. destruct (it_done it) eqn:Dn; [exists it, []; split; [reflexivity | exact W]|].
  specialize (W Dn).
  destruct (positions_from 0 ex (it_descs it)) as [|p ps] eqn:Hp.
  - destruct (search_fuel_for r (N.succ (it_state it)) (it_descs it)) as [st2 [cur [A B]]]; [lia|].
    rewrite A. eexists. eexists. split; [reflexivity|]. unfold wf_iter. simpl. intros Hd. apply B.
    destruct cur; [discriminate | discriminate].
  - unfold exclude_step. rewrite <- Hp.
    set (pos := positions_from 0 ex (it_descs it)) in *.
    assert (Hd : remove_pos_from 0 pos (it_descs it) = filter (kept ex) (it_descs it)) by apply remove_positions.
    rewrite Hd.
    pose proof (filter_positions_len (it_descs it) 0 ex) as Len. fold pos in Len.
    assert (Hk : (fold_right Nat.max 0%nat pos < length (it_descs it))%nat).
    { apply max_in; [intros q Hq; apply positions_lt in Hq; lia | rewrite Hp; discriminate]. }
    assert (Bd : N.shiftr (N.ldiff (it_state it) (N.pred (N.shiftl 1 (N.of_nat (fold_right Nat.max 0%nat pos)))) +
                           N.shiftl 1 (N.of_nat (fold_right Nat.max 0%nat pos))) (N.of_nat (length pos))
                 <= 2 ^ L (filter (kept ex) (it_descs it))).
    { replace (L (filter (kept ex) (it_descs it))) with (L (it_descs it) - N.of_nat (length pos)) by (unfold L; lia).
      apply exclude_bound; unfold L in *; lia. }
    destruct (search_fuel_for r _ (filter (kept ex) (it_descs it)) Bd) as [st2 [cur [A B]]].
    rewrite A. eexists. eexists. split; [reflexivity|]. unfold wf_iter. simpl. intros Hdn. apply B.
    destruct cur; [discriminate | discriminate].
Qed.

Lemma new_iter_wf : forall r descs, wf_iter (new_iter r descs).
Proof.
  intros r descs _. simpl. assert (2 ^ L (filter (fun d => memN d (all_ids r)) descs) <> 0) by (apply N.pow_nonzero; discriminate). lia.
Qed.

(* any sequence of Next calls, with any exclude lists, on an iterator made by NewBitsetIterator runs to the end *)
Lemma iter_run_total : forall r exs it, wf_iter it -> exists outs, iter_run r it exs = Some outs.
Proof.
  intros r exs. induction exs as [|ex t IH]; intros it W; simpl; [eexists; reflexivity|].
  destruct (next_total r it ex W) as [it' [sol [A W']]]. rewrite A.
  destruct (IH it' W') as [outs B]. rewrite B. eexists. reflexivity.
Qed.

(* ---------- the outer selection loop of CreateVP never runs out of fuel ---------- *)
Lemma search_mono : forall fuel r st ds st' cur, search fuel r st ds = Some (st', cur) -> st <= st'.
Proof.
  induction fuel as [|f IH]; intros r st ds st' cur H; simpl in H; [discriminate|].
  destruct (current st ds); [inversion H; lia|].
  destruct (satisfied r (n :: l)); [inversion H; lia|]. apply IH in H. lia.
Qed.

(* potential of an iterator: states still ahead *)
Definition phi (it : iter) : N := 2 ^ L (it_descs it) - it_state it.

Lemma jump_progress : forall a len k m t,
  a < 2 ^ len -> k < len -> 1 <= m -> m <= len ->
  t = N.shiftr (N.ldiff a (N.pred (N.shiftl 1 k)) + N.shiftl 1 k) m ->
  t <= 2 ^ (len - m) /\ 2 ^ (len - m) - t < 2 ^ len - a.
Proof.
  intros a len k m t Ha Hk Hm1 Hm Ht.
  assert (B : t <= 2 ^ (len - m)) by (subst t; apply exclude_bound; assumption).
  split; [exact B|].
  subst t. change (N.pred (N.shiftl 1 k)) with (N.ones k) in *. rewrite N.ldiff_ones_r, N.shiftl_1_l in *.
  rewrite N.shiftr_div_pow2, N.shiftl_mul_pow2, N.shiftr_div_pow2 in *.
  assert (P : 2 ^ k <> 0) by (apply N.pow_nonzero; discriminate).
  assert (Q : 2 ^ m <> 0) by (apply N.pow_nonzero; discriminate).
  set (c := a / 2 ^ k * 2 ^ k + 2 ^ k) in *.
  assert (C1 : a < c).
  { unfold c. pose proof (N.div_mod a (2 ^ k) P) as E. pose proof (N.mod_lt a (2 ^ k) P) as M. lia. }
  assert (S2 : 2 ^ len = 2 ^ (len - m) * 2 ^ m) by (rewrite <- N.pow_add_r; f_equal; lia).
  assert (M2 : 2 <= 2 ^ m).
  { replace m with (N.succ (m - 1)) by lia. rewrite N.pow_succ_r'.
    assert (2 ^ (m - 1) <> 0) by (apply N.pow_nonzero; discriminate). lia. }
  pose proof (N.div_mod c (2 ^ m) Q) as E. pose proof (N.mod_lt c (2 ^ m) Q) as M.
  set (t := c / 2 ^ m) in *. set (T := 2 ^ (len - m)) in *. set (W := 2 ^ len) in *. set (Pm := 2 ^ m) in *.
  set (rm := c mod Pm) in *.
  destruct (N.eq_dec T t) as [Et|Et]; [lia|].
  assert (A1 : 1 <= T - t) by lia.
  assert (G : (T - t - 1) * Pm < W - c) by nia.
  assert (G2 : T - t - 1 <= (T - t - 1) * Pm) by nia.
  lia.
Qed.

Lemma next_progress : forall r it ex it' sol,
  wf_iter it -> it_done it = false -> next r it ex = Some (it', sol) ->
  wf_iter it' /\ phi it' < phi it.
Proof.
  intros r it ex it' sol W Dn H. pose proof (W Dn) as Hs. unfold next in H. rewrite Dn in H. unfold phi.
  destruct (positions_from 0 ex (it_descs it)) as [|p ps] eqn:Hp.
  - destruct (search_fuel_for r (N.succ (it_state it)) (it_descs it)) as [st2 [cur [A B]]]; [lia|].
    rewrite A in H. inversion H; subst. simpl. pose proof (search_mono _ _ _ _ _ _ A) as Mo. split.
    + unfold wf_iter. simpl. intros Hd. apply B. destruct sol; discriminate.
    + lia.
  - unfold exclude_step in H. rewrite <- Hp in H.
    set (pos := positions_from 0 ex (it_descs it)) in *.
    assert (Hd : remove_pos_from 0 pos (it_descs it) = filter (kept ex) (it_descs it)) by apply remove_positions.
    rewrite Hd in H.
    pose proof (filter_positions_len (it_descs it) 0 ex) as Len. fold pos in Len.
    assert (Hk : (fold_right Nat.max 0%nat pos < length (it_descs it))%nat).
    { apply max_in; [intros q Hq; apply positions_lt in Hq; lia | rewrite Hp; discriminate]. }
    assert (Hm1 : (1 <= length pos)%nat) by (rewrite Hp; simpl; lia).
    set (t := N.shiftr (N.ldiff (it_state it) (N.pred (N.shiftl 1 (N.of_nat (fold_right Nat.max 0%nat pos)))) +
                        N.shiftl 1 (N.of_nat (fold_right Nat.max 0%nat pos))) (N.of_nat (length pos))) in *.
    assert (JP : t <= 2 ^ (L (it_descs it) - N.of_nat (length pos)) /\
                 2 ^ (L (it_descs it) - N.of_nat (length pos)) - t < 2 ^ L (it_descs it) - it_state it).
    { apply (jump_progress (it_state it) (L (it_descs it)) (N.of_nat (fold_right Nat.max 0%nat pos))
               (N.of_nat (length pos)) t); [exact Hs | unfold L; lia | lia | unfold L; lia | reflexivity]. }
    destruct JP as [J1 J2].
    assert (EL : L (filter (kept ex) (it_descs it)) = L (it_descs it) - N.of_nat (length pos)) by (unfold L; lia).
    rewrite <- EL in J1, J2.
    destruct (search_fuel_for r t (filter (kept ex) (it_descs it)) J1) as [st2 [cur [A B]]].
    rewrite A in H. inversion H; subst. simpl. pose proof (search_mono _ _ _ _ _ _ A) as Mo. split.
    + unfold wf_iter. simpl. intros Hdn. apply B. destruct sol; discriminate.
    + lia.
Qed.

Lemma apply_loop_fuel : forall fuel v p cs r it ev ms ex,
  wf_iter it -> it_done it = false -> (N.to_nat (phi it) < fuel)%nat ->
  apply_loop fuel v p cs r it ev ms ex <> HFuel.
Proof.
  induction fuel as [|f IH]; intros v p cs r it ev ms ex W Dn Hf; [lia|]. simpl.
  destruct (next_total r it ex W) as [it' [sol [A _]]]. rewrite A.
  destruct (next_progress _ _ _ _ _ W Dn A) as [W' P].
  destruct sol as [|s0 st]; [discriminate|].
  destruct (eval_sol v p cs (s0 :: st) ev ms) as [[[solved ev'] ms'] ex'].
  destruct solved; [discriminate|].
  apply IH; [exact W'| |lia].
  (* a non-empty result means the iterator is not finished *)
  unfold next in A. rewrite Dn in A.
  destruct (positions_from 0 ex (it_descs it)); [|unfold exclude_step in A];
    match type of A with context [search ?f r ?s ?d] => destruct (search f r s d) as [[st2 cur]|]; [|discriminate] end;
    inversion A; subst; reflexivity.
Qed.

Lemma holder_select_no_fuel : forall v p creds, holder_select v p creds <> HFuel.
Proof.
  intros v p creds. unfold holder_select. destruct (make_req p) as [r|]; [|discriminate].
  apply apply_loop_fuel; [apply new_iter_wf | reflexivity|].
  unfold phi. simpl. rewrite N.sub_0_r.
  set (ds := filter (fun d => memN d (all_ids r)) (map d_id (p_descs p))).
  assert (E : N.of_nat (Nat.pow 2 (length ds)) = 2 ^ L ds) by apply pow2_nat. lia.
Qed.
