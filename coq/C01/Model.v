(* C01/C02 — executable symbolic model of the four DIDComm packers (no proofs in this file).

   Anchors: pkg/didcomm/packager/packager.go (dispatch), pkg/didcomm/packer/{authcrypt,anoncrypt}/pack.go,
   component/kmscrypto/doc/jose/{encrypter,decrypter,jwe}.go, crypto/tinkcrypto/{key_wrapper,wrap_support}.go,
   pkg/didcomm/packer/legacy/{authcrypt,anoncrypt}/{pack,unpack}.go,
   component/models/jose/diddocresolver/resolver.go.

   Cryptography is the term algebra of common/Sym.v: keys are names (N), DH a b is the shared secret of the
   key pairs a and b, Kdf is an injective hash of its argument list, AEnc/Wrap are ideal (open only with the
   very same key/aad).  What IS modelled exactly is the code's own logic: which header each value is taken
   from, what goes into the KDF and the AAD, single- vs multi-recipient header merging, recipient selection
   by KMS ownership, the order in which recipients are tried, pack-side rejections, where FromKey/ToKey of the
   result come from. *)
From Coq Require Import List NArith Bool.
Import ListNotations.
From VF Require Export common.Sym common.Res.
Local Open Scope N_scope.

(* ---------- configuration ---------- *)
Inductive packer := JweAuth | JweAnon | LegAuth | LegAnon.
Inductive ktype := X25519 | P256 | P384 | P521 | Ed25519.
Inductive encalg := A256GCM | XC20P | A128CBC | A192CBC | A256CBC384 | A256CBC512.
(* key reference styles: did:key, a DID-document key-agreement id (document with that single key),
   a key-agreement id of a document with several keyAgreement entries where the key is not the last one,
   raw key bytes (legacy), and raw key bytes handed to the PACKAGER where the sender's or a recipient's key has a
   '#' byte (0x23) after position 0: packager.prepareSenderAndRecipientKeys takes such a key for a DID-document
   key-agreement reference and fails to resolve it *)
Inductive kstyle := DidKey | DidDoc | DidDocMulti | RawKey | RawKeyHash.
Record cfg := mkcfg { packer_of : packer; kt_of : ktype; enc_of : encalg; style_of : kstyle }.
(* AsIs = the code as found: the DID-document kid resolver returns the result of the LAST keyAgreement entry
   (fix: 1a07210) and JWEDecrypt unwraps ECDH-ES keys although a sender key id is present (fix: 234874c);
   Fixed = after both fix: commits. *)
Inductive variant := AsIs | Fixed.

Definition is_auth (p : packer) := match p with JweAuth | LegAuth => true | _ => false end.
Definition is_legacy (p : packer) := match p with LegAuth | LegAnon => true | _ => false end.

Definition mem (k : N) (l : list N) : bool := existsb (N.eqb k) l.

(* ---------- key references ---------- *)
Inductive kref :=
| KDidKey (k : N)
| KDoc (k : N) (last : bool)
| KUnres (n : N)      (* did:key:… / did#fragment syntax that does not resolve to a key *)
| KBad (n : N).       (* neither form *)

Inductive rres := RKey (k : N) | RNil | RErr | RFmt.
Definition resolve (v : variant) (r : kref) : rres :=
  match r with
  | KDidKey k => RKey k
  | KDoc k last => if last then RKey k else match v with AsIs => RNil | Fixed => RKey k end
  | KUnres _ => RErr
  | KBad _ => RFmt
  end.

Definition t_kref (r : kref) : term :=
  match r with
  | KDidKey k => Tup [Bytes 1; Bytes k]
  | KDoc k l => Tup [Bytes 2; Bytes k; Bytes (if l then 1 else 0)]
  | KUnres n => Tup [Bytes 3; Bytes n]
  | KBad n => Tup [Bytes 4; Bytes n]
  end.
Definition kref_of_term (t : term) : option kref :=
  match t with
  | Tup [Bytes 1; Bytes k] => Some (KDidKey k)
  | Tup [Bytes 2; Bytes k; Bytes l] => Some (KDoc k (negb (l =? 0)))
  | Tup [Bytes 3; Bytes n] => Some (KUnres n)
  | Tup [Bytes 4; Bytes n] => Some (KBad n)
  | _ => None
  end.

Definition kref_for (s : kstyle) (k : N) : kref :=
  match s with DidKey | RawKey | RawKeyHash => KDidKey k | DidDoc => KDoc k true | DidDocMulti => KDoc k false end.

(* ---------- key wrapping algorithms ---------- *)
Inductive kwalg := ES_A256KW | ES_XC20PKW | PU_A128KW | PU_A192KW | PU_A256KW | PU_XC20PKW | AlgOther (n : N).
Definition is_1pu (a : kwalg) := match a with PU_A128KW | PU_A192KW | PU_A256KW | PU_XC20PKW => true | _ => false end.
Definition is_es (a : kwalg) := match a with ES_A256KW | ES_XC20PKW => true | _ => false end.
Definition t_alg (a : kwalg) : term :=
  match a with
  | ES_A256KW => Bytes 11 | ES_XC20PKW => Bytes 12 | PU_A128KW => Bytes 13 | PU_A192KW => Bytes 14
  | PU_A256KW => Bytes 15 | PU_XC20PKW => Bytes 16 | AlgOther n => Tup [Bytes 17; Bytes n]
  end.
Definition t_enc (e : encalg) : term :=
  Bytes (match e with A256GCM => 21 | XC20P => 22 | A128CBC => 23 | A192CBC => 24 | A256CBC384 => 25 | A256CBC512 => 26 end).

Definition t_opt {A} (f : A -> term) (o : option A) : term :=
  match o with Some x => Tup [f x] | None => Tup [] end.
Definition odflt (o : option term) : term := match o with Some t => t | None => Tup [] end.

(* ---------- the JWE wire ---------- *)
(* the protected header as parsed; p_var stands for everything else in the serialized header (typ, cty, member
   order, white space): the authenticated string is t_phdr, injective in all fields *)
Record phdr := mkphdr { p_enc : option encalg; p_skid : option kref; p_alg : option kwalg; p_kid : option kref;
                        p_epk : option term; p_apu : option term; p_apv : option term; p_var : N }.
Record rhdr := mkrhdr { rh_kid : option kref; rh_alg : option kwalg; rh_epk : option term;
                        rh_apu : option term; rh_apv : option term }.
Record rcp := mkrcp { r_hdr : option rhdr; r_ek : term }.
(* j_prot = None: the protected member does not decode/parse *)
Record jwe := mkjwe { j_prot : option phdr; j_recs : list rcp; j_aad : term; j_iv : term; j_ct : term; j_tag : term }.

Definition t_phdr (h : phdr) : term :=
  Tup [Bytes (p_var h); t_opt t_enc (p_enc h); t_opt t_kref (p_skid h); t_opt t_alg (p_alg h);
       t_opt t_kref (p_kid h); odflt (option_map (fun t => Tup [t]) (p_epk h));
       odflt (option_map (fun t => Tup [t]) (p_apu h)); odflt (option_map (fun t => Tup [t]) (p_apv h))].

(* ---------- the legacy wire ---------- *)
Inductive lalg := LAuthcrypt | LAnoncrypt | LOtherAlg.
(* l_kid: the key named by the base58 kid (0 = nobody's key) *)
Record lrcp := mklrcp { l_kid : N; l_sender : term; l_iv : term; l_ek : term }.
Record lphdr := mklphdr { lp_typ_ok : bool; lp_alg : lalg; lp_recs : list lrcp; lp_var : N }.
Record lenv := mklenv { le_prot : option lphdr; le_iv : term; le_ct : term; le_tag : term }.

Definition t_lrcp (r : lrcp) : term := Tup [Bytes (l_kid r); l_sender r; l_iv r; l_ek r].
Definition t_lphdr (h : lphdr) : term :=
  Tup [Bytes (lp_var h); Bytes (if lp_typ_ok h then 1 else 0);
       Bytes (match lp_alg h with LAuthcrypt => 1 | LAnoncrypt => 2 | LOtherAlg => 3 end);
       Tup (map t_lrcp (lp_recs h))].

Inductive wire := WJwe (j : jwe) | WLeg (l : lenv) | WBad.

(* ---------- symmetric layer ---------- *)
Definition c_aad (prot aad : term) : term := Tup [prot; aad].
Definition c_enc (cek aad iv m : term) : term := AEnc cek (Tup [aad; iv]) m.
Definition c_tag (ct : term) : term := Kdf [Bytes 901; ct].
Definition c_dec (cek aad iv ct tag : term) : option term :=
  if term_eqb tag (c_tag ct) then adec cek (Tup [aad; iv]) ct else None.

Definition kek_es (a : kwalg) (ze apu apv : term) : term := Kdf [Bytes 902; t_alg a; ze; apu; apv].
Definition kek_1pu (a : kwalg) (ze zs apu apv tag : term) : term := Kdf [Bytes 903; t_alg a; ze; zs; apu; apv; tag].
Definition apu_es (epk : term) : term := Tup [Bytes 904; epk].
Definition apv_1pu (kids : list kref) : term := Kdf [Bytes 905; Tup (map t_kref kids)].
Definition box_key (a b : N) (nonce : term) : term := Kdf [Bytes 906; dh a b; nonce].
Definition seal_key (e r : N) : term := Kdf [Bytes 907; dh e r].
Definition seal (e r : N) (m : term) : term := Tup [Pub e; AEnc (seal_key e r) (Tup []) m].
Definition seal_open (r : N) (t : term) : option term :=
  match t with Tup [Pub e; c] => adec (seal_key r e) (Tup []) c | _ => None end.

(* ---------- randomness of one pack ---------- *)
Record rnd := mkrnd { rn_eph : N; rn_cek : N; rn_iv : N }.
Definition cek_of (rn : rnd) : term := Kdf [Bytes 908; Bytes (rn_cek rn)].
Definition iv_of (rn : rnd) : term := Bytes (rn_iv rn).

(* ---------- pack ---------- *)
Definition stream_enc (e : encalg) := match e with A256GCM | XC20P => true | _ => false end.
Definition auth_enc_ok (e : encalg) := match e with A256GCM => false | _ => true end.
Definition es_alg (kt : ktype) : kwalg := match kt with X25519 => ES_XC20PKW | _ => ES_A256KW end.
Definition pu_alg (kt : ktype) (e : encalg) : option kwalg :=
  match kt with
  | X25519 => Some PU_XC20PKW
  | _ => match e with
         | A256GCM | XC20P | A128CBC => Some PU_A128KW   (* 32-byte CEK *)
         | A192CBC => Some PU_A192KW                     (* 48 *)
         | A256CBC512 => Some PU_A256KW                  (* 64 *)
         | A256CBC384 => None                            (* 56: derive1PUKEK: invalid CBC-HMAC key size *)
         end
  end.

(* the code's pack-side rejections, as one decidable predicate *)
Definition rejects (c : cfg) (spar : list N) (payload sender : N) (rcpts : list N) : bool :=
  match rcpts with [] => true | _ =>
    match style_of c with RawKeyHash => true | _ => false end ||
    match packer_of c with
    | JweAuth =>
        match kt_of c with Ed25519 => true | _ => false end
        || negb (auth_enc_ok (enc_of c))
        || negb (mem sender spar)
        || match pu_alg (kt_of c) (enc_of c) with None => true | Some _ => false end
        || ((payload =? 0) && Nat.ltb 1 (length rcpts) && stream_enc (enc_of c))
    | JweAnon =>
        match kt_of c with Ed25519 => true | _ => false end
        || ((payload =? 0) && Nat.ltb 1 (length rcpts) && stream_enc (enc_of c))
    | LegAuth => match kt_of c with Ed25519 => false | _ => true end || negb (mem sender spar)
    | LegAnon => match kt_of c with Ed25519 => false | _ => true end
    end
  end.

Fixpoint es_recs_from (i : N) (a : kwalg) (st : kstyle) (rn : rnd) (rcpts : list N) : list rcp :=
  match rcpts with
  | [] => []
  | r :: rest =>
      let e := rn_eph rn + i in
      mkrcp (Some (mkrhdr (Some (kref_for st r)) (Some a) (Some (Pub e)) (Some (apu_es (Pub e))) None))
            (Wrap (kek_es a (dh e r) (apu_es (Pub e)) (Tup [])) (cek_of rn))
      :: es_recs_from (i + 1) a st rn rest
  end.

Definition pack_jwe_anon (c : cfg) (payload : N) (rcpts : list N) (rn : rnd) : jwe :=
  let a := es_alg (kt_of c) in
  let cek := cek_of rn in
  match rcpts with
  | [r] =>
      let e := rn_eph rn in
      let prot := mkphdr (Some (enc_of c)) None (Some a) (Some (kref_for (style_of c) r)) (Some (Pub e))
                         (Some (apu_es (Pub e))) None 0 in
      let aad := c_aad (t_phdr prot) (Tup []) in
      let ct := c_enc cek aad (iv_of rn) (Bytes payload) in
      mkjwe (Some prot) [mkrcp None (Wrap (kek_es a (dh e r) (apu_es (Pub e)) (Tup [])) cek)]
            (Tup []) (iv_of rn) ct (c_tag ct)
  | _ =>
      let prot := mkphdr (Some (enc_of c)) None None None None None None 0 in
      let aad := c_aad (t_phdr prot) (Tup []) in
      let ct := c_enc cek aad (iv_of rn) (Bytes payload) in
      mkjwe (Some prot) (es_recs_from 0 a (style_of c) rn rcpts) (Tup []) (iv_of rn) ct (c_tag ct)
  end.

Definition pack_jwe_auth (c : cfg) (a : kwalg) (payload sender : N) (rcpts : list N) (rn : rnd) : jwe :=
  let cek := cek_of rn in
  let st := style_of c in
  let e := rn_eph rn in
  let skid := kref_for st sender in
  let apu := t_kref skid in
  let apv := apv_1pu (map (kref_for st) rcpts) in
  let single := match rcpts with [_] => true | _ => false end in
  let prot := mkphdr (Some (enc_of c)) (Some skid) (Some a)
                     (match rcpts with [r] => Some (kref_for st r) | _ => None end)
                     (Some (Pub e)) (Some apu) (Some apv) 0 in
  let aad := c_aad (t_phdr prot) (Tup []) in
  let ct := c_enc cek aad (iv_of rn) (Bytes payload) in
  let tag := c_tag ct in
  let wk r := Wrap (kek_1pu a (dh e r) (dh sender r) apu apv tag) cek in
  mkjwe (Some prot)
        (map (fun r => mkrcp (if single then None else Some (mkrhdr (Some (kref_for st r)) None None None None)) (wk r)) rcpts)
        (Tup []) (iv_of rn) ct tag.

Fixpoint leg_auth_recs (i : N) (sender : N) (rn : rnd) (rcpts : list N) : list lrcp :=
  match rcpts with
  | [] => []
  | r :: rest =>
      let nonce := Tup [Bytes 909; Bytes (rn_iv rn); Bytes i] in
      mklrcp r (seal (rn_eph rn + i) r (Pub sender)) nonce (Wrap (box_key sender r nonce) (cek_of rn))
      :: leg_auth_recs (i + 1) sender rn rest
  end.
Fixpoint leg_anon_recs (i : N) (rn : rnd) (rcpts : list N) : list lrcp :=
  match rcpts with
  | [] => []
  | r :: rest => mklrcp r (Tup []) (Tup []) (seal (rn_eph rn + i) r (cek_of rn)) :: leg_anon_recs (i + 1) rn rest
  end.

Definition pack_leg (auth : bool) (payload sender : N) (rcpts : list N) (rn : rnd) : lenv :=
  let recs := if auth then leg_auth_recs 0 sender rn rcpts else leg_anon_recs 0 rn rcpts in
  let prot := mklphdr true (if auth then LAuthcrypt else LAnoncrypt) recs 0 in
  let ct := c_enc (cek_of rn) (t_lphdr prot) (iv_of rn) (Bytes payload) in
  mklenv (Some prot) (iv_of rn) ct (c_tag ct).

Definition pack (c : cfg) (spar : list N) (payload sender : N) (rcpts : list N) (rn : rnd) : res wire :=
  if rejects c spar payload sender rcpts then Err ERejected else
  match packer_of c with
  | JweAuth => match pu_alg (kt_of c) (enc_of c) with
               | Some a => Ok (WJwe (pack_jwe_auth c a payload sender rcpts rn))
               | None => Err ERejected
               end
  | JweAnon => Ok (WJwe (pack_jwe_anon c payload rcpts rn))
  | LegAuth => Ok (WLeg (pack_leg true payload sender rcpts rn))
  | LegAnon => Ok (WLeg (pack_leg false payload sender rcpts rn))
  end.

(* ---------- JWE unpack (authcrypt.Unpack / anoncrypt.Unpack + JWEDecrypt.Decrypt) ---------- *)
Definition single_rec (recs : list rcp) : bool := match recs with [_] => true | _ => false end.

(* packer.pubKey(i, jwe): the kid of recipient i *)
Definition sel_kid (single : bool) (prot : phdr) (rc : rcp) : res kref :=
  if single then match p_kid prot with Some k => Ok k | None => Err EInvalid end
  else match r_hdr rc with
       | None => Panic 1
       | Some h => match rh_kid h with Some k => Ok k | None => Ok (KBad 0) end
       end.

(* the packer's loop: first recipient whose resolved key is in the own KMS *)
Fixpoint find_owned (v : variant) (party : list N) (single : bool) (prot : phdr) (recs : list rcp) : res (N * kref) :=
  match recs with
  | [] => Err ENotFound
  | rc :: rest =>
      match sel_kid single prot rc with
      | Ok kr => match resolve v kr with
                 | RKey k => if mem k party then Ok (k, kr) else find_owned v party single prot rest
                 | RNil => Panic 2
                 | RErr | RFmt => Err EInvalid
                 end
      | Err e => Err e | Panic s => Panic s | Diverge => Diverge
      end
  end.

(* Decrypt: sender key id: the skid header, else (several recipients) the apu header *)
Definition jwe_skid (prot : phdr) (recs : list rcp) : option kref :=
  match p_skid prot with
  | Some s => Some s
  | None => if single_rec recs then None else
            match recs with
            | [] => None
            | _ => match p_apu prot with
                   | Some (Junk _) => None                         (* not base64url: no sender *)
                   | Some a => match kref_of_term a with
                               | Some k => Some k
                               | None => Some (KUnres 0)           (* decodes to a string no resolver resolves *)
                               end
                   | None => None
                   end
            end
  end.

Record recwk := mkrecwk { wk_kid : option kref; wk_alg : option kwalg; wk_epk : term;
                          wk_apu : option term; wk_apv : option term; wk_ek : term }.

Definition is_pub (t : term) := match t with Pub _ => true | _ => false end.

(* an apu/apv header value that is not base64url (Junk) makes createRecWK fail for the whole envelope *)
Definition bad_b64 (o : option term) : bool := match o with Some (Junk _) => true | _ => false end.

(* buildRecipientsWrappedKey for one recipient *)
Definition build_recwk (single : bool) (prot : phdr) (rc : rcp) : res recwk :=
  let is1pu := match p_alg prot with Some a => is_1pu a | None => false end in
  if single || is1pu then
    match p_epk prot with
    | None => Err EInvalid
    | Some epk =>
        if negb (is_pub epk) || bad_b64 (p_apu prot) || bad_b64 (p_apv prot) then Err EInvalid else
        if is1pu && negb single then
          match r_hdr rc with
          | None => Panic 4
          | Some h => Ok (mkrecwk (rh_kid h) (p_alg prot) epk (p_apu prot) (p_apv prot) (r_ek rc))
          end
        else Ok (mkrecwk (p_kid prot) (p_alg prot) epk (p_apu prot) (p_apv prot) (r_ek rc))
    end
  else
    match r_hdr rc with
    | None => Panic 5
    | Some h => match rh_epk h with
                | None => Err EInvalid
                | Some epk => if negb (is_pub epk) || bad_b64 (rh_apu h) || bad_b64 (rh_apv h) then Err EInvalid
                              else Ok (mkrecwk (rh_kid h) (rh_alg h) epk (rh_apu h) (rh_apv h) (r_ek rc))
                end
    end.

Fixpoint build_all (single : bool) (prot : phdr) (recs : list rcp) : res (list recwk) :=
  match recs with
  | [] => Ok []
  | rc :: rest => bind (build_recwk single prot rc) (fun w => bind (build_all single prot rest) (fun ws => Ok (w :: ws)))
  end.

(* Crypto.UnwrapKey with the recipient key k *)
Definition unwrap_one (k : N) (sender : option N) (tag : term) (w : recwk) : option term :=
  match wk_alg w, wk_epk w with
  | Some a, Pub e =>
      if is_1pu a then
        match sender with
        | Some s => unwrap (kek_1pu a (dh k e) (dh k s) (odflt (wk_apu w)) (odflt (wk_apv w)) tag) (wk_ek w)
        | None => None
        end
      else if is_es a then unwrap (kek_es a (dh k e) (odflt (wk_apu w)) (odflt (wk_apv w))) (wk_ek w)
      else None
  | _, _ => None
  end.

(* unwrapCEK: every recipient entry in order, the first that unwraps wins *)
Fixpoint unwrap_cek (v : variant) (party : list N) (sender : option N) (tag : term) (ws : list recwk) : res term :=
  match ws with
  | [] => Err ERejected
  | w :: rest =>
      match wk_kid w with
      | None => unwrap_cek v party sender tag rest
      | Some kr =>
          match resolve v kr with
          | RKey k => if mem k party then
                        match unwrap_one k sender tag w with
                        | Some c => Ok c
                        | None => unwrap_cek v party sender tag rest
                        end
                      else unwrap_cek v party sender tag rest
          | RNil => Panic 6
          | RErr | RFmt => unwrap_cek v party sender tag rest
          end
      end
  end.

(* fix: 234874c — with a sender key id every recipient's key wrapping alg must be ECDH-1PU *)
Definition alg_1pu (w : recwk) : bool := match wk_alg w with Some a => is_1pu a | None => false end.
Definition sender_needs_1pu (v : variant) (sender : option N) (ws : list recwk) : bool :=
  match v, sender with
  | Fixed, Some _ => negb (forallb alg_1pu ws)
  | _, _ => false
  end.

Definition decrypt_jwe (v : variant) (party : list N) (prot : phdr) (j : jwe) : res term :=
  match p_enc prot with
  | None => Err EInvalid
  | Some _ =>
      let k_sender :=
        match jwe_skid prot (j_recs j) with
        | None => Ok None
        | Some s => match resolve v s with RKey k => Ok (Some k) | RNil => Panic 3 | _ => Err EInvalid end
        end in
      bind k_sender (fun sender =>
      bind (build_all (single_rec (j_recs j)) prot (j_recs j)) (fun ws =>
      if sender_needs_1pu v sender ws then Err EInvalid else
      bind (unwrap_cek v party sender (j_tag j) ws) (fun cek =>
      match c_dec cek (c_aad (t_phdr prot) (j_aad j)) (j_iv j) (j_ct j) (j_tag j) with
      | Some m => Ok m
      | None => Err ERejected
      end)))
  end.

(* FromKey of the result: authcrypt only, resolved from the skid protected header *)
Definition from_of (v : variant) (auth : bool) (prot : phdr) : option N :=
  if auth then match p_skid prot with
               | Some s => match resolve v s with RKey k => Some k | _ => None end
               | None => None
               end
  else None.

Definition unpack_jwe (v : variant) (auth : bool) (party : list N) (j : jwe) : res (term * option N * N) :=
  match j_prot j with
  | None => Err EInvalid
  | Some prot =>
      bind (find_owned v party (single_rec (j_recs j)) prot (j_recs j)) (fun '(k, _) =>
      bind (decrypt_jwe v party prot j) (fun m => Ok (m, from_of v auth prot, k)))
  end.

(* ---------- legacy unpack ---------- *)
Fixpoint find_ver (party : list N) (recs : list lrcp) : option lrcp :=
  match recs with
  | [] => None
  | r :: rest => if mem (l_kid r) party then Some r else find_ver party rest
  end.

Definition unpack_leg (auth : bool) (party : list N) (l : lenv) : res (term * option N * N) :=
  match le_prot l with
  | None => Err EInvalid
  | Some prot =>
      if negb (lp_typ_ok prot) then Err EInvalid else
      match lp_alg prot, auth with
      | LAuthcrypt, true | LAnoncrypt, false =>
          match find_ver party (lp_recs prot) with
          | None => Err ENotFound
          | Some r =>
              let k := l_kid r in
              let keys : option (term * option N) :=
                if auth then
                  match seal_open k (l_sender r) with
                  | Some (Pub s) => match unwrap (box_key k s (l_iv r)) (l_ek r) with
                                    | Some c => Some (c, Some s) | None => None end
                  | _ => None
                  end
                else match seal_open k (l_ek r) with Some c => Some (c, None) | None => None end in
              match keys with
              | None => Err ERejected
              | Some (cek, from) =>
                  match c_dec cek (t_lphdr prot) (le_iv l) (le_ct l) (le_tag l) with
                  | Some m => Ok (m, from, k)
                  | None => Err ERejected
                  end
              end
          end
      | _, _ => Err EInvalid
      end
  end.

(* ---------- the packer's Unpack and the packager's UnpackMessage ---------- *)
Definition unpack (v : variant) (p : packer) (party : list N) (w : wire) : res (term * option N * N) :=
  match p, w with
  | JweAuth, WJwe j => unpack_jwe v true party j
  | JweAnon, WJwe j => unpack_jwe v false party j
  | LegAuth, WLeg l => unpack_leg true party l
  | LegAnon, WLeg l => unpack_leg false party l
  | _, _ => Err EInvalid
  end.

(* packager.getEncodingType: authcrypt iff the protected header has a skid (JWE) / alg "Authcrypt" (legacy) *)
Definition dispatch (w : wire) : option packer :=
  match w with
  | WJwe j => match j_prot j with
              | Some prot => Some (match p_skid prot with Some _ => JweAuth | None => JweAnon end)
              | None => None
              end
  | WLeg l => match le_prot l with
              | Some prot => if lp_typ_ok prot then Some (match lp_alg prot with LAuthcrypt => LegAuth | _ => LegAnon end)
                             else None
              | None => None
              end
  | WBad => None
  end.
Definition unpack_pkgr (v : variant) (party : list N) (w : wire) : res (term * option N * N) :=
  match dispatch w with Some p => unpack v p party w | None => Err EInvalid end.

(* ---------- recipient lists of mixed key types ---------- *)
(* [ktf k] = the key type of key k.  What the code does (jose.JWEEncrypt.getWrapKeyOpts, tinkcrypto key_wrapper):
   anoncrypt wraps for every recipient independently; the key-wrap flavour (XC20PKW or A256KW) is chosen from the
   FIRST recipient's type for all of them, and each recipient unwraps by the alg it reads: any mix works.
   authcrypt (ECDH-1PU) needs sender, ephemeral and recipient keys on one curve: a recipient of another type than the
   sender makes Pack fail (derive1PUKEK: "not an EC key" / "not an OKP key" / "not on the same curve"). *)
Definition ktype_eqb (a b : ktype) : bool :=
  match a, b with
  | X25519, X25519 | P256, P256 | P384, P384 | P521, P521 | Ed25519, Ed25519 => true
  | _, _ => false
  end.
Definition with_kt (c : cfg) (k : ktype) : cfg := mkcfg (packer_of c) k (enc_of c) (style_of c).
Definition pack_mixed (ktf : N -> ktype) (c : cfg) (spar : list N) (payload sender : N) (rcpts : list N) (rn : rnd)
  : res wire :=
  match packer_of c with
  | JweAuth => if forallb (fun r => ktype_eqb (ktf r) (ktf sender)) rcpts
               then pack (with_kt c (ktf sender)) spar payload sender rcpts rn else Err ERejected
  | JweAnon => pack (with_kt c (match rcpts with r :: _ => ktf r | [] => kt_of c end)) spar payload sender rcpts rn
  | _ => pack c spar payload sender rcpts rn
  end.

(* ---------- the Crypto.UnwrapKey calls of one Unpack (for the structural tie of the unpack side) ---------- *)
(* one attempt: the alg label handed to UnwrapKey is an ECDH-1PU one; a sender key handle (and the tag) was passed;
   the call returned a key *)
Record attempt := mkatt { at_1pu : bool; at_sender : bool; at_ok : bool }.
Definition is_some {A} (o : option A) : bool := match o with Some _ => true | None => false end.

Fixpoint attempts_cek (v : variant) (party : list N) (sender : option N) (tag : term) (ws : list recwk) : list attempt :=
  match ws with
  | [] => []
  | w :: rest =>
      match wk_kid w with
      | None => attempts_cek v party sender tag rest
      | Some kr =>
          match resolve v kr with
          | RKey k => if mem k party then
                        let ok := is_some (unwrap_one k sender tag w) in
                        mkatt (alg_1pu w) (is_some sender) ok :: (if ok then [] else attempts_cek v party sender tag rest)
                      else attempts_cek v party sender tag rest
          | RNil => []
          | RErr | RFmt => attempts_cek v party sender tag rest
          end
      end
  end.

Definition attempts_jwe (v : variant) (party : list N) (j : jwe) : list attempt :=
  match j_prot j with
  | None => []
  | Some prot =>
      match find_owned v party (single_rec (j_recs j)) prot (j_recs j), p_enc prot with
      | Ok _, Some _ =>
          match (match jwe_skid prot (j_recs j) with
                 | None => Some None
                 | Some s => match resolve v s with RKey k => Some (Some k) | _ => None end
                 end) with
          | None => []
          | Some sender =>
              match build_all (single_rec (j_recs j)) prot (j_recs j) with
              | Ok ws => if sender_needs_1pu v sender ws then [] else attempts_cek v party sender (j_tag j) ws
              | _ => []
              end
          end
      | _, _ => []
      end
  end.
Definition attempts (v : variant) (party : list N) (w : wire) : list attempt :=
  match w with WJwe j => attempts_jwe v party j | _ => [] end.
Definition attempt_eqb (a b : attempt) : bool :=
  Bool.eqb (at_1pu a) (at_1pu b) && Bool.eqb (at_sender a) (at_sender b) && Bool.eqb (at_ok a) (at_ok b).
Fixpoint attempts_eqb (a b : list attempt) : bool :=
  match a, b with
  | [], [] => true
  | x :: a', y :: b' => attempt_eqb x y && attempts_eqb a' b'
  | _, _ => false
  end.
