(* C01 — correspondence: the harness packs with the real packers and unpacks with every party; the model is run
   on the same configuration / key ownership and must predict the pack outcome and every party's result. *)
From Coq Require Import List NArith Bool.
Import ListNotations.
From VF Require Export C01.Model C01.KeyRef.
Local Open Scope N_scope.

(* observed unpack result: payload id (the packed payload's id when byte-equal, 999999 otherwise),
   FromKey key name (0 = none), ToKey key name; URej = error or panic *)
Inductive uobs := UOk (m from to : N) | URej.
Definition uobs_eqb (a b : uobs) : bool :=
  match a, b with
  | UOk m f t, UOk m' f' t' => (m =? m') && (f =? f') && (t =? t')
  | URej, URej => true
  | _, _ => false
  end.

Definition proj (r : res (term * option N * N)) : uobs :=
  match r with
  | Ok (Bytes m, from, to) => UOk m (match from with Some s => s | None => 0 end) to
  | Ok _ => UOk 999998 0 0
  | _ => URej
  end.

(* c_refs (packager with DID-document key references): the DID documents involved, the sender's reference (unused
   for anoncrypt) and the recipients' references as strings; the model then runs packager.PackMessage (pack_msg:
   resolution against the documents, sender id build + split) instead of being handed the resolved keys *)
Record case := { c_cfg : cfg; c_viapk : bool; c_spar : list N; c_payload : N; c_sender : N; c_rcpts : list N;
                 c_refs : option (directory * ref * list ref);
                 (* transport form handed to packager.UnpackMessage (0: the envelope, 1: "<base64url>", 2: padded) and
                    whether the scenario ran through long-lived instances that had seen EARLIER versions of the DID
                    documents: the model's unpack is a function of the envelope and the CURRENT directory only, so
                    both are recorded but do not enter the prediction — the implementation must agree in every
                    form and after every history *)
                 c_form : N; c_history : bool;
                 (* key types of the keys involved when they are not all of the configuration's type (else []) *)
                 c_kts : list (N * ktype);
                 c_packed : bool; c_unp : list (list N * uobs) }.

(* randomness names outside the harness's key names (ephemeral keys are key names too) *)
Definition rnd0 := mkrnd 100000 100001 100002.

(* the kid resolver of KeyRef.v, run on the reference strings against the documents, names the keys the abstract
   model is given (the unpack results compared below depend on exactly that) *)
Fixpoint refs_resolve (d : directory) (rrs : list ref) (ks : list N) : bool :=
  match rrs, ks with
  | [], [] => true
  | r :: rr, k :: kk => match dr_resolve Fixed d r with RKey k' => (k' =? k) && refs_resolve d rr kk | _ => false end
  | _, _ => false
  end.

Fixpoint ktf_of (dflt : ktype) (l : list (N * ktype)) (k : N) : ktype :=
  match l with [] => dflt | (k', t) :: r => if k =? k' then t else ktf_of dflt r k end.

Definition check_case (c : case) : bool :=
  match c_refs c with Some (d, _, rrs) => refs_resolve d rrs (c_rcpts c) | None => true end &&
  match (match c_refs c with
         | Some (d, sr, rrs) => pack_msg d (c_cfg c) (c_spar c) (c_payload c) sr rrs rnd0
         | None => match c_kts c with
                   | [] => pack (c_cfg c) (c_spar c) (c_payload c) (c_sender c) (c_rcpts c) rnd0
                   | kts => pack_mixed (ktf_of (kt_of (c_cfg c)) kts) (c_cfg c) (c_spar c) (c_payload c) (c_sender c)
                                       (c_rcpts c) rnd0
                   end
         end) with
  | Ok w =>
      c_packed c &&
      forallb (fun po => uobs_eqb (snd po)
                 (proj (if c_viapk c then unpack_pkgr Fixed (fst po) w
                        else unpack Fixed (packer_of (c_cfg c)) (fst po) w))) (c_unp c)
  | _ => negb (c_packed c)
  end.

Fixpoint mismatches_from (i : nat) (cs : list case) : list nat :=
  match cs with
  | [] => []
  | c :: r => if check_case c then mismatches_from (S i) r else i :: mismatches_from (S i) r
  end.
Definition mismatches := mismatches_from 0.
