(* C01 — correspondence: the harness packs with the real packers and unpacks with every party; the model is run
   on the same configuration / key ownership and must predict the pack outcome and every party's result. *)
From Coq Require Import List NArith Bool.
Import ListNotations.
From VF Require Export C01.Model C01.KeyRef.
Local Open Scope N_scope.

(* observed unpack result: payload id (the packed payload's id when byte-equal, 999999 otherwise),
   FromKey key name (0 = none), ToKey key name; URej = error or panic *)
Inductive uobs := UOk (m from to : N) | URej.
Definition uobs_eqb (a b : uobs) : bool :=
  match a, b with
  | UOk m f t, UOk m' f' t' => (m =? m') && (f =? f') && (t =? t')
  | URej, URej => true
  | _, _ => false
  end.

Definition proj (r : res (term * option N * N)) : uobs :=
  match r with
  | Ok (Bytes m, from, to) => UOk m (match from with Some s => s | None => 0 end) to
  | Ok _ => UOk 999998 0 0
  | _ => URej
  end.

(* c_refs (packager with DID-document key references): the DID documents involved, the sender's reference (unused
   for anoncrypt) and the recipients' references as strings; the model then runs packager.PackMessage (pack_msg:
   resolution against the documents, sender id build + split) instead of being handed the resolved keys *)
(* ---------- primitive contracts ----------
   The theorems use the term algebra's equations: a key wrap opens exactly under the KEK derived from the same alg,
   DH secrets (ephemeral, sender, recipient keys), apu, apv and (1PU) tag; the content AEAD opens exactly under the
   same content key, aad and iv and returns the plaintext.  A primitive case runs the REAL primitive (tinkcrypto
   WrapKey/UnwrapKey, the composite ECDH AEAD) once unperturbed and once with a single context field perturbed, and
   the model evaluates the same experiment on terms. *)
Inductive pfield := PNone | PAlg | PApu | PApv | PTag | PEpk | PSender | PRecipient | PEk
                  | PAad | PIv | PCt | PCTag | PCek.
Record prim := { pr_1pu : bool; pr_field : pfield; pr_ok : bool }.

Definition pfield_eqb (a b : pfield) : bool :=
  match a, b with
  | PNone, PNone | PAlg, PAlg | PApu, PApu | PApv, PApv | PTag, PTag | PEpk, PEpk | PSender, PSender
  | PRecipient, PRecipient | PEk, PEk | PAad, PAad | PIv, PIv | PCt, PCt | PCTag, PCTag | PCek, PCek => true
  | _, _ => false
  end.

Definition prim_expect (p : prim) : bool :=
  let f := pr_field p in
  let is x := pfield_eqb f x in
  let cek := Kdf [Bytes 908; Bytes 1] in
  match f with
  | PAad | PIv | PCt | PCTag | PCek =>
      let ct := c_enc cek (Bytes 2) (Bytes 3) (Bytes 4) in
      match c_dec (if is PCek then Kdf [Bytes 908; Bytes 9] else cek) (if is PAad then Bytes 12 else Bytes 2)
                  (if is PIv then Bytes 13 else Bytes 3) (if is PCt then Junk 1 else ct)
                  (if is PCTag then Junk 2 else c_tag ct) with
      | Some m => term_eqb m (Bytes 4)
      | None => false
      end
  | _ =>
      let e := 10 in let r := 20 in let s := 30 in
      let w := if pr_1pu p then Wrap (kek_1pu PU_A256KW (dh e r) (dh s r) (Bytes 1) (Bytes 2) (Bytes 3)) cek
               else Wrap (kek_es ES_A256KW (dh e r) (Bytes 1) (Bytes 2)) cek in
      let e' := if is PEpk then 11 else e in
      let r' := if is PRecipient then 21 else r in
      let s' := if is PSender then 31 else s in
      let apu := if is PApu then Bytes 11 else Bytes 1 in
      let apv := if is PApv then Bytes 12 else Bytes 2 in
      let tag := if is PTag then Bytes 13 else Bytes 3 in
      let k := if pr_1pu p then kek_1pu (if is PAlg then PU_A128KW else PU_A256KW) (dh r' e') (dh r' s') apu apv tag
               else kek_es (if is PAlg then ES_XC20PKW else ES_A256KW) (dh r' e') apu apv in
      match unwrap k (if is PEk then Junk 3 else w) with
      | Some c => term_eqb c cek
      | None => false
      end
  end.

(* ---------- structural tie: the packers' Crypto.WrapKey calls ----------
   A recording Crypto service logs every WrapKey call of a pack.  Abstraction of one call: is the resulting alg
   ECDH-1PU; was apu the sender key id (skid); was apv SHA-256 of the sorted recipient kids; was a tag passed and
   equal to the envelope's tag; was a sender key handle passed; is the ephemeral key the one of the first call.
   The same abstraction is read off the key-wrap SUB-TERMS of the model's envelope. *)
Record wobs := { wo_1pu : bool; wo_apu_skid : bool; wo_apv_kids : bool; wo_tag_jwe : bool; wo_sender : bool;
                 wo_epk_first : bool }.
Definition wobs_eqb (a b : wobs) : bool :=
  Bool.eqb (wo_1pu a) (wo_1pu b) && Bool.eqb (wo_apu_skid a) (wo_apu_skid b) && Bool.eqb (wo_apv_kids a) (wo_apv_kids b)
  && Bool.eqb (wo_tag_jwe a) (wo_tag_jwe b) && Bool.eqb (wo_sender a) (wo_sender b) && Bool.eqb (wo_epk_first a) (wo_epk_first b).

Definition rec_kid (prot : phdr) (rc : rcp) : option kref :=
  match r_hdr rc with Some h => rh_kid h | None => p_kid prot end.
Definition rec_epk (prot : phdr) (rc : rcp) : option term :=
  match r_hdr rc with Some h => match rh_epk h with Some e => Some e | None => p_epk prot end | None => p_epk prot end.

Definition wobs_of_ek (j : jwe) (prot : phdr) (first_epk : option term) (rc : rcp) : wobs :=
  let kids := map (fun x => match rec_kid prot x with Some k => k | None => KBad 0 end) (j_recs j) in
  let epk1 := match first_epk, rec_epk prot rc with Some a, Some b => term_eqb a b | _, _ => false end in
  match r_ek rc with
  | Wrap (Kdf [Bytes 903; _; _; _; apu; apv; tag]) _ =>
      Build_wobs true (match p_skid prot with Some s => term_eqb apu (t_kref s) | None => false end)
                 (term_eqb apv (apv_1pu kids)) (term_eqb tag (j_tag j)) true epk1
  | Wrap (Kdf [Bytes 902; _; _; apu; apv]) _ =>
      Build_wobs false (match p_skid prot with Some s => term_eqb apu (t_kref s) | None => false end)
                 (term_eqb apv (apv_1pu kids)) false false epk1
  | _ => Build_wobs false false false false false false
  end.
Definition wraps_of (w : wire) : list wobs :=
  match w with
  | WJwe j => match j_prot j with
              | Some prot => map (wobs_of_ek j prot (match j_recs j with rc :: _ => rec_epk prot rc | [] => None end)) (j_recs j)
              | None => []
              end
  | _ => []
  end.
Fixpoint wobs_list_eqb (a b : list wobs) : bool :=
  match a, b with
  | [], [] => true
  | x :: a', y :: b' => wobs_eqb x y && wobs_list_eqb a' b'
  | _, _ => false
  end.

(* ---------- structural tie, DATAFLOW: every recorded Crypto.WrapKey call ----------
   The recorder names the concrete values of each call: the recipient public key handed in (key name), the key behind
   the sender-handle option, the ephemeral key of the result (index of its first appearance: the model's ephemeral key
   names are rn_eph + index), the content key handed in (index likewise), what apu / apv of the result ARE (empty, the
   sender key reference, base64url of the ephemeral key, SHA-256 of the sorted recipient references, anything else),
   whether a tag was passed and is the envelope's tag, and the resulting alg.  The model re-assembles each call with
   the term algebra's wrap equation (wrap_of_call) and the result must be, recipient by recipient, EXACTLY the
   encrypted-key sub-term of the model's envelope: alg, both DH secrets, apu, apv, tag and content key at once. *)
Inductive named := NEmpty | NSkid (k : kref) | NEpk | NKids (ks : list kref) | NOther.
Record wcall := mkwcall { wc_alg : kwalg; wc_rcpt : N; wc_sender : option N; wc_epk : N; wc_cek : N;
                          wc_apu : named; wc_apv : named; wc_tag : option bool }.
Definition named_term (e : N) (n : named) : term :=
  match n with
  | NEmpty => Tup [] | NSkid k => t_kref k | NEpk => apu_es (Pub e) | NKids ks => apv_1pu ks | NOther => Junk 7
  end.
Definition wrap_of_call (rn : rnd) (j : jwe) (c : wcall) : term :=
  let e := rn_eph rn + wc_epk c in
  let cek := Kdf [Bytes 908; Bytes (rn_cek rn + wc_cek c)] in
  let apu := named_term e (wc_apu c) in
  let apv := named_term e (wc_apv c) in
  let tag := match wc_tag c with Some true => j_tag j | Some false => Junk 8 | None => Tup [] end in
  if is_1pu (wc_alg c) then
    match wc_sender c with
    | Some s => Wrap (kek_1pu (wc_alg c) (dh e (wc_rcpt c)) (dh s (wc_rcpt c)) apu apv tag) cek
    | None => Junk 9
    end
  else match wc_sender c, wc_tag c with
       | None, None => Wrap (kek_es (wc_alg c) (dh e (wc_rcpt c)) apu apv) cek
       | _, _ => Junk 10      (* an ECDH-ES wrap is never given a sender key or a tag *)
       end.
Fixpoint terms_eqb (a b : list term) : bool :=
  match a, b with
  | [], [] => true
  | x :: a', y :: b' => term_eqb x y && terms_eqb a' b'
  | _, _ => false
  end.
Definition calls_match (rn : rnd) (w : wire) (cs : list wcall) : bool :=
  match w with
  | WJwe j => terms_eqb (map (wrap_of_call rn j) cs) (map r_ek (j_recs j))
  | _ => match cs with [] => true | _ => false end
  end.

(* what the model says the calls of a JWE pack ARE (one per recipient, in order) *)
Fixpoint es_calls (i : N) (a : kwalg) (rcpts : list N) : list wcall :=
  match rcpts with
  | [] => []
  | r :: rest => mkwcall a r None i 0 NEpk NEmpty None :: es_calls (i + 1) a rest
  end.
Definition calls_of (c : cfg) (sender : N) (rcpts : list N) : list wcall :=
  match packer_of c with
  | JweAnon => es_calls 0 (es_alg (kt_of c)) rcpts
  | JweAuth => match pu_alg (kt_of c) (enc_of c) with
               | Some a => map (fun r => mkwcall a r (Some sender) 0 0 (NSkid (kref_for (style_of c) sender))
                                                 (NKids (map (kref_for (style_of c)) rcpts)) (Some true)) rcpts
               | None => []
               end
  | _ => []
  end.

Record case := { c_cfg : cfg; c_viapk : bool; c_spar : list N; c_payload : N; c_sender : N; c_rcpts : list N;
                 c_refs : option (directory * ref * list ref);
                 (* transport form handed to packager.UnpackMessage (0: the envelope, 1: "<base64url>", 2: padded) and
                    whether the scenario ran through long-lived instances that had seen EARLIER versions of the DID
                    documents: the model's unpack is a function of the envelope and the CURRENT directory only, so
                    both are recorded but do not enter the prediction — the implementation must agree in every
                    form and after every history *)
                 c_form : N; c_history : bool;
                 (* key types of the keys involved when they are not all of the configuration's type (else []) *)
                 c_kts : list (N * ktype);
                 (* a primitive-contract case (all other fields unused) *)
                 c_prim : option prim;
                 (* the recorded WrapKey calls of the pack (JWE packers; None: not recorded) *)
                 c_wraps : option (list wobs);
                 (* the same calls with their dataflow named (None: not recorded) *)
                 c_calls : option (list wcall);
                 (* per unpacking party (same order as c_unp): the recorded UnwrapKey calls of its Unpack (None: not recorded) *)
                 c_att : list (option (list attempt));
                 c_packed : bool; c_unp : list (list N * uobs) }.

(* randomness names outside the harness's key names (ephemeral keys are key names too) *)
Definition rnd0 := mkrnd 100000 100001 100002.

(* the kid resolver of KeyRef.v, run on the reference strings against the documents, names the keys the abstract
   model is given (the unpack results compared below depend on exactly that) *)
Fixpoint refs_resolve (d : directory) (rrs : list ref) (ks : list N) : bool :=
  match rrs, ks with
  | [], [] => true
  | r :: rr, k :: kk => match dr_resolve Fixed d r with RKey k' => (k' =? k) && refs_resolve d rr kk | _ => false end
  | _, _ => false
  end.

Fixpoint ktf_of (dflt : ktype) (l : list (N * ktype)) (k : N) : ktype :=
  match l with [] => dflt | (k', t) :: r => if k =? k' then t else ktf_of dflt r k end.

Definition check_case (c : case) : bool :=
  match c_prim c with Some p => Bool.eqb (pr_ok p) (prim_expect p) | None =>
  match c_refs c with Some (d, _, rrs) => refs_resolve d rrs (c_rcpts c) | None => true end &&
  match (match c_refs c with
         | Some (d, sr, rrs) => pack_msg d (c_cfg c) (c_spar c) (c_payload c) sr rrs rnd0
         | None => match c_kts c with
                   | [] => pack (c_cfg c) (c_spar c) (c_payload c) (c_sender c) (c_rcpts c) rnd0
                   | kts => pack_mixed (ktf_of (kt_of (c_cfg c)) kts) (c_cfg c) (c_spar c) (c_payload c) (c_sender c)
                                       (c_rcpts c) rnd0
                   end
         end) with
  | Ok w =>
      c_packed c &&
      match c_wraps c with Some l => wobs_list_eqb l (wraps_of w) | None => true end &&
      match c_calls c with Some l => calls_match rnd0 w l | None => true end &&
      forallb (fun pa => match snd pa with Some l => attempts_eqb l (attempts Fixed (fst (fst pa)) w) | None => true end)
              (combine (c_unp c) (c_att c)) &&
      forallb (fun po => uobs_eqb (snd po)
                 (proj (if c_viapk c then unpack_pkgr Fixed (fst po) w
                        else unpack Fixed (packer_of (c_cfg c)) (fst po) w))) (c_unp c)
  | _ => negb (c_packed c)
  end end.

Fixpoint mismatches_from (i : nat) (cs : list case) : list nat :=
  match cs with
  | [] => []
  | c :: r => if check_case c then mismatches_from (S i) r else i :: mismatches_from (S i) r
  end.
Definition mismatches := mismatches_from 0.
