(* C01 — the dataflow tie is complete: for EVERY successful JWE pack of the model, the calls the model predicts
   (calls_of: one Crypto.WrapKey call per recipient, in order) re-assembled with the algebra's wrap equation
   (wrap_of_call — the very function the correspondence applies to the RECORDED calls of the real packers) are exactly
   the encrypted-key sub-terms of the envelope. *)
From Coq Require Import List NArith Bool Lia.
Import ListNotations.
From VF Require Import C01.Model C01.Corr.
Local Open Scope N_scope.

Lemma terms_eqb_refl l : terms_eqb l l = true.
Proof. induction l as [|x l IH]; [reflexivity|]. cbn. rewrite term_eqb_refl, IH. reflexivity. Qed.

Lemma pu_alg_1pu kt e a : pu_alg kt e = Some a -> is_1pu a = true.
Proof. destruct kt, e; cbn; intros H; inversion H; reflexivity. Qed.
Lemma es_alg_not_1pu kt : is_1pu (es_alg kt) = false.
Proof. destruct kt; reflexivity. Qed.

Lemma es_calls_recs a st rn j : is_1pu a = false -> forall rcpts i,
  map (wrap_of_call rn j) (es_calls i a rcpts) = map r_ek (es_recs_from i a st rn rcpts).
Proof.
  intros Ha. induction rcpts as [|r rest IH]; intros i; [reflexivity|].
  cbn [es_calls es_recs_from map]. rewrite IH. f_equal.
  unfold wrap_of_call. cbn [wc_alg wc_sender wc_tag wc_epk wc_cek wc_apu wc_apv wc_rcpt named_term r_ek]. rewrite Ha.
  unfold cek_of. rewrite N.add_0_r. reflexivity.
Qed.

Lemma dataflow_tie_lemma : forall c spar payload sender rcpts rn w,
  pack c spar payload sender rcpts rn = Ok w ->
  calls_match rn w (calls_of c sender rcpts) = true.
Proof.
  intros c spar payload sender rcpts rn w Hp. unfold pack in Hp.
  destruct (rejects c spar payload sender rcpts); [discriminate|].
  unfold calls_of. destruct (packer_of c) eqn:P.
  - destruct (pu_alg (kt_of c) (enc_of c)) as [a|] eqn:A; [|discriminate]. inversion Hp; subst w. clear Hp.
    pose proof (pu_alg_1pu _ _ _ A) as Ha. unfold calls_match, pack_jwe_auth. cbn [j_recs j_tag].
    rewrite !map_map.
    match goal with |- terms_eqb ?x ?y = true => replace x with y; [apply terms_eqb_refl|] end.
    apply map_ext. intros r. unfold wrap_of_call.
    cbn [wc_alg wc_sender wc_tag wc_epk wc_cek wc_apu wc_apv wc_rcpt named_term r_ek j_tag]. rewrite Ha.
    unfold cek_of. rewrite !N.add_0_r. reflexivity.
  - inversion Hp; subst w. clear Hp. unfold calls_match, pack_jwe_anon.
    pose proof (es_alg_not_1pu (kt_of c)) as Ha.
    destruct rcpts as [|r [|r2 rest]].
    + reflexivity.
    + cbn [j_recs es_calls map r_ek]. unfold wrap_of_call.
      cbn [wc_alg wc_sender wc_tag wc_epk wc_cek wc_apu wc_apv wc_rcpt named_term]. rewrite Ha.
      unfold cek_of. rewrite !N.add_0_r. cbn [terms_eqb]. rewrite term_eqb_refl. reflexivity.
    + cbn [j_recs]. rewrite (es_calls_recs _ (style_of c) rn _ Ha). apply terms_eqb_refl.
  - inversion Hp; reflexivity.
  - inversion Hp; reflexivity.
Qed.
