(* C01 — lemmas: round trip and only-recipients for the four packers, for recipient lists of any length. *)
From Coq Require Import List NArith Bool Lia.
Import ListNotations.
From VF Require Import C01.Model.
Local Open Scope N_scope.

Lemma mem_In k l : mem k l = true <-> In k l.
Proof.
  unfold mem. rewrite existsb_exists. split.
  - intros [x [Hi He]]. apply N.eqb_eq in He. subst; assumption.
  - intros Hi. exists k. split; [assumption|apply N.eqb_refl].
Qed.
Lemma mem_false k l : mem k l = false <-> ~ In k l.
Proof.
  rewrite <- mem_In. destruct (mem k l); split; intros H.
  - discriminate. - exfalso; apply H; reflexivity. - intro; discriminate. - reflexivity.
Qed.

Fixpoint first_owned (party rcpts : list N) : option N :=
  match rcpts with [] => None | r :: rest => if mem r party then Some r else first_owned party rest end.

Lemma first_owned_some party rcpts :
  (exists k, In k rcpts /\ In k party) ->
  exists k, first_owned party rcpts = Some k /\ In k rcpts /\ In k party.
Proof.
  induction rcpts as [|r rs IH]; intros [k [Hi Hp]]; [destruct Hi|].
  cbn [first_owned]. destruct (mem r party) eqn:Hm.
  - exists r. split; [reflexivity|]. split; [left; reflexivity|apply mem_In; assumption].
  - destruct Hi as [->|Hi]; [apply mem_false in Hm; contradiction|].
    destruct IH as [k' [H1 [H2 H3]]]; [exists k; auto|]. exists k'. split; [assumption|]. split; [right|]; assumption.
Qed.
Lemma first_owned_none party rcpts :
  (forall k, In k rcpts -> ~ In k party) -> first_owned party rcpts = None.
Proof.
  induction rcpts as [|r rs IH]; intros H; [reflexivity|]. cbn [first_owned].
  assert (mem r party = false) as -> by (apply mem_false, H; left; reflexivity).
  apply IH. intros k Hk. apply H. right; assumption.
Qed.

Lemma resolve_kref_for st k : resolve Fixed (kref_for st k) = RKey k.
Proof. destruct st; reflexivity. Qed.

Lemma Forall2_map_r {A B} (P : A -> B -> Prop) (f : A -> B) l :
  (forall x, In x l -> P x (f x)) -> Forall2 P l (map f l).
Proof.
  induction l as [|a l IH]; intros H; cbn [map]; constructor.
  - apply H; left; reflexivity.
  - apply IH. intros x Hx. apply H; right; assumption.
Qed.

(* ---------- generic lemmas about the three loops of the JWE unpack ---------- *)
Definition good_rc (single : bool) (prot : phdr) (r : N) (rc : rcp) : Prop :=
  exists kr, sel_kid single prot rc = Ok kr /\ resolve Fixed kr = RKey r.

Lemma find_owned_gen party single prot : forall rcpts recs,
  Forall2 (good_rc single prot) rcpts recs ->
  match first_owned party rcpts with
  | Some k => exists kr, find_owned Fixed party single prot recs = Ok (k, kr)
  | None => find_owned Fixed party single prot recs = Err ENotFound
  end.
Proof.
  intros rcpts recs HF. induction HF as [|r rc rs rcs [kr [Hs Hr]] HF IH]; [reflexivity|].
  cbn [first_owned find_owned]. rewrite Hs, Hr. destruct (mem r party); [exists kr; reflexivity|exact IH].
Qed.

Lemma build_all_gen single prot : forall recs ws,
  Forall2 (fun rc w => build_recwk single prot rc = Ok w) recs ws -> build_all single prot recs = Ok ws.
Proof.
  intros recs ws HF. induction HF as [|rc w rcs ws' H HF IH]; [reflexivity|].
  cbn [build_all]. rewrite H. cbn [bind]. rewrite IH. reflexivity.
Qed.

Definition good_wk (sender : option N) (tag cek : term) (r : N) (w : recwk) : Prop :=
  (exists kr, wk_kid w = Some kr /\ resolve Fixed kr = RKey r /\ unwrap_one r sender tag w = Some cek) /\
  (sender = None \/ alg_1pu w = true).

Lemma unwrap_cek_gen party sender tag cek : forall rcpts ws,
  Forall2 (good_wk sender tag cek) rcpts ws ->
  match first_owned party rcpts with
  | Some _ => unwrap_cek Fixed party sender tag ws = Ok cek
  | None => unwrap_cek Fixed party sender tag ws = Err ERejected
  end.
Proof.
  intros rcpts ws HF. induction HF as [|r w rs ws' [[kr [Hk [Hr Hu]]] _] HF IH]; [reflexivity|].
  cbn [first_owned unwrap_cek]. rewrite Hk, Hr. destruct (mem r party); [rewrite Hu; reflexivity|exact IH].
Qed.

Lemma c_dec_enc cek aad iv m : c_dec cek aad iv (c_enc cek aad iv m) (c_tag (c_enc cek aad iv m)) = Some m.
Proof. unfold c_dec, c_enc. rewrite term_eqb_refl. cbn [adec]. rewrite !term_eqb_refl. reflexivity. Qed.

Lemma unwrap_wrap k c : unwrap k (Wrap k c) = Some c.
Proof. cbn [unwrap]. rewrite term_eqb_refl. reflexivity. Qed.

Lemma bad_b64_kref x : bad_b64 (Some (t_kref x)) = false.
Proof. destruct x; reflexivity. Qed.

Lemma pu_alg_1pu kt e a : pu_alg kt e = Some a -> is_1pu a = true.
Proof. destruct kt, e; cbn; intros H; inversion H; reflexivity. Qed.
Lemma es_alg_es kt : is_es (es_alg kt) = true /\ is_1pu (es_alg kt) = false.
Proof. destruct kt; split; reflexivity. Qed.

Lemma single_rec_map {A} (f : A -> rcp) l : single_rec (map f l) = match l with [_] => true | _ => false end.
Proof. destruct l as [|a [|b l]]; reflexivity. Qed.

Lemma Forall2_weaken {A B} (P Q : A -> B -> Prop) la lb :
  (forall a b, P a b -> Q a b) -> Forall2 P la lb -> Forall2 Q la lb.
Proof. intros H HF. induction HF; constructor; auto. Qed.

Definition good_entry (single : bool) (prot : phdr) (sender : option N) (tag cek : term) (r : N) (rc : rcp) : Prop :=
  good_rc single prot r rc /\ exists w, build_recwk single prot rc = Ok w /\ good_wk sender tag cek r w.

Lemma build_good single prot sender tag cek : forall rcpts recs,
  Forall2 (good_entry single prot sender tag cek) rcpts recs ->
  exists ws, build_all single prot recs = Ok ws /\ Forall2 (good_wk sender tag cek) rcpts ws.
Proof.
  intros rcpts recs HF. induction HF as [|r rc rs rcs [_ [w [Hb Hg]]] HF [ws [IH1 IH2]]].
  - exists []. split; [reflexivity|constructor].
  - exists (w :: ws). split; [|constructor; assumption].
    cbn [build_all]. rewrite Hb. cbn [bind]. rewrite IH1. reflexivity.
Qed.

Lemma needs_1pu_false sender tag cek : forall rcpts ws,
  Forall2 (good_wk sender tag cek) rcpts ws -> sender_needs_1pu Fixed sender ws = false.
Proof.
  intros rcpts ws HF. unfold sender_needs_1pu. destruct sender as [s|]; [|reflexivity].
  apply negb_false_iff. induction HF as [|r w rs ws' [_ [H|H]] HF IH]; [reflexivity|discriminate|].
  cbn [forallb]. rewrite H, IH. reflexivity.
Qed.

Lemma jwe_unpack_gen auth party j prot sender cek m rcpts :
  j_prot j = Some prot ->
  p_enc prot <> None ->
  (jwe_skid prot (j_recs j) = None /\ sender = None \/
   exists s k, jwe_skid prot (j_recs j) = Some s /\ resolve Fixed s = RKey k /\ sender = Some k) ->
  Forall2 (good_entry (single_rec (j_recs j)) prot sender (j_tag j) cek) rcpts (j_recs j) ->
  c_dec cek (c_aad (t_phdr prot) (j_aad j)) (j_iv j) (j_ct j) (j_tag j) = Some m ->
  match first_owned party rcpts with
  | Some k => unpack_jwe Fixed auth party j = Ok (m, from_of Fixed auth prot, k)
  | None => unpack_jwe Fixed auth party j = Err ENotFound
  end.
Proof.
  intros Hp He Hs HF Hd.
  assert (HF1 : Forall2 (good_rc (single_rec (j_recs j)) prot) rcpts (j_recs j)).
  { eapply Forall2_weaken; [|exact HF]. intros r rc [H _]; exact H. }
  pose proof (find_owned_gen party _ _ _ _ HF1) as Hfo.
  destruct (build_good _ _ _ _ _ _ _ HF) as [ws [Hb Hg]].
  pose proof (unwrap_cek_gen party _ _ _ _ _ Hg) as Hu.
  unfold unpack_jwe. rewrite Hp.
  destruct (first_owned party rcpts) as [k|].
  - destruct Hfo as [kr Hfo]. rewrite Hfo. cbn [bind].
    unfold decrypt_jwe. destruct (p_enc prot); [|congruence].
    destruct Hs as [[Hs ->]|[s [ks [Hs [Hr ->]]]]]; rewrite Hs; [|rewrite Hr]; cbn [bind];
      rewrite Hb; cbn [bind]; rewrite (needs_1pu_false _ _ _ _ _ Hg); rewrite Hu; cbn [bind]; rewrite Hd; reflexivity.
  - rewrite Hfo. reflexivity.
Qed.

(* ---------- JWE authcrypt ---------- *)
Lemma jwe_auth_roundtrip c a payload sender rcpts rn party :
  is_1pu a = true ->
  let j := pack_jwe_auth c a payload sender rcpts rn in
  match first_owned party rcpts with
  | Some k => unpack_jwe Fixed true party j = Ok (Bytes payload, Some sender, k)
  | None => unpack_jwe Fixed true party j = Err ENotFound
  end.
Proof.
  intros Ha j.
  set (st := style_of c).
  set (prot := mkphdr (Some (enc_of c)) (Some (kref_for st sender)) (Some a)
           (match rcpts with [r] => Some (kref_for st r) | _ => None end)
           (Some (Pub (rn_eph rn))) (Some (t_kref (kref_for st sender))) (Some (apv_1pu (map (kref_for st) rcpts))) 0).
  assert (Hfrom : from_of Fixed true prot = Some sender).
  { unfold from_of, prot. cbn [p_skid]. rewrite resolve_kref_for. reflexivity. }
  rewrite <- Hfrom.
  apply (jwe_unpack_gen true party j prot (Some sender) (cek_of rn) (Bytes payload) rcpts).
  - reflexivity.
  - discriminate.
  - right. exists (kref_for st sender), sender. split; [reflexivity|]. split; [apply resolve_kref_for|reflexivity].
  - unfold j, pack_jwe_auth. cbn [j_recs j_tag]. rewrite single_rec_map.
    apply Forall2_map_r. intros r Hr. fold st. fold prot.
    assert (Hsingle : (match rcpts with [_] => true | _ => false end) = true -> rcpts = [r]).
    { destruct rcpts as [|r0 [|r1 rs]]; try discriminate. destruct Hr as [->|[]]. reflexivity. }
    split.
    + exists (kref_for st r). split; [|apply resolve_kref_for].
      unfold sel_kid. destruct (match rcpts with [_] => true | _ => false end) eqn:Hsg.
      * unfold prot. cbn [p_kid]. rewrite (Hsingle eq_refl). reflexivity.
      * reflexivity.
    + unfold build_recwk. cbn [p_alg prot]. rewrite Ha. rewrite orb_true_r.
      cbn [p_epk is_pub negb andb p_apu p_apv orb prot].
      rewrite bad_b64_kref. cbn [bad_b64 apv_1pu orb].
      destruct (match rcpts with [_] => true | _ => false end) eqn:Hsg; cbn [negb andb r_hdr r_ek];
        eexists; (split; [reflexivity|]);
        (split; [|right; unfold alg_1pu; cbn [wk_alg p_alg]; exact Ha]); exists (kref_for st r); cbn [wk_kid rh_kid p_kid].
      * unfold prot at 1. cbn [p_kid]. rewrite (Hsingle eq_refl) at 1. split; [reflexivity|]. split; [apply resolve_kref_for|].
        unfold unwrap_one. cbn [wk_alg wk_epk wk_apu wk_apv wk_ek p_alg p_apu p_apv odflt]. rewrite Ha.
        rewrite (dh_comm r (rn_eph rn)), (dh_comm r sender). apply unwrap_wrap.
      * split; [reflexivity|]. split; [apply resolve_kref_for|].
        unfold unwrap_one. cbn [wk_alg wk_epk wk_apu wk_apv wk_ek p_alg p_apu p_apv odflt]. rewrite Ha.
        rewrite (dh_comm r (rn_eph rn)), (dh_comm r sender). apply unwrap_wrap.
  - unfold j, pack_jwe_auth. cbn [j_aad j_iv j_ct j_tag]. fold st. fold prot. apply c_dec_enc.
Qed.

(* ---------- JWE anoncrypt ---------- *)
Lemma es_single_rec i a st rn l : single_rec (es_recs_from i a st rn l) = match l with [_] => true | _ => false end.
Proof. destruct l as [|x [|y l]]; reflexivity. Qed.

Lemma es_good_entries a st rn prot tag : 
  is_es a = true -> is_1pu a = false -> p_alg prot = None ->
  forall rcpts i,
  Forall2 (good_entry false prot None tag (cek_of rn)) rcpts (es_recs_from i a st rn rcpts).
Proof.
  intros Hes Hpu Hpa. induction rcpts as [|r rs IH]; intros i; cbn [es_recs_from]; constructor; [|apply IH].
  split.
  - exists (kref_for st r). split; [reflexivity|apply resolve_kref_for].
  - unfold build_recwk. rewrite Hpa. cbn [orb r_hdr rh_epk is_pub negb r_ek rh_kid rh_alg rh_apu rh_apv].
    eexists. split; [reflexivity|]. split; [|left; reflexivity]. exists (kref_for st r). cbn [wk_kid]. split; [reflexivity|].
    split; [apply resolve_kref_for|].
    unfold unwrap_one. cbn [wk_alg wk_epk wk_apu wk_apv wk_ek odflt]. rewrite Hpu, Hes.
    rewrite (dh_comm r (rn_eph rn + i)). apply unwrap_wrap.
Qed.

Lemma jwe_anon_roundtrip c payload rcpts rn party :
  let j := pack_jwe_anon c payload rcpts rn in
  match first_owned party rcpts with
  | Some k => unpack_jwe Fixed false party j = Ok (Bytes payload, None, k)
  | None => unpack_jwe Fixed false party j = Err ENotFound
  end.
Proof.
  intros j. set (a := es_alg (kt_of c)). destruct (es_alg_es (kt_of c)) as [Hes Hpu]. fold a in Hes, Hpu.
  assert (Hcase : (exists r, rcpts = [r]) \/ (match rcpts with [_] => true | _ => false end) = false).
  { destruct rcpts as [|r0 [|r1 rs]]; [right; reflexivity|left; exists r0; reflexivity|right; reflexivity]. }
  destruct Hcase as [[r ->]|Hm].
  - (* compact form: recipient headers merged into the protected header *)
    set (e := rn_eph rn).
    set (prot := mkphdr (Some (enc_of c)) None (Some a) (Some (kref_for (style_of c) r)) (Some (Pub e))
                         (Some (apu_es (Pub e))) None 0).
    change (from_of Fixed false prot) with (@None N).
    apply (jwe_unpack_gen false party j prot None (cek_of rn) (Bytes payload) [r]).
    + reflexivity.
    + discriminate.
    + left. split; reflexivity.
    + unfold j, pack_jwe_anon. cbn [j_recs j_tag single_rec]. constructor; [|constructor].
      fold a. fold e. fold prot. split.
      * exists (kref_for (style_of c) r). split; [reflexivity|apply resolve_kref_for].
      * unfold build_recwk. cbn [orb p_epk prot is_pub negb p_alg p_apu p_apv bad_b64 apu_es]. rewrite Hpu. cbn [andb r_ek].
        eexists. split; [reflexivity|]. split; [|left; reflexivity]. exists (kref_for (style_of c) r). cbn [wk_kid p_kid]. split; [reflexivity|].
        split; [apply resolve_kref_for|].
        unfold unwrap_one. cbn [wk_alg wk_epk wk_apu wk_apv wk_ek odflt p_apu p_apv]. rewrite Hpu, Hes.
        rewrite (dh_comm r e). apply unwrap_wrap.
    + unfold j, pack_jwe_anon. cbn [j_aad j_iv j_ct j_tag]. fold a. fold e. fold prot. apply c_dec_enc.
  - set (prot := mkphdr (Some (enc_of c)) None None None None None None 0).
    assert (Hj : j = mkjwe (Some prot) (es_recs_from 0 a (style_of c) rn rcpts) (Tup []) (iv_of rn)
                   (c_enc (cek_of rn) (c_aad (t_phdr prot) (Tup [])) (iv_of rn) (Bytes payload))
                   (c_tag (c_enc (cek_of rn) (c_aad (t_phdr prot) (Tup [])) (iv_of rn) (Bytes payload)))).
    { unfold j, pack_jwe_anon. destruct rcpts as [|r0 [|r1 rs]]; try reflexivity. discriminate. }
    rewrite Hj.
    change (@None N) with (from_of Fixed false prot).
    apply (jwe_unpack_gen false party _ prot None (cek_of rn) (Bytes payload) rcpts).
    + reflexivity.
    + discriminate.
    + left. split; [|reflexivity]. unfold jwe_skid. cbn [p_skid prot j_recs p_apu].
      rewrite es_single_rec, Hm. destruct (es_recs_from 0 a (style_of c) rn rcpts); reflexivity.
    + cbn [j_recs j_tag]. rewrite es_single_rec, Hm. apply es_good_entries; [assumption|assumption|reflexivity].
    + cbn [j_aad j_iv j_ct j_tag]. apply c_dec_enc.
Qed.

(* ---------- legacy ---------- *)
Lemma seal_open_seal e r m : seal_open r (seal e r m) = Some m.
Proof. unfold seal_open, seal, seal_key. rewrite (dh_comm r e). cbn [adec]. rewrite !term_eqb_refl. reflexivity. Qed.

Lemma dh_comm_box a b n : box_key a b n = box_key b a n.
Proof. unfold box_key. rewrite (dh_comm a b). reflexivity. Qed.

Lemma leg_auth_find party sender rn : forall rcpts i,
  match first_owned party rcpts with
  | Some k => exists e nonce, find_ver party (leg_auth_recs i sender rn rcpts)
                = Some (mklrcp k (seal e k (Pub sender)) nonce (Wrap (box_key sender k nonce) (cek_of rn)))
  | None => find_ver party (leg_auth_recs i sender rn rcpts) = None
  end.
Proof.
  induction rcpts as [|r rs IH]; intros i; [reflexivity|].
  cbn [first_owned leg_auth_recs find_ver l_kid]. destruct (mem r party); [|apply IH].
  eexists _, _. reflexivity.
Qed.
Lemma leg_anon_find party rn : forall rcpts i,
  match first_owned party rcpts with
  | Some k => exists e, find_ver party (leg_anon_recs i rn rcpts) = Some (mklrcp k (Tup []) (Tup []) (seal e k (cek_of rn)))
  | None => find_ver party (leg_anon_recs i rn rcpts) = None
  end.
Proof.
  induction rcpts as [|r rs IH]; intros i; [reflexivity|].
  cbn [first_owned leg_anon_recs find_ver l_kid]. destruct (mem r party); [|apply IH].
  eexists. reflexivity.
Qed.

Lemma leg_roundtrip auth payload sender rcpts rn party :
  let l := pack_leg auth payload sender rcpts rn in
  match first_owned party rcpts with
  | Some k => unpack_leg auth party l = Ok (Bytes payload, if auth then Some sender else None, k)
  | None => unpack_leg auth party l = Err ENotFound
  end.
Proof.
  intros l. unfold l, pack_leg, unpack_leg. cbn [le_prot lp_typ_ok negb lp_alg lp_recs le_iv le_ct le_tag].
  destruct auth.
  - pose proof (leg_auth_find party sender rn rcpts 0) as H.
    destruct (first_owned party rcpts) as [k|].
    + destruct H as [e [nonce ->]]. cbn [l_kid l_sender l_iv l_ek]. rewrite seal_open_seal.
      rewrite (dh_comm_box k sender nonce). rewrite unwrap_wrap. rewrite c_dec_enc. reflexivity.
    + rewrite H. reflexivity.
  - pose proof (leg_anon_find party rn rcpts 0) as H.
    destruct (first_owned party rcpts) as [k|].
    + destruct H as [e ->]. cbn [l_kid l_ek]. rewrite seal_open_seal. rewrite c_dec_enc. reflexivity.
    + rewrite H. reflexivity.
Qed.

(* ---------- all packers ---------- *)
Definition expect_from (p : packer) (sender : N) : option N := if is_auth p then Some sender else None.

Lemma unpack_pack c spar payload sender rcpts rn w party :
  pack c spar payload sender rcpts rn = Ok w ->
  match first_owned party rcpts with
  | Some k => unpack Fixed (packer_of c) party w = Ok (Bytes payload, expect_from (packer_of c) sender, k)
  | None => unpack Fixed (packer_of c) party w = Err ENotFound
  end.
Proof.
  unfold pack. destruct (rejects c spar payload sender rcpts); [discriminate|].
  unfold expect_from. destruct (packer_of c) eqn:Hp; cbn [is_auth].
  - destruct (pu_alg (kt_of c) (enc_of c)) as [a|] eqn:Ha; [|discriminate]. intros H; inversion H; subst w.
    cbn [unpack]. apply jwe_auth_roundtrip. eapply pu_alg_1pu; eassumption.
  - intros H; inversion H; subst w. cbn [unpack]. apply jwe_anon_roundtrip.
  - intros H; inversion H; subst w. cbn [unpack]. apply (leg_roundtrip true).
  - intros H; inversion H; subst w. cbn [unpack]. apply (leg_roundtrip false).
Qed.

Lemma dispatch_pack c spar payload sender rcpts rn w :
  pack c spar payload sender rcpts rn = Ok w -> dispatch w = Some (packer_of c).
Proof.
  unfold pack. destruct (rejects c spar payload sender rcpts); [discriminate|].
  destruct (packer_of c) eqn:Hp.
  - destruct (pu_alg (kt_of c) (enc_of c)) as [a|]; [|discriminate]. intros H; inversion H; reflexivity.
  - intros H; inversion H; subst w. unfold pack_jwe_anon. destruct rcpts as [|r0 [|r1 rs]]; reflexivity.
  - intros H; inversion H; reflexivity.
  - intros H; inversion H; reflexivity.
Qed.

Lemma roundtrip_lemma c spar payload sender rcpts rn w party :
  pack c spar payload sender rcpts rn = Ok w ->
  (exists k, In k rcpts /\ In k party) ->
  exists k, In k rcpts /\ In k party /\
    unpack Fixed (packer_of c) party w = Ok (Bytes payload, expect_from (packer_of c) sender, k) /\
    unpack_pkgr Fixed party w = Ok (Bytes payload, expect_from (packer_of c) sender, k).
Proof.
  intros Hp Hex. pose proof (unpack_pack _ _ _ _ _ _ _ party Hp) as H.
  destruct (first_owned_some party rcpts Hex) as [k [Hf [H1 H2]]]. rewrite Hf in H.
  exists k. repeat split; try assumption.
  unfold unpack_pkgr. rewrite (dispatch_pack _ _ _ _ _ _ _ Hp). assumption.
Qed.

Lemma only_recipients_lemma c spar payload sender rcpts rn w party :
  pack c spar payload sender rcpts rn = Ok w ->
  (forall k, In k rcpts -> ~ In k party) ->
  unpack Fixed (packer_of c) party w = Err ENotFound /\ unpack_pkgr Fixed party w = Err ENotFound.
Proof.
  intros Hp Hno. pose proof (unpack_pack _ _ _ _ _ _ _ party Hp) as H.
  rewrite (first_owned_none party rcpts Hno) in H. split; [assumption|].
  unfold unpack_pkgr. rewrite (dispatch_pack _ _ _ _ _ _ _ Hp). assumption.
Qed.

Lemma pack_total_lemma c spar payload sender rcpts rn :
  (exists e, pack c spar payload sender rcpts rn = Err e) <-> rejects c spar payload sender rcpts = true.
Proof.
  unfold pack. destruct (rejects c spar payload sender rcpts) eqn:R.
  - split; [reflexivity|]. intros _. eexists; reflexivity.
  - split; [|discriminate]. intros [e H]. unfold rejects in R.
    destruct rcpts; [discriminate|]. destruct (packer_of c); try discriminate.
    destruct (pu_alg (kt_of c) (enc_of c)); [discriminate|].
    rewrite !orb_false_iff in R. destruct R as [_ [[_ R] _]]. discriminate.
Qed.

(* no party obtains anything but the packed payload, and it is never a panic / non-termination *)
Lemma unpack_pack_total c spar payload sender rcpts rn w party :
  pack c spar payload sender rcpts rn = Ok w ->
  (exists k, unpack Fixed (packer_of c) party w = Ok (Bytes payload, expect_from (packer_of c) sender, k)
             /\ In k rcpts /\ In k party)
  \/ unpack Fixed (packer_of c) party w = Err ENotFound /\ (forall k, In k rcpts -> ~ In k party).
Proof.
  intros Hp. pose proof (unpack_pack _ _ _ _ _ _ _ party Hp) as H.
  destruct (first_owned party rcpts) as [k|] eqn:Hf.
  - left. exists k. split; [assumption|].
    clear H Hp. revert Hf. induction rcpts as [|r rs IH]; [discriminate|]. cbn [first_owned].
    destruct (mem r party) eqn:Hm.
    + intros H; inversion H; subst. split; [left; reflexivity|apply mem_In; assumption].
    + intros H. destruct (IH H). split; [right|]; assumption.
  - right. split; [assumption|]. clear H Hp. revert Hf. induction rcpts as [|r rs IH]; [intros _ k []|].
    cbn [first_owned]. destruct (mem r party) eqn:Hm; [discriminate|]. intros H k [->|Hk].
    + apply mem_false; assumption.
    + apply IH; assumption.
Qed.

(* ---------- mixed key types ---------- *)
Lemma pack_mixed_is_pack ktf c spar payload sender rcpts rn w :
  pack_mixed ktf c spar payload sender rcpts rn = Ok w ->
  exists c', packer_of c' = packer_of c /\ pack c' spar payload sender rcpts rn = Ok w.
Proof.
  unfold pack_mixed. destruct (packer_of c) eqn:P.
  - destruct (forallb _ rcpts); [|discriminate]. intros H.
    exists (with_kt c (ktf sender)). split; [cbn; congruence|exact H].
  - intros H. exists (with_kt c (match rcpts with r :: _ => ktf r | [] => kt_of c end)).
    split; [cbn; congruence|exact H].
  - intros H. exists c. split; [congruence|exact H].
  - intros H. exists c. split; [congruence|exact H].
Qed.
