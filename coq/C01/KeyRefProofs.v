(* C01 — lemmas about key-reference resolution and the sender id (string level). *)
From Coq Require Import List NArith Bool Lia.
Import ListNotations.
From VF Require Import C01.Model C01.KeyRef C01.Proofs.
Local Open Scope N_scope.

Lemma str_eqb_eq a b : str_eqb a b = true <-> a = b.
Proof.
  revert b. induction a as [|x a IH]; intros [|y b]; cbn [str_eqb]; split; intros H; try reflexivity; try discriminate.
  - apply andb_true_iff in H as [H1 H2]. apply N.eqb_eq in H1. apply IH in H2. subst; reflexivity.
  - inversion H; subst. rewrite N.eqb_refl. cbn. apply IH. reflexivity.
Qed.
Lemma str_eqb_refl a : str_eqb a a = true.
Proof. apply str_eqb_eq; reflexivity. Qed.

(* packager: in a document whose fragments are pairwise different every entry a key can be built from is found by
   its own fragment, wherever it stands in the list and whatever the other entries are *)
Lemma pk_find_own : forall kas v,
  NoDup (map vm_frag kas) -> In v kas -> vm_ok v = true -> pk_find kas (vm_frag v) = FKey (vm_key v).
Proof.
  induction kas as [|a kas IH]; intros v Hnd Hin Hok; [destruct Hin|].
  cbn [pk_find]. cbn [map] in Hnd. inversion Hnd as [|? ? Hnotin Hnd']; subst.
  destruct (str_eqb (vm_frag a) (vm_frag v)) eqn:E.
  - destruct Hin as [->|Hin]; [rewrite Hok; reflexivity|]. exfalso. apply str_eqb_eq in E. apply Hnotin. rewrite E.
    apply in_map. assumption.
  - destruct Hin as [->|Hin]; [rewrite str_eqb_refl in E; discriminate|]. apply IH; assumption.
Qed.

Lemma full_id_eqb doc a v : str_eqb (vm_full_id doc a) (vm_full_id doc v) = str_eqb (vm_frag a) (vm_frag v).
Proof.
  unfold vm_full_id. induction (dd_id doc) as [|x l IH]; cbn [app str_eqb].
  - rewrite N.eqb_refl. reflexivity.
  - rewrite N.eqb_refl. exact IH.
Qed.

(* kid resolver (repaired): the same, on full ids *)
Lemma dr_first_own doc : forall kas v,
  NoDup (map vm_frag kas) -> In v kas -> vm_ok v = true -> dr_first doc kas (vm_full_id doc v) = FKey (vm_key v).
Proof.
  induction kas as [|a kas IH]; intros v Hnd Hin Hok; [destruct Hin|].
  cbn [dr_first]. unfold dr_entry. cbn [map] in Hnd. inversion Hnd as [|? ? Hnotin Hnd']; subst. rewrite full_id_eqb.
  destruct (str_eqb (vm_frag a) (vm_frag v)) eqn:E.
  - destruct Hin as [->|Hin]; [rewrite Hok; reflexivity|]. exfalso. apply str_eqb_eq in E. apply Hnotin. rewrite E.
    apply in_map. assumption.
  - destruct Hin as [->|Hin]; [rewrite str_eqb_refl in E; discriminate|]. apply IH; assumption.
Qed.

Lemma split_sender_id k r : split_sender (sender_id k r) = (kid_of k, ref_str r).
Proof.
  unfold split_sender, sender_id, kid_of. cbn [app index_of].
  assert (k + 2 =? DOT = false) as -> by (apply N.eqb_neq; unfold DOT; lia).
  replace (DOT =? DOT) with true by reflexivity. cbn [option_map firstn skipn]. reflexivity.
Qed.

Lemma kid_of_eqb k s : str_eqb (kid_of k) (kid_of s) = (k =? s).
Proof.
  unfold kid_of. cbn [str_eqb]. rewrite andb_true_r.
  destruct (N.eqb_spec k s) as [->|Hne]; [apply N.eqb_refl|]. apply N.eqb_neq. lia.
Qed.

Lemma kms_get_own : forall party s, In s party -> kms_get party (kid_of s) = Some s.
Proof.
  unfold kms_get. induction party as [|k party IH]; intros s Hin; [destruct Hin|].
  cbn [find]. rewrite kid_of_eqb. destruct (N.eqb_spec k s) as [->|Hne]; [reflexivity|].
  destruct Hin as [->|Hin]; [congruence|]. apply IH. assumption.
Qed.

Lemma pack_msg_pack d c spar payload sender rcpts rn s rkeys :
  map_opt (pk_resolve d) rcpts = Some rkeys ->
  (is_auth (packer_of c) = true -> pk_resolve d sender = Some s /\ In s spar) ->
  pack_msg d c spar payload sender rcpts rn
  = pack c spar payload (if is_auth (packer_of c) then s else 0) rkeys rn.
Proof.
  intros Hr Hs. unfold pack_msg. rewrite Hr. destruct (is_auth (packer_of c)); [|reflexivity].
  destruct (Hs eq_refl) as [Hps Hin]. rewrite Hps, split_sender_id, (kms_get_own _ _ Hin), str_eqb_refl. reflexivity.
Qed.
