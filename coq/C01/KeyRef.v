(* C01 — key references at string level (executable model, no proofs): DID-document key-agreement ids
   "did#fragment", their resolution against a DID document with SEVERAL keyAgreement entries by the packager
   (pkg/didcomm/packager/packager.go resolveKeyAgreementFromDIDDoc: fragment match, first entry wins) and by
   the DID-document kid resolver (component/models/jose/diddocresolver: full id match), and the sender id
   "<kms kid>.<skid>" that packager.buildSenderKID builds and authcrypt.Pack splits at the FIRST '.'.

   Strings are lists of atoms; the atoms DOT ('.') and HASH ('#') are explicit because the code searches for
   them; DIDs contain DOTs (did:web:alice.example.com, did:peer:2.Ez….Vz…). *)
From Coq Require Import List NArith Bool.
Import ListNotations.
From VF Require Export C01.Model.
Local Open Scope N_scope.

Definition str := list N.
Definition DOT : N := 0.
Definition HASH : N := 1.

Fixpoint str_eqb (a b : str) : bool :=
  match a, b with
  | [], [] => true
  | x :: a', y :: b' => (x =? y) && str_eqb a' b'
  | _, _ => false
  end.

(* a key reference did#fragment *)
Record ref := mkref { rf_did : str; rf_frag : str }.
Definition ref_str (r : ref) : str := rf_did r ++ HASH :: rf_frag r.

(* a keyAgreement entry: id written relative ("#frag") or absolute ("did#frag"), its key, and whether a key can
   be built from it (vm_ok = false: a verification-method type the resolvers do not support — X25519KeyAgreementKey2020,
   Ed25519VerificationKey2018, Multikey, any foreign suite — or an entry without key material) *)
Record vmeth := mkvm { vm_rel : bool; vm_frag : str; vm_key : N; vm_ok : bool }.
(* result of resolving against one document *)
Inductive fres := FKey (k : N) | FNone | FErr.
Record ddoc := mkdoc { dd_id : str; dd_kas : list vmeth }.
Definition directory := list ddoc.

Fixpoint vdr (d : directory) (did : str) : option ddoc :=
  match d with
  | [] => None
  | doc :: r => if str_eqb (dd_id doc) did then Some doc else vdr r did
  end.

(* packager: the part of each entry's id after '#' is compared with the requested fragment; first match *)
(* the type of an entry is looked at only AFTER its fragment matched (marshalKeyFromVerificationMethod) *)
Fixpoint pk_find (kas : list vmeth) (frag : str) : fres :=
  match kas with
  | [] => FNone
  | v :: r => if str_eqb (vm_frag v) frag then (if vm_ok v then FKey (vm_key v) else FErr) else pk_find r frag
  end.
Definition pk_resolve (d : directory) (r : ref) : option N :=
  match vdr d (rf_did r) with
  | Some doc => match pk_find (dd_kas doc) (rf_frag r) with FKey k => Some k | _ => None end
  | None => None
  end.

(* kid resolver (unpack side): the entry's full id (relative ids get the document id in front) is compared
   with the whole kid; Fixed: first match; AsIs: the result of the LAST loop iteration *)
Definition vm_full_id (doc : ddoc) (v : vmeth) : str := dd_id doc ++ HASH :: vm_frag v.
(* extractKey: an entry whose id does not match the kid contributes nothing, whatever its type; the matching
   entry yields its key or, for an unsupported type, an error *)
Definition dr_entry (doc : ddoc) (v : vmeth) (kid : str) : fres :=
  if str_eqb (vm_full_id doc v) kid then (if vm_ok v then FKey (vm_key v) else FErr) else FNone.
Fixpoint dr_first (doc : ddoc) (kas : list vmeth) (kid : str) : fres :=
  match kas with
  | [] => FNone
  | v :: r => match dr_entry doc v kid with FNone => dr_first doc r kid | x => x end
  end.
Fixpoint dr_last (doc : ddoc) (kas : list vmeth) (kid : str) (acc : fres) : fres :=
  match kas with
  | [] => acc
  | v :: r => match dr_entry doc v kid with FErr => FErr | x => dr_last doc r kid x end
  end.
Definition dr_resolve (v : variant) (d : directory) (r : ref) : rres :=
  match vdr d (rf_did r) with
  | None => RErr
  | Some doc =>
      match v with
      | Fixed => match dr_first doc (dd_kas doc) (ref_str r) with FKey k => RKey k | _ => RErr end
      | AsIs => match dr_last doc (dd_kas doc) (ref_str r) FNone with FKey k => RKey k | FNone => RNil | FErr => RErr end
      end
  end.
(* the abstract key reference of Model.v that stands for this string *)
Definition kref_of (d : directory) (r : ref) : kref :=
  match vdr d (rf_did r) with
  | None => KUnres 0
  | Some doc => match dr_first doc (dd_kas doc) (ref_str r) with
                | FKey k => KDoc k (match dr_last doc (dd_kas doc) (ref_str r) FNone with FKey _ => true | _ => false end)
                | _ => KUnres 0
                end
  end.

(* the KMS key id (thumbprint, base64url: one atom, never '.' or '#') *)
Definition kid_of (k : N) : str := [k + 2].
(* packager.buildSenderKID *)
Definition sender_id (k : N) (r : ref) : str := kid_of k ++ DOT :: ref_str r.
Fixpoint index_of (x : N) (l : str) : option nat :=
  match l with
  | [] => None
  | y :: r => if y =? x then Some O else option_map S (index_of x r)
  end.
(* authcrypt.Pack: if idx := strings.Index(senderKID, "."); idx > 0 { senderKID = [:idx]; skid = [idx+1:] } *)
Definition split_sender (sid : str) : str * str :=
  match index_of DOT sid with
  | Some (S i) => (firstn (S i) sid, skipn (S (S i)) sid)
  | _ => (sid, sid)
  end.
Definition kms_get (party : list N) (kid : str) : option N := find (fun k => str_eqb (kid_of k) kid) party.

Fixpoint map_opt {A B} (f : A -> option B) (l : list A) : option (list B) :=
  match l with
  | [] => Some []
  | x :: r => match f x, map_opt f r with Some y, Some ys => Some (y :: ys) | _, _ => None end
  end.

(* packager.PackMessage with DID-document key references: resolve the recipients, resolve the sender and build
   its id, hand over to the packer, which splits the sender id and fetches the key from its KMS *)
Definition pack_msg (d : directory) (c : cfg) (spar : list N) (payload : N) (sender : ref) (rcpts : list ref)
           (rn : rnd) : res wire :=
  match map_opt (pk_resolve d) rcpts with
  | None => Err ENotFound
  | Some rkeys =>
      if is_auth (packer_of c) then
        match pk_resolve d sender with
        | None => Err ENotFound
        | Some s =>
            let '(kmskid, skid) := split_sender (sender_id s sender) in
            match kms_get spar kmskid with
            | None => Err ENotFound
            | Some s' => if str_eqb skid (ref_str sender) then pack c spar payload s' rkeys rn else Err EInvalid
            end
        end
      else pack c spar payload 0 rkeys rn
  end.
