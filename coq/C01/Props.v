(* C01 — property theorems only.  "pack" / "unpack" are the executable model of C01/Model.v (the same functions
   the correspondence C01/Corr.v runs against the real packers). *)
From Coq Require Import List NArith Bool.
Import ListNotations.
From VF Require Import C01.Model C01.Proofs C01.KeyRef C01.KeyRefProofs C01.Corr C01.Dataflow.
Local Open Scope N_scope.

(* FULL STATEMENT, part 1 (round trip).  For every configuration (packer, key type, enc, key reference style),
   every payload, sender, recipient list of ANY length (duplicates allowed) and any randomness: if Pack
   succeeded, every party holding the private part of at least one recipient key unpacks — through the packer
   and through the packager's dispatch — exactly that payload, with the true sender key for authenticated
   encryption (none for anoncrypt) and, as ToKey, a recipient key of the envelope that it holds. *)
Theorem roundtrip : forall c spar payload sender rcpts rn w party,
  pack c spar payload sender rcpts rn = Ok w ->
  (exists k, In k rcpts /\ In k party) ->
  exists k, In k rcpts /\ In k party /\
    unpack Fixed (packer_of c) party w = Ok (Bytes payload, expect_from (packer_of c) sender, k) /\
    unpack_pkgr Fixed party w = Ok (Bytes payload, expect_from (packer_of c) sender, k).
Proof. exact roundtrip_lemma. Qed.
Print Assumptions roundtrip.

(* FULL STATEMENT, part 2 (only recipients).  A party holding none of the recipient private keys gets an error. *)
Theorem only_recipients : forall c spar payload sender rcpts rn w party,
  pack c spar payload sender rcpts rn = Ok w ->
  (forall k, In k rcpts -> ~ In k party) ->
  unpack Fixed (packer_of c) party w = Err ENotFound /\ unpack_pkgr Fixed party w = Err ENotFound.
Proof. exact only_recipients_lemma. Qed.
Print Assumptions only_recipients.

(* KEY REFERENCES (DID-document key-agreement ids "did#fragment", C01/KeyRef.v).  In a DID document with any
   number of keyAgreement entries whose fragments are pairwise different, every entry — first, middle or last,
   whatever the other fragments look like (suffixes of one another included) — is resolved to ITS key both by the
   packager (fragment match) and by the repaired kid resolver (full id match): resolution is exact and
   order-independent, and independent of the OTHER entries' verification-method types: entries no key can be built
   from (vm_ok = false: unsupported suites, no key material) standing before or after the addressed one change nothing. *)
Theorem keyref_resolution_exact : forall doc v,
  NoDup (map vm_frag (dd_kas doc)) -> In v (dd_kas doc) -> vm_ok v = true ->
  pk_find (dd_kas doc) (vm_frag v) = FKey (vm_key v) /\
  dr_first doc (dd_kas doc) (vm_full_id doc v) = FKey (vm_key v).
Proof. intros doc v Hnd Hin Hok. split; [apply pk_find_own|apply dr_first_own]; assumption. Qed.
Print Assumptions keyref_resolution_exact.

(* the sender id "<kms kid>.<skid>" is split back into exactly its two parts, whatever dots the skid's DID has *)
Theorem sender_id_split : forall k r, split_sender (sender_id k r) = (kid_of k, ref_str r).
Proof. exact split_sender_id. Qed.
Print Assumptions sender_id_split.

(* round trip through packager.PackMessage with DID-document key references for sender and recipients *)
Theorem roundtrip_keyrefs : forall d c spar payload sender rcpts rn w s rkeys party,
  map_opt (pk_resolve d) rcpts = Some rkeys ->
  (is_auth (packer_of c) = true -> pk_resolve d sender = Some s /\ In s spar) ->
  pack_msg d c spar payload sender rcpts rn = Ok w ->
  (exists k, In k rkeys /\ In k party) ->
  exists k, In k rkeys /\ In k party /\
    unpack_pkgr Fixed party w = Ok (Bytes payload, expect_from (packer_of c) s, k).
Proof.
  intros d c spar payload sender rcpts rn w s rkeys party Hr Hs Hp Hex.
  rewrite (pack_msg_pack d c spar payload sender rcpts rn s rkeys Hr Hs) in Hp.
  destruct (roundtrip_lemma _ _ _ _ _ _ _ party Hp Hex) as [k [H1 [H2 [_ H3]]]].
  exists k. split; [assumption|]. split; [assumption|]. rewrite H3. unfold expect_from.
  destruct (is_auth (packer_of c)); reflexivity.
Qed.
Print Assumptions roundtrip_keyrefs.

(* recipient lists of MIXED key types: anoncrypt packs for any mix; authcrypt rejects a recipient whose type differs
   from the sender's (pack-side rejection of the code, modelled in pack_mixed); whenever Pack succeeds the round trip
   holds exactly as for uniform lists *)
Theorem roundtrip_mixed : forall ktf c spar payload sender rcpts rn w party,
  pack_mixed ktf c spar payload sender rcpts rn = Ok w ->
  (exists k, In k rcpts /\ In k party) ->
  exists k, In k rcpts /\ In k party /\
    unpack Fixed (packer_of c) party w = Ok (Bytes payload, expect_from (packer_of c) sender, k) /\
    unpack_pkgr Fixed party w = Ok (Bytes payload, expect_from (packer_of c) sender, k).
Proof.
  intros ktf c spar payload sender rcpts rn w party Hp Hex.
  destruct (pack_mixed_is_pack _ _ _ _ _ _ _ _ Hp) as [c' [Hpk Hp']].
  destruct (roundtrip_lemma _ _ _ _ _ _ _ party Hp' Hex) as [k H]. rewrite Hpk in H. exists k. exact H.
Qed.
Print Assumptions roundtrip_mixed.

Theorem authcrypt_mixed_rejected : forall ktf c spar payload sender rcpts rn r,
  packer_of c = JweAuth -> In r rcpts -> ktype_eqb (ktf r) (ktf sender) = false ->
  pack_mixed ktf c spar payload sender rcpts rn = Err ERejected.
Proof.
  intros ktf c spar payload sender rcpts rn r P Hin Hne. unfold pack_mixed. rewrite P.
  destruct (forallb (fun r0 => ktype_eqb (ktf r0) (ktf sender)) rcpts) eqn:F; [|reflexivity].
  rewrite forallb_forall in F. rewrite (F r Hin) in Hne. discriminate.
Qed.
Print Assumptions authcrypt_mixed_rejected.

(* KEY ROTATION.  In the model a party is the list of keys its KMS FINDS.  kms.Rotate replaces the id under which the
   keyset is stored: the old key's id is no longer found (its private part stays inside the keyset).  The statement
   "an agent holding the private part still unpacks after rotating the key" is therefore REFUTED (known finding
   recipient-cannot-unpack-after-rotation) ... *)
Definition rotate (party : list N) (old new : N) : list N := new :: filter (fun k => negb (k =? old)) party.
Theorem unpack_after_rotation_refuted :
  exists c spar payload sender rcpts rn w k k',
    pack c spar payload sender rcpts rn = Ok w /\ In k rcpts /\
    unpack Fixed (packer_of c) [k] w = Ok (Bytes payload, None, k) /\
    unpack Fixed (packer_of c) (rotate [k] k k') w = Err ENotFound.
Proof.
  exists (mkcfg JweAnon X25519 XC20P DidKey), [1], 5, 0, [2], (mkrnd 7 8 9). eexists. exists 2, 3.
  split; [reflexivity|]. split; [left; reflexivity|]. split; vm_compute; reflexivity.
Qed.
Print Assumptions unpack_after_rotation_refuted.

(* ... and what holds (PARTIAL): envelopes packed to keys the rotated KMS finds — the new key, and every key that was
   not rotated — unpack as before *)
Theorem unpack_after_rotation_partial : forall c spar payload sender rcpts rn w party old new,
  pack c spar payload sender rcpts rn = Ok w ->
  (exists k, In k rcpts /\ In k (rotate party old new)) ->
  exists k, In k rcpts /\ In k (rotate party old new) /\
    unpack Fixed (packer_of c) (rotate party old new) w = Ok (Bytes payload, expect_from (packer_of c) sender, k).
Proof.
  intros c spar payload sender rcpts rn w party old new Hp Hex.
  destruct (roundtrip_lemma _ _ _ _ _ _ _ (rotate party old new) Hp Hex) as [k [H1 [H2 [H3 _]]]].
  exists k. repeat split; assumption.
Qed.
Print Assumptions unpack_after_rotation_partial.

(* both at once: whoever unpacks, the result is the packed triple or the not-a-recipient error — never another
   payload, never a panic *)
Theorem unpack_of_pack_is_total : forall c spar payload sender rcpts rn w party,
  pack c spar payload sender rcpts rn = Ok w ->
  (exists k, unpack Fixed (packer_of c) party w = Ok (Bytes payload, expect_from (packer_of c) sender, k)
             /\ In k rcpts /\ In k party)
  \/ unpack Fixed (packer_of c) party w = Err ENotFound /\ (forall k, In k rcpts -> ~ In k party).
Proof. exact unpack_pack_total. Qed.
Print Assumptions unpack_of_pack_is_total.

(* Pack fails exactly on the code's pack-side rejections (the decidable predicate [rejects]). *)
Theorem pack_total : forall c spar payload sender rcpts rn,
  (exists e, pack c spar payload sender rcpts rn = Err e) <-> rejects c spar payload sender rcpts = true.
Proof. exact pack_total_lemma. Qed.
Print Assumptions pack_total.

(* "Whatever payload an agent packs for a set of recipient keys": the statement that Pack succeeds for every
   payload, every non-empty recipient list and every enc the packer admits, with the sender key in the
   sender's KMS, is REFUTED by the faithful model (known findings, DESIGN 11 #22) ... *)
Definition admitted (c : cfg) : bool :=
  match style_of c with RawKeyHash => false | _ => true end &&
  match packer_of c, kt_of c with
  | (JweAuth | JweAnon), Ed25519 => false
  | JweAuth, _ => auth_enc_ok (enc_of c)
  | JweAnon, _ => true
  | (LegAuth | LegAnon), Ed25519 => true
  | _, _ => false
  end.
Theorem pack_always_succeeds_refuted :
  (exists c spar payload sender rcpts rn,
     admitted c = true /\ rcpts <> [] /\ mem sender spar = true /\ payload = 0 /\
     pack c spar payload sender rcpts rn = Err ERejected) /\
  (exists c spar payload sender rcpts rn,
     admitted c = true /\ rcpts <> [] /\ mem sender spar = true /\ payload <> 0 /\
     pack c spar payload sender rcpts rn = Err ERejected).
Proof.
  split.
  - exists (mkcfg JweAnon X25519 XC20P DidKey), [1], 0, 1, [2; 3], (mkrnd 7 8 9).
    repeat split; try reflexivity; discriminate.
  - exists (mkcfg JweAuth P256 A256CBC384 DidKey), [1], 5, 1, [2], (mkrnd 7 8 9).
    repeat split; try reflexivity; discriminate.
Qed.
Print Assumptions pack_always_succeeds_refuted.

(* third pack-side rejection (known finding pack-rejects-raw-key-containing-hash): raw legacy keys handed to the
   packager, one of them with a '#' byte after position 0 *)
Theorem pack_raw_key_with_hash_refuted :
  exists c spar payload sender rcpts rn,
    packer_of c = LegAuth /\ kt_of c = Ed25519 /\ rcpts <> [] /\ mem sender spar = true /\
    pack c spar payload sender rcpts rn = Err ERejected.
Proof.
  exists (mkcfg LegAuth Ed25519 XC20P RawKeyHash), [1], 5, 1, [2], (mkrnd 7 8 9).
  repeat split; try reflexivity; discriminate.
Qed.
Print Assumptions pack_raw_key_with_hash_refuted.

(* ... and holds outside exactly those three classes. *)
Theorem pack_always_succeeds_partial : forall c spar payload sender rcpts rn,
  admitted c = true -> rcpts <> [] -> (is_auth (packer_of c) = true -> mem sender spar = true) ->
  negb ((payload =? 0) && Nat.ltb 1 (length rcpts) && stream_enc (enc_of c) && negb (is_legacy (packer_of c))) = true ->
  negb (match packer_of c, kt_of c, enc_of c with JweAuth, (P256 | P384 | P521), A256CBC384 => true | _, _, _ => false end) = true ->
  exists w, pack c spar payload sender rcpts rn = Ok w.
Proof.
  intros c spar payload sender rcpts rn Ha Hr Hs H1 H2.
  destruct (pack c spar payload sender rcpts rn) as [w|e|s|] eqn:Hp; [exists w; reflexivity| | |].
  - exfalso. assert (Hrej : rejects c spar payload sender rcpts = true) by (apply (proj1 (pack_total_lemma c spar payload sender rcpts rn)); exists e; exact Hp).
    clear Hp. unfold rejects in Hrej. destruct rcpts as [|r rs]; [congruence|].
    unfold admitted in Ha.
    destruct (style_of c) eqn:S, (packer_of c) eqn:P, (kt_of c) eqn:K, (enc_of c) eqn:E; cbn in *; try discriminate;
      try (rewrite (Hs eq_refl) in Hrej); cbn in *;
      repeat match goal with
      | H : context [payload =? 0] |- _ => destruct (payload =? 0)
      | H : context [length rs] |- _ => destruct (length rs)
      end; cbn in *; try discriminate.
  - exfalso. unfold pack in Hp. destruct (rejects c spar payload sender rcpts); [discriminate|].
    destruct (packer_of c); try discriminate. destruct (pu_alg (kt_of c) (enc_of c)); discriminate.
  - exfalso. unfold pack in Hp. destruct (rejects c spar payload sender rcpts); [discriminate|].
    destruct (packer_of c); try discriminate. destruct (pu_alg (kt_of c) (enc_of c)); discriminate.
Qed.
Print Assumptions pack_always_succeeds_partial.

(* HISTORICAL REFUTATION (before fix: 1a07210): with the DID-document kid resolver as found, a recipient whose
   kid is not the last keyAgreement entry of its document cannot unpack — the resolver returns a nil key. *)
Theorem roundtrip_asis_refuted :
  exists c spar payload sender rcpts rn w party,
    pack c spar payload sender rcpts rn = Ok w /\ (exists k, In k rcpts /\ In k party) /\
    unpack AsIs (packer_of c) party w = Panic 2 /\
    exists k, unpack Fixed (packer_of c) party w = Ok (Bytes payload, Some sender, k).
Proof.
  exists (mkcfg JweAuth P256 XC20P DidDocMulti), [1], 5, 1, [2], (mkrnd 7 8 9).
  eexists. exists [2]. split; [reflexivity|]. split; [exists 2; split; left; reflexivity|].
  split; [vm_compute; reflexivity|]. exists 2. vm_compute. reflexivity.
Qed.
Print Assumptions roundtrip_asis_refuted.

(* DATAFLOW of the key wrapping (the structural tie of C01/Corr.v).  For EVERY successful pack the calls the model
   predicts — one Crypto.WrapKey call per recipient, in order: ECDH-ES with a fresh ephemeral key per recipient, empty
   apu/apv arguments (apu of the result = the ephemeral key), no tag, no sender; ECDH-1PU with ONE ephemeral key, the
   sender's key handle, apu = the sender key reference, apv = the hash of all recipient references, the tag of the
   content encryption, the same content key — re-assembled by wrap_of_call are exactly the encrypted-key sub-terms of
   the envelope.  The correspondence applies the same wrap_of_call / calls_match to the calls RECORDED from the real
   packers' crypto service, so a recorded call that differs in any argument fails the vm_compute obligation. *)
Theorem dataflow_tie : forall c spar payload sender rcpts rn w,
  pack c spar payload sender rcpts rn = Ok w ->
  calls_match rn w (calls_of c sender rcpts) = true.
Proof. exact dataflow_tie_lemma. Qed.
Print Assumptions dataflow_tie.

(* non-vacuity: an envelope of each JWE packer matches its calls, and a call with ANY single argument changed (other
   recipient, other sender, no tag, other apu / apv, other content key, ephemeral key not shared, other alg) does not *)
Example dataflow_nonvacuous :
  let rn := mkrnd 100 101 102 in
  let c := mkcfg JweAuth P256 A256CBC512 DidKey in
  let good := mkwcall PU_A256KW 6 (Some 1) 0 0 (NSkid (KDidKey 1)) (NKids [KDidKey 5; KDidKey 6]) (Some true) in
  match pack c [1] 77 1 [5; 6] rn with
  | Ok w =>
      calls_match rn w (calls_of c 1 [5; 6]) = true /\
      forallb (fun bad => negb (calls_match rn w [mkwcall PU_A256KW 5 (Some 1) 0 0 (NSkid (KDidKey 1)) (NKids [KDidKey 5; KDidKey 6]) (Some true); bad]))
        [mkwcall PU_A256KW 7 (Some 1) 0 0 (NSkid (KDidKey 1)) (NKids [KDidKey 5; KDidKey 6]) (Some true);
         mkwcall PU_A256KW 6 (Some 2) 0 0 (NSkid (KDidKey 1)) (NKids [KDidKey 5; KDidKey 6]) (Some true);
         mkwcall PU_A256KW 6 None 0 0 (NSkid (KDidKey 1)) (NKids [KDidKey 5; KDidKey 6]) (Some true);
         mkwcall PU_A256KW 6 (Some 1) 1 0 (NSkid (KDidKey 1)) (NKids [KDidKey 5; KDidKey 6]) (Some true);
         mkwcall PU_A256KW 6 (Some 1) 0 1 (NSkid (KDidKey 1)) (NKids [KDidKey 5; KDidKey 6]) (Some true);
         mkwcall PU_A256KW 6 (Some 1) 0 0 NEmpty (NKids [KDidKey 5; KDidKey 6]) (Some true);
         mkwcall PU_A256KW 6 (Some 1) 0 0 (NSkid (KDidKey 1)) (NKids [KDidKey 6; KDidKey 5]) (Some true);
         mkwcall PU_A256KW 6 (Some 1) 0 0 (NSkid (KDidKey 1)) (NKids [KDidKey 5; KDidKey 6]) None;
         mkwcall PU_A256KW 6 (Some 1) 0 0 (NSkid (KDidKey 1)) (NKids [KDidKey 5; KDidKey 6]) (Some false);
         mkwcall PU_A128KW 6 (Some 1) 0 0 (NSkid (KDidKey 1)) (NKids [KDidKey 5; KDidKey 6]) (Some true);
         mkwcall ES_A256KW 6 None 0 0 NEpk NEmpty None] = true /\
      calls_match rn w [good] = false
  | _ => False
  end.
Proof. vm_compute. repeat split. Qed.

(* non-vacuity: concrete envelopes of every packer, several recipients, a party holding two of the keys, the
   sender, an outsider *)
Example roundtrip_nonvacuous :
  let rn := mkrnd 100 101 102 in
  (forall p, In p [JweAuth; JweAnon] ->
     match pack (mkcfg p P384 A256CBC512 DidDoc) [1; 2] 77 1 [5; 6; 7] rn with
     | Ok w => unpack Fixed p [9; 7; 6] w = Ok (Bytes 77, expect_from p 1, 6) /\
               unpack_pkgr Fixed [5] w = Ok (Bytes 77, expect_from p 1, 5) /\
               unpack Fixed p [1; 2] w = Err ENotFound
     | _ => False
     end) /\
  (forall p, In p [LegAuth; LegAnon] ->
     match pack (mkcfg p Ed25519 XC20P RawKey) [1; 2] 0 1 [5; 6; 7] rn with
     | Ok w => unpack Fixed p [9; 7; 6] w = Ok (Bytes 0, expect_from p 1, 6) /\
               unpack_pkgr Fixed [8] w = Err ENotFound
     | _ => False
     end).
Proof.
  split; intros p [<-|[<-|[]]]; vm_compute; repeat split.
Qed.

(* non-vacuity for the key-reference layer: sender did:web:a.b.c#key (DID with two dots), recipients addressed
   in a party document listing fragments [alt;alt;key], [alt;key], [key] (suffixes of one another) between entries of
   unsupported types *)
Example keyrefs_nonvacuous :
  let sdoc := mkdoc [10; DOT; 11; DOT; 12] [mkvm false [21] 1 true] in
  let rdoc := mkdoc [13; DOT; 14] [mkvm true [20; 20; 20; 21] 0 false; mkvm true [20; 20; 21] 5 true; mkvm true [22; 21] 0 false;
                                   mkvm true [20; 21] 6 true; mkvm true [21] 7 true; mkvm true [23] 0 false] in
  let d := [sdoc; rdoc] in
  let c := mkcfg JweAuth X25519 XC20P DidDocMulti in
  pk_resolve d (mkref [13; DOT; 14] [20; 21]) = Some 6 /\
  dr_resolve Fixed d (mkref [13; DOT; 14] [20; 21]) = RKey 6 /\
  dr_resolve AsIs d (mkref [13; DOT; 14] [20; 21]) = RNil /\
  match pack_msg d c [1] 77 (mkref [10; DOT; 11; DOT; 12] [21]) [mkref [13; DOT; 14] [20; 21]; mkref [13; DOT; 14] [21]]
                 (mkrnd 100 101 102) with
  | Ok w => unpack_pkgr Fixed [6] w = Ok (Bytes 77, Some 1, 6)
  | _ => False
  end.
Proof. vm_compute. repeat split. Qed.
