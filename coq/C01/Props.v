From Coq Require Import List NArith Bool.
Import ListNotations.
From VF Require Import C01.Model.
Local Open Scope N_scope.

Theorem pack_total : forall c spar payload sender rcpts rn,
  (exists e, pack c spar payload sender rcpts rn = Err e) <-> rejects c spar payload sender rcpts = true.
Proof.
  intros. unfold pack. destruct (rejects c spar payload sender rcpts) eqn:R.
  - split; [reflexivity|]. intros _. eexists; reflexivity.
  - split; [|discriminate]. intros [e H]. unfold rejects in R.
    destruct rcpts; [discriminate|]. destruct (packer_of c); try discriminate.
    destruct (pu_alg (kt_of c) (enc_of c)); [discriminate|].
    rewrite !orb_false_iff in R. destruct R as [[_ R] _]. discriminate.
Qed.
Print Assumptions pack_total.
