(* C03 — the reviewed table of panic sites of the anchored files.

   coq/gen/Gen_C03.v is regenerated from /repo on every run by harness/c03gen (go/types over the working tree): every
   unchecked type assertion, every index and slice expression whose bound is not evident, every explicit panic in
   the anchored files (and in four further files that hold operations the model covers).  This file says, for each
   of them, why data of another party cannot drive it outside its domain:

     Modelled n g   it is the dangerous operation number n of Model.v (GPanic n), kept inside its domain by the
                    guard g; that the guards suffice is what never_panics_E* prove
     Guarded g      a test on the same value dominates it in the same function (quoted)
     FreshLength g  the indexed value was allocated in the same function with the length the index ranges over
     SplitHead      element 0 of the result of strings.Split / SplitN, which is never empty
     SplitNonEmpty  the last element of such a result
     OwnData g      only data of this agent reaches it (encoder / prover / pack side, own DID document, local
                    configuration, values this code stored itself)

   Everything except Modelled is a REVIEW by the builder, not a proof.  What IS checked on every run (Props.v,
   vm_compute over the complete generated table): every generated site has an entry with the same file, function,
   kind, expression and COUNT (sites_all_reviewed), no entry is stale (reviewed_none_stale), the anchored files
   contain no explicit panic (no_explicit_panic).  A new unchecked assertion / index / slice in an anchored file, one
   more copy of an existing one, or a renamed function therefore breaks an obligation until it has been looked at. *)
From Coq Require Import List String Bool NArith.
Import ListNotations.
From VF Require Import gen.Gen_C03.
Local Open Scope string_scope.

Inductive why :=
| Modelled (site : N) (guard : string)
| Guarded (by_test : string)
| FreshLength (alloc : string)
| SplitHead
| SplitNonEmpty (note : string)
| OwnData (note : string).

Record entry := E { e_file : string; e_func : string; e_kind : skind; e_expr : string; e_count : nat; e_why : why }.

Definition p0 := "component/kmscrypto/crypto/primitive/bbs12381g2pub/proof_of_knowledge.go".
Definition p1 := "component/kmscrypto/crypto/primitive/bbs12381g2pub/signature.go".
Definition p2 := "component/kmscrypto/crypto/primitive/bbs12381g2pub/signature_proof.go".
Definition p3 := "component/kmscrypto/doc/jose/decrypter.go".
Definition p4 := "component/kmscrypto/doc/jose/jwe.go".
Definition p5 := "component/kmscrypto/doc/jose/jwk/jwk.go".
Definition p6 := "component/kmscrypto/doc/jose/jws.go".
Definition p7 := "component/kmscrypto/doc/util/fingerprint/fingerprint.go".
Definition p8 := "component/models/did/doc.go".
Definition p9 := "component/models/jwt/jwt.go".
Definition p10 := "component/models/jwt/verifier.go".
Definition p11 := "component/models/presexch/api.go".
Definition p12 := "component/models/sdjwt/common/common.go".
Definition p13 := "component/models/sdjwt/common/verification.go".
Definition p14 := "component/models/verifiable/common.go".
Definition p15 := "component/models/verifiable/credential.go".
Definition p16 := "component/models/verifiable/embedded_proof.go".
Definition p17 := "component/models/verifiable/presentation.go".
Definition p18 := "pkg/didcomm/dispatcher/inbound/inbound_message_handler.go".
Definition p19 := "pkg/didcomm/packager/packager.go".
Definition p20 := "pkg/didcomm/packer/anoncrypt/pack.go".
Definition p21 := "pkg/didcomm/packer/authcrypt/pack.go".
Definition p22 := "pkg/didcomm/packer/legacy/anoncrypt/unpack.go".
Definition p23 := "pkg/didcomm/packer/legacy/authcrypt/unpack.go".
Definition p24 := "pkg/didcomm/protocol/didexchange/states.go".
Definition p25 := "pkg/didcomm/protocol/introduce/service.go".
Definition p26 := "pkg/didcomm/protocol/issuecredential/service.go".
Definition p27 := "pkg/didcomm/protocol/legacyconnection/states.go".
Definition p28 := "pkg/didcomm/protocol/messagepickup/service.go".
Definition p29 := "pkg/didcomm/protocol/outofband/service.go".
Definition p30 := "pkg/didcomm/protocol/outofbandv2/service.go".
Definition p31 := "pkg/didcomm/protocol/presentproof/service.go".
Definition p32 := "pkg/didcomm/transport/internal/helpers.go".
Definition p33 := "pkg/didcomm/transport/ws/pool.go".
Definition p34 := "pkg/internal/didkeyutil/util.go".

Definition reviewed : list entry := [
  E p0 "NewPoKOfSignature" KIndex "messages[ind]" 1 (OwnData "prover side (DeriveProof): the revealed indexes are the holder applications own argument");
  E p0 "newVC1Signature" KIndex "secrets1[0]" 1 (FreshLength "secrets1 := make(.., 2)");
  E p0 "newVC1Signature" KIndex "secrets1[1]" 1 (FreshLength "secrets1 := make(.., 2)");
  E p0 "newVC2Signature" KIndex "pubKey.h[i]" 1 (OwnData "prover side: i < messagesCount = len(messages), the key was derived with that many generators");
  E p0 "newVC2Signature" KIndex "messages[i]" 1 (OwnData "prover side: i < messagesCount = len(messages)");
  E p0 "(*ProverCommittedG1).GenerateProof" KIndex "secrets[i]" 1 (OwnData "prover side: one secret was appended per Commit");
  E p0 "(*ProverCommittedG1).GenerateProof" KIndex "responses[i]" 1 (OwnData "prover side: bases and blindingFactors grow together in Commit");
  E p1 "ParseSignature" KSlice "sigBytes[:g1CompressedSize]" 1 (Modelled 51 "parse_signature: check 51 (len(sigBytes) = 112)");
  E p1 "ParseSignature" KSlice "sigBytes[g1CompressedSize : g1CompressedSize+frCompressedSize]" 1 (Modelled 51 "parse_signature: check 51 (len(sigBytes) = 112)");
  E p1 "ParseSignature" KSlice "sigBytes[g1CompressedSize+frCompressedSize:]" 1 (Modelled 51 "parse_signature: check 51 (len(sigBytes) = 112)");
  E p1 "(*Signature).ToBytes" KSlice "bytes[g1CompressedSize : g1CompressedSize+frCompressedSize]" 1 (FreshLength "bytes := make(.., bls12381SignatureLen); encoder side");
  E p1 "(*Signature).ToBytes" KSlice "bytes[g1CompressedSize+frCompressedSize:]" 1 (FreshLength "bytes := make(.., bls12381SignatureLen); encoder side");
  E p2 "(*PoKOfSignatureProof).verifyVC2Proof" KIndex "messages[revealedMessagesInd]" 1 (Modelled 58 "verify_vc2: check 57 of verify_proof (revealed <= messages); never_panics_E5_verify_vc2");
  E p2 "(*PoKOfSignatureProof).verifyVC2Proof" KIndex "exponents[i]" 1 (Guarded "i < len(basesDisclosed); both slices are appended to together");
  E p2 "ParseSignatureProof" KSlice "sigProofBytes[offset : offset+g1CompressedSize]" 1 (Modelled 53 "parse_signature_proof: check 53 (len >= 3*48), three rounds");
  E p2 "ParseSignatureProof" KSlice "sigProofBytes[offset : offset+4]" 1 (Modelled 53 "parse_signature_proof: check 53 (len >= 3*48+4)");
  E p2 "ParseSignatureProof" KSlice "sigProofBytes[offset : offset+proof1BytesLen]" 1 (Modelled 5 "parse_signature_proof: guard 53 (length field <= rest)");
  E p2 "ParseSignatureProof" KSlice "sigProofBytes[offset:]" 1 (Modelled 5 "parse_signature_proof: guard 53");
  E p2 "ParseSignatureProof" KIndex "g1Points[0]" 1 (FreshLength "g1Points := make(.., 3)");
  E p2 "ParseSignatureProof" KIndex "g1Points[1]" 1 (FreshLength "g1Points := make(.., 3)");
  E p2 "ParseSignatureProof" KIndex "g1Points[2]" 1 (FreshLength "g1Points := make(.., 3)");
  E p2 "ParseProofG1" KSlice "bytes[:g1CompressedSize]" 1 (Modelled 52 "parse_proof_g1: check 52 (len >= 52)");
  E p2 "ParseProofG1" KSlice "bytes[offset : offset+4]" 1 (Modelled 52 "parse_proof_g1: check 52");
  E p2 "ParseProofG1" KIndex "responses[i]" 2 (FreshLength "responses := make(.., length), i < length (assigned, then read back for the canonical-scalar test of 6fcc1d0)");
  E p2 "ParseProofG1" KSlice "bytes[offset : offset+frCompressedSize]" 2 (Modelled 52 "parse_proof_g1 / read_responses: check 52 (len >= 52 + n*32); the same range is sliced a second time for the canonical-scalar test of 6fcc1d0");
  E p3 "(*JWEDecrypt).Decrypt" KIndex "recWK[0]" 1 (Guarded "if len(recWK) == 1");
  E p4 "(*JSONWebEncryption).prepareRecipients" KIndex "e.Recipients[0]" 3 (Guarded "switch len(e.Recipients) case 1; serialisation side");
  E p4 "(*JSONWebEncryption).prepareRecipients" KIndex "recipientsToMarshal[i]" 2 (FreshLength "make(.., len(e.Recipients)), i ranges over e.Recipients");
  E p4 "(*JSONWebEncryption).CompactSerialize" KIndex "e.Recipients[0]" 2 (OwnData "serialisation side: len(e.Recipients) != 1 is rejected first");
  E p4 "deserializeCompact" KIndex "parts[0]" 1 (Guarded "len(parts) != 5 is rejected first");
  E p4 "deserializeCompact" KIndex "parts[1]" 1 (Guarded "len(parts) != 5 is rejected first");
  E p4 "deserializeCompact" KIndex "parts[2]" 1 (Guarded "len(parts) != 5 is rejected first");
  E p4 "deserializeCompact" KIndex "parts[3]" 1 (Guarded "len(parts) != 5 is rejected first");
  E p4 "deserializeCompact" KIndex "parts[4]" 1 (Guarded "len(parts) != 5 is rejected first");
  E p5 "(*JWK).PublicKeyBytes" KAssert "j.Key.(*ecdsa.PrivateKey)" 1 (Guarded "isSecp256k1: UnmarshalJSON routes on the same predicate to unmarshalSecp256k1, which yields *ecdsa.PublicKey or *ecdsa.PrivateKey only");
  E p6 "parseCompacted" KIndex "parts[jwsPayloadPart]" 1 (Modelled 41 "E4: check 41 (three parts)");
  E p6 "parseCompacted" KIndex "parts[jwsHeaderPart]" 1 (Modelled 41 "E4: check 41");
  E p6 "parseCompacted" KIndex "parts[jwsSignaturePart]" 1 (Modelled 41 "E4: check 41");
  E p6 "parseCompactedHeaders" KIndex "parts[jwsHeaderPart]" 1 (Modelled 41 "E4: check 41 (called from parseCompacted behind it)");
  E p7 "KeyFingerprint" KSlice "buf[mcLength:]" 1 (FreshLength "buf := make(.., mcLength+len(pubKeyValue)); encoder side");
  E p7 "multicodec" KSlice "buf[:bw]" 1 (FreshLength "PutUvarint writes at most MaxVarintLen64 = len(buf) bytes; encoder side");
  E p7 "PubKeyFromFingerprint" KIndex "fingerprint[0]" 1 (Modelled 61 "pubkey_from_fingerprint: check 61 (len >= 2 is tested in the same condition)");
  E p7 "PubKeyFromFingerprint" KSlice "fingerprint[1:]" 1 (Modelled 61 "pubkey_from_fingerprint: check 61");
  E p7 "PubKeyFromFingerprint" KSlice "mc[br+g1CompressedSize:]" 1 (Modelled 65 "pubkey_from_fingerprint: guard 66 (exact length) with uvarint_reads_within");
  E p7 "PubKeyFromFingerprint" KSlice "mc[br:]" 1 (Modelled 63 "pubkey_from_fingerprint: guard 61 (br > 0) with uvarint_reads_within");
  E p8 "Parse" KIndex "parts[1]" 1 (Guarded "the regular expression ^did:[a-z0-9]+:... matched: two colons are present");
  E p8 "Parse" KIndex "parts[2]" 1 (Guarded "the regular expression matched: two colons are present");
  E p8 "ParseDIDURL" KSlice "didURL[:split]" 1 (Guarded "split = IndexAny(..) != -1");
  E p8 "ParseDIDURL" KSlice "didURL[split:]" 1 (Guarded "split = IndexAny(..) != -1");
  E p8 "ParseDIDURL" KIndex "pathQueryFragment[0]" 1 (Guarded "pathQueryFragment == """" returned above");
  E p8 "ParseDocument" KIndex "raw.Service[0]" 1 (Guarded "if len(raw.Service) > 0");
  E p8 "populateServices" KIndex "entries[0]" 1 (Guarded "ok && len(entries) > 0");
  E p8 "getVerification" KIndex "pk[0]" 1 (Guarded "populateVerificationMethod returns one method per map handed in (one here) or an error");
  E p8 "resolveRelativeDIDURL" KAssert "keyID.(string)" 1 (Guarded "getVerification rejects a non-string key id before the call (fix 13cbcc6); the other caller passes a string");
  E p8 "populateVerificationMethod" KIndex "strings.Split(id, ""#"")[0]" 1 SplitHead;
  E p8 "(*Doc).VerificationMethods" KIndex "generalVerificationMethods[i]" 1 (FreshLength "make(.., len(doc.VerificationMethod)), i ranges over it");
  E p8 "populateRawServices" KIndex "serviceEndpointMap[0]" 2 (FreshLength "one-element literal; encoder side");
  E p8 "populateRawAlsoKnownAs" KIndex "rawAka[i]" 1 (FreshLength "make(.., len(aka)), i ranges over aka");
  E p9 "IsJWS" KIndex "parts[0]" 1 (Guarded "len(parts) == 3 && ... (short circuit)");
  E p9 "IsJWS" KIndex "parts[1]" 1 (Guarded "len(parts) == 3 && ... (short circuit)");
  E p9 "IsJWS" KIndex "parts[2]" 1 (Guarded "len(parts) == 3 && ... (short circuit)");
  E p9 "IsJWTUnsecured" KIndex "parts[0]" 1 (Guarded "len(parts) == 3 && ... (short circuit)");
  E p9 "IsJWTUnsecured" KIndex "parts[1]" 1 (Guarded "len(parts) == 3 && ... (short circuit)");
  E p9 "IsJWTUnsecured" KIndex "parts[2]" 1 (Guarded "len(parts) == 3 && ... (short circuit)");
  E p9 "checkTypHeader" KIndex "chunks[1]" 1 (Modelled 110 "check_typ: behind len(chunks) > 1");
  E p9 "PayloadToMap" KAssert "i.(map[string]interface{})" 1 (OwnData "a value of map kind reaches it from the local application only (claims of a token to be signed); Parse hands it the payload bytes");
  E p10 "NewVerifier" KIndex "algVerifiers[0]" 1 (OwnData "constructor: the list is filled from the constant list of supported algorithms");
  E p10 "NewVerifier" KSlice "algVerifiers[1:]" 1 (OwnData "constructor: same list");
  E p10 "verifySignature" KIndex "kidParts[0]" 1 (Modelled 4 "E4: guard 45 (len(kidParts) >= 2)");
  E p10 "verifySignature" KIndex "kidParts[1]" 1 (Modelled 4 "E4: guard 45");
  E p11 "getMatchedCreds" KIndex "rawVPs[vpIdx]" 1 (FreshLength "make(.., len(vpList)), vpIdx ranges over vpList");
  E p11 "rootIndex" KSlice "jsonPathStr[2:]" 1 (Guarded "HasPrefix(jsonPathStr, ""$["")");
  E p11 "rootIndex" KIndex "split[0]" 2 (Guarded "len(split) == 0 || ... (short circuit); SplitN never returns an empty slice for n = 2");
  E p12 "ParseCombinedFormatForIssuance" KSlice "parts[1:]" 1 (Guarded "if len(parts) > 1");
  E p12 "ParseCombinedFormatForIssuance" KIndex "parts[0]" 1 SplitHead;
  E p12 "ParseCombinedFormatForPresentation" KSlice "parts[1 : len(parts)-1]" 1 (Guarded "if len(parts) > 2");
  E p12 "ParseCombinedFormatForPresentation" KIndex "parts[len(parts)-1]" 1 (Guarded "if len(parts) > 1");
  E p12 "ParseCombinedFormatForPresentation" KIndex "parts[0]" 1 SplitHead;
  E p12 "stringArray" KIndex "stringSlice[i]" 1 (FreshLength "make(.., sliceValue.Len()), i < sliceValue.Len()");
  E p13 "getDisclosureClaim" KIndex "disclosureArr[saltPosition]" 1 (Modelled 7 "E7_disclosure: check 71 (len >= 2)");
  E p13 "getDisclosureClaim" KIndex "disclosureArr[1]" 1 (Modelled 7 "E7_disclosure: check 71");
  E p13 "enrichWithArrayElement" KIndex "disclosureElementsArr[arrayDigestValuePosition]" 1 (Modelled 7 "E7_disclosure: length 2 branch");
  E p13 "enrichWithSDElement" KIndex "disclosureElementsArr[sdDigestNamePosition]" 1 (Modelled 7 "E7_disclosure: length 3 branch");
  E p13 "enrichWithSDElement" KIndex "disclosureElementsArr[1]" 1 (Modelled 7 "E7_disclosure: length 3 branch");
  E p13 "enrichWithSDElement" KIndex "disclosureElementsArr[sdDigestValuePosition]" 2 (Modelled 7 "E7_disclosure: length 3 branch");
  E p14 "stringSlice" KIndex "s[i]" 1 (FreshLength "make(.., len(values)), i ranges over values");
  E p14 "decodeContext" KSlice "rContext[i:]" 1 (Guarded "i ranges over rContext");
  E p14 "proofsToRaw" KIndex "proofs[0]" 1 (Guarded "switch len(proofs) case 1");
  E p15 "(*ExpirableSchemaCache).Put" KSlice "ve[:numBytesTime]" 1 (FreshLength "ve := make(.., numBytesTime+len(v))");
  E p15 "(*ExpirableSchemaCache).Put" KSlice "ve[numBytesTime:]" 1 (FreshLength "ve := make(.., numBytesTime+len(v))");
  E p15 "(*ExpirableSchemaCache).Get" KSlice "b[:numBytesTime]" 1 (OwnData "cache entries are written by Put only (8 byte prefix)");
  E p15 "(*ExpirableSchemaCache).Get" KSlice "b[numBytesTime:]" 1 (OwnData "cache entries are written by Put only");
  E p15 "decodeCredentialSchemas" KIndex "tids[i]" 1 (FreshLength "make(.., len(schema)), i ranges over schema");
  E p15 "(*Credential).validateBaseContext" KIndex "vc.Types[0]" 1 (Modelled 100 "E10 base_only: guard 103 (len(vc.Types) != 1), fix d5507c3");
  E p15 "(*Credential).validateBaseContext" KIndex "vc.Context[0]" 1 (Modelled 100 "E10 base_only: guard 104 (len(vc.Context) != 1), fix d5507c3");
  E p15 "newCredential" KIndex "sub[0]" 2 (Guarded "len(sub) > 0 && ...");
  E p15 "unQuote" KIndex "s[0]" 1 (Guarded "len(s) <= 1 returned above");
  E p15 "unQuote" KIndex "s[len(s)-1]" 1 (Guarded "len(s) <= 1 returned above");
  E p15 "unQuote" KSlice "s[1 : len(s)-1]" 1 (Guarded "len(s) >= 2");
  E p15 "isJWTVC" KIndex "sdTokens[len(sdTokens)-1]" 1 (SplitNonEmpty "strings.Split never returns an empty slice: the last element exists");
  E p15 "subjectToBytes" KIndex "s[0]" 2 (Guarded "if len(s) == 1");
  E p15 "subjectStructToRaw" KIndex "subjects[i]" 1 (FreshLength "make(.., sValue.Len()), i < sValue.Len()");
  E p15 "SubjectID" KIndex "subject[0]" 2 (Guarded "len(subject) == 0 and len(subject) > 1 returned above");
  E p15 "typesToRaw" KIndex "types[0]" 1 (Guarded "if len(types) == 1");
  E p15 "contextToRaw" KIndex "sContext[i]" 1 (FreshLength "make(.., len(context), ..), i ranges over context");
  E p15 "typedIDsToRaw" KIndex "typedIDs[0]" 1 (Guarded "switch len(typedIDs) case 1");
  E p16 "checkEmbeddedProof" KIndex "proofs[0]" 1 (Guarded "if len(proofs) > 0");
  E p16 "getProofs" KIndex "proofs[i]" 1 (FreshLength "make(.., len(p)), i ranges over p");
  E p17 "(*Presentation).MarshalledCredentials" KIndex "mCreds[i]" 3 (FreshLength "make(.., len(vp.credentials)), i ranges over vp.credentials");
  E p17 "decodeCredentials" KIndex "creds[i]" 1 (FreshLength "make(.., len(cred)), i ranges over cred");
  E p18 "pubKeyToDID" KSlice "toKey.KID[:strings.Index(toKey.KID, kaIdentifier)]" 1 (Guarded "getDIDGivenKey calls it only when the key, marshalled by the unpacking packer, contains # and ""kid"":""did: ; kid is its only free-text member (curve and type are fixed words, x / y base64)");
  E p19 "getEncodingType" KSlice "encMessage[1 : len(encMessage)-1]" 1 (Modelled 20 "E2: guard (len >= 2)");
  E p19 "getEncodingType" KIndex "strings.Split(string(encodedEnvelope), ""."")[0]" 1 SplitHead;
  E p19 "getEncodingType" KIndex "strings.Split(string(encMessage), ""."")[0]" 1 SplitHead;
  E p19 "(*Packager).resolveKeyAgreementFromDIDDoc" KSlice "keyAgrID[:i]" 1 (Guarded "both callers test strings.Index(id, ""#"") > 0; pack side");
  E p19 "(*Packager).resolveKeyAgreementFromDIDDoc" KSlice "keyAgrID[i+1:]" 1 (Guarded "both callers test strings.Index(id, ""#"") > 0");
  E p19 "(*Packager).resolveKeyAgreementFromDIDDoc" KSlice "ka.VerificationMethod.ID[strings.Index(ka.VerificationMethod.ID, ""#"")+1:]" 1 (Guarded "Index >= -1, so the low bound is within 0..len");
  E p19 "(*Packager).resolveKeyAgreementFromDIDDoc" KSlice "vm.ID[strings.Index(vm.ID, ""#"")+1:]" 1 (Guarded "Index >= -1, so the low bound is within 0..len");
  E p20 "(*Packer).pubKey" KIndex "jwe.Recipients[i]" 3 (Modelled 8 "pubkey_guard: i ranges over jwe.Recipients in Unpack; guard 8 (nil entry / nil header)");
  E p20 "(*Packer).pubKey" KIndex "p.kidResolvers[0]" 1 (OwnData "New installs two resolvers (local configuration)");
  E p20 "(*Packer).pubKey" KIndex "p.kidResolvers[1]" 1 (OwnData "New installs two resolvers (local configuration)");
  E p21 "(*Packer).Pack" KSlice "senderKID[:idx]" 1 (Guarded "idx = Index(..) > 0; pack side");
  E p21 "(*Packer).Pack" KSlice "skid[idx+1:]" 1 (Guarded "idx = Index(..) > 0; pack side");
  E p21 "(*Packer).pubKey" KIndex "jwe.Recipients[i]" 3 (Modelled 8 "pubkey_guard: i ranges over jwe.Recipients in Unpack; guard 8 (nil entry / nil header)");
  E p21 "(*Packer).pubKey" KIndex "p.kidResolvers[0]" 1 (OwnData "New installs two resolvers (local configuration)");
  E p21 "(*Packer).pubKey" KIndex "p.kidResolvers[1]" 1 (OwnData "New installs two resolvers (local configuration)");
  E p22 "getCEK" KIndex "recipients[recKeyIdx]" 1 (Guarded "findVerKey returns an index into candidateKeys, which has one entry per recipient (E3 find_ver_key)");
  E p23 "getCEK" KIndex "recipients[recKeyIdx]" 1 (Guarded "findVerKey returns an index into candidateKeys, which has one entry per recipient (E3 find_ver_key)");
  E p24 "(*context).handleInboundRequest" KIndex "requestDidDoc.Service[0]" 1 (Guarded "if len(requestDidDoc.Service) > 0");
  E p24 "(*context).resolvePublicKey" KIndex "strings.Split(kid, ""#"")[0]" 1 SplitHead;
  E p24 "(*context).getMyDIDDoc" KIndex "newDID.Service[0]" 4 (OwnData "newService: the service entry was appended by this function");
  E p24 "(*context).getMyDIDDoc" KIndex "newDID.VerificationMethod[0]" 1 (OwnData "own, freshly created DID document");
  E p24 "(*context).getInvitationRecipientKey" KIndex "invitation.RecipientKeys[0]" 1 (Modelled 94 "E9_invitation_key: guard 94");
  E p24 "extractDIDCommV2EndpointIntoService" KIndex "svcEndpointArr[0]" 1 (Guarded "ok && len(svcEndpointArr) > 0");
  E p24 "extractDIDCommV2EndpointIntoService" KAssert "a.(string)" 1 (OwnData "reached with the service block of an invitation of the internal type oob-invitation only, which the out-of-band service builds itself and peers cannot send (driven by the fence: not accepted from peers)");
  E p24 "extractDIDCommV2EndpointIntoService" KAssert "r.(string)" 1 (OwnData "same as accept");
  E p24 "(*context).resolveVerKey" KIndex "svc.RecipientKeys[0]" 2 (Guarded "len(svc.RecipientKeys) == 0 returned above");
  E p24 "recipientKey" KIndex "dest.RecipientKeys[0]" 1 (Guarded "len(dest.RecipientKeys) == 0 returned above");
  E p24 "recipientKeyAsDIDKey" KIndex "doc.Service[0]" 1 (OwnData "called with this agents own DID document (created with a service, or its public DID)");
  E p24 "recipientKeyAsDIDKey" KIndex "doc.KeyAgreement[0]" 4 (OwnData "own DID document with a DIDCommMessaging service: createNewKeyAndVM adds the key agreement");
  E p25 "threadID" KAssert "msg[""@id""].(string)" 1 (FreshLength "assigned a string on the line above");
  E p25 "(*Service).HandleInbound" KAssert "msg.(service.DIDCommMsgMap)" 1 (OwnData "the dispatcher hands every service the DIDCommMsgMap it parsed");
  E p25 "isSkipProposal" KAssert "md.Msg.Metadata()[metaSkipProposal].(bool)" 1 (OwnData "metadata is written by this service (bool) and never taken from the message");
  E p25 "(*Service).getParticipants" KIndex "participants[i]" 1 (Guarded "sort.Slice comparator: indexes are within the slice");
  E p25 "(*Service).getParticipants" KIndex "participants[j]" 1 (Guarded "sort.Slice comparator");
  E p26 "(*Service).Use" KIndex "items[i]" 1 (Guarded "i := len(items)-1; i >= 0");
  E p26 "(*Service).AddMiddleware" KIndex "mw[i]" 1 (Guarded "i := len(mw)-1; i >= 0");
  E p27 "(*context).handleInboundRequest" KIndex "requestDidDoc.Service[0]" 1 (Guarded "if len(requestDidDoc.Service) > 0");
  E p27 "(*context).handleInboundRequest" KIndex "connRec.InvitationRecipientKeys[0]" 1 (Guarded "if len(..) > 0");
  E p27 "(*context).handleInboundRequest" KIndex "responseDidDoc.Service[0]" 1 (Guarded "if len(responseDidDoc.Service) > 0");
  E p27 "(*context).getMyDIDDoc" KIndex "newDID.Service[0]" 3 (OwnData "newService: the service entry was appended by this function");
  E p27 "(*context).getMyDIDDoc" KIndex "newDID.VerificationMethod[0]" 1 (OwnData "own, freshly created DID document");
  E p27 "(*context).resolveDidDocFromConnection" KIndex "con.DIDDoc.Service[0]" 2 (Guarded "len(con.DIDDoc.Service) > 0");
  E p27 "(*context).resolveDidDocFromConnection" KIndex "didkeyutil.ConvertBase58KeysToDIDKeys(con.DIDDoc.Service[0].RecipientKeys)[0]" 1 (Guarded "len(RecipientKeys) > 0 and the conversion keeps one entry per key (E9_convert_keys)");
  E p27 "(*context).handleInboundResponse" KIndex "connRecord.RecipientKeys[0]" 1 (Modelled 95 "E9_legacy_response: guard 95");
  E p27 "(*context).verifySignature" KSlice "sigData[timestampLength:]" 1 (Modelled 99 "E9_legacy_response: check 99 (len > 8)");
  E p27 "(*context).getInvitationRecipientKey" KIndex "invitation.RecipientKeys[0]" 1 (Modelled 94 "E9_invitation_key: guard 94");
  E p27 "recipientKey" KIndex "doc.Service[0]" 2 (Guarded "len(doc.Service) == 0 returned above");
  E p27 "recipientKey" KIndex "dest.RecipientKeys[0]" 1 (Guarded "len(dest.RecipientKeys) == 0 returned above");
  E p28 "(*Service).handleBatchPickup" KSlice "msgs[end:]" 1 (Modelled 9 "E8_batch: end clamped to 0..len(msgs)");
  E p28 "(*Service).handleBatchPickup" KSlice "msgs[0:end]" 1 (Modelled 9 "E8_batch");
  E p29 "chooseAttachment" KIndex "state.Invitation.Requests[0]" 1 (Guarded "len(state.Invitation.Requests) > 0");
  E p30 "(*Service).AcceptInvitation" KIndex "newDID.KeyAgreement[0]" 1 (OwnData "own DID document: createNewKeyAndVM succeeded and added the key agreement");
  E p31 "(*Service).Use" KIndex "items[i]" 1 (Guarded "i := len(items)-1; i >= 0");
  E p32 "UnpackMessage" KSlice "msg[1 : len(msg)-1]" 1 (Modelled 21 "E2_transport: guard (len >= 2)");
  E p33 "didCommV2PeerDoc" KIndex "stateQueries[0]" 1 (Guarded "len(stateQueries) == 0 returned above");
  E p34 "ConvertBase58KeysToDIDKeys" KIndex "key[0]" 1 (Guarded "key == """" continues the loop above")
].

Definition kind_eqb (a b : skind) : bool :=
  match a, b with
  | KAssert, KAssert | KIndex, KIndex | KSlice, KSlice | KPanic, KPanic => true
  | _, _ => false
  end.

Definition matches (e : entry) (s : site) : bool :=
  String.eqb (e_file e) (s_file s) && String.eqb (e_func e) (s_func s) && kind_eqb (e_kind e) (s_kind s) &&
  String.eqb (e_expr e) (s_expr s) && Nat.eqb (e_count e) (s_count s).

Definition covered (s : site) : bool := existsb (fun e => matches e s) reviewed.
Definition live (e : entry) : bool := existsb (matches e) sites.
Definition is_panic_call (s : site) : bool := kind_eqb (s_kind s) KPanic.

(* the dangerous operations of Model.v (the numbers GPanic carries) *)
Definition model_sites : list N :=
  [2; 3; 4; 5; 6; 7; 8; 9; 10; 17; 19; 20; 21; 23; 29; 31; 34; 41; 51; 52; 53; 54; 58; 61; 62; 63; 65; 88; 89; 90; 91; 92;
   94; 95; 96; 98; 99; 100; 110]%N.
Definition names_model_site (e : entry) : bool :=
  match e_why e with Modelled n _ => existsb (N.eqb n) model_sites | _ => true end.
Definition modelled (e : entry) : bool := match e_why e with Modelled _ _ => true | _ => false end.

Lemma all_reviewed : forallb covered sites = true.
Proof. vm_compute. reflexivity. Qed.
Lemma none_stale : forallb live reviewed = true.
Proof. vm_compute. reflexivity. Qed.
Lemma no_panic_call : existsb is_panic_call sites = false.
Proof. vm_compute. reflexivity. Qed.
Lemma modelled_named : forallb names_model_site reviewed = true.
Proof. vm_compute. reflexivity. Qed.
Lemma every_file_listed : forallb (fun s => existsb (String.eqb (s_file s)) files) sites = true.
Proof. vm_compute. reflexivity. Qed.
