(* C03 — no untrusted input can crash or hang an agent.

   Executable model of the SHAPE-GUARD LAYER of the entry points E1..E9: the code that stands between decoded
   data of another party and its use.  The dangerous Go operations are modelled by what they do:
     go_slice b lo hi   b[lo:hi]            panics unless 0 <= lo <= hi <= len b
     deref o            *o / o.field        panics when o is nil (None)
     assert_str j       j.(string)          panics when the JSON value is not a string
   and a guard is an ordinary test placed (or not) in front of them.  [variant]: AsIs = the code as it was found
   (guards missing: the refuted theorems), Fixed = the repaired /repo (guards present).  Nothing in a Fixed
   function says "do not panic": that the guards suffice is what Proofs.v proves.

   Library steps (base64 / encoding/json / curve point parsing / AEAD opening / KMS lookups) are not modelled:
   where one of them decides, its verdict is an input of the model and the theorems hold for every value of it.

   Outcome of a guard layer:
     GPass        every guard let the input through (what follows is library/crypto code: value or error)
     GRej s       guard number s rejects the input with an error (s = 0: a library step rejects it)
     GPanic site  the Go code panics at that site
     GDiverge     never produced by these total functions; kept so that [to_res] covers [res] completely. *)
From Coq Require Import List NArith ZArith String Ascii Bool.
Import ListNotations.
From VF Require Import common.Json common.Res.
Local Open Scope N_scope.

Inductive variant := AsIs | Fixed.

Inductive gout := GPass | GRej (stage : N) | GPanic (site : N) | GDiverge.

Definition to_res (g : gout) : res unit :=
  match g with GPass => Ok tt | GRej _ => Err EInvalid | GPanic s => Panic s | GDiverge => Diverge end.

Definition g_is_panic (g : gout) : bool := match g with GPanic _ => true | _ => false end.

(* sequencing: the first step that does not pass decides *)
(* (the continuation is a thunk so that evaluation inside Coq is as lazy as the Go code is) *)
Definition andthen (a : gout) (b : unit -> gout) : gout := match a with GPass => b tt | _ => a end.
Notation "a >>> b" := (andthen a (fun _ : unit => b)) (at level 61, right associativity).

(* a test that exists in the repaired code only *)
Definition guard (v : variant) (bad : bool) (stage : N) : gout :=
  match v with Fixed => if bad then GRej stage else GPass | AsIs => GPass end.
(* a test that exists in both *)
Definition check (bad : bool) (stage : N) : gout := if bad then GRej stage else GPass.
(* a library step with verdict ok *)
Definition lib (ok : bool) : gout := if ok then GPass else GRej 0.

(* the dangerous operations *)
Definition go_slice (b : list N) (lo hi : Z) : option (list N) :=
  if ((0 <=? lo) && (lo <=? hi) && (hi <=? Z.of_nat (List.length b)))%Z
  then Some (firstn (Z.to_nat (hi - lo)) (skipn (Z.to_nat lo) b)) else None.
Definition sliced (b : list N) (lo hi : Z) (site : N) (k : list N -> gout) : gout :=
  match go_slice b lo hi with Some x => k x | None => GPanic site end.
Definition deref {A} (o : option A) (site : N) (k : A -> gout) : gout :=
  match o with Some a => k a | None => GPanic site end.
Definition assert_str (j : json) (site : N) (k : string -> gout) : gout :=
  match j with JStr s => k s | _ => GPanic site end.

Definition zlen (b : list N) : Z := Z.of_nat (List.length b).
Definition is_none {A} (o : option A) : bool := match o with None => true | Some _ => false end.

(* ---------- strings ---------- *)
Definition up (a : ascii) : ascii :=
  let n := N_of_ascii a in if (97 <=? n) && (n <=? 122) then ascii_of_N (n - 32) else a.
Fixpoint upper (s : string) : string :=
  match s with EmptyString => EmptyString | String a r => String (up a) (upper r) end.
Fixpoint has_prefix (p s : string) : bool :=
  match p, s with
  | EmptyString, _ => true
  | String a p', String b s' => Ascii.eqb a b && has_prefix p' s'
  | _, _ => false
  end.
Fixpoint contains (p s : string) : bool :=
  has_prefix p s || match s with EmptyString => false | String _ r => contains p r end.
Definition jstr (o : option json) : option string := match o with Some (JStr s) => Some s | _ => None end.
(* strings.Split(s, sep) for a one character separator *)
Fixpoint split_on (c : ascii) (s : string) (cur : string) : list string :=
  match s with
  | EmptyString => [cur]
  | String a r => if Ascii.eqb a c then cur :: split_on c r EmptyString
                  else split_on c r (cur ++ String a EmptyString)
  end.

(* ================= E2  packager.getEncodingType (first function every inbound transport message reaches) *)
Definition QUOTE := 34. Definition LBRACE := 123.

Definition E2 (v : variant) (b : list N) : gout :=
  match b with
  | [] => GPass                                  (* compact branch: strings.Split of "" *)
  | c :: _ =>
      if c =? LBRACE then GPass                  (* full serialisation: json.Unmarshal decides *)
      else if (c =? QUOTE) && (List.last b 0 =? QUOTE) then
        (* bytes.HasPrefix && bytes.HasSuffix; the repaired code also asks for len >= 2 and otherwise
           takes the compact branch *)
        match guard v (zlen b <? 2)%Z 0 with
        | GPass => sliced b 1 (zlen b - 1) 20 (fun _ => GPass)     (* encMessage[1 : len-1] *)
        | _ => GPass
        end
      else GPass
  end.

(* transport/internal.UnpackMessage (websocket and http inbound handlers, outbound websocket pool listener): the
   same quoted-base64 detection one layer below the packager, on the raw frame *)
Definition E2_transport (v : variant) (frame : list N) : gout :=
  match frame with
  | [] => GPass
  | c :: _ =>
      if (c =? QUOTE) && (List.last frame 0 =? QUOTE) then
        match guard v (zlen frame <? 2)%Z 0 with
        | GPass => sliced frame 1 (zlen frame - 1) 21 (fun _ => GPass)    (* msg[1 : len(msg)-1] *)
        | _ => GPass
        end
      else GPass
  end.

(* ================= E1  jose.Deserialize + JWEDecrypt.Decrypt header handling + packer pubKey *)
(* an entry of "recipients" as []*Recipient holds it: nil pointer, or a struct whose Header pointer may be nil *)
Record rcp := { r_ek_ok : bool;                  (* encrypted_key is base64url (library) *)
                r_hdr : option string }.         (* Header (its kid) *)

Record e1_in := {
  e1_pre_ok : bool;                              (* outer JSON + protected/unprotected header decoding succeeded *)
  e1_prot : list (string * json);                (* decoded protected headers (empty when absent / null) *)
  e1_rcpts : list (option rcp);
  e1_post_ok : bool                              (* aad / iv / ciphertext / tag are base64url *)
}.

Fixpoint deser_rcpts (v : variant) (l : list (option rcp)) : gout :=
  match l with
  | [] => GPass
  | o :: rest =>
      guard v (is_none o) 2 >>>
      deref o 2 (fun r => lib (r_ek_ok r)) >>>   (* recipient.EncryptedKey *)
      deser_rcpts v rest
  end.

Definition deserialize (v : variant) (i : e1_in) : gout :=
  lib (e1_pre_ok i) >>> deser_rcpts v (e1_rcpts i) >>> lib (e1_post_ok i).

Definition enc_supported (s : string) : bool :=
  existsb (String.eqb s)
    ["A256GCM"; "XC20P"; "A128CBC-HS256"; "A192CBC-HS384"; "A256CBC-HS384"; "A256CBC-HS512"]%string.

Definition is_1pu (prot : list (string * json)) : bool :=
  match jstr (lookup prot "alg") with Some a => contains "1PU" (upper a) | None => false end.

Definition is_obj (o : option json) : bool := match o with Some (JObj _) => true | _ => false end.

(* fetchSKIDFromAPU: only consulted when there is no string "skid" and more than one recipient *)
Definition skid_guard (v : variant) (prot : list (string * json)) (n : nat) : gout :=
  match jstr (lookup prot "skid") with
  | Some _ => GPass
  | None =>
      if (1 <? n)%nat then
        match lookup prot "apu" with
        | None => GPass
        | Some a =>
            (* the repaired code uses the checked form of a.(string) and gives up the sender key id otherwise *)
            match v with
            | Fixed => GPass
            | AsIs => assert_str a 3 (fun _ => GPass)
            end
        end
      else GPass
  end.

(* buildRecipientsWrappedKey; [None] stands for a nil *RecipientHeaders *)
Fixpoint build_rwk (v : variant) (prot : list (string * json)) (n : nat) (l : list (option rcp)) : gout :=
  match l with
  | [] => GPass
  | o :: rest =>
      guard v (is_none o) 6 >>>
      deref o 6 (fun r =>
        let use_prot := (n =? 1)%nat || is_1pu prot in
        (* headers := recJWE.Header, replaced by the protected headers for one recipient or 1PU *)
        (if use_prot then check (negb (is_obj (lookup prot "epk"))) 7 else GPass) >>>
        let headers : option string := if use_prot then Some ""%string else r_hdr r in
        guard v (is_none headers) 6 >>>
        (if is_1pu prot && (1 <? n)%nat
         then guard v (is_none (r_hdr r)) 6 >>>
              deref (r_hdr r) 6 (fun _ => GPass)          (* headers.KID = recJWE.Header.KID *)
         else GPass) >>>
        deref headers 6 (fun _ => GPass))                 (* createRecWK(headers, ...): headers.EPK *)
      >>> build_rwk v prot n rest
  end.

Definition decrypt (v : variant) (prot : list (string * json)) (l : list (option rcp)) : gout :=
  check (match prot with [] => true | _ => false end) 3 >>>
  (match jstr (lookup prot "enc") with
   | None => GRej 4
   | Some e => check (negb (enc_supported e)) 5
   end) >>>
  skid_guard v prot (List.length l) >>>
  build_rwk v prot (List.length l) l.

Definition E1 (v : variant) (i : e1_in) : gout :=
  deserialize v i >>> decrypt v (e1_prot i) (e1_rcpts i).

(* authcrypt / anoncrypt Packer.pubKey: kid of recipient i *)
Definition pubkey_guard (v : variant) (prot : list (string * json)) (l : list (option rcp)) (i : nat) : gout :=
  if ((i =? 0)%nat && (List.length l =? 1)%nat) then
    match jstr (lookup prot "kid") with Some _ => GPass | None => GRej 9 end
  else match nth_error l i with
       | None => GPass                            (* the loop never asks beyond the list *)
       | Some o =>
           guard v (match o with Some r => is_none (r_hdr r) | None => true end) 8 >>>
           deref o 8 (fun r => deref (r_hdr r) 8 (fun _ => GPass))   (* jwe.Recipients[i].Header.KID *)
       end.

(* ================= E3  legacy authcrypt / anoncrypt Unpack *)
Record e3_in := {
  e3_lib_ok : bool;            (* envelope JSON, protected base64 + JSON decode *)
  e3_typ_ok : bool;            (* typ = "JWM/1.0" *)
  e3_alg_ok : bool;            (* alg = "Authcrypt" / "Anoncrypt" as the packer expects *)
  e3_kids : list (bool * bool);(* per recipient: (kid is ASCII, kid names a key of this agent's KMS) *)
  e3_cek_ok : bool;            (* sender / content key could be opened (crypto) *)
  e3_sender_ascii : bool;      (* authcrypt: the decrypted sender key text is ASCII *)
  e3_fields_ok : bool;         (* ciphertext / iv / tag are base64 *)
  e3_iv_len : N                (* number of bytes of the decoded outer iv *)
}.

(* base58.Decode indexes a 256-entry table with the runes of its input *)
Definition b58_decode (ascii : bool) (site : N) : gout := if ascii then GPass else GPanic site.
(* chacha20poly1305.Open panics on a nonce that is not 12 bytes long *)
Definition aead_open (nonce_len : N) (site : N) : gout := if nonce_len =? 12 then GPass else GPanic site.

Fixpoint find_ver_key (v : variant) (l : list (bool * bool)) : gout :=
  match l with
  | [] => GRej 0                                  (* none of the recipient keys were found in kms *)
  | (ascii, owned) :: r =>
      guard v (negb ascii) 31 >>>
      b58_decode ascii 31 >>> (if owned then GPass else find_ver_key v r)
  end.

Definition E3 (v : variant) (i : e3_in) : gout :=
  lib (e3_lib_ok i) >>>
  check (negb (e3_typ_ok i)) 32 >>>
  check (negb (e3_alg_ok i)) 33 >>>
  find_ver_key v (e3_kids i) >>>
  guard v (negb (e3_sender_ascii i)) 34 >>> b58_decode (e3_sender_ascii i) 34 >>>
  lib (e3_cek_ok i) >>>
  lib (e3_fields_ok i) >>>
  guard v (negb (e3_iv_len i =? 12)) 17 >>> aead_open (e3_iv_len i) 17.

(* ================= E4  jose.ParseJWS / jwt verifier header handling *)
Record e4_in := {
  e4_parts : nat;                   (* number of dot separated parts *)
  e4_hdr : option (list (string * json));   (* decoded JOSE header; None: base64 / JSON failure or not an object *)
  e4_alg_known : bool               (* the composite verifier has a verifier for "alg" *)
}.

Definition E4 (v : variant) (i : e4_in) : gout :=
  check (negb (e4_parts i =? 3)%nat) 41 >>>
  match e4_hdr i with
  | None => GRej 0
  | Some h =>
      check (match lookup h "alg" with None => true | Some _ => false end) 42 >>>
      check (match lookup h "b64" with None => false | Some (JBool _) => false | Some _ => true end) 43 >>>
      lib (e4_alg_known i) >>>
      (let kid := match jstr (lookup h "kid") with Some k => k | None => ""%string end in
       check (negb (has_prefix "did:" kid)) 44 >>>
       let parts := split_on "#"%char kid EmptyString in
       guard v (List.length parts <? 2)%nat 45 >>>
       deref (nth_error parts 1) 4 (fun _ => GPass))        (* kidParts[1] *)
  end.

(* ================= E5  BBS+ byte parsers (a pure length-field codec: modelled exactly) *)
Definition G1 := 48%Z. Definition FR := 32%Z. Definition SIGLEN := 112%Z.

Definition be (l : list N) : Z := Z.of_N (fold_left (fun acc x => acc * 256 + x) l 0).

(* point parsing is a library step: its verdict is an argument *)
Definition parse_signature (pt_ok : bool) (b : list N) : gout :=
  check (negb (zlen b =? SIGLEN)%Z) 51 >>>
  sliced b 0 G1 51 (fun _ => lib pt_ok) >>>
  sliced b G1 (G1 + FR) 51 (fun _ => GPass) >>> sliced b (G1 + FR) (zlen b) 51 (fun _ => GPass).

(* the n-th 32-byte response *)
Fixpoint read_responses (b : list N) (off : Z) (n : nat) : gout :=
  match n with
  | O => GPass
  | S k => sliced b off (off + FR) 52 (fun _ => read_responses b (off + FR) k)
  end.

Definition parse_proof_g1 (pt_ok : bool) (b : list N) : gout :=
  check (zlen b <? G1 + 4)%Z 52 >>>
  sliced b 0 G1 52 (fun _ => lib pt_ok) >>>
  sliced b G1 (G1 + 4) 52 (fun lenb =>
    let n := be lenb in
    check (zlen b <? G1 + 4 + n * FR)%Z 52 >>>
    read_responses b (G1 + 4) (Z.to_nat n)).

Definition parse_signature_proof (v : variant) (pts : nat -> bool) (b : list N) : gout :=
  check (zlen b <? 3 * G1)%Z 53 >>>
  sliced b 0 G1 53 (fun _ => lib (pts 0%nat)) >>>
  sliced b G1 (2 * G1) 53 (fun _ => lib (pts 1%nat)) >>>
  sliced b (2 * G1) (3 * G1) 53 (fun _ => lib (pts 2%nat)) >>>
  check (zlen b <? 3 * G1 + 4)%Z 53 >>>
  sliced b (3 * G1) (3 * G1 + 4) 53 (fun lenb =>
    let l1 := be lenb in
    let off := (3 * G1 + 4)%Z in
    guard v (zlen b - off <? l1)%Z 53 >>>
    sliced b off (off + l1) 5 (fun p1 =>                     (* sigProofBytes[off : off+l1] *)
      parse_proof_g1 (pts 3%nat) p1 >>>
      sliced b (off + l1) (zlen b) 5 (fun p2 => parse_proof_g1 (pts 4%nat) p2))).

Definition pok_len (count : Z) : Z := (2 + count / 8 + 1)%Z.

(* parsePoKPayload; k receives the message count and the bit vector *)
Definition parse_pok_payload (b : list N) (k : Z -> list N -> gout) : gout :=
  check (zlen b <? 2)%Z 54 >>>
  sliced b 0 2 54 (fun cb =>
    let count := be cb in
    check (zlen b <? pok_len count)%Z 54 >>>
    sliced b 2 (pok_len count) 54 (fun bv => k count bv)).

(* bitvectorToIndexes(reverseBytes(bitvector)) *)
Fixpoint bits_of_byte (fuel : nat) (x : N) (base : Z) : list Z :=
  match fuel with
  | O => []
  | S f => (if N.odd x then [base] else []) ++ bits_of_byte f (x / 2) (base + 1)%Z
  end.
Fixpoint revealed_from (bytes_rev : list N) (base : Z) : list Z :=
  match bytes_rev with
  | [] => []
  | x :: r => bits_of_byte 8 x base ++ revealed_from r (base + 8)%Z
  end.
Definition revealed_of (bv : list N) : list Z := revealed_from (rev bv) 0.

(* make([]T, 0, cap) panics on a negative capacity *)
Definition make_cap (cap : Z) (site : N) : gout := if (cap <? 0)%Z then GPanic site else GPass.

(* verifyVC2Proof:  for i := range pubKey.h { if _, ok := revealed[i]; ok { ... messages[ind] ...; ind++ } }
   over the generators of the announced message count, the verifier's messages indexed by a running counter *)
Definition zmem (i : Z) (l : list Z) : bool := existsb (Z.eqb i) l.
Fixpoint vc2_walk (is : list Z) (revealed : list Z) (nmsgs ind : nat) : gout :=
  match is with
  | [] => GPass
  | i :: r => if zmem i revealed
              then (if (ind <? nmsgs)%nat then vc2_walk r revealed nmsgs (S ind) else GPanic 58)   (* messages[ind] *)
              else vc2_walk r revealed nmsgs ind
  end.
Definition zrange (n : nat) : list Z := map Z.of_nat (seq 0 n).
Definition verify_vc2 (count : Z) (revealed : list Z) (nmsgs : Z) : gout :=
  vc2_walk (zrange (Z.to_nat count)) revealed (Z.to_nat nmsgs) 0.

(* BBSG2Pub.VerifyProof up to the pairing check.  nmsgs: number of messages the verifier was handed;
   key_ok: the public key unmarshals; pts: point parsing verdicts. *)
Definition verify_proof (v : variant) (pts : nat -> bool) (key_ok : bool) (nmsgs : Z) (b : list N) : gout :=
  parse_pok_payload b (fun count bv =>
    let revealed := revealed_of bv in
    let nrev := Z.of_nat (List.length revealed) in
    guard v (negb (forallb (fun i => i <? count)%Z revealed)) 56 >>>
    sliced b (pok_len count) (zlen b) 54 (fun rest =>       (* proof[payload.lenInBytes():] *)
      parse_signature_proof v pts rest >>>
      lib key_ok >>>
      check (nmsgs <? nrev)%Z 57 >>>
      (* GetBytesForChallenge: make([]byte, 0, (7 + count - nrev) * 96) *)
      make_cap ((7 + (count - nrev)) * 96) 23 >>>
      verify_vc2 count revealed nmsgs)).

(* ProofG1.Verify: sumOfG1Products indexes the responses by the bases *)
Definition proof_g1_verify (v : variant) (nbases nresp : nat) : gout :=
  guard v (negb (nbases =? nresp)%nat) 19 >>>
  (if (nresp <? nbases)%nat then GPanic 19 else GPass).

(* cost: generators derived by ToPublicKeyWithGenerators = the announced message count *)
Definition cost (b : list N) : Z :=
  match go_slice b 0 2 with
  | Some cb => if (zlen b <? pok_len (be cb))%Z then 0%Z else be cb
  | None => 0%Z
  end.

(* ================= E6  did:key / fingerprint decoding *)
(* binary.Uvarint: (value, bytes read); bytes read = 0: buffer too small, negative: overflow *)
Fixpoint uvarint_go (l : list N) (i : nat) (x : N) (s : N) : N * Z :=
  match l with
  | [] => (0, 0%Z)
  | b :: r =>
      if (i =? 10)%nat then (0, (- Z.of_nat (i + 1))%Z)            (* MaxVarintLen64 reached: overflow *)
      else if b <? 128 then
        if (i =? 9)%nat && (1 <? b) then (0, (- Z.of_nat (i + 1))%Z)
        else (N.lor x (N.shiftl b s), Z.of_nat (i + 1))
      else uvarint_go r (S i) (N.lor x (N.shiftl (N.land b 127) s)) (s + 7)
  end.
Definition uvarint (l : list N) : N * Z := uvarint_go l 0 0 0.

Definition CODE_G1G2 := 238.   (* 0xee *)
Definition G2LEN := 96%Z.

Record e6_in := {
  e6_z : bool;             (* method specific id has at least 2 characters and starts with 'z' *)
  e6_ascii : bool;         (* it is ASCII *)
  e6_bytes : list N        (* base58 decoding of the rest (library) *)
}.

(* fingerprint.PubKeyFromFingerprint; k receives the multicodec and the key bytes *)
Definition pubkey_from_fingerprint (v : variant) (i : e6_in) (k : N -> list N -> gout) : gout :=
  check (negb (e6_z i)) 61 >>>
  guard v (negb (e6_ascii i)) 61 >>>
  b58_decode (e6_ascii i) 62 >>> (
    let mc := e6_bytes i in
    let code := fst (uvarint mc) in
    let br := snd (uvarint mc) in
    check (br =? 0)%Z 61 >>>
    guard v (br <? 0)%Z 61 >>>
    check (9 <? br)%Z 64 >>>
    if code =? CODE_G1G2 then
      guard v (negb (zlen mc =? br + G1 + G2LEN)%Z) 66 >>>
      sliced mc (br + G1) (zlen mc) 65 (fun key =>          (* mc[br+g1CompressedSize:] *)
        check (negb (zlen key =? G2LEN)%Z) 66 >>> k code key)
    else sliced mc br (zlen mc) 63 (fun key => k code key)). (* mc[br:] *)

Definition is_nistp (code : N) : bool := (code =? 4608) || (code =? 4609) || (code =? 4610). (* 0x1200..0x1202 *)
Definition known_code (code : N) : bool :=
  is_nistp code || (code =? 237) || (code =? 236).                 (* ed25519 0xed, x25519 0xec *)

(* kmsdidkey.EncryptionPubKeyFromDIDKey; point: elliptic.Unmarshal's result (None = nil, nil) *)
Definition E6 (v : variant) (point : option unit) (i : e6_in) : gout :=
  pubkey_from_fingerprint v i (fun code _ =>
    check (negb (known_code code)) 67 >>>
    if is_nistp code
    then guard v (is_none point) 68 >>>
         deref point 29 (fun _ => GPass)                          (* xBig.Bytes() *)
    else GPass).

Definition E6f (v : variant) (i : e6_in) : gout := pubkey_from_fingerprint v i (fun _ _ => GPass).

(* ================= E8  message pickup handlers (C15 models the inbox itself) *)
Definition E8_status (v : variant) (inbox_exists : bool) (thread : option unit) : gout :=
  if inbox_exists
  then match v, thread with
       | Fixed, None => GPass                                      (* answers without a thread id *)
       | _, _ => deref thread 10 (fun _ => GPass)                  (* msg.Thread.ID *)
       end
  else GPass.

(* msgs[:batch] of the held messages *)
Definition E8_batch (v : variant) (held : list N) (batch : Z) : gout :=
  let n := match v with Fixed => Z.max 0 batch | AsIs => batch end in
  let n := Z.min n (zlen held) in
  sliced held 0 n 9 (fun _ => GPass).

(* ================= E7  SD-JWT helpers (sdjwt/common): getDisclosureClaim, stringArray, GetCNF, digests *)
(* arr[i]: panics when i is out of range *)
Definition idx {A} (l : list A) (i : nat) (site : N) (k : A -> gout) : gout :=
  match nth_error l i with Some x => k x | None => GPanic site end.
Definition is_jstr (j : json) : bool := match j with JStr _ => true | _ => false end.

(* getDisclosureClaim on the decoded disclosure (None: base64 / JSON failure, or not a JSON array) *)
Definition E7_disclosure (d : option (list json)) : gout :=
  match d with
  | None => GRej 0
  | Some arr =>
      check (List.length arr <? 2)%nat 71 >>>
      idx arr 0 7 (fun salt =>
        (* the error text formats disclosureArr[1] *)
        (if is_jstr salt then GPass else idx arr 1 7 (fun _ => GRej 72)) >>>
        match List.length arr with
        | 2%nat => idx arr 1 7 (fun _ => GPass)                       (* array element: the value *)
        | 3%nat => idx arr 1 7 (fun name =>
                     (if is_jstr name then GPass else GRej 73) >>>
                     idx arr 2 7 (fun _ => GPass))                     (* name, value *)
        | _ => GPass
        end)
  end.

(* stringArray *)
Definition string_array (j : json) : res (list string) :=
  match j with
  | JNull => Ok []
  | JArr l =>
      (fix go (l : list json) : res (list string) :=
         match l with
         | [] => Ok []
         | JStr s :: r => match go r with Ok t => Ok (s :: t) | e => e end
         | _ :: _ => Err EInvalid
         end) l
  | _ => Err EInvalid
  end.

(* the digests of array elements: objects with the single member "..." holding a string *)
Definition elem_digest (j : json) : list string :=
  match j with
  | JObj [(k, JStr d)] => if String.eqb k "..." then [d] else []
  | _ => []
  end.
Definition array_digests (claims : list (string * json)) : list string :=
  flat_map (fun kv => match snd kv with JArr l => flat_map elem_digest l | _ => [] end) claims.

(* GetDisclosureDigests *)
Definition E7_digests (claims : list (string * json)) : res (list string) :=
  match lookup claims "_sd" with
  | Some sd => match string_array sd with
               | Ok l => Ok (List.app l (array_digests claims))
               | e => e
               end
  | None => Ok (array_digests claims)
  end.

(* GetCNF *)
Definition E7_cnf (claims : list (string * json)) : gout :=
  let found :=
    match lookup claims "cnf" with
    | Some c => Some c
    | None => match lookup claims "vc" with
              | Some (JObj vc) => lookup vc "cnf"
              | _ => None
              end
    end in
  match found with
  | None => GRej 76
  | Some (JObj _) => GPass
  | Some _ => GRej 77
  end.

(* ================= E9  connection protocol handlers (DID Exchange / legacy connection), introduce, pack side *)
(* getInvitationRecipientKey: invitation.RecipientKeys[0] unless the invitation names a DID *)
Definition E9_invitation_key (v : variant) (has_did : bool) (keys : list string) : gout :=
  if has_did then GPass                                            (* resolved through the VDR (library) *)
  else guard v (match keys with [] => true | _ => false end) 94 >>> idx keys 0 94 (fun _ => GPass).

(* response / ack / complete: the connection record is fetched by ~thread.thid, then response.Thread.ID is read *)
Definition E9_thread (thread : option string) (record_found : bool) : gout :=
  let thid := match thread with Some t => t | None => EmptyString end in
  check (String.eqb thid EmptyString) 91 >>> lib record_found >>> deref thread 91 (fun _ => GPass).

(* resolveDidDocFromMessage: did_doc~attach may be absent *)
Definition E9_attachment (did_ok public : bool) (attach : option bool) : gout :=
  lib did_ok >>>
  if public then GPass
  else check (is_none attach) 92 >>> deref attach 92 (fun fetch_ok => lib fetch_ok).

(* legacy connection response: connRecord.RecipientKeys[0], connection~sig, its signed data *)
Record sigview := { sv_data_ok : bool;       (* sig_data is base64 *)
                    sv_data_len : Z;         (* length of the decoded signed data *)
                    sv_sig_ok : bool }.      (* signature is base64 *)

Definition E9_legacy_response (v : variant) (rec_keys : list (bool * bool)) (sig : option sigview)
  (verify_ok : bool) : gout :=
  guard v (match rec_keys with [] => true | _ => false end) 95 >>>
  idx rec_keys 0 95 (fun key =>
    let '(is_didkey, ascii) := key in
    guard v (is_none sig) 96 >>>
    deref sig 96 (fun s =>
      lib (sv_data_ok s) >>> check (sv_data_len s =? 0)%Z 97 >>> lib (sv_sig_ok s) >>>
      (if is_didkey then GPass else guard v (negb ascii) 98 >>> b58_decode ascii 98) >>>
      lib verify_ok >>>
      check (sv_data_len s <=? 8)%Z 99 >>>
      sliced (repeat 0 (Z.to_nat (sv_data_len s))) 8 (sv_data_len s) 99 (fun _ => GPass))).   (* sigData[8:] *)

(* didkeyutil.ConvertBase58KeysToDIDKeys; per key: (empty, starts with ?/#, starts with "did:", ASCII) *)
Fixpoint E9_convert_keys (v : variant) (keys : list (bool * bool * bool * bool)) : gout :=
  match keys with
  | [] => GPass
  | (empty, rel, isdid, ascii) :: r =>
      (if empty || rel || isdid then GPass
       else match v with
            | Fixed => if ascii then b58_decode ascii 90 else GPass     (* a non-ASCII key is kept as it is *)
            | AsIs => b58_decode ascii 90
            end) >>> E9_convert_keys v r
  end.

(* packager.PackMessage, legacy profile: recipient keys taken from the peer's invitation / DID document *)
Fixpoint E9_pack_keys (v : variant) (keys : list bool) : gout :=
  match keys with
  | [] => GPass
  | ascii :: r => guard v (negb ascii) 89 >>> b58_decode ascii 89 >>> E9_pack_keys v r
  end.

(* introduce getMetaRecipients: an entry is a *Recipient (set by the application in this run) or a decoded JSON
   object (reloaded from the metadata store) *)
Fixpoint E9_meta_recipients (v : variant) (typed : list bool) : gout :=
  match typed with
  | [] => GPass
  | t :: r => (if t then GPass else match v with AsIs => GPanic 88 | Fixed => GPass end) >>>
              E9_meta_recipients v r
  end.

(* ================= E10  verifiable.ParseCredential: raw type switches (decodeType / decodeContext) and the
   base-context validation mode (validateBaseContext) *)
Definition VC_TYPE : string := "VerifiableCredential".
Definition BASE_CTX : string := "https://www.w3.org/2018/credentials/v1".

(* stringSlice over a decoded JSON array *)
Fixpoint all_strings (l : list json) : option (list string) :=
  match l with
  | [] => Some []
  | JStr s :: r => match all_strings r with Some t => Some (s :: t) | None => None end
  | _ :: _ => None
  end.
(* decodeType: a string or an array of strings ([None]: member absent or null) *)
Definition decode_type (t : option json) (k : list string -> gout) : gout :=
  match t with
  | Some (JStr s) => k [s]
  | Some (JArr l) => match all_strings l with Some ss => k ss | None => GRej 101 end
  | _ => GRej 101
  end.
(* decodeContext: a string, or an array whose leading strings are the contexts (objects may follow) *)
Fixpoint leading_strings (l : list json) : list string :=
  match l with JStr s :: r => s :: leading_strings r | _ => [] end.
Definition decode_context (c : option json) (k : list string -> gout) : gout :=
  match c with
  | Some (JStr s) => k [s]
  | Some (JArr l) => k (leading_strings l)
  | _ => GRej 102
  end.

(* validateBaseContext:  len(x) > 1 || x[0] != want   (the repaired code tests len(x) != 1) *)
Definition base_only (v : variant) (l : list string) (want : string) (stage : N) : gout :=
  guard v (match l with [] => true | _ => false end) stage >>>
  check (1 <? List.length l)%nat stage >>>
  idx l 0 100 (fun x => check (negb (String.eqb x want)) stage).

Definition E10 (v : variant) (base_mode : bool) (typ ctx : option json) : gout :=
  decode_type typ (fun types =>
    decode_context ctx (fun ctxs =>
      if base_mode then base_only v types VC_TYPE 103 >>> base_only v ctxs BASE_CTX 104 else GPass)).

(* ================= E11  jwt.Parse: the JOSE header checks behind ParseJWS (checkHeaders / checkTypHeader) *)
Definition TYPE_JWT : string := "JWT".
Definition TYPE_SDJWT : string := "SD-JWT".

Definition check_typ (t : json) : gout :=
  match t with
  | JStr s =>
      let chunks := split_on "+"%char s EmptyString in
      if (1 <? List.length chunks)%nat
      then idx chunks 1 110 (fun c =>                       (* chunks[1] *)
             let e := upper c in check (negb (String.eqb e TYPE_JWT || String.eqb e TYPE_SDJWT)) 114)
      else check (negb (String.eqb s TYPE_JWT)) 115
  | _ => GRej 113
  end.

Definition check_headers (h : list (string * json)) : gout :=
  check (match lookup h "alg" with None => true | Some _ => false end) 112 >>>
  (match lookup h "typ" with None => GPass | Some t => check_typ t end) >>>
  check (match lookup h "cty" with Some (JStr c) => String.eqb c TYPE_JWT | _ => false end) 116.

(* jwt.Parse with a verifier = IsCompactJWS, ParseJWS (E4), checkHeaders, PayloadToMap (library: JSON decoding) *)
Definition E11 (v : variant) (i : e4_in) (payload_ok : bool) : gout :=
  check (negb (e4_parts i =? 3)%nat) 111 >>>
  E4 v i >>>
  (match e4_hdr i with Some h => check_headers h | None => GRej 0 end) >>>
  lib payload_ok.
