(* C03 — correspondence: the harness hands the model the same input the fenced implementation was given (as the
   view the guard layer works on) and the outcome class it observed.

   agrees g o:
     the implementation never panics or hangs where the (repaired) model does not;
     model GRej s  -> the implementation returned an error, and if the error text is one of the guard layer's own
                      messages it is the message of guard s (stage 0 = any other error: an unmodelled library or
                      crypto step may fail before the guard is reached);
     model GPass   -> no guard message was observed (value, or an error of the code behind the guards). *)
From Coq Require Import List NArith ZArith String Ascii Bool.
Import ListNotations.
From VF Require Export common.Json common.Res C03.Model.
Local Open Scope N_scope.

Inductive obs := OOk | OErr (stage : N) | OPanic | OTimeout.

Inductive input :=
| I1 (i : e1_in)                       (* jose.Deserialize + JWEDecrypt.Decrypt *)
| I2 (b : list N)                      (* packager.UnpackMessage: getEncodingType *)
| I3 (i : e3_in)                       (* legacy Unpack *)
| I4 (i : e4_in)                       (* jose.ParseJWS with the jwt verifier *)
| I5sig (b : list N)                   (* bbs ParseSignature *)
| I5g1 (b : list N)                    (* bbs ParseProofG1 *)
| I5sp (b : list N)                    (* bbs ParseSignatureProof *)
| I5vp (nmsgs : Z) (b : list N)        (* bbs VerifyProof *)
| I6 (point : bool) (i : e6_in)        (* kmsdidkey.EncryptionPubKeyFromDIDKey *)
| I6f (i : e6_in)                      (* fingerprint.PubKeyFromDIDKey *)
| I8s (inbox : bool) (thread : bool)   (* message pickup status-request *)
| I8b (held : nat) (batch : Z).        (* message pickup batch-pickup *)

Record case := { c_in : input; c_obs : obs }.

(* byte strings are handed over as lower-case hex text (a long list literal is slow to read) *)
Definition hexv (a : ascii) : N := let n := N_of_ascii a in if n <? 58 then n - 48 else n - 87.
Fixpoint unhex (s : string) : list N :=
  match s with String a (String b r) => (hexv a * 16 + hexv b) :: unhex r | _ => [] end.

Definition all_ok : nat -> bool := fun _ => true.

Definition run (v : variant) (i : input) : gout :=
  match i with
  | I1 x => E1 v x
  | I2 b => E2 v b
  | I3 x => E3 v x
  | I4 x => E4 v x
  | I5sig b => parse_signature true b
  | I5g1 b => parse_proof_g1 true b
  | I5sp b => parse_signature_proof v all_ok b
  | I5vp n b => verify_proof v all_ok true n b
  | I6 p x => E6 v (if p then Some tt else None) x
  | I6f x => E6f v x
  | I8s ib t => E8_status v ib (if t then Some tt else None)
  | I8b h b => E8_batch v (repeat 0 h) b
  end.

Definition agrees (g : gout) (o : obs) : bool :=
  match g, o with
  | GPass, OOk => true
  | GPass, OErr t => t =? 0
  | GRej s, OErr t => (t =? s) || (t =? 0)
  | _, _ => false
  end.

Definition check_case (c : case) : bool := agrees (run Fixed (c_in c)) (c_obs c).

Fixpoint mismatches_from (i : nat) (cs : list case) : list nat :=
  match cs with
  | [] => []
  | c :: r => if check_case c then mismatches_from (S i) r else i :: mismatches_from (S i) r
  end.
Definition mismatches := mismatches_from 0.
