(* C03 — correspondence: the harness hands the model the same input the fenced implementation was given (as the
   view the guard layer works on) and the outcome class it observed.

   agrees g o:
     the implementation never panics or hangs where the (repaired) model does not;
     model GRej s  -> the implementation returned an error, and if the error text is one of the guard layer's own
                      messages it is the message of guard s (stage 0 = any other error: an unmodelled library or
                      crypto step may fail before the guard is reached);
     model GPass   -> no guard message was observed (value, or an error of the code behind the guards). *)
From Coq Require Import List NArith ZArith String Ascii Bool.
Import ListNotations.
From VF Require Export common.Json common.Res C03.Model.
Local Open Scope N_scope.

Inductive obs := OOk | OErr (stage : N) | OPanic | OTimeout
| ONoCrash.   (* protocol handlers work in goroutines of their own: only "the agent survived" is observable *)

Inductive input :=
| I1 (i : e1_in)                       (* jose.Deserialize + JWEDecrypt.Decrypt *)
| I2 (b : list N)                      (* packager.UnpackMessage: getEncodingType *)
| I2t (frame : list N)                 (* a frame written on the websocket inbound transport *)
| I3 (i : e3_in)                       (* legacy Unpack *)
| I4 (i : e4_in)                       (* jose.ParseJWS with the jwt verifier *)
| I5sig (b : list N)                   (* bbs ParseSignature *)
| I5g1 (b : list N)                    (* bbs ParseProofG1 *)
| I5sp (b : list N)                    (* bbs ParseSignatureProof *)
| I5vp (nmsgs : Z) (b : list N)        (* bbs VerifyProof *)
| I6 (point : bool) (i : e6_in)        (* kmsdidkey.EncryptionPubKeyFromDIDKey *)
| I6f (i : e6_in)                      (* fingerprint.PubKeyFromDIDKey *)
| I8s (inbox : bool) (thread : bool)   (* message pickup status-request *)
| I8b (held : nat) (batch : Z)         (* message pickup batch-pickup *)
| I7d (d : option (list json))         (* sdjwt/common.GetDisclosureClaims of one disclosure *)
| I7dig (claims : list (string * json)) (observed : list string)   (* GetDisclosureDigests and what it returned *)
| I7cnf (claims : list (string * json))                            (* GetCNF *)
| I9inv (legacy has_did : bool) (keys : list string)   (* inbound invitation of DID Exchange / legacy connection *)
| I9resp (sig : option sigview)        (* legacy connection response once the invitee has sent its request *)
| I9keys (keys : list (bool * bool * bool * bool))   (* legacy request: recipient keys of the IndyAgent service *)
| I9meta (typed : list bool)           (* introduce: recipients seen by a repeated request *)
| I10 (base_mode : bool) (typ ctx : option json)   (* verifiable.ParseCredential of a JSON credential: its "type" and
                                          "@context" members; base_mode: WithBaseContextValidation *)
| I11 (i : e4_in).                     (* jwt.Parse with the jwt verifier *)

Record case := { c_in : input; c_obs : obs }.

(* byte strings are handed over as lower-case hex text (a long list literal is slow to read) *)
Definition hexv (a : ascii) : N := let n := N_of_ascii a in if n <? 58 then n - 48 else n - 87.
Fixpoint unhex (s : string) : list N :=
  match s with String a (String b r) => (hexv a * 16 + hexv b) :: unhex r | _ => [] end.

Definition all_ok : nat -> bool := fun _ => true.

Fixpoint is_ascii (s : string) : bool :=
  match s with EmptyString => true | String a r => (N_of_ascii a <? 128) && is_ascii r end.
Definition subset (a b : list string) : bool := forallb (fun x => existsb (String.eqb x) b) a.
Definition same_set (a b : list string) : bool := subset a b && subset b a.

Definition run (v : variant) (i : input) : gout :=
  match i with
  | I1 x => E1 v x
  | I2 b => E2 v b
  | I2t f => E2_transport v f
  | I3 x => E3 v x
  | I4 x => E4 v x
  | I5sig b => parse_signature true b
  | I5g1 b => parse_proof_g1 true b
  | I5sp b => parse_signature_proof v all_ok b
  | I5vp n b => verify_proof v all_ok true n b
  | I6 p x => E6 v (if p then Some tt else None) x
  | I6f x => E6f v x
  | I8s ib t => E8_status v ib (if t then Some tt else None)
  | I8b h b => E8_batch v (repeat 0 h) b
  | I7d d => E7_disclosure d
  | I7dig c observed =>
      match E7_digests c with
      | Ok l => if same_set l observed then GPass else GDiverge      (* a different digest set: disagreement *)
      | _ => GRej 78
      end
  | I7cnf c => E7_cnf c
  | I9inv legacy d keys =>
      E9_invitation_key v d keys >>>
      (if legacy && negb d then E9_pack_keys v (map is_ascii (firstn 1 keys)) else GPass)
  | I9resp sig => E9_legacy_response v [(false, true)] sig true
  | I9keys keys => E9_convert_keys v keys
  | I9meta typed => E9_meta_recipients v typed
  | I10 m t c => E10 v m t c
  | I11 x => E11 v x true
  end.

Definition agrees (g : gout) (o : obs) : bool :=
  match g, o with
  | GPass, OOk => true
  | GPass, OErr t => t =? 0
  | GRej s, OErr t => (t =? s) || (t =? 0)
  | GPass, ONoCrash | GRej _, ONoCrash => true
  | _, _ => false
  end.

Definition check_case (c : case) : bool := agrees (run Fixed (c_in c)) (c_obs c).

Fixpoint mismatches_from (i : nat) (cs : list case) : list nat :=
  match cs with
  | [] => []
  | c :: r => if check_case c then mismatches_from (S i) r else i :: mismatches_from (S i) r
  end.
Definition mismatches := mismatches_from 0.
