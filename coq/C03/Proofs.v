(* C03 — lemmas: the guards of the repaired code suffice (no dangerous operation is reached outside its domain),
   for every input and every verdict of the library steps. *)
From Coq Require Import List NArith ZArith String Ascii Bool Lia FinFun.
Import ListNotations.
From VF Require Import common.Json common.Res C03.Model.
Local Open Scope N_scope.

Definition safe (g : gout) : Prop := match g with GPass | GRej _ => True | _ => False end.

Lemma safe_andthen : forall a b, safe a -> (a = GPass -> safe b) -> safe (a >>> b).
Proof. intros a b Ha Hb. destruct a; cbn in *; auto. Qed.
Lemma andthen_pass : forall b, GPass >>> b = b.
Proof. reflexivity. Qed.
Lemma safe_andthen' : forall a b, safe a -> safe b -> safe (a >>> b).
Proof. intros. apply safe_andthen; auto. Qed.
Lemma safe_guard : forall v b s, safe (guard v b s).
Proof. intros [] [] s; cbn; auto. Qed.
Lemma safe_check : forall b s, safe (check b s).
Proof. intros [] s; cbn; auto. Qed.
Lemma safe_lib : forall b, safe (lib b).
Proof. intros []; cbn; auto. Qed.
Lemma guard_pass : forall b s, guard Fixed b s = GPass -> b = false.
Proof. intros [] s H; cbn in H; congruence. Qed.
Lemma check_pass : forall b s, check b s = GPass -> b = false.
Proof. intros [] s H; cbn in H; congruence. Qed.
#[export] Hint Resolve safe_guard safe_check safe_lib : c03.

Lemma safe_no_panic : forall g, safe g -> forall s, to_res g <> Panic s.
Proof. intros [] H s; cbn in *; try discriminate; contradiction. Qed.
Lemma safe_no_diverge : forall g, safe g -> to_res g <> Diverge.
Proof. intros [] H; cbn in *; try discriminate; contradiction. Qed.

(* ---------- slices ---------- *)
Lemma zlen_nonneg : forall b, (0 <= zlen b)%Z.
Proof. intros; unfold zlen; lia. Qed.

Lemma go_slice_some : forall b lo hi, (0 <= lo)%Z -> (lo <= hi)%Z -> (hi <= zlen b)%Z ->
  exists x, go_slice b lo hi = Some x /\ zlen x = (hi - lo)%Z.
Proof.
  intros b lo hi H0 H1 H2. unfold go_slice, zlen in *.
  replace ((0 <=? lo)%Z) with true by (symmetry; apply Z.leb_le; lia).
  replace ((lo <=? hi)%Z) with true by (symmetry; apply Z.leb_le; lia).
  replace ((hi <=? Z.of_nat (List.length b))%Z) with true by (symmetry; apply Z.leb_le; lia).
  cbn [andb]. eexists; split; [reflexivity|].
  rewrite firstn_length, skipn_length. lia.
Qed.

Lemma sliced_safe : forall b lo hi site k, (0 <= lo)%Z -> (lo <= hi)%Z -> (hi <= zlen b)%Z ->
  (forall x, zlen x = (hi - lo)%Z -> safe (k x)) -> safe (sliced b lo hi site k).
Proof.
  intros b lo hi site k H0 H1 H2 Hk. destruct (go_slice_some b lo hi H0 H1 H2) as [x [E L]].
  unfold sliced. rewrite E. auto.
Qed.

Lemma be_nonneg : forall l, (0 <= be l)%Z.
Proof. intros; unfold be; lia. Qed.

(* ---------- E2 ---------- *)
Lemma E2_safe : forall b, safe (E2 Fixed b).
Proof.
  intros b. unfold E2. destruct b as [|c r]; cbn [safe]; auto.
  destruct (c =? LBRACE); cbn [safe]; auto.
  destruct ((c =? QUOTE) && (List.last (c :: r) 0 =? QUOTE)); cbn [safe]; auto.
  cbn [guard]. destruct (zlen (c :: r) <? 2)%Z eqn:E; cbn [safe]; auto.
  apply Z.ltb_ge in E. apply sliced_safe; try lia. intros; cbn; auto.
Qed.

Lemma E2_transport_safe : forall b, safe (E2_transport Fixed b).
Proof.
  intros b. unfold E2_transport. destruct b as [|c r]; cbn [safe]; auto.
  destruct ((c =? QUOTE) && (List.last (c :: r) 0 =? QUOTE)); cbn [safe]; auto.
  cbn [guard]. destruct (zlen (c :: r) <? 2)%Z eqn:E; cbn [safe]; auto.
  apply Z.ltb_ge in E. apply sliced_safe; try lia. intros; cbn; auto.
Qed.

(* ---------- E1 ---------- *)
Lemma deser_rcpts_safe : forall l, safe (deser_rcpts Fixed l).
Proof.
  induction l as [|o r IH]; cbn [deser_rcpts safe]; auto.
  destruct o as [x|]; cbn [guard is_none deref andthen].
  - apply safe_andthen'; [apply safe_lib|exact IH].
  - cbn; auto.
Qed.

Lemma build_rwk_safe : forall prot n l, safe (build_rwk Fixed prot n l).
Proof.
  intros prot n. induction l as [|o r IH]; cbn [build_rwk safe]; auto.
  destruct o as [x|]; cbn [guard is_none deref andthen]; [|cbn; auto].
  apply safe_andthen'; [|exact IH].
  destruct ((n =? 1)%nat || is_1pu prot) eqn:U.
  - apply safe_andthen'; [apply safe_check|]. cbn [is_none guard andthen].
    destruct (is_1pu prot && (1 <? n)%nat).
    + destruct (r_hdr x); cbn; auto.
    + cbn; auto.
  - cbn [andthen]. destruct (r_hdr x) as [h|] eqn:H; cbn [is_none guard andthen]; [|cbn; auto].
    destruct (is_1pu prot && (1 <? n)%nat); cbn; auto.
Qed.

Lemma skid_guard_safe : forall prot n, safe (skid_guard Fixed prot n).
Proof.
  intros. unfold skid_guard. destruct (jstr (lookup prot "skid")); [exact I|].
  destruct (1 <? n)%nat; [|exact I]. destruct (lookup prot "apu"); exact I.
Qed.

Lemma decrypt_safe : forall prot l, safe (decrypt Fixed prot l).
Proof.
  intros. unfold decrypt. apply safe_andthen'; [apply safe_check|].
  apply safe_andthen'.
  - destruct (jstr (lookup prot "enc")); [apply safe_check|cbn; auto].
  - apply safe_andthen'; [apply skid_guard_safe|apply build_rwk_safe].
Qed.

Lemma E1_safe : forall i, safe (E1 Fixed i).
Proof.
  intros. unfold E1, deserialize.
  apply safe_andthen'; [|apply decrypt_safe].
  apply safe_andthen'; [apply safe_lib|]. apply safe_andthen'; [apply deser_rcpts_safe|apply safe_lib].
Qed.

Lemma pubkey_guard_safe : forall prot l i, safe (pubkey_guard Fixed prot l i).
Proof.
  intros. unfold pubkey_guard. destruct ((i =? 0)%nat && (List.length l =? 1)%nat).
  - destruct (jstr (lookup prot "kid")); cbn; auto.
  - destruct (nth_error l i) as [[x|]|]; cbn; auto. destruct (r_hdr x); cbn; auto.
Qed.

(* ---------- E3 ---------- *)
Lemma find_ver_key_safe : forall l, safe (find_ver_key Fixed l).
Proof.
  induction l as [|[a o] r IH]; cbn [find_ver_key safe]; auto.
  destruct a; cbn [negb guard andthen b58_decode]; [|cbn; auto].
  destruct o; cbn; auto.
Qed.

Lemma E3_safe : forall i, safe (E3 Fixed i).
Proof.
  intros. unfold E3.
  apply safe_andthen'; [apply safe_lib|]. apply safe_andthen'; [apply safe_check|].
  apply safe_andthen'; [apply safe_check|]. apply safe_andthen'; [apply find_ver_key_safe|].
  destruct (e3_sender_ascii i); cbn [negb guard andthen b58_decode]; [|cbn; auto].
  apply safe_andthen'; [apply safe_lib|]. apply safe_andthen'; [apply safe_lib|].
  unfold aead_open. destruct (e3_iv_len i =? 12); cbn; auto.
Qed.

(* ---------- E4 ---------- *)
Lemma E4_safe : forall i, safe (E4 Fixed i).
Proof.
  intros. unfold E4. apply safe_andthen'; [apply safe_check|].
  destruct (e4_hdr i) as [h|]; [|cbn; auto].
  apply safe_andthen'; [apply safe_check|]. apply safe_andthen'; [apply safe_check|].
  apply safe_andthen'; [apply safe_lib|].
  cbv zeta. apply safe_andthen'; [apply safe_check|].
  set (parts := split_on "#"%char _ _).
  destruct parts as [|p0 [|p1 r]]; cbn; auto.
Qed.

(* ---------- E5 ---------- *)
Lemma parse_signature_safe : forall pt b, safe (parse_signature pt b).
Proof.
  intros. unfold parse_signature. apply safe_andthen; [apply safe_check|]. intros H.
  apply check_pass in H. apply negb_false_iff in H. apply Z.eqb_eq in H. unfold SIGLEN, G1, FR in *.
  apply safe_andthen'; [apply sliced_safe; try lia; intros; apply safe_lib|].
  apply safe_andthen'; apply sliced_safe; try lia; intros; cbn; auto.
Qed.

Lemma read_responses_safe : forall n b off, (0 <= off)%Z -> (off + Z.of_nat n * FR <= zlen b)%Z ->
  safe (read_responses b off n).
Proof.
  induction n as [|n IH]; intros b off H0 H1; cbn [read_responses safe]; auto.
  unfold FR in *. apply sliced_safe; try lia. intros x _. apply IH; lia.
Qed.

Lemma parse_proof_g1_safe : forall pt b, safe (parse_proof_g1 pt b).
Proof.
  intros. unfold parse_proof_g1. apply safe_andthen; [apply safe_check|]. intros H.
  apply check_pass in H. apply Z.ltb_ge in H. unfold G1, FR in *.
  apply safe_andthen'; [apply sliced_safe; try lia; intros; apply safe_lib|].
  apply sliced_safe; try lia. intros lenb _. cbv zeta.
  apply safe_andthen; [apply safe_check|]. intros H2. apply check_pass in H2. apply Z.ltb_ge in H2.
  pose proof (be_nonneg lenb). apply read_responses_safe; try lia. unfold FR. rewrite Z2Nat.id; lia.
Qed.

Lemma parse_signature_proof_safe : forall pts b, safe (parse_signature_proof Fixed pts b).
Proof.
  intros. unfold parse_signature_proof. apply safe_andthen; [apply safe_check|]. intros H.
  apply check_pass in H. apply Z.ltb_ge in H. unfold G1 in *.
  apply safe_andthen'; [apply sliced_safe; try lia; intros; apply safe_lib|].
  apply safe_andthen'; [apply sliced_safe; try lia; intros; apply safe_lib|].
  apply safe_andthen'; [apply sliced_safe; try lia; intros; apply safe_lib|].
  apply safe_andthen; [apply safe_check|]. intros H2. apply check_pass in H2. apply Z.ltb_ge in H2.
  apply sliced_safe; try lia. intros lenb _. cbv zeta.
  apply safe_andthen; [apply safe_guard|]. intros H3. apply guard_pass in H3. apply Z.ltb_ge in H3.
  pose proof (be_nonneg lenb).
  apply sliced_safe; try lia. intros p1 _.
  apply safe_andthen'; [apply parse_proof_g1_safe|].
  apply sliced_safe; try lia. intros p2 _. apply parse_proof_g1_safe.
Qed.

Lemma pok_len_ge : forall c, (0 <= c)%Z -> (3 <= pok_len c)%Z.
Proof. intros. unfold pok_len. assert (0 <= c / 8)%Z by (apply Z.div_pos; lia). lia. Qed.

Lemma parse_pok_payload_safe : forall b k,
  (forall count bv, (0 <= count)%Z -> (pok_len count <= zlen b)%Z -> safe (k count bv)) ->
  safe (parse_pok_payload b k).
Proof.
  intros b k Hk. unfold parse_pok_payload. apply safe_andthen; [apply safe_check|]. intros H.
  apply check_pass in H. apply Z.ltb_ge in H.
  apply sliced_safe; try lia. intros cb _. cbv zeta.
  pose proof (be_nonneg cb) as Hc. pose proof (pok_len_ge _ Hc).
  apply safe_andthen; [apply safe_check|]. intros H2. apply check_pass in H2. apply Z.ltb_ge in H2.
  apply sliced_safe; try lia. intros bv _. apply Hk; auto.
Qed.

(* the revealed indexes are strictly increasing: below a bound there cannot be more of them than the bound *)
Fixpoint inc (lo : Z) (l : list Z) : Prop :=
  match l with [] => True | x :: r => (lo <= x)%Z /\ inc (x + 1) r end.

Lemma inc_weaken : forall l lo lo', (lo' <= lo)%Z -> inc lo l -> inc lo' l.
Proof. destruct l; cbn; intros; auto. destruct H0; split; auto; lia. Qed.

Lemma inc_app : forall a b lo mid, inc lo a -> (forall x, In x a -> x < mid)%Z -> (lo <= mid)%Z -> inc mid b ->
  inc lo (a ++ b).
Proof.
  induction a as [|x a IH]; intros b lo mid Ha Hlt Hle Hb; cbn [app].
  - eapply inc_weaken; eauto.
  - cbn in Ha. destruct Ha as [H1 H2]. cbn. split; auto.
    apply IH with (mid := mid); auto.
    + intros y Hy. apply Hlt. right; auto.
    + assert (x < mid)%Z by (apply Hlt; left; auto). lia.
Qed.

Lemma bits_of_byte_inc : forall fuel x base,
  inc base (bits_of_byte fuel x base) /\ (forall y, In y (bits_of_byte fuel x base) -> y < base + Z.of_nat fuel)%Z.
Proof.
  induction fuel as [|f IH]; intros x base; cbn [bits_of_byte].
  - split; cbn; auto. intros y [].
  - destruct (IH (x / 2) (base + 1)%Z) as [I1 I2]. split.
    + destruct (N.odd x); cbn [app]; [cbn; split; [lia|auto]|].
      eapply inc_weaken; [|exact I1]. lia.
    + intros y Hy. apply in_app_or in Hy. destruct Hy as [Hy|Hy].
      * destruct (N.odd x); cbn in Hy; [destruct Hy as [<-|[]]; lia|contradiction].
      * apply I2 in Hy. lia.
Qed.

Lemma revealed_from_inc : forall l base, inc base (revealed_from l base).
Proof.
  induction l as [|x r IH]; intros base; cbn [revealed_from]; [cbn; auto|].
  destruct (bits_of_byte_inc 8 x base) as [I1 I2].
  apply inc_app with (mid := (base + 8)%Z); auto. lia.
Qed.

Lemma inc_length : forall l lo hi, inc lo l -> (forall x, In x l -> x < hi)%Z -> (lo <= hi)%Z ->
  (Z.of_nat (List.length l) <= hi - lo)%Z.
Proof.
  induction l as [|x r IH]; intros lo hi Hi Hlt Hle; cbn [List.length]; [lia|].
  cbn in Hi. destruct Hi as [H1 H2].
  assert (x < hi)%Z by (apply Hlt; left; auto).
  assert (Z.of_nat (List.length r) <= hi - (x + 1))%Z.
  { apply IH; auto; [|lia]. intros y Hy. apply Hlt. right; auto. }
  lia.
Qed.

Lemma vc2_walk_safe : forall is revealed nmsgs ind,
  (ind + List.length (filter (fun i => zmem i revealed) is) <= nmsgs)%nat -> safe (vc2_walk is revealed nmsgs ind).
Proof.
  induction is as [|a r IH]; intros revealed nmsgs ind H; cbn [vc2_walk]; [exact I|].
  cbn [filter] in H. destruct (zmem a revealed) eqn:M; cbn [List.length] in H.
  - destruct (ind <? nmsgs)%nat eqn:L.
    + apply IH. lia.
    + apply Nat.ltb_ge in L. lia.
  - apply IH. lia.
Qed.

Lemma zrange_nodup : forall n, NoDup (zrange n).
Proof.
  intros n. unfold zrange. apply Injective_map_NoDup; [|apply seq_NoDup].
  intros x y H. apply Nat2Z.inj. exact H.
Qed.

(* the walk meets every revealed index at most once: it cannot advance further than the number of revealed indexes *)
Lemma hits_le : forall n revealed,
  (List.length (filter (fun i => zmem i revealed) (zrange n)) <= List.length revealed)%nat.
Proof.
  intros n revealed. apply NoDup_incl_length.
  - apply NoDup_filter. apply zrange_nodup.
  - intros x Hx. apply filter_In in Hx. destruct Hx as [_ Hm]. unfold zmem in Hm.
    apply existsb_exists in Hm. destruct Hm as [y [Hy E]]. apply Z.eqb_eq in E. subst. exact Hy.
Qed.

Lemma verify_vc2_safe : forall count revealed nmsgs, (Z.of_nat (List.length revealed) <= nmsgs)%Z ->
  safe (verify_vc2 count revealed nmsgs).
Proof.
  intros count revealed nmsgs H. unfold verify_vc2. apply vc2_walk_safe.
  pose proof (hits_le (Z.to_nat count) revealed). lia.
Qed.

Lemma verify_proof_safe : forall pts key_ok nmsgs b, safe (verify_proof Fixed pts key_ok nmsgs b).
Proof.
  intros. unfold verify_proof. apply parse_pok_payload_safe. intros count bv Hc Hl. cbv zeta.
  apply safe_andthen; [apply safe_guard|]. intros H. apply guard_pass in H. apply negb_false_iff in H.
  pose proof (pok_len_ge _ Hc).
  apply sliced_safe; try lia. intros rest _.
  apply safe_andthen'; [apply parse_signature_proof_safe|].
  apply safe_andthen'; [apply safe_lib|]. apply safe_andthen; [apply safe_check|].
  intros H57. apply check_pass in H57. apply Z.ltb_ge in H57.
  apply safe_andthen'; [|apply verify_vc2_safe; exact H57].
  unfold make_cap.
  assert (Z.of_nat (List.length (revealed_of bv)) <= count - 0)%Z.
  { apply inc_length; try lia.
    - unfold revealed_of. apply revealed_from_inc.
    - intros x Hx. rewrite forallb_forall in H. specialize (H x Hx). apply Z.ltb_lt in H. exact H. }
  destruct ((7 + (count - Z.of_nat (List.length (revealed_of bv)))) * 96 <? 0)%Z eqn:E; cbn; auto.
  apply Z.ltb_lt in E. lia.
Qed.

Lemma proof_g1_verify_safe : forall nb nr, safe (proof_g1_verify Fixed nb nr).
Proof.
  intros. unfold proof_g1_verify. cbn [guard]. destruct (nb =? nr)%nat eqn:E; cbn [negb andthen]; [|cbn; auto].
  apply Nat.eqb_eq in E. subst. rewrite Nat.ltb_irrefl. cbn; auto.
Qed.

Lemma cost_bound : forall b, (cost b <= 8 * zlen b)%Z.
Proof.
  intros. unfold cost. pose proof (zlen_nonneg b). destruct (go_slice b 0 2) as [cb|]; [|lia].
  pose proof (be_nonneg cb). destruct (zlen b <? pok_len (be cb))%Z eqn:E; [lia|].
  apply Z.ltb_ge in E. unfold pok_len in E.
  pose proof (Z.mul_succ_div_gt (be cb) 8 ltac:(lia)). lia.
Qed.

(* ---------- E6 ---------- *)
Lemma uvarint_go_bound : forall l i x s,
  (snd (uvarint_go l i x s) <= Z.of_nat (i + List.length l))%Z.
Proof.
  induction l as [|b r IH]; intros i x s; cbn [uvarint_go snd List.length]; [lia|].
  destruct (i =? 10)%nat; cbn [snd]; [lia|].
  destruct (b <? 128).
  - destruct ((i =? 9)%nat && (1 <? b)); cbn [snd]; lia.
  - specialize (IH (S i) (N.lor x (N.shiftl (N.land b 127) s)) (s + 7)). lia.
Qed.

Lemma uvarint_bound : forall l, (snd (uvarint l) <= zlen l)%Z.
Proof. intros. unfold uvarint, zlen. pose proof (uvarint_go_bound l 0 0 0). cbn in *. lia. Qed.

Lemma pubkey_from_fingerprint_safe : forall i k, (forall c key, safe (k c key)) ->
  safe (pubkey_from_fingerprint Fixed i k).
Proof.
  intros i k Hk. unfold pubkey_from_fingerprint. apply safe_andthen'; [apply safe_check|].
  destruct (e6_ascii i); cbn [negb guard andthen b58_decode]; [|cbn; auto].
  cbv zeta. pose proof (uvarint_bound (e6_bytes i)) as Hb.
  apply safe_andthen; [apply safe_check|]. intros H0. apply check_pass in H0. apply Z.eqb_neq in H0.
  destruct (snd (uvarint (e6_bytes i)) <? 0)%Z eqn:Hneg; cbn [andthen]; [cbn; auto|].
  apply Z.ltb_ge in Hneg.
  apply safe_andthen'; [apply safe_check|].
  destruct (fst (uvarint (e6_bytes i)) =? CODE_G1G2).
  - apply safe_andthen; [apply safe_check|]. intros H2. apply check_pass in H2. apply negb_false_iff in H2.
    apply Z.eqb_eq in H2. unfold G1, G2LEN in *.
    apply sliced_safe; try lia. intros key _. apply safe_andthen'; [apply safe_check|apply Hk].
  - apply sliced_safe; try lia. intros key _. apply Hk.
Qed.

Lemma E6_safe : forall point i, safe (E6 Fixed point i).
Proof.
  intros. unfold E6. apply pubkey_from_fingerprint_safe. intros c key.
  apply safe_andthen'; [apply safe_check|].
  destruct (is_nistp c); [|cbn; auto]. destruct point; cbn; auto.
Qed.

Lemma E6f_safe : forall i, safe (E6f Fixed i).
Proof. intros. unfold E6f. apply pubkey_from_fingerprint_safe. intros; cbn; auto. Qed.

(* ---------- E8 ---------- *)
Lemma E8_status_safe : forall ib t, safe (E8_status Fixed ib t).
Proof. intros [] []; cbn; auto. Qed.

Lemma E8_batch_safe : forall held batch, safe (E8_batch Fixed held batch).
Proof.
  intros. unfold E8_batch. pose proof (zlen_nonneg held).
  apply sliced_safe; try lia. intros; cbn; auto.
Qed.

(* ---------- E7 ---------- *)
Lemma idx_safe : forall A (l : list A) i site k, (i < List.length l)%nat -> (forall x, safe (k x)) ->
  safe (idx l i site k).
Proof.
  intros A l i site k H Hk. unfold idx. destruct (nth_error l i) eqn:E; [apply Hk|].
  apply nth_error_None in E. lia.
Qed.

Lemma E7_disclosure_safe : forall d, safe (E7_disclosure d).
Proof.
  intros [arr|]; [|exact I]. unfold E7_disclosure.
  apply safe_andthen; [apply safe_check|]. intros H. apply check_pass in H. apply Nat.ltb_ge in H.
  apply idx_safe; [lia|]. intros salt.
  apply safe_andthen'.
  - destruct (is_jstr salt); [exact I|]. apply idx_safe; [lia|]. intros; exact I.
  - destruct (List.length arr) as [|[|[|[|n]]]] eqn:L; try exact I; try lia.
    + apply idx_safe; [lia|]. intros; exact I.
    + apply idx_safe; [lia|]. intros name. apply safe_andthen'.
      * destruct (is_jstr name); exact I.
      * apply idx_safe; [lia|]. intros; exact I.
Qed.

Lemma E7_cnf_safe : forall c, safe (E7_cnf c).
Proof.
  intros c. unfold E7_cnf.
  destruct (match lookup c "cnf" with Some x => Some x | None => _ end) as [[]|]; exact I.
Qed.

(* ---------- E9 ---------- *)
Lemma E9_invitation_key_safe : forall d keys, safe (E9_invitation_key Fixed d keys).
Proof.
  intros [] keys; cbn; auto. destruct keys; cbn; auto.
Qed.

Lemma E9_thread_safe : forall t f, safe (E9_thread t f).
Proof.
  intros [t|] f; unfold E9_thread.
  - apply safe_andthen'; [apply safe_check|]. apply safe_andthen'; [apply safe_lib|exact I].
  - cbn. exact I.
Qed.

Lemma E9_attachment_safe : forall d p a, safe (E9_attachment d p a).
Proof.
  intros d p a. unfold E9_attachment. apply safe_andthen'; [apply safe_lib|].
  destruct p; [exact I|]. destruct a as [b|]; cbn; [apply safe_lib|exact I].
Qed.

Lemma b58_ascii_safe : forall site, safe (b58_decode true site).
Proof. intros; exact I. Qed.

Lemma E9_legacy_response_safe : forall keys sig ok, safe (E9_legacy_response Fixed keys sig ok).
Proof.
  intros keys sig ok. unfold E9_legacy_response.
  destruct keys as [|[dk ascii] r]; [exact I|]. cbn [guard andthen idx nth_error].
  destruct sig as [s|]; cbn [is_none guard andthen deref]; [|exact I].
  apply safe_andthen'; [apply safe_lib|]. apply safe_andthen'; [apply safe_check|].
  apply safe_andthen'; [apply safe_lib|].
  apply safe_andthen'.
  - destruct dk; [exact I|]. destruct ascii; cbn; exact I.
  - apply safe_andthen'; [apply safe_lib|].
    apply safe_andthen; [apply safe_check|]. intros H. apply check_pass in H. apply Z.leb_gt in H.
    apply sliced_safe; try lia.
    + unfold zlen. rewrite repeat_length. rewrite Z2Nat.id; lia.
    + intros; exact I.
Qed.

Lemma E9_convert_keys_safe : forall keys, safe (E9_convert_keys Fixed keys).
Proof.
  induction keys as [|[[[e r] d] a] t IH]; [exact I|]. cbn [E9_convert_keys].
  apply safe_andthen'; [|exact IH].
  destruct (e || r || d); [exact I|]. destruct a; exact I.
Qed.

Lemma E9_pack_keys_safe : forall keys, safe (E9_pack_keys Fixed keys).
Proof.
  induction keys as [|a t IH]; [exact I|]. cbn [E9_pack_keys].
  destruct a; cbn [negb guard andthen b58_decode]; [exact IH|exact I].
Qed.

Lemma E9_meta_recipients_safe : forall l, safe (E9_meta_recipients Fixed l).
Proof.
  induction l as [|t r IH]; [exact I|]. cbn [E9_meta_recipients].
  apply safe_andthen'; [destruct t; exact I|exact IH].
Qed.

Lemma string_array_total : forall j, is_ok (string_array j) || is_err (string_array j) = true.
Proof.
  destruct j as [| | | |l|]; try reflexivity. cbn [string_array].
  induction l as [|x r IH]; [reflexivity|].
  destruct x; try reflexivity.
  destruct ((fix go (l : list json) : res (list string) :=
               match l with
               | [] => Ok []
               | JStr s :: r => match go r with Ok t => Ok (s :: t) | e => e end
               | _ :: _ => Err EInvalid
               end) r); cbn in *; auto.
Qed.

Lemma E7_digests_total : forall c, is_ok (E7_digests c) || is_err (E7_digests c) = true.
Proof.
  intros c. unfold E7_digests. destruct (lookup c "_sd") as [sd|]; [|reflexivity].
  pose proof (string_array_total sd) as H. destruct (string_array sd); cbn in *; auto.
Qed.

(* ---------- E10 ---------- *)
Lemma base_only_safe : forall l want stage, safe (base_only Fixed l want stage).
Proof.
  intros l want stage. unfold base_only. destruct l as [|x r]; [exact I|].
  cbn [guard andthen]. apply safe_andthen'; [apply safe_check|].
  apply idx_safe; [cbn; lia|]. intros; apply safe_check.
Qed.

Lemma decode_type_safe : forall t k, (forall l, safe (k l)) -> safe (decode_type t k).
Proof.
  intros t k Hk. unfold decode_type. destruct t as [[]|]; try exact I; [apply Hk|].
  destruct (all_strings _); [apply Hk|exact I].
Qed.

Lemma decode_context_safe : forall c k, (forall l, safe (k l)) -> safe (decode_context c k).
Proof. intros c k Hk. unfold decode_context. destruct c as [[]|]; try exact I; apply Hk. Qed.

Lemma E10_safe : forall m t c, safe (E10 Fixed m t c).
Proof.
  intros m t c. unfold E10. apply decode_type_safe. intros types. apply decode_context_safe. intros ctxs.
  destruct m; [|exact I]. apply safe_andthen'; apply base_only_safe.
Qed.

(* the guard added by the repair excludes exactly the inputs on which the code as found panics *)
Lemma base_only_guard_exact : forall l want stage,
  g_is_panic (base_only AsIs l want stage) = true <-> l = [].
Proof.
  intros l want stage. split.
  - destruct l as [|x r]; [reflexivity|]. unfold base_only. cbn [guard andthen].
    destruct (1 <? List.length (x :: r))%nat; cbn; [discriminate|].
    destruct (negb (String.eqb x want)); cbn; discriminate.
  - intros ->. reflexivity.
Qed.
Lemma base_only_same_elsewhere : forall l want stage, l <> [] ->
  base_only AsIs l want stage = base_only Fixed l want stage.
Proof. intros [|x r] want stage H; [congruence|reflexivity]. Qed.

(* ---------- E11 ---------- *)
Lemma split_on_nonempty : forall c s cur, (1 <= List.length (split_on c s cur))%nat.
Proof.
  intros c s. induction s as [|a r IH]; intros cur; cbn; [lia|].
  destruct (Ascii.eqb a c); cbn; [lia|apply IH].
Qed.

Lemma check_typ_safe : forall t, safe (check_typ t).
Proof.
  intros []; try exact I. cbn [check_typ]. cbv zeta.
  destruct (1 <? List.length (split_on "+"%char s EmptyString))%nat eqn:E; [|apply safe_check].
  apply Nat.ltb_lt in E. apply idx_safe; [lia|]. intros; apply safe_check.
Qed.

Lemma check_headers_safe : forall h, safe (check_headers h).
Proof.
  intros h. unfold check_headers. apply safe_andthen'; [apply safe_check|].
  apply safe_andthen'; [|apply safe_check].
  destruct (lookup h "typ"); [apply check_typ_safe|exact I].
Qed.

Lemma E11_safe : forall i p, safe (E11 Fixed i p).
Proof.
  intros i p. unfold E11. apply safe_andthen'; [apply safe_check|].
  apply safe_andthen'; [apply E4_safe|]. apply safe_andthen'; [|apply safe_lib].
  destruct (e4_hdr i); [apply check_headers_safe|exact I].
Qed.
