(* C03 — property theorems only.  "Fixed" is the repaired /repo, "AsIs" the code as it was found.
   Every E below is the guard layer of an entry point that consumes data of another party; its inputs are ALL
   decoded shapes (any JSON tree / any byte string / any list of recipients, of any size) and ALL verdicts of the
   unmodelled library steps.  never_panics_E: the layer returns a value or an error, never a panic;
   terminates_E: it is a total function (no fuel is ever exhausted: the functions are structurally recursive on
   the input).  For the code as found the same statements are refuted by the witnesses kept in corpus/C03. *)
From Coq Require Import List NArith ZArith String Ascii Bool.
Import ListNotations.
From VF Require Import common.Json common.Res C03.Model C03.Proofs C03.Corr gen.Gen_C03 C03.Sites.
Local Open Scope N_scope.

(* ---------- E1: jose.Deserialize + JWEDecrypt.Decrypt, packer pubKey ---------- *)
Theorem never_panics_E1 : forall (i : e1_in) s, to_res (E1 Fixed i) <> Panic s.
Proof. intros i. exact (safe_no_panic _ (E1_safe i)). Qed.
Print Assumptions never_panics_E1.
Theorem terminates_E1 : forall (i : e1_in), to_res (E1 Fixed i) <> Diverge.
Proof. intros i. exact (safe_no_diverge _ (E1_safe i)). Qed.
Print Assumptions terminates_E1.
Theorem never_panics_E1_pubkey : forall prot l i s, to_res (pubkey_guard Fixed prot l i) <> Panic s.
Proof. intros prot l i. exact (safe_no_panic _ (pubkey_guard_safe prot l i)). Qed.
Print Assumptions never_panics_E1_pubkey.

Definition prot_auth : list (string * json) :=
  [("alg", JStr "ECDH-1PU+A256KW"); ("enc", JStr "XC20P"); ("epk", JObj []); ("apu", JNum 1)]%string.
Definition prot_anon : list (string * json) :=
  [("alg", JStr "ECDH-ES+A256KW"); ("enc", JStr "XC20P")]%string.
Definition r_ok := Some {| r_ek_ok := true; r_hdr := Some "did:key:z6LS"%string |}.
Definition r_nohdr := Some {| r_ek_ok := true; r_hdr := None |}.

(* the code as found: null entry of "recipients" (#2), "apu":1 on a two-recipient JWE (#3), an entry without
   "header" under ECDH-ES and under ECDH-1PU *)
Theorem never_panics_E1_asis_refuted :
  E1 AsIs {| e1_pre_ok := true; e1_prot := prot_anon; e1_rcpts := [None]; e1_post_ok := true |} = GPanic 2 /\
  E1 AsIs {| e1_pre_ok := true; e1_prot := prot_auth; e1_rcpts := [r_ok; r_ok]; e1_post_ok := true |} = GPanic 3 /\
  E1 AsIs {| e1_pre_ok := true; e1_prot := prot_anon; e1_rcpts := [r_ok; r_nohdr]; e1_post_ok := true |} = GPanic 6 /\
  E1 AsIs {| e1_pre_ok := true; e1_prot := ("skid", JStr "s") :: prot_auth; e1_rcpts := [r_nohdr; r_ok];
             e1_post_ok := true |}%string = GPanic 6 /\
  pubkey_guard AsIs prot_anon [r_ok; r_nohdr] 1 = GPanic 8.
Proof. repeat split; vm_compute; reflexivity. Qed.
Print Assumptions never_panics_E1_asis_refuted.

Example E1_fixed_rejects_witnesses :
  E1 Fixed {| e1_pre_ok := true; e1_prot := prot_anon; e1_rcpts := [None]; e1_post_ok := true |} = GRej 2 /\
  E1 Fixed {| e1_pre_ok := true; e1_prot := prot_anon; e1_rcpts := [r_ok; r_nohdr]; e1_post_ok := true |} = GRej 6 /\
  E1 Fixed {| e1_pre_ok := true; e1_prot := ("skid", JStr "s") :: prot_auth; e1_rcpts := [r_ok; r_ok];
              e1_post_ok := true |}%string = GPass.
Proof. repeat split; vm_compute; reflexivity. Qed.

(* ---------- E2: packager.getEncodingType ---------- *)
Theorem never_panics_E2 : forall (b : list N) s, to_res (E2 Fixed b) <> Panic s.
Proof. intros b. exact (safe_no_panic _ (E2_safe b)). Qed.
Print Assumptions never_panics_E2.
Theorem terminates_E2 : forall (b : list N), to_res (E2 Fixed b) <> Diverge.
Proof. intros b. exact (safe_no_diverge _ (E2_safe b)). Qed.
Print Assumptions terminates_E2.
(* one double-quote byte (#20) *)
Theorem never_panics_E2_asis_refuted : E2 AsIs [34] = GPanic 20.
Proof. vm_compute; reflexivity. Qed.
Print Assumptions never_panics_E2_asis_refuted.
Example E2_quoted_passes : E2 Fixed [34; 65; 65; 34] = GPass /\ E2 AsIs [34; 65; 65; 34] = GPass.
Proof. split; vm_compute; reflexivity. Qed.

(* the transport helper one layer below (raw frames of the websocket / http transports) *)
Theorem never_panics_E2_transport : forall (frame : list N) s, to_res (E2_transport Fixed frame) <> Panic s.
Proof. intros b. exact (safe_no_panic _ (E2_transport_safe b)). Qed.
Print Assumptions never_panics_E2_transport.
Theorem never_panics_E2_transport_asis_refuted : E2_transport AsIs [34] = GPanic 21.
Proof. vm_compute; reflexivity. Qed.
Print Assumptions never_panics_E2_transport_asis_refuted.

(* ---------- E3: legacy authcrypt / anoncrypt Unpack ---------- *)
Theorem never_panics_E3 : forall (i : e3_in) s, to_res (E3 Fixed i) <> Panic s.
Proof. intros i. exact (safe_no_panic _ (E3_safe i)). Qed.
Print Assumptions never_panics_E3.
Theorem terminates_E3 : forall (i : e3_in), to_res (E3 Fixed i) <> Diverge.
Proof. intros i. exact (safe_no_diverge _ (E3_safe i)). Qed.
Print Assumptions terminates_E3.
Definition e3_good (kids : list (bool * bool)) (sender_ascii : bool) (iv : N) : e3_in :=
  {| e3_lib_ok := true; e3_typ_ok := true; e3_alg_ok := true; e3_kids := kids; e3_cek_ok := true;
     e3_sender_ascii := sender_ascii; e3_fields_ok := true; e3_iv_len := iv |}.
(* a 5-byte outer iv (#17); a recipient kid / a sender key with a non-ASCII rune *)
Theorem never_panics_E3_asis_refuted :
  E3 AsIs (e3_good [(true, true)] true 5) = GPanic 17 /\
  E3 AsIs (e3_good [(false, false); (true, true)] true 12) = GPanic 31 /\
  E3 AsIs (e3_good [(true, true)] false 12) = GPanic 34.
Proof. repeat split; vm_compute; reflexivity. Qed.
Print Assumptions never_panics_E3_asis_refuted.
Example E3_fixed : E3 Fixed (e3_good [(true, false); (true, true)] true 12) = GPass /\
                   E3 Fixed (e3_good [(true, true)] true 5) = GRej 17.
Proof. split; vm_compute; reflexivity. Qed.

(* ---------- E4: jose.ParseJWS / jwt verifier ---------- *)
Theorem never_panics_E4 : forall (i : e4_in) s, to_res (E4 Fixed i) <> Panic s.
Proof. intros i. exact (safe_no_panic _ (E4_safe i)). Qed.
Print Assumptions never_panics_E4.
Theorem terminates_E4 : forall (i : e4_in), to_res (E4 Fixed i) <> Diverge.
Proof. intros i. exact (safe_no_diverge _ (E4_safe i)). Qed.
Print Assumptions terminates_E4.
Definition hdr (kid : string) : e4_in :=
  {| e4_parts := 3; e4_hdr := Some [("alg", JStr "EdDSA"); ("kid", JStr kid)]%string; e4_alg_known := true |}.
(* kid "did:example:123" without a fragment (#4) *)
Theorem never_panics_E4_asis_refuted : E4 AsIs (hdr "did:example:123") = GPanic 4.
Proof. vm_compute; reflexivity. Qed.
Print Assumptions never_panics_E4_asis_refuted.
Example E4_fixed : E4 Fixed (hdr "did:example:123") = GRej 45 /\ E4 Fixed (hdr "did:example:123#k") = GPass /\
                   E4 AsIs (hdr "did:example:123#k") = GPass.
Proof. repeat split; vm_compute; reflexivity. Qed.

(* ---------- E5: BBS+ byte parsers ---------- *)
Theorem never_panics_E5_signature : forall pt (b : list N) s, to_res (parse_signature pt b) <> Panic s.
Proof. intros pt b. exact (safe_no_panic _ (parse_signature_safe pt b)). Qed.
Print Assumptions never_panics_E5_signature.
Theorem never_panics_E5_proof_g1 : forall pt (b : list N) s, to_res (parse_proof_g1 pt b) <> Panic s.
Proof. intros pt b. exact (safe_no_panic _ (parse_proof_g1_safe pt b)). Qed.
Print Assumptions never_panics_E5_proof_g1.
Theorem never_panics_E5_signature_proof : forall pts (b : list N) s,
  to_res (parse_signature_proof Fixed pts b) <> Panic s.
Proof. intros pts b. exact (safe_no_panic _ (parse_signature_proof_safe pts b)). Qed.
Print Assumptions never_panics_E5_signature_proof.
Theorem never_panics_E5_verify_proof : forall pts key_ok nmsgs (b : list N) s,
  to_res (verify_proof Fixed pts key_ok nmsgs b) <> Panic s.
Proof. intros pts k n b. exact (safe_no_panic _ (verify_proof_safe pts k n b)). Qed.
Print Assumptions never_panics_E5_verify_proof.
Theorem terminates_E5 : forall pts key_ok nmsgs (b : list N),
  to_res (verify_proof Fixed pts key_ok nmsgs b) <> Diverge.
Proof. intros pts k n b. exact (safe_no_diverge _ (verify_proof_safe pts k n b)). Qed.
Print Assumptions terminates_E5.
Theorem never_panics_E5_proof_g1_verify : forall nbases nresp s,
  to_res (proof_g1_verify Fixed nbases nresp) <> Panic s.
Proof. intros nb nr. exact (safe_no_panic _ (proof_g1_verify_safe nb nr)). Qed.
Print Assumptions never_panics_E5_proof_g1_verify.
(* the work VerifyProof does before it can reject (generators derived from the announced message count) is
   bounded by the size of the input *)
Theorem cost_linear : forall (b : list N), (cost b <= 8 * zlen b)%Z.
Proof. exact cost_bound. Qed.
Print Assumptions cost_linear.

(* verifyVC2Proof indexes the verifier's messages by a running counter: it stays inside them whenever the payload
   reveals no more indexes than there are messages (the test VerifyProof makes), for every count and every index set *)
Theorem never_panics_E5_verify_vc2 : forall count revealed nmsgs s,
  (Z.of_nat (List.length revealed) <= nmsgs)%Z -> to_res (verify_vc2 count revealed nmsgs) <> Panic s.
Proof. intros c r n s H. exact (safe_no_panic _ (verify_vc2_safe c r n H) s). Qed.
Print Assumptions never_panics_E5_verify_vc2.
(* and that test is needed: three revealed indexes, two messages *)
Theorem verify_vc2_unguarded_refuted : verify_vc2 4 [0; 1; 3]%Z 2 = GPanic 58.
Proof. vm_compute; reflexivity. Qed.
Print Assumptions verify_vc2_unguarded_refuted.

Definition zeros (n : nat) : list N := repeat 0 n.
(* 144 bytes of points followed by a length field larger than the rest (#5, #23); a payload announcing 0 messages
   with 8 revealed bits; fewer responses than bases (#19) *)
Theorem never_panics_E5_asis_refuted :
  parse_signature_proof AsIs all_ok (zeros 144 ++ [0; 0; 1; 0]) = GPanic 5 /\
  verify_proof AsIs all_ok true 9 ([0; 0; 255] ++ zeros 144 ++ [0; 0; 0; 52] ++ zeros 52 ++ zeros 52) = GPanic 23 /\
  proof_g1_verify AsIs 2 0 = GPanic 19.
Proof. repeat split; vm_compute; reflexivity. Qed.
Print Assumptions never_panics_E5_asis_refuted.
Example E5_fixed :
  parse_signature_proof Fixed all_ok (zeros 144 ++ [0; 0; 1; 0]) = GRej 53 /\
  verify_proof Fixed all_ok true 9 ([0; 0; 255] ++ zeros 144 ++ [0; 0; 0; 52] ++ zeros 52 ++ zeros 52) = GRej 56 /\
  verify_proof Fixed all_ok true 9 ([0; 9; 0; 1] ++ zeros 144 ++ [0; 0; 0; 52] ++ zeros 52 ++ zeros 52) = GPass /\
  cost ([0; 9; 0; 1] ++ zeros 300) = 9%Z.
Proof. repeat split; vm_compute; reflexivity. Qed.

(* ---------- E6: did:key / fingerprint decoding ---------- *)
Theorem never_panics_E6 : forall point (i : e6_in) s, to_res (E6 Fixed point i) <> Panic s.
Proof. intros p i. exact (safe_no_panic _ (E6_safe p i)). Qed.
Print Assumptions never_panics_E6.
Theorem never_panics_E6_fingerprint : forall (i : e6_in) s, to_res (E6f Fixed i) <> Panic s.
Proof. intros i. exact (safe_no_panic _ (E6f_safe i)). Qed.
Print Assumptions never_panics_E6_fingerprint.
Theorem terminates_E6 : forall point (i : e6_in), to_res (E6 Fixed point i) <> Diverge.
Proof. intros p i. exact (safe_no_diverge _ (E6_safe p i)). Qed.
Print Assumptions terminates_E6.
(* binary.Uvarint never reports more bytes than it was given *)
Theorem uvarint_reads_within : forall l, (snd (uvarint l) <= zlen l)%Z.
Proof. exact uvarint_bound. Qed.
Print Assumptions uvarint_reads_within.
Definition dk (ascii : bool) (b : list N) : e6_in := {| e6_z := true; e6_ascii := ascii; e6_bytes := b |}.
(* P-256 multicodec + bytes that are no curve point (#29); a non-ASCII rune; a varint that overflows 64 bits;
   a BBS+ G1G2 multicodec followed by 16 bytes *)
Theorem never_panics_E6_asis_refuted :
  E6 AsIs None (dk true ([128; 36] ++ repeat 7 10)) = GPanic 29 /\
  E6f AsIs (dk false []) = GPanic 62 /\
  E6f AsIs (dk true (repeat 255 9 ++ [127; 1; 2; 3])) = GPanic 63 /\
  E6f AsIs (dk true ([238; 1] ++ repeat 7 16)) = GPanic 65.
Proof. repeat split; vm_compute; reflexivity. Qed.
Print Assumptions never_panics_E6_asis_refuted.
Example E6_fixed :
  E6 Fixed None (dk true ([128; 36] ++ repeat 7 10)) = GRej 68 /\
  E6 Fixed (Some tt) (dk true ([128; 36] ++ repeat 7 33)) = GPass /\
  E6f Fixed (dk true (repeat 255 9 ++ [127; 1; 2; 3])) = GRej 61 /\
  E6f Fixed (dk true ([238; 1] ++ repeat 7 16)) = GRej 66 /\
  uvarint [237; 1; 9] = (237, 2%Z) /\ uvarint [128; 36] = (4608, 2%Z) /\ uvarint [128] = (0, 0%Z).
Proof. repeat split; vm_compute; reflexivity. Qed.

(* ---------- E8: message pickup handlers ---------- *)
Theorem never_panics_E8 : forall inbox thread held batch s,
  to_res (E8_status Fixed inbox thread) <> Panic s /\ to_res (E8_batch Fixed held batch) <> Panic s.
Proof.
  intros ib t h b s. split.
  - exact (safe_no_panic _ (E8_status_safe ib t) s).
  - exact (safe_no_panic _ (E8_batch_safe h b) s).
Qed.
Print Assumptions never_panics_E8.
(* status-request without ~thread once an inbox exists (#10); batch_size -1 (#9) *)
Theorem never_panics_E8_asis_refuted :
  E8_status AsIs true None = GPanic 10 /\ E8_batch AsIs [1; 2] (-1) = GPanic 9.
Proof. split; vm_compute; reflexivity. Qed.
Print Assumptions never_panics_E8_asis_refuted.

(* ---------- E7: SD-JWT helpers (sdjwt/common) ---------- *)
Theorem never_panics_E7 : forall (d : option (list json)) (claims : list (string * json)) s,
  to_res (E7_disclosure d) <> Panic s /\ to_res (E7_cnf claims) <> Panic s.
Proof.
  intros d c s. split.
  - exact (safe_no_panic _ (E7_disclosure_safe d) s).
  - exact (safe_no_panic _ (E7_cnf_safe c) s).
Qed.
Print Assumptions never_panics_E7.
Theorem terminates_E7 : forall (d : option (list json)) (claims : list (string * json)),
  to_res (E7_disclosure d) <> Diverge /\ to_res (E7_cnf claims) <> Diverge /\
  is_ok (E7_digests claims) || is_err (E7_digests claims) = true.
Proof.
  intros d c. split; [exact (safe_no_diverge _ (E7_disclosure_safe d))|].
  split; [exact (safe_no_diverge _ (E7_cnf_safe c))|exact (E7_digests_total c)].
Qed.
Print Assumptions terminates_E7.
Example E7_examples :
  E7_disclosure (Some [JStr "salt"; JStr "name"; JNum 1]) = GPass /\
  E7_disclosure (Some [JStr "salt"]) = GRej 71 /\ E7_disclosure (Some [JNum 1; JNull]) = GRej 72 /\
  E7_disclosure (Some [JStr "s"; JNum 1; JNull]) = GRej 73 /\
  E7_digests [("_sd", JArr [JStr "a"]); ("n", JArr [JObj [("...", JStr "b")]; JObj [("...", JNum 1)]; JStr "x"])]
    = Ok ["a"; "b"]%string /\
  E7_digests [("_sd", JArr [JNum 1])] = Err EInvalid /\
  E7_cnf [("vc", JObj [("cnf", JObj [])])] = GPass /\ E7_cnf [("cnf", JNull)] = GRej 77.
Proof. repeat split; vm_compute; reflexivity. Qed.

(* ---------- E9: connection protocol handlers, introduce, pack side ---------- *)
Theorem never_panics_E9 : forall has_did keys thread found did_ok public attach rec_keys sig verify_ok
    conv pack typed s,
  to_res (E9_invitation_key Fixed has_did keys) <> Panic s /\
  to_res (E9_thread thread found) <> Panic s /\
  to_res (E9_attachment did_ok public attach) <> Panic s /\
  to_res (E9_legacy_response Fixed rec_keys sig verify_ok) <> Panic s /\
  to_res (E9_convert_keys Fixed conv) <> Panic s /\
  to_res (E9_pack_keys Fixed pack) <> Panic s /\
  to_res (E9_meta_recipients Fixed typed) <> Panic s.
Proof.
  intros. repeat split.
  - exact (safe_no_panic _ (E9_invitation_key_safe has_did keys) s).
  - exact (safe_no_panic _ (E9_thread_safe thread found) s).
  - exact (safe_no_panic _ (E9_attachment_safe did_ok public attach) s).
  - exact (safe_no_panic _ (E9_legacy_response_safe rec_keys sig verify_ok) s).
  - exact (safe_no_panic _ (E9_convert_keys_safe conv) s).
  - exact (safe_no_panic _ (E9_pack_keys_safe pack) s).
  - exact (safe_no_panic _ (E9_meta_recipients_safe typed) s).
Qed.
Print Assumptions never_panics_E9.
Theorem terminates_E9 : forall has_did keys rec_keys sig verify_ok conv pack typed,
  to_res (E9_invitation_key Fixed has_did keys) <> Diverge /\
  to_res (E9_legacy_response Fixed rec_keys sig verify_ok) <> Diverge /\
  to_res (E9_convert_keys Fixed conv) <> Diverge /\
  to_res (E9_pack_keys Fixed pack) <> Diverge /\
  to_res (E9_meta_recipients Fixed typed) <> Diverge.
Proof.
  intros. repeat split.
  - exact (safe_no_diverge _ (E9_invitation_key_safe has_did keys)).
  - exact (safe_no_diverge _ (E9_legacy_response_safe rec_keys sig verify_ok)).
  - exact (safe_no_diverge _ (E9_convert_keys_safe conv)).
  - exact (safe_no_diverge _ (E9_pack_keys_safe pack)).
  - exact (safe_no_diverge _ (E9_meta_recipients_safe typed)).
Qed.
Print Assumptions terminates_E9.
(* the code as found: an invitation without recipient keys; a legacy response without connection~sig once the
   request is out; a legacy request whose IndyAgent service key has a non-ASCII rune; a legacy invitation key with a
   non-ASCII rune reaching PackMessage; a repeated introduce request (recipients reloaded from the store) *)
Theorem never_panics_E9_asis_refuted :
  E9_invitation_key AsIs false [] = GPanic 94 /\
  E9_legacy_response AsIs [(false, true)] None true = GPanic 96 /\
  E9_convert_keys AsIs [(false, false, false, false)] = GPanic 90 /\
  E9_pack_keys AsIs [false] = GPanic 89 /\
  E9_meta_recipients AsIs [false; false] = GPanic 88.
Proof. repeat split; vm_compute; reflexivity. Qed.
Print Assumptions never_panics_E9_asis_refuted.
Example E9_fixed :
  E9_invitation_key Fixed false [] = GRej 94 /\ E9_invitation_key Fixed false ["k"%string] = GPass /\
  E9_legacy_response Fixed [(false, true)] None true = GRej 96 /\
  E9_legacy_response Fixed [(false, true)]
    (Some {| sv_data_ok := true; sv_data_len := 10; sv_sig_ok := true |}) true = GPass /\
  E9_legacy_response Fixed [(false, true)]
    (Some {| sv_data_ok := true; sv_data_len := 8; sv_sig_ok := true |}) true = GRej 99 /\
  E9_thread None true = GRej 91 /\ E9_thread (Some "t"%string) true = GPass /\
  E9_attachment true false None = GRej 92.
Proof. repeat split; vm_compute; reflexivity. Qed.

(* ---------- E10: verifiable.ParseCredential raw type switches + base-context validation ---------- *)
Theorem never_panics_E10 : forall base_mode (typ ctx : option json) s, to_res (E10 Fixed base_mode typ ctx) <> Panic s.
Proof. intros m t c. exact (safe_no_panic _ (E10_safe m t c)). Qed.
Print Assumptions never_panics_E10.
Theorem terminates_E10 : forall base_mode (typ ctx : option json), to_res (E10 Fixed base_mode typ ctx) <> Diverge.
Proof. intros m t c. exact (safe_no_diverge _ (E10_safe m t c)). Qed.
Print Assumptions terminates_E10.
(* "type": [] / "@context": [] under WithBaseContextValidation (vc.Types[0] / vc.Context[0]) *)
Theorem never_panics_E10_asis_refuted :
  E10 AsIs true (Some (JArr [])) (Some (JStr BASE_CTX)) = GPanic 100 /\
  E10 AsIs true (Some (JStr VC_TYPE)) (Some (JArr [])) = GPanic 100 /\
  E10 AsIs true (Some (JStr VC_TYPE)) (Some (JArr [JObj []])) = GPanic 100.
Proof. repeat split; vm_compute; reflexivity. Qed.
Print Assumptions never_panics_E10_asis_refuted.
(* the repair's guard excludes exactly the inputs on which the code as found panics, and changes nothing else *)
Theorem E10_guard_exact : forall l want stage,
  (g_is_panic (base_only AsIs l want stage) = true <-> l = []) /\
  (l <> [] -> base_only AsIs l want stage = base_only Fixed l want stage).
Proof. intros l w s. split; [exact (base_only_guard_exact l w s)|exact (base_only_same_elsewhere l w s)]. Qed.
Print Assumptions E10_guard_exact.
Example E10_fixed :
  E10 Fixed true (Some (JArr [])) (Some (JStr BASE_CTX)) = GRej 103 /\
  E10 Fixed true (Some (JStr VC_TYPE)) (Some (JArr [])) = GRej 104 /\
  E10 Fixed true (Some (JArr [JStr VC_TYPE])) (Some (JArr [JStr BASE_CTX])) = GPass /\
  E10 Fixed true (Some (JArr [JStr VC_TYPE; JStr "X"])) (Some (JStr BASE_CTX)) = GRej 103 /\
  E10 Fixed false (Some (JArr [JStr VC_TYPE; JNum 1])) (Some (JStr BASE_CTX)) = GRej 101 /\
  E10 Fixed false (Some (JStr VC_TYPE)) None = GRej 102 /\
  E10 AsIs false (Some (JArr [])) (Some (JArr [])) = GPass.
Proof. repeat split; vm_compute; reflexivity. Qed.

(* ---------- E11: jwt.Parse (IsCompactJWS, ParseJWS, checkHeaders / checkTypHeader, PayloadToMap) ---------- *)
Theorem never_panics_E11 : forall (i : e4_in) payload_ok s, to_res (E11 Fixed i payload_ok) <> Panic s.
Proof. intros i p. exact (safe_no_panic _ (E11_safe i p)). Qed.
Print Assumptions never_panics_E11.
Theorem terminates_E11 : forall (i : e4_in) payload_ok, to_res (E11 Fixed i payload_ok) <> Diverge.
Proof. intros i p. exact (safe_no_diverge _ (E11_safe i p)). Qed.
Print Assumptions terminates_E11.
(* strings.Split never returns an empty slice: chunks[1] is only read behind len(chunks) > 1 *)
Theorem split_never_empty : forall c s, (1 <= List.length (split_on c s EmptyString))%nat.
Proof. intros c s. exact (split_on_nonempty c s EmptyString). Qed.
Print Assumptions split_never_empty.
Definition hdr_typ (typ : json) : e4_in :=
  {| e4_parts := 3; e4_hdr := Some [("alg", JStr "EdDSA"); ("kid", JStr "did:example:1#k"); ("typ", typ)]%string;
     e4_alg_known := true |}.
(* jwt.Parse inherits the kid handling of the verifier (#4) *)
Theorem never_panics_E11_asis_refuted : E11 AsIs (hdr "did:example:123") true = GPanic 4.
Proof. vm_compute; reflexivity. Qed.
Print Assumptions never_panics_E11_asis_refuted.
Example E11_examples :
  E11 Fixed (hdr_typ (JStr "JWT")) true = GPass /\ E11 Fixed (hdr_typ (JStr "vc+sd-jwt")) true = GPass /\
  E11 Fixed (hdr_typ (JStr "a+b")) true = GRej 114 /\ E11 Fixed (hdr_typ (JStr "+")) true = GRej 114 /\
  E11 Fixed (hdr_typ (JStr "jwt")) true = GRej 115 /\ E11 Fixed (hdr_typ (JNum 1)) true = GRej 113 /\
  E11 Fixed (hdr "did:example:123") true = GRej 45 /\
  E11 Fixed {| e4_parts := 3; e4_hdr := Some [("alg", JStr "EdDSA"); ("kid", JStr "did:e:1#k"); ("cty", JStr "JWT")]%string;
               e4_alg_known := true |} true = GRej 116.
Proof. repeat split; vm_compute; reflexivity. Qed.

(* ---------- the panic sites of the anchored files (table regenerated from /repo on every run) ---------- *)
(* every unchecked type assertion, index and slice expression of the anchored files is either a dangerous operation
   of the model (with its guard) or has a reviewed entry saying why another party's data cannot drive it outside its
   domain; same file, function, kind, expression and number of copies *)
Theorem sites_all_reviewed : forallb covered Gen_C03.sites = true.
Proof. exact all_reviewed. Qed.
Print Assumptions sites_all_reviewed.
Theorem reviewed_none_stale : forallb live reviewed = true.
Proof. exact none_stale. Qed.
Print Assumptions reviewed_none_stale.
(* the anchored files contain no explicit call of panic *)
Theorem no_explicit_panic : existsb is_panic_call Gen_C03.sites = false.
Proof. exact no_panic_call. Qed.
Print Assumptions no_explicit_panic.
Theorem modelled_sites_named : forallb names_model_site reviewed = true.
Proof. exact modelled_named. Qed.
Print Assumptions modelled_sites_named.
Example sites_nontrivial :
  (100 <=? List.length Gen_C03.sites)%nat = true /\ (30 <=? List.length (filter modelled reviewed))%nat = true /\
  (30 <=? List.length Gen_C03.files)%nat = true /\
  covered {| s_file := "x.go"; s_func := "f"; s_kind := KAssert; s_expr := "v.(string)"; s_count := 1 |} = false.
Proof. repeat split; vm_compute; reflexivity. Qed.

(* ---------- the correspondence check decides what it should ---------- *)
(* a case in which the implementation panicked or timed out never passes the check *)
Theorem check_rejects_crashes : forall i, check_case {| c_in := i; c_obs := OPanic |} = false /\
                                          check_case {| c_in := i; c_obs := OTimeout |} = false.
Proof. intros i. unfold check_case, agrees. cbn [c_in c_obs]. destruct (run Fixed i); auto. Qed.
Print Assumptions check_rejects_crashes.
