(* C11 — correspondence: the harness runs one operation sequence on a real stack of providers/wrappers and records
   what every call returned; the same sequence is run here on the model of that stack (the very [step] functions of
   the theorems) and on the contract ([spec_step]); query results are compared as sets (both sides sorted by key). *)
From Coq Require Import List NArith ZArith Bool.
Import ListNotations.
From VF Require Export C11.Model.
Local Open Scope N_scope.

Inductive fkind := FNoop | FB64.
Inductive stack :=
| SMem
| SLevel
| SCached (s : stack)
| SBatched (limit : Z) (s : stack)
| SFmt (f : fkind) (s : stack)
| SFmtR (f : fkind) (s : stack)      (* random (non-deterministic) key formatting *)
| SFmtE (s : stack).                 (* random key formatting with a formatter that embeds the key (EDV encrypted formatter) *)

Definition fmt_of (f : fkind) : formatter := match f with FNoop => noop_fmt | FB64 => b64_fmt end.

(* the models follow the repaired code: mem Query keyed by criterion, cachedstore fill with tags *)
Fixpoint prov_of (s : stack) : prov :=
  match s with
  | SMem => mem true
  | SLevel => leveldb
  | SCached s' => cached true (prov_of s')
  | SBatched l s' => batched l (prov_of s')
  | SFmt f s' => formatted_det (fmt_of f) (prov_of s')
  | SFmtR f s' => formatted_rand true (fmt_of f) (prov_of s')
  | SFmtE s' => formatted_rand_embed true b64_fmt (prov_of s')
  end.

Fixpoint persistent (s : stack) : bool :=
  match s with SMem => false | SLevel => true | SCached s' | SBatched _ s' | SFmt _ s' | SFmtR _ s' | SFmtE s' => persistent s' end.

(* the user calls Flush on the store (the Rewrap step runs the model's Flush first), then new wrapper objects are built
   over the provider that holds the data; the deep flush below is then a no-op kept for the proofs *)
Fixpoint rewrap (s : stack) : St (prov_of s) -> St (prov_of s) :=
  match s return St (prov_of s) -> St (prov_of s) with
  | SMem => fun x => x
  | SLevel => fun x => x
  | SCached s' => fun x => (rewrap s' (fst x), [])
  | SBatched l s' => fun x => (rewrap s' (fst (fst (bflush (prov_of s') x))), [])
  | SFmt _ s' => fun x => rewrap s' x
  | SFmtR _ s' => fun x => (rewrap s' (fst x), snd x)
  | SFmtE s' => fun x => (rewrap s' (fst x), snd x)
  end.

(* QOpt: Query with options.  [sup = true]: only WithPageSize (performance only: same answer as Query); [sup = false]:
   WithInitialPageNum / WithSortOrder, which mem and leveldb document as unsupported: an error, through every wrapper
   (a wrapper must hand the options down, not drop them) *)
Inductive hop := Op (o : op) | Rewrap | QOpt (q : list crit) (sup : bool).

(* --- comparison of outputs --- *)
Fixpoint list_eqb {A} (eqb : A -> A -> bool) (a b : list A) : bool :=
  match a, b with
  | [], [] => true
  | x :: r, y :: t => eqb x y && list_eqb eqb r t
  | _, _ => false
  end.
Definition tag_eqb (a b : tag) : bool := N.eqb (fst a) (fst b) && N.eqb (snd a) (snd b).
Definition entry_eqb (a b : entry) : bool := N.eqb (fst a) (fst b) && list_eqb tag_eqb (snd a) (snd b).
Definition ke_eqb (a b : key * entry) : bool := N.eqb (fst a) (fst b) && entry_eqb (snd a) (snd b).
Fixpoint insert_ke (x : key * entry) (l : list (key * entry)) : list (key * entry) :=
  match l with
  | [] => [x]
  | y :: r => if N.leb (fst x) (fst y) then x :: l else y :: insert_ke x r
  end.
Definition sort_ke (l : list (key * entry)) : list (key * entry) := fold_right insert_ke [] l.
Definition out_eqb (a b : out) : bool :=
  match a, b with
  | ODone, ODone | OErr, OErr | ONotFound, ONotFound => true
  | OVal x, OVal y => N.eqb x y
  | OTags x, OTags y => list_eqb tag_eqb x y
  | OBulk x, OBulk y => list_eqb N.eqb x y
  | OQuery x, OQuery y => list_eqb ke_eqb (sort_ke x) (sort_ke y)
  | _, _ => false
  end.

(* a case: the stack, the steps with the observed result of each, and the verdict of the harness's direct oracle
   (true = every observed result is what the contract prescribes, on the operations the contract speaks about) *)
(* [c_psteps]: a provider-level scenario (OpenStore / SetStoreConfig / ... ) run on the in-memory provider itself *)
(* [c_keytags]: (key, class of the Key tag value the code wrote for it): two keys are in one class iff the code gave them
   the same tag value *)
Record case := { c_stack : stack; c_steps : list (hop * out); c_psteps : list (pop * pout); c_keytags : list (N * N);
                 c_conj : bool; c_oracle : bool }.

(* the contract is silent where a store does not support "&&" (optional) : those steps are skipped by both oracles *)
Definition in_contract (conj : bool) (o : op) : bool :=
  match o with Query (_ :: _ :: _) => conj | _ => true end.

Fixpoint check_model (P : prov) (rw : St P -> St P) (s : St P) (steps : list (hop * out)) : bool :=
  match steps with
  | [] => true
  | (Op o, x) :: r => let '(s1, y) := step P s o in out_eqb x y && check_model P rw s1 r
  | (Rewrap, x) :: r => let '(s1, y) := step P s Flush in out_eqb x y && check_model P rw (rw s1) r
  | (QOpt q sup, x) :: r => let '(s1, y) := step P s (Query q) in out_eqb x (if sup then y else OErr) && check_model P rw s1 r
  end.

Fixpoint spec_agrees (persist conj : bool) (a : store) (steps : list (hop * out)) : bool :=
  match steps with
  | [] => true
  | (Op o, x) :: r =>
      let '(a1, y) := spec_step persist a o in
      (negb (in_contract conj o) || out_eqb x y) && spec_agrees persist conj a1 r
  | (Rewrap, x) :: r => out_eqb x ODone && spec_agrees persist conj a r
  | (QOpt q sup, x) :: r =>
      let '(a1, y) := spec_step persist a (Query q) in
      (negb (in_contract conj (Query q)) || out_eqb x (if sup then y else OErr)) && spec_agrees persist conj a1 r
  end.

Definition pout_eqb (a b : pout) : bool :=
  match a, b with
  | PDone, PDone | PErr, PErr | PNoStore, PNoStore => true
  | PCfg x, PCfg y | POpenSet x, POpenSet y => list_eqb N.eqb x y
  | POut x, POut y => out_eqb x y
  | _, _ => false
  end.
Fixpoint check_pmodel (pst : pstate -> pop -> pstate * pout) (p : pstate) (steps : list (pop * pout)) : bool :=
  match steps with
  | [] => true
  | (o, x) :: r => let '(p1, y) := pst p o in pout_eqb x y && check_pmodel pst p1 r
  end.

(* the observed Key tag table identifies exactly the keys that the model's key_tag_value identifies *)
Definition keytags_agree (tbl : list (N * N)) : bool :=
  forallb (fun a => forallb (fun b => Bool.eqb (N.eqb (snd a) (snd b)) (N.eqb (key_tag_value (fst a)) (key_tag_value (fst b)))) tbl) tbl.
Definition keytags_injective (tbl : list (N * N)) : bool :=
  forallb (fun a => forallb (fun b => implb (N.eqb (snd a) (snd b)) (N.eqb (fst a) (fst b))) tbl) tbl.

Definition check_case (c : case) : bool :=
  check_model (prov_of (c_stack c)) (rewrap (c_stack c)) (init (prov_of (c_stack c))) (c_steps c)
  && check_pmodel mem_pstep [] (c_psteps c)
  && Bool.eqb (spec_agrees (persistent (c_stack c)) (c_conj c) [] (c_steps c) && check_pmodel (pspec_step false) [] (c_psteps c)
              && keytags_agree (c_keytags c)) (c_oracle c).

Fixpoint mismatches_from (i : nat) (cs : list case) : list nat :=
  match cs with
  | [] => []
  | c :: r => if check_case c then mismatches_from (S i) r else i :: mismatches_from (S i) r
  end.
Definition mismatches := mismatches_from 0.
