(* C11 — lemmas: every stack of wrappers over LevelDB (caching, batching, deterministic AND random-key formatting, any
   depth and order) against the same stack over the contract machine itself: bisimilar on histories whose queries carry
   a tag value; the stack over the contract machine simulates the contract (generic wrapper lemmas, Close keeps the data). *)
From Coq Require Import List NArith ZArith Bool Lia.
Import ListNotations.
From VF Require Import C11.Model C11.Proofs C11.ProofsB C11.ProofsL C11.ProofsF C11.ProofsR C11.ProofsO C11.ProofsE C11.Corr C11.ProofsS C11.ProofsG C11.ProofsT C11.ProofsV.
Local Open Scope N_scope.

Definition SP : prov := spec_prov true.

(* the stack with LevelDB replaced by the contract machine *)
Fixpoint over (s : stack) : prov :=
  match s with
  | SLevel => SP
  | SMem => mem true
  | SCached s' => cached true (over s')
  | SBatched l s' => batched l (over s')
  | SFmt f s' => formatted_det (fmt_of f) (over s')
  | SFmtR f s' => formatted_rand true (fmt_of f) (over s')
  | SFmtE s' => formatted_rand_embed true b64_fmt (over s')
  end.

Fixpoint lnames (s : stack) : N -> bool :=
  match s with
  | SLevel => fun _ => true
  | SCached s' | SBatched _ s' => lnames s'
  | SFmt f s' => fun n => lnames s' (fn (fmt_of f) n)
  | SFmtR f s' => fun n => negb (n =? KEYN) && lnames s' (fn (fmt_of f) n)
  | _ => fun _ => false
  end.
Fixpoint lstack_ok (s : stack) : bool :=
  match s with
  | SLevel => true
  | SCached s' | SBatched _ s' | SFmt _ s' => lstack_ok s'
  | SFmtR f s' => lstack_ok s' && lnames s' (fn (fmt_of f) KEYN)
  | _ => false
  end.

Definition gv (pn : N -> bool) (o : op) : bool := guard_n pn o && vq o && lg o.

Lemma gv_guard pn o : gv pn o = true -> guard_n pn o = true.
Proof. unfold gv. intros H. apply andb_prop in H as [H _]. apply andb_prop in H as [H _]. exact H. Qed.
Lemma gv_vq pn o : gv pn o = true -> vq o = true.
Proof. unfold gv. intros H. apply andb_prop in H as [H _]. apply andb_prop in H as [_ H]. exact H. Qed.
Lemma gv_lg pn o : gv pn o = true -> lg o = true.
Proof. unfold gv. intros H. apply andb_prop in H as [_ H]. exact H. Qed.
Lemma gv_intro pn o : guard_n pn o = true -> vq o = true -> lg o = true -> gv pn o = true.
Proof. unfold gv. intros -> -> ->. reflexivity. Qed.

Lemma bisim_weaken (G G' : op -> bool) P Q R : (forall o, G' o = true -> G o = true) -> bisim G P Q R -> bisim G' P Q R.
Proof. intros HG H s t o Ho HR. apply H; [apply HG; exact Ho|exact HR]. Qed.

Lemma lg_batch_nz q : forallb wf_bop q = true -> has_empty_key (map bop_key q) = false -> lg (Batch q) = true.
Proof. intros H1 H2. cbn [lg]. rewrite H1. cbn [andb]. destruct q as [|x r]; [reflexivity|].
  unfold has_empty_key in *. cbn [tl map existsb] in *. apply orb_false_elim in H2 as [_ H2]. rewrite H2. reflexivity. Qed.
Lemma lg_fbatch F (OK : fmt_ok F) b : lg (Batch b) = true -> lg (Batch (map (fbop F) b)) = true.
Proof. cbn [lg]. intros H. apply andb_prop in H as [H1 H2]. rewrite (wf_batch_fmt F OK b H1). cbn [andb].
  replace (tl (map (fbop F) b)) with (map (fbop F) (tl b)) by (destruct b; reflexivity). rewrite (empty_key_fbop F OK). exact H2. Qed.
Lemma forallb_and {X} (p q : X -> bool) l : forallb (fun x => p x && q x) l = true -> forallb p l = true /\ forallb q l = true.
Proof. induction l as [|x r IH]; cbn; [auto|]. intros H. apply andb_prop in H as [H1 H2]. apply andb_prop in H1 as [Hp Hq].
  destruct (IH H2) as [I1 I2]. rewrite Hp, Hq, I1, I2. auto. Qed.
Lemma gq1_nz q : forallb gq1 q = true -> forallb wf_bop q = true /\ has_empty_key (map bop_key q) = false.
Proof. unfold has_empty_key. induction q as [|x r IH]; [split; reflexivity|]. cbn [forallb map existsb]. intros Hq. apply andb_prop in Hq as [Hx Hr].
  destruct (IH Hr) as [I1 I2]. unfold gq1 in Hx. apply andb_prop in Hx as [H1 H2]. apply negb_true_iff in H2.
  rewrite H1, I1, I2, (N.eqb_sym 0 (bop_key x)), H2. split; reflexivity. Qed.

Fixpoint vrel (s : stack) : St (prov_of s) -> St (over s) -> Prop :=
  match s return St (prov_of s) -> St (over s) -> Prop with
  | SLevel => lrelv
  | SCached s' => @crel (prov_of s') (over s') (vrel s')
  | SBatched l s' => @brelg (prov_of s') (over s') (gbn (lnames s')) (vrel s')
  | SFmt f s' => vrel s'
  | SFmtR f s' => @rrel (prov_of s') (over s') (vrel s')
  | SMem => fun _ _ => False
  | SFmtE s' => fun _ _ => False
  end.

Lemma vstack_bisim s : lstack_ok s = true -> bisim (gv (lnames s)) (prov_of s) (over s) (vrel s).
Proof.
  induction s as [| |s' IH|l s' IH|f s' IH|f s' IH|s' IH]; intros H; cbn [lstack_ok] in H; try discriminate; cbn [prov_of over vrel lnames].
  - apply (bisim_weaken lgv); [|exact ldb_vbisim]. intros o Ho. unfold lgv. rewrite (guard_n_wf1 _ o (gv_guard _ o Ho)), (gv_vq _ o Ho), (gv_lg _ o Ho). reflexivity.
  - apply cached_cong; [reflexivity|apply IH; exact H].
  - apply (batched_congg (gv (lnames s')) (gbn (lnames s')) l (prov_of s') (over s') (vrel s')).
    + intros q Hq _. apply forallb_and in Hq as [Hq1 Hq2]. destruct (gq1_nz q Hq1) as [Hw Hk].
      apply gv_intro; [apply guard_n_batch; exact Hq2|reflexivity|apply lg_batch_nz; assumption].
    + intros o Ho. apply (guard_n_wf (lnames s')). apply gv_guard. exact Ho.
    + reflexivity.
    + reflexivity.
    + intros k v t Ho Ev. apply guard_n_put; [apply gv_guard; exact Ho|exact Ev].
    + intros k. reflexivity.
    + intros b Ho. apply guard_n_batch_inv. apply gv_guard. exact Ho.
    + apply IH; exact H.
  - apply (fdet_cong (fmt_of f) (gv (fun n => lnames s' (fn (fmt_of f) n))) (gv (lnames s'))).
    + intros o Ho. apply (guard_n_wf1 _ o (gv_guard _ o Ho)).
    + intros k v t Hg. apply gv_intro; [|reflexivity|reflexivity]. apply gv_guard in Hg. unfold guard_n in *. apply andb_prop in Hg as [_ Hg].
      cbn [wf1_op wf_op andb]. exact (eq_trans (names_ok_fmt (fmt_of f) (lnames s') t) Hg).
    + intros c Hg. apply gv_intro; [| |reflexivity].
      * apply gv_guard in Hg. unfold guard_n in *. apply andb_prop in Hg as [_ Hg]. cbn. exact Hg.
      * apply gv_vq in Hg. cbn [vq fcrit snd] in *. rewrite (ft_zero (fmt_of f) (fmt_of_ok f)). exact Hg.
    + intros b Hg. apply gv_intro; [|reflexivity|apply (lg_fbatch (fmt_of f) (fmt_of_ok f)); apply (gv_lg _ _ Hg)].
      apply gv_guard in Hg. apply guard_n_batch. apply guard_n_batch_inv in Hg. apply forallb_gbn in Hg as [H1 H2]. apply forallb_gbn. split.
      * apply (wf_batch_fmt (fmt_of f) (fmt_of_ok f)). exact H1.
      * apply names_batch_fmt. exact H2.
    + intros o. destruct o; try exact I; reflexivity.
    + apply IH. exact H.
  - apply andb_prop in H as [Hs HK].
    apply (frand_cong (fmt_of f) (gv (pn_up (fmt_of f) (lnames s'))) (gv (lnames s')) (prov_of s') (over s') (vrel s')
             (gbn (pn_up (fmt_of f) (lnames s'))) (gbn (lnames s'))).
    + intros k. apply gv_intro; [unfold guard_n; cbn; exact HK| |reflexivity].
      cbn [vq kcrit snd]. rewrite (ft_zero (fmt_of f) (fmt_of_ok f)), kenc_nz. reflexivity.
    + intros o Ho. apply (guard_n_wf1 _ o (gv_guard _ o Ho)).
    + intros f0 k v t Hg. apply gv_intro; [|reflexivity|reflexivity]. apply gv_guard in Hg. unfold guard_n in *. apply andb_prop in Hg as [_ Hg].
      cbn [wf1_op wf_op andb]. rewrite (names_ok_rfmt (fmt_of f) (lnames s') k t HK). apply pn_up_low. exact Hg.
    + intros c Hg. apply gv_intro; [| |reflexivity].
      * apply gv_guard in Hg. unfold guard_n in *. apply andb_prop in Hg as [_ Hg]. cbn. unfold pn_up in Hg. apply andb_prop in Hg as [_ Hg]. exact Hg.
      * apply gv_vq in Hg. cbn [vq fcrit snd] in *. rewrite (ft_zero (fmt_of f) (fmt_of_ok f)). exact Hg.
    + intros o. destruct o; try exact I; reflexivity.
    + intros eo He Hk. apply gv_intro; [apply guard_n_batch; exact He|reflexivity|]. apply forallb_gbn in He as [He1 _]. apply lg_batch_nz; assumption.
    + intros b Hg. apply guard_n_batch_inv. apply gv_guard. exact Hg.
    + intros f0. reflexivity.
    + intros f0 k v t Hg. unfold gbn in *. apply andb_prop in Hg as [H1 H2]. cbn [snd] in *.
      rewrite (names_ok_rfmt (fmt_of f) (lnames s') k t HK), (pn_up_low _ _ _ H2), andb_true_r.
      unfold wf_bop in *. cbn [snd] in *. rewrite (rfmt_not_bad (fmt_of f) (fmt_of_ok f) k t); [reflexivity|]. destruct (existsb bad_tag t); [discriminate|reflexivity].
    + apply IH. exact Hs.
Qed.

Lemma vrel_init s : lstack_ok s = true -> vrel s (init (prov_of s)) (init (over s)).
Proof.
  induction s as [| |s' IH|l s' IH|f s' IH|f s' IH|s' IH]; intros H; cbn [lstack_ok] in H; try discriminate; cbn [vrel].
  - split; [reflexivity|exact ldb_inv_init].
  - split; [apply IH; exact H|reflexivity].
  - split; [apply IH; exact H|split; reflexivity].
  - apply IH; exact H.
  - apply andb_prop in H as [Hs _]. split; [apply IH; exact Hs|reflexivity].
Qed.

(* the stack over the contract machine simulates the contract (Close keeps the data) *)
Fixpoint orel (s : stack) : St (over s) -> store -> Prop :=
  match s return St (over s) -> store -> Prop with
  | SLevel => eq
  | SCached s' => cached_rel (orel s')
  | SBatched l s' => batched_rel (gbn (lnames s')) l (orel s')
  | SFmt f s' => fmt_rel (fmt_of f) (over s') (orel s')
  | SFmtR f s' => rand_rel (fmt_of f) (over s') (orel s')
  | _ => fun _ _ => False
  end.

Lemma over_sim s : lstack_ok s = true -> sim (guard_n (lnames s)) true (over s) (orel s).
Proof.
  induction s as [| |s' IH|l s' IH|f s' IH|f s' IH|s' IH]; intros H; cbn [lstack_ok] in H; try discriminate.
  - intros x a o _ ->. split; reflexivity.
  - cbn [over orel lnames]. apply cached_sim; [apply guard_n_wf|reflexivity|apply IH; exact H].
  - cbn [over orel lnames]. apply batched_sim; [apply guard_n_batch|apply IH; exact H|apply guard_n_put|reflexivity|apply guard_n_batch_inv|reflexivity|reflexivity].
  - cbn [over orel lnames].
    apply (formatted_det_sim_g (fmt_of f) (fmt_of_ok f) true (over s') (orel s') (guard_n (fun n => lnames s' (fn (fmt_of f) n))) (guard_n (lnames s'))).
    + apply guard_n_wf1.
    + intros k v t Hg. unfold guard_n in *. apply andb_prop in Hg as [_ Hg]. cbn [wf1_op wf_op andb]. exact (eq_trans (names_ok_fmt (fmt_of f) (lnames s') t) Hg).
    + intros c Hg. unfold guard_n in *. apply andb_prop in Hg as [_ Hg]. cbn. exact Hg.
    + intros b Hg. apply guard_n_batch. apply guard_n_batch_inv in Hg. apply forallb_gbn in Hg as [H1 H2]. apply forallb_gbn. split.
      * apply (wf_batch_fmt (fmt_of f) (fmt_of_ok f)). exact H1.
      * apply names_batch_fmt. exact H2.
    + intros o. destruct o; auto.
    + apply IH. exact H.
  - apply andb_prop in H as [Hs HK]. cbn [over orel lnames].
    apply (formatted_rand_sim_g (fmt_of f) (fmt_of_ok f) true (over s') (orel s')
             (guard_n (pn_up (fmt_of f) (lnames s'))) (guard_n (lnames s'))
             (gbn (pn_up (fmt_of f) (lnames s'))) (gbn (lnames s'))).
    + apply guard_up_wfk.
    + intros k. unfold guard_n. cbn. exact HK.
    + intros f0 k v t Hg. unfold guard_n in *. apply andb_prop in Hg as [_ Hg]. cbn [wf1_op wf_op andb].
      rewrite (names_ok_rfmt (fmt_of f) (lnames s') k t HK). apply pn_up_low. exact Hg.
    + intros c Hg. unfold guard_n in *. apply andb_prop in Hg as [_ Hg]. cbn. unfold pn_up in Hg. apply andb_prop in Hg as [_ Hg]. exact Hg.
    + intros o. destruct o as [| | | | | |[|x r]| |]; auto.
    + apply guard_n_batch.
    + apply guard_n_batch_inv.
    + intros f0. reflexivity.
    + intros f0 k v t Hg. unfold gbn in *. apply andb_prop in Hg as [H1 H2]. cbn [snd] in *.
      rewrite (names_ok_rfmt (fmt_of f) (lnames s') k t HK), (pn_up_low _ _ _ H2), andb_true_r.
      unfold wf_bop in *. cbn [snd] in *. rewrite (rfmt_not_bad (fmt_of f) (fmt_of_ok f) k t); [reflexivity|]. destruct (existsb bad_tag t); [discriminate|reflexivity].
    + apply IH. exact Hs.
Qed.

Lemma orel_init s : lstack_ok s = true -> orel s (init (over s)) [].
Proof.
  induction s as [| |s' IH|l s' IH|f s' IH|f s' IH|s' IH]; intros H; cbn [lstack_ok] in H; try discriminate.
  - reflexivity.
  - cbn. split; [apply IH; exact H|]. split; [apply cache_ok_nil|apply wf_store_nil].
  - cbn. apply batched_rel_fresh. apply IH; exact H.
  - cbn. unfold fmt_rel. cbn. apply IH; exact H.
  - apply andb_prop in H as [Hs _]. cbn [over orel]. apply rand_rel_init. apply IH; exact Hs.
Qed.

Lemma vstack_run s ops : lstack_ok s = true -> forallb (gv (lnames s)) ops = true ->
  run (prov_of s) (init (prov_of s)) ops = run (spec_prov true) [] ops.
Proof. intros H Hops.
  rewrite (bisim_run _ _ _ _ (vstack_bisim s H) ops _ _ Hops (vrel_init s H)).
  apply (sim_run (guard_n (lnames s)) true (over s) (orel s) (over_sim s H)); [|apply orel_init; exact H].
  clear - Hops. induction ops as [|o r IH]; [reflexivity|]. cbn in *. apply andb_prop in Hops as [Ho Hr]. rewrite (gv_guard _ o Ho), (IH Hr). reflexivity. Qed.
