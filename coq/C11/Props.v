(* C11 — property theorems only.  Every proof is `exact <lemma>` or a closed computation on a refutation witness. *)
From Coq Require Import List NArith ZArith Bool.
Import ListNotations.
From VF Require Import C11.Model C11.Proofs C11.ProofsB C11.ProofsF C11.ProofsR C11.Corr C11.ProofsS C11.ProofsL.
Local Open Scope N_scope.

(* The in-memory provider (repaired Query) returns, for EVERY operation sequence from EVERY content, exactly what the
   contract prescribes: latest value and tags, deleted keys not found, queries = the entries whose tags satisfy every
   criterion, batches applied in order, Close deletes the data (as its documentation says). *)
Theorem mem_refines : forall (ops : list op) (s : store),
  run (mem true) s ops = run (spec_prov false) s ops.
Proof. intros ops s. apply (sim_run (fun _ => true) false (mem true) eq (mem_sim _)); [apply forallb_forall; reflexivity|reflexivity]. Qed.
Print Assumptions mem_refines.

(* the Query as found (criteria keyed by tag name): refuted — obs #7, corpus/C11/mem-conjunction-same-name.json *)
Theorem mem_query_asis_refuted :
  let ops := [Put 1 1 [(1, 1)]; Put 2 1 [(1, 2)]; Query [(1, 1); (1, 2)]] in
  run (mem false) [] ops <> run (spec_prov false) [] ops /\ run (mem true) [] ops = run (spec_prov false) [] ops.
Proof. split; vm_compute; [discriminate|reflexivity]. Qed.
Print Assumptions mem_query_asis_refuted.

(* The caching wrapper (fill with tags) over ANY provider that simulates the contract simulates the contract, whatever
   the cache holds as long as it agrees with the provider. *)
Theorem cached_transparent : forall pers (P : prov) R,
  sim wf_op pers P R -> sim wf_op pers (cached true P) (cached_rel R).
Proof. intros pers P R. apply cached_sim; [auto|reflexivity]. Qed.
Print Assumptions cached_transparent.

(* ... in particular a NEW cache over a provider that already holds data, for whole histories *)
Theorem cached_transparent_over_populated : forall pers (P : prov) R m a ops,
  sim wf_op pers P R -> R m a -> wf_store a -> forallb wf_op ops = true ->
  run (cached true P) (m, []) ops = run (spec_prov pers) a ops.
Proof. intros pers P R m a ops HS HR Hw Hops.
  apply (sim_run wf_op pers (cached true P) (cached_rel R)); [apply cached_transparent; assumption|assumption|].
  split; [assumption|split; [apply cache_ok_nil|assumption]]. Qed.
Print Assumptions cached_transparent_over_populated.

(* the fill as found (value only): refuted — obs #1, corpus/C11/cached-tagless-fill.json *)
Theorem cached_asis_refuted :
  let pre : store := [(1, (7, [(2, 3)]))] in
  run (cached false (mem true)) (pre, []) [Get 1; GetTags 1] <> run (spec_prov false) pre [Get 1; GetTags 1] /\
  run (cached true (mem true)) (pre, []) [Get 1; GetTags 1] = run (spec_prov false) pre [Get 1; GetTags 1].
Proof. split; vm_compute; [discriminate|reflexivity]. Qed.
Print Assumptions cached_asis_refuted.

(* The batching wrapper, any size limit (also 0 and negative), over ANY provider that simulates the contract:
   the contract state is the provider's state with the queued operations applied in order. *)
Theorem batched_transparent : forall l pers (P : prov) R,
  sim wf_op pers P R -> sim wf_op pers (batched l P) (batched_rel wf_bop l R).
Proof. intros l pers P R H. apply batched_sim; [exact wf_op_batch|exact H|exact put_wf_bop|reflexivity|auto|reflexivity|reflexivity]. Qed.
Print Assumptions batched_transparent.

Theorem batched_transparent_over_populated : forall l pers (P : prov) R m a ops,
  sim wf_op pers P R -> R m a -> forallb wf_op ops = true ->
  run (batched l P) (m, []) ops = run (spec_prov pers) a ops.
Proof. intros l pers P R m a ops HS HR Hops.
  apply (sim_run wf_op pers (batched l P) (batched_rel wf_bop l R)); [apply batched_transparent; assumption|assumption|].
  apply batched_rel_fresh; assumption. Qed.
Print Assumptions batched_transparent_over_populated.

(* Stacks of caching and batching wrappers of ANY depth over the in-memory provider: every history returns what the
   contract prescribes; flushing and re-wrapping at any point (new wrapper objects over the populated provider) changes
   nothing. *)
Theorem mem_stack_refines : forall s ops, mem_stack s = true -> forallb wf_op ops = true ->
  run (prov_of s) (init (prov_of s)) ops = run (spec_prov false) [] ops.
Proof. intros s ops Hs Hops. apply (sim_run wf_op false (prov_of s) (stack_rel s));
  [apply stack_sim; assumption|assumption|apply stack_rel_init; assumption]. Qed.
Print Assumptions mem_stack_refines.

Theorem mem_stack_rewrap_refines : forall s pre ops, mem_stack s = true ->
  forallb wf_op pre = true -> forallb wf_op ops = true ->
  run (prov_of s) (rewrap s (run_state (prov_of s) (init (prov_of s)) pre)) ops =
  run (spec_prov false) (run_state (spec_prov false) [] pre) ops.
Proof. intros s pre ops Hs Hpre Hops.
  apply (sim_run wf_op false (prov_of s) (stack_rel s)); [apply stack_sim; assumption|assumption|].
  apply stack_rel_rewrap; [assumption|].
  apply (sim_run_state wf_op false (prov_of s) (stack_rel s)); [apply stack_sim; assumption|assumption|apply stack_rel_init; assumption]. Qed.
Print Assumptions mem_stack_rewrap_refines.


(* formattedstore with DETERMINISTIC key formatting, for ANY formatter that is injective on keys / tag names / tag
   values, reversible, keeps the empty string and produces no ':' (fmt_ok; instances: the no-op and the base64
   example formatters), over ANY provider that simulates the contract: the provider holds the formatted image of the
   contract state.  Guard wf1_op: queries have one criterion (formattedstore does not implement "&&"). *)
Theorem formatted_det_transparent : forall (F : formatter) pers (P : prov) R,
  fmt_ok F -> sim wf1_op pers P R -> sim wf1_op pers (formatted_det F P) (fmt_rel F P R).
Proof. intros F pers P R HF HP. apply formatted_det_sim; assumption. Qed.
Print Assumptions formatted_det_transparent.

Theorem formatter_instances_ok : fmt_ok noop_fmt /\ fmt_ok b64_fmt.
Proof. split; [exact noop_ok|exact b64_ok]. Qed.
Print Assumptions formatter_instances_ok.

(* formattedstore with RANDOM (non-deterministic) key formatting, for any formatter satisfying fmt_ok, over ANY provider
   that simulates the contract: the provider holds exactly one entry per key of the contract state, under a formatted
   key that is never the empty string and never one of the ids still to be drawn, carrying the internal tag
   Key:base64(key).  Covers: lookup through the Key tag, overwrite under the found formatted key, batches (key
   resolution inside the batch: put/delete/put of one key, deletes of absent keys, an all-no-op batch), Deformat and
   the removal of the Key tag from what the caller sees.  Guard wfk_op: single-criterion queries, well-formed batches,
   no user tag or criterion named "Key". *)
Theorem formatted_rand_transparent : forall (F : formatter) pers (P : prov) R,
  fmt_ok F -> sim wf1_op pers P R -> sim wfk_op pers (formatted_rand true F P) (rand_rel F P R).
Proof. intros F pers P R HF HP. apply formatted_rand_sim; assumption. Qed.
Print Assumptions formatted_rand_transparent.

(* the batch as found (an all-no-op batch reaches the store as an empty batch and fails): refuted -- obs #12,
   corpus/C11/formatted-random-batch-delete-absent.json *)
Theorem formatted_rand_asis_refuted :
  let ops := [Batch [(1, 0, [])]; Put 2 1 [(1, 1)]; Batch [(1, 0, []); (3, 0, [])]; Get 2] in
  run (formatted_rand false b64_fmt (mem true)) ([], 0) ops <> run (spec_prov false) [] ops /\
  run (formatted_rand true b64_fmt (mem true)) ([], 0) ops = run (spec_prov false) [] ops.
Proof. split; vm_compute; [discriminate|reflexivity]. Qed.
Print Assumptions formatted_rand_asis_refuted.

(* stacks with a random-key formatting layer: any caching/batching layers above it, any plain stack (caching, batching,
   deterministic formatting over mem) below it *)
Theorem rand_stack_refines : forall s ops, rand_stack s = true -> forallb wfk_op ops = true ->
  run (prov_of s) (init (prov_of s)) ops = run (spec_prov false) [] ops.
Proof. intros s ops Hs Hops. apply (sim_run wfk_op false (prov_of s) (rstack_rel s));
  [apply rand_stack_sim; assumption|assumption|apply rand_stack_rel_init; assumption]. Qed.
Print Assumptions rand_stack_refines.

Theorem rand_stack_rewrap_refines : forall s pre ops, rand_stack s = true ->
  forallb wfk_op pre = true -> forallb wfk_op ops = true ->
  run (prov_of s) (rewrap s (run_state (prov_of s) (init (prov_of s)) pre)) ops =
  run (spec_prov false) (run_state (spec_prov false) [] pre) ops.
Proof. intros s pre ops Hs Hpre Hops.
  apply (sim_run wfk_op false (prov_of s) (rstack_rel s)); [apply rand_stack_sim; assumption|assumption|].
  apply rand_stack_rel_rewrap; [assumption|].
  apply (sim_run_state wfk_op false (prov_of s) (rstack_rel s)); [apply rand_stack_sim; assumption|assumption|apply rand_stack_rel_init; assumption]. Qed.
Print Assumptions rand_stack_rewrap_refines.

(* non-vacuity; the history of the seeded change C11-3 (Put k; Batch[Delete k; Put k]; Delete k) is in it *)
Example rand_stack_nonvacuous :
  let s := SBatched 2 (SCached (SFmtR FB64 (SCached SMem))) in
  let ops := [Put 1 1 [(1, 1)]; Batch [(1, 0, []); (1, 2, [(2, 2)])]; Get 1; GetTags 1; Delete 1; Get 1; Query [(2, 0)];
              Batch [(2, 1, []); (2, 0, []); (2, 3, [(1, 2)]); (3, 0, [])]; Query [(1, 2)]; GetBulk [1; 2; 3]] in
  rand_stack s = true /\ forallb wfk_op ops = true /\
  run (prov_of s) (init (prov_of s)) ops =
  [ODone; ODone; OVal 2; OTags [(2, 2)]; ODone; ONotFound; OQuery []; ODone; OQuery [(2, (3, [(1, 2)]))]; OBulk [0; 3; 0]].
Proof. vm_compute. repeat split. Qed.

(* stacks of caching, batching AND formatting wrappers of any depth over the in-memory provider *)
Theorem plain_stack_refines : forall s ops, plain_stack s = true -> forallb wf1_op ops = true ->
  run (prov_of s) (init (prov_of s)) ops = run (spec_prov false) [] ops.
Proof. intros s ops Hs Hops. apply (sim_run wf1_op false (prov_of s) (stack_rel s));
  [apply plain_stack_sim; assumption|assumption|apply plain_stack_rel_init; assumption]. Qed.
Print Assumptions plain_stack_refines.

Theorem plain_stack_rewrap_refines : forall s pre ops, plain_stack s = true ->
  forallb wf1_op pre = true -> forallb wf1_op ops = true ->
  run (prov_of s) (rewrap s (run_state (prov_of s) (init (prov_of s)) pre)) ops =
  run (spec_prov false) (run_state (spec_prov false) [] pre) ops.
Proof. intros s pre ops Hs Hpre Hops.
  apply (sim_run wf1_op false (prov_of s) (stack_rel s)); [apply plain_stack_sim; assumption|assumption|].
  apply plain_stack_rel_rewrap; [assumption|].
  apply (sim_run_state wf1_op false (prov_of s) (stack_rel s)); [apply plain_stack_sim; assumption|assumption|apply plain_stack_rel_init; assumption]. Qed.
Print Assumptions plain_stack_rewrap_refines.

Example plain_stack_nonvacuous :
  let s := SFmt FB64 (SBatched 2 (SCached (SFmt FNoop SMem))) in
  let ops := [Put 1 1 [(1, 1)]; Put 2 2 [(1, 1); (2, 2)]; Get 1; Put 1 3 []; GetTags 1; Query [(1, 1)];
              Batch [(3, 1, [(1, 2)]); (2, 0, [])]; Query [(1, 0)]; Delete 3; GetBulk [1; 3]] in
  plain_stack s = true /\ forallb wf1_op ops = true /\
  run (prov_of s) (init (prov_of s)) ops =
  [ODone; ODone; OVal 1; ODone; OTags []; OQuery [(2, (2, [(1, 1); (2, 2)]))]; ODone; OQuery [(3, (1, [(1, 2)]))];
   ODone; OBulk [3; 0]].
Proof. vm_compute. repeat split. Qed.

(* LevelDB.  FULL statement (every history returns what the contract prescribes, Close keeps the data): REFUTED by the
   model of the code as it is — obs #8, corpus/C11/leveldb-stale-tag-index.json, known finding
   leveldb:name-only-query:stale-tag-index (the TagMap index is never cleaned when a key is re-Put without a tag). *)
Theorem leveldb_refines_refuted :
  let ops := [Put 1 1 [(1, 1)]; Put 1 2 []; GetTags 1; Query [(1, 0)]] in
  run leveldb (init leveldb) ops <> run (spec_prov true) [] ops.
Proof. vm_compute. discriminate. Qed.
Print Assumptions leveldb_refines_refuted.

(* PARTIAL.  The guard excludes exactly the refuted class: [ldb_run_ok] lets every name:value query through and a
   name-only query Query(n) only in a state where the index is exact for n (no stored key is still indexed under n
   although its current tags lack n, i.e. no key was re-Put without n since); batches are well-formed (no ':' tags, an
   empty key at most in first position); "&&" expressions are not implemented by LevelDB.  From every state whose
   entries' tag names are all indexed (ldb_inv; true initially and kept by every operation), every such history returns
   what the contract prescribes, Close + re-open keeps the data. *)
Theorem leveldb_refines_partial : forall (ops : list op) (s : St leveldb),
  ldb_inv s -> ldb_run_ok s ops = true -> run leveldb s ops = run (spec_prov true) (fst s) ops.
Proof. intros ops s. exact (ldb_run_refines ops s). Qed.
Print Assumptions leveldb_refines_partial.

Corollary leveldb_refines_partial_from_empty : forall ops,
  ldb_run_ok (init leveldb) ops = true -> run leveldb (init leveldb) ops = run (spec_prov true) [] ops.
Proof. intros ops H. exact (ldb_run_refines ops (init leveldb) ldb_inv_init H). Qed.
Print Assumptions leveldb_refines_partial_from_empty.

(* ... and the guard is exact: wherever it refuses a name-only query, LevelDB's answer IS wrong *)
Theorem leveldb_guard_exact : forall (s : St leveldb) n,
  index_exact s n = false -> ldb_query s [(n, 0)] <> OQuery (qeval [(n, 0)] (fst s)).
Proof. exact ldb_query_name_stale. Qed.
Print Assumptions leveldb_guard_exact.

(* entries alone (no queries), from ANY content, index in any shape *)
Theorem leveldb_entries_refine_partial : forall (ops : list op) (s : St leveldb),
  forallb ldb_ok_op ops = true -> run leveldb s ops = run (spec_prov true) (fst s) ops.
Proof. intros ops s H. apply (sim_run ldb_ok_op true leveldb (fun s a => fst s = a) ldb_sim); [exact H|reflexivity]. Qed.
Print Assumptions leveldb_entries_refine_partial.

Example leveldb_partial_nonvacuous :
  let ops := [Put 1 1 [(1, 1)]; Put 1 2 []; GetTags 1; Query [(1, 1)]; Query [(2, 0)]; Batch [(2, 3, [(2, 2)]); (1, 0, [])];
              Query [(1, 0)]; Query [(2, 2)]; Reopen; Get 1; Get 2; GetBulk [1; 2]] in
  ldb_run_ok (init leveldb) ops = true /\
  ldb_run_ok (init leveldb) [Put 1 1 [(1, 1)]; Put 1 2 []; Query [(1, 0)]] = false /\
  run leveldb (init leveldb) ops =
  [ODone; ODone; OTags []; OQuery []; OQuery []; ODone; OQuery []; OQuery [(2, (3, [(2, 2)]))]; ODone; ONotFound; OVal 3; OBulk [0; 3]].
Proof. vm_compute. repeat split. Qed.

(* non-vacuity: a depth-3 stack, a history with overwrite, batch, delete, conjunction query, re-open *)
Example stack_nonvacuous :
  let s := SCached (SBatched 2 (SCached SMem)) in
  let ops := [Put 1 1 [(1, 1)]; Put 2 2 [(1, 1); (2, 2)]; Get 1; Put 1 3 []; GetTags 1; Query [(1, 1); (2, 0)];
              Batch [(3, 1, [(1, 2)]); (2, 0, [])]; Query [(1, 0)]; Delete 3; Get 3; Reopen; Get 1] in
  mem_stack s = true /\ forallb wf_op ops = true /\
  run (prov_of s) (init (prov_of s)) ops =
  [ODone; ODone; OVal 1; ODone; OTags []; OQuery [(2, (2, [(1, 1); (2, 2)]))]; ODone; OQuery [(3, (1, [(1, 2)]))];
   ODone; ONotFound; ODone; ONotFound].
Proof. vm_compute. repeat split. Qed.
