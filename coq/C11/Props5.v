(* C11 — property theorems, part 5: stacks over LevelDB that contain RANDOM-key formatting layers.  formattedstore with
   random keys preserves provider bisimulation like the other three wrappers; LevelDB is bisimilar to the contract
   machine itself on histories whose queries carry a tag value; hence every stack over LevelDB, of any depth, order and
   wrapper kind, returns what the contract prescribes on such histories. *)
From Coq Require Import List NArith ZArith Bool.
Import ListNotations.
From VF Require Import C11.Model C11.Proofs C11.ProofsL C11.ProofsF C11.ProofsR C11.ProofsO C11.ProofsE C11.Corr C11.ProofsS C11.ProofsG C11.ProofsT C11.ProofsV C11.ProofsW.
Local Open Scope N_scope.

(* formattedstore with random keys over two observationally equal providers gives two observationally equal providers
   (same fresh-name counter on both sides).  G / G': guards above / below the wrapper; the batch handed down never
   carries an empty key (rbatch_out), whatever the provider answers. *)
Theorem formatted_rand_congruence : forall F (G G' : op -> bool) (P Q : prov) R gbu gb',
  (forall k, G' (Query [kcrit F k]) = true) -> (forall o, G o = true -> wf1_op o = true) ->
  (forall f k v t, G (Put k v t) = true -> G' (Put f (fv F v) (rfmt_tags F k t)) = true) ->
  (forall c, G (Query [c]) = true -> G' (Query [fcrit F c]) = true) ->
  (forall o, match o with Delete _ | Flush | Reopen => G' o = true | _ => True end) ->
  (forall eo, forallb gb' eo = true -> has_empty_key (map bop_key eo) = false -> G' (Batch eo) = true) ->
  (forall b, G (Batch b) = true -> forallb gbu b = true) -> (forall f, gb' (f, 0, []) = true) ->
  (forall f k v t, gbu (k, v, t) = true -> gb' (f, fv F v, rfmt_tags F k t) = true) ->
  bisim G' P Q R -> bisim G (formatted_rand true F P) (formatted_rand true F Q) (rrel R).
Proof. exact frand_cong. Qed.
Print Assumptions formatted_rand_congruence.

(* LevelDB returns what the contract prescribes for EVERY history whose queries are name:value queries (and whose
   batches are well-formed), from every state whose entries' tag names are indexed: the stale TagMap entries can only
   show in name-only queries.  The guard is on the operations alone (no condition on the state). *)
Theorem leveldb_value_queries_refine : forall ops (s : St leveldb),
  ldb_inv s -> forallb lgv ops = true -> run leveldb s ops = run (spec_prov true) (fst s) ops.
Proof. intros ops s Hi Hops. apply (sim_run lgv true leveldb lrelv ldb_vsim); [exact Hops|split; [reflexivity|exact Hi]]. Qed.
Print Assumptions leveldb_value_queries_refine.

(* [lstack_ok s]: any layers (caching, batching with any limit, deterministic and random-key formatting) in any order and
   number over LevelDB; below every random-key layer the formatted name of the internal "Key" tag is an acceptable tag
   name (computed; true for every stack built from the base64 formatter).  [gv (lnames s)]: the guard of any_stack_refines
   (single-criterion queries, well-formed batches, no user tag whose image collides with "Key") + queries carry a value +
   an empty key at most in first position of a batch.  PARTIAL because name-only queries are left out altogether (for the
   stacks without a random-key layer any_stack_over_leveldb_refines_partial has the exact guard). *)
Theorem any_stack_over_leveldb_value_queries_refines_partial : forall s ops, lstack_ok s = true ->
  forallb (gv (lnames s)) ops = true -> run (prov_of s) (init (prov_of s)) ops = run (spec_prov true) [] ops.
Proof. exact vstack_run. Qed.
Print Assumptions any_stack_over_leveldb_value_queries_refines_partial.

(* the same stack over the contract machine instead of LevelDB is indistinguishable on those histories *)
Theorem any_stack_over_leveldb_bisimilar : forall s, lstack_ok s = true ->
  bisim (gv (lnames s)) (prov_of s) (over s) (vrel s) /\ vrel s (init (prov_of s)) (init (over s)).
Proof. intros s H. split; [exact (vstack_bisim s H)|exact (vrel_init s H)]. Qed.
Print Assumptions any_stack_over_leveldb_bisimilar.

(* non-vacuity: caching over random-key base64 formatting over batching over LevelDB; overwrite without the tag (stale
   index below), name:value queries, a batch with delete / put / put of one key and a delete of an absent key, re-open *)
Example rand_over_leveldb_nonvacuous :
  let s := SCached (SFmtR FB64 (SBatched 2 SLevel)) in
  let ops := [Put 1 1 [(1, 1)]; Put 1 2 []; Query [(1, 1)]; Put 2 3 [(1, 1); (2, 2)]; Query [(1, 1)];
              Batch [(2, 0, []); (2, 4, [(2, 1)]); (2, 5, [(2, 2)]); (3, 0, [])]; Query [(2, 2)]; GetTags 2; Reopen; Get 1; GetBulk [1; 2; 3]] in
  lstack_ok s = true /\ forallb (gv (lnames s)) ops = true /\
  run (prov_of s) (init (prov_of s)) ops =
  [ODone; ODone; OQuery []; ODone; OQuery [(2, (3, [(1, 1); (2, 2)]))]; ODone; OQuery [(2, (5, [(2, 2)]))]; OTags [(2, 2)]; ODone; OVal 2; OBulk [2; 5; 0]].
Proof. vm_compute. repeat split. Qed.
