(* C11 — lemmas: flushing the top store and building NEW wrapper objects over the populated LevelDB database, for
   every stack over LevelDB (random-key layers included), on histories whose queries carry a tag value. *)
From Coq Require Import List NArith ZArith Bool Lia.
Import ListNotations.
From VF Require Import C11.Model C11.Proofs C11.ProofsB C11.ProofsL C11.ProofsF C11.ProofsR C11.ProofsO C11.ProofsE C11.Corr C11.ProofsS C11.ProofsG C11.ProofsT C11.ProofsV C11.ProofsW.
Local Open Scope N_scope.

(* Corr.rewrap on the stack over the contract machine *)
Fixpoint orewrap (s : stack) : St (over s) -> St (over s) :=
  match s return St (over s) -> St (over s) with
  | SMem => fun x => x
  | SLevel => fun x => x
  | SCached s' => fun x => (orewrap s' (fst x), [])
  | SBatched l s' => fun x => (orewrap s' (fst (fst (bflush (over s') x))), [])
  | SFmt _ s' => fun x => orewrap s' x
  | SFmtR _ s' => fun x => (orewrap s' (fst x), snd x)
  | SFmtE s' => fun x => (orewrap s' (fst x), snd x)
  end.

Lemma gv_batch_q pn q : forallb (fun x => gq1 x && gbn pn x) q = true -> q <> [] -> gv pn (Batch q) = true.
Proof. intros Hq _. apply forallb_and in Hq as [Hq1 Hq2]. destruct (gq1_nz q Hq1) as [Hw Hk].
  apply gv_intro; [apply guard_n_batch; exact Hq2|reflexivity|apply lg_batch_nz; assumption]. Qed.

Lemma vrel_rewrap s : lstack_ok s = true -> forall x y, vrel s x y -> vrel s (rewrap s x) (orewrap s y).
Proof.
  induction s as [| |s' IH|l s' IH|f s' IH|f s' IH|s' IH]; intros H x y Hr; cbn [lstack_ok] in H; try discriminate; cbn [vrel rewrap orewrap] in *.
  - exact Hr.
  - destruct Hr as [H1 _]. split; [apply IH; assumption|reflexivity].
  - destruct (bflush_congg (gv (lnames s')) (gbn (lnames s')) (prov_of s') (over s') (vrel s') (gv_batch_q (lnames s')) (vstack_bisim s' H) x y Hr) as [[A _] _].
    split; [apply IH; assumption|split; reflexivity].
  - apply IH; assumption.
  - apply andb_prop in H as [Hs _]. destruct Hr as [H1 H2]. split; [apply IH; assumption|exact H2].
Qed.

Lemma orel_rewrap s : lstack_ok s = true -> forall y a, orel s y a -> orel s (orewrap s y) a.
Proof.
  induction s as [| |s' IH|l s' IH|f s' IH|f s' IH|s' IH]; intros H y a Hr; cbn [lstack_ok] in H; try discriminate.
  - exact Hr.
  - destruct y as [m c]. destruct Hr as [H1 [H2 H3]]. cbn [orewrap fst snd] in *.
    split; [apply IH; assumption|]. split; [apply cache_ok_nil|assumption].
  - cbn [orewrap]. pose proof (over_sim s' H) as HS.
    destruct (bflush_rel (guard_n (lnames s')) (gbn (lnames s')) true l (over s') (orel s') (guard_n_batch (lnames s')) HS y a Hr) as [_ [_ [_ H4]]].
    apply batched_rel_fresh. apply IH; assumption.
  - cbn [orewrap orel] in *. unfold fmt_rel in *. apply IH; assumption.
  - apply andb_prop in H as [Hs _]. cbn [orewrap orel] in *. destruct Hr as [jl [H1 [H2 H3]]]. exists jl. cbn [fst snd] in *.
    split; [apply IH; assumption|]. split; assumption.
Qed.

Lemma gv_all_guard pn ops : forallb (gv pn) ops = true -> forallb (guard_n pn) ops = true.
Proof. induction ops as [|o r IH]; [reflexivity|]. cbn. intros H. apply andb_prop in H as [Ho Hr]. rewrite (gv_guard _ o Ho), (IH Hr). reflexivity. Qed.

Lemma vstack_rewrap_run s pre ops : lstack_ok s = true ->
  forallb (gv (lnames s)) pre = true -> forallb (gv (lnames s)) ops = true ->
  run (prov_of s) (rewrap s (run_state (prov_of s) (init (prov_of s)) pre)) ops =
  run (spec_prov true) (run_state (spec_prov true) [] pre) ops.
Proof. intros H Hpre Hops.
  pose proof (bisim_run_state _ _ _ _ (vstack_bisim s H) pre _ _ Hpre (vrel_init s H)) as HV.
  pose proof (sim_run_state (guard_n (lnames s)) true (over s) (orel s) (over_sim s H) pre _ _ (gv_all_guard _ _ Hpre) (orel_init s H)) as HO.
  rewrite (bisim_run _ _ _ _ (vstack_bisim s H) ops _ _ Hops (vrel_rewrap s H _ _ HV)).
  apply (sim_run (guard_n (lnames s)) true (over s) (orel s) (over_sim s H)); [apply gv_all_guard; exact Hops|].
  apply orel_rewrap; assumption. Qed.
