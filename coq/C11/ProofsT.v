(* C11 — lemmas: stacks of caching, batching and deterministic-key formatting wrappers of ANY depth and order over
   LevelDB are observationally equal to LevelDB itself (on the unformatted content): induction on the stack with the
   congruence of each wrapper, the wrapper-over-LevelDB base lemmas (cached_over_step, batched_over_step with
   ldb_entry_exact / ldb_batch_seq, fdet_over_ldb = equivariance) and transitivity. *)
From Coq Require Import List NArith ZArith Bool Lia.
Import ListNotations.
From VF Require Import C11.Model C11.Proofs C11.ProofsL C11.ProofsF C11.ProofsO C11.ProofsE C11.Corr C11.ProofsS.
Local Open Scope N_scope.

Fixpoint ldb_stack (s : stack) : bool :=
  match s with
  | SLevel => true
  | SCached s' | SBatched _ s' | SFmt _ s' => ldb_stack s'
  | SMem | SFmtR _ _ | SFmtE _ => false
  end.

Lemma lgq_lg o : lgq o = true -> lg o = true.
Proof. unfold lgq. intros H. apply andb_prop in H as [H _]. exact H. Qed.
Lemma lgq_wf1 o : lgq o = true -> wf1_op o = true.
Proof. unfold lgq. intros H. apply andb_prop in H as [_ H]. exact H. Qed.
Lemma lgq_wf o : lgq o = true -> wf_op o = true.
Proof. intros H. apply wf1_wf. apply lgq_wf1. exact H. Qed.
Lemma lgq_batch q : forallb gq1 q = true -> q <> [] -> lgq (Batch q) = true.
Proof. intros Hq _. unfold lgq, wf1_op. cbn [lg wf_op]. rewrite andb_true_r.
  assert (H : forallb wf_bop q = true /\ has_empty_key (map bop_key q) = false).
  { unfold has_empty_key. induction q as [|x r IH]; [split; reflexivity|]. cbn [forallb map existsb] in *. apply andb_prop in Hq as [Hx Hr].
    destruct (IH Hr) as [I1 I2]. unfold gq1 in Hx. apply andb_prop in Hx as [H1 H2]. apply negb_true_iff in H2.
    rewrite H1, I1, I2, (N.eqb_sym 0 (bop_key x)), H2. split; reflexivity. }
  destruct H as [H1 H2]. rewrite H1. cbn [andb].
  assert (H3 : has_empty_key (map bop_key (tl q)) = false).
  { destruct q as [|x r]; [reflexivity|]. unfold has_empty_key in *. cbn [tl map existsb] in *. apply orb_false_elim in H2 as [_ H2]. exact H2. }
  rewrite H3. reflexivity. Qed.

(* the single wrappers over LevelDB, as bisimulations with LevelDB itself *)
Lemma ldb_wf_step m o : lgq o = true -> wf_store (fst m) -> wf_store (fst (fst (step leveldb m o))).
Proof. intros Ho Hw. destruct (is_query o) eqn:Eq.
  - rewrite (ee_pure lg true leveldb fst ldb_entry_exact m o); [exact Hw|]. destruct o; try discriminate; reflexivity.
  - destruct (ee_step lg true leveldb fst ldb_entry_exact m o (lgq_lg o Ho) Eq) as [E _]. rewrite E. apply spec_step_wf; [apply lgq_wf; exact Ho|exact Hw]. Qed.

Definition lrel0 (x m : ldb) : Prop := x = m /\ wf_store (fst m).
Lemma ldb_bisim0 : bisim lgq leveldb leveldb lrel0.
Proof. intros s t o Ho [-> Hw]. split; [split; [reflexivity|apply ldb_wf_step; assumption]|reflexivity]. Qed.

Definition crel0 (s : St (cached true leveldb)) (m : ldb) : Prop := fst s = m /\ cinv leveldb fst s.
Lemma cached_ldb_bisim : bisim lgq (cached true leveldb) leveldb crel0.
Proof. intros s t o Ho [<- Hi].
  destruct (cached_over_step lg true leveldb fst ldb_entry_exact) with (s := s) (o := o) as [H1 [H2 H3]];
    [intros o' Ho'; destruct o'; try reflexivity; cbn in *; apply andb_prop in Ho' as [Ho' _]; exact Ho'|reflexivity|apply lgq_lg; exact Ho|exact Hi|].
  split; [split; assumption|exact H2]. Qed.

Definition brel0 (l : Z) (s : St (batched l leveldb)) (m : ldb) : Prop := virt l leveldb s = m /\ binv l leveldb s.
Lemma batched_ldb_bisim l : bisim lgq (batched l leveldb) leveldb (brel0 l).
Proof. intros s t o Ho [<- Hi].
  destruct (batched_over_step l leveldb ldb_batch_seq s o (lgq_lg o Ho) (lgq_wf o Ho) Hi) as [H1 [H2 H3]].
  split; [split; assumption|exact H2]. Qed.

Definition frel0 (F : formatter) (x m : ldb) : Prop := x = ren F m.

(* the relation of a stack over LevelDB with the LevelDB content it stands for *)
Fixpoint lrel (s : stack) : St (prov_of s) -> ldb -> Prop :=
  match s return St (prov_of s) -> ldb -> Prop with
  | SLevel => lrel0
  | SCached s' => rcomp (@crel (prov_of s') leveldb (lrel s')) crel0
  | SBatched l s' => rcomp (@brel (prov_of s') leveldb (lrel s')) (brel0 l)
  | SFmt f s' => rcomp (lrel s') (frel0 (fmt_of f))
  | SMem => fun _ _ => False
  | SFmtR _ s' => fun _ _ => False
  | SFmtE s' => fun _ _ => False
  end.

Lemma lgq_fbatch F (OK : fmt_ok F) b : lgq (Batch b) = true -> lgq (Batch (map (fbop F) b)) = true.
Proof. unfold lgq, wf1_op. cbn [lg wf_op]. rewrite !andb_true_r. intros H. apply andb_prop in H as [H Hw]. apply andb_prop in H as [H1 H2].
  rewrite (wf_batch_fmt F OK b H1). cbn [andb].
  replace (tl (map (fbop F) b)) with (map (fbop F) (tl b)) by (destruct b; reflexivity). rewrite (empty_key_fbop F OK). rewrite H2. reflexivity. Qed.

Lemma ldb_stack_bisim s : ldb_stack s = true -> bisim lgq (prov_of s) leveldb (lrel s).
Proof.
  induction s as [| |s' IH|l s' IH|f s' IH|f s' IH|s' IH]; intros H; cbn in H; try discriminate; cbn [prov_of lrel].
  - exact ldb_bisim0.
  - apply (bisim_trans lgq _ (cached true leveldb)); [|exact cached_ldb_bisim].
    apply cached_cong; [reflexivity|apply IH; exact H].
  - apply (bisim_trans lgq _ (batched l leveldb)); [|exact (batched_ldb_bisim l)].
    apply batched_cong; [exact lgq_batch|exact lgq_wf|reflexivity|reflexivity|apply IH; exact H].
  - apply (bisim_trans lgq (formatted_det (fmt_of f) (prov_of s')) (formatted_det (fmt_of f) leveldb) leveldb (lrel s') (frel0 (fmt_of f))); [|exact (fdet_over_ldb (fmt_of f) (fmt_of_ok f))].
    apply (fdet_cong (fmt_of f) lgq lgq); [exact lgq_wf1|reflexivity|reflexivity|exact (lgq_fbatch (fmt_of f) (fmt_of_ok f))|intros o; destruct o; auto|apply IH; exact H].
Qed.

(* fresh wrapper objects over a LevelDB database that holds (the formatted image of) the content m *)
Fixpoint lift (s : stack) : ldb -> St (prov_of s) :=
  match s return ldb -> St (prov_of s) with
  | SLevel => fun m => m
  | SCached s' => fun m => (lift s' m, [])
  | SBatched l s' => fun m => (lift s' m, [])
  | SFmt f s' => fun m => lift s' (ren (fmt_of f) m)
  | SMem => fun _ => []
  | SFmtR f s' => fun m => (lift s' m, 0)
  | SFmtE s' => fun m => (lift s' m, 0)
  end.

Lemma lrel_lift s : ldb_stack s = true -> forall m, wf_store (fst m) -> lrel s (lift s m) m.
Proof.
  induction s as [| |s' IH|l s' IH|f s' IH|f s' IH|s' IH]; intros H m Hw; cbn in H; try discriminate; cbn [lrel lift].
  - split; [reflexivity|exact Hw].
  - exists (m, []). split; [split; [apply IH; assumption|reflexivity]|]. split; [reflexivity|]. split; [apply cache_ok_nil|exact Hw].
  - exists (m, []). split; [split; [apply IH; assumption|split; reflexivity]|]. split; reflexivity.
  - exists (ren (fmt_of f) m). split; [|reflexivity]. apply IH; [exact H|]. apply (wf_store_fmap (fmt_of f) (fmt_of_ok f)). exact Hw.
Qed.

Lemma lift_init s : ldb_stack s = true -> lift s (init leveldb) = init (prov_of s).
Proof.
  induction s as [| |s' IH|l s' IH|f s' IH|f s' IH|s' IH]; intros H; cbn in H; try discriminate; cbn [lift].
  - reflexivity.
  - rewrite (IH H). reflexivity.
  - rewrite (IH H). reflexivity.
  - exact (IH H).
Qed.

(* flushing and building new wrapper objects (Corr.rewrap) = lifting the LevelDB content the stack stands for *)
Lemma rewrap_lift s : ldb_stack s = true -> forall x m, lrel s x m -> rewrap s x = lift s m.
Proof.
  induction s as [| |s' IH|l s' IH|f s' IH|f s' IH|s' IH]; intros H x m Hr; cbn in H; try discriminate; cbn [lrel rewrap lift] in *.
  - destruct Hr as [-> _]. reflexivity.
  - destruct Hr as [y [[H1 H2] [H3 H4]]]. subst m. rewrite (IH H (fst x) (fst y) H1). reflexivity.
  - destruct Hr as [y [HB [H3 H4]]]. subst m.
    destruct (bflush_cong lgq (prov_of s') leveldb (lrel s') lgq_batch (ldb_stack_bisim s' H) x y HB) as [[A [B C]] D].
    destruct (bflush_over l leveldb ldb_batch_seq y H4) as [E1 [E2 E3]].
    rewrite (IH H _ _ A), E1. reflexivity.
  - destruct Hr as [y [H1 ->]]. exact (IH H x _ H1).
Qed.

Lemma ldb_stack_run s : ldb_stack s = true -> forall ops m, forallb lgq ops = true -> wf_store (fst m) ->
  run (prov_of s) (lift s m) ops = run leveldb m ops.
Proof. intros H ops m Hops Hw. apply (bisim_run lgq (prov_of s) leveldb (lrel s) (ldb_stack_bisim s H)); [exact Hops|apply lrel_lift; assumption]. Qed.

Lemma ldb_wf_run ops : forall m, forallb lgq ops = true -> wf_store (fst m) -> wf_store (fst (run_state leveldb m ops)).
Proof. induction ops as [|o r IH]; intros m Hops Hw; [exact Hw|]. cbn in Hops. apply andb_prop in Hops as [Ho Hr].
  cbn [run_state]. apply IH; [exact Hr|]. apply ldb_wf_step; assumption. Qed.

Lemma ldb_stack_rewrap_run s : ldb_stack s = true -> forall pre ops, forallb lgq pre = true -> forallb lgq ops = true ->
  run (prov_of s) (rewrap s (run_state (prov_of s) (init (prov_of s)) pre)) ops =
  run leveldb (run_state leveldb (init leveldb) pre) ops.
Proof. intros H pre ops Hpre Hops.
  assert (HR : lrel s (run_state (prov_of s) (init (prov_of s)) pre) (run_state leveldb (init leveldb) pre)).
  { apply (bisim_run_state lgq (prov_of s) leveldb (lrel s) (ldb_stack_bisim s H)); [exact Hpre|].
    rewrite <- (lift_init s H). apply lrel_lift; [exact H|apply wf_store_nil]. }
  rewrite (rewrap_lift s H _ _ HR). apply ldb_stack_run; [exact H|exact Hops|].
  apply ldb_wf_run; [exact Hpre|apply wf_store_nil]. Qed.
