(* C11 — wrappers over a provider P that need NOT follow the contract on queries (LevelDB): the wrapper is transparent
   with respect to P's OWN behaviour.  What is needed of P: its entries follow the contract (Put/Get/GetTags/GetBulk/
   Delete/Batch/Flush/Reopen, through an abstraction function), reads leave its state unchanged, refused writes too. *)
From Coq Require Import List NArith ZArith Bool Lia.
Import ListNotations.
From VF Require Import C11.Model C11.Proofs C11.ProofsL.
Local Open Scope N_scope.

Definition is_query (o : op) : bool := match o with Query _ => true | _ => false end.
Definition is_read (o : op) : bool := match o with Get _ | GetTags _ | GetBulk _ | Query _ => true | _ => false end.
Definition q_out (x : out) : bool := match x with OQuery _ | OErr | ONotFound => true | _ => false end.

Record entry_exact (G : op -> bool) (pers : bool) (P : prov) (ab : St P -> store) : Prop := {
  ee_step : forall m o, G o = true -> is_query o = false ->
            ab (fst (step P m o)) = fst (spec_step pers (ab m) o) /\ snd (step P m o) = snd (spec_step pers (ab m) o);
  ee_pure : forall m o, is_read o = true -> fst (step P m o) = m;
  ee_refused : forall m o, G o = true -> is_query o = false -> snd (step P m o) <> ODone -> fst (step P m o) = m;
  ee_qout : forall m q, q_out (snd (step P m (Query q))) = true
}.

Section CachedOver.
  Variable G : op -> bool.
  Variable pers : bool.
  Variable P : prov.
  Variable ab : St P -> store.
  Hypothesis EE : entry_exact G pers P ab.
  Hypothesis HGwf : forall o, G o = true -> wf_op o = true.
  Hypothesis HGget : forall k, G (Get k) = true.
  Hypothesis HGtags : forall k, G (GetTags k) = true.

  Definition cinv (s : St (cached true P)) : Prop := cache_ok (snd s) (ab (fst s)) /\ wf_store (ab (fst s)).

  Lemma cached_over_step s o : G o = true -> cinv s ->
    fst (fst (step (cached true P) s o)) = fst (step P (fst s) o) /\
    snd (step (cached true P) s o) = snd (step P (fst s) o) /\
    cinv (fst (step (cached true P) s o)).
  Proof.
    destruct s as [m c]. intros Ho [Hc Hw]. cbn [fst snd] in Hc, Hw. pose proof (HGwf o Ho) as Hwfo.
    destruct o as [k v t|k|k|ks|q|k|b| |]; cbn [step cached cached_step fst snd].
    - (* Put *)
      destruct (ee_step G pers P ab EE m (Put k v t) Ho eq_refl) as [E1 E2].
      destruct (existsb bad_tag t) eqn:Eb.
      + cbn [spec_step] in E1, E2. rewrite (bad_tags_invalid k v t Eb) in E1, E2. cbn [fst snd] in E1, E2.
        assert (Hm : fst (step P m (Put k v t)) = m) by (apply (ee_refused G pers P ab EE m _ Ho eq_refl); rewrite E2; discriminate).
        cbn [fst snd]. rewrite Hm, E2. unfold cinv. cbn [fst snd]. auto.
      + destruct (step P m (Put k v t)) as [m1 r]. cbn [fst snd spec_step] in *. subst r.
        destruct (valid_put k v t) eqn:Ev; cbn [fst snd is_done err_of] in *.
        * rewrite (cache_put c k v t Ev). cbn [fst snd is_done]. split; [reflexivity|]. split; [reflexivity|]. unfold cinv. cbn [fst snd].
          rewrite E1. split; [apply cache_ok_put; exact Hc|apply wf_store_put; [exact Hw|apply (valid_put_wf k); exact Ev]].
        * split; [reflexivity|]. split; [reflexivity|]. unfold cinv. cbn [fst snd]. rewrite E1. auto.
    - (* Get *)
      destruct (ee_step G pers P ab EE m (Get k) Ho eq_refl) as [E1 E2]. pose proof (ee_pure G pers P ab EE m (Get k) eq_refl) as Hp.
      rewrite cache_get. cbn [spec_step] in E1, E2. destruct (k =? 0) eqn:Ek.
      + cbn [fst snd] in *. rewrite Hp, E2. unfold cinv. auto.
      + cbn [fst snd] in *. destruct (lookup c k) as [[cv ct]|] eqn:Hl.
        * cbn [fst snd]. rewrite Hp, E2, (Hc _ _ Hl). unfold cinv. auto.
        * destruct (step P m (Get k)) as [m1 r]. cbn [fst snd] in *. subst m1 r.
          destruct (lookup (ab m) k) as [[v t]|] eqn:Ha.
          -- destruct (ee_step G pers P ab EE m (GetTags k) (HGtags k) eq_refl) as [E3 E4].
             pose proof (ee_pure G pers P ab EE m (GetTags k) eq_refl) as Hp2.
             destruct (step P m (GetTags k)) as [m2 rt]. cbn [fst snd spec_step] in *. rewrite Ek, Ha in E4. cbn [snd] in E4. subst m2 rt.
             destruct (Hw _ _ Ha) as [Hv Ht]. cbn [fst snd] in Hv, Ht.
             assert (Evp : valid_put k v t = true).
             { unfold valid_put. rewrite Ht, Ek. destruct (N.eqb_spec v 0); [contradiction|]. reflexivity. }
             rewrite (cache_put c k v t Evp). cbn [fst snd is_done]. split; [reflexivity|]. split; [reflexivity|].
             unfold cinv. cbn [fst snd]. split; [apply cache_ok_put_fill; assumption|exact Hw].
          -- cbn [fst snd err_of]. unfold cinv. auto.
    - (* GetTags *)
      destruct (ee_step G pers P ab EE m (GetTags k) Ho eq_refl) as [E1 E2]. pose proof (ee_pure G pers P ab EE m (GetTags k) eq_refl) as Hp.
      rewrite cache_gettags. cbn [spec_step] in E1, E2. destruct (k =? 0) eqn:Ek.
      + cbn [fst snd] in *. rewrite Hp, E2. unfold cinv. auto.
      + cbn [fst snd] in *. destruct (lookup c k) as [[cv ct]|] eqn:Hl.
        * cbn [fst snd]. rewrite Hp, E2, (Hc _ _ Hl). unfold cinv. auto.
        * destruct (step P m (GetTags k)) as [m1 r]. cbn [fst snd] in *. subst m1 r.
          split; [reflexivity|]. split; [destruct (lookup (ab m) k) as [[v t]|]; reflexivity|]. unfold cinv. auto.
    - (* GetBulk *)
      destruct (ee_step G pers P ab EE m (GetBulk ks) Ho eq_refl) as [E1 E2]. pose proof (ee_pure G pers P ab EE m (GetBulk ks) eq_refl) as Hp.
      destruct (step P m (GetBulk ks)) as [m1 r]. cbn [fst snd spec_step] in *. subst m1 r.
      split; [reflexivity|]. split; [destruct (is_nil ks || has_empty_key ks); reflexivity|]. unfold cinv. auto.
    - (* Query *)
      pose proof (ee_pure G pers P ab EE m (Query q) eq_refl) as Hp. pose proof (ee_qout G pers P ab EE m q) as Hq.
      destruct (step P m (Query q)) as [m1 r]. cbn [fst snd] in *. subst m1.
      split; [reflexivity|]. split; [destruct r; try discriminate; reflexivity|]. unfold cinv. auto.
    - (* Delete *)
      destruct (ee_step G pers P ab EE m (Delete k) Ho eq_refl) as [E1 E2].
      destruct (step P m (Delete k)) as [m1 r]. cbn [fst snd spec_step] in *. subst r.
      unfold cstep_mem. rewrite mem_step_spec. cbn [spec_step].
      destruct (k =? 0); cbn [fst snd is_done err_of] in *; (split; [reflexivity|]); (split; [reflexivity|]); unfold cinv; cbn [fst snd]; rewrite E1.
      * auto.
      * split; [apply cache_ok_remove; exact Hc|apply wf_store_remove; exact Hw].
    - (* Batch *)
      destruct (ee_step G pers P ab EE m (Batch b) Ho eq_refl) as [E1 E2].
      destruct (step P m (Batch b)) as [m1 r]. cbn [fst snd spec_step] in *. subst r.
      unfold cstep_mem. rewrite mem_step_spec. cbn [spec_step].
      destruct (is_nil b || has_empty_key (map bop_key b)); cbn [fst snd is_done err_of] in *; (split; [reflexivity|]); (split; [reflexivity|]); unfold cinv; cbn [fst snd]; rewrite E1.
      * auto.
      * split; [apply cache_ok_batch; exact Hc|apply wf_store_batch; [exact Hw|exact Hwfo]].
    - (* Flush *)
      destruct (ee_step G pers P ab EE m Flush Ho eq_refl) as [E1 E2].
      destruct (step P m Flush) as [m1 r]. cbn [fst snd spec_step] in *. subst r. cbn.
      split; [reflexivity|]. split; [reflexivity|]. unfold cinv. cbn [fst snd]. rewrite E1. auto.
    - (* Reopen *)
      destruct (ee_step G pers P ab EE m Reopen Ho eq_refl) as [E1 E2].
      destruct (step P m Reopen) as [m1 r]. cbn [fst snd spec_step] in *. subst r. cbn.
      split; [reflexivity|]. split; [reflexivity|]. unfold cinv. cbn [fst snd]. rewrite E1.
      split; [apply cache_ok_nil|destruct pers; [exact Hw|apply wf_store_nil]].
  Qed.

  Lemma cached_over_run ops : forall s, forallb G ops = true -> cinv s ->
    run (cached true P) s ops = run P (fst s) ops.
  Proof. induction ops as [|o r IH]; intros s HG Hi; [reflexivity|]. cbn in HG. apply andb_prop in HG as [Ho Hr].
    destruct (cached_over_step s o Ho Hi) as [H1 [H2 H3]]. cbn [run].
    destruct (step (cached true P) s o) as [s1 x]. destruct (step P (fst s) o) as [m1 y]. cbn [fst snd] in *. subst y. f_equal.
    rewrite (IH s1 Hr H3), H1. reflexivity. Qed.
End CachedOver.

(* ---------- LevelDB is such a provider ---------- *)
Definition lg (o : op) : bool :=
  match o with Batch b => forallb wf_bop b && negb (has_empty_key (map bop_key (tl b))) | _ => true end.

Lemma lg_ldb_ok o : lg o = true -> is_query o = false -> ldb_ok_op o = true.
Proof. destruct o; cbn; try reflexivity; try discriminate; auto. Qed.

Lemma ldb_entry_exact : entry_exact lg true leveldb fst.
Proof. constructor.
  - intros m o Ho Hq. apply (ldb_sim m (fst m) o (lg_ldb_ok o Ho Hq) eq_refl).
  - intros m o Hr. destruct o; try discriminate; cbn [step leveldb ldb_step].
    + destruct (k =? 0); reflexivity.
    + destruct (k =? 0); reflexivity.
    + destruct (is_nil ks || has_empty_key ks); reflexivity.
    + reflexivity.
  - intros m o Ho Hq Hne. destruct o as [k v t|k|k|ks|q|k|b| |]; try discriminate; cbn [step leveldb ldb_step] in *.
    + unfold ldb_put in *. destruct (valid_put k v t); [exfalso; apply Hne; reflexivity|reflexivity].
    + destruct (k =? 0); reflexivity.
    + destruct (k =? 0); reflexivity.
    + destruct (is_nil ks || has_empty_key ks); reflexivity.
    + unfold ldb_delete in *. destruct (k =? 0); [reflexivity|exfalso; apply Hne; reflexivity].
    + cbn in Ho. apply andb_prop in Ho as [Hw Hk]. destruct b as [|[[k v] t] r]; [reflexivity|]. cbn [is_nil tl] in *.
      destruct (N.eqb_spec k 0) as [->|Hk0].
      * apply (proj2 (ldb_batch_head_empty v t r m)).
      * exfalso. apply Hne. apply negb_true_iff in Hk.
        assert (Hk' : has_empty_key (map bop_key ((k, v, t) :: r)) = false).
        { unfold has_empty_key in *. cbn [map existsb]. apply orb_false_intro; [|exact Hk]. apply N.eqb_neq. cbn. intros E. apply Hk0. symmetry. exact E. }
        apply (proj2 (ldb_batch_ok ((k, v, t) :: r) m Hw Hk')).
    + exfalso. apply Hne. reflexivity.
    + exfalso. apply Hne. reflexivity.
  - intros m q. cbn [step leveldb ldb_step snd]. unfold ldb_query. destruct q as [|c [|c2 q2]]; [reflexivity| |].
    + destruct (snd c =? 0); reflexivity.
    + destruct (Nat.leb 2 _); reflexivity.
Qed.

(* ---------- the batching wrapper over a provider whose Batch is the sequence of its single operations ---------- *)
Definition gq1 (b : bop) : bool := wf_bop b && negb (bop_key b =? 0).
Definition put_ok (b : bop) : Prop := let '(k, v, t) := b in (v =? 0) = true \/ valid_put k v t = true.

Record batch_seq (P : prov) : Prop := {
  bs_put : forall m k v t, valid_put k v t = true ->
           step P m (Put k v t) = (fst (step P m (Batch [(k, v, t)])), ODone) /\ snd (step P m (Batch [(k, v, t)])) = ODone;
  bs_del : forall m k, (k =? 0) = false ->
           step P m (Delete k) = (fst (step P m (Batch [(k, 0, [])])), ODone) /\ snd (step P m (Batch [(k, 0, [])])) = ODone;
  bs_cons : forall m x r, gq1 x = true -> forallb gq1 r = true -> r <> [] ->
            step P m (Batch (x :: r)) = step P (fst (step P m (Batch [x]))) (Batch r);
  bs_one : forall m x, gq1 x = true -> snd (step P m (Batch [x])) = ODone;
  bs_bad_put : forall m k v t, valid_put k v t = false -> step P m (Put k v t) = (m, OErr);
  bs_bad_del : forall m, step P m (Delete 0) = (m, OErr);
  bs_bad_batch : forall m b, lg (Batch b) = true -> is_nil b || has_empty_key (map bop_key b) = true -> step P m (Batch b) = (m, OErr);
  bs_read : forall m o, is_read o = true -> snd (step P m o) <> ODone;
  bs_flush : forall m, step P m Flush = (m, ODone);
  bs_reopen : forall m, snd (step P m Reopen) = ODone
}.

Section BatchedOver.
  Variable l : Z.
  Variable P : prov.
  Hypothesis BS : batch_seq P.

  Definition flushq (m : St P) (q : list bop) : St P := match q with [] => m | _ => fst (step P m (Batch q)) end.
  Definition virt (s : St (batched l P)) : St P := flushq (fst s) (snd s).
  Definition binv (s : St (batched l P)) : Prop := forallb gq1 (snd s) = true.

  Lemma batch_ok m q : forallb gq1 q = true -> q <> [] -> snd (step P m (Batch q)) = ODone.
  Proof. revert m. induction q as [|x r IH]; intros m Hq Hn; [contradiction|]. cbn in Hq. apply andb_prop in Hq as [Hx Hr].
    destruct r as [|y r']; [apply (bs_one P BS); exact Hx|]. rewrite (bs_cons P BS m x (y :: r') Hx Hr) by discriminate.
    apply IH; [exact Hr|discriminate]. Qed.
  Lemma batch_app m q1 q2 : forallb gq1 q1 = true -> forallb gq1 q2 = true -> q1 <> [] -> q2 <> [] ->
    step P m (Batch (q1 ++ q2)) = step P (fst (step P m (Batch q1))) (Batch q2).
  Proof. revert m. induction q1 as [|x r IH]; intros m H1 H2 Hn1 Hn2; [contradiction|]. cbn in H1. apply andb_prop in H1 as [Hx Hr].
    destruct r as [|y r'].
    - cbn [app]. apply (bs_cons P BS); assumption.
    - change ((x :: y :: r') ++ q2) with (x :: ((y :: r') ++ q2)). rewrite (bs_cons P BS m x ((y :: r') ++ q2) Hx) by (try discriminate; rewrite forallb_app, Hr, H2; reflexivity).
      rewrite (IH (fst (step P m (Batch [x]))) Hr H2) by (try discriminate; exact Hn2).
      rewrite (bs_cons P BS m x (y :: r') Hx Hr) by discriminate. reflexivity. Qed.
  Lemma flushq_snoc m q b : forallb gq1 q = true -> gq1 b = true ->
    flushq m (q ++ [b]) = fst (step P (flushq m q) (Batch [b])).
  Proof. intros Hq Hb. destruct q as [|x r]; [reflexivity|]. unfold flushq. cbn [app].
    change (x :: r ++ [b]) with ((x :: r) ++ [b]). rewrite batch_app; [reflexivity|exact Hq|cbn; rewrite Hb; reflexivity|discriminate|discriminate]. Qed.

  Lemma bflush_over s : binv s ->
    fst (fst (bflush P s)) = virt s /\ snd (fst (bflush P s)) = [] /\ snd (bflush P s) = ODone.
  Proof. destruct s as [m q]. intros Hq. unfold binv, virt, flushq, bflush in *. cbn [fst snd] in *. destruct q as [|x r]; [auto|].
    pose proof (batch_ok m (x :: r) Hq) as Hk. destruct (step P m (Batch (x :: r))) as [m1 y]. cbn [snd] in Hk. rewrite Hk by discriminate. cbn. auto. Qed.

  Lemma benqueue_over s b : binv s -> gq1 b = true ->
    virt (fst (benqueue l P s b)) = fst (step P (virt s) (Batch [b])) /\ snd (benqueue l P s b) = ODone /\ binv (fst (benqueue l P s b)).
  Proof. destruct s as [m q]. intros Hq Hb. unfold binv in *. cbn [fst snd] in *.
    assert (Hq1 : forallb gq1 (q ++ [b]) = true) by (rewrite forallb_app, Hq; cbn; rewrite Hb; reflexivity).
    unfold benqueue. destruct (Z.leb l (Z.of_nat (length (q ++ [b])))).
    - destruct (bflush_over (m, q ++ [b]) Hq1) as [H1 [H2 H3]]. destruct (bflush P (m, q ++ [b])) as [s1 y]. cbn [fst snd] in *. subst y.
      split; [|split; [reflexivity|rewrite H2; reflexivity]]. unfold virt. rewrite H2. cbn [flushq]. rewrite H1. unfold virt. cbn [fst snd].
      apply flushq_snoc; assumption.
    - cbn [fst snd]. split; [|split; [reflexivity|exact Hq1]]. unfold virt. cbn [fst snd]. apply flushq_snoc; assumption. Qed.

  Lemma benqueue_all_over b : forall s, binv s -> forallb gq1 b = true -> b <> [] ->
    virt (fst (benqueue_all l P s b)) = fst (step P (virt s) (Batch b)) /\ snd (benqueue_all l P s b) = ODone /\ binv (fst (benqueue_all l P s b)).
  Proof. induction b as [|x r IH]; intros s Hi Hb Hn; [contradiction|]. cbn in Hb. apply andb_prop in Hb as [Hx Hr].
    destruct (benqueue_over s x Hi Hx) as [H1 [H2 H3]]. cbn [benqueue_all]. destruct (benqueue l P s x) as [s1 y]. cbn [fst snd] in *. subst y. cbn [is_done].
    destruct r as [|y r'].
    - cbn [benqueue_all fst snd]. auto.
    - destruct (IH s1 H3 Hr) as [H4 [H5 H6]]; [discriminate|]. split; [|auto]. rewrite H4, H1.
      symmetry. rewrite (bs_cons P BS (virt s) x (y :: r') Hx Hr) by discriminate. reflexivity. Qed.

  Lemma bread_over s o : is_read o = true -> binv s ->
    virt (fst (bread P s o)) = fst (step P (virt s) o) /\
    snd (bread P s o) = snd (step P (virt s) o) /\ binv (fst (bread P s o)).
  Proof. intros Hr Hi. destruct (bflush_over s Hi) as [H1 [H2 H3]]. unfold bread. destruct (bflush P s) as [s1 y]. cbn [fst snd] in *. subst y. cbn [is_done].
    rewrite H1, H2. pose proof (bs_read P BS (virt s) o Hr) as Hne. destruct (step P (virt s) o) as [m2 r]. cbn [fst snd] in *.
    unfold virt, binv. cbn. split; [reflexivity|]. split; [destruct r; try reflexivity; contradiction|reflexivity]. Qed.

  Lemma batched_over_step s o : lg o = true -> wf_op o = true -> binv s ->
    virt (fst (step (batched l P) s o)) = fst (step P (virt s) o) /\
    snd (step (batched l P) s o) = snd (step P (virt s) o) /\ binv (fst (step (batched l P) s o)).
  Proof.
    intros Hg Hwf Hi. destruct o as [k v t|k|k|ks|q|k|b| |]; cbn [step batched batched_step].
    - destruct (valid_put k v t) eqn:Ev.
      + assert (Hb : gq1 (k, v, t) = true).
        { unfold gq1. destruct (valid_put_wf k v t Ev) as [_ Ht]. unfold wf_bop. cbn in *. rewrite Ht. cbn.
          unfold valid_put in Ev. destruct (k =? 0); [discriminate|reflexivity]. }
        destruct (benqueue_over s (k, v, t) Hi Hb) as [H1 [H2 H3]]. destruct (bs_put P BS (virt s) k v t Ev) as [E1 E2].
        rewrite E1. cbn [fst snd]. auto.
      + rewrite (bs_bad_put P BS (virt s) k v t Ev). cbn [fst snd]. auto.
    - apply bread_over; [reflexivity|exact Hi].
    - apply bread_over; [reflexivity|exact Hi].
    - apply bread_over; [reflexivity|exact Hi].
    - apply bread_over; [reflexivity|exact Hi].
    - destruct (k =? 0) eqn:Ek.
      + apply N.eqb_eq in Ek. subst k. rewrite (bs_bad_del P BS (virt s)). cbn [fst snd]. auto.
      + assert (Hb : gq1 (k, 0, []) = true) by (unfold gq1; cbn; rewrite Ek; reflexivity).
        destruct (benqueue_over s (k, 0, []) Hi Hb) as [H1 [H2 H3]]. destruct (bs_del P BS (virt s) k Ek) as [E1 E2].
        rewrite E1. cbn [fst snd]. auto.
    - destruct (is_nil b || has_empty_key (map bop_key b)) eqn:E.
      + rewrite (bs_bad_batch P BS (virt s) b Hg E). cbn [fst snd]. auto.
      + apply orb_false_elim in E as [E1 E2].
        assert (Hb : forallb gq1 b = true).
        { cbn [wf_op] in Hwf. clear - Hwf E2. unfold has_empty_key in E2. induction b as [|x r IH]; [reflexivity|].
          cbn [forallb map existsb] in *. apply andb_prop in Hwf as [H1 H2]. apply orb_false_elim in E2 as [H3 H4].
          rewrite (IH H2 H4), andb_true_r. unfold gq1. rewrite H1, (N.eqb_sym (bop_key x) 0), H3. reflexivity. }
        assert (Hn : b <> []) by (destruct b; [discriminate|discriminate]).
        destruct (benqueue_all_over b s Hi Hb Hn) as [H1 [H2 H3]]. split; [exact H1|split; [|exact H3]].
        etransitivity; [exact H2|symmetry; apply batch_ok; assumption].
    - destruct (bflush_over s Hi) as [H1 [H2 H3]]. destruct (bflush P s) as [s1 y]. cbn [fst snd] in *. subst y. cbn [is_done].
      rewrite H1, (bs_flush P BS (virt s)). cbn. unfold virt, binv. cbn [fst snd]. rewrite H2. auto.
    - destruct (bflush_over s Hi) as [H1 [H2 H3]]. destruct (bflush P s) as [s1 y]. cbn [fst snd] in *. subst y. cbn [is_done].
      rewrite H1, (bs_flush P BS (virt s)). cbn [is_done]. pose proof (bs_reopen P BS (virt s)) as Hr.
      destruct (step P (virt s) Reopen) as [m3 r3]. cbn [snd] in Hr. subst r3. cbn. unfold virt, binv. cbn. auto.
  Qed.
End BatchedOver.

Lemma batched_over_run l P (BS : batch_seq P) ops : forall s, forallb (fun o => lg o && wf_op o) ops = true -> binv l P s ->
  run (batched l P) s ops = run P (virt l P s) ops.
Proof. induction ops as [|o r IH]; intros s HG Hi; [reflexivity|]. cbn in HG. apply andb_prop in HG as [Ho Hr]. apply andb_prop in Ho as [Ho1 Ho2].
  destruct (batched_over_step l P BS s o Ho1 Ho2 Hi) as [H1 [H2 H3]]. cbn [run].
  destruct (step (batched l P) s o) as [s1 x]. destruct (step P (virt l P s) o) as [m1 y]. cbn [fst snd] in *. subst y. f_equal.
  rewrite (IH s1 Hr H3), H1. reflexivity. Qed.

Lemma ldb_one_ok m x : gq1 x = true -> exists m1, (let '(k, v, t) := x in if v =? 0 then ldb_delete m k else ldb_put m k v t) = (m1, ODone).
Proof. destruct x as [[k v] t]. unfold gq1, wf_bop. cbn [snd bop_key fst]. intros H. apply andb_prop in H as [Ht Hk].
  apply negb_true_iff in Hk. apply negb_true_iff in Ht. destruct (v =? 0) eqn:Ev.
  - unfold ldb_delete. rewrite Hk. eexists. reflexivity.
  - unfold ldb_put, valid_put. rewrite Hk, Ev, Ht. eexists. reflexivity. Qed.

Lemma ldb_batch_seq : batch_seq leveldb.
Proof. constructor; cbn [step leveldb ldb_step].
  - intros m k v t Ev.
    assert (Ev0 : (v =? 0) = false). { unfold valid_put in Ev. destruct (v =? 0); [rewrite andb_false_r in Ev; discriminate|reflexivity]. }
    cbn [is_nil ldb_batch]. rewrite Ev0. unfold ldb_put. rewrite Ev. cbn. auto.
  - intros m k Ek. cbn [is_nil ldb_batch N.eqb]. unfold ldb_delete. rewrite Ek. cbn. auto.
  - intros m x r Hx Hr Hn. cbn [is_nil]. destruct (ldb_one_ok m x Hx) as [m1 E]. destruct x as [[k v] t]. cbn [ldb_batch]. rewrite E. cbn [fst].
    destruct r; [contradiction|reflexivity].
  - intros m x Hx. cbn [is_nil]. destruct (ldb_one_ok m x Hx) as [m1 E]. destruct x as [[k v] t]. cbn [ldb_batch]. rewrite E. reflexivity.
  - intros m k v t Ev. unfold ldb_put. rewrite Ev. reflexivity.
  - intros m. reflexivity.
  - intros m b Hg E. destruct b as [|[[k v] t] r]; [reflexivity|]. cbn [is_nil orb] in *. cbn [lg tl] in Hg. apply andb_prop in Hg as [_ Hk].
    apply negb_true_iff in Hk. unfold has_empty_key in *. cbn [map existsb bop_key fst] in E. rewrite Hk, orb_false_r in E. apply N.eqb_eq in E. subst k.
    destruct (ldb_batch_head_empty v t r m) as [H1 H2]. apply injective_projections; [exact H2|exact H1].
  - intros m o Hr. destruct o; try discriminate; cbn [step leveldb ldb_step].
    + destruct (k =? 0); cbn; [discriminate|]. destruct (lookup (fst m) k) as [[? ?]|]; discriminate.
    + destruct (k =? 0); cbn; [discriminate|]. destruct (lookup (fst m) k) as [[? ?]|]; discriminate.
    + destruct (is_nil ks || has_empty_key ks); cbn; discriminate.
    + cbn [snd]. unfold ldb_query. destruct q as [|c [|c2 q2]]; [discriminate| |].
      * destruct (snd c =? 0); discriminate.
      * destruct (Nat.leb 2 _); discriminate.
  - reflexivity.
  - reflexivity.
Qed.
