(* C11 — lemmas: stacks of wrappers of any depth over the in-memory provider. *)
From Coq Require Import List NArith ZArith Bool Lia.
Import ListNotations.
From VF Require Import C11.Model C11.Proofs C11.ProofsB C11.ProofsF C11.ProofsR C11.Corr.
Local Open Scope N_scope.

Fixpoint mem_stack (s : stack) : bool :=
  match s with
  | SMem => true
  | SCached s' | SBatched _ s' => mem_stack s'
  | SLevel | SFmt _ _ | SFmtR _ _ | SFmtE _ => false
  end.

Lemma wf_op_batch q : forallb wf_bop q = true -> wf_op (Batch q) = true.
Proof. intros H; exact H. Qed.
Lemma put_wf_bop k v t : wf_op (Put k v t) = true -> valid_put k v t = true -> wf_bop (k, v, t) = true.
Proof. intros _ Ev. destruct (valid_put_wf k v t Ev) as [_ Ht]. unfold wf_bop. cbn in *. rewrite Ht. reflexivity. Qed.

(* the relation of a stack, built by recursion on the stack *)
Fixpoint stack_rel (s : stack) : St (prov_of s) -> store -> Prop :=
  match s return St (prov_of s) -> store -> Prop with
  | SMem => eq
  | SLevel => fun _ _ => False
  | SCached s' => cached_rel (stack_rel s')
  | SBatched l s' => batched_rel wf_bop l (stack_rel s')
  | SFmt f s' => fmt_rel (fmt_of f) (prov_of s') (stack_rel s')
  | SFmtR _ s' => fun _ _ => False
  | SFmtE s' => fun _ _ => False
  end.

Lemma stack_sim s : mem_stack s = true -> sim wf_op false (prov_of s) (stack_rel s).
Proof.
  induction s as [| |s' IH|l s' IH|f s' IH|f s' IH|s' IH]; intros H; cbn in H; try discriminate.
  - apply mem_sim.
  - cbn [prov_of stack_rel]. apply cached_sim; [auto|reflexivity|apply IH; assumption].
  - cbn [prov_of stack_rel]. apply batched_sim; [exact wf_op_batch|apply IH; assumption|exact put_wf_bop|reflexivity|auto|reflexivity|reflexivity].
Qed.

Lemma stack_rel_init s : mem_stack s = true -> stack_rel s (init (prov_of s)) [].
Proof.
  induction s as [| |s' IH|l s' IH|f s' IH|f s' IH|s' IH]; intros H; cbn in H; try discriminate.
  - reflexivity.
  - cbn. split; [apply IH; assumption|]. split; [apply cache_ok_nil|apply wf_store_nil].
  - cbn. apply batched_rel_fresh. apply IH; assumption.
Qed.

(* flushing every wrapper and building new wrapper objects over the provider keeps the relation:
   wrappers are transparent also over a provider that already holds data *)
Lemma stack_rel_rewrap s : mem_stack s = true -> forall x a, stack_rel s x a -> stack_rel s (rewrap s x) a.
Proof.
  induction s as [| |s' IH|l s' IH|f s' IH|f s' IH|s' IH]; intros H x a Hr; cbn in H; try discriminate.
  - exact Hr.
  - destruct x as [m c]. destruct Hr as [H1 [H2 H3]]. cbn [rewrap fst snd] in *.
    split; [apply IH; assumption|]. split; [apply cache_ok_nil|assumption].
  - cbn [rewrap]. pose proof (stack_sim s' H) as HS.
    destruct (bflush_rel wf_op wf_bop false l (prov_of s') (stack_rel s') wf_op_batch HS x a Hr) as [_ [_ [_ H4]]].
    apply batched_rel_fresh. apply IH; assumption.
Qed.

(* ---------- stacks that also contain formatting layers (deterministic keys): guard = single-criterion queries ---------- *)
Fixpoint plain_stack (s : stack) : bool :=
  match s with
  | SMem => true
  | SLevel | SFmtR _ _ | SFmtE _ => false
  | SCached s' | SBatched _ s' | SFmt _ s' => plain_stack s'
  end.

Lemma fmt_of_ok f : fmt_ok (fmt_of f).
Proof. destruct f; [apply noop_ok|apply b64_ok]. Qed.
Lemma wf1_wf o : wf1_op o = true -> wf_op o = true.
Proof. unfold wf1_op. intros H. apply andb_prop in H as [H _]. exact H. Qed.
Lemma wf1_op_batch q : forallb wf_bop q = true -> wf1_op (Batch q) = true.
Proof. intros H. unfold wf1_op. cbn. rewrite H. reflexivity. Qed.

Lemma put_wf_bop1 k v t : wf1_op (Put k v t) = true -> valid_put k v t = true -> wf_bop (k, v, t) = true.
Proof. intros _. apply put_wf_bop. reflexivity. Qed.
Lemma wf1_batch_inv b : wf1_op (Batch b) = true -> forallb wf_bop b = true.
Proof. intros H. apply wf1_wf in H. exact H. Qed.

Lemma plain_stack_sim s : plain_stack s = true -> sim wf1_op false (prov_of s) (stack_rel s).
Proof.
  induction s as [| |s' IH|l s' IH|f s' IH|f s' IH|s' IH]; intros H; cbn in H; try discriminate.
  - apply mem_sim.
  - cbn [prov_of stack_rel]. apply cached_sim; [exact wf1_wf|reflexivity|apply IH; assumption].
  - cbn [prov_of stack_rel]. apply batched_sim; [exact wf1_op_batch|apply IH; assumption|exact put_wf_bop1|reflexivity|exact wf1_batch_inv|reflexivity|reflexivity].
  - cbn [prov_of stack_rel]. apply formatted_det_sim; [apply fmt_of_ok|apply IH; assumption].
Qed.

Lemma plain_stack_rel_init s : plain_stack s = true -> stack_rel s (init (prov_of s)) [].
Proof.
  induction s as [| |s' IH|l s' IH|f s' IH|f s' IH|s' IH]; intros H; cbn in H; try discriminate.
  - reflexivity.
  - cbn. split; [apply IH; assumption|]. split; [apply cache_ok_nil|apply wf_store_nil].
  - cbn. apply batched_rel_fresh. apply IH; assumption.
  - cbn. unfold fmt_rel. cbn. apply IH; assumption.
Qed.

Lemma plain_stack_rel_rewrap s : plain_stack s = true -> forall x a, stack_rel s x a -> stack_rel s (rewrap s x) a.
Proof.
  induction s as [| |s' IH|l s' IH|f s' IH|f s' IH|s' IH]; intros H x a Hr; cbn in H; try discriminate.
  - exact Hr.
  - destruct x as [m c]. destruct Hr as [H1 [H2 H3]]. cbn [rewrap fst snd] in *.
    split; [apply IH; assumption|]. split; [apply cache_ok_nil|assumption].
  - cbn [rewrap]. pose proof (plain_stack_sim s' H) as HS.
    destruct (bflush_rel wf1_op wf_bop false l (prov_of s') (stack_rel s') wf1_op_batch HS x a Hr) as [_ [_ [_ H4]]].
    apply batched_rel_fresh. apply IH; assumption.
  - cbn [rewrap stack_rel] in *. unfold fmt_rel in *. apply IH; assumption.
Qed.

(* ---------- stacks with ONE random-key formatting layer: caching/batching layers above it, a plain stack below ---------- *)
Fixpoint rand_stack (s : stack) : bool :=
  match s with
  | SFmtR _ s' => plain_stack s'
  | SCached s' | SBatched _ s' => rand_stack s'
  | _ => false
  end.

Definition gbk (b : bop) : bool := wf_bop b && user_tags (snd b).

Fixpoint rstack_rel (s : stack) : St (prov_of s) -> store -> Prop :=
  match s return St (prov_of s) -> store -> Prop with
  | SFmtR f s' => rand_rel (fmt_of f) (prov_of s') (stack_rel s')
  | SCached s' => cached_rel (rstack_rel s')
  | SBatched l s' => batched_rel gbk l (rstack_rel s')
  | _ => fun _ _ => False
  end.

Lemma wfk_wf o : wfk_op o = true -> wf_op o = true.
Proof. intros H. apply wf1_wf. unfold wfk_op in H. apply andb_prop in H as [H _]. exact H. Qed.
Lemma forallb_gbk q : forallb gbk q = true <-> forallb wf_bop q = true /\ forallb (fun x : bop => user_tags (snd x)) q = true.
Proof. induction q as [|x r IH]; cbn; [tauto|]. unfold gbk at 1. rewrite !andb_true_iff, IH. tauto. Qed.
Lemma wfk_op_batch q : forallb gbk q = true -> wfk_op (Batch q) = true.
Proof. intros H. apply forallb_gbk in H as [H1 H2]. unfold wfk_op, wf1_op. cbn. rewrite H1, H2. reflexivity. Qed.
Lemma wfk_batch_inv b : wfk_op (Batch b) = true -> forallb gbk b = true.
Proof. unfold wfk_op, wf1_op. cbn. rewrite andb_true_r. intros H. apply andb_prop in H. apply forallb_gbk. exact H. Qed.
Lemma put_gbk k v t : wfk_op (Put k v t) = true -> valid_put k v t = true -> gbk (k, v, t) = true.
Proof. intros H Ev. unfold gbk. rewrite (put_wf_bop k v t eq_refl Ev). unfold wfk_op in H. apply andb_prop in H as [_ H]. exact H. Qed.

Lemma rand_stack_sim s : rand_stack s = true -> sim wfk_op false (prov_of s) (rstack_rel s).
Proof.
  induction s as [| |s' IH|l s' IH|f s' IH|f s' IH|s' IH]; intros H; cbn in H; try discriminate.
  - cbn [prov_of rstack_rel]. apply cached_sim; [exact wfk_wf|reflexivity|apply IH; assumption].
  - cbn [prov_of rstack_rel]. apply batched_sim; [exact wfk_op_batch|apply IH; assumption|exact put_gbk|reflexivity|exact wfk_batch_inv|reflexivity|reflexivity].
  - cbn [prov_of rstack_rel]. apply formatted_rand_sim; [apply fmt_of_ok|apply plain_stack_sim; assumption].
Qed.

Lemma rand_stack_rel_init s : rand_stack s = true -> rstack_rel s (init (prov_of s)) [].
Proof.
  induction s as [| |s' IH|l s' IH|f s' IH|f s' IH|s' IH]; intros H; cbn in H; try discriminate.
  - cbn. split; [apply IH; assumption|]. split; [apply cache_ok_nil|apply wf_store_nil].
  - cbn. apply batched_rel_fresh. apply IH; assumption.
  - cbn [prov_of rstack_rel]. apply rand_rel_init. apply plain_stack_rel_init; assumption.
Qed.

Lemma rand_stack_rel_rewrap s : rand_stack s = true -> forall x a, rstack_rel s x a -> rstack_rel s (rewrap s x) a.
Proof.
  induction s as [| |s' IH|l s' IH|f s' IH|f s' IH|s' IH]; intros H x a Hr; cbn in H; try discriminate.
  - destruct x as [m c]. destruct Hr as [H1 [H2 H3]]. cbn [rewrap fst snd] in *.
    split; [apply IH; assumption|]. split; [apply cache_ok_nil|assumption].
  - cbn [rewrap]. pose proof (rand_stack_sim s' H) as HS.
    destruct (bflush_rel wfk_op gbk false l (prov_of s') (rstack_rel s') wfk_op_batch HS x a Hr) as [_ [_ [_ H4]]].
    apply batched_rel_fresh. apply IH; assumption.
  - cbn [rewrap rstack_rel] in *. destruct Hr as [jl [H1 [H2 H3]]]. exists jl. cbn [fst snd] in *.
    split; [apply plain_stack_rel_rewrap; assumption|]. split; assumption.
Qed.
