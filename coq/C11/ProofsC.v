(* C11 — lemmas about the contract machine itself: GetBulk positions, repeated keys, Batch order ("last wins"). *)
From Coq Require Import List NArith ZArith Bool Lia.
Import ListNotations.
From VF Require Import C11.Model C11.Proofs.
Local Open Scope N_scope.

Lemma lookup_apply_bop a k v t k' :
  lookup (apply_bop a (k, v, t)) k' = if k' =? k then (if v =? 0 then None else Some (v, t)) else lookup a k'.
Proof. unfold apply_bop. destruct (N.eqb_spec k' k) as [->|Hne]; destruct (v =? 0).
  - apply lookup_remove_same.
  - apply lookup_put_same.
  - apply lookup_remove_other; exact Hne.
  - apply lookup_put_other; exact Hne. Qed.

Lemma lookup_apply_batch_untouched b : forall a k, (forall x, In x b -> bop_key x <> k) -> lookup (apply_batch a b) k = lookup a k.
Proof. unfold apply_batch. induction b as [|[[k0 v0] t0] r IH]; intros a k H; cbn [fold_left]; [reflexivity|].
  rewrite IH by (intros x Hx; apply H; right; exact Hx). rewrite lookup_apply_bop.
  destruct (N.eqb_spec k k0) as [->|_]; [|reflexivity]. exfalso. apply (H (k0, v0, t0)); [left; reflexivity|reflexivity]. Qed.

Lemma batch_last_wins_lemma a b1 k v t b2 : (forall x, In x b2 -> bop_key x <> k) ->
  lookup (apply_batch a (b1 ++ (k, v, t) :: b2)) k = if v =? 0 then None else Some (v, t).
Proof. intros H. unfold apply_batch. rewrite fold_left_app. cbn [fold_left].
  change (fold_left apply_bop b2 ?s) with (apply_batch s b2). rewrite (lookup_apply_batch_untouched b2 _ k H), lookup_apply_bop, N.eqb_refl. reflexivity. Qed.

Lemma getbulk_nth a ks i : nth i (map (value_of a) ks) 0 = if Nat.ltb i (length ks) then value_of a (nth i ks 0) else 0.
Proof. revert i. induction ks as [|k r IH]; intros [|i]; cbn; try reflexivity. apply IH. Qed.
