(* C11 — lemmas: the LevelDB provider.  Entries follow the contract for every history; the TagMap index is only an
   over-approximation (never cleaned on overwrite), so query results are outside the proved part. *)
From Coq Require Import List NArith ZArith Bool Lia.
Import ListNotations.
From VF Require Import C11.Model C11.Proofs.
Local Open Scope N_scope.

(* guard: batches carry no ':' tags and an empty key at most in first position (what a store does with the operations
   in front of an invalid one is not prescribed; LevelDB applies them, mem rejects the batch); no Query *)
Definition ldb_ok_op (o : op) : bool :=
  match o with
  | Batch b => forallb wf_bop b && negb (has_empty_key (map bop_key (tl b)))
  | Query q => is_nil q
  | _ => true
  end.

Lemma ldb_batch_ok b : forall s, forallb wf_bop b = true -> has_empty_key (map bop_key b) = false ->
  fst (fst (ldb_batch s b)) = apply_batch (fst s) b /\ snd (ldb_batch s b) = ODone.
Proof.
  induction b as [|[[k v] t] r IH]; intros s Hw Hk; [cbn; auto|].
  cbn in Hw. apply andb_prop in Hw as [Hb Hr].
  unfold has_empty_key in Hk. cbn in Hk. apply orb_false_elim in Hk as [Hk1 Hk2].
  assert (Ek : (k =? 0) = false). { rewrite N.eqb_sym. exact Hk1. }
  cbn [ldb_batch]. unfold apply_batch. cbn [fold_left apply_bop]. destruct (v =? 0) eqn:Ev.
  - unfold ldb_delete. rewrite Ek. apply (IH (remove (fst s) k, tm_del (snd s) k) Hr Hk2).
  - unfold ldb_put. assert (Evp : valid_put k v t = true).
    { unfold valid_put. rewrite Ek, Ev. unfold wf_bop in Hb. cbn in Hb. cbn. exact Hb. }
    rewrite Evp. apply (IH (put (fst s) k (v, t), _) Hr Hk2).
Qed.

Lemma ldb_batch_head_empty v t r s : snd (ldb_batch s ((0, v, t) :: r)) = OErr /\ fst (ldb_batch s ((0, v, t) :: r)) = s.
Proof. cbn [ldb_batch]. destruct (v =? 0).
  - unfold ldb_delete. cbn. auto.
  - unfold ldb_put, valid_put. cbn. auto. Qed.

Lemma ldb_sim : sim ldb_ok_op true leveldb (fun s a => fst s = a).
Proof.
  intros s a o Ho <-. destruct o as [k v t|k|k|ks|q|k|b| |]; cbn [step leveldb ldb_step spec_step].
  - unfold ldb_put. destruct (valid_put k v t); cbn; auto.
  - destruct (k =? 0); cbn; auto.
  - destruct (k =? 0); cbn; auto.
  - destruct (is_nil ks || has_empty_key ks); cbn; auto.
  - cbn in Ho. destruct q; [cbn; auto|discriminate].
  - unfold ldb_delete. destruct (k =? 0); cbn; auto.
  - cbn in Ho. apply andb_prop in Ho as [Hw Hk]. destruct b as [|[[k v] t] r]; [cbn; auto|].
    cbn [is_nil orb tl] in *. destruct (N.eqb_spec k 0) as [->|Hk0].
    + destruct (ldb_batch_head_empty v t r s) as [H1 H2]. cbn [fst snd]. split; [|exact H1].
      etransitivity; [exact (f_equal fst H2)|reflexivity].
    + assert (Hk' : has_empty_key (map bop_key ((k, v, t) :: r)) = false).
      { apply negb_true_iff in Hk. unfold has_empty_key in *. cbn [map existsb]. apply orb_false_intro; [|exact Hk].
        apply N.eqb_neq. cbn. intros E. apply Hk0. symmetry. exact E. }
      destruct (ldb_batch_ok ((k, v, t) :: r) s Hw Hk') as [H1 H2].
      match goal with |- context [if ?c then _ else _] => replace c with false by (symmetry; exact Hk') end.
      cbn [fst snd]. split; [exact H1|exact H2].
  - auto.
  - auto.
Qed.
