(* C11 — lemmas: the LevelDB provider.  Entries follow the contract for every history; the TagMap index is only an
   over-approximation (never cleaned on overwrite), so query results are outside the proved part. *)
From Coq Require Import List NArith ZArith Bool Lia.
Import ListNotations.
From VF Require Import C11.Model C11.Proofs.
Local Open Scope N_scope.

(* guard: batches carry no ':' tags and an empty key at most in first position (what a store does with the operations
   in front of an invalid one is not prescribed; LevelDB applies them, mem rejects the batch); no Query *)
Definition ldb_ok_op (o : op) : bool :=
  match o with
  | Batch b => forallb wf_bop b && negb (has_empty_key (map bop_key (tl b)))
  | Query q => is_nil q
  | _ => true
  end.

Lemma ldb_batch_ok b : forall s, forallb wf_bop b = true -> has_empty_key (map bop_key b) = false ->
  fst (fst (ldb_batch s b)) = apply_batch (fst s) b /\ snd (ldb_batch s b) = ODone.
Proof.
  induction b as [|[[k v] t] r IH]; intros s Hw Hk; [cbn; auto|].
  cbn in Hw. apply andb_prop in Hw as [Hb Hr].
  unfold has_empty_key in Hk. cbn in Hk. apply orb_false_elim in Hk as [Hk1 Hk2].
  assert (Ek : (k =? 0) = false). { rewrite N.eqb_sym. exact Hk1. }
  cbn [ldb_batch]. unfold apply_batch. cbn [fold_left apply_bop]. destruct (v =? 0) eqn:Ev.
  - unfold ldb_delete. rewrite Ek. apply (IH (remove (fst s) k, tm_del (snd s) k) Hr Hk2).
  - unfold ldb_put. assert (Evp : valid_put k v t = true).
    { unfold valid_put. rewrite Ek, Ev. unfold wf_bop in Hb. cbn in Hb. cbn. exact Hb. }
    rewrite Evp. apply (IH (put (fst s) k (v, t), _) Hr Hk2).
Qed.

Lemma ldb_batch_head_empty v t r s : snd (ldb_batch s ((0, v, t) :: r)) = OErr /\ fst (ldb_batch s ((0, v, t) :: r)) = s.
Proof. cbn [ldb_batch]. destruct (v =? 0).
  - unfold ldb_delete. cbn. auto.
  - unfold ldb_put, valid_put. cbn. auto. Qed.

Lemma ldb_sim : sim ldb_ok_op true leveldb (fun s a => fst s = a).
Proof.
  intros s a o Ho <-. destruct o as [k v t|k|k|ks|q|k|b| |]; cbn [step leveldb ldb_step spec_step].
  - unfold ldb_put. destruct (valid_put k v t); cbn; auto.
  - destruct (k =? 0); cbn; auto.
  - destruct (k =? 0); cbn; auto.
  - destruct (is_nil ks || has_empty_key ks); cbn; auto.
  - cbn in Ho. destruct q; [cbn; auto|discriminate].
  - unfold ldb_delete. destruct (k =? 0); cbn; auto.
  - cbn in Ho. apply andb_prop in Ho as [Hw Hk]. destruct b as [|[[k v] t] r]; [cbn; auto|].
    cbn [is_nil orb tl] in *. destruct (N.eqb_spec k 0) as [->|Hk0].
    + destruct (ldb_batch_head_empty v t r s) as [H1 H2]. cbn [fst snd]. split; [|exact H1].
      etransitivity; [exact (f_equal fst H2)|reflexivity].
    + assert (Hk' : has_empty_key (map bop_key ((k, v, t) :: r)) = false).
      { apply negb_true_iff in Hk. unfold has_empty_key in *. cbn [map existsb]. apply orb_false_intro; [|exact Hk].
        apply N.eqb_neq. cbn. intros E. apply Hk0. symmetry. exact E. }
      destruct (ldb_batch_ok ((k, v, t) :: r) s Hw Hk') as [H1 H2].
      match goal with |- context [if ?c then _ else _] => replace c with false by (symmetry; exact Hk') end.
      cbn [fst snd]. split; [exact H1|exact H2].
  - auto.
  - auto.
Qed.

(* ---------- queries: the TagMap index over-approximates; name:value queries are exact, name-only queries are exact
   in the states where the index is exact for that name (no key re-Put without the name since) ---------- *)
Definition has_name (n : N) (e : entry) : bool := existsb (fun tg : tag => fst tg =? n) (snd e).

(* every tag name of every stored entry is indexed *)
Definition ldb_inv (s : ldb) : Prop :=
  forall k e, In (k, e) (fst s) -> forall n, has_name n e = true -> in_keys (tm_get (snd s) n) k = true.

(* the index is exact for name n: every indexed stored key still carries the name *)
Definition index_exact (s : ldb) (n : N) : bool :=
  forallb (fun ke => implb (in_keys (tm_get (snd s) n) (fst ke)) (has_name n (snd ke))) (fst s).

Definition ldb_guard (s : ldb) (o : op) : bool :=
  match o with
  | Batch b => forallb wf_bop b && negb (has_empty_key (map bop_key (tl b)))
  | Query [] => true
  | Query [c] => if snd c =? 0 then index_exact s (fst c) else true
  | Query _ => false
  | _ => true
  end.
Fixpoint ldb_run_ok (s : ldb) (ops : list op) : bool :=
  match ops with [] => true | o :: r => ldb_guard s o && ldb_run_ok (fst (ldb_step s o)) r end.

Lemma in_keys_tm_add m n k n' k' :
  in_keys (tm_get (tm_add m n k) n') k' = in_keys (tm_get m n') k' || ((n' =? n) && (k' =? k)).
Proof.
  induction m as [|[n0 ks] r IH]; cbn [tm_add tm_get].
  - destruct (N.eqb_spec n' n) as [->|Hn]; cbn; [|reflexivity]. unfold in_keys. cbn. rewrite orb_false_r. reflexivity.
  - destruct (N.eqb_spec n n0) as [->|Hn0]; cbn [tm_get].
    + destruct (N.eqb_spec n' n0) as [->|Hn']; cbn [andb]; [|rewrite orb_false_r; reflexivity].
      destruct (existsb (N.eqb k) ks) eqn:Ex.
      * unfold in_keys. destruct (k' =? k) eqn:Ek; [|rewrite orb_false_r; reflexivity].
        apply N.eqb_eq in Ek. subst k'. rewrite orb_true_r. exact Ex.
      * unfold in_keys. cbn. apply orb_comm.
    + destruct (N.eqb_spec n' n0) as [->|Hn'].
      * destruct (N.eqb_spec n0 n) as [E|_]; [symmetry in E; contradiction|]. cbn. rewrite orb_false_r. reflexivity.
      * exact IH.
Qed.

Lemma in_keys_fold_add (t : list tag) : forall m k n' k',
  in_keys (tm_get (fold_left (fun m tg => tm_add m (fst tg) k) t m) n') k' =
  in_keys (tm_get m n') k' || ((k' =? k) && existsb (fun tg : tag => fst tg =? n') t).
Proof.
  induction t as [|tg r IH]; intros m k n' k'; cbn [fold_left existsb].
  - rewrite andb_false_r, orb_false_r. reflexivity.
  - rewrite IH, in_keys_tm_add. rewrite (N.eqb_sym n' (fst tg)).
    destruct (in_keys (tm_get m n') k'), (fst tg =? n'), (k' =? k), (existsb (fun tg0 : tag => fst tg0 =? n') r); reflexivity.
Qed.

Lemma in_keys_tm_del m k n k' : in_keys (tm_get (tm_del m k) n) k' = in_keys (tm_get m n) k' && negb (k' =? k).
Proof.
  unfold tm_del. induction m as [|[n0 ks] r IH]; cbn [map tm_get fst snd]; [reflexivity|].
  destruct (n =? n0); [|exact IH]. unfold in_keys. clear IH. induction ks as [|x xs IHx]; cbn; [reflexivity|].
  destruct (x =? k) eqn:Exk; cbn; rewrite IHx.
  - apply N.eqb_eq in Exk. subst x. destruct (k' =? k); cbn; [rewrite !andb_false_r; reflexivity|reflexivity].
  - destruct (k' =? x) eqn:E1; cbn; [|reflexivity]. apply N.eqb_eq in E1. subst k'. rewrite Exk. reflexivity.
Qed.

Lemma in_remove s k k' e : In (k', e) (remove s k) -> k' <> k /\ In (k', e) s.
Proof. induction s as [|[k0 e0] r IH]; cbn; [tauto|]. destruct (N.eqb_spec k k0) as [->|H0].
  - intros H. destruct (IH H). auto.
  - cbn. intros [H|H]; [inversion H; subst; split; [congruence|auto]|destruct (IH H); auto]. Qed.

Lemma ldb_inv_put s k v t : ldb_inv s -> ldb_inv (fst (ldb_put s k v t)).
Proof. intros H. unfold ldb_put. destruct (valid_put k v t); [|exact H]. cbn [fst snd].
  intros k' e Hin n Hn. cbn [fst snd] in *. rewrite in_keys_fold_add. unfold put in Hin. destruct Hin as [E|Hin].
  - inversion E; subst. rewrite N.eqb_refl. cbn [andb]. unfold has_name in Hn. cbn in Hn. rewrite Hn. apply orb_true_r.
  - destruct (in_remove _ _ _ _ Hin) as [_ Hin']. rewrite (H k' e Hin' n Hn). reflexivity. Qed.
Lemma ldb_inv_delete s k : ldb_inv s -> ldb_inv (fst (ldb_delete s k)).
Proof. intros H. unfold ldb_delete. destruct (k =? 0); [exact H|]. cbn [fst snd].
  intros k' e Hin n Hn. cbn [fst snd] in *. destruct (in_remove _ _ _ _ Hin) as [Hne Hin']. rewrite in_keys_tm_del, (H k' e Hin' n Hn).
  destruct (N.eqb_spec k' k); [contradiction|reflexivity]. Qed.
Lemma ldb_inv_batch b : forall s, ldb_inv s -> ldb_inv (fst (ldb_batch s b)).
Proof. induction b as [|[[k v] t] r IH]; intros s H; [exact H|]. cbn [ldb_batch]. destruct (v =? 0).
  - pose proof (ldb_inv_delete s k H) as H1. destruct (ldb_delete s k) as [s1 x]. cbn [fst] in H1. destruct x; try exact H1. apply IH; exact H1.
  - pose proof (ldb_inv_put s k v t H) as H1. destruct (ldb_put s k v t) as [s1 x]. cbn [fst] in H1. destruct x; try exact H1. apply IH; exact H1. Qed.
Lemma ldb_inv_step s o : ldb_inv s -> ldb_inv (fst (ldb_step s o)).
Proof. intros H. destruct o as [k v t|k|k|ks|q|k|b| |]; cbn [ldb_step]; try exact H.
  - apply ldb_inv_put; exact H.
  - destruct (k =? 0); exact H.
  - destruct (k =? 0); exact H.
  - destruct (is_nil ks || has_empty_key ks); exact H.
  - apply ldb_inv_delete; exact H.
  - destruct (is_nil b); [exact H|apply ldb_inv_batch; exact H]. Qed.
Lemma ldb_inv_init : ldb_inv (init leveldb).
Proof. intros k e []. Qed.

Lemma matches_has_name c e : matches c e = true -> has_name (fst c) e = true.
Proof. unfold matches, has_name. induction (snd e) as [|tg r IH]; cbn; [auto|]. unfold tag_matches at 1.
  destruct (fst tg =? fst c); cbn; [auto|exact IH]. Qed.
Lemma matches_name_only n e : matches (n, 0) e = has_name n e.
Proof. unfold matches, has_name, tag_matches. cbn. induction (snd e) as [|tg r IH]; cbn; [reflexivity|]. rewrite IH, andb_true_r. reflexivity. Qed.

Lemma ldb_query_value s c : ldb_inv s -> (snd c =? 0) = false -> ldb_query s [c] = OQuery (qeval [c] (fst s)).
Proof. intros H Hc. unfold ldb_query. rewrite Hc. f_equal. unfold qeval. apply filter_ext_in. intros [k e] Hin. cbn [fst snd forallb].
  rewrite andb_true_r. destruct (matches c e) eqn:Em; [|apply andb_false_r].
  rewrite (H k e Hin (fst c) (matches_has_name c e Em)). reflexivity. Qed.
Lemma ldb_query_name s n : ldb_inv s -> index_exact s n = true -> ldb_query s [(n, 0)] = OQuery (qeval [(n, 0)] (fst s)).
Proof. intros H Hx. unfold ldb_query. cbn [snd fst N.eqb]. f_equal. unfold qeval. apply filter_ext_in. intros [k e] Hin. cbn [fst snd forallb].
  rewrite andb_true_r, matches_name_only. unfold index_exact in Hx. rewrite forallb_forall in Hx. specialize (Hx (k, e) Hin). cbn [fst snd] in Hx.
  destruct (has_name n e) eqn:En; [apply (H k e Hin n En)|].
  destruct (in_keys (tm_get (snd s) n) k); [discriminate|reflexivity]. Qed.
(* the guard excludes exactly the stale class: where the index is not exact the answer differs from the contract's *)
Lemma ldb_query_name_stale s n : index_exact s n = false -> ldb_query s [(n, 0)] <> OQuery (qeval [(n, 0)] (fst s)).
Proof. intros Hx Heq. unfold ldb_query in Heq. cbn [snd fst N.eqb] in Heq. inversion Heq as [Hf]. clear Heq.
  unfold index_exact in Hx.
  assert (Hex : exists ke, In ke (fst s) /\ in_keys (tm_get (snd s) n) (fst ke) = true /\ has_name n (snd ke) = false).
  { clear Hf. induction (fst s) as [|x r IH]; cbn in Hx; [discriminate|]. apply andb_false_iff in Hx as [Hx|Hx].
    - exists x. split; [left; reflexivity|]. destruct (in_keys (tm_get (snd s) n) (fst x)), (has_name n (snd x)); try discriminate. auto.
    - destruct (IH Hx) as [ke [H1 H2]]. exists ke. split; [right; exact H1|exact H2]. }
  destruct Hex as [ke [Hin [Hi Hn]]].
  assert (H1 : In ke (filter (fun ke0 => in_keys (tm_get (snd s) n) (fst ke0)) (fst s))) by (apply filter_In; auto).
  rewrite Hf in H1. unfold qeval in H1. apply filter_In in H1 as [_ H1]. cbn [forallb] in H1.
  rewrite matches_name_only, Hn in H1. discriminate. Qed.

Lemma ldb_run_refines ops : forall s, ldb_inv s -> ldb_run_ok s ops = true ->
  run leveldb s ops = run (spec_prov true) (fst s) ops.
Proof.
  induction ops as [|o r IH]; intros s Hinv Hok; [reflexivity|]. cbn [ldb_run_ok] in Hok. apply andb_prop in Hok as [Hg Hr].
  cbn [run step leveldb spec_prov].
  assert (Hstep : fst (fst (ldb_step s o)) = fst (spec_step true (fst s) o) /\ snd (ldb_step s o) = snd (spec_step true (fst s) o)).
  { destruct o as [k v t|k|k|ks|q|k|b| |].
    - apply (ldb_sim s (fst s) (Put k v t) eq_refl eq_refl).
    - apply (ldb_sim s (fst s) (Get k) eq_refl eq_refl).
    - apply (ldb_sim s (fst s) (GetTags k) eq_refl eq_refl).
    - apply (ldb_sim s (fst s) (GetBulk ks) eq_refl eq_refl).
    - destruct q as [|c [|c2 q2]]; [cbn; auto| |discriminate]. cbn [ldb_step spec_step is_nil fst snd]. split; [reflexivity|].
      cbn [ldb_guard] in Hg. destruct (snd c =? 0) eqn:Ec.
      + destruct c as [n v0]. cbn [fst snd] in *. apply N.eqb_eq in Ec. subst v0. apply ldb_query_name; assumption.
      + apply ldb_query_value; assumption.
    - apply (ldb_sim s (fst s) (Delete k) eq_refl eq_refl).
    - apply (ldb_sim s (fst s) (Batch b) Hg eq_refl).
    - apply (ldb_sim s (fst s) Flush eq_refl eq_refl).
    - apply (ldb_sim s (fst s) Reopen eq_refl eq_refl). }
  destruct Hstep as [H1 H2]. pose proof (ldb_inv_step s o Hinv) as Hinv'.
  specialize (IH (fst (ldb_step s o)) Hinv' Hr).
  destruct (ldb_step s o) as [s1 x]. destruct (spec_step true (fst s) o) as [a1 x']. cbn [fst snd] in *. subst x'. f_equal.
  rewrite IH, H1. reflexivity.
Qed.
