(* C11 — property theorems, part 6: new wrapper objects over a populated LevelDB database, stacks with random-key layers. *)
From Coq Require Import List NArith ZArith Bool.
Import ListNotations.
From VF Require Import C11.Model C11.Proofs C11.ProofsL C11.ProofsF C11.ProofsR C11.ProofsO C11.ProofsE C11.Corr C11.ProofsS C11.ProofsG C11.ProofsT C11.ProofsV C11.ProofsW C11.ProofsX.
Local Open Scope N_scope.

(* any_stack_over_leveldb_value_queries_refines_partial after a re-wrap at any point: run [pre], call Flush on the top store,
   drop every wrapper object and build new ones over the LevelDB database (Corr.rewrap, the harness's "rewrap" step), run
   [ops]: the answers are the contract's answers from the contract state after [pre].  Same guard (PARTIAL: name-only
   queries left out). *)
Theorem any_stack_over_leveldb_value_queries_rewrap_refines_partial : forall s pre ops, lstack_ok s = true ->
  forallb (gv (lnames s)) pre = true -> forallb (gv (lnames s)) ops = true ->
  run (prov_of s) (rewrap s (run_state (prov_of s) (init (prov_of s)) pre)) ops =
  run (spec_prov true) (run_state (spec_prov true) [] pre) ops.
Proof. exact vstack_rewrap_run. Qed.
Print Assumptions any_stack_over_leveldb_value_queries_rewrap_refines_partial.

Example rand_over_leveldb_rewrap_nonvacuous :
  let s := SBatched 3 (SFmtR FB64 (SCached SLevel)) in
  let pre := [Put 1 1 [(1, 1)]; Put 2 2 [(1, 1); (2, 2)]; Put 1 3 []] in      (* two of them still queued at the re-wrap *)
  let ops := [Query [(1, 1)]; Get 1; Delete 2; GetBulk [1; 2]; Put 3 1 [(2, 2)]; Query [(2, 2)]] in
  lstack_ok s = true /\ forallb (gv (lnames s)) pre = true /\ forallb (gv (lnames s)) ops = true /\
  run (prov_of s) (rewrap s (run_state (prov_of s) (init (prov_of s)) pre)) ops =
  [OQuery [(2, (2, [(1, 1); (2, 2)]))]; OVal 3; ODone; OBulk [3; 0]; ODone; OQuery [(3, (1, [(2, 2)]))]].
Proof. vm_compute. repeat split. Qed.
