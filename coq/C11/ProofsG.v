(* C11 — stacks of ANY shape over the in-memory provider: caching, batching, deterministic and random-key formatting
   layers in any order and number.  The guard on the operations is computed from the stack: which tag names may be used
   at the top so that no layer below ever sees a user tag called "Key". *)
From Coq Require Import List NArith ZArith Bool Lia.
Import ListNotations.
From VF Require Import C11.Model C11.Proofs C11.ProofsB C11.ProofsF C11.ProofsR C11.Corr C11.ProofsS.
Local Open Scope N_scope.

Definition names_ok (pn : N -> bool) (t : list tag) : bool := forallb (fun x : tag => pn (fst x)) t.
Definition guard_n (pn : N -> bool) (o : op) : bool :=
  wf1_op o && match o with
              | Put _ _ t => names_ok pn t
              | Batch b => forallb (fun x : bop => names_ok pn (snd x)) b
              | Query [c] => pn (fst c)
              | _ => true
              end.
Definition gbn (pn : N -> bool) (x : bop) : bool := wf_bop x && names_ok pn (snd x).

Fixpoint names_of (s : stack) : N -> bool :=
  match s with
  | SMem => fun _ => true
  | SCached s' | SBatched _ s' => names_of s'
  | SFmt f s' => fun n => names_of s' (fn (fmt_of f) n)
  | SFmtR f s' => fun n => negb (n =? KEYN) && names_of s' (fn (fmt_of f) n)
  | _ => fun _ => false
  end.
(* no LevelDB, no embedding formatter, and the formatted name of "Key" is acceptable below every random-key layer *)
Fixpoint stack_ok (s : stack) : bool :=
  match s with
  | SMem => true
  | SCached s' | SBatched _ s' | SFmt _ s' => stack_ok s'
  | SFmtR f s' => stack_ok s' && names_of s' (fn (fmt_of f) KEYN)
  | _ => false
  end.
Fixpoint grel (s : stack) : St (prov_of s) -> store -> Prop :=
  match s return St (prov_of s) -> store -> Prop with
  | SMem => eq
  | SCached s' => cached_rel (grel s')
  | SBatched l s' => batched_rel (gbn (names_of s')) l (grel s')
  | SFmt f s' => fmt_rel (fmt_of f) (prov_of s') (grel s')
  | SFmtR f s' => rand_rel (fmt_of f) (prov_of s') (grel s')
  | _ => fun _ _ => False
  end.

Lemma guard_n_wf1 pn o : guard_n pn o = true -> wf1_op o = true.
Proof. unfold guard_n. intros H. apply andb_prop in H as [H _]. exact H. Qed.
Lemma guard_n_wf pn o : guard_n pn o = true -> wf_op o = true.
Proof. intros H. apply wf1_wf. exact (guard_n_wf1 pn o H). Qed.
Lemma forallb_gbn pn q : forallb (gbn pn) q = true <-> forallb wf_bop q = true /\ forallb (fun x : bop => names_ok pn (snd x)) q = true.
Proof. induction q as [|x r IH]; cbn; [tauto|]. unfold gbn at 1. rewrite !andb_true_iff, IH. tauto. Qed.
Lemma guard_n_batch pn q : forallb (gbn pn) q = true -> guard_n pn (Batch q) = true.
Proof. intros H. apply forallb_gbn in H as [H1 H2]. unfold guard_n, wf1_op. cbn. rewrite H1, H2. reflexivity. Qed.
Lemma guard_n_batch_inv pn b : guard_n pn (Batch b) = true -> forallb (gbn pn) b = true.
Proof. unfold guard_n, wf1_op. cbn. rewrite andb_true_r. intros H. apply andb_prop in H. apply forallb_gbn. exact H. Qed.
Lemma guard_n_put pn k v t : guard_n pn (Put k v t) = true -> valid_put k v t = true -> gbn pn (k, v, t) = true.
Proof. intros H Ev. unfold gbn. rewrite (put_wf_bop k v t eq_refl Ev). unfold guard_n in H. apply andb_prop in H as [_ H]. exact H. Qed.
Lemma names_ok_map pn (f : tag -> tag) g t : (forall x, fst (f x) = g (fst x)) -> names_ok pn (map f t) = names_ok (fun n => pn (g n)) t.
Proof. intros H. unfold names_ok. induction t as [|x r IH]; cbn; [reflexivity|]. rewrite H, IH. reflexivity. Qed.
Lemma names_ok_fmt F pn t : names_ok pn (map (fmt_tag F) t) = names_ok (fun n => pn (fn F n)) t.
Proof. apply names_ok_map. intros x. reflexivity. Qed.
Lemma names_ok_rfmt F pn k t : pn (fn F KEYN) = true -> names_ok pn (rfmt_tags F k t) = names_ok (fun n => pn (fn F n)) t.
Proof. intros HK. unfold rfmt_tags. rewrite names_ok_fmt. unfold names_ok. rewrite forallb_app. cbn. rewrite HK, !andb_true_r. reflexivity. Qed.
Lemma names_ok_weaken (p q : N -> bool) t : (forall n, p n = true -> q n = true) -> names_ok p t = true -> names_ok q t = true.
Proof. intros H. unfold names_ok. induction t as [|x r IH]; cbn; [auto|]. intros Hx. apply andb_prop in Hx as [H1 H2]. rewrite (H _ H1), (IH H2). reflexivity. Qed.
Lemma names_user t : names_ok (fun n => negb (n =? KEYN)) t = user_tags t.
Proof. unfold names_ok, user_tags, is_keyname. induction t as [|x r IH]; cbn; [reflexivity|]. rewrite IH. destruct (fst x =? KEYN), (existsb (fun x0 : tag => fst x0 =? KEYN) r); reflexivity. Qed.

Lemma names_batch_fmt F pn b : forallb (fun x : bop => names_ok (fun n => pn (fn F n)) (snd x)) b = true ->
  forallb (fun x : bop => names_ok pn (snd x)) (map (fbop F) b) = true.
Proof. induction b as [|[[k v] t] r IH]; [reflexivity|]. cbn [forallb map fbop snd]. intros H. apply andb_prop in H as [Hx Hr].
  rewrite (IH Hr), andb_true_r. exact (eq_trans (names_ok_fmt F pn t) Hx). Qed.

Section RandGuard.
  Variable F : formatter.
  Variable pn' : N -> bool.
  Definition pn_up (n : N) : bool := negb (n =? KEYN) && pn' (fn F n).
  Lemma pn_up_user t : names_ok pn_up t = true -> user_tags t = true.
  Proof. intros H. rewrite <- names_user. apply (names_ok_weaken pn_up); [|exact H]. unfold pn_up. intros n Hn. apply andb_prop in Hn as [Hn _]. exact Hn. Qed.
  Lemma pn_up_low t : names_ok pn_up t = true -> names_ok (fun n => pn' (fn F n)) t = true.
  Proof. apply names_ok_weaken. unfold pn_up. intros n Hn. apply andb_prop in Hn as [_ Hn]. exact Hn. Qed.
  Lemma guard_up_wfk o : guard_n pn_up o = true -> wfk_op o = true.
  Proof. unfold guard_n, wfk_op. intros H. apply andb_prop in H as [H1 H2]. rewrite H1. cbn [andb].
    destruct o as [k v t|k|k|ks|q|k|b| |]; try reflexivity.
    - apply pn_up_user; exact H2.
    - destruct q as [|c [|c2 q2]]; try reflexivity. unfold pn_up in H2. apply andb_prop in H2 as [H2 _]. exact H2.
    - induction b as [|x r IH]; [reflexivity|]. cbn in *. apply andb_prop in H2 as [Hx Hr]. rewrite (pn_up_user _ Hx). apply IH.
      + unfold wf1_op in *. cbn in *. rewrite andb_true_r in *. apply andb_prop in H1 as [_ H1]. exact H1.
      + exact Hr.
  Qed.
End RandGuard.

Lemma any_stack_sim s : stack_ok s = true -> sim (guard_n (names_of s)) false (prov_of s) (grel s).
Proof.
  induction s as [| |s' IH|l s' IH|f s' IH|f s' IH|s' IH]; intros H; cbn [stack_ok] in H; try discriminate.
  - apply mem_sim.
  - cbn [prov_of grel names_of]. apply cached_sim; [apply guard_n_wf|reflexivity|apply IH; exact H].
  - cbn [prov_of grel names_of]. apply batched_sim; [apply guard_n_batch|apply IH; exact H|apply guard_n_put|reflexivity|apply guard_n_batch_inv|reflexivity|reflexivity].
  - cbn [prov_of grel names_of].
    apply (formatted_det_sim_g (fmt_of f) (fmt_of_ok f) false (prov_of s') (grel s') (guard_n (fun n => names_of s' (fn (fmt_of f) n))) (guard_n (names_of s'))).
    + apply guard_n_wf1.
    + intros k v t Hg. unfold guard_n in *. apply andb_prop in Hg as [_ Hg]. cbn [wf1_op wf_op andb]. exact (eq_trans (names_ok_fmt (fmt_of f) (names_of s') t) Hg).
    + intros c Hg. unfold guard_n in *. apply andb_prop in Hg as [_ Hg]. cbn. exact Hg.
    + intros b Hg. apply guard_n_batch. apply guard_n_batch_inv in Hg. apply forallb_gbn in Hg as [H1 H2]. apply forallb_gbn. split.
      * apply (wf_batch_fmt (fmt_of f) (fmt_of_ok f)). exact H1.
      * apply names_batch_fmt. exact H2.
    + intros o. destruct o; auto.
    + apply IH. exact H.
  - apply andb_prop in H as [Hs HK]. cbn [prov_of grel names_of].
    apply (formatted_rand_sim_g (fmt_of f) (fmt_of_ok f) false (prov_of s') (grel s')
             (guard_n (pn_up (fmt_of f) (names_of s'))) (guard_n (names_of s'))
             (gbn (pn_up (fmt_of f) (names_of s'))) (gbn (names_of s'))).
    + apply guard_up_wfk.
    + intros k. unfold guard_n. cbn. exact HK.
    + intros f0 k v t Hg. unfold guard_n in *. apply andb_prop in Hg as [_ Hg]. cbn [wf1_op wf_op andb].
      rewrite (names_ok_rfmt (fmt_of f) (names_of s') k t HK). apply pn_up_low. exact Hg.
    + intros c Hg. unfold guard_n in *. apply andb_prop in Hg as [_ Hg]. cbn. unfold pn_up in Hg. apply andb_prop in Hg as [_ Hg]. exact Hg.
    + intros o. destruct o as [| | | | | |[|x r]| |]; auto.
    + apply guard_n_batch.
    + apply guard_n_batch_inv.
    + intros f0. reflexivity.
    + intros f0 k v t Hg. unfold gbn in *. apply andb_prop in Hg as [H1 H2]. cbn [snd] in *.
      rewrite (names_ok_rfmt (fmt_of f) (names_of s') k t HK), (pn_up_low _ _ _ H2), andb_true_r.
      unfold wf_bop in *. cbn [snd] in *. rewrite (rfmt_not_bad (fmt_of f) (fmt_of_ok f) k t); [reflexivity|]. destruct (existsb bad_tag t); [discriminate|reflexivity].
    + apply IH. exact Hs.
Qed.

Lemma any_stack_rel_init s : stack_ok s = true -> grel s (init (prov_of s)) [].
Proof.
  induction s as [| |s' IH|l s' IH|f s' IH|f s' IH|s' IH]; intros H; cbn [stack_ok] in H; try discriminate.
  - reflexivity.
  - cbn. split; [apply IH; exact H|]. split; [apply cache_ok_nil|apply wf_store_nil].
  - cbn. apply batched_rel_fresh. apply IH; exact H.
  - cbn. unfold fmt_rel. cbn. apply IH; exact H.
  - apply andb_prop in H as [Hs _]. cbn [prov_of grel]. apply rand_rel_init. apply IH; exact Hs.
Qed.

Lemma any_stack_rel_rewrap s : stack_ok s = true -> forall x a, grel s x a -> grel s (rewrap s x) a.
Proof.
  induction s as [| |s' IH|l s' IH|f s' IH|f s' IH|s' IH]; intros H x a Hr; cbn [stack_ok] in H; try discriminate.
  - exact Hr.
  - destruct x as [m c]. destruct Hr as [H1 [H2 H3]]. cbn [rewrap fst snd] in *.
    split; [apply IH; assumption|]. split; [apply cache_ok_nil|assumption].
  - cbn [rewrap]. pose proof (any_stack_sim s' H) as HS.
    destruct (bflush_rel (guard_n (names_of s')) (gbn (names_of s')) false l (prov_of s') (grel s') (guard_n_batch (names_of s')) HS x a Hr) as [_ [_ [_ H4]]].
    apply batched_rel_fresh. apply IH; assumption.
  - cbn [rewrap grel] in *. unfold fmt_rel in *. apply IH; assumption.
  - apply andb_prop in H as [Hs _]. cbn [rewrap grel] in *. destruct Hr as [jl [H1 [H2 H3]]]. exists jl. cbn [fst snd] in *.
    split; [apply IH; assumption|]. split; assumption.
Qed.
