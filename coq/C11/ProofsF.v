(* C11 — lemmas: formattedstore with deterministic key formatting over any provider that simulates the contract,
   for an abstract formatter that is injective, reversible and keeps the empty string. *)
From Coq Require Import List NArith ZArith Bool Lia.
Import ListNotations.
From VF Require Import C11.Model C11.Proofs.
Local Open Scope N_scope.

Record fmt_ok (F : formatter) : Prop := {
  ok_k : forall a b, (fk F a =? fk F b) = (a =? b);
  ok_k0 : fk F 0 = 0;
  ok_v0 : forall v, (fv F v =? 0) = (v =? 0);
  ok_n : forall a b, (fn F a =? fn F b) = (a =? b);
  ok_t : forall a b, (ft F a =? ft F b) = (a =? b);
  ok_t0 : ft F 0 = 0;
  ok_uk : forall k, uk F (fk F k) = k;
  ok_uv : forall v, uv F (fv F v) = v;
  ok_un : forall n, un F (fn F n) = n;
  ok_ut : forall t, ut F (ft F t) = t;
  ok_cn : forall x, fn F x = colon -> x = colon;
  ok_ct : forall x, ft F x = colon -> x = colon
}.

Lemma noop_ok : fmt_ok noop_fmt.
Proof. constructor; cbn; auto. Qed.

Lemma enc_eqb a b : (enc a =? enc b) = (a =? b).
Proof. unfold enc. destruct (N.eqb_spec a 0) as [->|Ha], (N.eqb_spec b 0) as [->|Hb].
  - reflexivity.
  - destruct (N.eqb_spec 0 (b + 100)), (N.eqb_spec 0 b); try reflexivity; lia.
  - destruct (N.eqb_spec (a + 100) 0), (N.eqb_spec a 0); try reflexivity; lia.
  - destruct (N.eqb_spec (a + 100) (b + 100)), (N.eqb_spec a b); try reflexivity; lia. Qed.
Lemma dec_enc x : dec (enc x) = x.
Proof. unfold enc, dec. destruct (N.eqb_spec x 0); [subst; reflexivity|]. destruct (N.ltb_spec (x + 100) 100); lia. Qed.
Lemma enc_colon x : enc x = colon -> x = colon.
Proof. unfold enc, colon. destruct (N.eqb_spec x 0); intros; lia. Qed.
Lemma b64_ok : fmt_ok b64_fmt.
Proof. constructor; cbn; intros; try apply enc_eqb; try apply dec_enc; try (apply enc_colon; assumption); try reflexivity.
  change 0 with (enc 0) at 1. apply enc_eqb. Qed.

Section F.
  Variable F : formatter.
  Hypothesis OK : fmt_ok F.

  Definition fe (e : entry) : entry := (fv F (fst e), map (fmt_tag F) (snd e)).
  Definition fke (ke : key * entry) : key * entry := (fk F (fst ke), fe (snd ke)).
  Definition fmap (a : store) : store := map fke a.

  Lemma fk_zero k : (fk F k =? 0) = (k =? 0).
  Proof. rewrite <- (ok_k0 F OK) at 1. apply (ok_k F OK). Qed.
  Lemma ft_zero v : (ft F v =? 0) = (v =? 0).
  Proof. rewrite <- (ok_t0 F OK) at 1. apply (ok_t F OK). Qed.

  Lemma lookup_fmap a k : lookup (fmap a) (fk F k) = option_map fe (lookup a k).
  Proof. unfold fmap. induction a as [|[k' e] r IH]; cbn; [reflexivity|]. rewrite (ok_k F OK). destruct (k =? k'); [reflexivity|exact IH]. Qed.
  Lemma remove_fmap a k : remove (fmap a) (fk F k) = fmap (remove a k).
  Proof. unfold fmap. induction a as [|[k' e] r IH]; cbn; [reflexivity|]. rewrite (ok_k F OK). destruct (k =? k'); [exact IH|]. cbn. rewrite IH. reflexivity. Qed.
  Lemma put_fmap a k e : put (fmap a) (fk F k) (fe e) = fmap (put a k e).
  Proof. unfold put. rewrite remove_fmap. reflexivity. Qed.
  Lemma apply_bop_fmap a b : apply_bop (fmap a) (fbop F b) = fmap (apply_bop a b).
  Proof. destruct b as [[k v] t]. unfold apply_bop, fbop. destruct (v =? 0) eqn:Ev.
    - cbn. apply remove_fmap.
    - rewrite (ok_v0 F OK), Ev. apply (put_fmap a k (v, t)). Qed.
  Lemma apply_batch_fmap b : forall a, apply_batch (fmap a) (map (fbop F) b) = fmap (apply_batch a b).
  Proof. unfold apply_batch. induction b as [|x r IH]; intros a; cbn; [reflexivity|]. rewrite apply_bop_fmap. apply IH. Qed.
  Lemma empty_key_fk ks : has_empty_key (map (fk F) ks) = has_empty_key ks.
  Proof. unfold has_empty_key. induction ks as [|k r IH]; cbn [map existsb]; [reflexivity|]. rewrite IH.
    rewrite (N.eqb_sym 0 (fk F k)), fk_zero, (N.eqb_sym k 0). reflexivity. Qed.
  Lemma empty_key_fbop b : has_empty_key (map bop_key (map (fbop F) b)) = has_empty_key (map bop_key b).
  Proof. rewrite <- (empty_key_fk (map bop_key b)). f_equal. rewrite !map_map. apply map_ext. intros [[k v] t]. reflexivity. Qed.

  Lemma bad_tag_fmt t : bad_tag (fmt_tag F t) = true -> bad_tag t = true.
  Proof. unfold bad_tag, fmt_tag. cbn. intros H. apply orb_true_iff in H as [H|H]; apply N.eqb_eq in H; apply orb_true_iff.
    - left. apply N.eqb_eq. apply (ok_cn F OK). exact H.
    - right. apply N.eqb_eq. apply (ok_ct F OK). exact H. Qed.
  Lemma bad_tags_fmt t : existsb bad_tag t = false -> existsb bad_tag (map (fmt_tag F) t) = false.
  Proof. induction t as [|x r IH]; cbn; [reflexivity|]. intros H. apply orb_false_elim in H as [H1 H2].
    rewrite (IH H2). destruct (bad_tag (fmt_tag F x)) eqn:E; [|reflexivity]. rewrite (bad_tag_fmt x E) in H1. discriminate. Qed.
  Lemma valid_put_fmt k v t : valid_put k v t = true -> valid_put (fk F k) (fv F v) (map (fmt_tag F) t) = true.
  Proof. unfold valid_put. intros H. apply andb_prop in H as [H Ht]. apply andb_prop in H as [Hk Hv].
    rewrite fk_zero, (ok_v0 F OK), Hk, Hv. cbn. rewrite bad_tags_fmt; [reflexivity|]. destruct (existsb bad_tag t); [discriminate|reflexivity]. Qed.
  Lemma wf_bop_fmt b : wf_bop b = true -> wf_bop (fbop F b) = true.
  Proof. destruct b as [[k v] t]. unfold wf_bop, fbop. cbn. intros H. rewrite bad_tags_fmt; [reflexivity|]. destruct (existsb bad_tag t); [discriminate|reflexivity]. Qed.
  Lemma wf_batch_fmt b : forallb wf_bop b = true -> forallb wf_bop (map (fbop F) b) = true.
  Proof. induction b as [|x r IH]; cbn; [reflexivity|]. intros H. apply andb_prop in H as [H1 H2]. rewrite wf_bop_fmt, IH; auto. Qed.

  Lemma tag_matches_fmt c t : tag_matches (fcrit F c) (fmt_tag F t) = tag_matches c t.
  Proof. unfold tag_matches, fcrit, fmt_tag. cbn. rewrite (ok_n F OK), ft_zero, (ok_t F OK). reflexivity. Qed.
  Lemma matches_fmt c e : matches (fcrit F c) (fe e) = matches c e.
  Proof. unfold matches, fe. cbn. induction (snd e) as [|x r IH]; cbn; [reflexivity|]. rewrite tag_matches_fmt, IH. reflexivity. Qed.
  Lemma filter_map_comm {A B} (f : A -> B) (p : B -> bool) l : filter p (map f l) = map f (filter (fun x => p (f x)) l).
  Proof. induction l as [|x r IH]; cbn; [reflexivity|]. destruct (p (f x)); cbn; rewrite IH; reflexivity. Qed.
  Lemma qeval_fmt c a : qeval [fcrit F c] (fmap a) = fmap (qeval [c] a).
  Proof. unfold qeval, fmap. rewrite filter_map_comm. f_equal. apply filter_ext. intros ke. cbn [forallb snd fke].
    rewrite matches_fmt. reflexivity. Qed.

  Lemma unfmt_tags t : map (unfmt_tag F) (map (fmt_tag F) t) = t.
  Proof. induction t as [|[n v] r IH]; cbn [map]; [reflexivity|]. rewrite IH. unfold unfmt_tag, fmt_tag. cbn. rewrite (ok_un F OK), (ok_ut F OK). reflexivity. Qed.
  Lemma unfmt_fmap l : map (unfmt_entry F) (fmap l) = l.
  Proof. unfold fmap. induction l as [|[k [v t]] r IH]; cbn [map]; [reflexivity|]. rewrite IH. unfold unfmt_entry, fke, fe. cbn [fst snd].
    rewrite (ok_uk F OK), (ok_uv F OK), unfmt_tags. reflexivity. Qed.
  Lemma bulk_fmt a ks :
    map (fun v => if v =? 0 then 0 else uv F v) (map (value_of (fmap a)) (map (fk F) ks)) = map (value_of a) ks.
  Proof. rewrite !map_map. apply map_ext. intros k. unfold value_of. rewrite lookup_fmap.
    destruct (lookup a k) as [[v t]|]; cbn; [|reflexivity]. rewrite (ok_v0 F OK). destruct (N.eqb_spec v 0); [auto|apply (ok_uv F OK)]. Qed.

  Variable pers : bool.
  Variable P : prov.
  Variable R : St P -> store -> Prop.
  (* [G]: guard on the operations of the formatted store; [G']: guard of the store below; every operation handed down
     satisfies G' *)
  Variables G G' : op -> bool.
  Hypothesis HGw : forall o, G o = true -> wf1_op o = true.
  Hypothesis HGput : forall k v t, G (Put k v t) = true -> G' (Put (fk F k) (fv F v) (map (fmt_tag F) t)) = true.
  Hypothesis HGq : forall c, G (Query [c]) = true -> G' (Query [fcrit F c]) = true.
  Hypothesis HGb : forall b, G (Batch b) = true -> G' (Batch (map (fbop F) b)) = true.
  Hypothesis HGs : forall o, match o with Get _ | GetTags _ | GetBulk _ | Delete _ | Flush | Reopen => G' o = true | _ => True end.
  Hypothesis HP : sim G' pers P R.

  Definition fmt_rel (m : St (formatted_det F P)) (a : store) : Prop := R m (fmap a).

  Lemma formatted_det_sim_g : sim G pers (formatted_det F P) fmt_rel.
  Proof.
    intros m a o Ho HR. unfold fmt_rel in *.
    destruct o as [k v t|k|k|ks|q|k|b| |]; cbn [step formatted_det fdet_step spec_step].
    - (* Put *) destruct (valid_put k v t) eqn:Ev; [|cbn; auto].
      pose proof (HP m (fmap a) (Put (fk F k) (fv F v) (map (fmt_tag F) t)) (HGput k v t Ho) HR) as [H1 H2].
      destruct (step P m (Put (fk F k) (fv F v) (map (fmt_tag F) t))) as [m1 r]. cbn [fst snd spec_step] in H1, H2.
      rewrite (valid_put_fmt k v t Ev) in H1, H2. cbn [fst snd] in *. subst r. cbn [fst snd is_done]. split; [|reflexivity].
      rewrite <- (put_fmap a k (v, t)). exact H1.
    - (* Get *) destruct (k =? 0) eqn:Ek; [cbn; auto|].
      pose proof (HP m (fmap a) (Get (fk F k)) (HGs (Get (fk F k))) HR) as [H1 H2].
      destruct (step P m (Get (fk F k))) as [m1 r]. cbn [fst snd spec_step] in H1, H2.
      rewrite fk_zero, Ek in H1, H2. cbn [fst snd] in *. subst r. split; [exact H1|].
      rewrite lookup_fmap. destruct (lookup a k) as [[v t]|]; cbn; [rewrite (ok_uv F OK)|]; reflexivity.
    - (* GetTags *) destruct (k =? 0) eqn:Ek; [cbn; auto|].
      pose proof (HP m (fmap a) (GetTags (fk F k)) (HGs (GetTags (fk F k))) HR) as [H1 H2].
      destruct (step P m (GetTags (fk F k))) as [m1 r]. cbn [fst snd spec_step] in H1, H2.
      rewrite fk_zero, Ek in H1, H2. cbn [fst snd] in *. subst r. rewrite lookup_fmap.
      destruct (lookup a k) as [[v t]|] eqn:Hl; cbn [option_map fe fst snd].
      + pose proof (HP m1 (fmap a) (Get (fk F k)) (HGs (Get (fk F k))) H1) as [H3 H4].
        destruct (step P m1 (Get (fk F k))) as [m2 r2]. cbn [fst snd spec_step] in H3, H4.
        rewrite fk_zero, Ek in H3, H4. cbn [fst snd] in *. subst r2. rewrite lookup_fmap, Hl. cbn.
        rewrite unfmt_tags. auto.
      + cbn. auto.
    - (* GetBulk *) destruct (is_nil ks || has_empty_key ks) eqn:E; [cbn; auto|].
      pose proof (HP m (fmap a) (GetBulk (map (fk F) ks)) (HGs (GetBulk (map (fk F) ks))) HR) as [H1 H2].
      destruct (step P m (GetBulk (map (fk F) ks))) as [m1 r]. cbn [fst snd spec_step] in H1, H2.
      assert (E' : is_nil (map (fk F) ks) || has_empty_key (map (fk F) ks) = false).
      { rewrite empty_key_fk. destruct ks; [discriminate|exact E]. }
      match type of H2 with context [if ?c then _ else _] => replace c with false in H1, H2 by (symmetry; exact E') end.
      cbn [fst snd] in *. subst r. split; [exact H1|]. cbn [snd]. f_equal. apply bulk_fmt.
    - (* Query *) destruct q as [|c [|c2 q2]]; [cbn; auto| |apply HGw in Ho; cbn in Ho; try rewrite andb_false_r in Ho; discriminate].
      cbn [is_nil].
      pose proof (HP m (fmap a) (Query [fcrit F c]) (HGq c Ho) HR) as [H1 H2].
      destruct (step P m (Query [fcrit F c])) as [m1 r]. cbn [fst snd spec_step is_nil] in H1, H2. subst r.
      split; [exact H1|]. cbn [snd]. rewrite qeval_fmt, unfmt_fmap. reflexivity.
    - (* Delete *) destruct (k =? 0) eqn:Ek; [cbn; auto|].
      pose proof (HP m (fmap a) (Delete (fk F k)) (HGs (Delete (fk F k))) HR) as [H1 H2].
      destruct (step P m (Delete (fk F k))) as [m1 r]. cbn [fst snd spec_step] in H1, H2.
      rewrite fk_zero, Ek in H1, H2. cbn [fst snd] in *. subst r. cbn [fst snd is_done]. split; [|reflexivity]. rewrite <- remove_fmap. exact H1.
    - (* Batch *)
      pose proof (HGb b Ho) as Hw.
      pose proof (HP m (fmap a) (Batch (map (fbop F) b)) Hw HR) as [H1 H2].
      destruct (has_empty_key (map bop_key b)) eqn:E.
      + rewrite orb_true_r. cbn. auto.
      + destruct (step P m (Batch (map (fbop F) b))) as [m1 r]. cbn [fst snd spec_step] in H1, H2.
        rewrite empty_key_fbop, E in H1, H2. destruct b as [|x rb].
        * cbn in *. subst r. cbn. auto.
        * cbn [map is_nil orb fst snd] in *. subst r. cbn [fst snd is_done]. split; [|reflexivity].
          change (fbop F x :: map (fbop F) rb) with (map (fbop F) (x :: rb)) in H1. rewrite apply_batch_fmap in H1. exact H1.
    - (* Flush *) pose proof (HP m (fmap a) Flush (HGs Flush) HR) as [H1 H2].
      destruct (step P m Flush) as [m1 r]. cbn [fst snd spec_step] in *. subst r. cbn. auto.
    - (* Reopen *) pose proof (HP m (fmap a) Reopen (HGs Reopen) HR) as [H1 H2].
      destruct (step P m Reopen) as [m1 r]. cbn [fst snd spec_step] in *. subst r. cbn. split; [|reflexivity].
      destruct pers; exact H1.
  Qed.
End F.

Lemma formatted_det_sim (F : formatter) (OK : fmt_ok F) pers (P : prov) R :
  sim wf1_op pers P R -> sim wf1_op pers (formatted_det F P) (fmt_rel F P R).
Proof. intros HP. apply (formatted_det_sim_g F OK pers P R wf1_op wf1_op); auto.
  - intros b Hb. unfold wf1_op in *. cbn in *. rewrite andb_true_r in *. apply (wf_batch_fmt F OK). exact Hb.
  - intros o. destruct o; auto. Qed.
