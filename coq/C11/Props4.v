(* C11 — property obligations, part 4: the tables regenerated from /repo's source on every run (coq/gen/Gen_C11.v) agree
   with the model.  Each is a closed computation over the whole generated table. *)
From Coq Require Import List String NArith ZArith Bool.
Import ListNotations.
From VF Require Import C11.Model gen.Gen_C11 C11.Table.
Local Open Scope string_scope.

(* every type of component/storage and component/storageutil that implements spi/storage.Provider is in the table of
   covered providers (modelled, or excluded with the reason), and the table names no type that does not exist *)
Theorem all_providers_classified : same_set gen_provider_types (map fst provider_table) = true.
Proof. vm_compute. reflexivity. Qed.
Print Assumptions all_providers_classified.

(* every Store implementation belongs to one of those providers *)
Theorem all_stores_classified :
  same_set gen_store_types (map fst store_table) = true /\
  forallb (fun r => mem_pair (snd r) (map fst provider_table)) store_table = true.
Proof. split; vm_compute; reflexivity. Qed.
Print Assumptions all_stores_classified.

(* the model's operation alphabet IS the Store interface: one constructor per method (Reopen = Close + OpenStore), in the
   order of the interface declaration; likewise the provider-level alphabet and the Iterator methods the harness reads *)
Theorem store_interface_is_model_alphabet : strs_eqb gen_store_methods (map op_method op_samples) = true.
Proof. vm_compute. reflexivity. Qed.
Print Assumptions store_interface_is_model_alphabet.

Theorem provider_interface_is_model_alphabet : strs_eqb gen_provider_methods (map pop_method pop_samples) = true.
Proof. vm_compute. reflexivity. Qed.
Print Assumptions provider_interface_is_model_alphabet.

Theorem iterator_interface_is_observed : strs_eqb gen_iterator_methods iterator_methods_used = true.
Proof. vm_compute. reflexivity. Qed.
Print Assumptions iterator_interface_is_observed.

(* cachedstore: for every Store method, the calls the CODE makes on the main store (source order) are the calls the
   MODEL [cached true] makes on the provider below it (run over a logging provider, cache empty): write-through, read-through
   with the tag read after the value read *)
Theorem cached_calls_agree : calls_agree cached_model_calls gen_cached_main_calls = true /\
  strs_eqb (map fst gen_cached_main_calls) gen_store_methods = true.
Proof. split; vm_compute; reflexivity. Qed.
Print Assumptions cached_calls_agree.

(* batchedstore: flush (a Batch call on the store below) before every read; Flush and Close flush the queue AND the
   store below; Put / Delete / Batch only flush (when the limit is reached) *)
Theorem batched_calls_agree : calls_agree batched_model_calls gen_batched_calls = true /\
  strs_eqb (map fst gen_batched_calls) gen_store_methods = true.
Proof. split; vm_compute; reflexivity. Qed.
Print Assumptions batched_calls_agree.

Example tables_nonvacuous :
  List.length gen_provider_types = 9%nat /\ cached_model_calls "Get" = Some ["Get"; "GetTags"] /\
  batched_model_calls "GetTags" = Some ["Batch"; "GetTags"] /\ batched_model_calls "Close" = Some ["Batch"; "Flush"; "Close"].
Proof. vm_compute. repeat split. Qed.
