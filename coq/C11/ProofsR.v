(* C11 — lemmas: formattedstore with random (non-deterministic) key formatting over any provider that simulates the
   contract.  The provider holds, for every key of the contract state, ONE entry under some formatted key, carrying
   the formatted value, the formatted user tags and the formatted internal tag Key:base64(key). *)
From Coq Require Import List NArith ZArith Bool Lia.
Import ListNotations.
From VF Require Import C11.Model C11.Proofs C11.ProofsF.
Local Open Scope N_scope.

Definition jent := (key * key * entry)%type.      (* formatted key, key, entry *)
Definition jf (x : jent) : key := fst (fst x).
Definition jk (x : jent) : key := snd (fst x).
Definition je (x : jent) : entry := snd x.
Definition user_tags (t : list tag) : bool := negb (existsb is_keyname t).
Definition jfind (l : list jent) (k : key) : option jent := find (fun x => jk x =? k) l.
Definition jrem (l : list jent) (k : key) : list jent := filter (fun x => negb (jk x =? k)) l.
Definition aimg (x : jent) : key * entry := (jk x, je x).
Definition A (l : list jent) : store := map aimg l.

(* guard: single-criterion queries, well-formed batches, and no user tag / criterion named "Key" *)
Definition wfk_op (o : op) : bool :=
  wf1_op o && match o with
              | Put _ _ t => user_tags t
              | Batch b => forallb (fun x : bop => user_tags (snd x)) b
              | Query [c] => negb (fst c =? KEYN)
              | _ => true
              end.

Record J (l : list jent) (n : N) : Prop := {
  J_k : NoDup (map jk l);
  J_f : NoDup (map jf l);
  J_f0 : forall x, In x l -> jf x <> 0;
  J_fr : forall x j, In x l -> n <= j -> jf x <> fresh j;
  J_t : forall x, In x l -> user_tags (snd (je x)) = true
}.

(* ---------- generic list facts ---------- *)
Lemma filter_nil {X} (p : X -> bool) l : (forall y, In y l -> p y = false) -> filter p l = [].
Proof. induction l as [|a r IH]; intros H; cbn; [reflexivity|]. rewrite (H a (or_introl eq_refl)). apply IH. intros y Hy. apply H. right. exact Hy. Qed.
Lemma filter_all {X} (p : X -> bool) l : (forall y, In y l -> p y = true) -> filter p l = l.
Proof. induction l as [|a r IH]; intros H; cbn; [reflexivity|]. rewrite (H a (or_introl eq_refl)). f_equal. apply IH. intros y Hy. apply H. right. exact Hy. Qed.
Lemma nodup_map_inj {X Y} (g : X -> Y) l a b : NoDup (map g l) -> In a l -> In b l -> g a = g b -> a = b.
Proof. induction l as [|x r IH]; intros Hn Ha Hb E; [destruct Ha|]. cbn in Hn. inversion Hn as [|? ? Hnot Hr]; subst.
  destruct Ha as [->|Ha], Hb as [->|Hb]; [reflexivity| | |auto].
  - exfalso. apply Hnot. rewrite E. apply in_map. exact Hb.
  - exfalso. apply Hnot. rewrite <- E. apply in_map. exact Ha. Qed.
Lemma nodup_map_filter {X Y} (g : X -> Y) p l : NoDup (map g l) -> NoDup (map g (filter p l)).
Proof. induction l as [|x r IH]; intros Hn; cbn; [constructor|]. cbn in Hn. inversion Hn as [|? ? Hnot Hr]; subst.
  destruct (p x); [|auto]. cbn. constructor; [|auto]. intros Hin. apply Hnot. apply in_map_iff in Hin as [y [E Hy]].
  apply filter_In in Hy as [Hy _]. rewrite <- E. apply in_map. exact Hy. Qed.

Lemma kenc_eqb a b : (kenc a =? kenc b) = (a =? b).
Proof. unfold kenc. destruct (N.eqb_spec (a + 1000) (b + 1000)), (N.eqb_spec a b); try reflexivity; lia. Qed.
Lemma kenc_nz k : (kenc k =? 0) = false.
Proof. unfold kenc. apply N.eqb_neq. lia. Qed.
Lemma kdec_kenc k : kdec (kenc k) = k.
Proof. unfold kdec, kenc. lia. Qed.

(* ---------- the joint list ---------- *)
Lemma jfind_some l k x : jfind l k = Some x -> In x l /\ jk x = k.
Proof. intros H. apply find_some in H as [H1 H2]. apply N.eqb_eq in H2. auto. Qed.
Lemma jfind_none l k y : jfind l k = None -> In y l -> jk y <> k.
Proof. intros H Hy E. pose proof (find_none _ _ H y Hy) as Hn. cbn in Hn. rewrite E, N.eqb_refl in Hn. discriminate. Qed.
Lemma filter_find l k : NoDup (map jk l) ->
  filter (fun x => jk x =? k) l = match jfind l k with Some x => [x] | None => [] end.
Proof. unfold jfind. induction l as [|x r IH]; intros Hn; cbn; [reflexivity|]. cbn in Hn. inversion Hn as [|? ? Hnot Hr]; subst.
  destruct (N.eqb_spec (jk x) k) as [E|E]; [|apply IH; exact Hr].
  f_equal. apply filter_nil. intros y Hy. apply N.eqb_neq. intros Ey. apply Hnot. rewrite E, <- Ey. apply in_map. exact Hy. Qed.
Lemma lookup_A l k : lookup (A l) k = option_map je (jfind l k).
Proof. unfold A, jfind. induction l as [|x r IH]; cbn; [reflexivity|]. rewrite (N.eqb_sym k (jk x)). destruct (jk x =? k); [reflexivity|exact IH]. Qed.
Lemma remove_A l k : remove (A l) k = A (jrem l k).
Proof. unfold A, jrem. induction l as [|x r IH]; cbn; [reflexivity|]. rewrite (N.eqb_sym k (jk x)). destruct (jk x =? k); cbn; [exact IH|]. rewrite IH. reflexivity. Qed.
Lemma jrem_none l k : jfind l k = None -> jrem l k = l.
Proof. intros H. apply filter_all. intros y Hy. apply negb_true_iff. apply N.eqb_neq. exact (jfind_none l k y H Hy). Qed.
Lemma jfind_jrem_same l k : jfind (jrem l k) k = None.
Proof. unfold jfind, jrem. induction l as [|x r IH]; cbn; [reflexivity|]. destruct (jk x =? k) eqn:E; cbn; [exact IH|]. rewrite E. exact IH. Qed.
Lemma jfind_jrem_other l k k' : k' <> k -> jfind (jrem l k) k' = jfind l k'.
Proof. intros Hne. unfold jfind, jrem. induction l as [|x r IH]; cbn; [reflexivity|]. destruct (N.eqb_spec (jk x) k) as [E|E]; cbn.
  - destruct (N.eqb_spec (jk x) k'); [congruence|exact IH].
  - destruct (jk x =? k'); [reflexivity|exact IH]. Qed.
Lemma in_jrem l k y : In y (jrem l k) -> In y l /\ jk y <> k.
Proof. intros H. apply filter_In in H as [H1 H2]. split; [exact H1|]. apply negb_true_iff in H2. apply N.eqb_neq. exact H2. Qed.

Lemma J_nil n : J [] n.
Proof. constructor; cbn; [constructor|constructor|intros x []|intros x j []|intros x []]. Qed.
Lemma J_jrem l n k : J l n -> J (jrem l k) n.
Proof. intros [H1 H2 H3 H4 H5]. constructor.
  - apply nodup_map_filter; exact H1.
  - apply nodup_map_filter; exact H2.
  - intros x Hx. apply H3. apply (in_jrem l k x Hx).
  - intros x j Hx. apply H4. apply (in_jrem l k x Hx).
  - intros x Hx. apply H5. apply (in_jrem l k x Hx). Qed.
Lemma J_mono l n n' : n <= n' -> J l n -> J l n'.
Proof. intros Hle [H1 H2 H3 H4 H5]. constructor; auto. intros x j Hx Hj. apply H4; [exact Hx|lia]. Qed.
Lemma fresh_nz n : fresh n <> 0.
Proof. unfold fresh. lia. Qed.
Lemma fresh_inj a b : fresh a = fresh b -> a = b.
Proof. unfold fresh. lia. Qed.

(* overwrite of a stored key under its formatted key *)
Lemma J_put_found l n k x e : J l n -> jfind l k = Some x -> user_tags (snd e) = true -> J ((jf x, k, e) :: jrem l k) n.
Proof. intros HJ Hf Ht. destruct (jfind_some l k x Hf) as [Hin Hk]. pose proof (J_jrem l n k HJ) as [H1 H2 H3 H4 H5].
  destruct HJ as [G1 G2 G3 G4 G5]. constructor; cbn [map jk jf je fst snd].
  - constructor; [|exact H1]. intros Hi. apply in_map_iff in Hi as [y [E Hy]]. destruct (in_jrem l k y Hy) as [_ Hne]. contradiction.
  - constructor; [|exact H2]. intros Hi. apply in_map_iff in Hi as [y [E Hy]]. destruct (in_jrem l k y Hy) as [Hyl Hne].
    assert (y = x) by (apply (nodup_map_inj jf l y x G2 Hyl Hin E)). subst y. contradiction.
  - intros y [<-|Hy]; [cbn; apply G3; exact Hin|apply H3; exact Hy].
  - intros y j [<-|Hy]; [cbn; apply G4; exact Hin|apply H4; exact Hy].
  - intros y [<-|Hy]; [exact Ht|apply H5; exact Hy]. Qed.
(* a new key under a fresh formatted key *)
Lemma J_put_fresh l n k e : J l n -> jfind l k = None -> user_tags (snd e) = true -> J ((fresh n, k, e) :: l) (n + 1).
Proof. intros [G1 G2 G3 G4 G5] Hf Ht. constructor; cbn [map jk jf je fst snd].
  - constructor; [|exact G1]. intros Hi. apply in_map_iff in Hi as [y [E Hy]]. exact (jfind_none l k y Hf Hy E).
  - constructor; [|exact G2]. intros Hi. apply in_map_iff in Hi as [y [E Hy]]. apply (G4 y n Hy (N.le_refl n)). exact E.
  - intros y [<-|Hy]; [cbn; apply fresh_nz|apply G3; exact Hy].
  - intros y j [<-|Hy] Hj; [cbn; intros E; apply fresh_inj in E; lia|apply G4; [exact Hy|lia]].
  - intros y [<-|Hy]; [exact Ht|apply G5; exact Hy]. Qed.

Section R.
  Variable F : formatter.
  Hypothesis OK : fmt_ok F.

  Definition uimg (x : jent) : key * entry := (jf x, (fv F (fst (je x)), rfmt_tags F (jk x) (snd (je x)))).
  Definition U (l : list jent) : store := map uimg l.

  Lemma existsb_tm_fmt c l : existsb (tag_matches (fcrit F c)) (map (fmt_tag F) l) = existsb (tag_matches c) l.
  Proof. induction l as [|t r IH]; cbn; [reflexivity|]. rewrite (tag_matches_fmt F OK), IH. reflexivity. Qed.
  Lemma no_keyname_match c t : user_tags t = true -> fst c = KEYN -> existsb (tag_matches c) t = false.
  Proof. unfold user_tags. intros H Hc. apply negb_true_iff in H. induction t as [|tg r IH]; cbn in *; [reflexivity|].
    apply orb_false_elim in H as [H1 H2]. rewrite (IH H2), orb_false_r. unfold tag_matches, is_keyname in *. rewrite Hc, H1. reflexivity. Qed.
  Lemma matches_kcrit k k' v t : user_tags t = true -> matches (kcrit F k) (fv F v, rfmt_tags F k' t) = (k' =? k).
  Proof. intros Ht. unfold matches, rfmt_tags. cbn [snd]. change (kcrit F k) with (fcrit F (KEYN, kenc k)).
    rewrite existsb_tm_fmt, existsb_app, (no_keyname_match (KEYN, kenc k) t Ht eq_refl). cbn [existsb orb].
    unfold tag_matches, keytag. cbn [fst snd]. rewrite N.eqb_refl, kenc_nz, kenc_eqb, orb_false_r. reflexivity. Qed.
  Lemma matches_user c k v t : (fst c =? KEYN) = false -> matches (fcrit F c) (fv F v, rfmt_tags F k t) = matches c (v, t).
  Proof. intros Hc. unfold matches, rfmt_tags. cbn [snd]. rewrite existsb_tm_fmt, existsb_app. cbn [existsb].
    unfold tag_matches at 2. unfold keytag. cbn [fst snd]. rewrite (N.eqb_sym KEYN (fst c)), Hc. cbn. rewrite !orb_false_r. reflexivity. Qed.

  Lemma qeval_kcrit l n k : J l n -> qeval [kcrit F k] (U l) = U (filter (fun x => jk x =? k) l).
  Proof. intros HJ. unfold qeval, U. rewrite filter_map_comm. f_equal. apply filter_ext_in. intros x Hx. cbn [forallb snd uimg].
    rewrite (matches_kcrit k (jk x) (fst (je x)) (snd (je x)) (J_t l n HJ x Hx)). apply andb_true_r. Qed.
  Lemma qeval_user l c : (fst c =? KEYN) = false -> qeval [fcrit F c] (U l) = U (filter (fun x => matches c (je x)) l).
  Proof. intros Hc. unfold qeval, U. rewrite filter_map_comm. f_equal. apply filter_ext. intros x. cbn [forallb snd uimg].
    rewrite (matches_user c (jk x) (fst (je x)) (snd (je x)) Hc). destruct (je x); cbn. apply andb_true_r. Qed.
  Lemma qeval_A l c : qeval [c] (A l) = A (filter (fun x => matches c (je x)) l).
  Proof. unfold qeval, A. rewrite filter_map_comm. f_equal. apply filter_ext. intros x. cbn. apply andb_true_r. Qed.

  Lemma remove_U_gen l f : remove (U l) f = U (filter (fun y => negb (jf y =? f)) l).
  Proof. unfold U. induction l as [|x r IH]; cbn; [reflexivity|]. rewrite (N.eqb_sym f (jf x)). destruct (jf x =? f); cbn; [exact IH|]. rewrite IH. reflexivity. Qed.
  Lemma remove_U_found l n k x : J l n -> jfind l k = Some x -> remove (U l) (jf x) = U (jrem l k).
  Proof. intros HJ Hf. destruct (jfind_some l k x Hf) as [Hin Hk]. rewrite remove_U_gen. f_equal. unfold jrem. apply filter_ext_in.
    intros y Hy. f_equal. destruct (N.eqb_spec (jf y) (jf x)) as [E|E], (N.eqb_spec (jk y) k) as [E2|E2]; try reflexivity.
    - exfalso. apply E2. rewrite (nodup_map_inj jf l y x (J_f l n HJ) Hy Hin E). exact Hk.
    - exfalso. apply E. rewrite (nodup_map_inj jk l y x (J_k l n HJ) Hy Hin (eq_trans E2 (eq_sym Hk))). reflexivity. Qed.
  Lemma remove_U_fresh l n : J l n -> remove (U l) (fresh n) = U l.
  Proof. intros HJ. rewrite remove_U_gen. f_equal. apply filter_all. intros y Hy. apply negb_true_iff. apply N.eqb_neq.
    apply (J_fr l n HJ y n Hy (N.le_refl n)). Qed.

  (* what Deformat + filterOutKeyTag give back *)
  Lemma find_keyname_app t k : user_tags t = true -> find is_keyname (t ++ [keytag k]) = Some (keytag k).
  Proof. unfold user_tags. intros H. apply negb_true_iff in H. induction t as [|tg r IH]; cbn in *; [reflexivity|].
    apply orb_false_elim in H as [H1 H2]. rewrite H1. apply IH. exact H2. Qed.
  Lemma drop_keytag_app t k : user_tags t = true -> drop_keytag k (t ++ [keytag k]) = t.
  Proof. unfold user_tags, drop_keytag. intros H. apply negb_true_iff in H. rewrite filter_app. cbn. rewrite !N.eqb_refl. cbn. rewrite app_nil_r.
    apply filter_all. intros y Hy. apply negb_true_iff. apply andb_false_iff. left.
    induction t as [|tg r IH]; [destruct Hy|]. cbn in H. apply orb_false_elim in H as [H1 H2]. destruct Hy as [<-|Hy]; [exact H1|auto]. Qed.
  Lemma drop_keytag_user t k : user_tags t = true -> drop_keytag k t = t.
  Proof. unfold user_tags, drop_keytag. intros H. apply negb_true_iff in H. apply filter_all. intros y Hy. apply negb_true_iff. apply andb_false_iff. left.
    induction t as [|tg r IH]; [destruct Hy|]. cbn in H. apply orb_false_elim in H as [H1 H2]. destruct Hy as [<-|Hy]; [exact H1|auto]. Qed.
  Lemma key_of_tags_app t k : user_tags t = true -> key_of_tags (t ++ [keytag k]) = k.
  Proof. intros Ht. unfold key_of_tags. rewrite (find_keyname_app t k Ht). unfold keytag. cbn [snd]. apply kdec_kenc. Qed.
  Lemma runfmt_uimg x : user_tags (snd (je x)) = true -> runfmt_entry F (uimg x) = aimg x.
  Proof. intros Ht. unfold runfmt_entry, uimg, aimg, rfmt_tags. cbn [fst snd]. rewrite (unfmt_tags F OK).
    rewrite !(key_of_tags_app _ (jk x) Ht), (drop_keytag_app _ _ Ht), (ok_uv F OK). destruct x as [[f k] [v t]]. reflexivity. Qed.
  Lemma runfmt_U l : (forall x, In x l -> user_tags (snd (je x)) = true) -> map (runfmt_entry F) (U l) = A l.
  Proof. intros H. unfold U, A. rewrite map_map. apply map_ext_in. intros x Hx. apply runfmt_uimg. apply H. exact Hx. Qed.
End R.

Lemma keytag_not_bad k : bad_tag (keytag k) = false.
Proof. unfold bad_tag, keytag, colon, KEYN, kenc. cbn [fst snd]. apply orb_false_intro; apply N.eqb_neq; lia. Qed.

Section Sim.
  Variable F : formatter.
  Hypothesis OK : fmt_ok F.
  Variable pers : bool.
  Variable P : prov.
  Variable R : St P -> store -> Prop.
  (* [G]: guard on the operations of the formatted store; [G']: guard of the store below; [gbu]/[gb']: what the guards
     say about one operation of a batch above / below.  Every operation handed down satisfies G'. *)
  Variables G G' : op -> bool.
  Variables gbu gb' : bop -> bool.
  Hypothesis HGk : forall o, G o = true -> wfk_op o = true.
  Hypothesis HGkq : forall k, G' (Query [kcrit F k]) = true.
  Hypothesis HGput : forall f k v t, G (Put k v t) = true -> G' (Put f (fv F v) (rfmt_tags F k t)) = true.
  Hypothesis HGq : forall c, G (Query [c]) = true -> G' (Query [fcrit F c]) = true.
  Hypothesis HGs : forall o, match o with Delete _ | Flush | Reopen | Batch [] => G' o = true | _ => True end.
  Hypothesis HGb : forall eo, forallb gb' eo = true -> G' (Batch eo) = true.
  Hypothesis HGbu : forall b, G (Batch b) = true -> forallb gbu b = true.
  Hypothesis Hgdel : forall f, gb' (f, 0, []) = true.
  Hypothesis Hgput : forall f k v t, gbu (k, v, t) = true -> gb' (f, fv F v, rfmt_tags F k t) = true.
  Hypothesis HP : sim G' pers P R.

  Definition rand_rel (s : St (formatted_rand true F P)) (a : store) : Prop :=
    exists l, R (fst s) (U F l) /\ a = A l /\ J l (snd s).

  Lemma rfmt_not_bad k t : existsb bad_tag t = false -> existsb bad_tag (rfmt_tags F k t) = false.
  Proof. intros H. unfold rfmt_tags. apply (bad_tags_fmt F OK). rewrite existsb_app, H. cbn [existsb orb]. rewrite keytag_not_bad. reflexivity. Qed.
  Lemma valid_put_rfmt f k v t : f <> 0 -> valid_put k v t = true -> valid_put f (fv F v) (rfmt_tags F k t) = true.
  Proof. intros Hf H. unfold valid_put in *. apply andb_prop in H as [H Ht]. apply andb_prop in H as [_ Hv].
    rewrite (ok_v0 F OK), Hv. destruct (N.eqb_spec f 0); [contradiction|]. cbn. rewrite rfmt_not_bad; [reflexivity|].
    destruct (existsb bad_tag t); [discriminate|reflexivity]. Qed.
  Lemma valid_put_v k v t : valid_put k v t = true -> (v =? 0) = false /\ (k =? 0) = false /\ existsb bad_tag t = false.
  Proof. unfold valid_put. intros H. apply andb_prop in H as [H Ht]. apply andb_prop in H as [Hk Hv].
    destruct (v =? 0), (k =? 0), (existsb bad_tag t); try discriminate; auto. Qed.

  Lemma rfind_ok m l n k : R m (U F l) -> J l n ->
    R (fst (rfind F P m k)) (U F l) /\
    snd (rfind F P m k) = match jfind l k with None => FNone | Some y => FOne (jf y) (snd (uimg F y)) end.
  Proof. intros HR HJ. unfold rfind.
    pose proof (HP m (U F l) (Query [kcrit F k]) (HGkq k) HR) as [H1 H2].
    destruct (step P m (Query [kcrit F k])) as [m1 r]. cbn [fst snd spec_step is_nil] in *. subst r. split; [exact H1|].
    rewrite (qeval_kcrit F OK l n k HJ), (filter_find l k (J_k l n HJ)). destruct (jfind l k); reflexivity. Qed.

  Lemma rbulk_ok l n ks : forall m, R m (U F l) -> J l n ->
    R (fst (rbulk F P m ks)) (U F l) /\ snd (rbulk F P m ks) = Some (map (value_of (A l)) ks).
  Proof. induction ks as [|k r IH]; intros m HR HJ; [cbn; auto|]. cbn [rbulk].
    destruct (rfind_ok m l n k HR HJ) as [H1 H2]. destruct (rfind F P m k) as [m1 x]. cbn [fst snd] in *. subst x.
    destruct (IH m1 H1 HJ) as [H3 H4].
    assert (Hv : value_of (A l) k = match jfind l k with Some y => fst (je y) | None => 0 end).
    { unfold value_of. rewrite lookup_A. destruct (jfind l k) as [y|]; cbn; [destruct (je y)|]; reflexivity. }
    cbn [map]. rewrite Hv.
    destruct (jfind l k) as [y|]; destruct (rbulk F P m1 r) as [m2 z]; cbn [fst snd] in *; subst z; cbn [option_map].
    - split; [exact H3|]. cbn [uimg fst snd]. rewrite (ok_uv F OK). reflexivity.
    - split; [exact H3|reflexivity]. Qed.

  (* ---------- the batch loop ---------- *)
  Definition res_inv (res : list (key * key)) (lv l0 : list jent) : Prop :=
    forall k, match res_lookup res k with
              | Some f => if f =? 0 then jfind lv k = None else exists x, jfind lv k = Some x /\ jf x = f
              | None => jfind lv k = jfind l0 k
              end.

  Lemma res_inv_cons res lv lv2 l0 k f :
    res_inv res lv l0 ->
    (if f =? 0 then jfind lv2 k = None else exists x, jfind lv2 k = Some x /\ jf x = f) ->
    (forall k', k' <> k -> jfind lv2 k' = jfind lv k') ->
    res_inv ((k, f) :: res) lv2 l0.
  Proof. intros Hi Hk Ho k'. cbn [res_lookup]. destruct (N.eqb_spec k' k) as [->|Hne]; [exact Hk|].
    specialize (Hi k'). rewrite (Ho k' Hne). exact Hi. Qed.

  Lemma jfind_cons_same f k e l : jfind ((f, k, e) :: l) k = Some (f, k, e).
  Proof. unfold jfind. cbn. rewrite N.eqb_refl. reflexivity. Qed.
  Lemma jfind_cons_other f k e l k' : k' <> k -> jfind ((f, k, e) :: l) k' = jfind l k'.
  Proof. intros H. unfold jfind. cbn. destruct (N.eqb_spec k k'); [congruence|reflexivity]. Qed.

  (* determineFormattedKeyToUse: the formatted key of k in the state the batch has reached so far, or 0 *)
  Definition current_key (lv : list jent) (k : key) : key := match jfind lv k with Some x => jf x | None => 0 end.

  Lemma rbatch_ok l0 n0 b : forall m n res lv,
    R m (U F l0) -> J l0 n0 -> J lv n -> res_inv res lv l0 ->
    forallb wf_bop b = true -> forallb (fun x : bop => user_tags (snd x)) b = true -> has_empty_key (map bop_key b) = false ->
    forallb gbu b = true ->
    exists m' n' eo lv', rbatch F P m n res b = (m', n', Some eo) /\ R m' (U F l0) /\ J lv' n' /\
      A lv' = apply_batch (A lv) b /\ U F lv' = apply_batch (U F lv) eo /\
      (forallb wf_bop eo = true /\ forallb gb' eo = true) /\ has_empty_key (map bop_key eo) = false.
  Proof.
    induction b as [|[[k v] t] rest IH]; intros m n res lv HR HJ0 HJ Hres Hw Hu Hk Hg.
    - exists m, n, [], lv. cbn [rbatch]. split; [reflexivity|]. split; [exact HR|]. split; [exact HJ|]. repeat split.
    - cbn in Hw, Hu. apply andb_prop in Hw as [Hw1 Hw2]. apply andb_prop in Hu as [Hu1 Hu2]. cbn [forallb] in Hg. apply andb_prop in Hg as [Hg1 Hg2].
      unfold has_empty_key in Hk. cbn [map existsb] in Hk. apply orb_false_elim in Hk as [Hk1 Hk2].
      (* the formatted key to use *)
      assert (Hdet : exists m1, R m1 (U F l0) /\
                (match res_lookup res k with
                 | Some f => (m, Some f)
                 | None => let '(m1, x) := rfind F P m k in
                           (m1, match x with FNone => Some 0 | FOne f _ => Some f | FErr => None end)
                 end) = (m1, Some (current_key lv k))).
      { specialize (Hres k). unfold current_key. destruct (res_lookup res k) as [f|].
        - exists m. split; [exact HR|]. destruct (f =? 0) eqn:Ef.
          + rewrite Hres. apply N.eqb_eq in Ef. subst f. reflexivity.
          + destruct Hres as [x [Hx <-]]. rewrite Hx. reflexivity.
        - destruct (rfind_ok m l0 n0 k HR HJ0) as [H1 H2]. destruct (rfind F P m k) as [m1 x]. cbn [fst snd] in *. subst x.
          exists m1. split; [exact H1|]. rewrite Hres. destruct (jfind l0 k); reflexivity. }
      destruct Hdet as [m1 [HR1 Hdet]]. cbn [rbatch]. rewrite Hdet. clear Hdet.
      unfold current_key. destruct (v =? 0) eqn:Ev.
      + (* delete *)
        destruct (jfind lv k) as [x|] eqn:Hf.
        * assert (Hfx : (jf x =? 0) = false) by (apply N.eqb_neq; apply (J_f0 lv n HJ x); apply (jfind_some lv k x Hf)).
          rewrite Hfx.
          assert (Hres2 : res_inv ((k, 0) :: res) (jrem lv k) l0).
          { apply (res_inv_cons res lv); [exact Hres|cbn; apply jfind_jrem_same|intros k' Hne; apply jfind_jrem_other; exact Hne]. }
          destruct (IH m1 n ((k, 0) :: res) (jrem lv k) HR1 HJ0 (J_jrem lv n k HJ) Hres2 Hw2 Hu2 Hk2 Hg2)
            as [m' [n' [eo [lv' [E [H1 [H2 [H3 [H4 [[H5 H5g] H6]]]]]]]]]].
          rewrite E. exists m', n', ((jf x, 0, []) :: eo), lv'. cbn [option_map]. split; [reflexivity|]. split; [exact H1|]. split; [exact H2|].
          split; [|split; [|split]].
          -- rewrite H3. unfold apply_batch. cbn [fold_left apply_bop]. rewrite Ev, remove_A. reflexivity.
          -- rewrite H4. unfold apply_batch. cbn [fold_left apply_bop N.eqb]. rewrite (remove_U_found F lv n k x HJ Hf). reflexivity.
          -- cbn [forallb]. rewrite H5, H5g, (Hgdel (jf x)). auto.
          -- unfold has_empty_key in *. cbn [map existsb bop_key fst]. rewrite (N.eqb_sym 0 (jf x)), Hfx. exact H6.
        * cbn [N.eqb].
          destruct (IH m1 n res lv HR1 HJ0 HJ Hres Hw2 Hu2 Hk2 Hg2) as [m' [n' [eo [lv' [E [H1 [H2 [H3 [H4 [[H5 H5g] H6]]]]]]]]]].
          exists m', n', eo, lv'. split; [exact E|]. split; [exact H1|]. split; [exact H2|]. split; [|auto].
          rewrite H3. unfold apply_batch. cbn [fold_left apply_bop]. rewrite Ev, remove_A, (jrem_none lv k Hf). reflexivity.
      + (* put *)
        assert (Hut : user_tags (snd (v, t)) = true) by exact Hu1.
        assert (Hbt : existsb bad_tag t = false).
        { unfold wf_bop in Hw1. cbn in Hw1. destruct (existsb bad_tag t); [discriminate|reflexivity]. }
        assert (Hfv : (fv F v =? 0) = false) by (rewrite (ok_v0 F OK); exact Ev).
        destruct (jfind lv k) as [x|] eqn:Hf.
        * assert (Hfx : (jf x =? 0) = false) by (apply N.eqb_neq; apply (J_f0 lv n HJ x); apply (jfind_some lv k x Hf)).
          rewrite Hfx.
          set (lv2 := (jf x, k, (v, t)) :: jrem lv k).
          assert (HJ2 : J lv2 n) by (apply J_put_found; assumption).
          assert (Hres2 : res_inv ((k, jf x) :: res) lv2 l0).
          { apply (res_inv_cons res lv); [exact Hres| |].
            - rewrite Hfx. exists (jf x, k, (v, t)). split; [apply jfind_cons_same|reflexivity].
            - intros k' Hne. unfold lv2. rewrite jfind_cons_other by exact Hne. apply jfind_jrem_other; exact Hne. }
          destruct (IH m1 n ((k, jf x) :: res) lv2 HR1 HJ0 HJ2 Hres2 Hw2 Hu2 Hk2 Hg2)
            as [m' [n' [eo [lv' [E [H1 [H2 [H3 [H4 [[H5 H5g] H6]]]]]]]]]].
          rewrite E. exists m', n', ((jf x, fv F v, rfmt_tags F k t) :: eo), lv'. cbn [option_map]. split; [reflexivity|]. split; [exact H1|]. split; [exact H2|].
          split; [|split; [|split]].
          -- rewrite H3. unfold apply_batch. cbn [fold_left apply_bop]. rewrite Ev. unfold put. rewrite remove_A. reflexivity.
          -- rewrite H4. unfold apply_batch. cbn [fold_left apply_bop]. rewrite Hfv. unfold put. rewrite (remove_U_found F lv n k x HJ Hf). reflexivity.
          -- cbn [forallb]. rewrite H5, H5g, (Hgput (jf x) k v t Hg1). unfold wf_bop. cbn [snd]. rewrite (rfmt_not_bad k t Hbt). auto.
          -- unfold has_empty_key in *. cbn [map existsb bop_key fst]. rewrite (N.eqb_sym 0 (jf x)), Hfx. exact H6.
        * cbn [N.eqb].
          set (lv2 := (fresh n, k, (v, t)) :: lv).
          assert (HJ2 : J lv2 (n + 1)) by (apply J_put_fresh; assumption).
          assert (Hfr : (fresh n =? 0) = false) by (apply N.eqb_neq; apply fresh_nz).
          assert (Hres2 : res_inv ((k, fresh n) :: res) lv2 l0).
          { apply (res_inv_cons res lv); [exact Hres| |].
            - rewrite Hfr. exists (fresh n, k, (v, t)). split; [apply jfind_cons_same|reflexivity].
            - intros k' Hne. unfold lv2. apply jfind_cons_other; exact Hne. }
          destruct (IH m1 (n + 1) ((k, fresh n) :: res) lv2 HR1 HJ0 HJ2 Hres2 Hw2 Hu2 Hk2 Hg2)
            as [m' [n' [eo [lv' [E [H1 [H2 [H3 [H4 [[H5 H5g] H6]]]]]]]]]].
          rewrite E. exists m', n', ((fresh n, fv F v, rfmt_tags F k t) :: eo), lv'. cbn [option_map]. split; [reflexivity|]. split; [exact H1|]. split; [exact H2|].
          split; [|split; [|split]].
          -- rewrite H3. unfold apply_batch. cbn [fold_left apply_bop]. rewrite Ev. unfold put. rewrite remove_A, (jrem_none lv k Hf). reflexivity.
          -- rewrite H4. unfold apply_batch. cbn [fold_left apply_bop]. rewrite Hfv. unfold put. rewrite (remove_U_fresh F lv n HJ). reflexivity.
          -- cbn [forallb]. rewrite H5, H5g, (Hgput (fresh n) k v t Hg1). unfold wf_bop. cbn [snd]. rewrite (rfmt_not_bad k t Hbt). auto.
          -- unfold has_empty_key in *. cbn [map existsb bop_key fst]. rewrite (N.eqb_sym 0 (fresh n)), Hfr. exact H6.
  Qed.
  Lemma wfk_wf1 o : wfk_op o = true -> wf1_op o = true.
  Proof. unfold wfk_op. intros H. apply andb_prop in H as [H _]. exact H. Qed.

  Lemma formatted_rand_sim_g : sim G pers (formatted_rand true F P) rand_rel.
  Proof.
    intros [m n] a o HoG [l [HR [-> HJ]]]. cbn [fst snd] in HR, HJ. pose proof (HGk o HoG) as Ho.
    unfold rand_rel. destruct o as [k v t|k|k|ks|q|k|b| |]; cbn [step formatted_rand frand_step spec_step].
    - (* Put *)
      destruct (valid_put k v t) eqn:Ev; [|cbn [fst snd]; split; [exists l; auto|reflexivity]].
      assert (Hut : user_tags t = true). { unfold wfk_op in Ho. apply andb_prop in Ho as [_ Ho]. exact Ho. }
      destruct (valid_put_v k v t Ev) as [Hv0 [Hk0 Hbt]].
      destruct (rfind_ok m l n k HR HJ) as [H1 H2]. destruct (rfind F P m k) as [m1 x]. cbn [fst snd] in H1, H2. subst x.
      destruct (jfind l k) as [y|] eqn:Hf.
      + assert (Hy0 : jf y <> 0) by (apply (J_f0 l n HJ y); apply (jfind_some l k y Hf)).
        pose proof (HP m1 (U F l) (Put (jf y) (fv F v) (rfmt_tags F k t)) (HGput (jf y) k v t HoG) H1) as [H3 H4].
        destruct (step P m1 (Put (jf y) (fv F v) (rfmt_tags F k t))) as [m2 r]. cbn [fst snd spec_step] in H3, H4.
        rewrite (valid_put_rfmt (jf y) k v t Hy0 Ev) in H3, H4. cbn [fst snd] in *. subst r. cbn [is_done]. split; [|reflexivity].
        exists ((jf y, k, (v, t)) :: jrem l k). split; [|split].
        * unfold put in H3. rewrite (remove_U_found F l n k y HJ Hf) in H3. exact H3.
        * unfold put. rewrite remove_A. reflexivity.
        * apply J_put_found; assumption.
      + pose proof (HP m1 (U F l) (Put (fresh n) (fv F v) (rfmt_tags F k t)) (HGput (fresh n) k v t HoG) H1) as [H3 H4].
        destruct (step P m1 (Put (fresh n) (fv F v) (rfmt_tags F k t))) as [m2 r]. cbn [fst snd spec_step] in H3, H4.
        rewrite (valid_put_rfmt (fresh n) k v t (fresh_nz n) Ev) in H3, H4. cbn [fst snd] in *. subst r. cbn [is_done]. split; [|reflexivity].
        exists ((fresh n, k, (v, t)) :: l). split; [|split].
        * unfold put in H3. rewrite (remove_U_fresh F l n HJ) in H3. exact H3.
        * unfold put. rewrite remove_A, (jrem_none l k Hf). reflexivity.
        * apply J_put_fresh; assumption.
    - (* Get *)
      destruct (k =? 0) eqn:Ek; [cbn [fst snd]; split; [exists l; auto|reflexivity]|].
      destruct (rfind_ok m l n k HR HJ) as [H1 H2]. destruct (rfind F P m k) as [m1 x]. cbn [fst snd] in *. subst x.
      split; [exists l; auto|]. rewrite lookup_A. destruct (jfind l k) as [y|]; cbn [option_map uimg fst snd]; [|reflexivity].
      rewrite (ok_uv F OK). destruct (je y). reflexivity.
    - (* GetTags *)
      destruct (k =? 0) eqn:Ek; [cbn [fst snd]; split; [exists l; auto|reflexivity]|].
      destruct (rfind_ok m l n k HR HJ) as [H1 H2]. destruct (rfind F P m k) as [m1 x]. cbn [fst snd] in *. subst x.
      split; [exists l; auto|]. rewrite lookup_A. destruct (jfind l k) as [y|] eqn:Hf; cbn [option_map]; [|reflexivity].
      pose proof (J_t l n HJ y (proj1 (jfind_some l k y Hf))) as Hty.
      change (jf y, snd (uimg F y)) with (uimg F y). rewrite (runfmt_uimg F OK y Hty). unfold aimg. cbn [fst snd].
      rewrite (drop_keytag_user (snd (je y)) k Hty). destruct (je y). reflexivity.
    - (* GetBulk *)
      destruct (is_nil ks || has_empty_key ks) eqn:E; [cbn [fst snd]; split; [exists l; auto|reflexivity]|].
      destruct (rbulk_ok l n ks m HR HJ) as [H1 H2]. destruct (rbulk F P m ks) as [m1 y]. cbn [fst snd] in *. subst y.
      split; [exists l; auto|reflexivity].
    - (* Query *)
      destruct q as [|c [|c2 q2]].
      + cbn. split; [exists l; auto|reflexivity].
      + cbn [is_nil].
        assert (Hc : (fst c =? KEYN) = false).
        { unfold wfk_op in Ho. apply andb_prop in Ho as [_ Ho]. apply negb_true_iff in Ho. exact Ho. }
        pose proof (HP m (U F l) (Query [fcrit F c]) (HGq c HoG) HR) as [H1 H2].
        destruct (step P m (Query [fcrit F c])) as [m1 r]. cbn [fst snd spec_step is_nil] in *. subst r.
        split; [exists l; auto|]. rewrite (qeval_user F OK l c Hc), qeval_A, runfmt_U; [reflexivity|exact OK|].
        intros x Hx. apply (J_t l n HJ x). apply filter_In in Hx as [Hx _]. exact Hx.
      + apply wfk_wf1 in Ho. unfold wf1_op in Ho. cbn in Ho. try rewrite andb_false_r in Ho. discriminate.
    - (* Delete *)
      destruct (k =? 0) eqn:Ek; [cbn [fst snd]; split; [exists l; auto|reflexivity]|].
      destruct (rfind_ok m l n k HR HJ) as [H1 H2]. destruct (rfind F P m k) as [m1 x]. cbn [fst snd] in *. subst x.
      destruct (jfind l k) as [y|] eqn:Hf.
      + assert (Hy0 : (jf y =? 0) = false) by (apply N.eqb_neq; apply (J_f0 l n HJ y); apply (jfind_some l k y Hf)).
        pose proof (HP m1 (U F l) (Delete (jf y)) (HGs (Delete (jf y))) H1) as [H3 H4].
        destruct (step P m1 (Delete (jf y))) as [m2 r]. cbn [fst snd spec_step] in H3, H4. rewrite Hy0 in H3, H4. cbn [fst snd] in *. subst r.
        cbn [is_done]. split; [|reflexivity]. exists (jrem l k). split; [|split].
        * rewrite (remove_U_found F l n k y HJ Hf) in H3. exact H3.
        * apply remove_A.
        * apply J_jrem; exact HJ.
      + cbn [fst snd]. split; [|reflexivity]. exists l. split; [exact H1|]. split; [|exact HJ]. rewrite remove_A, (jrem_none l k Hf). reflexivity.
    - (* Batch *)
      destruct (has_empty_key (map bop_key b)) eqn:Ek.
      + rewrite orb_true_r. cbn [fst snd]. split; [exists l; auto|reflexivity].
      + assert (Hw : forallb wf_bop b = true /\ forallb (fun x : bop => user_tags (snd x)) b = true).
        { unfold wfk_op, wf1_op in Ho. cbn in Ho. rewrite andb_true_r in Ho. apply andb_prop in Ho. exact Ho. }
        destruct Hw as [Hw Hu].
        assert (Hres0 : res_inv [] l l) by (intros k0; reflexivity).
        destruct (rbatch_ok l n b m n [] l HR HJ HJ Hres0 Hw Hu Ek (HGbu b HoG)) as [m' [n' [eo [lv' [E [H1 [H2 [H3 [H4 [[H5 H5g] H6]]]]]]]]]].
        rewrite E. rewrite orb_false_r. destruct b as [|b0 br].
        * (* empty batch: the underlying store refuses it *)
          cbn in E. inversion E; subst. cbn [is_nil negb andb].
          pose proof (HP m' (U F l) (Batch []) (HGs (Batch [])) H1) as [H7 H8].
          destruct (step P m' (Batch [])) as [m2 r]. cbn [fst snd spec_step is_nil orb] in *. subst r. cbn. split; [exists l; auto|reflexivity].
        * cbn [is_nil negb andb]. destruct eo as [|e0 er].
          -- cbn [is_nil fst snd]. split; [|reflexivity]. exists lv'. split; [|split].
             ++ rewrite H4. exact H1.
             ++ symmetry. exact H3.
             ++ exact H2.
          -- cbn [is_nil].
             pose proof (HGb (e0 :: er) H5g) as Hg.
             pose proof (HP m' (U F l) (Batch (e0 :: er)) Hg H1) as [H7 H8].
             destruct (step P m' (Batch (e0 :: er))) as [m2 r]. cbn [fst snd spec_step is_nil orb] in H7, H8.
             match type of H8 with context [if ?c then _ else _] => replace c with false in H7, H8 by (symmetry; exact H6) end.
             cbn [fst snd] in *. subst r. cbn [is_done]. split; [|reflexivity]. exists lv'. split; [|split].
             ++ rewrite H4. exact H7.
             ++ symmetry. exact H3.
             ++ exact H2.
    - (* Flush *)
      pose proof (HP m (U F l) Flush (HGs Flush) HR) as [H1 H2].
      destruct (step P m Flush) as [m1 r]. cbn [fst snd spec_step] in *. subst r. cbn. split; [exists l; auto|reflexivity].
    - (* Reopen *)
      pose proof (HP m (U F l) Reopen (HGs Reopen) HR) as [H1 H2].
      destruct (step P m Reopen) as [m1 r]. cbn [fst snd spec_step] in *. subst r. cbn [is_done fst snd]. split; [|reflexivity].
      destruct pers.
      + exists l. auto.
      + exists []. cbn. split; [exact H1|]. split; [reflexivity|]. apply J_nil.
  Qed.

  Lemma rand_rel_init : R (init P) [] -> rand_rel (init (formatted_rand true F P)) [].
  Proof. intros H. exists []. cbn. split; [exact H|]. split; [reflexivity|]. apply J_nil. Qed.
End Sim.

(* the instance used so far: the store below follows the contract for single-criterion queries and well-formed batches *)
Lemma formatted_rand_sim (F : formatter) (OK : fmt_ok F) pers (P : prov) R :
  sim wf1_op pers P R -> sim wfk_op pers (formatted_rand true F P) (rand_rel F P R).
Proof. intros HP. apply (formatted_rand_sim_g F OK pers P R wfk_op wf1_op wf_bop wf_bop); auto.
  - intros o. destruct o as [| | | | | |[|x r]| |]; auto.
  - intros eo H. unfold wf1_op. cbn. rewrite H. reflexivity.
  - intros b H. unfold wfk_op, wf1_op in H. cbn in H. rewrite andb_true_r in H. apply andb_prop in H as [H _]. exact H.
  - intros f k v t H. unfold wf_bop in *. cbn [snd] in *. rewrite (rfmt_not_bad F OK k t); [reflexivity|]. destruct (existsb bad_tag t); [discriminate|reflexivity].
Qed.
