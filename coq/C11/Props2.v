(* C11 — property theorems, part 2: wrappers relative to the wrapped provider's OWN behaviour (so that stacks over a
   provider that deviates from the contract, LevelDB, inherit exactly its deviation); explicit GetBulk / Batch facts. *)
From Coq Require Import List NArith ZArith Bool.
Import ListNotations.
From VF Require Import C11.Model C11.Proofs C11.ProofsB C11.ProofsF C11.ProofsR C11.Corr C11.ProofsS C11.ProofsG C11.ProofsL C11.ProofsC C11.ProofsO.
Local Open Scope N_scope.

(* cachedstore over ANY provider P whose ENTRIES follow the contract (its queries may be anything), whose reads do not
   change its state and whose refused writes leave it unchanged: for every history (queries included), from every
   cache content that agrees with P, the wrapper returns exactly what P itself returns. *)
Theorem cached_over_any : forall (G : op -> bool) pers (P : prov) (ab : St P -> store),
  entry_exact G pers P ab -> (forall o, G o = true -> wf_op o = true) ->
  (forall k, G (GetTags k) = true) ->
  forall ops m c, forallb G ops = true -> cache_ok c (ab m) -> wf_store (ab m) ->
  run (cached true P) (m, c) ops = run P m ops.
Proof. intros G pers P ab EE H1 H3 ops m c Hops Hc Hw.
  apply (cached_over_run G pers P ab EE H1 H3 ops (m, c) Hops). split; assumption. Qed.
Print Assumptions cached_over_any.

(* batchedstore (any limit) over ANY provider P whose Batch is the sequence of its single operations, whose refused
   operations leave it unchanged and whose Flush is a no-op: the wrapper returns exactly what P returns from the state
   "P with the queue applied". *)
Theorem batched_over_any : forall l (P : prov), batch_seq P ->
  forall ops m q, forallb (fun o => lg o && wf_op o) ops = true -> forallb gq1 q = true ->
  run (batched l P) (m, q) ops = run P (flushq P m q) ops.
Proof. intros l P BS ops m q Hops Hq. exact (batched_over_run l P BS ops (m, q) Hops Hq). Qed.
Print Assumptions batched_over_any.

(* LevelDB satisfies both sets of hypotheses: a caching or a batching wrapper over LevelDB behaves EXACTLY like LevelDB
   (stale-index answers of name-only queries included, nothing else added), for every history with well-formed
   batches, from every LevelDB content. *)
Theorem cached_over_leveldb : forall ops (s : St leveldb),
  forallb lg ops = true -> wf_store (fst s) ->
  run (cached true leveldb) (s, []) ops = run leveldb s ops.
Proof. intros ops s Hops Hw.
  apply (cached_over_any lg true leveldb fst ldb_entry_exact); try reflexivity; try assumption.
  - intros o Ho. destruct o; try reflexivity. cbn in *. apply andb_prop in Ho as [Ho _]. exact Ho.
  - apply cache_ok_nil. Qed.
Print Assumptions cached_over_leveldb.

Theorem batched_over_leveldb : forall l ops (s : St leveldb),
  forallb (fun o => lg o && wf_op o) ops = true ->
  run (batched l leveldb) (s, []) ops = run leveldb s ops.
Proof. intros l ops s Hops. exact (batched_over_any l leveldb ldb_batch_seq ops s [] Hops eq_refl). Qed.
Print Assumptions batched_over_leveldb.

Example over_leveldb_nonvacuous :
  let ops := [Put 1 1 [(1, 1)]; Put 1 2 []; Query [(1, 0)]; Batch [(2, 3, [(1, 2)]); (1, 0, [])]; Query [(1, 0)]; Reopen; Get 2] in
  forallb (fun o => lg o && wf_op o) ops = true /\
  run (cached true leveldb) (init (cached true leveldb)) ops = run leveldb (init leveldb) ops /\
  run (batched 2 leveldb) (init (batched 2 leveldb)) ops = run leveldb (init leveldb) ops /\
  nth 2 (run leveldb (init leveldb) ops) OErr = OQuery [(1, (2, []))].   (* the stale answer, inherited as it is *)
Proof. vm_compute. repeat split. Qed.

(* obs #13 as found: formattedstore gave the FORMATTED key to a formatter that embeds the key it is given (the EDV
   encrypted formatter) when it overwrote an existing key; afterwards the query iterator shows the formatted key
   (here the random id 2000) and the internal tag Key:base64(key) (500, 1001).  Refuted by the model of the code as
   found; the repaired variant agrees with the contract on the same history (corpus/C11/formatted-edv-random-overwrite-key.json). *)
Theorem formatted_embed_asis_refuted :
  let ops := [Put 1 1 [(1, 1)]; Query [(1, 0)]; Put 1 2 [(1, 1)]; Get 1; GetTags 1; Query [(1, 0)];
              Batch [(1, 3, [(1, 2)])]; Query [(1, 2)]] in
  run (formatted_rand_embed false b64_fmt (mem true)) ([], 0) ops <> run (spec_prov false) [] ops /\
  nth 5 (run (formatted_rand_embed false b64_fmt (mem true)) ([], 0) ops) OErr = OQuery [(2000, (2, [(1, 1); (500, 1001)]))] /\
  run (formatted_rand_embed true b64_fmt (mem true)) ([], 0) ops = run (spec_prov false) [] ops.
Proof. split; [|split]; vm_compute; [discriminate|reflexivity|reflexivity]. Qed.
Print Assumptions formatted_embed_asis_refuted.

(* ---------- stacks of ANY shape over the in-memory provider ---------- *)
(* Caching, batching, deterministic-key and random-key formatting layers in any order and number (two random layers, a
   deterministic layer over a random one, ...).  [stack_ok s]: no LevelDB / embedding layer, and below every random-key
   layer the formatted name of the internal "Key" tag is itself an acceptable tag name (computed; true for every stack
   built from the base64 formatter).  [guard_n (names_of s)]: single-criterion queries, well-formed batches, and tag
   names whose images under the formatters below never collide with "Key" (computed from the stack). *)
Theorem any_stack_refines : forall s ops, stack_ok s = true -> forallb (guard_n (names_of s)) ops = true ->
  run (prov_of s) (init (prov_of s)) ops = run (spec_prov false) [] ops.
Proof. intros s ops Hs Hops. apply (sim_run (guard_n (names_of s)) false (prov_of s) (grel s));
  [apply any_stack_sim; assumption|assumption|apply any_stack_rel_init; assumption]. Qed.
Print Assumptions any_stack_refines.

Theorem any_stack_rewrap_refines : forall s pre ops, stack_ok s = true ->
  forallb (guard_n (names_of s)) pre = true -> forallb (guard_n (names_of s)) ops = true ->
  run (prov_of s) (rewrap s (run_state (prov_of s) (init (prov_of s)) pre)) ops =
  run (spec_prov false) (run_state (spec_prov false) [] pre) ops.
Proof. intros s pre ops Hs Hpre Hops.
  apply (sim_run (guard_n (names_of s)) false (prov_of s) (grel s)); [apply any_stack_sim; assumption|assumption|].
  apply any_stack_rel_rewrap; [assumption|].
  apply (sim_run_state (guard_n (names_of s)) false (prov_of s) (grel s)); [apply any_stack_sim; assumption|assumption|apply any_stack_rel_init; assumption]. Qed.
Print Assumptions any_stack_rewrap_refines.

(* the two wrapper theorems in their general form: the store below may itself carry a guard *)
Theorem formatted_det_transparent_g : forall (F : formatter) pers (P : prov) R pn,
  fmt_ok F -> sim (guard_n pn) pers P R ->
  sim (guard_n (fun n => pn (fn F n))) pers (formatted_det F P) (fmt_rel F P R).
Proof. intros F pers P R pn HF HP.
  apply (formatted_det_sim_g F HF pers P R (guard_n (fun n => pn (fn F n))) (guard_n pn)).
  - apply guard_n_wf1.
  - intros k v t Hg. unfold guard_n in *. apply andb_prop in Hg as [_ Hg]. cbn [wf1_op wf_op andb]. exact (eq_trans (names_ok_fmt F pn t) Hg).
  - intros c Hg. unfold guard_n in *. apply andb_prop in Hg as [_ Hg]. exact Hg.
  - intros b Hg. apply guard_n_batch. apply guard_n_batch_inv in Hg. apply forallb_gbn in Hg as [H1 H2]. apply forallb_gbn.
    split; [apply (wf_batch_fmt F HF); exact H1|apply names_batch_fmt; exact H2].
  - intros o. destruct o; auto.
  - exact HP. Qed.
Print Assumptions formatted_det_transparent_g.

Example any_stack_nonvacuous :
  let s := SFmt FB64 (SFmtR FB64 (SBatched 2 (SFmtR FB64 SMem))) in   (* deterministic over random over batched over random *)
  let ops := [Put 1 1 [(1, 1)]; Batch [(1, 0, []); (1, 2, [(2, 2)]); (2, 4, [])]; Get 1; GetTags 1; Query [(2, 2)]; Delete 1;
              Get 1; GetBulk [1; 2]; Put 2 3 [(1, 0)]; Query [(1, 0)]] in
  stack_ok s = true /\ forallb (guard_n (names_of s)) ops = true /\
  run (prov_of s) (init (prov_of s)) ops =
  [ODone; ODone; OVal 2; OTags [(2, 2)]; OQuery [(1, (2, [(2, 2)]))]; ODone; ONotFound; OBulk [0; 4]; ODone; OQuery [(2, (3, [(1, 0)]))]].
Proof. vm_compute. repeat split. Qed.

(* the lookup of an entry by its key under random key formatting goes through the internal tag Key:key_tag_value(key);
   formatted_rand_transparent rests on this function being injective (a non-injective encoding makes two keys alias one
   entry: seeded change C11-7).  Corr checks on every run that the Key tag values the real code writes for the keys of
   the alphabet (keys with ':' '&' '|', keys that are base64 / base64url / base58 / hex of other keys, internal names,
   long keys) are pairwise different, i.e. identify exactly what this function identifies. *)
Theorem key_tag_value_injective : forall k1 k2, key_tag_value k1 = key_tag_value k2 -> k1 = k2.
Proof. intros k1 k2 H. apply N.eqb_eq. rewrite <- kenc_eqb. apply N.eqb_eq. exact H. Qed.
Print Assumptions key_tag_value_injective.

(* agreement with the model's function means: the code's encoding is injective on the observed keys *)
Theorem keytags_agree_injective : forall tbl, keytags_agree tbl = true -> keytags_injective tbl = true.
Proof. intros tbl H. unfold keytags_agree, keytags_injective in *. rewrite forallb_forall in *. intros a Ha. specialize (H a Ha).
  rewrite forallb_forall in *. intros b Hb. specialize (H b Hb). unfold key_tag_value in H. rewrite kenc_eqb in H.
  apply Bool.eqb_prop in H. exact (eq_trans (f_equal (fun x => implb x (fst a =? fst b)) H) (implb_same _)). Qed.
Print Assumptions keytags_agree_injective.

(* ---------- provider level ---------- *)
(* the in-memory provider follows the provider-level contract (several named stores, OpenStore / SetStoreConfig /
   GetStoreConfig / GetOpenStores / Provider.Close / Store.Close, with Close deleting the store) for every scenario
   from every provider state *)
Theorem mem_provider_refines : forall (ops : list pop) (p : pstate),
  prun false (mem_step true) p ops = prun false (spec_step false) p ops.
Proof. intros ops p. revert p. induction ops as [|o r IH]; intros p; [reflexivity|].
  assert (E : pstep false (mem_step true) p o = pstep false (spec_step false) p o).
  { destruct o; cbn [pstep]; try reflexivity. destruct (plookup p n) as [s|]; [|reflexivity]. destruct (ss_open s); [|reflexivity].
    rewrite mem_step_spec. reflexivity. }
  cbn [prun]. rewrite E. destruct (pstep false (spec_step false) p o) as [p1 x]. rewrite IH. reflexivity. Qed.
Print Assumptions mem_provider_refines.

(* stores of one provider do not influence each other *)
Theorem provider_stores_independent : forall persist sstep p n o n',
  n' <> n -> plookup (fst (pstep persist sstep p (PStore n o))) n' = plookup p n'.
Proof. intros persist sstep p n o n' Hne. cbn [pstep]. destruct (plookup p n) as [s|]; [|reflexivity]. destruct (ss_open s); [|reflexivity].
  destruct (sstep (ss_data s) o) as [d x]. cbn [fst]. unfold pset. cbn [plookup]. destruct (N.eqb_spec n' n); [contradiction|].
  clear - Hne. induction p as [|[n0 s0] r IH]; cbn; [reflexivity|]. destruct (N.eqb_spec n n0) as [->|H0].
  - destruct (N.eqb_spec n' n0); [contradiction|exact IH].
  - cbn. destruct (n' =? n0); [reflexivity|exact IH]. Qed.
Print Assumptions provider_stores_independent.

Example provider_nonvacuous :
  prun false (mem_step true) []
    [PSetCfg 1 [1]; POpen 0; POpen 1; PSetCfg 1 [1; 2]; PGetCfg 1; PGetCfg 2; POpen 2; PStore 2 (Put 1 1 []); PStore 1 (Get 1);
     PStore 2 (Get 1); PGetOpen; PStoreClose 1; PGetCfg 1; PGetOpen; PSetCfg 2 [9]; PClose; PGetOpen]
  = [PNoStore; PErr; PDone; PDone; PCfg [1; 2]; PNoStore; PDone; POut ODone; POut ONotFound; POut (OVal 1); POpenSet [1; 2];
     PDone; PNoStore; POpenSet [2]; PErr; PDone; POpenSet []].
Proof. vm_compute. reflexivity. Qed.

(* ---------- GetBulk: arguments and positions ---------- *)
Theorem getbulk_contract : forall pers a ks,
  snd (spec_step pers a (GetBulk ks)) =
  if is_nil ks || has_empty_key ks then OErr else OBulk (map (value_of a) ks).
Proof. intros pers a ks. cbn. destruct (is_nil ks || has_empty_key ks); reflexivity. Qed.
Print Assumptions getbulk_contract.

(* position i of the answer is the value of the i-th key, 0 (nil) iff nothing is stored under it; hence a repeated key
   gets the same answer at each of its positions *)
Theorem getbulk_positions : forall a ks i, (i < length ks)%nat ->
  nth i (map (value_of a) ks) 0 = value_of a (nth i ks 0).
Proof. intros a ks i Hi. rewrite getbulk_nth. apply Nat.ltb_lt in Hi. rewrite Hi. reflexivity. Qed.
Print Assumptions getbulk_positions.

Theorem getbulk_repeated_keys : forall a ks i j, (i < length ks)%nat -> (j < length ks)%nat -> nth i ks 0 = nth j ks 0 ->
  nth i (map (value_of a) ks) 0 = nth j (map (value_of a) ks) 0.
Proof. intros a ks i j Hi Hj E. rewrite !getbulk_positions by assumption. f_equal. exact E. Qed.
Print Assumptions getbulk_repeated_keys.

(* ---------- Batch: operations apply in order, the last operation on a key wins ---------- *)
Theorem batch_last_wins : forall a b1 k v t b2, (forall x, In x b2 -> bop_key x <> k) ->
  lookup (apply_batch a (b1 ++ (k, v, t) :: b2)) k = if v =? 0 then None else Some (v, t).
Proof. exact batch_last_wins_lemma. Qed.
Print Assumptions batch_last_wins.

Theorem batch_untouched_keys : forall a b k, (forall x, In x b -> bop_key x <> k) -> lookup (apply_batch a b) k = lookup a k.
Proof. intros a b k H. exact (lookup_apply_batch_untouched b a k H). Qed.
Print Assumptions batch_untouched_keys.

Example batch_repeated_nonvacuous :
  run (spec_prov false) [] [Batch [(1, 1, [(1, 1)]); (2, 2, []); (1, 0, []); (1, 3, [(2, 2)]); (2, 0, [])]; Get 1; GetTags 1; Get 2; GetBulk [1; 2; 1]; GetBulk []; GetBulk [1; 0]]
  = [ODone; OVal 3; OTags [(2, 2)]; ONotFound; OBulk [3; 0; 3]; OErr; OErr].
Proof. vm_compute. reflexivity. Qed.
