(* C11 — lemmas: formattedstore with random keys is a congruence for provider bisimulation too (so all four wrappers
   are); LevelDB is bisimilar to the contract machine itself on histories whose queries carry a tag VALUE (name:value
   queries read the tags of the indexed keys, so a stale index entry cannot show); hence every stack of wrappers over
   LevelDB -- random-key formatting layers included, any depth and order -- returns what the contract prescribes on
   such histories. *)
From Coq Require Import List NArith ZArith Bool Lia.
Import ListNotations.
From VF Require Import C11.Model C11.Proofs C11.ProofsB C11.ProofsL C11.ProofsF C11.ProofsR C11.ProofsO C11.ProofsE C11.Corr C11.ProofsS C11.ProofsG C11.ProofsT.
Local Open Scope N_scope.

(* ---------- LevelDB and the contract machine, queries with a value ---------- *)
Definition vq (o : op) : bool := match o with Query [c] => negb (snd c =? 0) | _ => true end.
Definition lgv (o : op) : bool := wf1_op o && vq o && lg o.
Definition lrelv (s : ldb) (a : store) : Prop := fst s = a /\ ldb_inv s.

Lemma ldb_vsim : sim lgv true leveldb lrelv.
Proof. intros s a o Ho [<- Hi]. unfold lgv in Ho. apply andb_prop in Ho as [Ho Hl]. apply andb_prop in Ho as [Hw Hv].
  destruct (is_query o) eqn:Eq.
  - destruct o as [| | | |q| | | |]; try discriminate. destruct q as [|c [|c2 q2]].
    + cbn. split; [split; [reflexivity|exact Hi]|reflexivity].
    + cbn in Hv. apply negb_true_iff in Hv. cbn [step leveldb ldb_step spec_step is_nil fst snd].
      split; [split; [reflexivity|exact Hi]|]. apply ldb_query_value; assumption.
    + cbn in Hw. try rewrite andb_false_r in Hw. discriminate.
  - destruct (ldb_sim s (fst s) o (lg_ldb_ok o Hl Eq) eq_refl) as [H1 H2].
    split; [split; [exact H1|apply (ldb_inv_step s o); exact Hi]|exact H2].
Qed.
Lemma ldb_vbisim : bisim lgv leveldb (spec_prov true) lrelv.
Proof. exact ldb_vsim. Qed.

(* ---------- batchedstore as a congruence, with a per-operation predicate carried by the queue ---------- *)
Definition brelg {P Q : prov} (gb : bop -> bool) (R : St P -> St Q -> Prop) (s : bstate P) (t : bstate Q) : Prop :=
  R (fst s) (fst t) /\ snd s = snd t /\ forallb (fun x => gq1 x && gb x) (snd s) = true.

Section BatchedCongG.
  Variable G : op -> bool.
  Variable gb : bop -> bool.
  Variable l : Z.
  Variables P Q : prov.
  Variable R : St P -> St Q -> Prop.
  Hypothesis HGq : forall q, forallb (fun x => gq1 x && gb x) q = true -> q <> [] -> G (Batch q) = true.
  Hypothesis HGwf : forall o, G o = true -> wf_op o = true.
  Hypothesis HGf : G Flush = true.
  Hypothesis HGr : G Reopen = true.
  Hypothesis Hgput : forall k v t, G (Put k v t) = true -> valid_put k v t = true -> gb (k, v, t) = true.
  Hypothesis Hgdel : forall k, gb (k, 0, []) = true.
  Hypothesis Hgbatch : forall b, G (Batch b) = true -> forallb gb b = true.
  Hypothesis HB : bisim G P Q R.

  Lemma bflush_congg s t : brelg gb R s t ->
    brelg gb R (fst (bflush P s)) (fst (bflush Q t)) /\ snd (bflush P s) = snd (bflush Q t).
  Proof. destruct s as [m q], t as [m' q']. intros [HR [Hq Hg]]. cbn [fst snd] in *. subst q'. unfold bflush.
    destruct q as [|x r]; [unfold brelg; cbn; auto|].
    assert (Ho : G (Batch (x :: r)) = true) by (apply HGq; [exact Hg|discriminate]).
    inner HB m m' (Batch (x :: r)) Ho HR H1. destruct (is_done r'); unfold brelg; cbn [fst snd]; auto. Qed.

  Lemma benqueue_congg s t b : gq1 b = true -> gb b = true -> brelg gb R s t ->
    brelg gb R (fst (benqueue l P s b)) (fst (benqueue l Q t b)) /\ snd (benqueue l P s b) = snd (benqueue l Q t b).
  Proof. destruct s as [m q], t as [m' q']. intros Hb Hb2 [HR [Hq Hg]]. cbn [fst snd] in *. subst q'. unfold benqueue.
    assert (Hg1 : forallb (fun x => gq1 x && gb x) (q ++ [b]) = true) by (rewrite forallb_app, Hg; cbn; rewrite Hb, Hb2; reflexivity).
    destruct (Z.leb l (Z.of_nat (length (q ++ [b])))).
    - apply bflush_congg. unfold brelg. cbn [fst snd]. auto.
    - unfold brelg. cbn [fst snd]. auto. Qed.

  Lemma benqueue_all_congg b : forall s t, forallb gq1 b = true -> forallb gb b = true -> brelg gb R s t ->
    brelg gb R (fst (benqueue_all l P s b)) (fst (benqueue_all l Q t b)) /\ snd (benqueue_all l P s b) = snd (benqueue_all l Q t b).
  Proof. induction b as [|x r IH]; intros s t Hb Hb2 HR; [cbn; auto|]. cbn in Hb, Hb2. apply andb_prop in Hb as [Hx Hr]. apply andb_prop in Hb2 as [Hx2 Hr2].
    cbn [benqueue_all]. destruct (benqueue_congg s t x Hx Hx2 HR) as [H1 H2].
    destruct (benqueue l P s x) as [s1 y]. destruct (benqueue l Q t x) as [t1 y']. cbn [fst snd] in *. subst y'.
    destruct (is_done y); [apply IH; assumption|cbn; auto]. Qed.

  Lemma bread_congg s t o : G o = true -> brelg gb R s t ->
    brelg gb R (fst (bread P s o)) (fst (bread Q t o)) /\ snd (bread P s o) = snd (bread Q t o).
  Proof. intros Ho HR. unfold bread. destruct (bflush_congg s t HR) as [H1 H2].
    destruct (bflush P s) as [s1 y]. destruct (bflush Q t) as [t1 y']. cbn [fst snd] in *. subst y'.
    destruct (is_done y); [|cbn; auto]. destruct H1 as [A [B C]].
    inner HB (fst s1) (fst t1) o Ho A H3. unfold brelg. cbn [fst snd]. auto. Qed.

  Lemma batched_congg : bisim G (batched l P) (batched l Q) (brelg gb R).
  Proof.
    intros s t o Ho HR. pose proof (HGwf o Ho) as Hwf.
    destruct o as [k v tg|k|k|ks|q|k|b| |]; cbn [step batched batched_step].
    - destruct (valid_put k v tg) eqn:Ev; [|cbn; auto]. apply benqueue_congg; [|exact (Hgput k v tg Ho Ev)|exact HR].
      unfold gq1. destruct (valid_put_wf k v tg Ev) as [_ Ht]. unfold wf_bop. cbn in *. rewrite Ht. cbn.
      unfold valid_put in Ev. destruct (k =? 0); [discriminate|reflexivity].
    - apply bread_congg; assumption.
    - apply bread_congg; assumption.
    - apply bread_congg; assumption.
    - apply bread_congg; assumption.
    - destruct (k =? 0) eqn:Ek; [cbn; auto|]. apply benqueue_congg; [|exact (Hgdel k)|exact HR]. unfold gq1. cbn. rewrite Ek. reflexivity.
    - destruct (is_nil b || has_empty_key (map bop_key b)) eqn:E; [cbn; auto|]. apply orb_false_elim in E as [_ E2].
      apply benqueue_all_congg; [|exact (Hgbatch b Ho)|exact HR]. apply gq1_of_wf; [exact Hwf|exact E2].
    - destruct (bflush_congg s t HR) as [H1 H2].
      destruct (bflush P s) as [s1 y]. destruct (bflush Q t) as [t1 y']. cbn [fst snd] in *. subst y'.
      destruct (is_done y); [|cbn; auto]. destruct H1 as [A [B C]].
      inner HB (fst s1) (fst t1) Flush HGf A H3. unfold brelg. cbn [fst snd]. auto.
    - destruct (bflush_congg s t HR) as [H1 H2].
      destruct (bflush P s) as [s1 y]. destruct (bflush Q t) as [t1 y']. cbn [fst snd] in *. subst y'. destruct H1 as [A [B C]].
      destruct (is_done y); [|unfold brelg; cbn; auto].
      inner HB (fst s1) (fst t1) Flush HGf A H3. destruct (is_done r'); [|unfold brelg; cbn; auto].
      inner HB m1 n1 Reopen HGr H3 H4. unfold brelg. cbn; auto.
  Qed.
End BatchedCongG.

(* ---------- formattedstore with random keys as a congruence ---------- *)
Definition rrel {P Q : prov} (R : St P -> St Q -> Prop) (s : rstate P) (t : rstate Q) : Prop :=
  R (fst s) (fst t) /\ snd s = snd t.

Section FrandCong.
  Variable F : formatter.
  Variables G G' : op -> bool.
  Variables P Q : prov.
  Variable R : St P -> St Q -> Prop.
  Variables gbu gb' : bop -> bool.
  Hypothesis HGkq : forall k, G' (Query [kcrit F k]) = true.
  Hypothesis HGw : forall o, G o = true -> wf1_op o = true.
  Hypothesis HGput : forall f k v t, G (Put k v t) = true -> G' (Put f (fv F v) (rfmt_tags F k t)) = true.
  Hypothesis HGq : forall c, G (Query [c]) = true -> G' (Query [fcrit F c]) = true.
  Hypothesis HGs : forall o, match o with Delete _ | Flush | Reopen => G' o = true | _ => True end.
  Hypothesis HGb : forall eo, forallb gb' eo = true -> has_empty_key (map bop_key eo) = false -> G' (Batch eo) = true.
  Hypothesis HGbu : forall b, G (Batch b) = true -> forallb gbu b = true.
  Hypothesis Hgdel : forall f, gb' (f, 0, []) = true.
  Hypothesis Hgput : forall f k v t, gbu (k, v, t) = true -> gb' (f, fv F v, rfmt_tags F k t) = true.
  Hypothesis HB : bisim G' P Q R.

  Lemma rfind_cong m m' k : R m m' ->
    R (fst (rfind F P m k)) (fst (rfind F Q m' k)) /\ snd (rfind F P m k) = snd (rfind F Q m' k).
  Proof. intros HR. unfold rfind. inner HB m m' (Query [kcrit F k]) (HGkq k) HR H1. cbn; auto. Qed.

  Lemma rbulk_cong ks : forall m m', R m m' ->
    R (fst (rbulk F P m ks)) (fst (rbulk F Q m' ks)) /\ snd (rbulk F P m ks) = snd (rbulk F Q m' ks).
  Proof. induction ks as [|k r IH]; intros m m' HR; [cbn; auto|]. cbn [rbulk].
    destruct (rfind_cong m m' k HR) as [H1 H2]. destruct (rfind F P m k) as [m1 x]. destruct (rfind F Q m' k) as [n1 x']. cbn [fst snd] in *. subst x'.
    destruct x as [| |f e]; [cbn; auto| |].
    - destruct (IH m1 n1 H1) as [H3 H4]. destruct (rbulk F P m1 r) as [m2 y]. destruct (rbulk F Q n1 r) as [n2 y']. cbn [fst snd] in *. subst y'. auto.
    - destruct (IH m1 n1 H1) as [H3 H4]. destruct (rbulk F P m1 r) as [m2 y]. destruct (rbulk F Q n1 r) as [n2 y']. cbn [fst snd] in *. subst y'. auto.
  Qed.

  Definition b3rel (x : St P * N * option (list bop)) (y : St Q * N * option (list bop)) : Prop :=
    R (fst (fst x)) (fst (fst y)) /\ snd (fst x) = snd (fst y) /\ snd x = snd y.

  Lemma rbatch_cong b : forall m m' n res, R m m' -> b3rel (rbatch F P m n res b) (rbatch F Q m' n res b).
  Proof.
    induction b as [|[[k v] t] rest IH]; intros m m' n res HR; [unfold b3rel; cbn; auto|]. cbn [rbatch].
    assert (Hfin : forall m1 n1 fo, R m1 n1 ->
      b3rel (match fo with
             | None => (m1, n, None)
             | Some f => if v =? 0 then if f =? 0 then rbatch F P m1 n res rest
                                        else let '(m2, n2, y) := rbatch F P m1 n ((k, 0) :: res) rest in (m2, n2, option_map (cons (f, 0, [])) y)
                         else let f' := if f =? 0 then fresh n else f in
                              let n' := if f =? 0 then n + 1 else n in
                              let '(m2, n2, y) := rbatch F P m1 n' ((k, f') :: res) rest in (m2, n2, option_map (cons (f', fv F v, rfmt_tags F k t)) y)
             end)
            (match fo with
             | None => (n1, n, None)
             | Some f => if v =? 0 then if f =? 0 then rbatch F Q n1 n res rest
                                        else let '(m2, n2, y) := rbatch F Q n1 n ((k, 0) :: res) rest in (m2, n2, option_map (cons (f, 0, [])) y)
                         else let f' := if f =? 0 then fresh n else f in
                              let n' := if f =? 0 then n + 1 else n in
                              let '(m2, n2, y) := rbatch F Q n1 n' ((k, f') :: res) rest in (m2, n2, option_map (cons (f', fv F v, rfmt_tags F k t)) y)
             end)).
    { intros m1 n1 fo HR1. destruct fo as [f|]; [|unfold b3rel; cbn; auto]. destruct (v =? 0).
      - destruct (f =? 0); [apply IH; exact HR1|].
        destruct (IH m1 n1 n ((k, 0) :: res) HR1) as [A [B C]].
        destruct (rbatch F P m1 n ((k, 0) :: res) rest) as [[m2 n2] y]. destruct (rbatch F Q n1 n ((k, 0) :: res) rest) as [[m2' n2'] y'].
        cbn [fst snd] in *. subst. unfold b3rel. cbn; auto.
      - cbv zeta.
        destruct (IH m1 n1 (if f =? 0 then n + 1 else n) ((k, if f =? 0 then fresh n else f) :: res) HR1) as [A [B C]].
        destruct (rbatch F P m1 (if f =? 0 then n + 1 else n) ((k, if f =? 0 then fresh n else f) :: res) rest) as [[m2 n2] y].
        destruct (rbatch F Q n1 (if f =? 0 then n + 1 else n) ((k, if f =? 0 then fresh n else f) :: res) rest) as [[m2' n2'] y'].
        cbn [fst snd] in *. subst. unfold b3rel. cbn; auto. }
    destruct (res_lookup res k) as [f|].
    - exact (Hfin m m' (Some f) HR).
    - destruct (rfind_cong m m' k HR) as [H1 H2]. destruct (rfind F P m k) as [m1 x]. destruct (rfind F Q m' k) as [n1 x']. cbn [fst snd] in *. subst x'.
      exact (Hfin m1 n1 (match x with FErr => None | FNone => Some 0 | FOne f _ => Some f end) H1).
  Qed.

  (* what the batch handed down looks like, whatever the provider: no empty key, every element allowed below *)
  Lemma rbatch_out (X : prov) b : forall (m : St X) n res eo, forallb gbu b = true -> snd (rbatch F X m n res b) = Some eo ->
    forallb gb' eo = true /\ has_empty_key (map bop_key eo) = false.
  Proof.
    induction b as [|[[k v] t] rest IH]; intros m n res eo Hb He.
    - cbn in He. inversion He. split; reflexivity.
    - cbn [forallb] in Hb. apply andb_prop in Hb as [Hx Hr]. cbn [rbatch] in He.
      destruct (match res_lookup res k with
                | Some f => (m, Some f)
                | None => let '(m1, x) := rfind F X m k in (m1, match x with FErr => None | FNone => Some 0 | FOne f _ => Some f end)
                end) as [m1 fo].
      destruct fo as [f|]; [|discriminate]. destruct (v =? 0).
      + destruct (N.eqb_spec f 0) as [Ef|Ef]; [exact (IH m1 n res eo Hr He)|].
        destruct (rbatch F X m1 n ((k, 0) :: res) rest) as [[m2 n2] y] eqn:Er. cbn [snd] in He.
        destruct y as [eo'|]; [|discriminate]. cbn in He. inversion He; subst eo.
        destruct (IH m1 n ((k, 0) :: res) eo' Hr) as [A B]; [rewrite Er; reflexivity|].
        split; [cbn [forallb]; rewrite (Hgdel f), A; reflexivity|].
        unfold has_empty_key in *. cbn [map existsb bop_key fst]. rewrite B, orb_false_r. apply N.eqb_neq. intros E. apply Ef. symmetry. exact E.
      + cbv zeta in He.
        destruct (rbatch F X m1 (if f =? 0 then n + 1 else n) ((k, if f =? 0 then fresh n else f) :: res) rest) as [[m2 n2] y] eqn:Er. cbn [snd] in He.
        destruct y as [eo'|]; [|discriminate]. cbn in He. inversion He; subst eo.
        destruct (IH m1 _ _ eo' Hr (f_equal snd Er)) as [A B].
        split; [cbn [forallb]; rewrite (Hgput _ k v t Hx), A; reflexivity|].
        unfold has_empty_key in *. cbn [map existsb bop_key fst]. rewrite B, orb_false_r. apply N.eqb_neq. intros E.
        destruct (N.eqb_spec f 0) as [Ef|Ef]; [exact (fresh_nz n (eq_sym E))|apply Ef; symmetry; exact E].
  Qed.

  Lemma frand_cong : bisim G (formatted_rand true F P) (formatted_rand true F Q) (rrel R).
  Proof.
    intros [m n] [m' n'] o Ho [HR Hn]. cbn [fst snd] in HR, Hn. subst n'. unfold rrel.
    destruct o as [k v t|k|k|ks|q|k|b| |]; cbn [step formatted_rand frand_step].
    - destruct (valid_put k v t); [|cbn; auto].
      destruct (rfind_cong m m' k HR) as [H1 H2]. destruct (rfind F P m k) as [m1 x]. destruct (rfind F Q m' k) as [n1 x']. cbn [fst snd] in *. subst x'.
      destruct x as [| |f e]; [cbn; auto| |].
      + inner HB m1 n1 (Put (fresh n) (fv F v) (rfmt_tags F k t)) (HGput (fresh n) k v t Ho) H1 H3. cbn; auto.
      + inner HB m1 n1 (Put f (fv F v) (rfmt_tags F k t)) (HGput f k v t Ho) H1 H3. cbn; auto.
    - destruct (k =? 0); [cbn; auto|].
      destruct (rfind_cong m m' k HR) as [H1 H2]. destruct (rfind F P m k) as [m1 x]. destruct (rfind F Q m' k) as [n1 x']. cbn [fst snd] in *. subst x'. auto.
    - destruct (k =? 0); [cbn; auto|].
      destruct (rfind_cong m m' k HR) as [H1 H2]. destruct (rfind F P m k) as [m1 x]. destruct (rfind F Q m' k) as [n1 x']. cbn [fst snd] in *. subst x'. auto.
    - destruct (is_nil ks || has_empty_key ks); [cbn; auto|].
      destruct (rbulk_cong ks m m' HR) as [H1 H2]. destruct (rbulk F P m ks) as [m1 y]. destruct (rbulk F Q m' ks) as [n1 y']. cbn [fst snd] in *. subst y'. auto.
    - destruct q as [|c [|c2 q2]]; [cbn; auto| |apply HGw in Ho; cbn in Ho; try rewrite andb_false_r in Ho; discriminate].
      cbn [is_nil]. inner HB m m' (Query [fcrit F c]) (HGq c Ho) HR H1. cbn; auto.
    - destruct (k =? 0); [cbn; auto|].
      destruct (rfind_cong m m' k HR) as [H1 H2]. destruct (rfind F P m k) as [m1 x]. destruct (rfind F Q m' k) as [n1 x']. cbn [fst snd] in *. subst x'.
      destruct x as [| |f e]; [cbn; auto|cbn; auto|].
      inner HB m1 n1 (Delete f) (HGs (Delete f)) H1 H3. cbn; auto.
    - destruct (has_empty_key (map bop_key b)); [cbn; auto|].
      destruct (rbatch_cong b m m' n [] HR) as [A [B C]]. pose proof (rbatch_out P b m n []) as Hout.
      destruct (rbatch F P m n [] b) as [[m1 n1] y]. destruct (rbatch F Q m' n [] b) as [[m1' n1'] y']. cbn [fst snd] in *. subst n1' y'.
      destruct y as [eo|]; [|cbn; auto].
      destruct (true && negb (is_nil b) && is_nil eo); [cbn; auto|].
      destruct (Hout eo (HGbu b Ho) eq_refl) as [O1 O2].
      inner HB m1 m1' (Batch eo) (HGb eo O1 O2) A H3. cbn; auto.
    - inner HB m m' Flush (HGs Flush) HR H1. cbn; auto.
    - inner HB m m' Reopen (HGs Reopen) HR H1. cbn; auto.
  Qed.
End FrandCong.
