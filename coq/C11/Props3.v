(* C11 — property theorems, part 3: wrappers preserve observational equivalence of the provider below (congruence),
   LevelDB is equivariant under key / value / tag renaming, and therefore EVERY stack of caching, batching and
   deterministic-key formatting wrappers over LevelDB, of any depth and order, returns exactly what LevelDB itself
   returns on the unformatted content -- hence what the contract prescribes wherever LevelDB does
   (leveldb_refines_partial's guard, which leveldb_guard_exact shows to be exact). *)
From Coq Require Import List NArith ZArith Bool.
Import ListNotations.
From VF Require Import C11.Model C11.Proofs C11.ProofsL C11.ProofsF C11.ProofsO C11.ProofsE C11.Corr C11.ProofsS C11.ProofsT.
Local Open Scope N_scope.

(* ---------- a wrapper over two observationally equal providers gives two observationally equal providers ---------- *)
(* [bisim G P Q R]: from R-related states every operation allowed by G returns the same result on P and on Q and leads
   to R-related states.  cachedstore (fill with or without tags), any provider pair: *)
Theorem cached_congruence : forall G f (P Q : prov) R,
  (forall k, G (GetTags k) = true) -> bisim G P Q R -> bisim G (cached f P) (cached f Q) (crel R).
Proof. exact cached_cong. Qed.
Print Assumptions cached_congruence.

(* batchedstore, any limit: the queue is part of the related state *)
Theorem batched_congruence : forall G l (P Q : prov) R,
  (forall q, forallb gq1 q = true -> q <> [] -> G (Batch q) = true) -> (forall o, G o = true -> wf_op o = true) ->
  G Flush = true -> G Reopen = true -> bisim G P Q R -> bisim G (batched l P) (batched l Q) (brel R).
Proof. exact batched_cong. Qed.
Print Assumptions batched_congruence.

(* formattedstore with deterministic keys, ANY formatter (no injectivity needed: both sides format alike) *)
Theorem formatted_det_congruence : forall F (P Q : prov) R,
  bisim wf1_op P Q R -> (forall b, wf1_op (Batch b) = true -> wf1_op (Batch (map (fbop F) b)) = true) ->
  bisim wf1_op (formatted_det F P) (formatted_det F Q) R.
Proof. intros F P Q R HB Hb. apply (fdet_cong F wf1_op wf1_op); auto. intros o; destruct o; auto. Qed.
Print Assumptions formatted_det_congruence.

(* equal results for whole histories *)
Theorem bisim_histories : forall G (P Q : prov) R, bisim G P Q R ->
  forall ops s t, forallb G ops = true -> R s t -> run P s ops = run Q t ops.
Proof. exact bisim_run. Qed.
Print Assumptions bisim_histories.

(* ---------- LevelDB under renaming ---------- *)
(* For ANY formatter that is injective on keys / tag names / tag values, reversible and keeps the empty string (fmt_ok),
   and ANY LevelDB content m (entries AND TagMap index, stale index entries included): formattedstore with deterministic
   keys over the LevelDB that holds the formatted image [ren F m] returns for every history exactly what LevelDB returns
   on m.  Guard lgq: single-criterion queries ("&&" is not implemented by either), batches without ':' tags and with an
   empty key at most in first position. *)
Theorem formatted_over_leveldb : forall F, fmt_ok F -> forall ops (m : St leveldb),
  forallb lgq ops = true -> run (formatted_det F leveldb) (ren F m) ops = run leveldb m ops.
Proof. intros F OK ops m Hops. apply (bisim_run lgq _ _ _ (fdet_over_ldb F OK)); [exact Hops|reflexivity]. Qed.
Print Assumptions formatted_over_leveldb.

(* the one-step form: the state after the step is again the formatted image *)
Theorem leveldb_equivariant : forall F, fmt_ok F -> forall (m : St leveldb) o, lgq o = true ->
  fst (step (formatted_det F leveldb) (ren F m) o) = ren F (fst (step leveldb m o)) /\
  snd (step (formatted_det F leveldb) (ren F m) o) = snd (step leveldb m o).
Proof. intros F OK m o Ho. exact (fdet_over_ldb F OK (ren F m) m o Ho eq_refl). Qed.
Print Assumptions leveldb_equivariant.

(* ---------- stacks of any depth and order over LevelDB ---------- *)
(* [ldb_stack s]: caching, batching (any limit) and deterministic-key formatting (no-op / base64) layers over LevelDB.
   [lift s m]: new wrapper objects over the database that holds the content m (formatted by the layers of s). *)
Theorem any_stack_over_leveldb : forall s ops (m : St leveldb), ldb_stack s = true -> forallb lgq ops = true ->
  wf_store (fst m) -> run (prov_of s) (lift s m) ops = run leveldb m ops.
Proof. intros s ops m Hs Hops Hw. exact (ldb_stack_run s Hs ops m Hops Hw). Qed.
Print Assumptions any_stack_over_leveldb.

Corollary any_stack_over_leveldb_from_empty : forall s ops, ldb_stack s = true -> forallb lgq ops = true ->
  run (prov_of s) (init (prov_of s)) ops = run leveldb (init leveldb) ops.
Proof. intros s ops Hs Hops. rewrite <- (lift_init s Hs). apply ldb_stack_run; [exact Hs|exact Hops|apply wf_store_nil]. Qed.
Print Assumptions any_stack_over_leveldb_from_empty.

(* flushing the top store and building new wrapper objects over the populated database, at any point *)
Theorem any_stack_over_leveldb_rewrap : forall s pre ops, ldb_stack s = true ->
  forallb lgq pre = true -> forallb lgq ops = true ->
  run (prov_of s) (rewrap s (run_state (prov_of s) (init (prov_of s)) pre)) ops =
  run leveldb (run_state leveldb (init leveldb) pre) ops.
Proof. intros s pre ops Hs Hpre Hops. exact (ldb_stack_rewrap_run s Hs pre ops Hpre Hops). Qed.
Print Assumptions any_stack_over_leveldb_rewrap.

(* ... hence the contract, wherever LevelDB follows it: PARTIAL only through LevelDB's own guard (ldb_run_ok excludes
   exactly the name-only queries that hit a stale index, leveldb_guard_exact) *)
Theorem any_stack_over_leveldb_refines_partial : forall s ops (m : St leveldb), ldb_stack s = true ->
  forallb lgq ops = true -> wf_store (fst m) -> ldb_inv m -> ldb_run_ok m ops = true ->
  run (prov_of s) (lift s m) ops = run (spec_prov true) (fst m) ops.
Proof. intros s ops m Hs Hops Hw Hi Hg. rewrite (ldb_stack_run s Hs ops m Hops Hw). exact (ldb_run_refines ops m Hi Hg). Qed.
Print Assumptions any_stack_over_leveldb_refines_partial.

Corollary any_stack_over_leveldb_refines_partial_from_empty : forall s ops, ldb_stack s = true ->
  forallb lgq ops = true -> ldb_run_ok (init leveldb) ops = true ->
  run (prov_of s) (init (prov_of s)) ops = run (spec_prov true) [] ops.
Proof. intros s ops Hs Hops Hg. rewrite <- (lift_init s Hs).
  exact (any_stack_over_leveldb_refines_partial s ops (init leveldb) Hs Hops wf_store_nil ldb_inv_init Hg). Qed.
Print Assumptions any_stack_over_leveldb_refines_partial_from_empty.

(* non-vacuity: base64 formatting over batching over caching over LevelDB; the history contains the stale-index answer
   (inherited as it is), an overwrite, a batch with put-delete-put of one key, a re-open; and the same stack over a
   populated database *)
Example ldb_stack_nonvacuous :
  let s := SFmt FB64 (SBatched 2 (SCached SLevel)) in
  let ops := [Put 1 1 [(1, 1)]; Put 1 2 []; Query [(1, 0)]; Batch [(2, 3, [(1, 2)]); (2, 0, []); (2, 4, [(2, 2)]); (1, 0, [])];
              Query [(1, 0)]; Query [(2, 2)]; GetTags 2; Reopen; Get 2; GetBulk [1; 2]] in
  let m : St leveldb := ([(1, (7, [(2, 3)]))], [(2, [1]); (1, [1])]) in
  ldb_stack s = true /\ forallb lgq ops = true /\ wf_store (fst m) /\
  run (prov_of s) (init (prov_of s)) ops = run leveldb (init leveldb) ops /\
  run (prov_of s) (lift s m) ops = run leveldb m ops /\
  run leveldb (init leveldb) ops =
  [ODone; ODone; OQuery [(1, (2, []))]; ODone; OQuery []; OQuery [(2, (4, [(2, 2)]))]; OTags [(2, 2)]; ODone; OVal 4; OBulk [0; 4]] /\
  fst (lift s m) = (([(101, (107, [(102, 103)]))], [(102, [101]); (101, [101])]), []).
Proof. cbv zeta. split; [reflexivity|]. split; [reflexivity|]. split; [|repeat split; vm_compute; reflexivity].
  intros k e H. cbn in H. destruct (k =? 1); [|discriminate]. inversion H. split; [discriminate|reflexivity]. Qed.
