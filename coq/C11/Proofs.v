(* C11 — lemmas: store algebra, simulation into the contract, the in-memory provider, the caching wrapper. *)
From Coq Require Import List NArith ZArith Bool Lia.
Import ListNotations.
From VF Require Import C11.Model.
Local Open Scope N_scope.

(* ---------- store algebra ---------- *)
Lemma lookup_remove_same s k : lookup (remove s k) k = None.
Proof. induction s as [|[k' e] r IH]; cbn; [reflexivity|]. destruct (N.eqb_spec k k'); [assumption|].
  cbn. destruct (N.eqb_spec k k'); [contradiction|assumption]. Qed.
Lemma lookup_remove_other s k k' : k <> k' -> lookup (remove s k') k = lookup s k.
Proof. intros Hne. induction s as [|[k2 e] r IH]; cbn; [reflexivity|].
  destruct (N.eqb_spec k' k2) as [->|H2].
  - destruct (N.eqb_spec k k2); [contradiction|assumption].
  - cbn. destruct (N.eqb_spec k k2); [reflexivity|assumption]. Qed.
Lemma lookup_put_same s k e : lookup (put s k e) k = Some e.
Proof. unfold put; cbn. rewrite N.eqb_refl. reflexivity. Qed.
Lemma lookup_put_other s k k' e : k <> k' -> lookup (put s k' e) k = lookup s k.
Proof. intros H. unfold put; cbn. destruct (N.eqb_spec k k'); [contradiction|]. apply lookup_remove_other; assumption. Qed.

(* ---------- well-formed operations: a Batch carries no tag with ':' (Put rejects them; what Batch does with them is
   not prescribed and differs between stores) ---------- *)
Definition wf_bop (b : bop) : bool := negb (existsb bad_tag (snd b)).
Definition wf_op (o : op) : bool := match o with Batch b => forallb wf_bop b | _ => true end.
(* ... and, for stores that do not implement the optional "&&" expressions, a query has one criterion *)
Definition wf1_op (o : op) : bool := wf_op o && match o with Query (_ :: _ :: _) => false | _ => true end.

Definition wf_entry (e : entry) : Prop := fst e <> 0 /\ existsb bad_tag (snd e) = false.
Definition wf_store (a : store) : Prop := forall k e, lookup a k = Some e -> wf_entry e.

Lemma wf_store_nil : wf_store [].
Proof. intros k e H; discriminate. Qed.
Lemma wf_store_remove a k : wf_store a -> wf_store (remove a k).
Proof. intros H k' e Hl. destruct (N.eq_dec k' k) as [->|Hne].
  - rewrite lookup_remove_same in Hl; discriminate.
  - rewrite lookup_remove_other in Hl by assumption. eapply H; eassumption. Qed.
Lemma wf_store_put a k e : wf_store a -> wf_entry e -> wf_store (put a k e).
Proof. intros H He k' e' Hl. destruct (N.eq_dec k' k) as [->|Hne].
  - rewrite lookup_put_same in Hl. inversion Hl; subst; assumption.
  - rewrite lookup_put_other in Hl by assumption. eapply H; eassumption. Qed.
Lemma wf_store_bop a b : wf_store a -> wf_bop b = true -> wf_store (apply_bop a b).
Proof. destruct b as [[k v] t]. intros H Hb. unfold apply_bop. destruct (N.eqb_spec v 0).
  - apply wf_store_remove; assumption.
  - apply wf_store_put; [assumption|]. split; cbn; [assumption|]. unfold wf_bop in Hb; cbn in Hb.
    destruct (existsb bad_tag t); [discriminate|reflexivity]. Qed.
Lemma wf_store_batch b : forall a, wf_store a -> forallb wf_bop b = true -> wf_store (apply_batch a b).
Proof. unfold apply_batch. induction b as [|x r IH]; intros a H Hb; cbn; [assumption|].
  cbn in Hb. apply andb_prop in Hb as [Hx Hr]. apply IH; [apply wf_store_bop; assumption|assumption]. Qed.
Lemma valid_put_wf k v t : valid_put k v t = true -> wf_entry (v, t).
Proof. unfold valid_put. intros H. apply andb_prop in H as [H Ht]. apply andb_prop in H as [_ Hv].
  split; cbn.
  - intros ->. discriminate.
  - destruct (existsb bad_tag t); [discriminate|reflexivity]. Qed.

Lemma spec_step_wf pers a o : wf_op o = true -> wf_store a -> wf_store (fst (spec_step pers a o)).
Proof. intros Ho Ha. destruct o as [k v t|k|k|ks|q|k|b| |]; cbn.
  - destruct (valid_put k v t) eqn:E; cbn; [|assumption]. apply wf_store_put; [assumption|apply (valid_put_wf k); assumption].
  - destruct (k =? 0); assumption.
  - destruct (k =? 0); assumption.
  - destruct (is_nil ks || has_empty_key ks); assumption.
  - destruct (is_nil q); assumption.
  - destruct (k =? 0); cbn; [assumption|apply wf_store_remove; assumption].
  - destruct (is_nil b || has_empty_key (map bop_key b)); cbn; [assumption|]. apply wf_store_batch; assumption.
  - assumption.
  - destruct pers; [assumption|apply wf_store_nil]. Qed.

(* ---------- simulation of a provider into the contract, under a guard on the operations ---------- *)
Definition sim (G : op -> bool) (pers : bool) (P : prov) (R : St P -> store -> Prop) : Prop :=
  forall s a o, G o = true -> R s a ->
    R (fst (step P s o)) (fst (spec_step pers a o)) /\ snd (step P s o) = snd (spec_step pers a o).

Lemma sim_run G pers P R : sim G pers P R ->
  forall ops s a, forallb G ops = true -> R s a -> run P s ops = run (spec_prov pers) a ops.
Proof. intros HP. induction ops as [|o r IH]; intros s a HG HR; [reflexivity|]. cbn in HG. apply andb_prop in HG as [Ho Hr].
  cbn. pose proof (HP s a o Ho HR) as [HR' Hx].
  destruct (step P s o) as [s' x]. destruct (spec_step pers a o) as [a' x']. cbn in *. subst x'. f_equal. apply IH; assumption. Qed.

Lemma sim_run_state G pers P R : sim G pers P R ->
  forall ops s a, forallb G ops = true -> R s a -> R (run_state P s ops) (run_state (spec_prov pers) a ops).
Proof. intros HP. induction ops as [|o r IH]; intros s a HG HR; [assumption|]. cbn in HG. apply andb_prop in HG as [Ho Hr].
  cbn. apply IH; [assumption|]. apply (HP s a o Ho HR). Qed.

Lemma sim_weaken (G G' : op -> bool) pers P R : (forall o, G' o = true -> G o = true) -> sim G pers P R -> sim G' pers P R.
Proof. intros HG H s a o Ho HR. apply H; [apply HG; assumption|assumption]. Qed.

(* ---------- the in-memory provider (repaired Query) IS the contract with non-persistent Close ---------- *)
Lemma mem_step_spec s o : mem_step true s o = spec_step false s o.
Proof. destruct o; reflexivity. Qed.
Lemma mem_sim G : sim G false (mem true) eq.
Proof. intros s a o _ ->. cbn [step mem]. rewrite mem_step_spec. split; reflexivity. Qed.

Ltac fin := split; [split; [|split]|]; try assumption; try reflexivity.

(* ---------- the caching wrapper ---------- *)
Definition cache_ok (c a : store) : Prop := forall k e, lookup c k = Some e -> lookup a k = Some e.

Lemma cache_ok_nil a : cache_ok [] a.
Proof. intros k e H; discriminate. Qed.
Lemma cache_ok_remove c a k : cache_ok c a -> cache_ok (remove c k) (remove a k).
Proof. intros H k' e Hl. destruct (N.eq_dec k' k) as [->|Hne].
  - rewrite lookup_remove_same in Hl; discriminate.
  - rewrite lookup_remove_other in * by assumption. apply H; assumption. Qed.
Lemma cache_ok_put c a k e : cache_ok c a -> cache_ok (put c k e) (put a k e).
Proof. intros H k' e' Hl. destruct (N.eq_dec k' k) as [->|Hne].
  - rewrite lookup_put_same in *. assumption.
  - rewrite lookup_put_other in * by assumption. apply H; assumption. Qed.
Lemma cache_ok_put_fill c a k e : cache_ok c a -> lookup a k = Some e -> cache_ok (put c k e) a.
Proof. intros H Ha k' e' Hl. destruct (N.eq_dec k' k) as [->|Hne].
  - rewrite lookup_put_same in Hl. inversion Hl; subst. assumption.
  - rewrite lookup_put_other in Hl by assumption. apply H; assumption. Qed.
Lemma cache_ok_batch b : forall c a, cache_ok c a -> cache_ok (apply_batch c b) (apply_batch a b).
Proof. unfold apply_batch. induction b as [|[[k v] t] r IH]; intros c a H; cbn; [assumption|].
  apply IH. destruct (v =? 0); [apply cache_ok_remove|apply cache_ok_put]; assumption. Qed.

Lemma cache_get c k : snd (cstep_mem c (Get k)) =
  if k =? 0 then OErr else match lookup c k with Some (v, _) => OVal v | None => ONotFound end.
Proof. unfold cstep_mem. rewrite mem_step_spec. cbn. destruct (k =? 0); reflexivity. Qed.
Lemma cache_gettags c k : snd (cstep_mem c (GetTags k)) =
  if k =? 0 then OErr else match lookup c k with Some (_, t) => OTags t | None => ONotFound end.
Proof. unfold cstep_mem. rewrite mem_step_spec. cbn. destruct (k =? 0); reflexivity. Qed.
Lemma cache_put c k v t : valid_put k v t = true -> cstep_mem c (Put k v t) = (put c k (v, t), ODone).
Proof. intros H. unfold cstep_mem. rewrite mem_step_spec. cbn. rewrite H. reflexivity. Qed.

Definition cached_rel {P : prov} (R : St P -> store -> Prop) (s : St (cached true P)) (a : store) : Prop :=
  R (fst s) a /\ cache_ok (snd s) a /\ wf_store a.

Lemma bad_tags_invalid k v t : existsb bad_tag t = true -> valid_put k v t = false.
Proof. intros H. unfold valid_put. rewrite H. cbn. apply andb_false_r. Qed.

Lemma cached_sim (G : op -> bool) pers (P : prov) R :
  (forall o, G o = true -> wf_op o = true) -> (forall k, G (GetTags k) = true) ->
  sim G pers P R -> sim G pers (cached true P) (cached_rel R).
Proof.
  intros HGwf HGt HP [m c] a o Ho [HR [Hc Hw]]. cbn [fst snd] in HR, Hc.
  pose proof (HGwf o Ho) as Hwfo.
  assert (Hw' : wf_store (fst (spec_step pers a o))) by (apply spec_step_wf; assumption).
  pose proof (HP m a o Ho HR) as [HR1 Hx1].
  unfold cached_rel. cbn [step cached cached_step].
  destruct o as [k v t|k|k|ks|q|k|b| |].
  - (* Put *)
    destruct (existsb bad_tag t) eqn:Eb.
    + cbn [spec_step]. rewrite (bad_tags_invalid k v t Eb). cbn. fin.
    + destruct (step P m (Put k v t)) as [m1 r]. cbn [fst snd] in HR1, Hx1. subst r.
      cbn [spec_step] in *. unfold cstep_mem. rewrite mem_step_spec. cbn [spec_step].
      destruct (valid_put k v t) eqn:Ev; cbn.
      * fin. apply cache_ok_put; assumption.
      * fin.
  - (* Get *)
    rewrite cache_get. cbn [spec_step] in *. destruct (k =? 0) eqn:Ek.
    + cbn. fin.
    + cbn [fst snd] in *. destruct (lookup c k) as [[cv ct]|] eqn:Hl.
      * cbn. rewrite (Hc _ _ Hl). fin.
      * destruct (step P m (Get k)) as [m1 r]. cbn [fst snd] in HR1, Hx1. subst r.
        destruct (lookup a k) as [[v t]|] eqn:Ha.
        -- pose proof (HP m1 a (GetTags k) (HGt k) HR1) as [HR2 Hx2].
           destruct (step P m1 (GetTags k)) as [m2 rt]. cbn [fst snd spec_step] in HR2, Hx2.
           rewrite Ek in HR2, Hx2. rewrite Ha in Hx2. cbn [fst snd] in HR2, Hx2. subst rt.
           destruct (Hw _ _ Ha) as [Hv Ht]. cbn [fst snd] in Hv, Ht.
           assert (Evp : valid_put k v t = true).
           { unfold valid_put. rewrite Ht, Ek. destruct (N.eqb_spec v 0); [contradiction|]. reflexivity. }
           rewrite (cache_put c k v t Evp). cbn. fin. apply cache_ok_put_fill; assumption.
        -- cbn. fin.
  - (* GetTags *)
    rewrite cache_gettags. cbn [spec_step] in *. destruct (k =? 0) eqn:Ek.
    + cbn. fin.
    + cbn [fst snd] in *. destruct (lookup c k) as [[cv ct]|] eqn:Hl.
      * cbn. rewrite (Hc _ _ Hl). fin.
      * destruct (step P m (GetTags k)) as [m1 r]. cbn [fst snd] in HR1, Hx1. subst r.
        cbn. fin. destruct (lookup a k) as [[v t]|]; reflexivity.
  - (* GetBulk *)
    destruct (step P m (GetBulk ks)) as [m1 r]. cbn [fst snd] in HR1, Hx1. subst r. cbn [spec_step] in *.
    destruct (is_nil ks || has_empty_key ks); cbn; fin.
  - (* Query *)
    destruct (step P m (Query q)) as [m1 r]. cbn [fst snd] in HR1, Hx1. subst r. cbn [spec_step] in *.
    destruct (is_nil q); cbn; fin.
  - (* Delete *)
    destruct (step P m (Delete k)) as [m1 r]. cbn [fst snd] in HR1, Hx1. subst r.
    unfold cstep_mem. rewrite mem_step_spec. cbn [spec_step] in *.
    destruct (k =? 0); cbn; fin. apply cache_ok_remove; assumption.
  - (* Batch *)
    destruct (step P m (Batch b)) as [m1 r]. cbn [fst snd] in HR1, Hx1. subst r.
    unfold cstep_mem. rewrite mem_step_spec. cbn [spec_step] in *.
    destruct (is_nil b || has_empty_key (map bop_key b)); cbn; fin. apply cache_ok_batch; assumption.
  - (* Flush *)
    destruct (step P m Flush) as [m1 r]. cbn [fst snd] in HR1, Hx1. subst r.
    cbn. fin.
  - (* Reopen *)
    destruct (step P m Reopen) as [m1 r]. cbn [fst snd] in HR1, Hx1. subst r.
    cbn. fin. apply cache_ok_nil.
Qed.

(* new cache over a provider that already holds data: the relation holds with an empty cache *)
Lemma cached_rel_fresh (P : prov) (R : St P -> store -> Prop) m c a :
  cached_rel R (m, c) a -> cached_rel R (m, []) a.
Proof. intros [H1 [_ H3]]. split; [exact H1|split; [apply cache_ok_nil|exact H3]]. Qed.
