(* C11 — lemmas: observational equivalence of two providers (a one-step bisimulation), the three wrappers as
   CONGRUENCES for it (a wrapper over two equivalent providers gives two equivalent providers), and the equivariance of
   the LevelDB model under an injective, reversible renaming of keys / values / tag names / tag values: formattedstore
   with deterministic keys over a LevelDB that holds the formatted image of a content behaves exactly like LevelDB on
   that content (stale TagMap index included). *)
From Coq Require Import List NArith ZArith Bool Lia.
Import ListNotations.
From VF Require Import C11.Model C11.Proofs C11.ProofsL C11.ProofsF C11.ProofsO.
Local Open Scope N_scope.

Definition bisim (G : op -> bool) (P Q : prov) (R : St P -> St Q -> Prop) : Prop :=
  forall s t o, G o = true -> R s t ->
    R (fst (step P s o)) (fst (step Q t o)) /\ snd (step P s o) = snd (step Q t o).

Lemma bisim_run G P Q R : bisim G P Q R ->
  forall ops s t, forallb G ops = true -> R s t -> run P s ops = run Q t ops.
Proof. intros HB. induction ops as [|o r IH]; intros s t HG HR; [reflexivity|]. cbn in HG. apply andb_prop in HG as [Ho Hr].
  cbn. pose proof (HB s t o Ho HR) as [HR' Hx].
  destruct (step P s o) as [s' x]. destruct (step Q t o) as [t' x']. cbn in *. subst x'. f_equal. apply IH; assumption. Qed.

Lemma bisim_run_state G P Q R : bisim G P Q R ->
  forall ops s t, forallb G ops = true -> R s t -> R (run_state P s ops) (run_state Q t ops).
Proof. intros HB. induction ops as [|o r IH]; intros s t HG HR; [assumption|]. cbn in HG. apply andb_prop in HG as [Ho Hr].
  cbn. apply IH; [assumption|]. apply (HB s t o Ho HR). Qed.

Definition rcomp {A B C : Type} (R1 : A -> B -> Prop) (R2 : B -> C -> Prop) (a : A) (c : C) : Prop :=
  exists b, R1 a b /\ R2 b c.

Lemma bisim_trans G P Q U R1 R2 : bisim G P Q R1 -> bisim G Q U R2 -> bisim G P U (rcomp R1 R2).
Proof. intros H1 H2 s u o Ho [t [Ha Hb]]. destruct (H1 s t o Ho Ha) as [A1 A2]. destruct (H2 t u o Ho Hb) as [B1 B2].
  split; [exists (fst (step Q t o)); split; assumption|congruence]. Qed.

Lemma bisim_refl G P : bisim G P P eq.
Proof. intros s t o _ ->. split; reflexivity. Qed.

(* one inner call, on related states *)
Ltac inner HB m m' o Ho HR H1 :=
  let E := fresh "E" in
  pose proof (HB m m' o Ho HR) as [H1 E];
  match type of E with snd ?a = snd ?b => destruct a as [?m1 ?r]; destruct b as [?n1 ?r'] end;
  cbn [fst snd] in H1, E; subst.

(* ---------- cachedstore ---------- *)
Definition crel {P Q : prov} (R : St P -> St Q -> Prop) (s : cstate P) (t : cstate Q) : Prop :=
  R (fst s) (fst t) /\ snd s = snd t.

Lemma cached_cong G f P Q R : (forall k, G (GetTags k) = true) -> bisim G P Q R ->
  bisim G (cached f P) (cached f Q) (crel R).
Proof.
  intros HGt HB [m c] [m' c'] o Ho [HR Hc]. cbn [fst snd] in HR, Hc. subst c'. unfold crel.
  destruct o as [k v t|k|k|ks|q|k|b| |]; cbn [step cached cached_step].
  - destruct (existsb bad_tag t); [cbn; auto|]. inner HB m m' (Put k v t) Ho HR H1.
    destruct (is_done r'); [destruct (cstep_mem c (Put k v t)) as [c1 rc]|]; cbn; auto.
  - destruct (snd (cstep_mem c (Get k))); cbn [fst snd]; auto.
    inner HB m m' (Get k) Ho HR H1. destruct r'; cbn [fst snd]; auto.
    destruct f.
    + inner HB m1 n1 (GetTags k) (HGt k) H1 H2. destruct r'; cbn [fst snd]; auto.
      destruct (cstep_mem c (Put k v t)) as [c1 rc]. cbn; auto.
    + destruct (cstep_mem c (Put k v [])) as [c1 rc]. cbn; auto.
  - destruct (snd (cstep_mem c (GetTags k))); cbn [fst snd]; auto.
    inner HB m m' (GetTags k) Ho HR H1. cbn; auto.
  - inner HB m m' (GetBulk ks) Ho HR H1. cbn; auto.
  - inner HB m m' (Query q) Ho HR H1. cbn; auto.
  - inner HB m m' (Delete k) Ho HR H1.
    destruct (is_done r'); [destruct (cstep_mem c (Delete k)) as [c1 rc]|]; cbn; auto.
  - inner HB m m' (Batch b) Ho HR H1.
    destruct (is_done r'); [destruct (cstep_mem c (Batch b)) as [c1 rc]|]; cbn; auto.
  - inner HB m m' Flush Ho HR H1.
    destruct (is_done r'); [destruct (cstep_mem c Flush) as [c1 rc]|]; cbn; auto.
  - inner HB m m' Reopen Ho HR H1. cbn; auto.
Qed.

(* ---------- batchedstore ---------- *)
Definition brel {P Q : prov} (R : St P -> St Q -> Prop) (s : bstate P) (t : bstate Q) : Prop :=
  R (fst s) (fst t) /\ snd s = snd t /\ forallb gq1 (snd s) = true.

Section BatchedCong.
  Variable G : op -> bool.
  Variable l : Z.
  Variables P Q : prov.
  Variable R : St P -> St Q -> Prop.
  Hypothesis HGq : forall q, forallb gq1 q = true -> q <> [] -> G (Batch q) = true.
  Hypothesis HGwf : forall o, G o = true -> wf_op o = true.
  Hypothesis HGf : G Flush = true.
  Hypothesis HGr : G Reopen = true.
  Hypothesis HB : bisim G P Q R.

  Lemma bflush_cong s t : brel R s t ->
    brel R (fst (bflush P s)) (fst (bflush Q t)) /\ snd (bflush P s) = snd (bflush Q t).
  Proof. destruct s as [m q], t as [m' q']. intros [HR [Hq Hg]]. cbn [fst snd] in *. subst q'. unfold bflush.
    destruct q as [|x r]; [unfold brel; cbn; auto|].
    assert (Ho : G (Batch (x :: r)) = true) by (apply HGq; [exact Hg|discriminate]).
    inner HB m m' (Batch (x :: r)) Ho HR H1. destruct (is_done r'); unfold brel; cbn [fst snd]; auto. Qed.

  Lemma benqueue_cong s t b : gq1 b = true -> brel R s t ->
    brel R (fst (benqueue l P s b)) (fst (benqueue l Q t b)) /\ snd (benqueue l P s b) = snd (benqueue l Q t b).
  Proof. destruct s as [m q], t as [m' q']. intros Hb [HR [Hq Hg]]. cbn [fst snd] in *. subst q'. unfold benqueue.
    assert (Hg1 : forallb gq1 (q ++ [b]) = true) by (rewrite forallb_app, Hg; cbn; rewrite Hb; reflexivity).
    destruct (Z.leb l (Z.of_nat (length (q ++ [b])))).
    - apply bflush_cong. unfold brel. cbn [fst snd]. auto.
    - unfold brel. cbn [fst snd]. auto. Qed.

  Lemma benqueue_all_cong b : forall s t, forallb gq1 b = true -> brel R s t ->
    brel R (fst (benqueue_all l P s b)) (fst (benqueue_all l Q t b)) /\ snd (benqueue_all l P s b) = snd (benqueue_all l Q t b).
  Proof. induction b as [|x r IH]; intros s t Hb HR; [cbn; auto|]. cbn in Hb. apply andb_prop in Hb as [Hx Hr].
    cbn [benqueue_all]. destruct (benqueue_cong s t x Hx HR) as [H1 H2].
    destruct (benqueue l P s x) as [s1 y]. destruct (benqueue l Q t x) as [t1 y']. cbn [fst snd] in *. subst y'.
    destruct (is_done y); [apply IH; assumption|cbn; auto]. Qed.

  Lemma bread_cong s t o : G o = true -> brel R s t ->
    brel R (fst (bread P s o)) (fst (bread Q t o)) /\ snd (bread P s o) = snd (bread Q t o).
  Proof. intros Ho HR. unfold bread. destruct (bflush_cong s t HR) as [H1 H2].
    destruct (bflush P s) as [s1 y]. destruct (bflush Q t) as [t1 y']. cbn [fst snd] in *. subst y'.
    destruct (is_done y); [|cbn; auto]. destruct H1 as [A [B C]].
    inner HB (fst s1) (fst t1) o Ho A H3. unfold brel. cbn [fst snd]. auto. Qed.

  Lemma batched_cong : bisim G (batched l P) (batched l Q) (brel R).
  Proof.
    intros s t o Ho HR. pose proof (HGwf o Ho) as Hwf.
    destruct o as [k v tg|k|k|ks|q|k|b| |]; cbn [step batched batched_step].
    - destruct (valid_put k v tg) eqn:Ev; [|cbn; auto]. apply benqueue_cong; [|exact HR].
      unfold gq1. destruct (valid_put_wf k v tg Ev) as [_ Ht]. unfold wf_bop. cbn in *. rewrite Ht. cbn.
      unfold valid_put in Ev. destruct (k =? 0); [discriminate|reflexivity].
    - apply bread_cong; assumption.
    - apply bread_cong; assumption.
    - apply bread_cong; assumption.
    - apply bread_cong; assumption.
    - destruct (k =? 0) eqn:Ek; [cbn; auto|]. apply benqueue_cong; [|exact HR]. unfold gq1. cbn. rewrite Ek. reflexivity.
    - destruct (is_nil b || has_empty_key (map bop_key b)) eqn:E; [cbn; auto|]. apply orb_false_elim in E as [_ E2].
      apply benqueue_all_cong; [|exact HR]. cbn [wf_op] in Hwf. clear - Hwf E2. unfold has_empty_key in E2.
      induction b as [|x r IH]; [reflexivity|]. cbn [forallb map existsb] in *. apply andb_prop in Hwf as [H1 H2].
      apply orb_false_elim in E2 as [H3 H4]. rewrite (IH H2 H4), andb_true_r. unfold gq1. rewrite H1, (N.eqb_sym (bop_key x) 0), H3. reflexivity.
    - destruct (bflush_cong s t HR) as [H1 H2].
      destruct (bflush P s) as [s1 y]. destruct (bflush Q t) as [t1 y']. cbn [fst snd] in *. subst y'.
      destruct (is_done y); [|cbn; auto]. destruct H1 as [A [B C]].
      inner HB (fst s1) (fst t1) Flush HGf A H3. unfold brel. cbn [fst snd]. auto.
    - destruct (bflush_cong s t HR) as [H1 H2].
      destruct (bflush P s) as [s1 y]. destruct (bflush Q t) as [t1 y']. cbn [fst snd] in *. subst y'. destruct H1 as [A [B C]].
      destruct (is_done y); [|unfold brel; cbn; auto].
      inner HB (fst s1) (fst t1) Flush HGf A H3. destruct (is_done r'); [|unfold brel; cbn; auto].
      inner HB m1 n1 Reopen HGr H3 H4. unfold brel. cbn; auto.
  Qed.
End BatchedCong.

(* ---------- formattedstore, deterministic keys ---------- *)
Section FdetCong.
  Variable F : formatter.
  Variables G G' : op -> bool.
  Variables P Q : prov.
  Variable R : St P -> St Q -> Prop.
  Hypothesis HGw : forall o, G o = true -> wf1_op o = true.
  Hypothesis HGput : forall k v t, G (Put k v t) = true -> G' (Put (fk F k) (fv F v) (map (fmt_tag F) t)) = true.
  Hypothesis HGq : forall c, G (Query [c]) = true -> G' (Query [fcrit F c]) = true.
  Hypothesis HGb : forall b, G (Batch b) = true -> G' (Batch (map (fbop F) b)) = true.
  Hypothesis HGs : forall o, match o with Get _ | GetTags _ | GetBulk _ | Delete _ | Flush | Reopen => G' o = true | _ => True end.
  Hypothesis HB : bisim G' P Q R.

  Lemma fdet_cong : bisim G (formatted_det F P) (formatted_det F Q) R.
  Proof.
    intros m m' o Ho HR. destruct o as [k v t|k|k|ks|q|k|b| |]; cbn [step formatted_det fdet_step].
    - destruct (valid_put k v t); [|cbn; auto]. inner HB m m' (Put (fk F k) (fv F v) (map (fmt_tag F) t)) (HGput k v t Ho) HR H1. cbn; auto.
    - destruct (k =? 0); [cbn; auto|]. inner HB m m' (Get (fk F k)) (HGs (Get (fk F k))) HR H1. cbn; auto.
    - destruct (k =? 0); [cbn; auto|]. inner HB m m' (GetTags (fk F k)) (HGs (GetTags (fk F k))) HR H1.
      destruct r'; cbn [fst snd]; auto. inner HB m1 n1 (Get (fk F k)) (HGs (Get (fk F k))) H1 H2. cbn; auto.
    - destruct (is_nil ks || has_empty_key ks); [cbn; auto|].
      inner HB m m' (GetBulk (map (fk F) ks)) (HGs (GetBulk (map (fk F) ks))) HR H1. cbn; auto.
    - destruct q as [|c [|c2 q2]]; [cbn; auto| |apply HGw in Ho; cbn in Ho; try rewrite andb_false_r in Ho; discriminate].
      cbn [is_nil]. inner HB m m' (Query [fcrit F c]) (HGq c Ho) HR H1. cbn; auto.
    - destruct (k =? 0); [cbn; auto|]. inner HB m m' (Delete (fk F k)) (HGs (Delete (fk F k))) HR H1. cbn; auto.
    - destruct (has_empty_key (map bop_key b)); [cbn; auto|].
      inner HB m m' (Batch (map (fbop F) b)) (HGb b Ho) HR H1. cbn; auto.
    - inner HB m m' Flush (HGs Flush) HR H1. cbn; auto.
    - inner HB m m' Reopen (HGs Reopen) HR H1. cbn; auto.
  Qed.
End FdetCong.

(* ---------- equivariance of the LevelDB model under a renaming that satisfies fmt_ok ---------- *)
Definition lgq (o : op) : bool := lg o && wf1_op o.

Lemma gq1_of_wf b : forallb wf_bop b = true -> has_empty_key (map bop_key b) = false -> forallb gq1 b = true.
Proof. unfold has_empty_key. induction b as [|x b IH]; [reflexivity|].
  cbn [forallb map existsb]. intros H1 H2. apply andb_prop in H1 as [H1 H1']. apply orb_false_elim in H2 as [H2 H2'].
  rewrite (IH H1' H2'), andb_true_r. unfold gq1. rewrite H1, (N.eqb_sym (bop_key x) 0), H2. reflexivity. Qed.

Section Ren.
  Variable F : formatter.
  Hypothesis OK : fmt_ok F.

  Definition ren_tm (m : tagmap) : tagmap := map (fun nk => (fn F (fst nk), map (fk F) (snd nk))) m.
  Definition ren (s : ldb) : ldb := (fmap F (fst s), ren_tm (snd s)).

  Lemma in_keys_ren ks k : in_keys (map (fk F) ks) (fk F k) = in_keys ks k.
  Proof. unfold in_keys. induction ks as [|x r IH]; cbn; [reflexivity|]. rewrite (ok_k F OK), IH. reflexivity. Qed.
  Lemma tm_get_ren m n : tm_get (ren_tm m) (fn F n) = map (fk F) (tm_get m n).
  Proof. induction m as [|[n' ks] r IH]; cbn; [reflexivity|]. rewrite (ok_n F OK). destruct (n =? n'); [reflexivity|exact IH]. Qed.
  Lemma tm_add_ren m n k : tm_add (ren_tm m) (fn F n) (fk F k) = ren_tm (tm_add m n k).
  Proof. unfold ren_tm. induction m as [|[n' ks] r IH]; cbn [map tm_add fst snd]; [reflexivity|]. rewrite (ok_n F OK). destruct (n =? n'); cbn [map fst snd].
    - f_equal. f_equal. pose proof (in_keys_ren ks k) as E. unfold in_keys in E. rewrite E. destruct (existsb (N.eqb k) ks); reflexivity.
    - rewrite IH. reflexivity. Qed.
  Lemma tm_fold_ren k t : forall m,
    fold_left (fun m tg => tm_add m (fst tg) (fk F k)) (map (fmt_tag F) t) (ren_tm m) =
    ren_tm (fold_left (fun m (tg : tag) => tm_add m (fst tg) k) t m).
  Proof. induction t as [|x r IH]; intros m; cbn [map fold_left]; [reflexivity|]. cbn [fmt_tag fst]. rewrite tm_add_ren. apply IH. Qed.
  Lemma tm_del_ren m k : tm_del (ren_tm m) (fk F k) = ren_tm (tm_del m k).
  Proof. unfold tm_del, ren_tm. rewrite !map_map. apply map_ext. intros [n ks]. cbn [fst snd]. f_equal.
    rewrite filter_map_comm. f_equal. apply filter_ext. intros x. rewrite (ok_k F OK). reflexivity. Qed.

  Lemma ldb_put_ren s k v t : valid_put k v t = true ->
    ldb_put (ren s) (fk F k) (fv F v) (map (fmt_tag F) t) = (ren (fst (ldb_put s k v t)), ODone) /\ snd (ldb_put s k v t) = ODone.
  Proof. intros Ev. unfold ldb_put. rewrite Ev, (valid_put_fmt F OK k v t Ev). cbn [fst snd]. split; [|reflexivity]. f_equal.
    unfold ren. cbn [fst snd]. f_equal; [exact (put_fmap F OK (fst s) k (v, t))|apply tm_fold_ren]. Qed.
  Lemma ldb_delete_ren s k : (k =? 0) = false ->
    ldb_delete (ren s) (fk F k) = (ren (fst (ldb_delete s k)), ODone) /\ snd (ldb_delete s k) = ODone.
  Proof. intros Ek. unfold ldb_delete. rewrite Ek, (fk_zero F OK), Ek. cbn [fst snd]. split; [|reflexivity]. f_equal.
    unfold ren. cbn [fst snd]. f_equal; [apply (remove_fmap F OK)|apply tm_del_ren]. Qed.
  Lemma ldb_batch_ren b : forall s, forallb gq1 b = true ->
    ldb_batch (ren s) (map (fbop F) b) = (ren (fst (ldb_batch s b)), ODone) /\ snd (ldb_batch s b) = ODone.
  Proof. induction b as [|[[k v] t] r IH]; intros s Hb; [cbn; auto|]. cbn [forallb] in Hb. apply andb_prop in Hb as [Hx Hr].
    unfold gq1, wf_bop in Hx. cbn [snd bop_key fst] in Hx. apply andb_prop in Hx as [Ht Hk]. apply negb_true_iff in Hk. apply negb_true_iff in Ht.
    cbn [map fbop ldb_batch]. destruct (v =? 0) eqn:Ev.
    - cbn [N.eqb]. destruct (ldb_delete_ren s k Hk) as [E1 E2]. rewrite E1. destruct (ldb_delete s k) as [s1 x]. cbn [fst snd] in *. subst x. apply IH. exact Hr.
    - rewrite (ok_v0 F OK), Ev.
      assert (Evp : valid_put k v t = true) by (unfold valid_put; rewrite Hk, Ev, Ht; reflexivity).
      destruct (ldb_put_ren s k v t Evp) as [E1 E2]. rewrite E1. destruct (ldb_put s k v t) as [s1 x]. cbn [fst snd] in *. subst x. apply IH. exact Hr. Qed.

  Lemma ldb_query_ren s c : ldb_query (ren s) [fcrit F c] =
    match ldb_query s [c] with OQuery l => OQuery (fmap F l) | x => x end.
  Proof. unfold ldb_query, ren. cbn [fst snd fcrit]. rewrite tm_get_ren, (ft_zero F OK). destruct (snd c =? 0).
    - f_equal. unfold fmap. rewrite filter_map_comm. f_equal. apply filter_ext. intros ke. cbn [fke fst]. apply in_keys_ren.
    - f_equal. unfold fmap. rewrite filter_map_comm. f_equal. apply filter_ext. intros ke. cbn [fke fst snd]. rewrite in_keys_ren.
      f_equal. exact (matches_fmt F OK c (snd ke)). Qed.

  Lemma fdet_over_ldb : bisim lgq (formatted_det F leveldb) leveldb (fun x m => x = ren m).
  Proof.
    intros x m o Ho ->. unfold lgq in Ho. apply andb_prop in Ho as [Hl Hw].
    destruct o as [k v t|k|k|ks|q|k|b| |]; cbn [step formatted_det fdet_step leveldb ldb_step].
    - destruct (valid_put k v t) eqn:Ev.
      + destruct (ldb_put_ren m k v t Ev) as [E1 E2]. rewrite E1. destruct (ldb_put m k v t) as [m1 y]. cbn [fst snd] in *. subst y. cbn. auto.
      + unfold ldb_put. rewrite Ev. cbn. auto.
    - destruct (k =? 0) eqn:Ek; [cbn; auto|]. rewrite (fk_zero F OK), Ek. cbn [fst snd ren]. split; [reflexivity|].
      rewrite (lookup_fmap F OK). destruct (lookup (fst m) k) as [[v t]|]; cbn; [rewrite (ok_uv F OK)|]; reflexivity.
    - destruct (k =? 0) eqn:Ek; [cbn; auto|]. rewrite (fk_zero F OK), Ek. cbn [fst snd ren]. rewrite (lookup_fmap F OK).
      destruct (lookup (fst m) k) as [[v t]|]; cbn; [rewrite (unfmt_tags F OK)|]; auto.
    - destruct (is_nil ks || has_empty_key ks) eqn:E; [cbn; auto|].
      assert (E' : is_nil (map (fk F) ks) || has_empty_key (map (fk F) ks) = false).
      { rewrite (empty_key_fk F OK). destruct ks; [discriminate|exact E]. }
      match goal with |- context [if ?c then _ else _] => replace c with false by (symmetry; exact E') end.
      cbn [fst snd ren]. split; [reflexivity|]. f_equal. apply (bulk_fmt F OK).
    - destruct q as [|c [|c2 q2]]; [cbn; auto| |cbn in Hw; try rewrite andb_false_r in Hw; discriminate].
      cbn [is_nil fst snd]. split; [reflexivity|]. rewrite ldb_query_ren.
      assert (Hq : exists l, ldb_query m [c] = OQuery l) by (unfold ldb_query; destruct (snd c =? 0); eexists; reflexivity).
      destruct Hq as [l ->]. rewrite (unfmt_fmap F OK). reflexivity.
    - destruct (k =? 0) eqn:Ek.
      + unfold ldb_delete. rewrite Ek. cbn. auto.
      + destruct (ldb_delete_ren m k Ek) as [E1 E2]. rewrite E1. destruct (ldb_delete m k) as [m1 y]. cbn [fst snd] in *. subst y. cbn. auto.
    - cbn [lg] in Hl. apply andb_prop in Hl as [Hwb Hk]. apply negb_true_iff in Hk.
      destruct b as [|[[k v] t] r]; [cbn; auto|]. cbn [is_nil tl] in *.
      destruct (N.eqb_spec k 0) as [->|Hk0].
      + unfold has_empty_key. cbn [map bop_key fst existsb N.eqb orb]. destruct (ldb_batch_head_empty v t r m) as [H1 H2].
        split; [exact (f_equal ren (eq_sym H2))|symmetry; exact H1].
      + assert (Hk' : has_empty_key (map bop_key ((k, v, t) :: r)) = false).
        { unfold has_empty_key in *. cbn [map existsb]. apply orb_false_intro; [|exact Hk]. apply N.eqb_neq. cbn. intros E. apply Hk0. symmetry. exact E. }
        match goal with |- context [if ?c then _ else _] => replace c with false by (symmetry; exact Hk') end.
        assert (Hg : forallb gq1 ((k, v, t) :: r) = true).
        { apply gq1_of_wf; assumption. }
        match goal with |- context [ldb_batch (ren m) (map (fbop F) ?bb)] =>
          destruct (ldb_batch_ren bb m Hg) as [E1 E2]; destruct (ldb_batch m bb) as [m1 y]; cbn [fst snd] in E1, E2 |- *; subst y;
          rewrite E1; change (is_nil (map (fbop F) bb)) with false end.
        cbn. auto.
    - cbn. auto.
    - cbn. auto.
  Qed.

  (* the formatted image of a store with well-formed entries has well-formed entries *)
  Lemma lookup_fmap_inv a k' e : lookup (fmap F a) k' = Some e -> exists k, k' = fk F k.
  Proof. unfold fmap. induction a as [|[k0 e0] r IH]; cbn; [discriminate|]. destruct (N.eqb_spec k' (fk F k0)); [intros _; exists k0; assumption|exact IH]. Qed.
  Lemma wf_store_fmap a : wf_store a -> wf_store (fmap F a).
  Proof. intros Hw k' e Hl. destruct (lookup_fmap_inv a k' e Hl) as [k ->]. rewrite (lookup_fmap F OK) in Hl.
    destruct (lookup a k) as [e0|] eqn:Ha; [|discriminate]. cbn in Hl. inversion Hl; subst e. destruct (Hw k e0 Ha) as [Hv Ht].
    split; cbn [fe fst snd].
    - intros E. apply Hv. apply N.eqb_eq. rewrite <- (ok_v0 F OK). apply N.eqb_eq. exact E.
    - apply (bad_tags_fmt F OK). exact Ht. Qed.
End Ren.
