(* C11 — storage providers and wrappers: executable models.  NO proofs here (this file must keep running
   when a proof breaks).  C13 builds on the exported provider record [prov], the per-provider step functions
   and the specification [spec_step].

   Alphabets are numbers: key 0 = "" (empty key), value 0 = nil, tag = (name, value) with value 0 = "",
   the number 9 stands for a string that contains ':' (invalid as tag name / tag value).
   One operation of a model = one call on the spi/storage.Store interface (Reopen = Close + OpenStore). *)
From Coq Require Import List NArith ZArith Bool.
Import ListNotations.
Local Open Scope N_scope.

Definition key := N.
Definition val := N.
Definition tag := (N * N)%type.
Definition entry := (val * list tag)%type.
Definition bop := (key * val * list tag)%type.      (* one operation of a Batch: value 0 = delete *)
Definition crit := (N * N)%type.                     (* query criterion: name, value (0 = any value) *)

Inductive op :=
| Put (k : key) (v : val) (t : list tag)
| Get (k : key)
| GetTags (k : key)
| GetBulk (ks : list key)
| Query (q : list crit)                              (* conjunction c1 && c2 && ... *)
| Delete (k : key)
| Batch (b : list bop)
| Flush
| Reopen.                                            (* Store.Close followed by Provider.OpenStore *)

Inductive out :=
| ODone                                              (* nil error *)
| OErr                                               (* an error that is not ErrDataNotFound *)
| ONotFound                                          (* an error wrapping ErrDataNotFound *)
| OVal (v : val)
| OTags (t : list tag)
| OBulk (vs : list val)                              (* 0 = nil entry *)
| OQuery (r : list (key * entry)).                   (* iterator content; order is not part of the contract *)

(* ---------- the documented contract (spi/storage/storage.go) as an abstract machine ---------- *)
Definition store := list (key * entry).

Fixpoint lookup (s : store) (k : key) : option entry :=
  match s with [] => None | (k', e) :: r => if N.eqb k k' then Some e else lookup r k end.
Fixpoint remove (s : store) (k : key) : store :=
  match s with [] => [] | (k', e) :: r => if N.eqb k k' then remove r k else (k', e) :: remove r k end.
Definition put (s : store) (k : key) (e : entry) : store := (k, e) :: remove s k.

Definition colon : N := 9.
Definition bad_tag (t : tag) : bool := N.eqb (fst t) colon || N.eqb (snd t) colon.
Definition valid_put (k : key) (v : val) (t : list tag) : bool :=
  negb (N.eqb k 0) && negb (N.eqb v 0) && negb (existsb bad_tag t).

Definition tag_matches (c : crit) (t : tag) : bool :=
  N.eqb (fst t) (fst c) && (N.eqb (snd c) 0 || N.eqb (snd t) (snd c)).
Definition matches (c : crit) (e : entry) : bool := existsb (tag_matches c) (snd e).
Definition qeval (q : list crit) (s : store) : list (key * entry) :=
  filter (fun ke => forallb (fun c => matches c (snd ke)) q) s.

Definition apply_bop (s : store) (b : bop) : store :=
  let '(k, v, t) := b in if N.eqb v 0 then remove s k else put s k (v, t).
Definition apply_batch (s : store) (b : list bop) : store := fold_left apply_bop b s.
Definition bop_key (b : bop) : key := fst (fst b).
Definition is_nil {A} (l : list A) : bool := match l with [] => true | _ => false end.
Definition has_empty_key (ks : list key) : bool := existsb (N.eqb 0) ks.
Definition value_of (s : store) (k : key) : val := match lookup s k with Some (v, _) => v | None => 0 end.

(* [persist]: Close does not delete data (LevelDB); the in-memory provider documents that Close deletes. *)
Definition spec_step (persist : bool) (s : store) (o : op) : store * out :=
  match o with
  | Put k v t => if valid_put k v t then (put s k (v, t), ODone) else (s, OErr)
  | Get k => if N.eqb k 0 then (s, OErr) else
             (s, match lookup s k with Some (v, _) => OVal v | None => ONotFound end)
  | GetTags k => if N.eqb k 0 then (s, OErr) else
                 (s, match lookup s k with Some (_, t) => OTags t | None => ONotFound end)
  | GetBulk ks => if is_nil ks || has_empty_key ks then (s, OErr) else (s, OBulk (map (value_of s) ks))
  | Query q => if is_nil q then (s, OErr) else (s, OQuery (qeval q s))
  | Delete k => if N.eqb k 0 then (s, OErr) else (remove s k, ODone)
  | Batch b => if is_nil b || has_empty_key (map bop_key b) then (s, OErr) else (apply_batch s b, ODone)
  | Flush => (s, ODone)
  | Reopen => (if persist then s else [], ODone)
  end.

(* ---------- providers are state machines over the same interface ---------- *)
Record prov := { St : Type; init : St; step : St -> op -> St * out }.

Definition spec_prov (persist : bool) : prov := {| St := store; init := []; step := spec_step persist |}.

Fixpoint run (P : prov) (s : St P) (ops : list op) : list out :=
  match ops with [] => [] | o :: r => let '(s', x) := step P s o in x :: run P s' r end.
Fixpoint run_state (P : prov) (s : St P) (ops : list op) : St P :=
  match ops with [] => s | o :: r => run_state P (fst (step P s o)) r end.

(* ---------- component/storageutil/mem ---------- *)
(* Query as found: results are kept in a map keyed by TAG NAME, so of several criteria with one name only the
   last one counts.  [fixq = true]: keyed by the whole criterion (the fix: commit). *)
Fixpoint last_per_name (q : list crit) : list crit :=
  match q with
  | [] => []
  | c :: r => if existsb (fun c' => N.eqb (fst c') (fst c)) r then last_per_name r else c :: last_per_name r
  end.

Definition mem_step (fixq : bool) (s : store) (o : op) : store * out :=
  match o with
  | Query q => if is_nil q then (s, OErr)
               else (s, OQuery (qeval (if fixq then q else last_per_name q) s))
  | _ => spec_step false s o
  end.
Definition mem (fixq : bool) : prov := {| St := store; init := []; step := mem_step fixq |}.

(* ---------- component/storage/leveldb ---------- *)
(* entries + the "TagMap" index: tag name -> set of keys.  Put adds the key under each of its tag names and
   never removes it from other names (TODO #2947 in the source); Delete removes the key from every name.
   A name-only query answers from the index alone; a name:value query reads the tags of the indexed keys.
   Only single-criterion expressions are parsed (the string is split at ':' only). *)
Definition tagmap := list (N * list key).
Fixpoint tm_get (m : tagmap) (n : N) : list key :=
  match m with [] => [] | (n', ks) :: r => if N.eqb n n' then ks else tm_get r n end.
Fixpoint tm_add (m : tagmap) (n : N) (k : key) : tagmap :=
  match m with
  | [] => [(n, [k])]
  | (n', ks) :: r => if N.eqb n n' then (n', if existsb (N.eqb k) ks then ks else k :: ks) :: r
                     else (n', ks) :: tm_add r n k
  end.
Definition tm_del (m : tagmap) (k : key) : tagmap :=
  map (fun nk => (fst nk, filter (fun k' => negb (N.eqb k' k)) (snd nk))) m.
Definition ldb := (store * tagmap)%type.

Definition ldb_put (s : ldb) (k : key) (v : val) (t : list tag) : ldb * out :=
  if valid_put k v t then
    ((put (fst s) k (v, t), fold_left (fun m tg => tm_add m (fst tg) k) t (snd s)), ODone)
  else (s, OErr).
Definition ldb_delete (s : ldb) (k : key) : ldb * out :=
  if N.eqb k 0 then (s, OErr) else ((remove (fst s) k, tm_del (snd s) k), ODone).
Fixpoint ldb_batch (s : ldb) (b : list bop) : ldb * out :=
  match b with
  | [] => (s, ODone)
  | (k, v, t) :: r =>
      let '(s1, x) := if N.eqb v 0 then ldb_delete s k else ldb_put s k v t in
      match x with ODone => ldb_batch s1 r | _ => (s1, OErr) end
  end.
Definition in_keys (ks : list key) (k : key) : bool := existsb (N.eqb k) ks.
Definition ldb_query (s : ldb) (q : list crit) : out :=
  match q with
  | [] => OErr
  | [c] =>
      let idx := tm_get (snd s) (fst c) in
      if N.eqb (snd c) 0 then OQuery (filter (fun ke => in_keys idx (fst ke)) (fst s))
      else OQuery (filter (fun ke => in_keys idx (fst ke) && matches c (snd ke)) (fst s))
  | _ =>
      (* "n1:v1&&n2:v2" has three ':'-separated parts: error; with at most one value the whole string is taken
         as one odd name or value that nothing carries *)
      if Nat.leb 2 (length (filter (fun c => negb (N.eqb (snd c) 0)) q)) then OErr else OQuery []
  end.
Definition ldb_step (s : ldb) (o : op) : ldb * out :=
  match o with
  | Put k v t => ldb_put s k v t
  | Get k => if N.eqb k 0 then (s, OErr) else
             (s, match lookup (fst s) k with Some (v, _) => OVal v | None => ONotFound end)
  | GetTags k => if N.eqb k 0 then (s, OErr) else
                 (s, match lookup (fst s) k with Some (_, t) => OTags t | None => ONotFound end)
  | GetBulk ks => if is_nil ks || has_empty_key ks then (s, OErr) else (s, OBulk (map (value_of (fst s)) ks))
  | Query q => (s, ldb_query s q)
  | Delete k => ldb_delete s k
  | Batch b => if is_nil b then (s, OErr) else ldb_batch s b
  | Flush => (s, ODone)
  | Reopen => (s, ODone)
  end.
Definition leveldb : prov := {| St := ldb; init := ([], []); step := ldb_step |}.

(* ---------- component/storageutil/cachedstore over ANY provider P; the cache is an in-memory store ---------- *)
Definition is_done (x : out) : bool := match x with ODone => true | _ => false end.
Definition err_of (x : out) : out := match x with ONotFound => ONotFound | _ => OErr end.

Section Cached.
  Variable fill_tags : bool.     (* true: the read-through fill copies the tags too (fix: commit); false: as found *)
  Variable P : prov.
  Definition cstate := (St P * store)%type.
  Definition cstep_mem := mem_step true.
  Definition cached_step (s : cstate) (o : op) : cstate * out :=
    let '(m, c) := s in
    match o with
    | Put k v t =>
        if existsb bad_tag t then (s, OErr) else
        let '(m1, r) := step P m o in
        if is_done r then let '(c1, rc) := cstep_mem c o in ((m1, c1), if is_done rc then ODone else OErr)
        else ((m1, c), err_of r)
    | Get k =>
        match snd (cstep_mem c o) with
        | OVal v => (s, OVal v)
        | ONotFound =>
            let '(m1, r) := step P m o in
            match r with
            | OVal v =>
                if fill_tags then
                  let '(m2, rt) := step P m1 (GetTags k) in
                  match rt with
                  | OTags t => let '(c1, rc) := cstep_mem c (Put k v t) in
                               ((m2, c1), if is_done rc then OVal v else OErr)
                  | _ => ((m2, c), err_of rt)
                  end
                else let '(c1, rc) := cstep_mem c (Put k v []) in ((m1, c1), if is_done rc then OVal v else OErr)
            | _ => ((m1, c), err_of r)
            end
        | _ => (s, OErr)
        end
    | GetTags k =>
        match snd (cstep_mem c o) with
        | OTags t => (s, OTags t)
        | ONotFound => let '(m1, r) := step P m o in ((m1, c), match r with OTags t => OTags t | _ => err_of r end)
        | _ => (s, OErr)
        end
    | GetBulk _ => let '(m1, r) := step P m o in ((m1, c), match r with OBulk v => OBulk v | _ => err_of r end)
    | Query _ => let '(m1, r) := step P m o in ((m1, c), match r with OQuery v => OQuery v | _ => err_of r end)
    | Delete _ | Batch _ | Flush =>
        let '(m1, r) := step P m o in
        if is_done r then let '(c1, rc) := cstep_mem c o in ((m1, c1), if is_done rc then ODone else OErr)
        else ((m1, c), err_of r)
    | Reopen =>
        (* store.Close: main store closed, cache store closed (its content is gone); OpenStore opens both again *)
        let '(m1, r) := step P m o in ((m1, []), if is_done r then ODone else err_of r)
    end.
  Definition cached : prov := {| St := cstate; init := (init P, []); step := cached_step |}.
End Cached.

(* ---------- component/storageutil/batchedstore over ANY provider P ---------- *)
Section Batched.
  Variable limit : Z.            (* batchSizeLimit; a flush happens when len(currentBatch) >= limit *)
  Variable P : prov.
  Definition bstate := (St P * list bop)%type.
  Definition bflush (s : bstate) : bstate * out :=
    let '(m, q) := s in
    match q with
    | [] => (s, ODone)
    | _ => let '(m1, r) := step P m (Batch q) in if is_done r then ((m1, []), ODone) else ((m1, q), err_of r)
    end.
  Definition benqueue (s : bstate) (b : bop) : bstate * out :=
    let '(m, q) := s in
    let q1 := q ++ [b] in
    if Z.leb limit (Z.of_nat (length q1)) then bflush (m, q1) else ((m, q1), ODone).
  Fixpoint benqueue_all (s : bstate) (b : list bop) : bstate * out :=
    match b with
    | [] => (s, ODone)
    | x :: r => let '(s1, y) := benqueue s x in if is_done y then benqueue_all s1 r else (s1, y)
    end.
  Definition bread (s : bstate) (o : op) : bstate * out :=
    let '(s1, y) := bflush s in
    if is_done y then let '(m2, r) := step P (fst s1) o in ((m2, snd s1), match r with ODone => OErr | _ => r end)
    else (s1, y).
  Definition batched_step (s : bstate) (o : op) : bstate * out :=
    match o with
    | Put k v t => if valid_put k v t then benqueue s (k, v, t) else (s, OErr)
    | Delete k => if N.eqb k 0 then (s, OErr) else benqueue s (k, 0, [])
    | Batch b => if is_nil b || has_empty_key (map bop_key b) then (s, OErr) else benqueue_all s b
    | Get _ | GetTags _ | GetBulk _ | Query _ => bread s o
    | Flush =>
        (* Flush hands the queue to the store below and flushes that store too (fix: commit; before, the store below
           was not flushed -- not observable through this store, only when the wrapper objects are dropped) *)
        let '(s1, y) := bflush s in
        if is_done y then let '(m2, r) := step P (fst s1) Flush in ((m2, snd s1), if is_done r then ODone else err_of r)
        else (s1, y)
    | Reopen =>
        (* store.Close: Flush (as above), then close the underlying store; a store opened afterwards starts with an
           empty batch *)
        let '(s1, y) := bflush s in
        if is_done y then
          let '(m2, r) := step P (fst s1) Flush in
          if is_done r then let '(m3, r3) := step P m2 Reopen in ((m3, []), if is_done r3 then ODone else err_of r3)
          else ((m2, []), err_of r)
        else ((fst s1, []), y)
    end.
  Definition batched : prov := {| St := bstate; init := (init P, []); step := batched_step |}.
End Batched.

(* ---------- component/storageutil/formattedstore with a deterministic key formatter ---------- *)
(* A formatter maps keys, values, tag names and tag values (each map fixes 0: Format("", nil) stays empty). *)
Record formatter := { fk : N -> N; fv : N -> N; fn : N -> N; ft : N -> N;
                      uk : N -> N; uv : N -> N; un : N -> N; ut : N -> N;   (* Deformat of key / value / tag name / tag value *)
                      conj_pass : bool }.  (* an expression with "&&" and at most one ':' reaches the underlying store unchanged *)
Definition fmt_tag (F : formatter) (t : tag) : tag := (fn F (fst t), ft F (snd t)).
Definition unfmt_tag (F : formatter) (t : tag) : tag := (un F (fst t), ut F (snd t)).
Definition noop_fmt : formatter :=
  {| fk := fun x => x; fv := fun x => x; fn := fun x => x; ft := fun x => x;
     uk := fun x => x; uv := fun x => x; un := fun x => x; ut := fun x => x; conj_pass := true |}.
(* base64: an injective re-coding; modelled as a shift by 100 of every non-empty string (base64 output has no ':') *)
Definition enc (x : N) : N := if N.eqb x 0 then 0 else x + 100.
Definition dec (x : N) : N := if N.ltb x 100 then x else x - 100.
Definition b64_fmt : formatter :=
  {| fk := enc; fv := enc; fn := enc; ft := enc; uk := dec; uv := dec; un := dec; ut := dec; conj_pass := false |}.

Definition unfmt_entry (F : formatter) (ke : key * entry) : key * entry :=
  (uk F (fst ke), (uv F (fst (snd ke)), map (unfmt_tag F) (snd (snd ke)))).
Definition odd_name : N := 777.

Section FormattedDet.
  Variable F : formatter.
  Variable P : prov.
  Definition fcrit (c : crit) : crit := (fn F (fst c), ft F (snd c)).
  Definition fbop (b : bop) : bop := let '(k, v, t) := b in (fk F k, (if N.eqb v 0 then 0 else fv F v), map (fmt_tag F) t).
  Definition fdet_step (m : St P) (o : op) : St P * out :=
    match o with
    | Put k v t =>
        if valid_put k v t then
          let '(m1, r) := step P m (Put (fk F k) (fv F v) (map (fmt_tag F) t)) in (m1, if is_done r then ODone else err_of r)
        else (m, OErr)
    | Get k =>
        if N.eqb k 0 then (m, OErr) else
        let '(m1, r) := step P m (Get (fk F k)) in (m1, match r with OVal v => OVal (uv F v) | _ => err_of r end)
    | GetTags k =>
        if N.eqb k 0 then (m, OErr) else
        let '(m1, r) := step P m (GetTags (fk F k)) in
        match r with
        | OTags t =>
            let '(m2, r2) := step P m1 (Get (fk F k)) in
            (m2, match r2 with OVal _ => OTags (map (unfmt_tag F) t) | _ => err_of r2 end)
        | _ => (m1, err_of r)
        end
    | GetBulk ks =>
        if is_nil ks || has_empty_key ks then (m, OErr) else
        let '(m1, r) := step P m (GetBulk (map (fk F) ks)) in
        (m1, match r with OBulk vs => OBulk (map (fun v => if N.eqb v 0 then 0 else uv F v) vs) | _ => err_of r end)
    | Query q =>
        (* the expression string is split at ':' only: one criterion is formatted; "n1:v1&&n2:v2" (three parts) is an
           error; other "&&" strings are formatted as ONE odd tag name/value (noop: reach the store unchanged) *)
        let q' := match q with
                  | [c] => Some [fcrit c]
                  | _ => if Nat.leb 2 (length (filter (fun c => negb (N.eqb (snd c) 0)) q)) then None
                         else Some (if conj_pass F then q else [(odd_name, 0)])
                  end in
        match q' with
        | None => (m, OErr)
        | Some uq =>
            if is_nil q then (m, OErr) else
            let '(m1, r) := step P m (Query uq) in
            (m1, match r with OQuery l => OQuery (map (unfmt_entry F) l) | _ => err_of r end)
        end
    | Delete k =>
        if N.eqb k 0 then (m, OErr) else
        let '(m1, r) := step P m (Delete (fk F k)) in (m1, if is_done r then ODone else err_of r)
    | Batch b =>
        if has_empty_key (map bop_key b) then (m, OErr) else
        let '(m1, r) := step P m (Batch (map fbop b)) in (m1, if is_done r then ODone else err_of r)
    | Flush | Reopen => let '(m1, r) := step P m o in (m1, if is_done r then ODone else err_of r)
    end.
  Definition formatted_det : prov := {| St := St P; init := init P; step := fdet_step |}.
End FormattedDet.

(* ---------- component/storageutil/formattedstore with NON-deterministic (random) key formatting ---------- *)
(* Every Format call of such a formatter draws a random formatted key; the i-th draw that is USED as a storage key is
   [fresh i] (a fresh-name oracle: the draws that are thrown away -- tag-only Format calls, the overwrite path -- do
   not matter).  The unformatted key is found again through the internal tag Key:base64(key) that formattedstore adds
   to every entry; Deformat gives back the key the entry was formatted with (base64 example formatter: its keyMap;
   EDV formatter: embedded in the encrypted document) -- after fix 8f3c855 that is always the key of the Key tag. *)
Definition KEYN : N := 500.                       (* the tag name "Key" *)
Definition kenc (k : key) : N := k + 1000.        (* base64 of the key *)
(* the value of the Key tag as a function of the key: base64(key) for EVERY key.  The lookup of an entry by its key is
   only correct because this function is injective (Props2.key_tag_value_injective); Corr compares the table of Key tag
   values the real code writes (observed at a recording provider) with it. *)
Definition key_tag_value (k : key) : N := kenc k.
Definition kdec (x : N) : N := x - 1000.
Definition keytag (k : key) : tag := (KEYN, kenc k).
Definition fresh (n : N) : key := 2000 + n.
Definition is_keyname (x : tag) : bool := N.eqb (fst x) KEYN.
Definition key_of_tags (t : list tag) : key := match find is_keyname t with Some x => kdec (snd x) | None => 0 end.
Definition drop_keytag (k : key) (t : list tag) : list tag :=
  filter (fun x => negb (N.eqb (fst x) KEYN && N.eqb (snd x) (kenc k))) t.

Inductive found := FErr | FNone | FOne (f : key) (e : entry).

Section FormattedRand.
  Variable fix12 : bool.    (* true: a batch that formats to no operation returns nil (fix fbdabd1); false: as found *)
  Variable F : formatter.
  Variable P : prov.
  Definition rstate := (St P * N)%type.
  Definition kcrit (k : key) : crit := (fn F KEYN, ft F (kenc k)).
  Definition rfmt_tags (k : key) (t : list tag) : list tag := map (fmt_tag F) (t ++ [keytag k]).
  Definition runfmt_entry (ke : key * entry) : key * entry :=
    let t := map (unfmt_tag F) (snd (snd ke)) in
    let k := key_of_tags t in (k, (uv F (fst (snd ke)), drop_keytag k t)).
  (* queryUsingKeyTag + at most one result *)
  Definition rfind (m : St P) (k : key) : St P * found :=
    let '(m1, r) := step P m (Query [kcrit k]) in
    (m1, match r with OQuery [] => FNone | OQuery [x] => FOne (fst x) (snd x) | _ => FErr end).
  Fixpoint rbulk (m : St P) (ks : list key) : St P * option (list val) :=
    match ks with
    | [] => (m, Some [])
    | k :: r =>
        let '(m1, x) := rfind m k in
        match x with
        | FErr => (m1, None)
        | FNone => let '(m2, y) := rbulk m1 r in (m2, option_map (cons 0) y)
        | FOne _ e => let '(m2, y) := rbulk m1 r in (m2, option_map (cons (uv F (fst e))) y)
        end
    end.
  Fixpoint res_lookup (res : list (key * key)) (k : key) : option key :=
    match res with [] => None | (k', f) :: r => if N.eqb k k' then Some f else res_lookup r k end.
  (* generateFormattedOperationsUsingNonDeterministicKeys: [res] = resolvedKeys (0 = marked for deletion);
     every store query sees the state BEFORE the batch *)
  Fixpoint rbatch (m : St P) (n : N) (res : list (key * key)) (b : list bop) : St P * N * option (list bop) :=
    match b with
    | [] => (m, n, Some [])
    | (k, v, t) :: rest =>
        let '(m1, fo) :=
          match res_lookup res k with
          | Some f => (m, Some f)
          | None => let '(m1, x) := rfind m k in
                    (m1, match x with FNone => Some 0 | FOne f _ => Some f | FErr => None end)
          end in
        match fo with
        | None => (m1, n, None)
        | Some f =>
            if N.eqb v 0 then
              if N.eqb f 0 then rbatch m1 n res rest
              else let '(m2, n2, y) := rbatch m1 n ((k, 0) :: res) rest in (m2, n2, option_map (cons (f, 0, [])) y)
            else
              let f' := if N.eqb f 0 then fresh n else f in
              let n' := if N.eqb f 0 then n + 1 else n in
              let '(m2, n2, y) := rbatch m1 n' ((k, f') :: res) rest in
              (m2, n2, option_map (cons (f', fv F v, rfmt_tags k t)) y)
        end
    end.
  Definition frand_step (s : rstate) (o : op) : rstate * out :=
    let '(m, n) := s in
    match o with
    | Put k v t =>
        if valid_put k v t then
          let '(m1, x) := rfind m k in
          match x with
          | FErr => ((m1, n), OErr)
          | FNone => let '(m2, r) := step P m1 (Put (fresh n) (fv F v) (rfmt_tags k t)) in
                     ((m2, n + 1), if is_done r then ODone else err_of r)
          | FOne f _ => let '(m2, r) := step P m1 (Put f (fv F v) (rfmt_tags k t)) in
                        ((m2, n), if is_done r then ODone else err_of r)
          end
        else (s, OErr)
    | Get k =>
        if N.eqb k 0 then (s, OErr) else
        let '(m1, x) := rfind m k in
        ((m1, n), match x with FErr => OErr | FNone => ONotFound | FOne _ e => OVal (uv F (fst e)) end)
    | GetTags k =>
        if N.eqb k 0 then (s, OErr) else
        let '(m1, x) := rfind m k in
        ((m1, n), match x with
                  | FErr => OErr | FNone => ONotFound
                  | FOne f e => OTags (drop_keytag k (snd (snd (runfmt_entry (f, e)))))
                  end)
    | GetBulk ks =>
        if is_nil ks || has_empty_key ks then (s, OErr) else
        let '(m1, y) := rbulk m ks in ((m1, n), match y with Some vs => OBulk vs | None => OErr end)
    | Query q =>
        let q' := match q with
                  | [c] => Some [fcrit F c]
                  | _ => if Nat.leb 2 (length (filter (fun c => negb (N.eqb (snd c) 0)) q)) then None
                         else Some (if conj_pass F then q else [(odd_name, 0)])
                  end in
        match q' with
        | None => (s, OErr)
        | Some uq =>
            if is_nil q then (s, OErr) else
            let '(m1, r) := step P m (Query uq) in
            ((m1, n), match r with OQuery l => OQuery (map runfmt_entry l) | _ => err_of r end)
        end
    | Delete k =>
        if N.eqb k 0 then (s, OErr) else
        let '(m1, x) := rfind m k in
        match x with
        | FErr => ((m1, n), OErr)
        | FNone => ((m1, n), ODone)
        | FOne f _ => let '(m2, r) := step P m1 (Delete f) in ((m2, n), if is_done r then ODone else err_of r)
        end
    | Batch b =>
        if has_empty_key (map bop_key b) then (s, OErr) else
        let '(m1, n1, y) := rbatch m n [] b in
        match y with
        | None => ((m1, n1), OErr)
        | Some eo =>
            if fix12 && negb (is_nil b) && is_nil eo then ((m1, n1), ODone)
            else let '(m2, r) := step P m1 (Batch eo) in ((m2, n1), if is_done r then ODone else err_of r)
        end
    | Flush | Reopen => let '(m1, r) := step P m o in ((m1, n), if is_done r then ODone else err_of r)
    end.
  Definition formatted_rand : prov := {| St := rstate; init := (init P, 0); step := frand_step |}.
End FormattedRand.

(* ---------- the same with a formatter that EMBEDS the key it is given in the formatted value (the EDV encrypted
   formatter: the encrypted document carries the unformatted key, value and tags; Deformat returns the embedded key).
   [fix13 = false]: as found, the overwrite paths handed the FORMATTED key to the formatter (obs #13): afterwards
   Deformat returns the formatted key, so query iterators show it as Key() and the internal Key tag is not removed from
   Tags().  [fix13 = true]: the unformatted key is handed over (fix 8f3c855). ---------- *)
Definition emb (kemb x : N) : N := 1000000 * (kemb + 1) + x.
Definition emb_key (y : N) : N := y / 1000000 - 1.
Definition emb_val (y : N) : N := y mod 1000000.

Section FormattedRandEmbed.
  Variable fix13 : bool.
  Variable F : formatter.
  Variable P : prov.
  Definition runfmt_entry_e (ke : key * entry) : key * entry :=
    let k := emb_key (fst (snd ke)) in
    (k, (uv F (emb_val (fst (snd ke))), drop_keytag k (map (unfmt_tag F) (snd (snd ke))))).
  Definition key_arg (k f : key) : key := if fix13 then k else f.   (* what the overwrite paths give to Format *)
  Fixpoint rbulk_e (m : St P) (ks : list key) : St P * option (list val) :=
    match ks with
    | [] => (m, Some [])
    | k :: r =>
        let '(m1, x) := rfind F P m k in
        match x with
        | FErr => (m1, None)
        | FNone => let '(m2, y) := rbulk_e m1 r in (m2, option_map (cons 0) y)
        | FOne _ e => let '(m2, y) := rbulk_e m1 r in (m2, option_map (cons (uv F (emb_val (fst e)))) y)
        end
    end.
  Fixpoint rbatch_e (m : St P) (n : N) (res : list (key * key)) (b : list bop) : St P * N * option (list bop) :=
    match b with
    | [] => (m, n, Some [])
    | (k, v, t) :: rest =>
        let '(m1, fo) :=
          match res_lookup res k with
          | Some f => (m, Some f)
          | None => let '(m1, x) := rfind F P m k in
                    (m1, match x with FNone => Some 0 | FOne f _ => Some f | FErr => None end)
          end in
        match fo with
        | None => (m1, n, None)
        | Some f =>
            if N.eqb v 0 then
              if N.eqb f 0 then rbatch_e m1 n res rest
              else let '(m2, n2, y) := rbatch_e m1 n ((k, 0) :: res) rest in (m2, n2, option_map (cons (f, 0, [])) y)
            else
              let f' := if N.eqb f 0 then fresh n else f in
              let n' := if N.eqb f 0 then n + 1 else n in
              let ka := if N.eqb f 0 then k else key_arg k f in
              let '(m2, n2, y) := rbatch_e m1 n' ((k, f') :: res) rest in
              (m2, n2, option_map (cons (f', emb ka (fv F v), rfmt_tags F k t)) y)
        end
    end.
  Definition frande_step (s : rstate P) (o : op) : rstate P * out :=
    let '(m, n) := s in
    match o with
    | Put k v t =>
        if valid_put k v t then
          let '(m1, x) := rfind F P m k in
          match x with
          | FErr => ((m1, n), OErr)
          | FNone => let '(m2, r) := step P m1 (Put (fresh n) (emb k (fv F v)) (rfmt_tags F k t)) in
                     ((m2, n + 1), if is_done r then ODone else err_of r)
          | FOne f _ => let '(m2, r) := step P m1 (Put f (emb (key_arg k f) (fv F v)) (rfmt_tags F k t)) in
                        ((m2, n), if is_done r then ODone else err_of r)
          end
        else (s, OErr)
    | Get k =>
        if N.eqb k 0 then (s, OErr) else
        let '(m1, x) := rfind F P m k in
        ((m1, n), match x with FErr => OErr | FNone => ONotFound | FOne _ e => OVal (uv F (emb_val (fst e))) end)
    | GetTags k =>
        if N.eqb k 0 then (s, OErr) else
        let '(m1, x) := rfind F P m k in
        ((m1, n), match x with
                  | FErr => OErr | FNone => ONotFound
                  | FOne f e => OTags (drop_keytag k (snd (snd (runfmt_entry_e (f, e)))))
                  end)
    | GetBulk ks =>
        if is_nil ks || has_empty_key ks then (s, OErr) else
        let '(m1, y) := rbulk_e m ks in ((m1, n), match y with Some vs => OBulk vs | None => OErr end)
    | Query q =>
        let q' := match q with
                  | [c] => Some [fcrit F c]
                  | _ => if Nat.leb 2 (length (filter (fun c => negb (N.eqb (snd c) 0)) q)) then None
                         else Some (if conj_pass F then q else [(odd_name, 0)])
                  end in
        match q' with
        | None => (s, OErr)
        | Some uq =>
            if is_nil q then (s, OErr) else
            let '(m1, r) := step P m (Query uq) in
            ((m1, n), match r with OQuery l => OQuery (map runfmt_entry_e l) | _ => err_of r end)
        end
    | Delete k =>
        if N.eqb k 0 then (s, OErr) else
        let '(m1, x) := rfind F P m k in
        match x with
        | FErr => ((m1, n), OErr)
        | FNone => ((m1, n), ODone)
        | FOne f _ => let '(m2, r) := step P m1 (Delete f) in ((m2, n), if is_done r then ODone else err_of r)
        end
    | Batch b =>
        if has_empty_key (map bop_key b) then (s, OErr) else
        let '(m1, n1, y) := rbatch_e m n [] b in
        match y with
        | None => ((m1, n1), OErr)
        | Some eo =>
            if negb (is_nil b) && is_nil eo then ((m1, n1), ODone)
            else let '(m2, r) := step P m1 (Batch eo) in ((m2, n1), if is_done r then ODone else err_of r)
        end
    | Flush | Reopen => let '(m1, r) := step P m o in ((m1, n), if is_done r then ODone else err_of r)
    end.
  Definition formatted_rand_embed : prov := {| St := rstate P; init := (init P, 0); step := frande_step |}.
End FormattedRandEmbed.

(* ---------- provider level: spi/storage.Provider (OpenStore / SetStoreConfig / GetStoreConfig / GetOpenStores / Close)
   and Store.Close, over several named stores.  Store names are numbers (0 = blank; the spellings "st1" / "ST1" are the
   same number: names are not case-sensitive).  C13 (locking of the provider maps) and C12 (store configuration through
   formattedstore) speak about these operations. ---------- *)
Inductive pop :=
| POpen (n : N)
| PSetCfg (n : N) (tags : list N)
| PGetCfg (n : N)
| PGetOpen
| PClose
| PStoreClose (n : N)
| PStore (n : N) (o : op).                 (* an operation on the store handle obtained from OpenStore *)

Inductive pout :=
| PDone | PErr
| PNoStore                                   (* an error wrapping ErrStoreNotFound *)
| PCfg (tags : list N)
| POpenSet (ns : list N)                     (* the stores returned by GetOpenStores, as sorted names *)
| POut (x : out).

Record sstate := mk_ss { ss_data : store; ss_cfg : list N; ss_open : bool }.
Definition pstate := list (N * sstate).

Fixpoint plookup (p : pstate) (n : N) : option sstate :=
  match p with [] => None | (n', s) :: r => if N.eqb n n' then Some s else plookup r n end.
Fixpoint premove (p : pstate) (n : N) : pstate :=
  match p with [] => [] | (n', s) :: r => if N.eqb n n' then premove r n else (n', s) :: premove r n end.
Definition pset (p : pstate) (n : N) (s : sstate) : pstate := (n, s) :: premove p n.
Fixpoint insert_n (x : N) (l : list N) : list N :=
  match l with [] => [x] | y :: r => if N.leb x y then x :: l else y :: insert_n x r end.
Definition open_names (p : pstate) : list N :=
  fold_right insert_n [] (map fst (filter (fun ns => ss_open (snd ns)) p)).

Section ProviderLevel.
  Variable persist : bool.                              (* Close keeps the data and the configuration (a database on disk) *)
  Variable sstep : store -> op -> store * out.          (* the store-level machine *)
  Definition pstep (p : pstate) (o : pop) : pstate * pout :=
    match o with
    | POpen n =>
        if N.eqb n 0 then (p, PErr) else
        match plookup p n with
        | Some s => (pset p n (mk_ss (ss_data s) (ss_cfg s) true), PDone)
        | None => (pset p n (mk_ss [] [] true), PDone)
        end
    | PSetCfg n tags =>
        if existsb (N.eqb colon) tags then (p, PErr) else
        match plookup p n with
        | Some s => if ss_open s then (pset p n (mk_ss (ss_data s) tags true), PDone) else (p, PNoStore)
        | None => (p, PNoStore)
        end
    | PGetCfg n =>
        match plookup p n with
        | Some s => if ss_open s || persist then (p, PCfg (ss_cfg s)) else (p, PNoStore)
        | None => (p, PNoStore)
        end
    | PGetOpen => (p, POpenSet (open_names p))
    | PClose =>
        (if persist then map (fun ns => (fst ns, mk_ss (ss_data (snd ns)) (ss_cfg (snd ns)) false)) p else [], PDone)
    | PStoreClose n =>
        match plookup p n with
        | Some s => ((if persist then pset p n (mk_ss (ss_data s) (ss_cfg s) false) else premove p n), PDone)
        | None => (p, PDone)
        end
    | PStore n o =>
        match plookup p n with
        | Some s => if ss_open s then let '(d, x) := sstep (ss_data s) o in (pset p n (mk_ss d (ss_cfg s) true), POut x)
                    else (p, PErr)
        | None => (p, PErr)
        end
    end.
  Fixpoint prun (p : pstate) (ops : list pop) : list pout :=
    match ops with [] => [] | o :: r => let '(p1, x) := pstep p o in x :: prun p1 r end.
End ProviderLevel.

(* the documented provider-level contract, and the in-memory provider (Close deletes the store, data and configuration) *)
Definition pspec_step (persist : bool) := pstep persist (spec_step persist).
Definition mem_pstep := pstep false (mem_step true).
