(* C11 — lemmas: the batching wrapper over any provider that simulates the contract. *)
From Coq Require Import List NArith ZArith Bool Lia.
Import ListNotations.
From VF Require Import C11.Model C11.Proofs.
Local Open Scope N_scope.

(* [gb]: what the guard on the operations guarantees for every queued batch operation *)
Definition wf_queue (gb : bop -> bool) (q : list bop) : Prop :=
  forallb gb q = true /\ has_empty_key (map bop_key q) = false.

Definition batched_rel {P : prov} (gb : bop -> bool) (l : Z) (R : St P -> store -> Prop) (s : St (batched l P)) (a : store) : Prop :=
  exists a0, R (fst s) a0 /\ a = apply_batch a0 (snd s) /\ wf_queue gb (snd s).

Lemma apply_batch_snoc a q b : apply_batch a (q ++ [b]) = apply_bop (apply_batch a q) b.
Proof. unfold apply_batch. rewrite fold_left_app. reflexivity. Qed.

Lemma wf_queue_snoc gb q b : wf_queue gb q -> gb b = true -> bop_key b <> 0 -> wf_queue gb (q ++ [b]).
Proof. intros [H1 H2] Hb Hk. split.
  - rewrite forallb_app, H1. cbn. rewrite Hb. reflexivity.
  - unfold has_empty_key in *. rewrite map_app, existsb_app. apply orb_false_intro; [exact H2|].
    cbn [map existsb]. destruct (N.eqb_spec 0 (bop_key b)) as [E|_]; [symmetry in E; contradiction|reflexivity]. Qed.

Section B.
  Variable G : op -> bool.
  Variable gb : bop -> bool.
  Variable pers : bool.
  Variable l : Z.
  Variable P : prov.
  Variable R : St P -> store -> Prop.
  Hypothesis HGb : forall q, forallb gb q = true -> G (Batch q) = true.
  Hypothesis HP : sim G pers P R.

  Lemma bflush_ok m q a0 : R m a0 -> wf_queue gb q ->
    R (fst (fst (bflush P (m, q)))) (apply_batch a0 q) /\ snd (fst (bflush P (m, q))) = [] /\ snd (bflush P (m, q)) = ODone.
  Proof.
    intros HR [Hq1 Hq2]. unfold bflush. destruct q as [|x r].
    - cbn. auto.
    - pose proof (HP m a0 (Batch (x :: r)) (HGb _ Hq1) HR) as [H1 H2].
      destruct (step P m (Batch (x :: r))) as [m1 y]. cbn [fst snd] in H1, H2.
      cbn [spec_step] in H1, H2. rewrite Hq2 in H1, H2. cbn [is_nil orb fst snd] in H1, H2. subst y. cbn. auto.
  Qed.

  Lemma bflush_rel s a : batched_rel gb l R s a ->
    batched_rel gb l R (fst (bflush P s)) a /\ snd (fst (bflush P s)) = [] /\ snd (bflush P s) = ODone /\ R (fst (fst (bflush P s))) a.
  Proof.
    destruct s as [m q]. intros [a0 [HR [-> Hq]]]. cbn [fst snd] in *.
    destruct (bflush_ok m q a0 HR Hq) as [H1 [H2 H3]].
    split; [|auto]. exists (apply_batch a0 q). rewrite H2. split; [assumption|]. split; [reflexivity|]. split; reflexivity.
  Qed.

  Lemma benqueue_rel s a b : batched_rel gb l R s a -> gb b = true -> bop_key b <> 0 ->
    batched_rel gb l R (fst (benqueue l P s b)) (apply_bop a b) /\ snd (benqueue l P s b) = ODone.
  Proof.
    destruct s as [m q]. intros [a0 [HR [-> Hq]]] Hb Hk. cbn [fst snd] in *.
    pose proof (wf_queue_snoc gb q b Hq Hb Hk) as Hq1.
    unfold benqueue. destruct (Z.leb l (Z.of_nat (length (q ++ [b])))).
    - assert (Hrel : batched_rel gb l R (m, q ++ [b]) (apply_bop (apply_batch a0 q) b)).
      { exists a0. cbn [fst snd]. split; [assumption|]. split; [symmetry; apply apply_batch_snoc|assumption]. }
      destruct (bflush_rel _ _ Hrel) as [H1 [_ [H3 _]]]. auto.
    - cbn [fst snd]. split; [|reflexivity]. exists a0. cbn [fst snd]. split; [assumption|].
      split; [symmetry; apply apply_batch_snoc|assumption].
  Qed.

  Lemma benqueue_all_rel bs : forall s a, batched_rel gb l R s a -> forallb gb bs = true ->
    has_empty_key (map bop_key bs) = false ->
    batched_rel gb l R (fst (benqueue_all l P s bs)) (apply_batch a bs) /\ snd (benqueue_all l P s bs) = ODone.
  Proof.
    induction bs as [|b r IH]; intros s a Hrel Hw Hk.
    - cbn. auto.
    - cbn in Hw. apply andb_prop in Hw as [Hb Hr].
      unfold has_empty_key in Hk. cbn in Hk. apply orb_false_elim in Hk as [Hk1 Hk2].
      assert (Hkb : bop_key b <> 0). { intros E. rewrite E in Hk1. discriminate. }
      destruct (benqueue_rel s a b Hrel Hb Hkb) as [H1 H2].
      cbn [benqueue_all]. destruct (benqueue l P s b) as [s1 y]. cbn [fst snd] in H1, H2. subst y. cbn [is_done].
      apply (IH s1 (apply_bop a b) H1 Hr Hk2).
  Qed.

  Lemma bread_rel s a o : G o = true -> batched_rel gb l R s a ->
    batched_rel gb l R (fst (bread P s o)) (fst (spec_step pers a o)) /\
    snd (bread P s o) = match snd (spec_step pers a o) with ODone => OErr | x => x end.
  Proof.
    intros Ho Hrel. destruct (bflush_rel s a Hrel) as [H1 [H2 [H3 H4]]].
    unfold bread. destruct (bflush P s) as [s1 y]. cbn [fst snd] in *. subst y. cbn [is_done].
    pose proof (HP (fst s1) a o Ho H4) as [H5 H6].
    destruct (step P (fst s1) o) as [m2 r]. cbn [fst snd] in *. subst r. split; [|destruct (snd (spec_step pers a o)); reflexivity].
    exists (fst (spec_step pers a o)). cbn [fst snd]. rewrite H2. split; [assumption|]. split; [reflexivity|split; reflexivity].
  Qed.

  Hypothesis Hgput : forall k v t, G (Put k v t) = true -> valid_put k v t = true -> gb (k, v, t) = true.
  Hypothesis Hgdel : forall k, gb (k, 0, []) = true.
  Hypothesis Hgbatch : forall b, G (Batch b) = true -> forallb gb b = true.
  Hypothesis HGr : G Reopen = true.
  Hypothesis HGf : G Flush = true.

  Lemma batched_sim : sim G pers (batched l P) (batched_rel gb l R).
  Proof.
    intros s a o Ho Hrel.
    destruct o as [k v t|k|k|ks|q|k|b| |]; cbn [step batched batched_step].
    - (* Put *) cbn [spec_step]. destruct (valid_put k v t) eqn:Ev; [|cbn; auto].
      pose proof (Hgput k v t Ho Ev) as Hb.
      assert (Hk : bop_key (k, v, t) <> 0).
      { cbn. unfold valid_put in Ev. intros ->. cbn in Ev. discriminate. }
      assert (Hv : (v =? 0) = false).
      { unfold valid_put in Ev. destruct (v =? 0); [|reflexivity]. rewrite andb_false_r in Ev. discriminate. }
      destruct (benqueue_rel s a (k, v, t) Hrel Hb Hk) as [H1 H2].
      cbn [fst snd]. unfold apply_bop in H1. rewrite Hv in H1. auto.
    - (* Get *) destruct (bread_rel s a (Get k) Ho Hrel) as [H1 H2]. split; [assumption|]. etransitivity; [exact H2|].
      cbn. destruct (k =? 0); [reflexivity|]. cbn. destruct (lookup a k) as [[? ?]|]; reflexivity.
    - (* GetTags *) destruct (bread_rel s a (GetTags k) Ho Hrel) as [H1 H2]. split; [assumption|]. etransitivity; [exact H2|].
      cbn. destruct (k =? 0); [reflexivity|]. cbn. destruct (lookup a k) as [[? ?]|]; reflexivity.
    - (* GetBulk *) destruct (bread_rel s a (GetBulk ks) Ho Hrel) as [H1 H2]. split; [assumption|]. etransitivity; [exact H2|].
      cbn. destruct (is_nil ks || has_empty_key ks); reflexivity.
    - (* Query *) destruct (bread_rel s a (Query q) Ho Hrel) as [H1 H2]. split; [assumption|]. etransitivity; [exact H2|].
      cbn. destruct (is_nil q); reflexivity.
    - (* Delete *) cbn [spec_step]. destruct (N.eqb_spec k 0) as [->|Hk]; [cbn; auto|].
      destruct (benqueue_rel s a (k, 0, []) Hrel (Hgdel k) Hk) as [H1 H2]. cbn [fst snd]. auto.
    - (* Batch *) cbn [spec_step]. destruct (is_nil b || has_empty_key (map bop_key b)) eqn:E; [cbn; auto|].
      apply orb_false_elim in E as [_ E2]. cbn [fst snd]. apply benqueue_all_rel; [assumption|apply Hgbatch; exact Ho|assumption].
    - (* Flush *) destruct (bflush_rel s a Hrel) as [H1 [H2 [H3 H4]]].
      destruct (bflush P s) as [s1 y]. cbn [fst snd] in *. subst y. cbn [is_done].
      pose proof (HP (fst s1) a Flush Ho H4) as [H5 H6].
      destruct (step P (fst s1) Flush) as [m2 r]. cbn [fst snd spec_step] in *. subst r. cbn. split; [|reflexivity].
      exists a. cbn [fst snd]. rewrite H2. split; [assumption|]. split; [reflexivity|split; reflexivity].
    - (* Reopen *) destruct (bflush_rel s a Hrel) as [H1 [H2 [H3 H4]]].
      destruct (bflush P s) as [s1 y]. cbn [fst snd] in *. subst y. cbn [is_done].
      pose proof (HP (fst s1) a Flush HGf H4) as [H5 H6].
      destruct (step P (fst s1) Flush) as [m2 r]. cbn [fst snd spec_step] in *. subst r. cbn [is_done].
      pose proof (HP m2 a Reopen HGr H5) as [H7 H8].
      destruct (step P m2 Reopen) as [m3 r3]. cbn [fst snd spec_step] in *. subst r3. cbn. split; [|reflexivity].
      exists (if pers then a else []). cbn [fst snd]. split; [assumption|]. split; [reflexivity|split; reflexivity].
  Qed.
End B.

(* new (empty-queue) wrapper over a flushed store *)
Lemma batched_rel_fresh (P : prov) gb l (R : St P -> store -> Prop) m a : R m a -> batched_rel gb l R (m, []) a.
Proof. intros H. exists a. cbn. split; [assumption|]. split; [reflexivity|split; reflexivity]. Qed.
