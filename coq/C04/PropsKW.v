(* C04 — property theorems about key wrapping (tinkcrypto WrapKey / UnwrapKey); every proof is `exact <lemma>` or a
   closed computation.  The primitives (curve arithmetic, X25519, Concat-KDF, AES-KW, XC20P, base64url) are universally
   quantified; the ideal assumptions on them are the visible hypotheses kw_correct_hyps / kw_binding_hyps / kw_dh_hyps
   (ProofsKW.v), met by the executable instances of InstKW.v (Example kw_instance_meets_hypotheses). *)
From Coq Require Import List NArith Bool.
Import ListNotations.
From VF Require Import C04.Model C04.ModelKW C04.InstKW C04.ProofsKW C04.ProofsKWInst.
Local Open Scope N_scope.

(* FULL.  A cek wrapped to the exported public key of rk - any key type localkms creates for key wrapping (NIST P-256,
   P-384, P-521, X25519), ECDH-ES or ECDH-1PU with ANY sender keyset and tag, AES-KW or XC20P-KW, given or default apu -
   unwraps to exactly that cek under ANY recipient keyset whose primary key is rk (any number of other keys), with the
   sender's exported primary public key. *)
Theorem kw_roundtrip :
  forall ec_pub on_curve dh_ec okp_pub dh_okp kdf kw kw_un xc_seal xc_open b64,
  kw_correct_hyps ec_pub on_curve dh_ec okp_pub dh_okp kw kw_un xc_seal xc_open ->
  forall cek apu apv tag (sender : option kwks) (rks : kwks) rk xc eph nonce w,
  kprimary KwFixed rks = Some rk -> kw_valid rk -> length nonce = 24%nat ->
  kw_wrap ec_pub on_curve dh_ec okp_pub dh_okp kdf kw xc_seal b64 KwFixed cek apu apv tag sender
          (pub_of ec_pub okp_pub rk) xc eph nonce = Ok w ->
  kw_unwrap on_curve dh_ec dh_okp kdf kw_un xc_open KwFixed w tag (sender_pub ec_pub okp_pub KwFixed sender) rks = Ok cek.
Proof. exact kw_roundtrip_b. Qed.
Print Assumptions kw_roundtrip.

(* FULL (no hypothesis on the primitives).  With the public-key validation of fixes 9492c14 / b12c2a7 no input at all -
   off-curve or over-long keys, any alg, any key types - makes WrapKey or UnwrapKey panic. *)
Theorem kw_never_panics :
  forall ec_pub on_curve dh_ec okp_pub dh_okp kdf kw kw_un xc_seal xc_open b64,
  (forall cek apu apv tag sender rcp xc eph nonce,
     kw_wrap ec_pub on_curve dh_ec okp_pub dh_okp kdf kw xc_seal b64 KwFixed cek apu apv tag sender rcp xc eph nonce <> Panic) /\
  (forall w tag sp rks, kw_unwrap on_curve dh_ec dh_okp kdf kw_un xc_open KwFixed w tag sp rks <> Panic).
Proof.
  intros. split; [exact (kw_wrap_no_panic ec_pub on_curve dh_ec okp_pub dh_okp kdf kw xc_seal b64)
                 | exact (kw_unwrap_no_panic on_curve dh_ec dh_okp kdf kw_un xc_open)].
Qed.
Print Assumptions kw_never_panics.

(* AS-IS REFUTED (before 9492c14): an EPK with one byte changed (off the curve) made UnwrapKey panic; an altered
   recipient key made WrapKey panic.  (before b12c2a7): an X25519 EPK with a byte APPENDED still unwrapped. *)
Theorem kw_never_panics_asis_refuted :
  let rk := {| k_typ := TEC; k_crv := C256; k_priv := 10 |} in
  let rks := {| kk_keys := [rk]; kk_primary := 0 |} in
  match i_wrap KwFixed (repeat 5 32) [1] [3] [4] None (i_pub_of rk) false 40 (repeat 9 24) with
  | Ok w =>
      let bad := {| p_typ := TEC; p_crv := C256; p_x := p_x (w_epk w); p_y := be_bytes (of_be (p_y (w_epk w)) + 1) |} in
      let w' := {| w_alg := w_alg w; w_enc := w_enc w; w_epk := bad; w_apu := w_apu w; w_apv := w_apv w |} in
      i_unwrap KwFixed w [4] None rks = Ok (repeat 5 32) /\ i_unwrap KwAsIs w' [4] None rks = Panic /\ i_unwrap KwFixed w' [4] None rks = Err /\
      i_wrap KwAsIs (repeat 5 32) [1] [3] [4] None bad false 40 (repeat 9 24) = Panic
  | _ => False
  end /\
  let ok := {| k_typ := TOKP; k_crv := C25519; k_priv := 10 |} in
  let oks := {| kk_keys := [ok]; kk_primary := 0 |} in
  match i_wrap KwFixed (repeat 5 32) [1] [3] [4] None (i_pub_of ok) false 40 (repeat 9 24) with
  | Ok w =>
      let long := {| p_typ := TOKP; p_crv := C25519; p_x := p_x (w_epk w) ++ [7]; p_y := [] |} in
      let w' := {| w_alg := w_alg w; w_enc := w_enc w; w_epk := long; w_apu := w_apu w; w_apv := w_apv w |} in
      i_unwrap KwAsIs w' [4] None oks = Ok (repeat 5 32) /\ i_unwrap KwFixed w' [4] None oks = Err
  | _ => False
  end.
Proof. vm_compute. repeat split. Qed.
Print Assumptions kw_never_panics_asis_refuted.

(* PARTIAL (guard: the presented alg is of the same wrap family - AES-KW or XC20P - as the genuine one; a change of family
   is compared with the implementation on every run, not proved).  The genuine encrypted key presented in ANY context -
   any alg of that family, any epk, apu, apv, tag, sender key and recipient keyset: if UnwrapKey succeeds then with the
   original cek, and alg, apu, apv and (ECDH-1PU) the tag are the original ones, and the recipient derived exactly the
   sender's shared secret Z. *)
Theorem kw_genuine_accepted_only_in_context_partial :
  forall ec_pub on_curve dh_ec okp_pub dh_okp kdf kw kw_un xc_seal xc_open b64,
  kw_correct_hyps ec_pub on_curve dh_ec okp_pub dh_okp kw kw_un xc_seal xc_open ->
  kw_binding_hyps kdf kw kw_un xc_seal xc_open ->
  forall cek apu apv tag (sender : option kwks) rcp xc eph nonce w alg' epk' apu' apv' tag' (sender' : option pubkey) (rks' : kwks) m,
  length nonce = 24%nat ->
  kw_wrap ec_pub on_curve dh_ec okp_pub dh_okp kdf kw xc_seal b64 KwFixed cek apu apv tag sender rcp xc eph nonce = Ok w ->
  is_xc alg' = is_xc (w_alg w) ->
  kw_unwrap on_curve dh_ec dh_okp kdf kw_un xc_open KwFixed
            {| w_alg := alg'; w_enc := w_enc w; w_epk := epk'; w_apu := apu'; w_apv := apv' |} tag' sender' rks' = Ok m ->
  m = cek /\ alg' = w_alg w /\ apu' = w_apu w /\ apv' = w_apv w /\ (is_pu alg' = true -> tag' = tag) /\
  exists rk' z, kprimary KwFixed rks' = Some rk' /\ unwrap_z on_curve dh_ec dh_okp KwFixed alg' epk' sender' rk' = Ok z /\
                wrap_z ec_pub on_curve dh_ec okp_pub dh_okp KwFixed sender rcp eph = Ok (z, w_epk w).
Proof. exact kw_genuine_accepted_only_in_context_partial_b. Qed.
Print Assumptions kw_genuine_accepted_only_in_context_partial.

(* FULL.  Another recipient key of the same type and curve (another scalar) never unwraps it. *)
Theorem kw_other_recipient_key_rejected :
  forall ec_pub on_curve dh_ec okp_pub dh_okp kdf kw kw_un xc_seal xc_open b64,
  kw_correct_hyps ec_pub on_curve dh_ec okp_pub dh_okp kw kw_un xc_seal xc_open ->
  kw_binding_hyps kdf kw kw_un xc_seal xc_open -> kw_dh_hyps on_curve dh_ec dh_okp ->
  forall cek apu apv tag (sender : option kwks) rk xc eph nonce w rks' rk' m,
  kw_valid rk -> length nonce = 24%nat ->
  kw_wrap ec_pub on_curve dh_ec okp_pub dh_okp kdf kw xc_seal b64 KwFixed cek apu apv tag sender (pub_of ec_pub okp_pub rk) xc eph nonce = Ok w ->
  kprimary KwFixed rks' = Some rk' -> k_typ rk' = k_typ rk -> k_crv rk' = k_crv rk ->
  kw_unwrap on_curve dh_ec dh_okp kdf kw_un xc_open KwFixed w tag (sender_pub ec_pub okp_pub KwFixed sender) rks' = Ok m ->
  k_priv rk' = k_priv rk.
Proof. exact kw_other_recipient_key_rejected_b. Qed.
Print Assumptions kw_other_recipient_key_rejected.

(* GUARD EXACT for the EPK.  With everything else genuine, an EPK of the same key type is accepted ONLY IF it denotes the
   same point: EC - the same pair of integers (big.Int.SetBytes: a coordinate with leading zero bytes is the same
   integer); X25519 - the same 32 bytes up to the top bit of the last byte, which X25519 ignores (RFC 7748).  Every
   other altered EPK is rejected.  The two byte-level exceptions are real (kw_epk_encoding_refuted below). *)
Theorem kw_other_epk_rejected_partial :
  forall ec_pub on_curve dh_ec okp_pub dh_okp kdf kw kw_un xc_seal xc_open b64,
  kw_correct_hyps ec_pub on_curve dh_ec okp_pub dh_okp kw kw_un xc_seal xc_open ->
  kw_binding_hyps kdf kw kw_un xc_seal xc_open -> kw_dh_hyps on_curve dh_ec dh_okp ->
  forall cek apu apv tag (sender : option kwks) rk xc eph nonce w rks epk' m,
  kw_valid rk -> length nonce = 24%nat ->
  kw_wrap ec_pub on_curve dh_ec okp_pub dh_okp kdf kw xc_seal b64 KwFixed cek apu apv tag sender (pub_of ec_pub okp_pub rk) xc eph nonce = Ok w ->
  kprimary KwFixed rks = Some rk -> p_typ epk' = p_typ (w_epk w) ->
  kw_unwrap on_curve dh_ec dh_okp kdf kw_un xc_open KwFixed
            {| w_alg := w_alg w; w_enc := w_enc w; w_epk := epk'; w_apu := w_apu w; w_apv := w_apv w |}
            tag (sender_pub ec_pub okp_pub KwFixed sender) rks = Ok m ->
  same_point (w_epk w) epk'.
Proof. exact kw_other_epk_rejected_partial_b. Qed.
Print Assumptions kw_other_epk_rejected_partial.

(* REFUTED at byte level (why the EPK theorem is about points): an EC EPK whose X got a leading zero byte, and an X25519
   EPK whose last byte had its top bit flipped, still unwrap (single-position alterations; confirmed on the real code
   on every run: harness probes epk.x-ins / epk.x-sub with `same point`). *)
Theorem kw_epk_encoding_refuted :
  (let rk := {| k_typ := TEC; k_crv := C384; k_priv := 10 |} in
   let rks := {| kk_keys := [rk]; kk_primary := 0 |} in
   match i_wrap KwFixed (repeat 5 32) [1] [3] [4] None (i_pub_of rk) false 40 (repeat 9 24) with
   | Ok w => let e := {| p_typ := TEC; p_crv := C384; p_x := 0 :: p_x (w_epk w); p_y := p_y (w_epk w) |} in
             p_x e <> p_x (w_epk w) /\
             i_unwrap KwFixed {| w_alg := w_alg w; w_enc := w_enc w; w_epk := e; w_apu := w_apu w; w_apv := w_apv w |} [4] None rks
             = Ok (repeat 5 32)
   | _ => False
   end) /\
  (let rk := {| k_typ := TOKP; k_crv := C25519; k_priv := 10 |} in
   let rks := {| kk_keys := [rk]; kk_primary := 0 |} in
   match i_wrap KwFixed (repeat 5 32) [1] [3] [4] None (i_pub_of rk) true 40 (repeat 9 24) with
   | Ok w => let e := {| p_typ := TOKP; p_crv := C25519; p_x := firstn 31 (p_x (w_epk w)) ++ [77 + 128]; p_y := [] |} in
             p_x e <> p_x (w_epk w) /\
             i_unwrap KwFixed {| w_alg := w_alg w; w_enc := w_enc w; w_epk := e; w_apu := w_apu w; w_apv := w_apv w |} [4] None rks
             = Ok (repeat 5 32)
   | _ => False
   end).
Proof. vm_compute. repeat split; discriminate. Qed.
Print Assumptions kw_epk_encoding_refuted.

(* FULL (ECDH-1PU).  With everything else genuine, another sender public key of the same key type is accepted only if
   it denotes the sender's point. *)
Theorem kw_other_sender_rejected :
  forall ec_pub on_curve dh_ec okp_pub dh_okp kdf kw kw_un xc_seal xc_open b64,
  kw_correct_hyps ec_pub on_curve dh_ec okp_pub dh_okp kw kw_un xc_seal xc_open ->
  kw_binding_hyps kdf kw kw_un xc_seal xc_open -> kw_dh_hyps on_curve dh_ec dh_okp ->
  forall cek apu apv tag (sks : kwks) sk rk xc eph nonce w rks sp' m,
  kw_valid rk -> length nonce = 24%nat ->
  kw_wrap ec_pub on_curve dh_ec okp_pub dh_okp kdf kw xc_seal b64 KwFixed cek apu apv tag (Some sks) (pub_of ec_pub okp_pub rk) xc eph nonce = Ok w ->
  kprimary KwFixed rks = Some rk -> kprimary KwFixed sks = Some sk -> p_typ sp' = p_typ (pub_of ec_pub okp_pub sk) ->
  kw_unwrap on_curve dh_ec dh_okp kdf kw_un xc_open KwFixed w tag (Some sp') rks = Ok m ->
  match p_typ (w_epk w) with
  | TEC => pt_of (pub_of ec_pub okp_pub sk) = pt_of sp'
  | _ => unorm (arr32 (p_x (pub_of ec_pub okp_pub sk))) = unorm (arr32 (p_x sp'))
  end.
Proof. exact kw_other_sender_rejected_b. Qed.
Print Assumptions kw_other_sender_rejected.

(* what the code does with rotated recipient handles (faithful, stated so that it is not mistaken for the AEAD
   behaviour): UnwrapKey uses ONLY the primary key of the handle - a key wrapped to a key that has since been rotated out
   of the primary position no longer unwraps with the rotated handle (localkms.Rotate also gives the handle a new id);
   AS-IS before a077813 it used the FIRST key: after one rotation the key wrapped to the new primary did not unwrap. *)
Theorem kw_unwrap_uses_primary_only_and_first_key_asis_refuted :
  let k0 := {| k_typ := TEC; k_crv := C256; k_priv := 10 |} in
  let k1 := {| k_typ := TEC; k_crv := C256; k_priv := 11 |} in
  let rot := {| kk_keys := [k0; k1]; kk_primary := 1 |} in
  match i_wrap KwFixed (repeat 5 32) [1] [3] [4] None (i_pub_of k1) false 40 (repeat 9 24),
        i_wrap KwFixed (repeat 5 32) [1] [3] [4] None (i_pub_of k0) false 40 (repeat 9 24) with
  | Ok w1, Ok w0 =>
      i_unwrap KwFixed w1 [4] None rot = Ok (repeat 5 32) /\ i_unwrap KwAsIs0 w1 [4] None rot = Err /\
      i_unwrap KwFixed w0 [4] None rot = Err /\ i_unwrap KwFixed w0 [4] None {| kk_keys := [k0]; kk_primary := 0 |} = Ok (repeat 5 32)
  | _, _ => False
  end.
Proof. vm_compute. repeat split. Qed.
Print Assumptions kw_unwrap_uses_primary_only_and_first_key_asis_refuted.

(* ===== non-vacuity ===== *)
Example kw_instance_meets_hypotheses :
  kw_correct_hyps i_ec_pub i_on_curve i_dh_ec i_okp_pub i_dh_okp i_kw i_kw_un i_xc_seal i_xc_open /\
  kw_binding_hyps i_kdf i_kw i_kw_un i_xc_seal i_xc_open /\
  kw_dh_hyps i_on_curve i_dh_ec i_dh_okp.
Proof.
  split; [|split].
  - exact (conj i_on (conj i_comm (conj i_olen (conj i_ocomm (conj i_kw_ok (conj i_kw_len i_xc_ok)))))).
  - exact (conj i_kdf_inj (conj i_kw_auth (conj i_kw_inj (conj i_xc_auth i_xc_inj)))).
  - exact (conj i_ec_inj_point (conj i_ec_inj_scalar (conj i_ec_cat (conj i_okp_inj_point (conj i_okp_inj_scalar i_okp_cat))))).
Qed.

(* ECDH-1PU on P-521 with XC20P after two sender rotations and one recipient rotation: round trip, and every single
   altered field is rejected *)
Example kw_1pu_nonvacuous :
  let rk i := {| k_typ := TEC; k_crv := C521; k_priv := 10 + i |} in
  let sk i := {| k_typ := TEC; k_crv := C521; k_priv := 20 + i |} in
  let rks := {| kk_keys := [rk 0; rk 1]; kk_primary := 1 |} in
  let sks := {| kk_keys := [sk 0; sk 1; sk 2]; kk_primary := 2 |} in
  let cek := repeat 5 32 in
  match i_wrap KwFixed cek [] [3] [4] (Some sks) (i_pub_of (rk 1)) true 40 (repeat 9 24) with
  | Ok w =>
      w_alg w = PuXC /\ length (p_x (w_epk w)) = 66%nat /\
      i_unwrap KwFixed w [4] (Some (i_pub_of (sk 2))) rks = Ok cek /\
      i_unwrap KwFixed w [5] (Some (i_pub_of (sk 2))) rks = Err /\
      i_unwrap KwFixed w [4] (Some (i_pub_of (sk 1))) rks = Err /\
      i_unwrap KwFixed w [4] None rks = Err /\
      i_unwrap KwFixed w [4] (Some (i_pub_of (sk 2))) {| kk_keys := [rk 0; rk 1]; kk_primary := 0 |} = Err /\
      i_unwrap KwFixed {| w_alg := PuA256; w_enc := w_enc w; w_epk := w_epk w; w_apu := w_apu w; w_apv := w_apv w |}
               [4] (Some (i_pub_of (sk 2))) rks = Err /\
      i_unwrap KwFixed {| w_alg := w_alg w; w_enc := w_enc w; w_epk := w_epk w; w_apu := w_apu w ++ [0]; w_apv := w_apv w |}
               [4] (Some (i_pub_of (sk 2))) rks = Err
  | _ => False
  end.
Proof. vm_compute. repeat split. Qed.
