(* C04 — executable symbolic instances of the key-wrapping primitives (used by Corr.v; ProofsKW.v shows that they
   satisfy every ideal-primitive hypothesis of the key-wrap theorems). *)
From Coq Require Import List NArith Bool.
Import ListNotations.
From VF Require Import C04.Model C04.Inst C04.ModelKW.
Local Open Scope N_scope.

(* curve points: scalar a |-> (B + a, B + a + 1) with B = 2^(8n-1): full-size coordinates; a pair is "on the curve"
   iff it has this shape, so that changing any byte of one coordinate leaves the curve *)
Definition Bc (c : crv) : N := 2 ^ (8 * N.of_nat (csize c) - 1).
Definition i_ec_pub (c : crv) (a : N) : N * N := (Bc c + a, Bc c + a + 1).
Definition i_on_curve (c : crv) (p : N * N) : bool := (Bc c <=? fst p) && (snd p =? fst p + 1).
Definition i_dh_ec (c : crv) (a : N) (p : N * N) : bytes := [(a + 1) * (fst p - Bc c + 1)].

(* X25519: 32 "bytes"; the shared secret depends on the u-coordinate with its top bit masked *)
Definition i_okp_pub (a : N) : bytes := a :: zeros 30 ++ [77].
Definition i_dh_okp (a : N) (u : bytes) : bytes := lp (((a + 1) * (hd0 u + 1)) :: tl (unorm u)).

Definition opt_code (t : option bytes) : bytes := match t with None => [0] | Some b => 1 :: lp b end.
Definition i_kdf (alg : N) (z apu apv : bytes) (t : option bytes) (size : nat) : bytes :=
  alg :: lp z ++ lp apu ++ lp apv ++ N.of_nat size :: opt_code t.

(* AES-KW: output length = 8 * (1 + |kek|) + |cek| (a multiple of 8 whenever the input is, never 0) *)
Definition kwp (k : bytes) : bytes := lp k ++ zeros (7 * (1 + length k)).
Definition i_kw (k m : bytes) : bytes := kwp k ++ m.
Definition i_kw_un (k c : bytes) : option bytes := strip_prefix (kwp k) c.
Definition i_xc_seal (k n m : bytes) : bytes := lp k ++ lp n ++ m.
Definition i_xc_open (k n c : bytes) : option bytes :=
  match strip_prefix (lp k) c with Some r => strip_prefix (lp n) r | None => None end.
Definition i_b64 (b : bytes) : bytes := 64 :: b.

Definition i_wrap := kw_wrap i_ec_pub i_on_curve i_dh_ec i_okp_pub i_dh_okp i_kdf i_kw i_xc_seal i_b64.
Definition i_unwrap := kw_unwrap i_on_curve i_dh_ec i_dh_okp i_kdf i_kw_un i_xc_open.
Definition i_pub_of := pub_of i_ec_pub i_okp_pub.
