(* C04 — lemmas: big-endian bytes, IEEE-P1363 codec, DER strictness. *)
From Coq Require Import List NArith ZArith Bool Lia ZifyN ZifyNat ZifyBool.
Import ListNotations.
From VF Require Import C04.Model.
Local Open Scope N_scope.

(* ---------- bytes_eqb ---------- *)
Lemma bytes_eqb_eq : forall a b, bytes_eqb a b = true <-> a = b.
Proof.
  induction a as [|x a IH]; intros [|y b]; simpl; split; intro H; try reflexivity; try discriminate.
  - apply andb_true_iff in H as [H1 H2]. apply N.eqb_eq in H1. apply IH in H2. subst; reflexivity.
  - inversion H; subst. rewrite N.eqb_refl. simpl. apply IH; reflexivity.
Qed.
Lemma bytes_eqb_refl a : bytes_eqb a a = true.
Proof. apply bytes_eqb_eq; reflexivity. Qed.

(* ---------- little-endian value ---------- *)
Definition of_le (l : bytes) : N := fold_right (fun b a => a * 256 + b) 0 l.

Lemma of_be_rev l : of_be (rev l) = of_le l.
Proof.
  induction l as [|x l IH]; [reflexivity|].
  simpl rev. unfold of_be in *. rewrite fold_left_app. simpl. rewrite IH. reflexivity.
Qed.

Lemma le_digits_value : forall f n, n < 2 ^ N.of_nat f -> of_le (le_digits f n) = n.
Proof.
  induction f as [|f IH]; intros n Hn.
  - simpl in *. assert (n = 0) by lia. subst; reflexivity.
  - cbn [le_digits]. destruct (N.eqb_spec n 0) as [->|Hz]; [reflexivity|].
    cbn [of_le fold_right]. fold (of_le (le_digits f (n / 256))).
    rewrite IH.
    + pose proof (N.div_mod n 256). lia.
    + replace (N.of_nat (S f)) with (N.succ (N.of_nat f)) in Hn by lia.
      rewrite N.pow_succ_r' in Hn.
      apply N.div_lt_upper_bound; [lia|].
      assert (1 <= 2 ^ N.of_nat f) by (apply N.lt_pred_le, N.neq_0_lt_0, N.pow_nonzero; lia). nia.
Qed.

Lemma be_bytes_value n : of_be (be_bytes n) = n.
Proof.
  unfold be_bytes. rewrite of_be_rev. apply le_digits_value.
  rewrite N2Nat.id. apply N.size_gt.
Qed.

Lemma le_digits_length : forall f n k, n < 256 ^ N.of_nat k -> (length (le_digits f n) <= k)%nat.
Proof.
  induction f as [|f IH]; intros n k Hn; [simpl; lia|].
  cbn [le_digits]. destruct (N.eqb_spec n 0) as [->|Hz]; [simpl; lia|].
  destruct k as [|k]; [simpl in Hn; lia|].
  cbn [length]. apply le_n_S. apply IH.
  replace (N.of_nat (S k)) with (N.succ (N.of_nat k)) in Hn by lia.
  rewrite N.pow_succ_r' in Hn. apply N.div_lt_upper_bound; lia.
Qed.

Lemma be_bytes_length n k : n < 256 ^ N.of_nat k -> (length (be_bytes n) <= k)%nat.
Proof. intro H. unfold be_bytes. rewrite rev_length. apply le_digits_length; assumption. Qed.

Lemma le_digits_bound : forall f n, Forall (fun d => d < 256) (le_digits f n).
Proof.
  induction f as [|f IH]; intro n; [constructor|].
  cbn [le_digits]. destruct (n =? 0); constructor; [apply N.mod_lt; lia|apply IH].
Qed.
Lemma be_bytes_bound n : Forall (fun d => d < 256) (be_bytes n).
Proof. unfold be_bytes. apply Forall_rev, le_digits_bound. Qed.

(* ---------- of_be facts ---------- *)
Lemma of_be_zeros_app k l : of_be (zeros k ++ l) = of_be l.
Proof.
  unfold of_be. rewrite fold_left_app. f_equal.
  induction k as [|k IH]; [reflexivity|]. simpl. exact IH.
Qed.

Lemma of_le_inj : forall a b, length a = length b ->
  Forall (fun d => d < 256) a -> Forall (fun d => d < 256) b -> of_le a = of_le b -> a = b.
Proof.
  induction a as [|x a IH]; intros [|y b] Hl Ha Hb He; try discriminate; [reflexivity|].
  inversion Ha; subst. inversion Hb; subst. simpl in Hl, He.
  fold (of_le a) in He. fold (of_le b) in He.
  assert (x = y /\ of_le a = of_le b) as [-> Hr] by lia.
  f_equal. apply IH; auto.
Qed.

Lemma of_be_inj a b : length a = length b ->
  Forall (fun d => d < 256) a -> Forall (fun d => d < 256) b -> of_be a = of_be b -> a = b.
Proof.
  intros Hl Ha Hb He.
  rewrite <- (rev_involutive a), <- (rev_involutive b) in He. rewrite !of_be_rev in He.
  apply of_le_inj in He; [|rewrite !rev_length; exact Hl|apply Forall_rev; assumption|apply Forall_rev; assumption].
  rewrite <- (rev_involutive a), <- (rev_involutive b). f_equal. exact He.
Qed.

(* ---------- overlay ---------- *)
Lemma overlay_nil l : overlay l 0 [] = l.
Proof. destruct l; reflexivity. Qed.

Lemma overlay_skip : forall a b o src, overlay (a ++ b) (length a + o) src = a ++ overlay b o src.
Proof. induction a as [|x a IH]; intros; simpl; [reflexivity|]. rewrite IH. reflexivity. Qed.

Lemma overlay_exact : forall x src rest, length x = length src -> overlay (x ++ rest) 0 src = src ++ rest.
Proof.
  induction x as [|d x IH]; intros [|s src] rest Hl; try discriminate; simpl.
  - apply overlay_nil.
  - f_equal. apply IH. simpl in Hl. lia.
Qed.

Lemma zeros_length k : length (zeros k) = k.
Proof. apply repeat_length. Qed.
Lemma zeros_app a b : zeros (a + b) = zeros a ++ zeros b.
Proof. apply repeat_app. Qed.

Definition pad (n : nat) (l : bytes) : bytes := zeros (n - length l) ++ l.

Lemma pad_length n l : (length l <= n)%nat -> length (pad n l) = n.
Proof. intro H. unfold pad. rewrite app_length, zeros_length. lia. Qed.

Lemma p1363_encode_shape n r s :
  (length (be_bytes r) <= n)%nat -> (length (be_bytes s) <= n)%nat ->
  p1363_encode n r s = pad n (be_bytes r) ++ pad n (be_bytes s).
Proof.
  intros Hr Hs. unfold p1363_encode, pad. cbv zeta.
  set (rb := be_bytes r) in *. set (sb := be_bytes s) in *.
  assert (E0 : zeros (2 * n) = zeros (n - length rb) ++ (zeros (length rb) ++ zeros n)).
  { rewrite <- !zeros_app. f_equal. lia. }
  rewrite E0.
  assert (E1 : overlay (zeros (n - length rb) ++ zeros (length rb) ++ zeros n) (n - length rb) rb
               = zeros (n - length rb) ++ rb ++ zeros n).
  { pose proof (overlay_skip (zeros (n - length rb)) (zeros (length rb) ++ zeros n) 0 rb) as H.
    rewrite zeros_length, Nat.add_0_r in H. rewrite H. f_equal. apply overlay_exact. apply zeros_length. }
  rewrite E1.
  assert (E2 : zeros n = zeros (n - length sb) ++ zeros (length sb)).
  { rewrite <- zeros_app. f_equal. lia. }
  rewrite E2.
  set (A := zeros (n - length rb) ++ rb ++ zeros (n - length sb)).
  assert (E3 : zeros (n - length rb) ++ rb ++ zeros (n - length sb) ++ zeros (length sb) = A ++ zeros (length sb)).
  { unfold A. rewrite <- !app_assoc. reflexivity. }
  rewrite E3.
  assert (LA : length A = (n + (n - length sb))%nat).
  { unfold A. rewrite !app_length, !zeros_length. lia. }
  pose proof (overlay_skip A (zeros (length sb)) 0 sb) as H. rewrite LA, Nat.add_0_r in H. rewrite H.
  pose proof (overlay_exact (zeros (length sb)) sb [] (zeros_length _)) as H2. rewrite !app_nil_r in H2. rewrite H2.
  unfold A. rewrite <- !app_assoc. reflexivity.
Qed.

Lemma div2_double n : Nat.div2 (2 * n) = n.
Proof. replace (2 * n)%nat with (n + n)%nat by lia. induction n; [reflexivity|]. replace (S n + S n)%nat with (S (S (n + n))) by lia. simpl. f_equal. exact IHn. Qed.

Lemma p1363_roundtrip_l n r s :
  (1 <= n <= 66)%nat -> r < 256 ^ N.of_nat n -> s < 256 ^ N.of_nat n ->
  length (p1363_encode n r s) = (2 * n)%nat /\ p1363_decode (p1363_encode n r s) = Some (r, s).
Proof.
  intros Hn Hr Hs.
  apply be_bytes_length in Hr. apply be_bytes_length in Hs.
  rewrite p1363_encode_shape by assumption.
  assert (Hl : length (pad n (be_bytes r) ++ pad n (be_bytes s)) = (2 * n)%nat)
    by (rewrite app_length, !pad_length by assumption; lia).
  split; [exact Hl|].
  unfold p1363_decode. rewrite Hl.
  replace ((2 * n =? 0)%nat) with false by (symmetry; apply Nat.eqb_neq; lia).
  replace ((132 <? 2 * n)%nat) with false by (symmetry; apply Nat.ltb_ge; lia).
  replace (Nat.even (2 * n)) with true by (symmetry; apply Nat.even_spec; exists n; lia).
  cbn [orb negb]. rewrite div2_double.
  rewrite firstn_app, skipn_app, !pad_length by assumption.
  rewrite Nat.sub_diag. cbn [firstn skipn]. rewrite app_nil_r.
  rewrite firstn_all2 by (rewrite pad_length by assumption; lia).
  rewrite skipn_all2 by (rewrite pad_length by assumption; lia).
  cbn [app]. unfold pad. rewrite !of_be_zeros_app, !be_bytes_value. reflexivity.
Qed.

Lemma Forall_firstn' {A} (P : A -> Prop) : forall k l, Forall P l -> Forall P (firstn k l).
Proof. induction k; intros [|x l] H; simpl; try constructor; inversion H; subst; auto. Qed.
Lemma Forall_skipn' {A} (P : A -> Prop) : forall k l, Forall P l -> Forall P (skipn k l).
Proof. induction k; intros [|x l] H; simpl; auto. inversion H; subst; auto. Qed.

(* two accepted byte strings of the same length that decode to the same (r,s) are equal *)
Lemma p1363_decode_inj_l a b r s :
  Forall (fun d => d < 256) a -> Forall (fun d => d < 256) b -> length a = length b ->
  p1363_decode a = Some (r, s) -> p1363_decode b = Some (r, s) -> a = b.
Proof.
  intros Fa Fb Hl Ha Hb. unfold p1363_decode in *. rewrite <- Hl in Hb.
  destruct ((length a =? 0)%nat || (132 <? length a)%nat || negb (Nat.even (length a))); [discriminate|].
  inversion Ha as [[Hr Hs]]. inversion Hb as [[Hr' Hs']].
  rewrite <- (firstn_skipn (Nat.div2 (length a)) a), <- (firstn_skipn (Nat.div2 (length a)) b).
  f_equal.
  - apply of_be_inj; [rewrite !firstn_length; lia| apply Forall_firstn'; assumption | apply Forall_firstn'; assumption | congruence].
  - apply of_be_inj; [rewrite !skipn_length; lia| apply Forall_skipn'; assumption | apply Forall_skipn'; assumption | congruence].
Qed.

(* ---------- DER: strictness is by construction (parse, re-marshal, compare) ---------- *)
Lemma der_decode_strict_l b r s : der_decode b = Some (r, s) -> b = der_encode r s.
Proof.
  unfold der_decode. destruct (der_parse b) as [[x y]|]; [|discriminate].
  destruct (bytes_eqb (der_encode x y) b) eqn:E; [|discriminate].
  intro H; inversion H; subst. apply bytes_eqb_eq in E. symmetry; exact E.
Qed.

Lemma der_decode_inj_l a b r s : der_decode a = Some (r, s) -> der_decode b = Some (r, s) -> a = b.
Proof. intros Ha Hb. apply der_decode_strict_l in Ha, Hb. congruence. Qed.

(* a P1363 signature with ONE byte inserted or deleted has odd length and is rejected whatever the bytes are *)
Lemma p1363_odd_rejected_l b : Nat.even (length b) = false -> p1363_decode b = None.
Proof. intro H. unfold p1363_decode. rewrite H. simpl negb. rewrite !orb_true_r. reflexivity. Qed.
