(* C04 — executable model of tinkcrypto WrapKey / UnwrapKey (key_wrapper.go, wrap_support.go, unwrap_support.go).
   No proofs.  ECDH-ES and ECDH-1PU (sender key + tag), NIST-P and X25519 recipient keys, AES-KW and XC20P-KW,
   recipient / sender keysets with several keys (after Rotate), default apu, every check the code makes on
   key type / curve / alg / sizes, in the order that decides between an error and a panic.
   Primitives (scalar multiplication on the curves, X25519, Concat-KDF, AES key wrap, XChaCha20-Poly1305, base64url)
   are Section variables; ProofsKW.v states the ideal assumptions on them, InstKW.v gives executable instances. *)
From Coq Require Import List NArith Bool.
Import ListNotations.
From VF Require Import C04.Model.
Local Open Scope N_scope.

Inductive ktyp := TEC | TOKP | TOther.                         (* PublicKey.Type: "EC", "OKP", anything else *)
Inductive crv := C256 | C384 | C521 | C25519 | COther.         (* what hybrid.GetCurve / the key template say *)
(* spi/crypto.PublicKey as the derivations read it (KID is copied to the output and never read again) *)
Record pubkey := { p_typ : ktyp; p_crv : crv; p_x : bytes; p_y : bytes }.
(* one ECDH-KW private key of a keyset: Tink key type (NIST-P key manager / X25519 key manager), curve, scalar *)
Record kwkey := { k_typ : ktyp; k_crv : crv; k_priv : N }.
Record kwks := { kk_keys : list kwkey; kk_primary : nat }.

Inductive kwalg := EsA256 | EsXC | PuA128 | PuA192 | PuA256 | PuXC | AlgOther.
Record wrapped := { w_alg : kwalg; w_enc : bytes; w_epk : pubkey; w_apu : bytes; w_apv : bytes }.

Inductive res (A : Type) := Ok (a : A) | Err | Panic.
Arguments Ok {A}. Arguments Err {A}. Arguments Panic {A}.

(* code variants: kv_primary = extractPrivKey takes the PRIMARY key (fix a077813; false: the first key);
   kv_validate = public keys are validated before the derivation (fixes 9492c14: EC point on the curve; and the
   following commit: X25519 key of at most 32 bytes - shorter keys are still zero-filled, pinned by the package's tests) *)
Record kwvariant := { kv_primary : bool; kv_validate : bool }.
Definition KwFixed := {| kv_primary := true; kv_validate := true |}.
Definition KwAsIs := {| kv_primary := true; kv_validate := false |}.     (* before the validation fix *)
Definition KwAsIs0 := {| kv_primary := false; kv_validate := false |}.   (* before a077813 *)

Definition nist (c : crv) : bool := match c with C256 | C384 | C521 => true | _ => false end.
Definition crv_eqb (a b : crv) : bool :=
  match a, b with C256, C256 | C384, C384 | C521, C521 | C25519, C25519 | COther, COther => true | _, _ => false end.
Definition csize (c : crv) : nat := match c with C256 => 32 | C384 => 48 | C521 => 66 | _ => 32 end%nat.
Definition is_pu (a : kwalg) : bool := match a with PuA128 | PuA192 | PuA256 | PuXC => true | _ => false end.
Definition is_xc (a : kwalg) : bool := match a with EsXC | PuXC => true | _ => false end.
(* kdfWithTag's kdfKeySize / the 32 of the ES derivations *)
Definition kek_size (a : kwalg) : nat := match a with PuA128 => 16 | PuA192 => 24 | _ => 32 end%nat.
Definition alg_id (a : kwalg) : N :=
  match a with EsA256 => 1 | EsXC => 2 | PuA128 => 3 | PuA192 => 4 | PuA256 => 5 | PuXC => 6 | AlgOther => 7 end.

(* copy(arr[:], x) into a [32]byte: truncated or zero-filled *)
Definition arr32 (b : bytes) : bytes := firstn 32 (b ++ zeros 32).

(* RFC 7748: X25519 ignores the most significant bit of the last byte of the u-coordinate *)
Definition unorm (u : bytes) : bytes := firstn 31 u ++ map (fun x => x mod 128) (skipn 31 u).

Definition kprimary (v : kwvariant) (ks : kwks) : option kwkey :=
  if kv_primary v then nth_error (kk_keys ks) (kk_primary ks) else nth_error (kk_keys ks) 0.

Section KW.
  (* scalar -> affine coordinates of scalar*G ; is (x,y) on the curve ; ECDH: x-coordinate of scalar*(x,y), padded to
     the curve size (deriveECDH / go-jose DeriveECDHES) *)
  Variable ec_pub : crv -> N -> N * N.
  Variable on_curve : crv -> N * N -> bool.
  Variable dh_ec : crv -> N -> N * N -> bytes.
  (* X25519: public key of a scalar (32 bytes), shared secret *)
  Variable okp_pub : N -> bytes.
  Variable dh_okp : N -> bytes -> bytes.
  (* Concat-KDF over SHA-256: alg id, Z, apu, apv, tag (1PU only), key size *)
  Variable kdf : N -> bytes -> bytes -> bytes -> option bytes -> nat -> bytes.
  (* AES key wrap (RFC 3394) and XChaCha20-Poly1305 (key, nonce, message) *)
  Variable kw : bytes -> bytes -> bytes.
  Variable kw_un : bytes -> bytes -> option bytes.
  Variable xc_seal : bytes -> bytes -> bytes -> bytes.
  Variable xc_open : bytes -> bytes -> bytes -> option bytes.
  Variable b64 : bytes -> bytes.

  (* ExportPubKeyBytes of a key / the EPK the wrapper writes: coordinates as big.Int.Bytes() *)
  Definition pub_of (k : kwkey) : pubkey :=
    match k_typ k with
    | TOKP => {| p_typ := TOKP; p_crv := C25519; p_x := okp_pub (k_priv k); p_y := [] |}
    | _ => let xy := ec_pub (k_crv k) (k_priv k) in
           {| p_typ := TEC; p_crv := k_crv k; p_x := be_bytes (fst xy); p_y := be_bytes (snd xy) |}
    end.
  (* the sender's public key as the recipient gets it (ExportPubKeyBytes of the sender's handle: its primary key) *)
  Definition sender_pub (v : kwvariant) (s : option kwks) : option pubkey :=
    match s with None => None | Some ks => option_map pub_of (kprimary v ks) end.
  (* new(big.Int).SetBytes on both coordinates *)
  Definition pt_of (p : pubkey) : N * N := (of_be (p_x p), of_be (p_y p)).

  (* an EC public key entering a derivation: valid / rejected (validate) / panics later in the scalar multiplication *)
  Definition ec_guard {A} (v : kwvariant) (c : crv) (p : N * N) (k : res A) : res A :=
    if on_curve c p then k else if kv_validate v then Err else Panic.
  Definition okp_guard {A} (v : kwvariant) (x : bytes) (k : res A) : res A :=
    if kv_validate v && Nat.ltb 32 (length x) then Err else k.

  (* ---- wrapRaw / unwrapRaw ---- *)
  Definition wrap_raw (alg : kwalg) (kek cek nonce : bytes) : res bytes :=
    if is_xc alg then Ok (nonce ++ xc_seal kek nonce cek)
    else if Nat.eqb (Nat.modulo (length cek) 8) 0 then Ok (kw kek cek) else Err.
  Definition unwrap_raw (alg : kwalg) (kek enc : bytes) : res bytes :=
    if is_xc alg then
      if Nat.ltb (length enc) 24 then Err
      else match xc_open kek (firstn 24 enc) (skipn 24 enc) with Some m => Ok m | None => Err end
    else
      if Nat.eqb (length enc) 0 || negb (Nat.eqb (Nat.modulo (length enc) 8) 0) then Err
      else match kw_un kek enc with Some m => Ok m | None => Err end.

  (* ---- the key-encryption key on the sender's side ----
     eph: scalar of the ephemeral key the wrapper generates on the recipient's curve *)
  Definition wrap_alg (cek : bytes) (sender : option kwks) (xc : bool) : option kwalg :=
    match sender with
    | None => Some (if xc then EsXC else EsA256)
    | Some _ =>
        if xc then Some PuXC
        else match length cek with
             | 32%nat => Some PuA128 | 48%nat => Some PuA192 | 64%nat => Some PuA256 | _ => None
             end
    end.

  (* shared secret Z and EPK on the sender's side *)
  Definition wrap_z (v : kwvariant) (sender : option kwks) (rcp : pubkey) (eph : N) : res (bytes * pubkey) :=
    match p_typ rcp with
    | TOther => Err
    | TEC =>
        let c := p_crv rcp in
        let epk := pub_of {| k_typ := TEC; k_crv := c; k_priv := eph |} in
        match sender with
        | None =>
            if negb (nist c) then Err
            else ec_guard v c (pt_of rcp) (Ok (dh_ec c eph (pt_of rcp), epk))
        | Some sks =>
            match kprimary v sks with
            | None => Err
            | Some sk =>
                match k_typ sk with
                | TEC =>
                    if negb (nist c) then Err
                    else if negb (crv_eqb c (k_crv sk)) then Err
                    else ec_guard v c (pt_of rcp)
                           (Ok (dh_ec c eph (pt_of rcp) ++ dh_ec c (k_priv sk) (pt_of rcp), epk))
                | _ => Err
                end
            end
        end
    | TOKP =>
        let epk := {| p_typ := TOKP; p_crv := C25519; p_x := okp_pub eph; p_y := [] |} in
        let rx := arr32 (p_x rcp) in
        match sender with
        | None => okp_guard v (p_x rcp) (Ok (dh_okp eph rx, epk))
        | Some sks =>
            match kprimary v sks with
            | None => Err
            | Some sk =>
                match k_typ sk with
                | TOKP => okp_guard v (p_x rcp) (Ok (dh_okp eph rx ++ dh_okp (k_priv sk) rx, epk))
                | _ => Err
                end
            end
        end
    end.

  Definition tag_info (alg : kwalg) (tag : bytes) : option bytes := if is_pu alg then Some tag else None.

  (* (kek, epk, apu): apu defaults to base64url(epk.X) *)
  Definition wrap_kek (v : kwvariant) (alg : kwalg) (apu apv tag : bytes) (sender : option kwks) (rcp : pubkey)
    (eph : N) : res (bytes * pubkey * bytes) :=
    match wrap_z v sender rcp eph with
    | Ok (z, epk) =>
        let apu' := match apu with [] => b64 (p_x epk) | _ => apu end in
        Ok (kdf (alg_id alg) z apu' apv (tag_info alg tag) (kek_size alg), epk, apu')
    | Err => Err
    | Panic => Panic
    end.

  (* tinkcrypto.WrapKey.  nonce: the 24 random bytes of the XC20P wrap *)
  Definition kw_wrap (v : kwvariant) (cek apu apv tag : bytes) (sender : option kwks) (rcp : pubkey) (xc : bool)
    (eph : N) (nonce : bytes) : res wrapped :=
    match wrap_alg cek sender xc with
    | None => Err
    | Some alg =>
        match wrap_kek v alg apu apv tag sender rcp eph with
        | Ok (kek, epk, apu') =>
            match wrap_raw alg kek cek nonce with
            | Ok enc => Ok {| w_alg := alg; w_enc := enc; w_epk := epk; w_apu := apu'; w_apv := apv |}
            | Err => Err
            | Panic => Panic
            end
        | Err => Err
        | Panic => Panic
        end
    end.

  (* ---- the key-encryption key on the recipient's side ---- *)
  Definition unwrap_z (v : kwvariant) (alg : kwalg) (epk : pubkey) (sender : option pubkey) (rk : kwkey) : res bytes :=
    match alg with
    | AlgOther => Err
    | _ =>
      if is_pu alg then
        match sender with
        | None => Err
        | Some sp =>
            match p_typ epk with
            | TOther => Err
            | TEC =>
                if negb (nist (p_crv sp)) then Err
                else if negb (nist (p_crv epk)) then Err
                else match k_typ rk with
                     | TEC =>
                         let c := k_crv rk in
                         if negb (crv_eqb c (p_crv epk)) || negb (crv_eqb c (p_crv sp)) then Err
                         else ec_guard v c (pt_of epk) (ec_guard v c (pt_of sp)
                                (Ok (dh_ec c (k_priv rk) (pt_of epk) ++ dh_ec c (k_priv rk) (pt_of sp))))
                     | _ => Err
                     end
            | TOKP =>
                match k_typ rk with
                | TOKP =>
                    okp_guard v (p_x epk) (okp_guard v (p_x sp)
                      (Ok (dh_okp (k_priv rk) (arr32 (p_x epk)) ++ dh_okp (k_priv rk) (arr32 (p_x sp)))))
                | _ => Err
                end
            end
        end
      else
        match p_typ epk with
        | TOther => Err
        | TEC =>
            if negb (nist (p_crv epk)) then Err
            else match k_typ rk with
                 | TEC =>
                     let c := k_crv rk in
                     if negb (crv_eqb c (p_crv epk)) then Err
                     else ec_guard v c (pt_of epk) (Ok (dh_ec c (k_priv rk) (pt_of epk)))
                 | _ => Err
                 end
        | TOKP =>
            match k_typ rk with
            | TOKP => okp_guard v (p_x epk) (Ok (dh_okp (k_priv rk) (arr32 (p_x epk))))
            | _ => Err
            end
        end
    end.

  Definition unwrap_kek (v : kwvariant) (alg : kwalg) (epk : pubkey) (apu apv tag : bytes) (sender : option pubkey)
    (rk : kwkey) : res bytes :=
    match unwrap_z v alg epk sender rk with
    | Ok z => Ok (kdf (alg_id alg) z apu apv (tag_info alg tag) (kek_size alg))
    | Err => Err
    | Panic => Panic
    end.

  (* tinkcrypto.UnwrapKey: recipient handle rks (its primary key is used), sender = WithSender option, tag = WithTag *)
  Definition kw_unwrap (v : kwvariant) (w : wrapped) (tag : bytes) (sender : option pubkey) (rks : kwks) : res bytes :=
    match kprimary v rks with
    | None => Err
    | Some rk =>
        match unwrap_kek v (w_alg w) (w_epk w) (w_apu w) (w_apv w) tag sender rk with
        | Ok kek => unwrap_raw (w_alg w) kek (w_enc w)
        | Err => Err
        | Panic => Panic
        end
    end.
End KW.
