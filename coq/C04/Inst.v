(* C04 — executable symbolic instances of the primitive parameters (used by Corr.v; Proofs.v shows that they
   satisfy the ideal-primitive hypotheses, so the hypotheses are satisfiable). *)
From Coq Require Import List NArith ZArith Bool.
Import ListNotations.
From VF Require Import C04.Model.
Local Open Scope N_scope.

(* signatures: messages are abstract identifiers (N); deterministic, binds key and message *)
Definition inst_sign (opaque : bool) (k : N) (m : N) (rd : N) : sval :=
  if opaque then SBytes (k :: m :: zeros 62) else SRS (Z.of_N k + 1) (Z.of_N m + 1).
Definition inst_verify (opaque : bool) (k : N) (m : N) (v : sval) : bool :=
  match v with
  | SRS r s => negb opaque && Z.eqb r (Z.of_N k + 1) && Z.eqb s (Z.of_N m + 1)
  | SBytes b => opaque && bytes_eqb b (k :: m :: zeros 62)
  end.

(* full-size (r,s) for a curve of `bits`+1 significant bits (so that DER/P1363 lengths are realistic) *)
Definition inst_sign_big (bits : N) (k : N) (m : N) (rd : N) : sval :=
  SRS (Z.of_N (2 ^ bits + k + 1)) (Z.of_N (2 ^ bits + m + 1)).
Definition inst_verify_big (bits : N) (k : N) (m : N) (v : sval) : bool :=
  match v with
  | SRS r s => Z.eqb r (Z.of_N (2 ^ bits + k + 1)) && Z.eqb s (Z.of_N (2 ^ bits + m + 1))
  | SBytes _ => false
  end.

(* AEAD: body = rev (key :: len nonce :: nonce ++ len aad :: aad ++ len msg :: msg): an injective, self-delimiting
   encoding of everything an ideal AEAD binds, reversed so that no body is a proper suffix of another one *)
Fixpoint strip_prefix (p l : bytes) : option bytes :=
  match p, l with
  | [], _ => Some l
  | x :: pr, y :: lr => if x =? y then strip_prefix pr lr else None
  | _ :: _, [] => None
  end.
Definition lp (l : bytes) : bytes := N.of_nat (length l) :: l.
Definition inst_code (k : N) (nonce aad m : bytes) : bytes := k :: lp nonce ++ lp aad ++ lp m.
Definition inst_enc (k : N) (nonce aad m : bytes) : bytes := rev (inst_code k nonce aad m).
Definition inst_dec (k : N) (nonce aad c : bytes) : option bytes :=
  match rev c with
  | [] => None
  | k' :: r =>
      if k' =? k then
        match strip_prefix (lp nonce) r with
        | Some r2 =>
            match strip_prefix (lp aad) r2 with
            | Some (l :: m) => if l =? N.of_nat (length m) then Some m else None
            | _ => None
            end
        | None => None
        end
      else None
  end.

(* MAC: 32-byte tag binding key and data (data identified by its first byte in this toy instance is NOT enough
   for the hypotheses, so the whole data is included and the tag padded/truncated is avoided: tag = key :: data,
   padded with zeros to at least 32 bytes) *)
Definition inst_mac (k : N) (d : bytes) : bytes := (k :: d) ++ zeros (32 - length (k :: d)).
