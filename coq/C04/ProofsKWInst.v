(* C04 — the executable key-wrap instances (InstKW.v) satisfy every ideal-primitive hypothesis of ProofsKW.v. *)
From Coq Require Import List NArith Bool Lia Arith.
Import ListNotations.
From VF Require Import C04.Model C04.Inst C04.Proofs C04.ModelKW C04.InstKW.
Local Open Scope N_scope.

Lemma strip_prefix_app p m : strip_prefix p (p ++ m) = Some m.
Proof. induction p as [|x p IH]; simpl; [reflexivity|]. rewrite N.eqb_refl. exact IH. Qed.
Lemma strip_prefix_some : forall p l m, strip_prefix p l = Some m -> l = p ++ m.
Proof.
  induction p as [|x p IH]; simpl; intros l m H.
  - congruence.
  - destruct l as [|y l]; [discriminate|]. destruct (x =? y) eqn:E; [|discriminate].
    apply N.eqb_eq in E. subst y. f_equal. apply IH. exact H.
Qed.
Lemma lp_app_inj a r a' r' : lp a ++ r = lp a' ++ r' -> a = a' /\ r = r'.
Proof.
  unfold lp. simpl. intro H. injection H as Hl H. apply Nat2N.inj in Hl.
  assert (Ha : a = a' /\ r = r'); [|exact Ha].
  revert a' Hl H. induction a as [|x a IH]; intros [|y a'] Hl H; simpl in *; try discriminate.
  - auto.
  - injection H as -> H. injection Hl as Hl. destruct (IH a' Hl H) as [-> ->]. auto.
Qed.

Lemma cons_eq {A} (x y : A) l l' : x :: l = y :: l' -> x = y /\ l = l'.
Proof. intro H. injection H. auto. Qed.

(* ---- curves ---- *)
Lemma i_on c a : nist c = true -> i_on_curve c (i_ec_pub c a) = true.
Proof.
  intros _. unfold i_on_curve, i_ec_pub. simpl fst. simpl snd. rewrite N.eqb_refl, andb_true_r. apply N.leb_le. lia.
Qed.
Lemma i_sub c b : Bc c + b - Bc c + 1 = b + 1.
Proof. lia. Qed.
Lemma i_comm c a b : i_dh_ec c a (i_ec_pub c b) = i_dh_ec c b (i_ec_pub c a).
Proof. unfold i_dh_ec, i_ec_pub. simpl fst. rewrite !i_sub. f_equal. apply N.mul_comm. Qed.
Lemma i_ec_inj_point c a p p' : i_on_curve c p = true -> i_on_curve c p' = true ->
  i_dh_ec c a p = i_dh_ec c a p' -> p = p'.
Proof.
  unfold i_on_curve, i_dh_ec. destruct p as [x y], p' as [x' y']. simpl fst. simpl snd.
  intros H1 H2 H. apply andb_prop in H1. apply andb_prop in H2. destruct H1 as [L1 E1], H2 as [L2 E2].
  apply N.leb_le in L1, L2. apply N.eqb_eq in E1, E2. injection H as H.
  apply N.mul_cancel_l in H; [|lia]. assert (x = x') by lia. subst. reflexivity.
Qed.
Lemma i_ec_inj_scalar c a a' p : i_on_curve c p = true -> i_dh_ec c a p = i_dh_ec c a' p -> a = a'.
Proof.
  unfold i_dh_ec. intros _ H. injection H as H. apply N.mul_cancel_r in H; lia.
Qed.
Lemma i_ec_cat c a p b q a' p' b' q' :
  i_dh_ec c a p ++ i_dh_ec c b q = i_dh_ec c a' p' ++ i_dh_ec c b' q' ->
  i_dh_ec c a p = i_dh_ec c a' p' /\ i_dh_ec c b q = i_dh_ec c b' q'.
Proof. unfold i_dh_ec. simpl. intro H. injection H as H1 H2. rewrite H1, H2. auto. Qed.

(* ---- X25519 ---- *)
Lemma i_olen a : length (i_okp_pub a) = 32%nat.
Proof. reflexivity. Qed.
Lemma i_ocomm a b : i_dh_okp a (i_okp_pub b) = i_dh_okp b (i_okp_pub a).
Proof.
  unfold i_dh_okp, i_okp_pub, unorm, zeros. simpl. do 2 f_equal. apply N.mul_comm.
Qed.
Lemma i_okp_cat a p b q a' p' b' q' :
  i_dh_okp a p ++ i_dh_okp b q = i_dh_okp a' p' ++ i_dh_okp b' q' ->
  i_dh_okp a p = i_dh_okp a' p' /\ i_dh_okp b q = i_dh_okp b' q'.
Proof.
  unfold i_dh_okp. intro H. apply lp_app_inj in H. destruct H as [H1 H2]. rewrite H1, H2. auto.
Qed.
Lemma lp_inj a b : lp a = lp b -> a = b.
Proof. intro H. rewrite <- (app_nil_r (lp a)), <- (app_nil_r (lp b)) in H. apply lp_app_inj in H. tauto. Qed.
Lemma i_okp_inj_scalar a a' u : i_dh_okp a u = i_dh_okp a' u -> a = a'.
Proof.
  unfold i_dh_okp. intro H. apply lp_inj in H. injection H as H. apply N.mul_cancel_r in H; lia.
Qed.
Lemma unorm_cons x t : (length t = 31)%nat -> unorm (x :: t) = x :: tl (unorm (x :: t)).
Proof. intro H. unfold unorm. simpl. reflexivity. Qed.
Lemma i_okp_inj_point a u u' : length u = 32%nat -> length u' = 32%nat ->
  i_dh_okp a u = i_dh_okp a u' -> unorm u = unorm u'.
Proof.
  unfold i_dh_okp. intros L L' H. apply lp_inj in H. injection H as H1 H2.
  destruct u as [|x t]; [discriminate|]. destruct u' as [|x' t']; [discriminate|].
  simpl hd0 in H1. apply N.mul_cancel_l in H1; [|lia]. assert (x = x') by lia. subst x'.
  injection L as L. injection L' as L'.
  rewrite (unorm_cons x t L), (unorm_cons x t' L'). f_equal. exact H2.
Qed.

(* ---- KDF, key wrap ---- *)
Lemma i_kdf_inj a z u v t s a' z' u' v' t' s' :
  i_kdf a z u v t s = i_kdf a' z' u' v' t' s' -> a = a' /\ z = z' /\ u = u' /\ v = v' /\ t = t'.
Proof.
  unfold i_kdf. intro H. apply cons_eq in H. destruct H as [Ha H]. apply lp_app_inj in H. destruct H as [Hz H].
  apply lp_app_inj in H. destruct H as [Hu H]. apply lp_app_inj in H. destruct H as [Hv H].
  apply cons_eq in H. destruct H as [_ H]. repeat split; auto.
  destruct t as [t|], t' as [t'|]; unfold opt_code in H; try discriminate; [|reflexivity].
  apply cons_eq in H. destruct H as [_ H]. f_equal. apply lp_inj. exact H.
Qed.
Lemma i_kw_ok k m : i_kw_un k (i_kw k m) = Some m.
Proof. apply strip_prefix_app. Qed.
Lemma kwp_length k : length (kwp k) = (8 * (1 + length k))%nat.
Proof. unfold kwp, lp, zeros. rewrite app_length, repeat_length. simpl length. lia. Qed.
Lemma i_kw_len k m : (length m mod 8 = 0)%nat ->
  (length (i_kw k m) mod 8 = 0)%nat /\ length (i_kw k m) <> 0%nat.
Proof.
  intro H. unfold i_kw. rewrite app_length, kwp_length. split; [|lia].
  rewrite Nat.add_comm, Nat.mul_comm, Nat.mod_add by lia. exact H.
Qed.
Lemma i_kw_auth k c m : i_kw_un k c = Some m -> c = i_kw k m.
Proof. apply strip_prefix_some. Qed.
Lemma i_kw_inj k m k' m' : i_kw k m = i_kw k' m' -> k = k' /\ m = m'.
Proof.
  unfold i_kw, kwp. rewrite <- !app_assoc. intro H. apply lp_app_inj in H. destruct H as [-> H].
  apply app_inv_head in H. auto.
Qed.
Lemma i_xc_ok k n m : i_xc_open k n (i_xc_seal k n m) = Some m.
Proof. unfold i_xc_open, i_xc_seal. rewrite strip_prefix_app. apply strip_prefix_app. Qed.
Lemma i_xc_auth k n c m : i_xc_open k n c = Some m -> c = i_xc_seal k n m.
Proof.
  unfold i_xc_open, i_xc_seal. destruct (strip_prefix (lp k) c) as [r|] eqn:E; [|discriminate].
  intro H. apply strip_prefix_some in E, H. subst. reflexivity.
Qed.
Lemma i_xc_inj k n m k' m' : i_xc_seal k n m = i_xc_seal k' n m' -> k = k' /\ m = m'.
Proof.
  unfold i_xc_seal. intro H. apply lp_app_inj in H. destruct H as [-> H]. apply app_inv_head in H. auto.
Qed.
