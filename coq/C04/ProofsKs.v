(* C04 — MACs and signatures through keysets with several keys (after rotations); BBS+ multi-message binding. *)
From Coq Require Import List NArith ZArith Bool Lia ZifyN ZifyNat ZifyBool.
Import ListNotations.
From VF Require Import C04.Model C04.Proofs C04.ProofsSvc.
Local Open Scope N_scope.

Lemma firstn_app_len' {A} (a b : list A) : firstn (length a) (a ++ b) = a.
Proof. induction a; simpl; f_equal; auto. Qed.
Lemma skipn_app_len' {A} (a b : list A) : skipn (length a) (a ++ b) = b.
Proof. induction a; simpl; auto. Qed.
Lemma firstn5_app (p t : bytes) : length p = 5%nat -> firstn 5 (p ++ t) = p /\ skipn 5 (p ++ t) = t.
Proof. intro H. rewrite <- H. split; [apply firstn_app_len'|apply skipn_app_len']. Qed.

Lemma sprefix_len k : (s_pt k = PTink /\ length (sprefix k) = 5%nat) \/ (s_pt k = PRaw /\ sprefix k = []).
Proof. unfold sprefix. destruct (s_pt k); [right|left]; auto. Qed.

(* ---------- MAC over any keyset ---------- *)
Section MACKS.
  Variable core_mac : N -> bytes -> bytes.
  Hypothesis H_mac_nonempty : forall k d, core_mac k d <> [].

  (* a MAC computed with ANY key of the keyset (the primary at the time, e.g. before later rotations) verifies *)
  Lemma mac_roundtrip_multi_l ks k d : In k ks -> svc_verify_mac core_mac ks (svc_mac core_mac k d) d = true.
  Proof.
    intro Hi. unfold svc_verify_mac, svc_mac.
    destruct (sprefix_len k) as [[Pt L5]|[Pt P0]].
    - destruct (firstn5_app (sprefix k) (core_mac (s_mat k) d) L5) as [F S].
      rewrite F, S.
      replace (5 <? length (sprefix k ++ core_mac (s_mat k) d))%nat with true.
      2:{ symmetry. apply Nat.ltb_lt. rewrite app_length, L5. pose proof (H_mac_nonempty (s_mat k) d).
          destruct (core_mac (s_mat k) d); [congruence|simpl; lia]. }
      apply orb_true_iff. left. apply existsb_exists. exists k. split.
      + apply filter_In. split; [exact Hi|]. unfold s_is_raw. rewrite Pt. cbn [negb andb]. apply bytes_eqb_refl.
      + apply bytes_eqb_refl.
    - rewrite P0. cbn [app]. apply orb_true_iff. right. apply existsb_exists. exists k. split.
      + apply filter_In. split; [exact Hi|]. unfold s_is_raw. rewrite Pt. reflexivity.
      + apply bytes_eqb_refl.
  Qed.

  (* whatever a keyset accepts for data d is exactly prefix ++ tag of d under one of ITS keys *)
  Lemma mac_accepts_only_produced_multi_l ks tag d :
    svc_verify_mac core_mac ks tag d = true -> exists k, In k ks /\ tag = svc_mac core_mac k d.
  Proof.
    unfold svc_verify_mac, svc_mac. intro H. apply orb_true_iff in H as [H|H].
    - destruct (5 <? length tag)%nat; [|discriminate].
      apply existsb_exists in H as [k [Hi Hk]]. apply filter_In in Hi as [Hi Hf].
      apply andb_true_iff in Hf as [_ Hp]. apply bytes_eqb_eq in Hp. apply bytes_eqb_eq in Hk.
      exists k. split; [exact Hi|]. rewrite Hp, Hk. symmetry. apply firstn_skipn.
    - apply existsb_exists in H as [k [Hi Hk]]. apply filter_In in Hi as [Hi Hf].
      apply bytes_eqb_eq in Hk. exists k. split; [exact Hi|].
      unfold sprefix. unfold s_is_raw in Hf. destruct (s_pt k); [|discriminate]. cbn [app]. symmetry; exact Hk.
  Qed.
End MACKS.

(* ---------- signatures over any public keyset ---------- *)
Section SIGKS.
  Variable msg : Type.
  Variable core_sign : N -> msg -> N -> sval.
  Variable core_verify : N -> msg -> sval -> bool.
  Hypothesis H_correct : forall k m rd, core_verify k m (core_sign k m rd) = true.

  (* a signature made with ANY key of the keyset verifies with the keyset's public handle *)
  Lemma sig_roundtrip_multi_l ks k m rd b :
    In k ks -> enc_sig (s_enc k) (core_sign (s_mat k) m rd) = Some b -> b <> [] ->
    dec_sig (s_enc k) b = Some (core_sign (s_mat k) m rd) ->
    svc_sign core_sign k m rd = Some (sprefix k ++ b) /\
    svc_verify core_verify ks (sprefix k ++ b) m = true.
  Proof.
    intros Hi He Hne Hd. split; [unfold svc_sign; rewrite He; reflexivity|].
    assert (K : key_verify core_verify k b m = true) by (unfold key_verify; rewrite Hd; apply H_correct).
    unfold svc_verify. destruct (sprefix_len k) as [[Pt L5]|[Pt P0]].
    - destruct (firstn5_app (sprefix k) b L5) as [F S]. rewrite F, S.
      replace (5 <? length (sprefix k ++ b))%nat with true
        by (symmetry; apply Nat.ltb_lt; rewrite app_length, L5; destruct b; [congruence|simpl; lia]).
      apply orb_true_iff. left. apply existsb_exists. exists k. split; [|exact K].
      apply filter_In. split; [exact Hi|]. unfold s_is_raw. rewrite Pt. cbn [negb andb]. apply bytes_eqb_refl.
    - rewrite P0. cbn [app]. apply orb_true_iff. right. apply existsb_exists. exists k. split; [|exact K].
      apply filter_In. split; [exact Hi|]. unfold s_is_raw. rewrite Pt. reflexivity.
  Qed.
End SIGKS.

(* ---------- BBS+ multi-message binding ---------- *)
Local Open Scope Z_scope.

Lemma coeff_zero gen : forall ms i0 g, (forall j, (i0 <= j < i0 + length ms)%nat -> gen j <> g) -> coeff gen i0 ms g = 0.
Proof.
  induction ms as [|m r IH]; intros i0 g H; [reflexivity|]. cbn [coeff].
  replace (Nat.eqb (gen i0) g) with false by (symmetry; apply Nat.eqb_neq; apply H; simpl; lia).
  rewrite IH; [reflexivity|]. intros j Hj. apply H. simpl. lia.
Qed.

(* with pairwise distinct generators the exponent of generator (i0+k) is the k-th entry *)
Lemma coeff_at gen : forall ms i0 k,
  (forall a b, (i0 <= a < i0 + length ms)%nat -> (i0 <= b < i0 + length ms)%nat -> gen a = gen b -> a = b) ->
  (k < length ms)%nat -> coeff gen i0 ms (gen (i0 + k)%nat) = nth k ms 0.
Proof.
  induction ms as [|m r IH]; intros i0 k Hinj Hk; [simpl in Hk; lia|].
  cbn [coeff]. destruct k as [|k].
  - rewrite Nat.add_0_r, Nat.eqb_refl. rewrite coeff_zero; [simpl; lia|].
    intros j Hj E. assert (j = i0) by (apply Hinj; simpl; try lia; exact E). lia.
  - replace (Nat.eqb (gen i0) (gen (i0 + S k)%nat)) with false.
    2:{ symmetry. apply Nat.eqb_neq. intro E. assert (i0 = (i0 + S k)%nat) by (apply Hinj; simpl in *; try lia; exact E). lia. }
    replace (i0 + S k)%nat with (S i0 + k)%nat by lia. rewrite IH; [reflexivity| |simpl in Hk; lia].
    intros a b Ha Hb. apply Hinj; simpl; lia.
Qed.

Definition gens_distinct (gen : nat -> nat) (n bound : nat) : Prop :=
  (forall a b, (a < n)%nat -> (b < n)%nat -> gen a = gen b -> a = b) /\ (forall a, (a < n)%nat -> (gen a < bound)%nat).

(* generator distinctness => the commitment binds the whole vector (every message to its position) *)
Lemma commit_binds gen bound a b :
  gens_distinct gen (length a) bound -> commit_eqb gen bound a b = true -> a = b.
Proof.
  intros [Hinj Hb] H. unfold commit_eqb in H. apply andb_true_iff in H as [Hl H]. apply Nat.eqb_eq in Hl.
  rewrite forallb_forall in H.
  apply nth_ext with (d := 0) (d' := 0); [exact Hl|]. intros k Hk.
  assert (E : coeff gen 0 a (gen k) = coeff gen 0 b (gen k)).
  { apply Z.eqb_eq. apply H. apply in_seq. pose proof (Hb k Hk). lia. }
  rewrite <- (coeff_at gen a 0 k), <- (coeff_at gen b 0 k); try exact E; try lia.
  - intros x y Hx Hy. apply Hinj; lia.
  - intros x y Hx Hy. apply Hinj; lia.
Qed.

Lemma commit_refl gen bound a : commit_eqb gen bound a a = true.
Proof.
  unfold commit_eqb. rewrite Nat.eqb_refl. cbn [andb]. apply forallb_forall. intros g _. apply Z.eqb_refl.
Qed.

Lemma bbs_other_rejected_l gen bound signed presented :
  gens_distinct gen (length signed) bound -> presented <> signed -> bbs_accepts gen bound signed presented = false.
Proof.
  intros Hd Hne. unfold bbs_accepts. destruct (commit_eqb gen bound signed presented) eqn:E; [|reflexivity].
  exfalso. apply Hne. symmetry. eapply commit_binds; eassumption.
Qed.

Lemma nth_upd_same : forall l i x, (i < length l)%nat -> nth i (upd i x l) 0 = x.
Proof. induction l as [|y l IH]; intros [|i] x H; simpl in *; try lia; auto. apply IH. lia. Qed.
Lemma nth_upd_other : forall l i j x, i <> j -> nth i (upd j x l) 0 = nth i l 0.
Proof.
  induction l as [|y l IH]; intros [|i] [|j] x H; simpl; try reflexivity; try congruence.
  apply IH. congruence.
Qed.
Lemma upd_length : forall l i x, length (upd i x l) = length l.
Proof. induction l as [|y l IH]; intros [|i] x; simpl; auto. Qed.

Lemma swap_differs l i j : (i < length l)%nat -> (j < length l)%nat -> nth i l 0 <> nth j l 0 -> swap i j l <> l.
Proof.
  intros Hi Hj Hne E. apply Hne. unfold swap in E.
  assert (H : nth i (upd i (nth j l 0) (upd j (nth i l 0) l)) 0 = nth j l 0)
    by (apply nth_upd_same; rewrite upd_length; exact Hi).
  rewrite E in H. exact H.
Qed.

(* exchanging two different messages (any two positions, e.g. i and i+256) is rejected *)
Lemma bbs_swap_rejected_l gen bound signed i j :
  gens_distinct gen (length signed) bound -> (i < length signed)%nat -> (j < length signed)%nat ->
  nth i signed 0 <> nth j signed 0 ->
  bbs_accepts gen bound signed (swap i j signed) = false.
Proof. intros Hd Hi Hj Hne. apply bbs_other_rejected_l; [exact Hd|]. apply swap_differs; assumption. Qed.
