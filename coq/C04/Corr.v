(* C04 — correspondence: cases recorded from the real KMS / crypto service / codecs, evaluated on the model. *)
From Coq Require Import List NArith ZArith Bool.
Import ListNotations.
From VF Require Export C04.Model.
From VF Require Export C04.ModelKW.
From VF Require Import C04.Inst C04.InstKW gen.Gen_C04.
Local Open Scope N_scope.

Definition opt_rs_eqb (a b : option (Z * Z)) : bool :=
  match a, b with
  | None, None => true
  | Some (r, s), Some (r', s') => Z.eqb r r' && Z.eqb s s'
  | _, _ => false
  end.
Definition opt_bytes_eqb (a b : option bytes) : bool :=
  match a, b with
  | None, None => true
  | Some x, Some y => bytes_eqb x y
  | _, _ => false
  end.
Definition sval_rs (v : option sval) : option (Z * Z) :=
  match v with Some (SRS r s) => Some (r, s) | _ => None end.
Definition ptype_eqb (a b : ptype) : bool :=
  match a, b with PRaw, PRaw | PTink, PTink => true | _, _ => false end.
Definition prim_eqb (a b : prim) : bool :=
  match a, b with PGcm, PGcm | PChacha, PChacha | PXChacha, PXChacha | PCbcHmac, PCbcHmac => true | _, _ => false end.
Definition senc_eqb (a b : senc) : bool :=
  match a, b with
  | EncDer, EncDer | EncOpaque, EncOpaque => true
  | EncP1363 n, EncP1363 m => Nat.eqb n m
  | _, _ => false
  end.

(* single-position alterations: substitute the byte at p by a different one, insert byte d before p, delete byte p
   (positions taken modulo the length of the byte string they are applied to) *)
Inductive salt := SNone | SSub (p : nat) (d : N) | SIns (p : nat) (d : N) | SDel (p : nat).

Fixpoint set_nth (l : bytes) (p : nat) (f : N -> N) : bytes :=
  match l, p with
  | [], _ => []
  | x :: r, O => f x :: r
  | x :: r, S q => x :: set_nth r q f
  end.
Definition alter (l : bytes) (alt : salt) : bytes :=
  match alt with
  | SNone => l
  | SSub p d => match l with [] => [d] | _ => set_nth l (Nat.modulo p (length l)) (fun x => (x + 1 + d mod 255) mod 256) end
  | SIns p d => let q := Nat.modulo p (S (length l)) in firstn q l ++ d :: skipn q l
  | SDel p => match l with [] => [] | _ => let q := Nat.modulo p (length l) in firstn q l ++ skipn (S q) l end
  end.

Inductive vmode := VSame | VImport.          (* verify with kh.Public() of the signer / with the re-imported exported key *)
Inductive aalt := ANone | ACipher (x : salt) | ANonce (x : salt) | AAad | AOtherKeys.

(* what is changed between WrapKey's output and UnwrapKey's input (one field at a time) *)
Inductive kwalt :=
| KNone
| KEnc (x : salt) | KApu (x : salt) | KApv (x : salt) | KTag (x : salt)
| KAlg (a : kwalg)
| KEpkX (x : salt) | KEpkY (x : salt) | KEpkCrv (c : crv) | KEpkTyp (t : ktyp)
| KSenderX (x : salt) | KOtherSender | KNoSender
| KOtherRcp                         (* a recipient handle holding another key of the same type *)
| KOtherTypeRcp (t : ktyp) (c : crv)  (* a recipient handle of another key type / curve *).

Inductive case :=
(* Go codec on (r,s): encoder output (None = error) ; model must agree and decode it back *)
| CCodec (e : senc) (r s : Z) (go_enc : option bytes)
(* Go decoder on arbitrary bytes *)
| CDecode (e : senc) (b : bytes) (go_dec : option (Z * Z))
(* one sign/verify through the crypto service.
   kt: row of the generated table; created: key made by Create (else ImportPrivateKey); kid: Tink key id; pt: output
   prefix type of the real handle; vm: how the verifier handle was obtained; okey/omsg: verifier uses another key /
   another message; alt: single-position alteration; sig: the REAL signature; rs: (r,s) the harness obtained with
   math/big from it and checked with crypto/ecdsa directly (ECDSA types); acc: the service accepted *)
| CSig (kt : nat) (created : bool) (kid : N) (pt : ptype) (vm : vmode) (okey omsg : bool) (alt : salt)
       (sig : bytes) (rs : option (Z * Z)) (acc : bool)
(* one encrypt/decrypt: keyset at encryption time, keyset at decryption time, alteration, REAL nonce and cipher,
   message length, the byte string that real Tink accepted directly, service accepted *)
| CAead (enc_ks dec_ks : keyset) (alt : aalt) (nonce cipher : bytes) (mlen : nat) (joined : bytes) (acc : bool)
(* one MAC: computing key (Tink id, prefix type), verifying keyset, other data, alteration, REAL tag, accepted *)
| CMac (ck : N * ptype) (vks : list (N * ptype)) (odata : bool) (alt : salt) (tag : bytes) (acc : bool)
(* one sign/verify over rotated keysets: table row, signing key (Tink id, prefix type), the verifying public keyset,
   other message, alteration, REAL signature, accepted *)
| CSigKs (kt : nat) (sk : N * ptype) (vks : list (N * ptype)) (omsg : bool) (alt : salt) (sig : bytes) (acc : bool)
(* BBS+ multi-message: identity classes of the REAL generators h0, h_1.. (first position with the same group element),
   identities of the signed vector (blinding first) and of the presented one, accepted *)
| CBbs (classes : list nat) (signed presented : list Z) (acc : bool)
(* signature/verifier.PublicKeyVerifier on the exported public key: curve byte size, key signs DER or P1363, other key /
   other message, alteration, REAL signature, (r,s) obtained independently, accepted *)
| CPkv (n : nat) (der : bool) (okey omsg : bool) (alt : salt) (sig : bytes) (rs : option (Z * Z)) (acc : bool)
(* one WrapKey + UnwrapKey through the crypto service (see check_kw) *)
| CKw (t : ktyp) (c : crv) (pu xc : bool) (ceklen : nat) (defapu : bool) (rw ru sw su : nat) (walt : salt) (alt : kwalt)
      (alg : kwalg) (enclen : nat) (code : nat).

Definition row (i : nat) : option ktrow := nth_error table i.

(* ---------- key wrapping ---------- *)
Definition set_x (p : pubkey) (x : bytes) : pubkey := {| p_typ := p_typ p; p_crv := p_crv p; p_x := x; p_y := p_y p |}.
Definition set_y (p : pubkey) (y : bytes) : pubkey := {| p_typ := p_typ p; p_crv := p_crv p; p_x := p_x p; p_y := y |}.
Definition set_epk (w : wrapped) (e : pubkey) : wrapped :=
  {| w_alg := w_alg w; w_enc := w_enc w; w_epk := e; w_apu := w_apu w; w_apv := w_apv w |}.

Definition kw_key (t : ktyp) (c : crv) (base i : nat) : kwkey :=
  {| k_typ := t; k_crv := c; k_priv := N.of_nat (base + i) |}.
(* the handle after n rotations: n+1 keys, the newest is the primary *)
Definition kw_ks (t : ktyp) (c : crv) (base n : nat) : kwks :=
  {| kk_keys := map (kw_key t c base) (seq 0 (S n)); kk_primary := n |}.

(* outcome codes: 0 = unwrapped to the cek, 1 = not unwrapped (error; for the symbolic key-wrap instances, whose
   bodies carry the message in clear, also "another message", as check_aead does), 2 = panic.  The harness reports a
   real unwrap to another key as an oracle failure of its own. *)
Definition kw_code (cek : bytes) (r : res bytes) : nat :=
  match r with Ok m => if bytes_eqb m cek then 0 else 1 | Err => 1 | Panic => 2 end%nat.

(* one WrapKey + UnwrapKey: key type and curve of the recipient, 1PU?, XC20P?, cek length, apu left empty?,
   rotations of the recipient handle when the key was exported / when UnwrapKey runs, the same for the sender,
   alteration of the recipient's exported X before WrapKey, alteration before UnwrapKey; REAL alg, length of the
   REAL encrypted key, REAL default apu = base64url(epk.X)?, outcome code *)
Definition check_kw (t : ktyp) (c : crv) (pu xc : bool) (ceklen : nat) (defapu : bool)
  (rw ru sw su : nat) (walt : salt) (alt : kwalt) (alg : kwalg) (enclen : nat) (code : nat) : bool :=
  let cek := repeat 5 ceklen in
  let apu := if defapu then [] else [1; 2] in
  let apv := [3] in
  let tag := [4] in
  let nonce := repeat 9 24 in
  let rcp0 := i_pub_of (kw_key t c 10 rw) in
  let rcp := set_x rcp0 (alter (p_x rcp0) walt) in
  let sender := if pu then Some (kw_ks t c 20 sw) else None in
  match i_wrap KwFixed cek apu apv tag sender rcp xc 40 nonce with
  | Err => Nat.eqb code 1
  | Panic => Nat.eqb code 2
  | Ok w =>
      let sp0 := if pu then Some (i_pub_of (kw_key t c 20 su)) else None in
      let w' := match alt with
                | KEnc x => {| w_alg := w_alg w; w_enc := alter (w_enc w) x; w_epk := w_epk w; w_apu := w_apu w; w_apv := w_apv w |}
                | KApu x => {| w_alg := w_alg w; w_enc := w_enc w; w_epk := w_epk w; w_apu := alter (w_apu w) x; w_apv := w_apv w |}
                | KApv x => {| w_alg := w_alg w; w_enc := w_enc w; w_epk := w_epk w; w_apu := w_apu w; w_apv := alter (w_apv w) x |}
                | KAlg a => {| w_alg := a; w_enc := w_enc w; w_epk := w_epk w; w_apu := w_apu w; w_apv := w_apv w |}
                | KEpkX x => set_epk w (set_x (w_epk w) (alter (p_x (w_epk w)) x))
                | KEpkY x => set_epk w (set_y (w_epk w) (alter (p_y (w_epk w)) x))
                | KEpkCrv c' => set_epk w {| p_typ := p_typ (w_epk w); p_crv := c'; p_x := p_x (w_epk w); p_y := p_y (w_epk w) |}
                | KEpkTyp t' => set_epk w {| p_typ := t'; p_crv := p_crv (w_epk w); p_x := p_x (w_epk w); p_y := p_y (w_epk w) |}
                | _ => w
                end in
      let tag' := match alt with KTag x => alter tag x | _ => tag end in
      let sp := match alt, sp0 with
                | KSenderX x, Some p => Some (set_x p (alter (p_x p) x))
                | KOtherSender, Some _ => Some (i_pub_of (kw_key t c 30 0))
                | KNoSender, _ => None
                | _, _ => sp0
                end in
      let rks := match alt with
                 | KOtherRcp => kw_ks t c 50 0
                 | KOtherTypeRcp t' c' => kw_ks t' c' 60 0
                 | _ => kw_ks t c 10 ru
                 end in
      Nat.eqb (kw_code cek (i_unwrap KwFixed w' tag' sp rks)) code
      && (alg_id (w_alg w) =? alg_id alg)
      && Nat.eqb enclen (if is_xc (w_alg w) then 24 + ceklen + 16 else ceklen + 8)
  end.


Definition check_sig (kt : nat) (created : bool) (kid : N) (pt : ptype) (vm : vmode) (okey omsg : bool)
  (alt : salt) (sig : bytes) (rs : option (Z * Z)) (acc : bool) : bool :=
  match row kt with
  | None => false
  | Some rw =>
      let opaque := senc_eqb (kt_enc rw) EncOpaque in
      let k := {| s_id := kid; s_pt := pt; s_mat := 7; s_enc := kt_enc rw |} in
      let kv := {| s_id := kid; s_pt := pt; s_mat := (if okey then 8 else 7); s_enc := kt_enc rw |} in
      let vks := match vm with VSame => [kv] | VImport => reimport kv (kt_import_enc rw) end in
      let m := 3 in
      let mv := if omsg then 4 else 3 in
      let pl := length (sprefix k) in
      (* decision structure *)
      (match svc_sign (inst_sign opaque) k m 5 with
       | Some sg => Bool.eqb (svc_verify (inst_verify opaque) vks (alter sg alt) mv) acc
       | None => false
       end)
      (* the real bytes *)
      && (if created then ptype_eqb pt (kt_create_pt rw) else true)
      && bytes_eqb (firstn pl sig) (sprefix k)
      && (match rs with
          | Some (r, s) =>
              opt_rs_eqb (sval_rs (dec_sig (kt_enc rw) (skipn pl sig))) (Some (r, s))
              && opt_bytes_eqb (enc_sig (kt_enc rw) (SRS r s)) (Some (skipn pl sig))
          | None => true
          end)
  end.

Definition overhead (p : prim) : nat := 16%nat.

Definition check_aead (eks dks : keyset) (alt : aalt) (nonce cipher : bytes) (mlen : nat) (joined : bytes) (acc : bool) : bool :=
  match primary eks with
  | None => false
  | Some e =>
      let m := [9; 9] in
      let aad := [1] in
      (match svc_encrypt inst_enc eks nonce aad m with
       | Some (c, n) =>
           let c' := match alt with ACipher x => alter c x | _ => c end in
           let n' := match alt with ANonce x => alter n x | _ => n end in
           let a' := match alt with AAad => [2] | _ => aad end in
           Bool.eqb (match svc_decrypt inst_dec dks c' a' n' with Some m' => bytes_eqb m' m | None => false end) acc
           && bytes_eqb n nonce
       | None => false
       end)
      && Nat.eqb (length nonce) (iv_size (e_prim e))
      && Nat.eqb (length nonce) (real_iv (e_prim e))
      && Nat.eqb (length cipher) (mlen + overhead (e_prim e))
      && bytes_eqb (prefix_of e ++ nonce ++ cipher) joined
  end.

Definition mk_skey (e : senc) (x : N * ptype) : skey := {| s_id := fst x; s_pt := snd x; s_mat := fst x; s_enc := e |}.

Definition check_mac (ck : N * ptype) (vks : list (N * ptype)) (odata : bool) (alt : salt) (tag : bytes) (acc : bool) : bool :=
  let k := mk_skey EncOpaque ck in
  let t := svc_mac inst_mac k [3] in
  Bool.eqb (svc_verify_mac inst_mac (map (mk_skey EncOpaque) vks) (alter t alt) (if odata then [4] else [3])) acc
  && bytes_eqb (firstn (length (sprefix k)) tag) (sprefix k)
  && Nat.eqb (length tag) (length (sprefix k) + 32).

Definition check_sigks (kt : nat) (sk : N * ptype) (vks : list (N * ptype)) (omsg : bool) (alt : salt) (sig : bytes) (acc : bool) : bool :=
  match row kt with
  | None => false
  | Some rw =>
      let opaque := senc_eqb (kt_enc rw) EncOpaque in
      let k := mk_skey (kt_enc rw) sk in
      (match svc_sign (inst_sign opaque) k 3 5 with
       | Some sg => Bool.eqb (svc_verify (inst_verify opaque) (map (mk_skey (kt_enc rw)) vks) (alter sg alt) (if omsg then 4 else 3)) acc
       | None => false
       end)
      && bytes_eqb (firstn (length (sprefix k)) sig) (sprefix k)
  end.

Definition check_bbs (classes : list nat) (signed presented : list Z) (acc : bool) : bool :=
  Bool.eqb (bbs_accepts (fun i => nth i classes 0%nat) (length classes) signed presented) acc.

Definition curve_bits (n : nat) : N := match n with 66%nat => 519 | _ => 8 * N.of_nat n - 1 end.

Definition check_pkv (n : nat) (der okey omsg : bool) (alt : salt) (sig : bytes) (rs : option (Z * Z)) (acc : bool) : bool :=
  let bits := curve_bits n in
  let k := {| s_id := 1; s_pt := PRaw; s_mat := 7; s_enc := (if der then EncDer else EncP1363 n) |} in
  (match svc_sign (inst_sign_big bits) k 3 5 with
   | Some sg => Bool.eqb (pkv_verify (inst_verify_big bits) Fixed n (if okey then 8 else 7) (alter sg alt) (if omsg then 4 else 3)) acc
   | None => false
   end)
  && match rs with Some (r, s) => opt_rs_eqb (pkv_decode Fixed n sig) (Some (r, s)) | None => true end.

(* (r,s) within the range of the encoding (the encoder does not check it; out-of-range values are only compared
   on the encoder's output) *)
Definition fits (e : senc) (r s : Z) : bool :=
  match e with
  | EncP1363 n => (0 <=? r)%Z && (0 <=? s)%Z && (Z.to_N r <? 256 ^ N.of_nat n) && (Z.to_N s <? 256 ^ N.of_nat n)
  | _ => true
  end.

Definition check_case (c : case) : bool :=
  match c with
  | CCodec e r s go =>
      opt_bytes_eqb (enc_sig e (SRS r s)) go
      && match go with
         | Some b => if fits e r s then opt_rs_eqb (sval_rs (dec_sig e b)) (Some (r, s)) else true
         | None => true
         end
  | CDecode e b go => opt_rs_eqb (sval_rs (dec_sig e b)) go
  | CSig kt created kid pt vm okey omsg alt sig rs acc => check_sig kt created kid pt vm okey omsg alt sig rs acc
  | CAead eks dks alt nonce cipher mlen joined acc => check_aead eks dks alt nonce cipher mlen joined acc
  | CMac ck vks odata alt tag acc => check_mac ck vks odata alt tag acc
  | CSigKs kt sk vks omsg alt sig acc => check_sigks kt sk vks omsg alt sig acc
  | CBbs classes signed presented acc => check_bbs classes signed presented acc
  | CPkv n der okey omsg alt sig rs acc => check_pkv n der okey omsg alt sig rs acc
  | CKw t c pu xc ceklen defapu rw ru sw su walt alt alg enclen code =>
      check_kw t c pu xc ceklen defapu rw ru sw su walt alt alg enclen code
  end.

Fixpoint mismatches_from (i : nat) (cs : list case) : list nat :=
  match cs with
  | [] => []
  | c :: r => if check_case c then mismatches_from (S i) r else i :: mismatches_from (S i) r
  end.
Definition mismatches := mismatches_from 0.
