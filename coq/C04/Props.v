(* C04 — property theorems only. *)
From Coq Require Import List NArith ZArith Bool.
Import ListNotations.
From VF Require Import C04.Model C04.Inst gen.Gen_C04.
Local Open Scope N_scope.

Theorem placeholder_table_nonempty : table <> [].
Proof. discriminate. Qed.
Print Assumptions placeholder_table_nonempty.
