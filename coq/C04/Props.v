(* C04 — property theorems only (every proof is `exact <lemma>` or a closed computation). *)
From Coq Require Import List NArith ZArith Bool.
Import ListNotations.
From VF Require Import C04.Model C04.Inst C04.Proofs C04.ProofsDer C04.ProofsSvc C04.ProofsAead C04.ProofsKs gen.Gen_C04.
Local Open Scope N_scope.

(* ===== codecs (all inputs) ===== *)

(* IEEE-P1363, every curve size n (in particular 32, 48, 66): for ALL r, s below 256^n — leading-zero scalars
   included — the encoding has exactly 2n bytes and decodes to exactly (r, s). *)
Theorem p1363_roundtrip : forall (n : nat) (r s : N),
  (1 <= n <= 66)%nat -> r < 256 ^ N.of_nat n -> s < 256 ^ N.of_nat n ->
  length (p1363_encode n r s) = (2 * n)%nat /\ p1363_decode (p1363_encode n r s) = Some (r, s).
Proof. exact p1363_roundtrip_l. Qed.
Print Assumptions p1363_roundtrip.

(* two byte strings of the same length accepted by the P1363 decoder with the same (r,s) are the same string:
   any single-position alteration of a signature changes the (r,s) it carries (or is rejected) *)
Theorem p1363_decode_injective : forall (a b : bytes) (r s : N),
  Forall (fun d => d < 256) a -> Forall (fun d => d < 256) b -> length a = length b ->
  p1363_decode a = Some (r, s) -> p1363_decode b = Some (r, s) -> a = b.
Proof. exact p1363_decode_inj_l. Qed.
Print Assumptions p1363_decode_injective.

(* DER strictness: an accepted byte string IS the canonical encoding of what it decodes to (no trailing bytes,
   no non-minimal lengths or integers), hence the decoder is injective on everything it accepts *)
Theorem der_strict : forall (b : bytes) (r s : Z), der_decode b = Some (r, s) -> b = der_encode r s.
Proof. exact der_decode_strict_l. Qed.
Print Assumptions der_strict.

Theorem der_decode_injective : forall (a b : bytes) (r s : Z),
  der_decode a = Some (r, s) -> der_decode b = Some (r, s) -> a = b.
Proof. exact der_decode_inj_l. Qed.
Print Assumptions der_decode_injective.

(* DER round trip (Go's encoding/asn1 rules: minimal two's-complement INTEGER with a 0x00 pad when the top bit is set,
   short / minimal long length form): for ALL non-negative r, s of up to k <= 1000 bytes *)
Theorem der_roundtrip : forall (r s : Z) (k : nat),
  (k <= 1000)%nat -> (0 <= r < 256 ^ Z.of_nat k)%Z -> (0 <= s < 256 ^ Z.of_nat k)%Z ->
  der_decode (der_encode r s) = Some (r, s).
Proof. exact der_roundtrip_l. Qed.
Print Assumptions der_roundtrip.

(* every value in the range of its encoding is carried by the codec (DER, P1363 of every size, opaque) *)
Theorem codec_carries_all : forall (e : senc) (v : sval), sval_fits e v -> codec_ok e v.
Proof. exact sval_fits_codec_ok. Qed.
Print Assumptions codec_carries_all.

(* the P1363 codec carries every in-range value for every curve size of the table; opaque encodings trivially *)
Theorem codec_carries_p1363 : forall (n : nat) (r s : Z),
  (1 <= n <= 66)%nat -> (0 <= r < 256 ^ Z.of_nat n)%Z -> (0 <= s < 256 ^ Z.of_nat n)%Z ->
  codec_ok (EncP1363 n) (SRS r s).
Proof. exact codec_ok_p1363. Qed.
Print Assumptions codec_carries_p1363.

(* the readings recorded in checks/C04.json (QUANTIFIER DECISION), as theorems.  FULL: ONE inserted or deleted byte
   makes the length odd and the P1363 decoder rejects it, whatever the bytes *)
Theorem p1363_single_insertion_or_deletion_rejected : forall b : bytes, Nat.even (length b) = false -> p1363_decode b = None.
Proof. exact p1363_odd_rejected_l. Qed.
Print Assumptions p1363_single_insertion_or_deletion_rejected.

(* REFUTED for TWO positions: both halves zero-extended (one byte inserted in front of each), or both halves of a
   signature with leading-zero scalars stripped of that byte, decode to the same (r,s) - the decoder takes any even
   length up to 132.  Two edits, outside the property's single-position quantifier; stated so that nobody takes
   p1363_decode_injective (equal lengths) for more than it says. *)
Theorem p1363_two_position_padding_refuted :
  let sg := p1363_encode 32 (2 ^ 255 + 8) (2 ^ 200 + 4) in
  let ext := 0 :: firstn 32 sg ++ 0 :: skipn 32 sg in
  let z := p1363_encode 32 77 (2 ^ 240) in
  let cut := skipn 1 (firstn 32 z) ++ skipn 1 (skipn 32 z) in
  ext <> sg /\ p1363_decode ext = p1363_decode sg /\ p1363_decode sg = Some (2 ^ 255 + 8, 2 ^ 200 + 4) /\
  cut <> z /\ length cut = 62%nat /\ p1363_decode cut = p1363_decode z /\ p1363_decode z = Some (77, 2 ^ 240).
Proof. vm_compute. repeat split; discriminate. Qed.
Print Assumptions p1363_two_position_padding_refuted.

(* REFUTED beyond the codec: (r, n - s) is another VALUE; the codecs carry it like any other (both encode and decode),
   so whether it verifies is the core scheme's business (ECDSA: it does) - the hypothesis `a signature value is bound to
   key and message` of other_key_or_message_rejected / altered_signature_accepted_only_if_core_forgery is about VALUES
   produced by core_sign, and (r, n-s) changes 32 bytes, not one position *)
Theorem codec_carries_the_negated_s_value_refuted :
  let n := 115792089210356248762697446949407573529996955224135760342422259061068512044369%Z in   (* order of P-256 *)
  let r := (2 ^ 255 + 8)%Z in let s := (2 ^ 254 + 4)%Z in
  dec_sig (EncP1363 32) (p1363_encode 32 (Z.to_N r) (Z.to_N (n - s))) = Some (SRS r (n - s)) /\
  der_decode (der_encode r (n - s)) = Some (r, n - s)%Z /\ (n - s <> s)%Z.
Proof. vm_compute. repeat split; discriminate. Qed.
Print Assumptions codec_carries_the_negated_s_value_refuted.

(* ===== the generated key-type table (regenerated from /repo on every run) ===== *)

(* table_total + prefix_consistent: every signing key type the KMS can create is exportable and re-importable, has the
   RAW output prefix at creation AND after re-import, the same signature encoding on both sides, curve size 32/48/66 *)
Theorem table_signing_types_consistent : forallb sig_row_consistent table = true.
Proof. exact table_sig_consistent. Qed.
Print Assumptions table_signing_types_consistent.

(* every AEAD key type the KMS can create: crypto.go's nonceSize = the primitive's own nonce size *)
Theorem table_nonce_size_right : forallb aead_row_consistent table = true.
Proof. exact table_aead_consistent. Qed.
Print Assumptions table_nonce_size_right.

(* ===== sign -> export -> re-import in another KMS -> verify ===== *)
(* Ideal-primitive assumptions are the visible hypotheses: correctness of the core scheme, and that a core signature
   is bound to its key and message.  `sval_fits` only says that the core signature VALUE is in the range of the key
   type's encoding (0 <= r,s < 256^n for P1363 size n; non-negative and at most 1000 bytes for DER). *)
Theorem sign_verify_export :
  forall (msg : Type) (core_sign : N -> msg -> N -> sval) (core_verify : N -> msg -> sval -> bool),
  (forall k m rd, core_verify k m (core_sign k m rd) = true) ->
  forall (rw : ktrow) (kid mat : N) (m : msg) (rd : N),
  In rw table -> kt_kind rw = KSig -> kt_creatable rw = true ->
  sval_fits (kt_enc rw) (core_sign mat m rd) ->
  exists sig, svc_sign core_sign (created_key rw kid mat) m rd = Some sig /\
              svc_verify core_verify (reimport (created_key rw kid mat) (kt_import_enc rw)) sig m = true.
Proof.
  intros msg cs cv Hc rw kid mat m rd Hin Hk Hcr Hf.
  exact (sign_verify_export_table msg cs cv Hc rw kid mat m rd Hin Hk Hcr (sval_fits_codec_ok _ _ Hf)).
Qed.
Print Assumptions sign_verify_export.

Theorem other_key_or_message_rejected :
  forall (msg : Type) (core_sign : N -> msg -> N -> sval) (core_verify : N -> msg -> sval -> bool),
  (forall k m rd k' m', (k <> k' \/ m <> m') -> core_verify k' m' (core_sign k m rd) = false) ->
  forall (k : skey) (m : msg) (rd : N) (k' : skey) (m' : msg) (sig : bytes),
  s_pt k = PRaw -> svc_sign core_sign k m rd = Some sig ->
  codec_ok (s_enc k) (core_sign (s_mat k) m rd) -> s_enc k' = s_enc k ->
  (s_mat k <> s_mat k' \/ m <> m') ->
  svc_verify core_verify (reimport k' (s_enc k')) sig m' = false.
Proof. intros msg cs cv Hs. exact (other_key_or_msg_rejected msg cs cv Hs). Qed.
Print Assumptions other_key_or_message_rejected.

(* an accepted altered signature (same length, any position(s)) would be a different signature VALUE valid in the core
   scheme for the same key and message: the encoding / prefix / keyset layer accepts nothing beyond the core scheme *)
Theorem altered_signature_accepted_only_if_core_forgery :
  forall (msg : Type) (core_sign : N -> msg -> N -> sval) (core_verify : N -> msg -> sval -> bool),
  forall (k : skey) (m : msg) (rd : N) (sig sig' : bytes),
  s_pt k = PRaw -> svc_sign core_sign k m rd = Some sig ->
  codec_ok (s_enc k) (core_sign (s_mat k) m rd) ->
  Forall (fun d => d < 256) sig -> Forall (fun d => d < 256) sig' -> length sig' = length sig -> sig' <> sig ->
  svc_verify core_verify (reimport k (s_enc k)) sig' m = true ->
  exists v', dec_sig (s_enc k) sig' = Some v' /\ v' <> core_sign (s_mat k) m rd /\ core_verify (s_mat k) m v' = true.
Proof. intros msg cs cv. exact (altered_accepted_is_core_forgery msg cs cv). Qed.
Print Assumptions altered_signature_accepted_only_if_core_forgery.

(* HISTORICAL REFUTATION (before fix a669567): the created ECDSASecp256k1IEEEP1363 key carried the Tink prefix; with
   the symbolic instance (which satisfies the hypotheses) the genuine signature is rejected by the re-imported key. *)
Theorem sign_verify_export_asis_refuted :
  sig_row_consistent secp_p1363_asis = false /\
  (let k := created_key secp_p1363_asis 1234567 7 in
   match svc_sign (inst_sign false) k 3 5 with
   | Some sig => svc_verify (inst_verify false) (reimport k (kt_import_enc secp_p1363_asis)) sig 3
   | None => true
   end) = false.
Proof. split; vm_compute; reflexivity. Qed.
Print Assumptions sign_verify_export_asis_refuted.

(* ===== MAC ===== *)
Theorem mac_accepts_what_was_produced :
  forall (core_mac : N -> bytes -> bytes), (forall k d, core_mac k d <> []) ->
  forall (k : skey) (d : bytes), svc_verify_mac core_mac [k] (svc_mac core_mac k d) d = true.
Proof. exact mac_accepts_own. Qed.
Print Assumptions mac_accepts_what_was_produced.

(* whatever is accepted for data d is EXACTLY prefix ++ tag of d under that key: any altered tag, any tag of other data
   or of another key (unless the core MAC collides) is rejected *)
Theorem mac_accepts_only_what_was_produced :
  forall (core_mac : N -> bytes -> bytes) (k : skey) (tag d : bytes),
  svc_verify_mac core_mac [k] tag d = true -> tag = svc_mac core_mac k d.
Proof. exact mac_accepts_only_exact. Qed.
Print Assumptions mac_accepts_only_what_was_produced.

(* ===== ciphertext layout of Encrypt ===== *)
(* for ANY keyset (any number of keys, any primary): Encrypt returns exactly (body, nonce) of the primary key's Tink
   ciphertext, and prefix ++ nonce ++ cipher — what Decrypt re-attaches for that key — is that ciphertext again *)
Theorem encrypt_layout_split_join :
  forall (raw_enc : N -> bytes -> bytes -> bytes -> bytes) (ks : keyset) (e : entry) (nonce aad m : bytes),
  primary ks = Some e -> length nonce = iv_size (e_prim e) ->
  svc_encrypt raw_enc ks nonce aad m = Some (raw_enc (e_mat e) nonce aad m, nonce) /\
  tink_encrypt raw_enc ks nonce aad m = Some (prefix_of e ++ nonce ++ raw_enc (e_mat e) nonce aad m).
Proof. exact encrypt_layout. Qed.
Print Assumptions encrypt_layout_split_join.

(* ===== AEAD over keysets with several keys ===== *)
(* Ideal AEAD core as visible hypotheses: decryption inverts encryption; only produced bodies decrypt; a body binds
   key, nonce, aad and message; no body is a proper suffix of another body.  The keysets are ARBITRARY: any number of
   keys, any primary, keys of different primitives (12/24/16 byte nonces) and prefix types, as Rotate with another key
   type produces. *)
Theorem aead_roundtrip_multi :
  forall (raw_enc : N -> bytes -> bytes -> bytes -> bytes) (raw_dec : N -> bytes -> bytes -> bytes -> option bytes),
  (forall k n a m, raw_dec k n a (raw_enc k n a m) = Some m) ->
  (forall k n a c m, raw_dec k n a c = Some m -> c = raw_enc k n a m) ->
  (forall k n a m k' n' a' m', raw_enc k n a m = raw_enc k' n' a' m' -> k = k' /\ n = n' /\ a = a' /\ m = m') ->
  (forall k n a m k' n' a' m' t, raw_enc k n a m = t ++ raw_enc k' n' a' m' -> t = []) ->
  forall (ks ks' : keyset) (e : entry) (nonce a m c n : bytes),
  primary ks = Some e -> length nonce = real_iv (e_prim e) -> In e (ks_entries ks') ->
  svc_encrypt raw_enc ks nonce a m = Some (c, n) ->
  svc_decrypt raw_dec ks' c a n = Some m.
Proof. intros re rd H1 H2 H3 H4. exact (aead_roundtrip_mixed_l re rd H1 H2 H3 H4). Qed.
Print Assumptions aead_roundtrip_multi.

(* a genuine ciphertext presented to ANY keyset: if accepted then under a key of that keyset, with exactly the original
   nonce and associated data, and the result is the original message *)
Theorem aead_genuine_accepted_only_unaltered :
  forall (raw_enc : N -> bytes -> bytes -> bytes -> bytes) (raw_dec : N -> bytes -> bytes -> bytes -> option bytes),
  (forall k n a m, raw_dec k n a (raw_enc k n a m) = Some m) ->
  (forall k n a c m, raw_dec k n a c = Some m -> c = raw_enc k n a m) ->
  (forall k n a m k' n' a' m', raw_enc k n a m = raw_enc k' n' a' m' -> k = k' /\ n = n' /\ a = a' /\ m = m') ->
  (forall k n a m k' n' a' m' t, raw_enc k n a m = t ++ raw_enc k' n' a' m' -> t = []) ->
  forall (ks' : keyset) (a' n' : bytes) (k : N) (n a m y : bytes),
  (5 <= length n')%nat -> length n' = length n ->
  svc_decrypt raw_dec ks' (raw_enc k n a m) a' n' = Some y ->
  In k (map e_mat (ks_entries ks')) /\ n' = n /\ a' = a /\ y = m.
Proof. intros re rd H1 H2 H3 H4. exact (decrypt_genuine_gen re rd H1 H2 H3 H4). Qed.
Print Assumptions aead_genuine_accepted_only_unaltered.

(* altered nonce (same length), altered associated data, or a keyset without the key: rejected — ANY keyset *)
Theorem aead_altered_or_other_key_rejected :
  forall (raw_enc : N -> bytes -> bytes -> bytes -> bytes) (raw_dec : N -> bytes -> bytes -> bytes -> option bytes),
  (forall k n a m, raw_dec k n a (raw_enc k n a m) = Some m) ->
  (forall k n a c m, raw_dec k n a c = Some m -> c = raw_enc k n a m) ->
  (forall k n a m k' n' a' m', raw_enc k n a m = raw_enc k' n' a' m' -> k = k' /\ n = n' /\ a = a' /\ m = m') ->
  (forall k n a m k' n' a' m' t, raw_enc k n a m = t ++ raw_enc k' n' a' m' -> t = []) ->
  forall (ks' : keyset) (k : N) (n a m n' a' : bytes),
  (5 <= length n')%nat -> length n' = length n ->
  (n' <> n \/ a' <> a \/ ~ In k (map e_mat (ks_entries ks'))) ->
  svc_decrypt raw_dec ks' (raw_enc k n a m) a' n' = None.
Proof. intros re rd H1 H2 H3 H4. exact (aead_altered_rejected_gen re rd H1 H2 H3 H4). Qed.
Print Assumptions aead_altered_or_other_key_rejected.

(* keysets of ONE key type (Create + Rotate with the same type), without the no-suffix hypothesis: whatever Decrypt
   accepts — genuine or not — is exactly a body produced under one of ITS keys with exactly this nonce and this aad *)
Theorem aead_accepts_only_produced_one_key_type :
  forall (raw_enc : N -> bytes -> bytes -> bytes -> bytes) (raw_dec : N -> bytes -> bytes -> bytes -> option bytes),
  (forall k n a m, raw_dec k n a (raw_enc k n a m) = Some m) ->
  (forall k n a c m, raw_dec k n a c = Some m -> c = raw_enc k n a m) ->
  (forall k n a m k' n' a' m', raw_enc k n a m = raw_enc k' n' a' m' -> k = k' /\ n = n' /\ a = a' /\ m = m') ->
  forall (p : prim) (t : ptype) (ks : keyset) (a n c m : bytes),
  homogeneous p t (ks_entries ks) -> length n = real_iv p ->
  svc_decrypt raw_dec ks c a n = Some m ->
  exists e, In e (ks_entries ks) /\ c = raw_enc (e_mat e) n a m.
Proof. intros re rd H1 H2 H3. exact (decrypt_accepts_only_produced_l re rd H1 H2 H3). Qed.
Print Assumptions aead_accepts_only_produced_one_key_type.

(* ===== signature/verifier.PublicKeyVerifier (ECDSA): a byte appended to an accepted DER signature is rejected ===== *)
Theorem pkv_appended_byte_rejected : forall (n : nat) (b : bytes) (r s : Z) (x : N),
  (2 * n < length b)%nat -> pkv_decode Fixed n b = Some (r, s) -> pkv_decode Fixed n (b ++ [x]) = None.
Proof. exact pkv_appended_rejected_l. Qed.
Print Assumptions pkv_appended_byte_rejected.

(* HISTORICAL REFUTATION (before fix adba44c): the verifier ignored bytes after the DER SEQUENCE *)
Theorem pkv_appended_byte_asis_refuted :
  let b := der_encode (2 ^ 255 + 8) (2 ^ 255 + 4) in
  (2 * 32 <? length b)%nat = true /\ pkv_decode AsIs 32 b = Some (2 ^ 255 + 8, 2 ^ 255 + 4)%Z /\
  pkv_decode AsIs 32 (b ++ [0]) = Some (2 ^ 255 + 8, 2 ^ 255 + 4)%Z /\ pkv_decode Fixed 32 (b ++ [0]) = None.
Proof. vm_compute. repeat split. Qed.
Print Assumptions pkv_appended_byte_asis_refuted.

(* ===== MACs and signatures through keysets with several keys (after one or more rotations) ===== *)
(* a MAC computed with ANY key of the keyset - e.g. the primary before later rotations - verifies with the keyset *)
Theorem mac_roundtrip_multi :
  forall (core_mac : N -> bytes -> bytes), (forall k d, core_mac k d <> []) ->
  forall (ks : list skey) (k : skey) (d : bytes), In k ks -> svc_verify_mac core_mac ks (svc_mac core_mac k d) d = true.
Proof. exact mac_roundtrip_multi_l. Qed.
Print Assumptions mac_roundtrip_multi.

Theorem mac_accepts_only_produced_multi :
  forall (core_mac : N -> bytes -> bytes) (ks : list skey) (tag d : bytes),
  svc_verify_mac core_mac ks tag d = true -> exists k, In k ks /\ tag = svc_mac core_mac k d.
Proof. exact mac_accepts_only_produced_multi_l. Qed.
Print Assumptions mac_accepts_only_produced_multi.

(* a signature made with ANY key of a keyset verifies with the keyset's public handle (any prefix types) *)
Theorem sig_roundtrip_multi :
  forall (msg : Type) (core_sign : N -> msg -> N -> sval) (core_verify : N -> msg -> sval -> bool),
  (forall k m rd, core_verify k m (core_sign k m rd) = true) ->
  forall (ks : list skey) (k : skey) (m : msg) (rd : N) (b : bytes),
  In k ks -> enc_sig (s_enc k) (core_sign (s_mat k) m rd) = Some b -> b <> [] ->
  dec_sig (s_enc k) b = Some (core_sign (s_mat k) m rd) ->
  svc_sign core_sign k m rd = Some (sprefix k ++ b) /\ svc_verify core_verify ks (sprefix k ++ b) m = true.
Proof. intros msg cs cv Hc. exact (sig_roundtrip_multi_l msg cs cv Hc). Qed.
Print Assumptions sig_roundtrip_multi.

(* ===== BBS+ multi-message signatures (SignMulti / VerifyMulti): every message is bound to its position ===== *)
(* `gens_distinct gen n bound`: the generators the key derivation yields for positions 0..n-1 (h0, h_1, ...) are
   pairwise distinct group elements - the visible hypothesis about the derivation, checked on the REAL generators on
   every run.  For ANY number of messages: the genuine vector is accepted, any other vector is rejected, in
   particular one with two different messages exchanged (any two positions, e.g. i and i+256). *)
Theorem bbs_genuine_accepted : forall (gen : nat -> nat) (bound : nat) (v : list Z), bbs_accepts gen bound v v = true.
Proof. exact commit_refl. Qed.
Print Assumptions bbs_genuine_accepted.

Theorem bbs_other_messages_rejected : forall (gen : nat -> nat) (bound : nat) (signed presented : list Z),
  gens_distinct gen (length signed) bound -> presented <> signed -> bbs_accepts gen bound signed presented = false.
Proof. exact bbs_other_rejected_l. Qed.
Print Assumptions bbs_other_messages_rejected.

Theorem bbs_swap_rejected : forall (gen : nat -> nat) (bound : nat) (signed : list Z) (i j : nat),
  gens_distinct gen (length signed) bound -> (i < length signed)%nat -> (j < length signed)%nat ->
  nth i signed 0%Z <> nth j signed 0%Z ->
  bbs_accepts gen bound signed (swap i j signed) = false.
Proof. exact bbs_swap_rejected_l. Qed.
Print Assumptions bbs_swap_rejected.

(* ===== non-vacuity ===== *)
Example p1363_leading_zero_66 :
  let r := 5 in let s := 256 ^ 65 + 9 in
  length (p1363_encode 66 r s) = 132%nat /\ nth 65 (p1363_encode 66 r s) 7 = 5 /\ nth 66 (p1363_encode 66 r s) 7 = 1 /\
  p1363_decode (p1363_encode 66 r s) = Some (r, s).
Proof. vm_compute. repeat split. Qed.

Example der_examples :
  der_decode (der_encode 127 128) = Some (127, 128)%Z /\ der_encode 127 128 = [48; 7; 2; 1; 127; 2; 2; 0; 128] /\
  der_decode [48; 7; 2; 1; 127; 2; 2; 0; 128; 0] = None /\                (* trailing byte *)
  der_decode [48; 129; 7; 2; 1; 127; 2; 2; 0; 128] = None /\              (* non-minimal length *)
  der_decode [48; 7; 2; 2; 0; 127; 2; 1; 128] = None /\                   (* non-minimal integer *)
  length (der_encode (2 ^ 520) (2 ^ 519)) = 139%nat /\ der_decode (der_encode (2 ^ 520) (2 ^ 519)) = Some (2 ^ 520, 2 ^ 519)%Z.
Proof. vm_compute. repeat split. Qed.

Example table_has_the_types :
  length (filter (fun r => is_sig r && kt_creatable r) table) = 9%nat /\
  length (filter (fun r => is_aead r && kt_creatable r) table) = 5%nat.
Proof. vm_compute. split; reflexivity. Qed.

Example instance_meets_hypotheses :
  (forall o k m rd, inst_verify o k m (inst_sign o k m rd) = true) /\
  (forall o k m rd k' m', (k <> k' \/ m <> m') -> inst_verify o k' m' (inst_sign o k m rd) = false).
Proof. split; [exact inst_sig_correct | exact inst_sig_sep]. Qed.

Example sign_verify_export_nonvacuous :
  let rw := nth 11 table secp_p1363_asis in           (* ECDSAP521IEEEP1363 *)
  let k := created_key rw 42 7 in
  kt_enc rw = EncP1363 66 /\
  match svc_sign (inst_sign false) k 3 5 with
  | Some sig => length sig = 132%nat /\ svc_verify (inst_verify false) (reimport k (kt_import_enc rw)) sig 3 = true /\
                svc_verify (inst_verify false) (reimport k (kt_import_enc rw)) sig 4 = false
  | None => False
  end.
Proof. vm_compute. repeat split. Qed.

Example aead_instance_and_rotation :
  (forall k n a m, inst_dec k n a (inst_enc k n a m) = Some m) /\
  (forall k n a c m, inst_dec k n a c = Some m -> c = inst_enc k n a m) /\
  (forall k n a m k' n' a' m', inst_enc k n a m = inst_enc k' n' a' m' -> k = k' /\ n = n' /\ a = a' /\ m = m') /\
  (forall k n a m k' n' a' m' t, inst_enc k n a m = t ++ inst_enc k' n' a' m' -> t = []) /\
  (let e1 := {| e_id := 1111; e_pt := PTink; e_prim := PGcm; e_mat := 1 |} in
   let e2 := {| e_id := 2222; e_pt := PTink; e_prim := PGcm; e_mat := 2 |} in
   let old := {| ks_entries := [e1]; ks_primary := 0 |} in
   let rot := {| ks_entries := [e1; e2]; ks_primary := 1 |} in
   let nonce := [1;2;3;4;5;6;7;8;9;10;11;12] in
   match svc_encrypt inst_enc old nonce [7] [42; 43] with
   | Some (c, n) => svc_decrypt inst_dec rot c [7] n = Some [42; 43] /\ svc_decrypt inst_dec rot c [8] n = None /\
                    svc_decrypt inst_dec {| ks_entries := [e2]; ks_primary := 0 |} c [7] n = None
   | None => False
   end).
Proof. split; [exact inst_dec_enc|]. split; [exact inst_auth|]. split; [exact inst_bind|]. split; [exact inst_nosuffix|]. vm_compute. repeat split. Qed.

(* a keyset mixing key types: AES-GCM (12-byte nonce, Tink prefix) rotated to XChaCha20 (24-byte nonce) and to a RAW
   AES-GCM key; ciphertexts of every stage decrypt under the final keyset, not under a keyset lacking the key *)
Example aead_mixed_rotation :
  let g := {| e_id := 1111; e_pt := PTink; e_prim := PGcm; e_mat := 1 |} in
  let x := {| e_id := 2222; e_pt := PTink; e_prim := PXChacha; e_mat := 2 |} in
  let w := {| e_id := 3333; e_pt := PRaw; e_prim := PGcm; e_mat := 3 |} in
  let all := {| ks_entries := [g; x; w]; ks_primary := 2 |} in
  let n12 := [1;2;3;4;5;6;7;8;9;10;11;12] in
  let n24 := n12 ++ n12 in
  match svc_encrypt inst_enc {| ks_entries := [g]; ks_primary := 0 |} n12 [7] [42],
        svc_encrypt inst_enc {| ks_entries := [g; x]; ks_primary := 1 |} n24 [7] [43],
        svc_encrypt inst_enc all n12 [7] [44] with
  | Some (c1, m1), Some (c2, m2), Some (c3, m3) =>
      length m1 = 12%nat /\ length m2 = 24%nat /\
      svc_decrypt inst_dec all c1 [7] m1 = Some [42] /\ svc_decrypt inst_dec all c2 [7] m2 = Some [43] /\
      svc_decrypt inst_dec all c3 [7] m3 = Some [44] /\
      svc_decrypt inst_dec {| ks_entries := [g; w]; ks_primary := 0 |} c2 [7] m2 = None /\
      svc_decrypt inst_dec all c2 [8] m2 = None
  | _, _, _ => False
  end.
Proof. vm_compute. repeat split. Qed.

(* the distinctness hypothesis is necessary: with a derivation that only uses the low byte of the position
   (generators repeat every 256 positions) exchanging the messages at positions 1 and 257 goes unnoticed; with the
   identity derivation it is rejected, and the hypothesis holds for it *)
Example bbs_distinctness_needed :
  let v := map Z.of_nat (seq 100 300) in
  bbs_accepts (fun i => Nat.modulo i 256) 300 v (swap 1 257 v) = true /\
  bbs_accepts (fun i => i) 300 v (swap 1 257 v) = false /\
  bbs_accepts (fun i => i) 300 v (swap 3 4 v) = false /\ swap 1 257 v <> v.
Proof. vm_compute. repeat split. discriminate. Qed.

Example gens_distinct_identity : forall n, gens_distinct (fun i => i) n n.
Proof. intro n. split; auto. Qed.

Example mac_rotation_nonvacuous :
  let k0 := {| s_id := 1111; s_pt := PTink; s_mat := 1; s_enc := EncOpaque |} in
  let k1 := {| s_id := 2222; s_pt := PTink; s_mat := 2; s_enc := EncOpaque |} in
  svc_verify_mac inst_mac [k0; k1] (svc_mac inst_mac k0 [3]) [3] = true /\
  svc_verify_mac inst_mac [k0; k1] (svc_mac inst_mac k1 [3]) [3] = true /\
  svc_verify_mac inst_mac [k1] (svc_mac inst_mac k0 [3]) [3] = false /\
  svc_verify_mac inst_mac [k0; k1] (svc_mac inst_mac k0 [3]) [4] = false.
Proof. vm_compute. repeat split. Qed.
