(* C04 — lemmas about the key-wrapping model (ModelKW.v) under ideal-primitive hypotheses. *)
From Coq Require Import List NArith Bool Lia Arith.
Import ListNotations.
From VF Require Import C04.Model C04.Proofs C04.ModelKW.
Local Open Scope N_scope.

Lemma crv_eqb_eq a b : crv_eqb a b = true -> a = b.
Proof. destruct a, b; simpl; congruence. Qed.
Lemma crv_eqb_refl a : crv_eqb a a = true.
Proof. destruct a; reflexivity. Qed.
Lemma alg_id_inj a b : alg_id a = alg_id b -> a = b.
Proof. destruct a, b; simpl; intro H; try reflexivity; discriminate H. Qed.

Lemma arr32_length b : length (arr32 b) = 32%nat.
Proof.
  unfold arr32. rewrite firstn_length, app_length. unfold zeros. rewrite repeat_length. lia.
Qed.
Lemma arr32_id b : length b = 32%nat -> arr32 b = b.
Proof.
  intro H. unfold arr32. rewrite firstn_app, H. replace (32 - 32)%nat with 0%nat by reflexivity.
  simpl firstn at 2. rewrite app_nil_r. rewrite <- H. apply firstn_all.
Qed.

(* a key localkms can create for key wrapping *)
Definition kw_valid (k : kwkey) : Prop :=
  (k_typ k = TEC /\ nist (k_crv k) = true) \/ (k_typ k = TOKP /\ k_crv k = C25519).

Section KWP.
  Variable ec_pub : crv -> N -> N * N.
  Variable on_curve : crv -> N * N -> bool.
  Variable dh_ec : crv -> N -> N * N -> bytes.
  Variable okp_pub : N -> bytes.
  Variable dh_okp : N -> bytes -> bytes.
  Variable kdf : N -> bytes -> bytes -> bytes -> option bytes -> nat -> bytes.
  Variable kw : bytes -> bytes -> bytes.
  Variable kw_un : bytes -> bytes -> option bytes.
  Variable xc_seal : bytes -> bytes -> bytes -> bytes.
  Variable xc_open : bytes -> bytes -> bytes -> option bytes.
  Variable b64 : bytes -> bytes.

  Notation pub_of := (pub_of ec_pub okp_pub).
  Notation sender_pub := (sender_pub ec_pub okp_pub).
  Notation wrap_z := (wrap_z ec_pub on_curve dh_ec okp_pub dh_okp).
  Notation unwrap_z := (unwrap_z on_curve dh_ec dh_okp).
  Notation wrap_kek := (wrap_kek ec_pub on_curve dh_ec okp_pub dh_okp kdf b64).
  Notation unwrap_kek := (unwrap_kek on_curve dh_ec dh_okp kdf).
  Notation wrap_raw := (wrap_raw kw xc_seal).
  Notation unwrap_raw := (unwrap_raw kw_un xc_open).
  Notation kw_wrap := (kw_wrap ec_pub on_curve dh_ec okp_pub dh_okp kdf kw xc_seal b64).
  Notation kw_unwrap := (kw_unwrap on_curve dh_ec dh_okp kdf kw_un xc_open).

  (* ---------- correctness hypotheses ---------- *)
  Hypothesis H_on : forall c a, nist c = true -> on_curve c (ec_pub c a) = true.
  Hypothesis H_comm : forall c a b, dh_ec c a (ec_pub c b) = dh_ec c b (ec_pub c a).
  Hypothesis H_olen : forall a, length (okp_pub a) = 32%nat.
  Hypothesis H_ocomm : forall a b, dh_okp a (okp_pub b) = dh_okp b (okp_pub a).
  Hypothesis H_kw_ok : forall k m, kw_un k (kw k m) = Some m.
  Hypothesis H_kw_len : forall k m, (length m mod 8 = 0)%nat ->
    (length (kw k m) mod 8 = 0)%nat /\ length (kw k m) <> 0%nat.
  Hypothesis H_xc_ok : forall k n m, xc_open k n (xc_seal k n m) = Some m.

  Lemma pt_of_pub_ec k : k_typ k = TEC -> pt_of (pub_of k) = ec_pub (k_crv k) (k_priv k).
  Proof.
    intro H. unfold ModelKW.pub_of, pt_of. rewrite H. simpl. rewrite !be_bytes_value.
    destruct (ec_pub (k_crv k) (k_priv k)); reflexivity.
  Qed.

  Lemma raw_roundtrip alg kek cek nonce enc :
    wrap_raw alg kek cek nonce = Ok enc -> length nonce = 24%nat -> unwrap_raw alg kek enc = Ok cek.
  Proof.
    unfold ModelKW.wrap_raw, ModelKW.unwrap_raw. intros Hw Hn. destruct (is_xc alg).
    - injection Hw as <-. rewrite app_length, Hn.
      replace (Nat.ltb (24 + length (xc_seal kek nonce cek)) 24) with false
        by (symmetry; apply Nat.ltb_ge; lia).
      rewrite firstn_app, Hn. replace (24 - 24)%nat with 0%nat by reflexivity. simpl firstn at 2.
      rewrite app_nil_r. rewrite <- Hn at 1. rewrite firstn_all.
      rewrite skipn_app, Hn. replace (24 - 24)%nat with 0%nat by reflexivity. simpl skipn at 2.
      rewrite <- Hn at 1. rewrite skipn_all. simpl. rewrite H_xc_ok. reflexivity.
    - destruct (Nat.eqb (length cek mod 8) 0) eqn:Hm; [|discriminate]. injection Hw as <-.
      apply Nat.eqb_eq in Hm. destruct (H_kw_len kek cek Hm) as [H8 H0].
      replace (Nat.eqb (length (kw kek cek)) 0) with false by (symmetry; apply Nat.eqb_neq; exact H0).
      rewrite H8. simpl. rewrite H_kw_ok. reflexivity.
  Qed.

  (* the shared secret: what the sender derives for the key rk is what the holder of rk derives *)
  Lemma z_roundtrip (sender : option kwks) (rk : kwkey) eph z epk alg :
    kw_valid rk -> alg <> AlgOther -> is_pu alg = (match sender with None => false | Some _ => true end) ->
    wrap_z KwFixed sender (pub_of rk) eph = Ok (z, epk) ->
    unwrap_z KwFixed alg epk (sender_pub KwFixed sender) rk = Ok z.
  Proof.
    intros Hv Ha Hp Hw. unfold ModelKW.wrap_z in Hw. unfold ModelKW.unwrap_z.
    destruct Hv as [[Ht Hn]|[Ht Hc]].
    - (* EC *)
      assert (Hpt : p_typ (pub_of rk) = TEC) by (unfold ModelKW.pub_of; rewrite Ht; reflexivity).
      assert (Hpc : p_crv (pub_of rk) = k_crv rk) by (unfold ModelKW.pub_of; rewrite Ht; reflexivity).
      rewrite Hpt, Hpc, Hn in Hw. simpl negb in Hw. cbv iota in Hw.
      rewrite (pt_of_pub_ec rk Ht) in Hw.
      unfold ec_guard in Hw. rewrite (H_on _ _ Hn) in Hw.
      set (ek := {| k_typ := TEC; k_crv := k_crv rk; k_priv := eph |}) in *.
      assert (Hept : pt_of (pub_of ek) = ec_pub (k_crv rk) eph) by (apply (pt_of_pub_ec ek); reflexivity).
      destruct sender as [sks|].
      + simpl ModelKW.sender_pub. destruct (kprimary KwFixed sks) as [sk|] eqn:Hsk; [|discriminate].
        destruct (k_typ sk) eqn:Hst; try discriminate.
        destruct (crv_eqb (k_crv rk) (k_crv sk)) eqn:Hcs; [|discriminate]. simpl in Hw.
        injection Hw as <- <-. apply crv_eqb_eq in Hcs.
        rewrite Hp. simpl option_map.
        assert (Hspt : pt_of (pub_of sk) = ec_pub (k_crv sk) (k_priv sk)) by (apply pt_of_pub_ec; exact Hst).
        assert (Hspc : p_crv (pub_of sk) = k_crv sk) by (unfold ModelKW.pub_of; rewrite Hst; reflexivity).
        destruct alg; try discriminate Hp; try (exfalso; apply Ha; reflexivity);
          (simpl p_typ; rewrite Hspc, <- Hcs, Hn; simpl p_crv; rewrite Hn; simpl negb; cbv iota;
           rewrite Ht, crv_eqb_refl; simpl; unfold ec_guard; rewrite Hept, Hspt, <- Hcs, !(H_on _ _ Hn);
           rewrite (H_comm _ eph), (H_comm _ (k_priv sk)); reflexivity).
      + simpl in Hw. injection Hw as <- <-. simpl ModelKW.sender_pub.
        destruct alg; try discriminate Hp; try (exfalso; apply Ha; reflexivity);
          (simpl p_typ; simpl p_crv; rewrite Hn; simpl negb; cbv iota; rewrite Ht, crv_eqb_refl; simpl;
           unfold ec_guard; rewrite Hept, (H_on _ _ Hn), (H_comm _ eph); reflexivity).
    - (* OKP *)
      assert (Hpt : p_typ (pub_of rk) = TOKP) by (unfold ModelKW.pub_of; rewrite Ht; reflexivity).
      assert (Hpx : p_x (pub_of rk) = okp_pub (k_priv rk)) by (unfold ModelKW.pub_of; rewrite Ht; reflexivity).
      rewrite Hpt, Hpx in Hw. unfold okp_guard in Hw. rewrite H_olen in Hw. simpl in Hw.
      rewrite (arr32_id _ (H_olen _)) in Hw.
      destruct sender as [sks|].
      + simpl ModelKW.sender_pub. destruct (kprimary KwFixed sks) as [sk|] eqn:Hsk; [|discriminate].
        destruct (k_typ sk) eqn:Hst; try discriminate. injection Hw as <- <-.
        rewrite Hp. simpl option_map.
        assert (Hsx : p_x (pub_of sk) = okp_pub (k_priv sk)) by (unfold ModelKW.pub_of; rewrite Hst; reflexivity).
        destruct alg; try discriminate Hp; try (exfalso; apply Ha; reflexivity);
          (simpl p_typ; cbv iota; rewrite Ht; unfold okp_guard; simpl p_x; rewrite Hsx, !H_olen; simpl;
           rewrite !(arr32_id _ (H_olen _)), (H_ocomm eph), (H_ocomm (k_priv sk)); reflexivity).
      + injection Hw as <- <-. simpl ModelKW.sender_pub.
        destruct alg; try discriminate Hp; try (exfalso; apply Ha; reflexivity);
          (simpl p_typ; cbv iota; rewrite Ht; unfold okp_guard; simpl p_x; rewrite !H_olen; simpl;
           rewrite !(arr32_id _ (H_olen _)), (H_ocomm eph); reflexivity).
  Qed.

  Lemma wrap_alg_shape cek (sender : option kwks) xc alg :
    wrap_alg cek sender xc = Some alg ->
    alg <> AlgOther /\ is_pu alg = (match sender with None => false | Some _ => true end) /\ is_xc alg = xc.
  Proof.
    unfold wrap_alg. destruct sender, xc; intro H.
    - injection H as <-. repeat split; discriminate.
    - destruct (length cek) as [|n]; try discriminate.
      do 32 (destruct n as [|n]; try discriminate). 1: { injection H as <-. repeat split; discriminate. }
      do 16 (destruct n as [|n]; try discriminate). 1: { injection H as <-. repeat split; discriminate. }
      do 16 (destruct n as [|n]; try discriminate). injection H as <-. repeat split; discriminate.
    - injection H as <-. repeat split; discriminate.
    - injection H as <-. repeat split; discriminate.
  Qed.

  (* FULL: a key wrapped to the exported public key of rk (any curve / key type localkms creates, ECDH-ES or ECDH-1PU
     with any sender keyset and tag, AES-KW or XC20P-KW) unwraps to exactly the cek under any recipient keyset whose
     primary key is rk - e.g. after any number of rotations of OTHER keys into non-primary positions *)
  Lemma kw_roundtrip_l cek apu apv tag (sender : option kwks) (rks : kwks) rk xc eph nonce w :
    kprimary KwFixed rks = Some rk -> kw_valid rk -> length nonce = 24%nat ->
    kw_wrap KwFixed cek apu apv tag sender (pub_of rk) xc eph nonce = Ok w ->
    kw_unwrap KwFixed w tag (sender_pub KwFixed sender) rks = Ok cek.
  Proof.
    intros Hk Hv Hn Hw. unfold ModelKW.kw_wrap in Hw. unfold ModelKW.kw_unwrap. rewrite Hk.
    destruct (wrap_alg cek sender xc) as [alg|] eqn:Ha; [|discriminate].
    destruct (wrap_alg_shape _ _ _ _ Ha) as (Hno & Hpu & _).
    unfold ModelKW.wrap_kek in Hw.
    destruct (wrap_z KwFixed sender (pub_of rk) eph) as [[z epk]| |] eqn:Hz; try discriminate.
    destruct (wrap_raw alg _ cek nonce) as [enc| |] eqn:Hr; try discriminate.
    injection Hw as <-. simpl.
    unfold ModelKW.unwrap_kek. rewrite (z_roundtrip sender rk eph z epk alg Hv Hno Hpu Hz).
    exact (raw_roundtrip _ _ _ _ _ Hr Hn).
  Qed.

  (* FULL: with public-key validation no input whatsoever makes WrapKey / UnwrapKey panic *)
  Lemma unwrap_z_no_panic alg epk sp rk : unwrap_z KwFixed alg epk sp rk <> Panic.
  Proof.
    unfold ModelKW.unwrap_z, ec_guard, okp_guard. simpl kv_validate.
    destruct alg; simpl is_pu; cbv iota; try discriminate;
      repeat match goal with
             | |- context [match ?x with _ => _ end] => destruct x; try discriminate
             | |- context [if ?x then _ else _] => destruct x; try discriminate
             end.
  Qed.
  Lemma wrap_z_no_panic sender rcp eph : wrap_z KwFixed sender rcp eph <> Panic.
  Proof.
    unfold ModelKW.wrap_z, ec_guard, okp_guard. simpl kv_validate.
    repeat match goal with
           | |- context [match ?x with _ => _ end] => destruct x; try discriminate
           | |- context [if ?x then _ else _] => destruct x; try discriminate
           end.
  Qed.
  Lemma unwrap_raw_no_panic alg kek enc : unwrap_raw alg kek enc <> Panic.
  Proof.
    unfold ModelKW.unwrap_raw.
    repeat match goal with
           | |- context [match ?x with _ => _ end] => destruct x; try discriminate
           | |- context [if ?x then _ else _] => destruct x; try discriminate
           end.
  Qed.
  Lemma kw_unwrap_no_panic w tag sp rks : kw_unwrap KwFixed w tag sp rks <> Panic.
  Proof.
    unfold ModelKW.kw_unwrap, ModelKW.unwrap_kek. destruct (kprimary KwFixed rks); [|discriminate].
    pose proof (unwrap_z_no_panic (w_alg w) (w_epk w) sp k) as Hz.
    destruct (unwrap_z KwFixed (w_alg w) (w_epk w) sp k); try discriminate; [apply unwrap_raw_no_panic | congruence].
  Qed.
  Lemma kw_wrap_no_panic cek apu apv tag sender rcp xc eph nonce :
    kw_wrap KwFixed cek apu apv tag sender rcp xc eph nonce <> Panic.
  Proof.
    unfold ModelKW.kw_wrap, ModelKW.wrap_kek, ModelKW.wrap_raw. destruct (wrap_alg cek sender xc); [|discriminate].
    pose proof (wrap_z_no_panic sender rcp eph) as Hz.
    destruct (wrap_z KwFixed sender rcp eph) as [[z epk]| |]; try discriminate; [|congruence].
    destruct (is_xc k); try discriminate. destruct (Nat.eqb _ 0); discriminate.
  Qed.

  (* ---------- binding hypotheses ---------- *)
  Hypothesis H_kdf_inj : forall a z u v t s a' z' u' v' t' s',
    kdf a z u v t s = kdf a' z' u' v' t' s' -> a = a' /\ z = z' /\ u = u' /\ v = v' /\ t = t'.
  Hypothesis H_kw_auth : forall k c m, kw_un k c = Some m -> c = kw k m.
  Hypothesis H_kw_inj : forall k m k' m', kw k m = kw k' m' -> k = k' /\ m = m'.
  Hypothesis H_xc_auth : forall k n c m, xc_open k n c = Some m -> c = xc_seal k n m.
  Hypothesis H_xc_inj : forall k n m k' m', xc_seal k n m = xc_seal k' n m' -> k = k' /\ m = m'.

  Lemma raw_bind alg kek cek nonce enc alg' kek' m :
    wrap_raw alg kek cek nonce = Ok enc -> length nonce = 24%nat -> is_xc alg' = is_xc alg ->
    unwrap_raw alg' kek' enc = Ok m -> kek' = kek /\ m = cek.
  Proof.
    unfold ModelKW.wrap_raw, ModelKW.unwrap_raw. intros Hw Hn Hx Hu. rewrite Hx in Hu. destruct (is_xc alg).
    - injection Hw as <-. rewrite app_length, Hn in Hu.
      replace (Nat.ltb (24 + length (xc_seal kek nonce cek)) 24) with false in Hu
        by (symmetry; apply Nat.ltb_ge; lia).
      rewrite firstn_app, Hn in Hu. replace (24 - 24)%nat with 0%nat in Hu by reflexivity. simpl firstn at 2 in Hu.
      rewrite app_nil_r in Hu. rewrite <- Hn in Hu at 1. rewrite firstn_all in Hu.
      rewrite skipn_app, Hn in Hu. replace (24 - 24)%nat with 0%nat in Hu by reflexivity. simpl skipn at 2 in Hu.
      rewrite <- Hn in Hu at 1. rewrite skipn_all in Hu. simpl in Hu.
      destruct (xc_open kek' nonce (xc_seal kek nonce cek)) as [m'|] eqn:Ho; [|discriminate].
      injection Hu as <-. apply H_xc_auth in Ho. apply H_xc_inj in Ho. destruct Ho; split; congruence.
    - destruct (Nat.eqb (length cek mod 8) 0); [|discriminate]. injection Hw as <-.
      destruct (Nat.eqb (length (kw kek cek)) 0 || negb (Nat.eqb (length (kw kek cek) mod 8) 0)); [discriminate|].
      destruct (kw_un kek' (kw kek cek)) as [m'|] eqn:Ho; [|discriminate].
      injection Hu as <-. apply H_kw_auth in Ho. apply H_kw_inj in Ho. destruct Ho; split; congruence.
  Qed.

  (* the genuine encrypted key, presented in ANY context (alg of the same wrap family, epk, apu, apv, tag, sender key,
     recipient keyset): if it unwraps, then to the original cek, and alg, apu, apv and (1PU) the tag are the original
     ones and the recipient derived the sender's shared secret Z *)
  Lemma kw_context_l cek apu apv tag (sender : option kwks) rcp xc eph nonce w
        alg' epk' apu' apv' tag' (sender' : option pubkey) (rks' : kwks) m :
    length nonce = 24%nat ->
    kw_wrap KwFixed cek apu apv tag sender rcp xc eph nonce = Ok w ->
    is_xc alg' = is_xc (w_alg w) ->
    kw_unwrap KwFixed {| w_alg := alg'; w_enc := w_enc w; w_epk := epk'; w_apu := apu'; w_apv := apv' |}
              tag' sender' rks' = Ok m ->
    m = cek /\ alg' = w_alg w /\ apu' = w_apu w /\ apv' = w_apv w /\ (is_pu alg' = true -> tag' = tag) /\
    exists rk' z, kprimary KwFixed rks' = Some rk' /\ unwrap_z KwFixed alg' epk' sender' rk' = Ok z /\
                  wrap_z KwFixed sender rcp eph = Ok (z, w_epk w).
  Proof.
    intros Hn Hw Hx Hu. unfold ModelKW.kw_wrap in Hw. unfold ModelKW.kw_unwrap in Hu. simpl in Hu.
    destruct (wrap_alg cek sender xc) as [alg|] eqn:Ha; [|discriminate].
    unfold ModelKW.wrap_kek in Hw.
    destruct (wrap_z KwFixed sender rcp eph) as [[z epk]| |] eqn:Hz; try discriminate.
    destruct (wrap_raw alg _ cek nonce) as [enc| |] eqn:Hr; try discriminate.
    injection Hw as <-. simpl in *.
    destruct (kprimary KwFixed rks') as [rk'|]; [|discriminate].
    unfold ModelKW.unwrap_kek in Hu.
    destruct (unwrap_z KwFixed alg' epk' sender' rk') as [z'| |] eqn:Hz'; try discriminate.
    destruct (raw_bind _ _ _ _ _ _ _ _ Hr Hn Hx Hu) as [Hk ->].
    apply H_kdf_inj in Hk. destruct Hk as (Hal & Hzz & Hu1 & Hv1 & Ht).
    apply alg_id_inj in Hal. subst alg'. subst z'.
    repeat split; auto.
    - intro Hp. unfold tag_info in Ht. rewrite Hp in Ht. congruence.
    - exists rk', z. auto.
  Qed.

  (* ---------- one-sided injectivity of the shared secret (ideal Diffie-Hellman in a prime-order group) ---------- *)
  Hypothesis H_ec_inj_point : forall c a p p', on_curve c p = true -> on_curve c p' = true ->
    dh_ec c a p = dh_ec c a p' -> p = p'.
  Hypothesis H_ec_inj_scalar : forall c a a' p, on_curve c p = true -> dh_ec c a p = dh_ec c a' p -> a = a'.
  Hypothesis H_ec_cat : forall c a p b q a' p' b' q',
    dh_ec c a p ++ dh_ec c b q = dh_ec c a' p' ++ dh_ec c b' q' -> dh_ec c a p = dh_ec c a' p' /\ dh_ec c b q = dh_ec c b' q'.
  Hypothesis H_okp_inj_point : forall a u u', length u = 32%nat -> length u' = 32%nat ->
    dh_okp a u = dh_okp a u' -> unorm u = unorm u'.
  Hypothesis H_okp_inj_scalar : forall a a' u, dh_okp a u = dh_okp a' u -> a = a'.
  Hypothesis H_okp_cat : forall a p b q a' p' b' q',
    dh_okp a p ++ dh_okp b q = dh_okp a' p' ++ dh_okp b' q' -> dh_okp a p = dh_okp a' p' /\ dh_okp b q = dh_okp b' q'.

  (* the same (alg, epk, sender) under two recipient keys of one type and curve gives one Z only for one scalar *)
  Lemma unwrap_z_recipient_inj alg epk sp rk rk' z :
    k_typ rk' = k_typ rk -> k_crv rk' = k_crv rk ->
    unwrap_z KwFixed alg epk sp rk = Ok z -> unwrap_z KwFixed alg epk sp rk' = Ok z -> k_priv rk' = k_priv rk.
  Proof.
    unfold ModelKW.unwrap_z, ec_guard, okp_guard. simpl kv_validate. intros Ht Hc. rewrite Ht, Hc.
    destruct alg; simpl is_pu; cbv iota; try discriminate;
      repeat match goal with
             | |- context [match ?x with _ => _ end] => destruct x eqn:?; try discriminate
             | |- context [if ?x then _ else _] => destruct x eqn:?; try discriminate
             end;
      intros H1 H2; injection H1 as <-; injection H2 as H2;
      first [ apply H_ec_cat in H2; destruct H2 as [H3 H4] | apply H_okp_cat in H2; destruct H2 as [H3 H4] | idtac ];
      first [ eapply H_ec_inj_scalar; eassumption | eapply H_okp_inj_scalar; eassumption ].
  Qed.

  (* the same recipient key and sender with two EPKs gives one Z only if both denote the same point
     (EC: the same pair of integers; X25519: the same 32 bytes up to the masked top bit) *)
  Definition same_point (a b : pubkey) : Prop :=
    match p_typ a with
    | TEC => pt_of a = pt_of b
    | _ => unorm (arr32 (p_x a)) = unorm (arr32 (p_x b))
    end.
  Lemma unwrap_z_epk_inj alg epk epk' sp rk z :
    p_typ epk' = p_typ epk ->
    unwrap_z KwFixed alg epk sp rk = Ok z -> unwrap_z KwFixed alg epk' sp rk = Ok z -> same_point epk epk'.
  Proof.
    unfold ModelKW.unwrap_z, ec_guard, okp_guard, same_point. simpl kv_validate. intros Ht. rewrite Ht.
    destruct alg; simpl is_pu; cbv iota; try discriminate;
      repeat match goal with
             | |- context [match ?x with _ => _ end] => destruct x eqn:?; try discriminate
             | |- context [if ?x then _ else _] => destruct x eqn:?; try discriminate
             end;
      intros H1 H2; injection H1 as <-; injection H2 as H2;
      first [ apply H_ec_cat in H2; destruct H2 as [H3 H4] | apply H_okp_cat in H2; destruct H2 as [H3 H4] | idtac ];
      first [ symmetry; eapply H_ec_inj_point; eassumption
            | symmetry; eapply H_okp_inj_point; first [apply arr32_length | eassumption] ].
  Qed.

  (* ECDH-1PU: the same recipient key and EPK with two sender keys gives one Z only if both are the same point *)
  Lemma unwrap_z_sender_inj alg epk sp sp' rk z :
    is_pu alg = true -> p_typ sp' = p_typ sp ->
    unwrap_z KwFixed alg epk (Some sp) rk = Ok z -> unwrap_z KwFixed alg epk (Some sp') rk = Ok z ->
    match p_typ epk with TEC => pt_of sp = pt_of sp' | _ => unorm (arr32 (p_x sp)) = unorm (arr32 (p_x sp')) end.
  Proof.
    unfold ModelKW.unwrap_z, ec_guard, okp_guard. simpl kv_validate. intros Hp Ht.
    destruct alg; simpl is_pu in *; cbv iota; try discriminate;
      repeat match goal with
             | |- context [match ?x with _ => _ end] => destruct x eqn:?; try discriminate
             | |- context [if ?x then _ else _] => destruct x eqn:?; try discriminate
             end;
      intros H1 H2; injection H1 as <-; injection H2 as H2;
      first [ apply H_ec_cat in H2; destruct H2 as [H3 H4] | apply H_okp_cat in H2; destruct H2 as [H3 H4] ];
      first [ symmetry; eapply H_ec_inj_point; eassumption
            | symmetry; eapply H_okp_inj_point; first [apply arr32_length | eassumption] ].
  Qed.
  (* ---------- single altered field (recipient key / EPK / sender key) ---------- *)
  Lemma wrap_inv cek apu apv tag (sender : option kwks) rcp xc eph nonce w :
    kw_wrap KwFixed cek apu apv tag sender rcp xc eph nonce = Ok w ->
    exists z, wrap_z KwFixed sender rcp eph = Ok (z, w_epk w) /\ w_alg w <> AlgOther /\
              is_pu (w_alg w) = (match sender with None => false | Some _ => true end).
  Proof.
    unfold ModelKW.kw_wrap, ModelKW.wrap_kek. intro Hw.
    destruct (wrap_alg cek sender xc) as [alg|] eqn:Ha; [|discriminate].
    destruct (wrap_alg_shape _ _ _ _ Ha) as (Hno & Hpu & _).
    destruct (wrap_z KwFixed sender rcp eph) as [[z epk]| |] eqn:Hz; try discriminate.
    destruct (wrap_raw alg _ cek nonce) as [enc| |]; try discriminate.
    injection Hw as <-. simpl. exists z. auto.
  Qed.

  Lemma kw_other_recipient_l cek apu apv tag (sender : option kwks) rk xc eph nonce w rks' rk' m :
    kw_valid rk -> length nonce = 24%nat ->
    kw_wrap KwFixed cek apu apv tag sender (pub_of rk) xc eph nonce = Ok w ->
    kprimary KwFixed rks' = Some rk' -> k_typ rk' = k_typ rk -> k_crv rk' = k_crv rk ->
    kw_unwrap KwFixed w tag (sender_pub KwFixed sender) rks' = Ok m -> k_priv rk' = k_priv rk.
  Proof.
    intros Hv Hn Hw Hk Ht Hc Hu. destruct (wrap_inv _ _ _ _ _ _ _ _ _ _ Hw) as (z & Hz & Hno & Hpu).
    assert (Hu' : kw_unwrap KwFixed {| w_alg := w_alg w; w_enc := w_enc w; w_epk := w_epk w; w_apu := w_apu w; w_apv := w_apv w |}
                    tag (sender_pub KwFixed sender) rks' = Ok m) by (destruct w; exact Hu).
    destruct (kw_context_l _ _ _ _ _ _ _ _ _ _ _ _ _ _ _ _ _ _ Hn Hw eq_refl Hu') as (_ & _ & _ & _ & _ & rk2 & z2 & Hk2 & Hz2 & Hw2).
    rewrite Hk in Hk2. injection Hk2 as <-. rewrite Hz in Hw2. injection Hw2 as <-.
    pose proof (z_roundtrip sender rk eph z (w_epk w) (w_alg w) Hv Hno Hpu Hz) as Hr.
    exact (unwrap_z_recipient_inj _ _ _ _ _ _ Ht Hc Hr Hz2).
  Qed.

  Lemma kw_other_epk_l cek apu apv tag (sender : option kwks) rk xc eph nonce w rks epk' m :
    kw_valid rk -> length nonce = 24%nat ->
    kw_wrap KwFixed cek apu apv tag sender (pub_of rk) xc eph nonce = Ok w ->
    kprimary KwFixed rks = Some rk -> p_typ epk' = p_typ (w_epk w) ->
    kw_unwrap KwFixed {| w_alg := w_alg w; w_enc := w_enc w; w_epk := epk'; w_apu := w_apu w; w_apv := w_apv w |}
              tag (sender_pub KwFixed sender) rks = Ok m ->
    same_point (w_epk w) epk'.
  Proof.
    intros Hv Hn Hw Hk Ht Hu. destruct (wrap_inv _ _ _ _ _ _ _ _ _ _ Hw) as (z & Hz & Hno & Hpu).
    destruct (kw_context_l _ _ _ _ _ _ _ _ _ _ _ _ _ _ _ _ _ _ Hn Hw eq_refl Hu) as (_ & _ & _ & _ & _ & rk2 & z2 & Hk2 & Hz2 & Hw2).
    rewrite Hk in Hk2. injection Hk2 as <-. rewrite Hz in Hw2. injection Hw2 as <-.
    pose proof (z_roundtrip sender rk eph z (w_epk w) (w_alg w) Hv Hno Hpu Hz) as Hr.
    exact (unwrap_z_epk_inj _ _ _ _ _ _ Ht Hr Hz2).
  Qed.

  Lemma kw_other_sender_l cek apu apv tag (sks : kwks) sk rk xc eph nonce w rks sp' m :
    kw_valid rk -> length nonce = 24%nat ->
    kw_wrap KwFixed cek apu apv tag (Some sks) (pub_of rk) xc eph nonce = Ok w ->
    kprimary KwFixed rks = Some rk -> kprimary KwFixed sks = Some sk -> p_typ sp' = p_typ (pub_of sk) ->
    kw_unwrap KwFixed w tag (Some sp') rks = Ok m ->
    match p_typ (w_epk w) with
    | TEC => pt_of (pub_of sk) = pt_of sp'
    | _ => unorm (arr32 (p_x (pub_of sk))) = unorm (arr32 (p_x sp'))
    end.
  Proof.
    intros Hv Hn Hw Hk Hs Ht Hu. destruct (wrap_inv _ _ _ _ _ _ _ _ _ _ Hw) as (z & Hz & Hno & Hpu).
    assert (Hu' : kw_unwrap KwFixed {| w_alg := w_alg w; w_enc := w_enc w; w_epk := w_epk w; w_apu := w_apu w; w_apv := w_apv w |}
                    tag (Some sp') rks = Ok m) by (destruct w; exact Hu).
    destruct (kw_context_l _ _ _ _ _ _ _ _ _ _ _ _ _ _ _ _ _ _ Hn Hw eq_refl Hu') as (_ & _ & _ & _ & _ & rk2 & z2 & Hk2 & Hz2 & Hw2).
    rewrite Hk in Hk2. injection Hk2 as <-. rewrite Hz in Hw2. injection Hw2 as <-.
    pose proof (z_roundtrip (Some sks) rk eph z (w_epk w) (w_alg w) Hv Hno Hpu Hz) as Hr.
    simpl ModelKW.sender_pub in Hr. rewrite Hs in Hr. simpl option_map in Hr.
    exact (unwrap_z_sender_inj _ _ _ _ _ _ Hpu Ht Hr Hz2).
  Qed.
End KWP.

(* ---------- the ideal-primitive hypotheses, named (they appear in every key-wrap theorem of PropsKW.v) ---------- *)
(* correctness: generated points are on their curve, Diffie-Hellman commutes, X25519 keys have 32 bytes, AES-KW and
   XC20P invert, AES-KW output is a non-empty multiple of 8 bytes for such input *)
Definition kw_correct_hyps (ec_pub : crv -> N -> N * N) (on_curve : crv -> N * N -> bool) (dh_ec : crv -> N -> N * N -> bytes)
  (okp_pub : N -> bytes) (dh_okp : N -> bytes -> bytes)
  (kw : bytes -> bytes -> bytes) (kw_un : bytes -> bytes -> option bytes)
  (xc_seal : bytes -> bytes -> bytes -> bytes) (xc_open : bytes -> bytes -> bytes -> option bytes) : Prop :=
  (forall c a, nist c = true -> on_curve c (ec_pub c a) = true) /\
  (forall c a b, dh_ec c a (ec_pub c b) = dh_ec c b (ec_pub c a)) /\
  (forall a, length (okp_pub a) = 32%nat) /\
  (forall a b, dh_okp a (okp_pub b) = dh_okp b (okp_pub a)) /\
  (forall k m, kw_un k (kw k m) = Some m) /\
  (forall k m, (length m mod 8 = 0)%nat -> (length (kw k m) mod 8 = 0)%nat /\ length (kw k m) <> 0%nat) /\
  (forall k n m, xc_open k n (xc_seal k n m) = Some m).
(* binding: the KDF is collision free on (alg, Z, apu, apv, tag); only produced wraps unwrap; a wrap binds key and cek *)
Definition kw_binding_hyps (kdf : N -> bytes -> bytes -> bytes -> option bytes -> nat -> bytes)
  (kw : bytes -> bytes -> bytes) (kw_un : bytes -> bytes -> option bytes)
  (xc_seal : bytes -> bytes -> bytes -> bytes) (xc_open : bytes -> bytes -> bytes -> option bytes) : Prop :=
  (forall a z u v t s a' z' u' v' t' s',
     kdf a z u v t s = kdf a' z' u' v' t' s' -> a = a' /\ z = z' /\ u = u' /\ v = v' /\ t = t') /\
  (forall k c m, kw_un k c = Some m -> c = kw k m) /\
  (forall k m k' m', kw k m = kw k' m' -> k = k' /\ m = m') /\
  (forall k n c m, xc_open k n c = Some m -> c = xc_seal k n m) /\
  (forall k n m k' m', xc_seal k n m = xc_seal k' n m' -> k = k' /\ m = m').
(* Diffie-Hellman in a prime-order group: scalar multiplication is injective in the point and in the scalar; two
   concatenated shared secrets of one curve split uniquely (they have the curve's fixed length) *)
Definition kw_dh_hyps (on_curve : crv -> N * N -> bool) (dh_ec : crv -> N -> N * N -> bytes) (dh_okp : N -> bytes -> bytes) : Prop :=
  (forall c a p p', on_curve c p = true -> on_curve c p' = true -> dh_ec c a p = dh_ec c a p' -> p = p') /\
  (forall c a a' p, on_curve c p = true -> dh_ec c a p = dh_ec c a' p -> a = a') /\
  (forall c a p b q a' p' b' q', dh_ec c a p ++ dh_ec c b q = dh_ec c a' p' ++ dh_ec c b' q' ->
     dh_ec c a p = dh_ec c a' p' /\ dh_ec c b q = dh_ec c b' q') /\
  (forall a u u', length u = 32%nat -> length u' = 32%nat -> dh_okp a u = dh_okp a u' -> unorm u = unorm u') /\
  (forall a a' u, dh_okp a u = dh_okp a' u -> a = a') /\
  (forall a p b q a' p' b' q', dh_okp a p ++ dh_okp b q = dh_okp a' p' ++ dh_okp b' q' ->
     dh_okp a p = dh_okp a' p' /\ dh_okp b q = dh_okp b' q').

(* ---------- the lemmas with the hypotheses bundled (statements of PropsKW.v) ---------- *)
Lemma kw_roundtrip_b :
  forall ec_pub on_curve dh_ec okp_pub dh_okp kdf kw kw_un xc_seal xc_open b64,
  kw_correct_hyps ec_pub on_curve dh_ec okp_pub dh_okp kw kw_un xc_seal xc_open ->
  forall cek apu apv tag (sender : option kwks) (rks : kwks) rk xc eph nonce w,
  kprimary KwFixed rks = Some rk -> kw_valid rk -> length nonce = 24%nat ->
  kw_wrap ec_pub on_curve dh_ec okp_pub dh_okp kdf kw xc_seal b64 KwFixed cek apu apv tag sender
          (pub_of ec_pub okp_pub rk) xc eph nonce = Ok w ->
  kw_unwrap on_curve dh_ec dh_okp kdf kw_un xc_open KwFixed w tag (sender_pub ec_pub okp_pub KwFixed sender) rks = Ok cek.
Proof.
  intros ec_pub on_curve dh_ec okp_pub dh_okp kdf kw kw_un xc_seal xc_open b64.
  unfold kw_correct_hyps, kw_binding_hyps, kw_dh_hyps. intros.
  repeat match goal with H : _ /\ _ |- _ => destruct H end.
  eapply (kw_roundtrip_l ec_pub on_curve dh_ec okp_pub dh_okp kdf kw kw_un xc_seal xc_open b64); try eassumption.
Qed.

Lemma kw_genuine_accepted_only_in_context_partial_b :
  forall ec_pub on_curve dh_ec okp_pub dh_okp kdf kw kw_un xc_seal xc_open b64,
  kw_correct_hyps ec_pub on_curve dh_ec okp_pub dh_okp kw kw_un xc_seal xc_open ->
  kw_binding_hyps kdf kw kw_un xc_seal xc_open ->
  forall cek apu apv tag (sender : option kwks) rcp xc eph nonce w alg' epk' apu' apv' tag' (sender' : option pubkey) (rks' : kwks) m,
  length nonce = 24%nat ->
  kw_wrap ec_pub on_curve dh_ec okp_pub dh_okp kdf kw xc_seal b64 KwFixed cek apu apv tag sender rcp xc eph nonce = Ok w ->
  is_xc alg' = is_xc (w_alg w) ->
  kw_unwrap on_curve dh_ec dh_okp kdf kw_un xc_open KwFixed
            {| w_alg := alg'; w_enc := w_enc w; w_epk := epk'; w_apu := apu'; w_apv := apv' |} tag' sender' rks' = Ok m ->
  m = cek /\ alg' = w_alg w /\ apu' = w_apu w /\ apv' = w_apv w /\ (is_pu alg' = true -> tag' = tag) /\
  exists rk' z, kprimary KwFixed rks' = Some rk' /\ unwrap_z on_curve dh_ec dh_okp KwFixed alg' epk' sender' rk' = Ok z /\
                wrap_z ec_pub on_curve dh_ec okp_pub dh_okp KwFixed sender rcp eph = Ok (z, w_epk w).
Proof.
  intros ec_pub on_curve dh_ec okp_pub dh_okp kdf kw kw_un xc_seal xc_open b64.
  unfold kw_correct_hyps, kw_binding_hyps, kw_dh_hyps. intros.
  repeat match goal with H : _ /\ _ |- _ => destruct H end.
  eapply (kw_context_l ec_pub on_curve dh_ec okp_pub dh_okp kdf kw kw_un xc_seal xc_open b64); try eassumption.
Qed.

Lemma kw_other_recipient_key_rejected_b :
  forall ec_pub on_curve dh_ec okp_pub dh_okp kdf kw kw_un xc_seal xc_open b64,
  kw_correct_hyps ec_pub on_curve dh_ec okp_pub dh_okp kw kw_un xc_seal xc_open ->
  kw_binding_hyps kdf kw kw_un xc_seal xc_open -> kw_dh_hyps on_curve dh_ec dh_okp ->
  forall cek apu apv tag (sender : option kwks) rk xc eph nonce w rks' rk' m,
  kw_valid rk -> length nonce = 24%nat ->
  kw_wrap ec_pub on_curve dh_ec okp_pub dh_okp kdf kw xc_seal b64 KwFixed cek apu apv tag sender (pub_of ec_pub okp_pub rk) xc eph nonce = Ok w ->
  kprimary KwFixed rks' = Some rk' -> k_typ rk' = k_typ rk -> k_crv rk' = k_crv rk ->
  kw_unwrap on_curve dh_ec dh_okp kdf kw_un xc_open KwFixed w tag (sender_pub ec_pub okp_pub KwFixed sender) rks' = Ok m ->
  k_priv rk' = k_priv rk.
Proof.
  intros ec_pub on_curve dh_ec okp_pub dh_okp kdf kw kw_un xc_seal xc_open b64.
  unfold kw_correct_hyps, kw_binding_hyps, kw_dh_hyps. intros.
  repeat match goal with H : _ /\ _ |- _ => destruct H end.
  eapply (kw_other_recipient_l ec_pub on_curve dh_ec okp_pub dh_okp kdf kw kw_un xc_seal xc_open b64); try eassumption.
Qed.

Lemma kw_other_epk_rejected_partial_b :
  forall ec_pub on_curve dh_ec okp_pub dh_okp kdf kw kw_un xc_seal xc_open b64,
  kw_correct_hyps ec_pub on_curve dh_ec okp_pub dh_okp kw kw_un xc_seal xc_open ->
  kw_binding_hyps kdf kw kw_un xc_seal xc_open -> kw_dh_hyps on_curve dh_ec dh_okp ->
  forall cek apu apv tag (sender : option kwks) rk xc eph nonce w rks epk' m,
  kw_valid rk -> length nonce = 24%nat ->
  kw_wrap ec_pub on_curve dh_ec okp_pub dh_okp kdf kw xc_seal b64 KwFixed cek apu apv tag sender (pub_of ec_pub okp_pub rk) xc eph nonce = Ok w ->
  kprimary KwFixed rks = Some rk -> p_typ epk' = p_typ (w_epk w) ->
  kw_unwrap on_curve dh_ec dh_okp kdf kw_un xc_open KwFixed
            {| w_alg := w_alg w; w_enc := w_enc w; w_epk := epk'; w_apu := w_apu w; w_apv := w_apv w |}
            tag (sender_pub ec_pub okp_pub KwFixed sender) rks = Ok m ->
  same_point (w_epk w) epk'.
Proof.
  intros ec_pub on_curve dh_ec okp_pub dh_okp kdf kw kw_un xc_seal xc_open b64.
  unfold kw_correct_hyps, kw_binding_hyps, kw_dh_hyps. intros.
  repeat match goal with H : _ /\ _ |- _ => destruct H end.
  eapply (kw_other_epk_l ec_pub on_curve dh_ec okp_pub dh_okp kdf kw kw_un xc_seal xc_open b64); try eassumption.
Qed.

Lemma kw_other_sender_rejected_b :
  forall ec_pub on_curve dh_ec okp_pub dh_okp kdf kw kw_un xc_seal xc_open b64,
  kw_correct_hyps ec_pub on_curve dh_ec okp_pub dh_okp kw kw_un xc_seal xc_open ->
  kw_binding_hyps kdf kw kw_un xc_seal xc_open -> kw_dh_hyps on_curve dh_ec dh_okp ->
  forall cek apu apv tag (sks : kwks) sk rk xc eph nonce w rks sp' m,
  kw_valid rk -> length nonce = 24%nat ->
  kw_wrap ec_pub on_curve dh_ec okp_pub dh_okp kdf kw xc_seal b64 KwFixed cek apu apv tag (Some sks) (pub_of ec_pub okp_pub rk) xc eph nonce = Ok w ->
  kprimary KwFixed rks = Some rk -> kprimary KwFixed sks = Some sk -> p_typ sp' = p_typ (pub_of ec_pub okp_pub sk) ->
  kw_unwrap on_curve dh_ec dh_okp kdf kw_un xc_open KwFixed w tag (Some sp') rks = Ok m ->
  match p_typ (w_epk w) with
  | TEC => pt_of (pub_of ec_pub okp_pub sk) = pt_of sp'
  | _ => unorm (arr32 (p_x (pub_of ec_pub okp_pub sk))) = unorm (arr32 (p_x sp'))
  end.
Proof.
  intros ec_pub on_curve dh_ec okp_pub dh_okp kdf kw kw_un xc_seal xc_open b64.
  unfold kw_correct_hyps, kw_binding_hyps, kw_dh_hyps. intros.
  repeat match goal with H : _ /\ _ |- _ => destruct H end.
  eapply (kw_other_sender_l ec_pub on_curve dh_ec okp_pub dh_okp kdf kw kw_un xc_seal xc_open b64); try eassumption.
Qed.

