(* C04 — executable model (no proofs).
   (a) big.Int <-> bytes, IEEE-P1363 and DER signature codecs (secp256k1/subtle/encoding.go and Tink's
       signature/subtle/encoding.go, which are the same code for curve sizes 32/48/66);
   (b) Tink output prefix, the ciphertext layout of tinkcrypto.Encrypt/Decrypt over keysets with several keys;
   (c) the signing / verifying path through a keyset (Tink wrapper: prefix lookup, then raw entries) with
       export -> re-import of the public key (pubkey_writer / pubkey_reader: key id 1, RAW prefix).
   Primitives (AEAD core, signature core, MAC core) are parameters; Proofs.v states the ideal assumptions
   on them as Section hypotheses and Corr.v instantiates them with executable symbolic instances. *)
From Coq Require Import List NArith ZArith Bool.
Import ListNotations.
Local Open Scope N_scope.

Definition bytes := list N.

Fixpoint bytes_eqb (a b : bytes) : bool :=
  match a, b with
  | [], [] => true
  | x :: r, y :: t => (x =? y) && bytes_eqb r t
  | _, _ => false
  end.

(* ---------- big.Int.Bytes() / SetBytes ---------- *)
Fixpoint le_digits (fuel : nat) (n : N) : bytes :=
  match fuel with
  | O => []
  | S f => if n =? 0 then [] else (n mod 256) :: le_digits f (n / 256)
  end.
(* minimal big-endian representation; [] for 0 *)
Definition be_bytes (n : N) : bytes := rev (le_digits (N.to_nat (N.size n)) n).
Definition of_be (l : bytes) : N := fold_left (fun a b => a * 256 + b) l 0.

Definition zeros (k : nat) : bytes := repeat 0 k.

(* Go: copy(dst[off:], src) — overwrite dst from off, truncated to dst's length (offsets beyond it: no-op) *)
Fixpoint overlay (dst : bytes) (off : nat) (src : bytes) : bytes :=
  match dst with
  | [] => []
  | d :: dr =>
      match off with
      | S o => d :: overlay dr o src
      | O => match src with [] => dst | x :: sr => x :: overlay dr O sr end
      end
  end.

(* ---------- IEEE P1363 (n = byte size of the curve order: 32, 48, 66) ---------- *)
Definition p1363_encode (n : nat) (r s : N) : bytes :=
  let rb := be_bytes r in
  let sb := be_bytes s in
  let e1 := overlay (zeros (2 * n)) (n - length rb) rb in
  overlay e1 (n + (n - length sb)) sb.

Definition p1363_decode (b : bytes) : option (N * N) :=
  let l := length b in
  if (l =? 0)%nat || (132 <? l)%nat || negb (Nat.even l) then None
  else Some (of_be (firstn (Nat.div2 l) b), of_be (skipn (Nat.div2 l) b)).

(* ---------- DER: SEQUENCE { INTEGER r, INTEGER s } as encoding/asn1 marshals {R,S *big.Int} ---------- *)
Definition der_len (n : N) : bytes :=
  if n <? 128 then [n] else let b := be_bytes n in (128 + N.of_nat (length b)) :: b.

Definition hd0 (b : bytes) : N := match b with [] => 0 | x :: _ => x end.

Definition der_int_content (z : Z) : bytes :=
  match z with
  | Z0 => [0]
  | Zpos p => let b := be_bytes (Npos p) in if 128 <=? hd0 b then 0 :: b else b
  | Zneg p => let b := map (fun x => 255 - x) (be_bytes (Pos.pred_N p)) in
              match b with [] => [255] | x :: _ => if x <? 128 then 255 :: b else b end
  end.

Definition der_int (z : Z) : bytes :=
  let c := der_int_content z in 2 :: der_len (N.of_nat (length c)) ++ c.

Definition der_encode (r s : Z) : bytes :=
  let body := der_int r ++ der_int s in 48 :: der_len (N.of_nat (length body)) ++ body.

(* parseTagAndLength's length part: short form, or long form that must be minimal and below 2^31 *)
Definition parse_len (b : bytes) : option (N * bytes) :=
  match b with
  | [] => None
  | x :: r =>
      if x <? 128 then Some (x, r)
      else
        let k := N.to_nat (x - 128) in
        if (k =? 0)%nat || (4 <? k)%nat || (length r <? k)%nat then None
        else
          let lb := firstn k r in
          let v := of_be lb in
          if (hd0 lb =? 0) || (v <? 128) || (2147483648 <=? v) then None
          else Some (v, skipn k r)
  end.

(* checkInteger + parseBigInt *)
Definition int_of_content (c : bytes) : option Z :=
  match c with
  | [] => None
  | [x] => if x <? 128 then Some (Z.of_N x) else Some (Z.of_N x - 256)%Z
  | x :: y :: _ =>
      if ((x =? 0) && (y <? 128)) || ((x =? 255) && (128 <=? y)) then None
      else if x <? 128 then Some (Z.of_N (of_be c))
      else let m := of_be (map (fun v => 255 - v) c) in Some (- Z.of_N m - 1)%Z
  end.

Definition parse_int (b : bytes) : option (Z * bytes) :=
  match b with
  | 2 :: r =>
      match parse_len r with
      | Some (l, r') =>
          let k := N.to_nat l in
          if (length r' <? k)%nat then None
          else match int_of_content (firstn k r') with
               | Some z => Some (z, skipn k r')
               | None => None
               end
      | None => None
      end
  | _ => None
  end.

(* asn1.Unmarshal into the two-INTEGER struct: extra bytes inside the SEQUENCE are tolerated; the bytes after the
   SEQUENCE are returned as `rest` *)
Definition der_parse_rest (b : bytes) : option (Z * Z * bytes) :=
  match b with
  | 48 :: r =>
      match parse_len r with
      | Some (l, r') =>
          let k := N.to_nat l in
          if (length r' <? k)%nat then None
          else match parse_int (firstn k r') with
               | Some (x, r2) => match parse_int r2 with
                                 | Some (y, _) => Some (x, y, skipn k r')
                                 | None => None
                                 end
               | None => None
               end
      | None => None
      end
  | _ => None
  end.
Definition der_parse (b : bytes) : option (Z * Z) :=
  match der_parse_rest b with Some (x, y, _) => Some (x, y) | None => None end.

(* asn1decode: parse, marshal again, compare with the input *)
Definition der_decode (b : bytes) : option (Z * Z) :=
  match der_parse b with
  | Some (r, s) => if bytes_eqb (der_encode r s) b then Some (r, s) else None
  | None => None
  end.

(* ---------- signature/verifier ECDSASignatureVerifier (component/models): P1363 when exactly 2n bytes, otherwise
   asn1.Unmarshal (no re-marshal check).  AsIs = before fix (bytes after the SEQUENCE ignored), Fixed = rejected *)
Inductive variant := AsIs | Fixed.
Definition pkv_decode (v : variant) (n : nat) (sig : bytes) : option (Z * Z) :=
  if (length sig <? 2 * n)%nat then None
  else if (2 * n <? length sig)%nat then
    match der_parse_rest sig with
    | Some (r, s, rest) => match v, rest with Fixed, _ :: _ => None | _, _ => Some (r, s) end
    | None => None
    end
  else Some (Z.of_N (of_be (firstn n sig)), Z.of_N (of_be (skipn n sig))).

(* ---------- keysets ---------- *)
Inductive ptype := PRaw | PTink.
Inductive prim := PGcm | PChacha | PXChacha | PCbcHmac.
Record entry := { e_id : N; e_pt : ptype; e_prim : prim; e_mat : N }.
Record keyset := { ks_entries : list entry; ks_primary : nat }.

Definition be32 (n : N) : bytes := [(n / 16777216) mod 256; (n / 65536) mod 256; (n / 256) mod 256; n mod 256].
Definition prefix_of (e : entry) : bytes :=
  match e_pt e with PRaw => [] | PTink => 1 :: be32 (e_id e) end.
Definition is_raw (e : entry) : bool := match e_pt e with PRaw => true | PTink => false end.
Definition primary (ks : keyset) : option entry := nth_error (ks_entries ks) (ks_primary ks).

(* crypto.go nonceSize: by Go type of the primary primitive; ChaCha20Poly1305 falls into `default` *)
Definition iv_size (p : prim) : nat :=
  match p with PXChacha => 24 | PGcm => 12 | PCbcHmac => 16 | PChacha => 12 end%nat.
(* the primitive's own nonce/IV size (Tink subtle: AESGCMIVSize, chacha20poly1305.NonceSize[X], AES block) *)
Definition real_iv (p : prim) : nat :=
  match p with PGcm => 12 | PChacha => 12 | PXChacha => 24 | PCbcHmac => 16 end%nat.

Fixpoint first_some {A B} (f : A -> option B) (l : list A) : option B :=
  match l with
  | [] => None
  | a :: r => match f a with Some b => Some b | None => first_some f r end
  end.

Fixpoint nodup_bytes (l : list bytes) : list bytes :=
  match l with
  | [] => []
  | a :: r => a :: filter (fun x => negb (bytes_eqb x a)) (nodup_bytes r)
  end.

Section AEAD.
  (* core AEAD of one key: key material id, nonce, aad, message -> body (ciphertext and tag) *)
  Variable raw_enc : N -> bytes -> bytes -> bytes -> bytes.
  Variable raw_dec : N -> bytes -> bytes -> bytes -> option bytes.

  (* a Tink subtle primitive: nonce ++ body; decrypt splits at its own nonce size *)
  Definition prim_encrypt (e : entry) (nonce aad m : bytes) : bytes := nonce ++ raw_enc (e_mat e) nonce aad m.
  Definition prim_decrypt (e : entry) (aad ct : bytes) : option bytes :=
    let iv := real_iv (e_prim e) in
    if (length ct <? iv)%nat then None
    else raw_dec (e_mat e) (firstn iv ct) aad (skipn iv ct).

  (* Tink's AEAD wrapper *)
  Definition tink_encrypt (ks : keyset) (nonce aad m : bytes) : option bytes :=
    match primary ks with
    | Some e => Some (prefix_of e ++ prim_encrypt e nonce aad m)
    | None => None
    end.
  Definition tink_decrypt (es : list entry) (aad ct : bytes) : option bytes :=
    let by_prefix :=
      if (5 <? length ct)%nat then
        first_some (fun e => prim_decrypt e aad (skipn 5 ct))
                   (filter (fun e => negb (is_raw e) && bytes_eqb (prefix_of e) (firstn 5 ct)) es)
      else None in
    match by_prefix with
    | Some m => Some m
    | None => first_some (fun e => prim_decrypt e aad ct) (filter is_raw es)
    end.

  (* tinkcrypto.Encrypt: returns (cipherText, nonce) *)
  Definition svc_encrypt (ks : keyset) (nonce aad m : bytes) : option (bytes * bytes) :=
    match primary ks, tink_encrypt ks nonce aad m with
    | Some e, Some ct =>
        let pl := length (prefix_of e) in
        let iv := iv_size (e_prim e) in
        Some (skipn (pl + iv) ct, firstn iv (skipn pl ct))
    | _, _ => None
    end.
  (* tinkcrypto.Decrypt: for every distinct prefix of the keyset, prefix ++ nonce ++ cipher through Tink *)
  Definition svc_decrypt (ks : keyset) (cipher aad nonce : bytes) : option bytes :=
    first_some (fun p => tink_decrypt (ks_entries ks) aad (p ++ nonce ++ cipher))
               (nodup_bytes (map prefix_of (ks_entries ks))).
End AEAD.

(* ---------- signatures ---------- *)
Inductive senc := EncDer | EncP1363 (n : nat) | EncOpaque.
Inductive sval := SRS (r s : Z) | SBytes (b : bytes).

Definition enc_sig (e : senc) (v : sval) : option bytes :=
  match e, v with
  | EncDer, SRS r s => Some (der_encode r s)
  | EncP1363 n, SRS r s => Some (p1363_encode n (Z.to_N r) (Z.to_N s))
  | EncOpaque, SBytes b => Some b
  | _, _ => None
  end.
Definition dec_sig (e : senc) (b : bytes) : option sval :=
  match e with
  | EncDer => match der_decode b with Some (r, s) => Some (SRS r s) | None => None end
  | EncP1363 _ => match p1363_decode b with Some (r, s) => Some (SRS (Z.of_N r) (Z.of_N s)) | None => None end
  | EncOpaque => Some (SBytes b)
  end.

(* a signing/verifying key inside a keyset: id, output prefix type, key identity, signature encoding *)
Record skey := { s_id : N; s_pt : ptype; s_mat : N; s_enc : senc }.
Definition sprefix (k : skey) : bytes := match s_pt k with PRaw => [] | PTink => 1 :: be32 (s_id k) end.
Definition s_is_raw (k : skey) : bool := match s_pt k with PRaw => true | PTink => false end.

Section SIG.
  Variable msg : Type.
  Variable core_sign : N -> msg -> N -> sval.       (* key identity, message, randomness *)
  Variable core_verify : N -> msg -> sval -> bool.  (* the PUBLIC key is identified with the same N *)

  (* subtle verifier: decode, then the curve's verification (which rejects r,s <= 0 itself) *)
  Definition key_verify (k : skey) (sig : bytes) (m : msg) : bool :=
    match dec_sig (s_enc k) sig with
    | Some v => core_verify (s_mat k) m v
    | None => false
    end.
  (* Tink signer wrapper: prefix of the primary ++ encoded signature *)
  Definition svc_sign (k : skey) (m : msg) (rd : N) : option bytes :=
    match enc_sig (s_enc k) (core_sign (s_mat k) m rd) with
    | Some b => Some (sprefix k ++ b)
    | None => None
    end.
  (* Tink verifier wrapper over a public keyset *)
  Definition svc_verify (ks : list skey) (sig : bytes) (m : msg) : bool :=
    (if (5 <? length sig)%nat then
       existsb (fun k => key_verify k (skipn 5 sig) m)
               (filter (fun k => negb (s_is_raw k) && bytes_eqb (sprefix k) (firstn 5 sig)) ks)
     else false)
    || existsb (fun k => key_verify k sig m) (filter s_is_raw ks).

  (* PublicKeyVerifier on the exported public key *)
  Definition pkv_verify (v : variant) (n : nat) (mat : N) (sig : bytes) (m : msg) : bool :=
    match pkv_decode v n sig with
    | Some (r, s) => core_verify mat m (SRS r s)
    | None => false
    end.

  (* ExportPubKeyBytes + PubKeyBytesToHandle in another KMS: one key, id 1, RAW prefix, encoding by key type *)
  Definition reimport (k : skey) (import_enc : senc) : list skey :=
    [ {| s_id := 1; s_pt := PRaw; s_mat := s_mat k; s_enc := import_enc |} ].
End SIG.
Arguments key_verify {msg}. Arguments svc_sign {msg}. Arguments svc_verify {msg}. Arguments pkv_verify {msg}.

(* ---------- MAC (Tink wrapper: prefix ++ tag) ---------- *)
Section MAC.
  Variable core_mac : N -> bytes -> bytes.
  Definition svc_mac (k : skey) (data : bytes) : bytes := sprefix k ++ core_mac (s_mat k) data.
  Definition svc_verify_mac (ks : list skey) (tag data : bytes) : bool :=
    (if (5 <? length tag)%nat then
       existsb (fun k => bytes_eqb (core_mac (s_mat k) data) (skipn 5 tag))
               (filter (fun k => negb (s_is_raw k) && bytes_eqb (sprefix k) (firstn 5 tag)) ks)
     else false)
    || existsb (fun k => bytes_eqb (core_mac (s_mat k) data) tag) (filter s_is_raw ks).
End MAC.

(* ---------- BBS+ multi-message signatures (SignMulti / VerifyMulti) in the generic-group view ----------
   The signature binds the commitment  h0^s * prod h_i^(m_i).  Positions: 0 = the blinding factor s, i+1 = message i.
   `gen pos` is the IDENTITY of the generator the key derivation yields for a position (equal identities = equal group
   elements); in the generic group two commitments are equal iff every generator identity has the same total exponent. *)
Fixpoint coeff (gen : nat -> nat) (i0 : nat) (ms : list Z) (g : nat) : Z :=
  match ms with
  | [] => 0%Z
  | m :: r => ((if Nat.eqb (gen i0) g then m else 0) + coeff gen (S i0) r g)%Z
  end.
Definition commit_eqb (gen : nat -> nat) (bound : nat) (a b : list Z) : bool :=
  Nat.eqb (length a) (length b) &&
  forallb (fun g => Z.eqb (coeff gen 0 a g) (coeff gen 0 b g)) (seq 0 bound).
(* VerifyMulti of a signature made over `signed`, presented with `presented` (ideal signature on the commitment) *)
Definition bbs_accepts (gen : nat -> nat) (bound : nat) (signed presented : list Z) : bool :=
  commit_eqb gen bound signed presented.
Fixpoint upd (i : nat) (x : Z) (l : list Z) : list Z :=
  match l, i with
  | [], _ => []
  | _ :: r, O => x :: r
  | y :: r, S k => y :: upd k x r
  end.
Definition swap (i j : nat) (l : list Z) : list Z := upd i (nth j l 0%Z) (upd j (nth i l 0%Z) l).

(* ---------- the key-type table row (filled by the translator, coq/gen/Gen_C04.v) ---------- *)
Inductive kkind := KSig | KAead | KMac | KOther.
Record ktrow := {
  kt_name : N;               (* index in spi/kms constant order *)
  kt_kind : kkind;
  kt_creatable : bool;       (* localkms.Create succeeds *)
  kt_create_pt : ptype;      (* output prefix type of the created keyset's primary *)
  kt_enc : senc;             (* signature encoding the created key signs with (observed) *)
  kt_exportable : bool;      (* ExportPubKeyBytes succeeds and returns this key type *)
  kt_importable : bool;      (* PubKeyBytesToHandle succeeds for the exported bytes *)
  kt_import_pt : ptype;      (* output prefix type of the re-imported handle *)
  kt_import_enc : senc;      (* signature encoding of the re-imported handle *)
  kt_prim : prim;            (* AEAD: primitive of the created key *)
  kt_nonce : nat             (* AEAD: nonce size of that primitive (its Go constant) *)
}.
