(* C04 — AEAD through keysets with several keys (rotation): accept exactly what was produced. *)
From Coq Require Import List NArith ZArith Bool Lia ZifyN ZifyNat ZifyBool.
Import ListNotations.
From VF Require Import C04.Model C04.Proofs.
Local Open Scope N_scope.

Lemma first_some_some {A B} (f : A -> option B) l y :
  first_some f l = Some y -> exists x, In x l /\ f x = Some y.
Proof.
  induction l as [|a l IH]; simpl; [discriminate|].
  destruct (f a) eqn:E; intro H.
  - inversion H; subst. exists a; auto.
  - destruct (IH H) as [x [Hi Hx]]. exists x; auto.
Qed.

Lemma first_some_ok {A B} (f : A -> option B) l m :
  (forall x y, In x l -> f x = Some y -> y = m) -> (exists x, In x l /\ f x = Some m) -> first_some f l = Some m.
Proof.
  induction l as [|a l IH]; intros Hu [x [Hi Hx]]; [destruct Hi|].
  simpl. destruct (f a) eqn:E.
  - f_equal. apply (Hu a); [left; reflexivity|exact E].
  - apply IH.
    + intros x' y Hi' Hx'. apply (Hu x'); [right; exact Hi'|exact Hx'].
    + destruct Hi as [->|Hi]; [congruence|]. exists x; auto.
Qed.

Lemma filter_all_false {A} (f : A -> bool) l : (forall x, In x l -> f x = false) -> filter f l = [].
Proof. induction l as [|a l IH]; intro H; simpl; [reflexivity|]. rewrite (H a) by (left; reflexivity). apply IH. intros; apply H; right; assumption. Qed.

Lemma nodup_bytes_in l x : In x (nodup_bytes l) <-> In x l.
Proof.
  induction l as [|a l IH]; simpl; [tauto|]. split.
  - intros [->|H]; [auto|]. apply filter_In in H as [H _]. right. apply IH. exact H.
  - intros [->|H]; [auto|]. destruct (bytes_eqb x a) eqn:E.
    + apply bytes_eqb_eq in E. subst. auto.
    + right. apply filter_In. split; [apply IH; exact H|]. rewrite E. reflexivity.
Qed.

Lemma skipn_app_len {A} (a b : list A) : skipn (length a) (a ++ b) = b.
Proof. induction a; simpl; auto. Qed.
Lemma firstn_app_len {A} (a b : list A) : firstn (length a) (a ++ b) = a.
Proof. induction a; simpl; f_equal; auto. Qed.

Lemma iv_size_real p : iv_size p = real_iv p.
Proof. destruct p; reflexivity. Qed.
Lemma real_iv_pos p : (1 <= real_iv p)%nat.
Proof. destruct p; simpl; lia. Qed.

Section AEADTH.
  Variable raw_enc : N -> bytes -> bytes -> bytes -> bytes.
  Variable raw_dec : N -> bytes -> bytes -> bytes -> option bytes.
  (* ideal AEAD core *)
  Hypothesis H_dec_enc : forall k n a m, raw_dec k n a (raw_enc k n a m) = Some m.
  Hypothesis H_auth : forall k n a c m, raw_dec k n a c = Some m -> c = raw_enc k n a m.
  Hypothesis H_bind : forall k n a m k' n' a' m',
    raw_enc k n a m = raw_enc k' n' a' m' -> k = k' /\ n = n' /\ a = a' /\ m = m'.

  (* keysets produced by Create(kt) followed by any number of Rotate(kt): one primitive, one prefix type *)
  Definition homogeneous (p : prim) (t : ptype) (es : list entry) : Prop :=
    forall e, In e es -> e_prim e = p /\ e_pt e = t.

  Lemma prim_decrypt_split p e a n c :
    e_prim e = p -> length n = real_iv p -> prim_decrypt raw_dec e a (n ++ c) = raw_dec (e_mat e) n a c.
  Proof.
    intros Hp Hl. unfold prim_decrypt. rewrite Hp, <- Hl.
    replace (length (n ++ c) <? length n)%nat with false
      by (symmetry; apply Nat.ltb_ge; rewrite app_length; lia).
    rewrite firstn_app_len, skipn_app_len. reflexivity.
  Qed.

  Lemma by_prefix_none_raw es a ct :
    (forall e, In e es -> e_pt e = PRaw) ->
    (if (5 <? length ct)%nat
     then first_some (fun e => prim_decrypt raw_dec e a (skipn 5 ct))
            (filter (fun e => negb (is_raw e) && bytes_eqb (prefix_of e) (firstn 5 ct)) es)
     else None) = None.
  Proof.
    intro H. rewrite filter_all_false; [destruct (5 <? length ct)%nat; reflexivity|].
    intros x Hx. unfold is_raw. rewrite (H x Hx). reflexivity.
  Qed.

  (* one attempt of the Decrypt loop: what Tink accepts for prefix ++ nonce ++ cipher comes from a key of the keyset *)
  Lemma tink_attempt p t es e0 a n c m :
    homogeneous p t es -> In e0 es -> length n = real_iv p ->
    tink_decrypt raw_dec es a (prefix_of e0 ++ n ++ c) = Some m ->
    exists e, In e es /\ raw_dec (e_mat e) n a c = Some m.
  Proof.
    intros Hh Hi0 Hl. unfold tink_decrypt. destruct t.
    - rewrite by_prefix_none_raw by (intros; apply Hh; assumption).
      unfold prefix_of. rewrite (proj2 (Hh e0 Hi0)). cbn [app]. intro H.
      apply first_some_some in H as [e [Hi He]]. apply filter_In in Hi as [Hi _].
      exists e. split; [exact Hi|]. rewrite <- He. symmetry. apply (prim_decrypt_split p); [apply Hh; exact Hi|exact Hl].
    - assert (L5 : length (prefix_of e0) = 5%nat) by (unfold prefix_of; rewrite (proj2 (Hh e0 Hi0)); reflexivity).
      assert (S5 : skipn 5 (prefix_of e0 ++ n ++ c) = n ++ c) by (rewrite <- L5; apply skipn_app_len).
      rewrite S5.
      rewrite (filter_all_false is_raw) by (intros x Hx; unfold is_raw; rewrite (proj2 (Hh x Hx)); reflexivity).
      cbn [first_some].
      destruct (5 <? length (prefix_of e0 ++ n ++ c))%nat; [|discriminate].
      destruct (first_some _ _) as [m0|] eqn:F; [|discriminate].
      intro H; inversion H; subst m0.
      apply first_some_some in F as [e [Hi He]]. apply filter_In in Hi as [Hi _].
      exists e. split; [exact Hi|]. rewrite <- He. symmetry. apply (prim_decrypt_split p); [apply Hh; exact Hi|exact Hl].
  Qed.

  (* whatever Decrypt accepts was produced with exactly this nonce and aad under a key of the keyset *)
  Lemma decrypt_accepts_only_produced_l p t ks a n c m :
    homogeneous p t (ks_entries ks) -> length n = real_iv p ->
    svc_decrypt raw_dec ks c a n = Some m ->
    exists e, In e (ks_entries ks) /\ c = raw_enc (e_mat e) n a m.
  Proof.
    intros Hh Hl H. unfold svc_decrypt in H.
    apply first_some_some in H as [pf [Hin Hd]].
    apply (proj1 (nodup_bytes_in _ _)) in Hin. apply in_map_iff in Hin as [e0 [<- Hi0]].
    destruct (tink_attempt p t _ e0 a n c m Hh Hi0 Hl Hd) as [e [Hi He]].
    exists e. split; [exact Hi|]. apply H_auth. exact He.
  Qed.

  Lemma tink_attempt_ok p t es e a n m :
    homogeneous p t es -> In e es -> length n = real_iv p ->
    tink_decrypt raw_dec es a (prefix_of e ++ n ++ raw_enc (e_mat e) n a m) = Some m.
  Proof.
    intros Hh Hi Hl.
    assert (U : forall x y, In x es -> prim_decrypt raw_dec x a (n ++ raw_enc (e_mat e) n a m) = Some y -> y = m).
    { intros x y Hx Hy. rewrite (prim_decrypt_split p) in Hy; [|apply Hh; exact Hx|exact Hl].
      apply H_auth in Hy. apply H_bind in Hy. symmetry. apply Hy. }
    assert (E : prim_decrypt raw_dec e a (n ++ raw_enc (e_mat e) n a m) = Some m).
    { rewrite (prim_decrypt_split p); [apply H_dec_enc|apply Hh; exact Hi|exact Hl]. }
    unfold tink_decrypt. destruct t.
    - rewrite by_prefix_none_raw by (intros; apply Hh; assumption).
      unfold prefix_of. rewrite (proj2 (Hh e Hi)). cbn [app].
      apply first_some_ok.
      + intros x y Hx Hy. apply filter_In in Hx as [Hx _]. eapply U; eassumption.
      + exists e. split; [|exact E]. apply filter_In. split; [exact Hi|]. unfold is_raw. rewrite (proj2 (Hh e Hi)). reflexivity.
    - assert (L5 : length (prefix_of e) = 5%nat) by (unfold prefix_of; rewrite (proj2 (Hh e Hi)); reflexivity).
      replace (5 <? length (prefix_of e ++ n ++ raw_enc (e_mat e) n a m))%nat with true
        by (symmetry; apply Nat.ltb_lt; rewrite !app_length, L5, Hl; pose proof (real_iv_pos p); lia).
      assert (S5 : skipn 5 (prefix_of e ++ n ++ raw_enc (e_mat e) n a m) = n ++ raw_enc (e_mat e) n a m)
        by (rewrite <- L5; apply skipn_app_len).
      assert (F5 : firstn 5 (prefix_of e ++ n ++ raw_enc (e_mat e) n a m) = prefix_of e)
        by (rewrite <- L5; apply firstn_app_len).
      rewrite S5, F5.
      rewrite (first_some_ok _ _ m); [reflexivity| |].
      + intros x y Hx Hy. apply filter_In in Hx as [Hx _]. eapply U; eassumption.
      + exists e. split; [|exact E]. apply filter_In. split; [exact Hi|].
        unfold is_raw. rewrite (proj2 (Hh e Hi)). cbn [negb andb]. apply bytes_eqb_refl.
  Qed.

  (* what was produced under any key of the (possibly rotated) keyset decrypts to the message *)
  Lemma decrypt_roundtrip_l p t ks e a n m :
    homogeneous p t (ks_entries ks) -> In e (ks_entries ks) -> length n = real_iv p ->
    svc_decrypt raw_dec ks (raw_enc (e_mat e) n a m) a n = Some m.
  Proof.
    intros Hh Hi Hl. unfold svc_decrypt. apply first_some_ok.
    - intros pf y Hin Hd. apply (proj1 (nodup_bytes_in _ _)) in Hin. apply in_map_iff in Hin as [e0 [<- Hi0]].
      destruct (tink_attempt p t _ e0 a n _ y Hh Hi0 Hl Hd) as [e' [Hi' He']].
      apply H_auth in He'. apply H_bind in He'. symmetry. apply He'.
    - exists (prefix_of e). split; [apply nodup_bytes_in, in_map; exact Hi|].
      apply (tink_attempt_ok p t); assumption.
  Qed.

  (* end to end: Encrypt under keyset ks (any primary), Decrypt under any homogeneous keyset that still holds that key *)
  Lemma aead_roundtrip_multi_l p t ks ks' e nonce a m c n :
    primary ks = Some e -> e_prim e = p -> length nonce = real_iv p ->
    homogeneous p t (ks_entries ks') -> In e (ks_entries ks') ->
    svc_encrypt raw_enc ks nonce a m = Some (c, n) ->
    svc_decrypt raw_dec ks' c a n = Some m.
  Proof.
    intros Hp He Hl Hh Hi Hs.
    unfold svc_encrypt, tink_encrypt, prim_encrypt in Hs. rewrite Hp in Hs.
    rewrite iv_size_real, He, <- Hl in Hs.
    replace (length (prefix_of e) + length nonce)%nat with (length (prefix_of e ++ nonce)) in Hs by (apply app_length).
    rewrite app_assoc, skipn_app_len in Hs. rewrite <- app_assoc, skipn_app_len, firstn_app_len in Hs.
    inversion Hs; subst c n. apply (decrypt_roundtrip_l p t); assumption.
  Qed.

  (* altered nonce or aad with the genuine cipher: rejected.  Other keyset (key not in it): rejected. *)
  Lemma aead_altered_rejected_l p t ks' k n a m n' a' :
    homogeneous p t (ks_entries ks') -> length n' = real_iv p ->
    (n' <> n \/ a' <> a \/ ~ In k (map e_mat (ks_entries ks'))) ->
    svc_decrypt raw_dec ks' (raw_enc k n a m) a' n' = None.
  Proof.
    intros Hh Hl Hne.
    destruct (svc_decrypt raw_dec ks' (raw_enc k n a m) a' n') as [m'|] eqn:D; [|reflexivity].
    exfalso. destruct (decrypt_accepts_only_produced_l p t _ _ _ _ _ Hh Hl D) as [e [Hi He]].
    apply H_bind in He. destruct He as (Hk & Hn & Ha & _).
    destruct Hne as [H|[H|H]]; [congruence|congruence|]. apply H. subst k. apply in_map. exact Hi.
  Qed.
End AEADTH.

(* ---------- ANY keyset (keys of different primitives / prefix types after Rotate with another key type) ---------- *)
Lemma prefix_of_len e : length (prefix_of e) = 0%nat \/ length (prefix_of e) = 5%nat.
Proof. unfold prefix_of. destruct (e_pt e); simpl; auto. Qed.

Section AEADMIXED.
  Variable raw_enc : N -> bytes -> bytes -> bytes -> bytes.
  Variable raw_dec : N -> bytes -> bytes -> bytes -> option bytes.
  Hypothesis H_dec_enc : forall k n a m, raw_dec k n a (raw_enc k n a m) = Some m.
  Hypothesis H_auth : forall k n a c m, raw_dec k n a c = Some m -> c = raw_enc k n a m.
  Hypothesis H_bind : forall k n a m k' n' a' m',
    raw_enc k n a m = raw_enc k' n' a' m' -> k = k' /\ n = n' /\ a = a' /\ m = m'.
  (* no body is a proper suffix of another body (ideal: bodies are unrelated random-looking strings) *)
  Hypothesis H_nosuffix : forall k n a m k' n' a' m' t,
    raw_enc k n a m = t ++ raw_enc k' n' a' m' -> t = [].

  (* any single primitive attempt on a string that ends with a genuine body: success pins down everything *)
  Lemma attempt_unique e' a' u k n a m y :
    prim_decrypt raw_dec e' a' (u ++ raw_enc k n a m) = Some y ->
    e_mat e' = k /\ u = n /\ a' = a /\ y = m.
  Proof.
    unfold prim_decrypt. set (iv := real_iv (e_prim e')). set (c := raw_enc k n a m).
    destruct (length (u ++ c) <? iv)%nat eqn:L; [discriminate|]. apply Nat.ltb_ge in L.
    intro H. apply H_auth in H. rewrite skipn_app in H.
    destruct (Nat.le_gt_cases iv (length u)) as [Hle|Hgt].
    - replace (iv - length u)%nat with 0%nat in H by lia. cbn [skipn] in H.
      symmetry in H. unfold c in H at 1. pose proof (H_nosuffix _ _ _ _ _ _ _ _ _ H) as T.
      rewrite T in H. cbn [app] in H. apply H_bind in H. destruct H as (Hk & Hn & Ha & Hm).
      assert (Lu : length u = iv).
      { assert (length (skipn iv u) = 0%nat) by (rewrite T; reflexivity). rewrite skipn_length in H. lia. }
      rewrite <- Lu, firstn_app_len in Hn. auto.
    - exfalso. rewrite (skipn_all2 u) in H by lia. cbn [app] in H.
      assert (Hc : c = firstn (iv - length u) c ++ skipn (iv - length u) c) by (symmetry; apply firstn_skipn).
      rewrite H in Hc. unfold c in Hc at 1. pose proof (H_nosuffix _ _ _ _ _ _ _ _ _ Hc) as T.
      assert (c = []).
      { destruct c as [|x c']; [reflexivity|]. destruct (iv - length u)%nat eqn:D; [lia|]. discriminate. }
      rewrite app_length in L. rewrite H0 in L. simpl in L. lia.
  Qed.

  Lemma tink_attempt_gen es a' pf n' k n a m y :
    (5 <= length n')%nat ->
    tink_decrypt raw_dec es a' (pf ++ n' ++ raw_enc k n a m) = Some y ->
    exists e' u, In e' es /\ (u = pf ++ n' \/ u = skipn 5 (pf ++ n')) /\
                 e_mat e' = k /\ u = n /\ a' = a /\ y = m.
  Proof.
    intros L5. rewrite app_assoc. set (c := raw_enc k n a m).
    assert (S5 : skipn 5 ((pf ++ n') ++ c) = skipn 5 (pf ++ n') ++ c).
    { rewrite skipn_app. replace (5 - length (pf ++ n'))%nat with 0%nat by (rewrite app_length; lia). reflexivity. }
    unfold tink_decrypt.
    destruct (if (5 <? length ((pf ++ n') ++ c))%nat
              then first_some (fun e => prim_decrypt raw_dec e a' (skipn 5 ((pf ++ n') ++ c)))
                     (filter (fun e => negb (is_raw e) && bytes_eqb (prefix_of e) (firstn 5 ((pf ++ n') ++ c))) es)
              else None) as [y0|] eqn:B.
    - intro H; inversion H; subst y0. destruct (5 <? length ((pf ++ n') ++ c))%nat; [|discriminate].
      apply first_some_some in B as [e' [Hi He]]. apply filter_In in Hi as [Hi _]. rewrite S5 in He.
      apply attempt_unique in He. exists e', (skipn 5 (pf ++ n')). tauto.
    - intro H. apply first_some_some in H as [e' [Hi He]]. apply filter_In in Hi as [Hi _].
      apply attempt_unique in He. exists e', (pf ++ n'). tauto.
  Qed.

  (* Decrypt of a genuine body under ANY keyset: if accepted, then with exactly the original nonce and aad, the original
     message, and a key of this keyset *)
  Lemma decrypt_genuine_gen ks' a' n' k n a m y :
    (5 <= length n')%nat -> length n' = length n ->
    svc_decrypt raw_dec ks' (raw_enc k n a m) a' n' = Some y ->
    In k (map e_mat (ks_entries ks')) /\ n' = n /\ a' = a /\ y = m.
  Proof.
    intros L5 Ln H. unfold svc_decrypt in H. apply first_some_some in H as [pf [Hin Hd]].
    apply (proj1 (nodup_bytes_in _ _)) in Hin. apply in_map_iff in Hin as [e0 [<- _]].
    destruct (tink_attempt_gen _ _ _ _ _ _ _ _ _ L5 Hd) as [e' [u [Hi [Hu [Hk [Hn [Ha Hy]]]]]]].
    split; [rewrite <- Hk; apply in_map; exact Hi|]. split; [|auto].
    destruct (prefix_of_len e0) as [P|P]; destruct Hu as [Hu|Hu]; subst u.
    - destruct (prefix_of e0); [|discriminate]. exact Hn.
    - exfalso. assert (length (skipn 5 (prefix_of e0 ++ n')) = length n) by (rewrite Hn; reflexivity).
      rewrite skipn_length, app_length in H. lia.
    - exfalso. assert (length (prefix_of e0 ++ n') = length n) by (rewrite Hn; reflexivity).
      rewrite app_length in H. lia.
    - rewrite <- P, skipn_app_len in Hn. exact Hn.
  Qed.

  Lemma aead_altered_rejected_gen ks' k n a m n' a' :
    (5 <= length n')%nat -> length n' = length n ->
    (n' <> n \/ a' <> a \/ ~ In k (map e_mat (ks_entries ks'))) ->
    svc_decrypt raw_dec ks' (raw_enc k n a m) a' n' = None.
  Proof.
    intros L5 Ln Hne. destruct (svc_decrypt raw_dec ks' (raw_enc k n a m) a' n') as [y|] eqn:D; [|reflexivity].
    exfalso. destruct (decrypt_genuine_gen _ _ _ _ _ _ _ _ L5 Ln D) as (Hk & Hn & Ha & _). tauto.
  Qed.

  Lemma prim_decrypt_own e a n m :
    length n = real_iv (e_prim e) -> prim_decrypt raw_dec e a (n ++ raw_enc (e_mat e) n a m) = Some m.
  Proof.
    intro Hl. unfold prim_decrypt. rewrite <- Hl.
    replace (length (n ++ raw_enc (e_mat e) n a m) <? length n)%nat with false
      by (symmetry; apply Nat.ltb_ge; rewrite app_length; lia).
    rewrite firstn_app_len, skipn_app_len. apply H_dec_enc.
  Qed.

  Lemma tink_own_gen es e a n m :
    In e es -> length n = real_iv (e_prim e) ->
    tink_decrypt raw_dec es a (prefix_of e ++ n ++ raw_enc (e_mat e) n a m) = Some m.
  Proof.
    intros Hi Hl. pose proof (real_iv_pos (e_prim e)) as Hp.
    assert (L5 : (5 <= length n)%nat) by (rewrite Hl; destruct (e_prim e); simpl; lia).
    set (c := raw_enc (e_mat e) n a m).
    assert (U : forall x u y, prim_decrypt raw_dec x a (u ++ c) = Some y -> y = m).
    { intros x u y H. apply attempt_unique in H. apply H. }
    assert (S5 : skipn 5 (prefix_of e ++ n ++ c) = skipn 5 (prefix_of e ++ n) ++ c).
    { rewrite app_assoc, skipn_app. replace (5 - length (prefix_of e ++ n))%nat with 0%nat by (rewrite app_length; lia). reflexivity. }
    unfold tink_decrypt. rewrite S5.
    destruct (e_pt e) eqn:PT.
    - (* raw key: whatever the prefix phase finds is m; then the raw phase finds e *)
      assert (P0 : prefix_of e = []) by (unfold prefix_of; rewrite PT; reflexivity).
      destruct (if (5 <? length (prefix_of e ++ n ++ c))%nat then _ else None) as [y0|] eqn:B.
      + f_equal. destruct (5 <? length (prefix_of e ++ n ++ c))%nat; [|discriminate].
        apply first_some_some in B as [x [_ Hx]]. eapply U; exact Hx.
      + rewrite P0. cbn [app]. apply first_some_ok.
        * intros x y _ Hx. apply (U x n y). exact Hx.
        * exists e. split; [apply filter_In; split; [exact Hi|unfold is_raw; rewrite PT; reflexivity]|].
          apply prim_decrypt_own. exact Hl.
    - assert (P5 : length (prefix_of e) = 5%nat) by (unfold prefix_of; rewrite PT; reflexivity).
      replace (5 <? length (prefix_of e ++ n ++ c))%nat with true
        by (symmetry; apply Nat.ltb_lt; rewrite !app_length; lia).
      assert (F5 : firstn 5 (prefix_of e ++ n ++ c) = prefix_of e) by (rewrite <- P5; apply firstn_app_len).
      assert (K5 : skipn 5 (prefix_of e ++ n) = n) by (rewrite <- P5; apply skipn_app_len).
      rewrite F5, K5.
      rewrite (first_some_ok _ _ m); [reflexivity| |].
      + intros x y _ Hx. apply (U x n y). exact Hx.
      + exists e. split; [|apply prim_decrypt_own; exact Hl].
        apply filter_In. split; [exact Hi|]. unfold is_raw. rewrite PT. cbn [negb andb]. apply bytes_eqb_refl.
  Qed.

  Lemma decrypt_roundtrip_gen ks' e a n m :
    In e (ks_entries ks') -> length n = real_iv (e_prim e) ->
    svc_decrypt raw_dec ks' (raw_enc (e_mat e) n a m) a n = Some m.
  Proof.
    intros Hi Hl.
    assert (L5 : (5 <= length n)%nat) by (rewrite Hl; destruct (e_prim e); simpl; lia).
    unfold svc_decrypt. apply first_some_ok.
    - intros pf y _ Hd. destruct (tink_attempt_gen _ _ _ _ _ _ _ _ _ L5 Hd) as [e' [u (_ & _ & _ & _ & _ & Hy)]]. exact Hy.
    - exists (prefix_of e). split; [apply nodup_bytes_in, in_map; exact Hi|]. apply tink_own_gen; assumption.
  Qed.

  (* end to end over ANY two keysets: Encrypt under ks, Decrypt under any keyset that still holds the primary of ks *)
  Lemma aead_roundtrip_mixed_l ks ks' e nonce a m c n :
    primary ks = Some e -> length nonce = real_iv (e_prim e) -> In e (ks_entries ks') ->
    svc_encrypt raw_enc ks nonce a m = Some (c, n) ->
    svc_decrypt raw_dec ks' c a n = Some m.
  Proof.
    intros Hp Hl Hi Hs.
    unfold svc_encrypt, tink_encrypt, prim_encrypt in Hs. rewrite Hp in Hs.
    rewrite iv_size_real, <- Hl in Hs.
    replace (length (prefix_of e) + length nonce)%nat with (length (prefix_of e ++ nonce)) in Hs by (apply app_length).
    rewrite app_assoc, skipn_app_len in Hs. rewrite <- app_assoc, skipn_app_len, firstn_app_len in Hs.
    inversion Hs; subst c n. apply decrypt_roundtrip_gen; assumption.
  Qed.
End AEADMIXED.

(* the symbolic AEAD instance satisfies the ideal hypotheses *)
From VF Require Import C04.Inst.

Lemma strip_prefix_app p x : strip_prefix p (p ++ x) = Some x.
Proof. induction p as [|a p IH]; simpl; [reflexivity|]. rewrite N.eqb_refl. exact IH. Qed.
Lemma strip_prefix_some p : forall l x, strip_prefix p l = Some x -> l = p ++ x.
Proof.
  induction p as [|a p IH]; intros l x H; simpl in *; [inversion H; reflexivity|].
  destruct l as [|b l]; [discriminate|]. destruct (N.eqb_spec a b); [|discriminate]. subst. f_equal. apply IH. exact H.
Qed.

Lemma inst_dec_enc k n a m : inst_dec k n a (inst_enc k n a m) = Some m.
Proof.
  unfold inst_dec, inst_enc, inst_code. rewrite rev_involutive, N.eqb_refl, strip_prefix_app, strip_prefix_app.
  unfold lp. rewrite N.eqb_refl. reflexivity.
Qed.
Lemma inst_auth k n a c m : inst_dec k n a c = Some m -> c = inst_enc k n a m.
Proof.
  unfold inst_dec, inst_enc, inst_code. intro H. rewrite <- (rev_involutive c). f_equal.
  destruct (rev c) as [|k' r]; [discriminate|].
  destruct (N.eqb_spec k' k); [|discriminate]. subst.
  destruct (strip_prefix (lp n) r) as [r2|] eqn:E; [|discriminate].
  destruct (strip_prefix (lp a) r2) as [[|l m']|] eqn:E2; try discriminate.
  destruct (N.eqb_spec l (N.of_nat (length m'))); [|discriminate]. inversion H; subst.
  apply strip_prefix_some in E. apply strip_prefix_some in E2. subst. reflexivity.
Qed.

Lemma app_eq_len {A} : forall (a b x y : list A), length a = length b -> a ++ x = b ++ y -> a = b /\ x = y.
Proof.
  induction a as [|h a IH]; intros [|h' b] x y Hl He; try discriminate; [auto|].
  simpl in *. inversion He; subst. destruct (IH b x y) as [-> ->]; auto.
Qed.

(* the code is self-delimiting: a code followed by anything equals another code only if they are the same *)
Lemma inst_code_prefix_free k n a m k' n' a' m' t :
  inst_code k n a m = inst_code k' n' a' m' ++ t -> k = k' /\ n = n' /\ a = a' /\ m = m' /\ t = [].
Proof.
  unfold inst_code, lp. intro H. cbn [app] in H. inversion H as [[Hk Hn Hr]]. clear H.
  apply Nat2N.inj in Hn. rewrite <- ?app_assoc in Hr. destruct (app_eq_len _ _ _ _ Hn Hr) as [-> Hr2].
  rewrite <- ?app_assoc in Hr2. cbn [app] in Hr2. inversion Hr2 as [[Ha Hr3]]. apply Nat2N.inj in Ha.
  rewrite <- ?app_assoc in Hr3. destruct (app_eq_len _ _ _ _ Ha Hr3) as [-> Hr4].
  rewrite <- ?app_assoc in Hr4. cbn [app] in Hr4. inversion Hr4 as [[Hm Hr5]]. apply Nat2N.inj in Hm.
  rewrite <- (app_nil_r m) in Hr5 at 1. destruct (app_eq_len _ _ _ _ Hm Hr5) as [-> Ht]. subst. repeat split; rewrite ?app_nil_r; reflexivity.
Qed.

Lemma inst_bind k n a m k' n' a' m' :
  inst_enc k n a m = inst_enc k' n' a' m' -> k = k' /\ n = n' /\ a = a' /\ m = m'.
Proof.
  unfold inst_enc. intro H. apply (f_equal (@rev N)) in H. rewrite !rev_involutive in H.
  rewrite <- (app_nil_r (inst_code k' n' a' m')) in H. apply inst_code_prefix_free in H. tauto.
Qed.
Lemma inst_nosuffix k n a m k' n' a' m' t :
  inst_enc k n a m = t ++ inst_enc k' n' a' m' -> t = [].
Proof.
  unfold inst_enc. intro H. apply (f_equal (@rev N)) in H. rewrite rev_app_distr, !rev_involutive in H.
  apply inst_code_prefix_free in H. destruct H as (_ & _ & _ & _ & Ht).
  rewrite <- (rev_involutive t), Ht. reflexivity.
Qed.
