(* C04 — DER round trip: der_decode (der_encode r s) = Some (r, s) for all non-negative r, s of up to 1000 bytes
   (Go's encoding/asn1 rules: minimal two's-complement INTEGER, short/long minimal length form). *)
From Coq Require Import List NArith ZArith Bool Lia ZifyN ZifyNat ZifyBool.
Import ListNotations.
From VF Require Import C04.Model C04.Proofs.
Local Open Scope N_scope.

Lemma le_digits_zero f : le_digits f 0 = [].
Proof. destruct f; reflexivity. Qed.

Lemma le_digits_last : forall f n, n < 2 ^ N.of_nat f -> n <> 0 ->
  exists l x, le_digits f n = l ++ [x] /\ x <> 0.
Proof.
  induction f as [|f IH]; intros n Hn Hz.
  - simpl in Hn. lia.
  - cbn [le_digits]. destruct (N.eqb_spec n 0) as [|_]; [contradiction|].
    destruct (N.eq_dec (n / 256) 0) as [E|E].
    + rewrite E, le_digits_zero. exists [], (n mod 256). split; [reflexivity|].
      pose proof (N.div_mod n 256). lia.
    + destruct (IH (n / 256)) as [l [x [Hl Hx]]]; [|exact E|].
      * replace (N.of_nat (S f)) with (N.succ (N.of_nat f)) in Hn by lia.
        rewrite N.pow_succ_r' in Hn. apply N.div_lt_upper_bound; [lia|].
        assert (1 <= 2 ^ N.of_nat f) by (apply N.lt_pred_le, N.neq_0_lt_0, N.pow_nonzero; lia). nia.
      * exists (n mod 256 :: l), x. rewrite Hl. split; [reflexivity|exact Hx].
Qed.

Lemma be_bytes_head n : n <> 0 -> exists x l, be_bytes n = x :: l /\ x <> 0.
Proof.
  intro Hz. unfold be_bytes.
  destruct (le_digits_last (N.to_nat (N.size n)) n) as [l [x [Hl Hx]]]; [rewrite N2Nat.id; apply N.size_gt|exact Hz|].
  rewrite Hl, rev_app_distr. simpl. exists x, (rev l). auto.
Qed.

Lemma of_be_cons0 l : of_be (0 :: l) = of_be l.
Proof. exact (of_be_zeros_app 1 l). Qed.

Lemma firstn_app_len {A} (a b : list A) : firstn (length a) (a ++ b) = a.
Proof. induction a; simpl; f_equal; auto. Qed.
Lemma skipn_app_len {A} (a b : list A) : skipn (length a) (a ++ b) = b.
Proof. induction a; simpl; auto. Qed.

(* ---------- length field ---------- *)
Lemma parse_len_der_len n rest : n < 2147483648 -> parse_len (der_len n ++ rest) = Some (n, rest).
Proof.
  intro Hn. unfold der_len. destruct (N.ltb_spec n 128) as [H|H].
  - simpl. replace (n <? 128) with true by (symmetry; apply N.ltb_lt; exact H). reflexivity.
  - destruct (be_bytes_head n) as [x [l [Hb Hx]]]; [lia|].
    assert (Hlen : (length (be_bytes n) <= 4)%nat).
    { apply be_bytes_length. change (256 ^ N.of_nat 4) with 4294967296. lia. }
    assert (Hv : of_be (be_bytes n) = n) by apply be_bytes_value.
    set (b := be_bytes n) in *.
    assert (Hl1 : (1 <= length b)%nat) by (rewrite Hb; simpl; lia).
    cbn [app parse_len].
    replace (128 + N.of_nat (length b) <? 128) with false by (symmetry; apply N.ltb_ge; lia).
    replace (N.to_nat (128 + N.of_nat (length b) - 128)) with (length b) by lia.
    replace ((length b =? 0)%nat) with false by (symmetry; apply Nat.eqb_neq; lia).
    replace ((4 <? length b)%nat) with false by (symmetry; apply Nat.ltb_ge; lia).
    replace ((length (b ++ rest) <? length b)%nat) with false
      by (symmetry; apply Nat.ltb_ge; rewrite app_length; lia).
    cbn [orb]. rewrite firstn_app_len, skipn_app_len, Hv.
    replace (hd0 b =? 0) with false by (symmetry; apply N.eqb_neq; rewrite Hb; exact Hx).
    replace (n <? 128) with false by (symmetry; apply N.ltb_ge; exact H).
    replace (2147483648 <=? n) with false by (symmetry; apply N.leb_gt; exact Hn).
    reflexivity.
Qed.

Lemma der_len_length n : n < 2147483648 -> (length (der_len n) <= 5)%nat.
Proof.
  intro Hn. unfold der_len. destruct (n <? 128); [simpl; lia|].
  cbn [length]. assert ((length (be_bytes n) <= 4)%nat); [|lia].
  apply be_bytes_length. change (256 ^ N.of_nat 4) with 4294967296. lia.
Qed.

(* ---------- INTEGER ---------- *)
Lemma int_content_roundtrip z : (0 <= z)%Z -> int_of_content (der_int_content z) = Some z.
Proof.
  intro Hz. destruct z as [|p|p]; [reflexivity| |lia].
  unfold der_int_content.
  destruct (be_bytes_head (Npos p)) as [x [l [Hb Hx]]]; [discriminate|].
  pose proof (be_bytes_value (Npos p)) as Hv. rewrite Hb in *.
  cbn [hd0]. destruct (N.leb_spec 128 x) as [H|H].
  - cbn [int_of_content]. rewrite N.eqb_refl.
    replace (x <? 128) with false by (symmetry; apply N.ltb_ge; exact H).
    cbn [andb orb]. change (0 =? 255) with false. cbn [andb orb]. change (0 <? 128) with true. cbv iota.
    rewrite of_be_cons0, Hv. reflexivity.
  - destruct l as [|y l'].
    + cbn [int_of_content]. replace (x <? 128) with true by (symmetry; apply N.ltb_lt; exact H).
      unfold of_be in Hv. simpl in Hv. rewrite Hv. reflexivity.
    + cbn [int_of_content].
      replace (x =? 0) with false by (symmetry; apply N.eqb_neq; exact Hx).
      replace (x =? 255) with false by (symmetry; apply N.eqb_neq; lia).
      cbn [andb orb]. replace (x <? 128) with true by (symmetry; apply N.ltb_lt; exact H).
      rewrite Hv. reflexivity.
Qed.

Lemma int_content_length z k : (0 <= z < 256 ^ Z.of_nat k)%Z -> (1 <= length (der_int_content z) <= S k)%nat.
Proof.
  intros [Hz Hk]. destruct z as [|p|p]; [simpl; lia| |lia].
  unfold der_int_content.
  assert (Hl : (length (be_bytes (Npos p)) <= k)%nat).
  { apply be_bytes_length. apply N2Z.inj_lt. rewrite N2Z.inj_pow, nat_N_Z. exact Hk. }
  destruct (be_bytes_head (Npos p)) as [x [l [Hb _]]]; [discriminate|].
  rewrite Hb in *. destruct (128 <=? hd0 (x :: l)); simpl in *; lia.
Qed.

Lemma parse_int_der_int z rest :
  (0 <= z)%Z -> N.of_nat (length (der_int_content z)) < 2147483648 ->
  parse_int (der_int z ++ rest) = Some (z, rest).
Proof.
  intros Hz Hl. unfold der_int. cbn [app parse_int]. rewrite <- app_assoc.
  rewrite parse_len_der_len by exact Hl. rewrite Nat2N.id.
  replace ((length (der_int_content z ++ rest) <? length (der_int_content z))%nat) with false
    by (symmetry; apply Nat.ltb_ge; rewrite app_length; lia).
  rewrite firstn_app_len, skipn_app_len, int_content_roundtrip by exact Hz. reflexivity.
Qed.

Lemma der_int_length z k : (0 <= z < 256 ^ Z.of_nat k)%Z -> (k <= 1000)%nat -> (length (der_int z) <= k + 7)%nat.
Proof.
  intros Hz Hk. pose proof (int_content_length z k Hz) as Hc. unfold der_int. cbn [length]. rewrite app_length.
  assert ((length (der_len (N.of_nat (length (der_int_content z)))) <= 5)%nat) by (apply der_len_length; lia). lia.
Qed.

Lemma der_parse_rest_encode r s k :
  (k <= 1000)%nat -> (0 <= r < 256 ^ Z.of_nat k)%Z -> (0 <= s < 256 ^ Z.of_nat k)%Z ->
  der_parse_rest (der_encode r s) = Some (r, s, []).
Proof.
  intros Hk Hr Hs. unfold der_encode. cbv zeta. cbn [der_parse_rest].
  pose proof (der_int_length r k Hr Hk) as Lr. pose proof (der_int_length s k Hs Hk) as Ls.
  pose proof (int_content_length r k Hr) as Cr. pose proof (int_content_length s k Hs) as Cs.
  set (body := der_int r ++ der_int s).
  assert (Lb : (length body <= 2 * k + 14)%nat) by (unfold body; rewrite app_length; lia).
  rewrite <- (app_nil_r body) at 2.
  rewrite parse_len_der_len by lia. rewrite Nat2N.id.
  replace ((length (body ++ []) <? length body)%nat) with false
    by (symmetry; apply Nat.ltb_ge; rewrite app_length; lia).
  rewrite firstn_app_len, skipn_app_len.
  unfold body. rewrite parse_int_der_int by lia.
  rewrite <- (app_nil_r (der_int s)). rewrite parse_int_der_int by lia. reflexivity.
Qed.

Lemma der_roundtrip_l r s k :
  (k <= 1000)%nat -> (0 <= r < 256 ^ Z.of_nat k)%Z -> (0 <= s < 256 ^ Z.of_nat k)%Z ->
  der_decode (der_encode r s) = Some (r, s).
Proof.
  intros Hk Hr Hs. unfold der_decode, der_parse. rewrite (der_parse_rest_encode r s k Hk Hr Hs).
  rewrite bytes_eqb_refl. reflexivity.
Qed.

(* ---------- signature/verifier: a byte appended to an accepted DER signature is rejected (after the fix) ---------- *)
Lemma parse_len_app b l r t : parse_len b = Some (l, r) -> parse_len (b ++ t) = Some (l, r ++ t).
Proof.
  destruct b as [|x b]; [discriminate|]. cbn [app parse_len].
  destruct (x <? 128); [intro H; inversion H; reflexivity|].
  set (k := N.to_nat (x - 128)).
  destruct ((k =? 0)%nat || (4 <? k)%nat || (length b <? k)%nat) eqn:C; [discriminate|].
  apply orb_false_iff in C as [C C3]. apply Nat.ltb_ge in C3.
  replace ((k =? 0)%nat || (4 <? k)%nat || (length (b ++ t) <? k)%nat) with false
    by (rewrite C; symmetry; apply Nat.ltb_ge; rewrite app_length; lia).
  rewrite firstn_app. replace (k - length b)%nat with 0%nat by lia. cbn [firstn]. rewrite app_nil_r.
  destruct ((hd0 (firstn k b) =? 0) || (of_be (firstn k b) <? 128) || (2147483648 <=? of_be (firstn k b))); [discriminate|].
  intro H; inversion H. rewrite skipn_app. replace (k - length b)%nat with 0%nat by lia. reflexivity.
Qed.

Lemma der_parse_rest_appended b r s x :
  der_parse_rest b = Some (r, s, []) -> der_parse_rest (b ++ [x]) = Some (r, s, [x]).
Proof.
  destruct b as [|t b]; [discriminate|]. cbn [app].
  assert (T : der_parse_rest (t :: b) = Some (r, s, []) -> t = 48).
  { intro H. destruct t as [|p]; [discriminate|].
    repeat (destruct p as [p|p|]; try discriminate). reflexivity. }
  intro H. pose proof (T H) as E. subst t. clear T. revert H. cbn [der_parse_rest].
  destruct (parse_len b) as [[l r']|] eqn:PL; [|discriminate].
  rewrite (parse_len_app _ _ _ [x] PL).
  destruct (length r' <? N.to_nat l)%nat eqn:L; [discriminate|]. apply Nat.ltb_ge in L.
  replace (length (r' ++ [x]) <? N.to_nat l)%nat with false by (symmetry; apply Nat.ltb_ge; rewrite app_length; lia).
  rewrite firstn_app. replace (N.to_nat l - length r')%nat with 0%nat by lia. cbn [firstn]. rewrite app_nil_r.
  destruct (parse_int (firstn (N.to_nat l) r')) as [[a r2]|]; [|discriminate].
  destruct (parse_int r2) as [[c r3]|]; [|discriminate].
  intro H; inversion H as [[H1 H2 H3]]. rewrite skipn_app, H3. replace (N.to_nat l - length r')%nat with 0%nat by lia.
  reflexivity.
Qed.

Lemma pkv_appended_rejected_l n b r s x :
  (2 * n < length b)%nat -> pkv_decode Fixed n b = Some (r, s) -> pkv_decode Fixed n (b ++ [x]) = None.
Proof.
  intros Hl. unfold pkv_decode.
  replace (length b <? 2 * n)%nat with false by (symmetry; apply Nat.ltb_ge; lia).
  replace (2 * n <? length b)%nat with true by (symmetry; apply Nat.ltb_lt; lia).
  replace (length (b ++ [x]) <? 2 * n)%nat with false by (symmetry; apply Nat.ltb_ge; rewrite app_length; lia).
  replace (2 * n <? length (b ++ [x]))%nat with true by (symmetry; apply Nat.ltb_lt; rewrite app_length; lia).
  destruct (der_parse_rest b) as [[[r0 s0] rest]|] eqn:P; [|discriminate].
  destruct rest; [|discriminate]. intros _.
  rewrite (der_parse_rest_appended _ _ _ x P). reflexivity.
Qed.
