(* C04 — lemmas about the service paths: sign / export / re-import / verify, MAC, ciphertext layout. *)
From Coq Require Import List NArith ZArith Bool Lia ZifyN ZifyNat ZifyBool.
Import ListNotations.
From VF Require Import C04.Model C04.Inst C04.Proofs C04.ProofsDer gen.Gen_C04.
Local Open Scope N_scope.

(* the codec carries the value: what the encoder produces, the decoder maps back to the same value *)
Definition codec_ok (e : senc) (v : sval) : Prop := exists b, enc_sig e v = Some b /\ dec_sig e b = Some v.

Lemma codec_ok_p1363 n r s :
  (1 <= n <= 66)%nat -> (0 <= r < 256 ^ Z.of_nat n)%Z -> (0 <= s < 256 ^ Z.of_nat n)%Z ->
  codec_ok (EncP1363 n) (SRS r s).
Proof.
  intros Hn Hr Hs.
  assert (Hr' : Z.to_N r < 256 ^ N.of_nat n).
  { apply N2Z.inj_lt. rewrite N2Z.inj_pow, Z2N.id by lia. rewrite nat_N_Z. simpl Z.of_N. lia. }
  assert (Hs' : Z.to_N s < 256 ^ N.of_nat n).
  { apply N2Z.inj_lt. rewrite N2Z.inj_pow, Z2N.id by lia. rewrite nat_N_Z. simpl Z.of_N. lia. }
  destruct (p1363_roundtrip_l n _ _ Hn Hr' Hs') as [_ Hd].
  exists (p1363_encode n (Z.to_N r) (Z.to_N s)). split; [reflexivity|].
  simpl. rewrite Hd. rewrite !Z2N.id by lia. reflexivity.
Qed.

Lemma codec_ok_opaque b : codec_ok EncOpaque (SBytes b).
Proof. exists b. split; reflexivity. Qed.

Lemma codec_ok_der r s k :
  (k <= 1000)%nat -> (0 <= r < 256 ^ Z.of_nat k)%Z -> (0 <= s < 256 ^ Z.of_nat k)%Z -> codec_ok EncDer (SRS r s).
Proof.
  intros Hk Hr Hs. exists (der_encode r s). split; [reflexivity|]. simpl.
  rewrite (der_roundtrip_l r s k Hk Hr Hs). reflexivity.
Qed.

(* the core signature value is in the range of the encoding: a condition on the VALUE only *)
Definition sval_fits (e : senc) (v : sval) : Prop :=
  match e, v with
  | EncDer, SRS r s => (0 <= r < 256 ^ 1000)%Z /\ (0 <= s < 256 ^ 1000)%Z
  | EncP1363 n, SRS r s => (1 <= n <= 66)%nat /\ (0 <= r < 256 ^ Z.of_nat n)%Z /\ (0 <= s < 256 ^ Z.of_nat n)%Z
  | EncOpaque, SBytes _ => True
  | _, _ => False
  end.

Lemma sval_fits_codec_ok e v : sval_fits e v -> codec_ok e v.
Proof.
  destruct e as [|n|], v as [r s|b]; simpl; try tauto.
  - intros [Hr Hs]. apply (codec_ok_der r s 1000); [lia| |]; change (Z.of_nat 1000) with 1000%Z; assumption.
  - intros (Hn & Hr & Hs). apply codec_ok_p1363; assumption.
  - intros _. apply codec_ok_opaque.
Qed.

(* decoders are injective on what they accept (DER: always; P1363: among byte strings of one length) *)
Lemma dec_sig_inj e a b v :
  Forall (fun d => d < 256) a -> Forall (fun d => d < 256) b -> length a = length b ->
  dec_sig e a = Some v -> dec_sig e b = Some v -> a = b.
Proof.
  intros Fa Fb Hl Ha Hb. destruct e as [|n|]; simpl in *.
  - destruct (der_decode a) as [[r s]|] eqn:Ea; [|discriminate].
    destruct (der_decode b) as [[r' s']|] eqn:Eb; [|discriminate].
    inversion Ha; subst. inversion Hb; subst. eapply der_decode_inj_l; eassumption.
  - destruct (p1363_decode a) as [[r s]|] eqn:Ea; [|discriminate].
    destruct (p1363_decode b) as [[r' s']|] eqn:Eb; [|discriminate].
    inversion Ha; subst. inversion Hb as [[H1 H2]].
    apply N2Z.inj in H1. apply N2Z.inj in H2. subst.
    eapply p1363_decode_inj_l; eassumption.
  - congruence.
Qed.

Section SIGTH.
  Variable msg : Type.
  Variable core_sign : N -> msg -> N -> sval.
  Variable core_verify : N -> msg -> sval -> bool.
  (* ideal signature scheme: correct, and a signature is bound to its key and message *)
  Hypothesis H_correct : forall k m rd, core_verify k m (core_sign k m rd) = true.
  Hypothesis H_sep : forall k m rd k' m', (k <> k' \/ m <> m') -> core_verify k' m' (core_sign k m rd) = false.

  Definition rawkey (k : skey) := s_pt k = PRaw.

  (* a key with RAW output prefix: the signature verifies with the exported public key re-imported elsewhere *)
  Lemma sign_verify_reimport k m rd :
    rawkey k -> codec_ok (s_enc k) (core_sign (s_mat k) m rd) ->
    exists sig, svc_sign core_sign k m rd = Some sig /\
                svc_verify core_verify (reimport k (s_enc k)) sig m = true.
  Proof.
    intros Hraw [b [He Hd]]. exists b. unfold svc_sign. rewrite He.
    unfold sprefix. rewrite Hraw. split; [reflexivity|].
    unfold svc_verify, reimport. cbn [filter s_is_raw s_pt negb andb existsb].
    assert (K : key_verify core_verify {| s_id := 1; s_pt := PRaw; s_mat := s_mat k; s_enc := s_enc k |} b m = true).
    { unfold key_verify. cbn [s_enc s_mat]. rewrite Hd. apply H_correct. }
    rewrite K. destruct (5 <? length b)%nat; reflexivity.
  Qed.

  (* ... and is rejected for another key or another message *)
  Lemma other_key_or_msg_rejected k m rd k' m' sig :
    rawkey k -> svc_sign core_sign k m rd = Some sig ->
    codec_ok (s_enc k) (core_sign (s_mat k) m rd) -> s_enc k' = s_enc k ->
    (s_mat k <> s_mat k' \/ m <> m') ->
    svc_verify core_verify (reimport k' (s_enc k')) sig m' = false.
  Proof.
    intros Hraw Hs [b [He Hd]] Henc Hne. unfold svc_sign in Hs. rewrite He in Hs.
    unfold sprefix in Hs. rewrite Hraw in Hs. inversion Hs; subst sig. clear Hs.
    unfold svc_verify, reimport. cbn [filter s_is_raw s_pt negb andb existsb].
    assert (K : key_verify core_verify {| s_id := 1; s_pt := PRaw; s_mat := s_mat k'; s_enc := s_enc k' |} b m' = false).
    { unfold key_verify. cbn [s_enc s_mat]. rewrite Henc, Hd. apply H_sep. exact Hne. }
    rewrite K. destruct (5 <? length b)%nat; reflexivity.
  Qed.

  (* whatever the re-imported key accepts decodes to a value the core scheme accepts for that key and message *)
  Lemma reimport_accepts_only_core_valid k e sig m :
    svc_verify core_verify (reimport k e) sig m = true ->
    exists v, dec_sig e sig = Some v /\ core_verify (s_mat k) m v = true.
  Proof.
    unfold svc_verify, reimport. cbn [filter s_is_raw s_pt negb andb existsb].
    intro H. assert (K : key_verify core_verify {| s_id := 1; s_pt := PRaw; s_mat := s_mat k; s_enc := e |} sig m = true).
    { destruct (5 <? length sig)%nat; simpl in H; rewrite orb_false_r in H; exact H. }
    unfold key_verify in K. cbn [s_enc s_mat] in K.
    destruct (dec_sig e sig) as [v|]; [|discriminate]. exists v. split; [reflexivity|exact K].
  Qed.

  (* an altered signature of the same length that is still accepted is a DIFFERENT core-valid signature value for the
     same key and message, i.e. a forgery of the underlying scheme itself — the encoding layer adds none *)
  Lemma altered_accepted_is_core_forgery k m rd sig sig' :
    rawkey k -> svc_sign core_sign k m rd = Some sig ->
    codec_ok (s_enc k) (core_sign (s_mat k) m rd) ->
    Forall (fun d => d < 256) sig -> Forall (fun d => d < 256) sig' -> length sig' = length sig -> sig' <> sig ->
    svc_verify core_verify (reimport k (s_enc k)) sig' m = true ->
    exists v', dec_sig (s_enc k) sig' = Some v' /\ v' <> core_sign (s_mat k) m rd /\ core_verify (s_mat k) m v' = true.
  Proof.
    intros Hraw Hs [b [He Hd]] Fs Fs' Hl Hne Hv.
    unfold svc_sign in Hs. rewrite He in Hs. unfold sprefix in Hs. rewrite Hraw in Hs. inversion Hs; subst sig. clear Hs.
    destruct (reimport_accepts_only_core_valid _ _ _ _ Hv) as [v' [Hd' Hc]].
    exists v'. split; [exact Hd'|]. split; [|exact Hc].
    intro E. subst v'. apply Hne. simpl in *. eapply dec_sig_inj; eassumption.
  Qed.
End SIGTH.

(* the symbolic instance satisfies the hypotheses (so they are satisfiable) *)
Lemma inst_sig_correct o k m rd : inst_verify o k m (inst_sign o k m rd) = true.
Proof. destruct o; simpl; [rewrite !N.eqb_refl; reflexivity | rewrite !Z.eqb_refl; reflexivity]. Qed.
Lemma inst_sig_sep o k m rd k' m' : (k <> k' \/ m <> m') -> inst_verify o k' m' (inst_sign o k m rd) = false.
Proof.
  intro H. destruct o; simpl.
  - destruct (N.eqb_spec k k'); destruct (N.eqb_spec m m'); simpl; try reflexivity.
    subst. exfalso. destruct H; congruence.
  - destruct (Z.eqb_spec (Z.of_N k + 1) (Z.of_N k' + 1)); destruct (Z.eqb_spec (Z.of_N m + 1) (Z.of_N m' + 1)); simpl; try reflexivity.
    exfalso. destruct H as [H|H]; apply H; lia.
Qed.

(* ---------- the generated table ---------- *)
Definition ptype_eqb (a b : ptype) : bool := match a, b with PRaw, PRaw | PTink, PTink => true | _, _ => false end.
Definition senc_eqb (a b : senc) : bool :=
  match a, b with
  | EncDer, EncDer | EncOpaque, EncOpaque => true
  | EncP1363 n, EncP1363 m => Nat.eqb n m
  | _, _ => false
  end.
Definition is_sig (r : ktrow) : bool := match kt_kind r with KSig => true | _ => false end.
Definition is_aead (r : ktrow) : bool := match kt_kind r with KAead => true | _ => false end.

(* every creatable signing key type: exportable, importable, RAW prefix on both sides, same encoding, known size *)
Definition sig_row_consistent (r : ktrow) : bool :=
  if is_sig r && kt_creatable r then
    kt_exportable r && kt_importable r && ptype_eqb (kt_create_pt r) PRaw && ptype_eqb (kt_import_pt r) PRaw
    && senc_eqb (kt_enc r) (kt_import_enc r)
    && match kt_enc r with EncP1363 n => Nat.eqb n 32 || Nat.eqb n 48 || Nat.eqb n 66 | _ => true end
  else true.
(* every creatable AEAD key type: crypto.go's nonceSize equals the primitive's own nonce size *)
Definition aead_row_consistent (r : ktrow) : bool :=
  if is_aead r && kt_creatable r then Nat.eqb (iv_size (kt_prim r)) (kt_nonce r) && Nat.eqb (real_iv (kt_prim r)) (kt_nonce r) else true.

Lemma ptype_eqb_eq a b : ptype_eqb a b = true -> a = b.
Proof. destruct a, b; simpl; congruence. Qed.
Lemma senc_eqb_eq a b : senc_eqb a b = true -> a = b.
Proof. destruct a, b; simpl; try congruence. intro H. apply Nat.eqb_eq in H. congruence. Qed.

Lemma table_sig_consistent : forallb sig_row_consistent table = true.
Proof. vm_compute. reflexivity. Qed.
Lemma table_aead_consistent : forallb aead_row_consistent table = true.
Proof. vm_compute. reflexivity. Qed.

(* the row as it was before the fix (the created key carried the Tink prefix) *)
Definition secp_p1363_asis : ktrow :=
  {| kt_name := 12; kt_kind := KSig; kt_creatable := true; kt_create_pt := PTink; kt_enc := EncP1363 32;
     kt_exportable := true; kt_importable := true; kt_import_pt := PRaw; kt_import_enc := EncP1363 32;
     kt_prim := PGcm; kt_nonce := 0 |}.

(* ---------- MAC ---------- *)
Section MACTH.
  Variable core_mac : N -> bytes -> bytes.
  Hypothesis H_mac_nonempty : forall k d, core_mac k d <> [].

  Lemma mac_accepts_own k d : svc_verify_mac core_mac [k] (svc_mac core_mac k d) d = true.
  Proof.
    unfold svc_verify_mac, svc_mac, sprefix, s_is_raw. destruct (s_pt k) eqn:P; cbn [filter negb andb existsb app].
    - rewrite P. cbn [existsb]. rewrite bytes_eqb_refl. destruct (5 <? _)%nat; reflexivity.
    - rewrite P. cbn [negb andb firstn skipn length app]. rewrite bytes_eqb_refl. cbn [existsb].
      rewrite bytes_eqb_refl. pose proof (H_mac_nonempty (s_mat k) d) as NE.
      destruct (core_mac (s_mat k) d); [congruence|]. reflexivity.
  Qed.

  Lemma mac_accepts_only_exact k tag d :
    svc_verify_mac core_mac [k] tag d = true -> tag = svc_mac core_mac k d.
  Proof.
    unfold svc_verify_mac, svc_mac, sprefix, s_is_raw. destruct (s_pt k) eqn:P; cbn [filter negb andb existsb app].
    - rewrite P. cbn [existsb]. intro H.
      assert (K : bytes_eqb (core_mac (s_mat k) d) tag = true).
      { destruct (5 <? length tag)%nat; simpl in H; rewrite ?orb_false_r in H; exact H. }
      apply bytes_eqb_eq in K. symmetry; exact K.
    - rewrite P. cbn [negb andb existsb]. rewrite orb_false_r.
      destruct (5 <? length tag)%nat eqn:L; [|discriminate].
      destruct (bytes_eqb (1 :: be32 (s_id k)) (firstn 5 tag)) eqn:E; cbn [filter existsb]; [|discriminate].
      rewrite orb_false_r. intro K. apply bytes_eqb_eq in K. apply bytes_eqb_eq in E.
      rewrite <- (firstn_skipn 5 tag). rewrite <- E, <- K. reflexivity.
  Qed.
End MACTH.

(* ---------- ciphertext layout of tinkcrypto.Encrypt ---------- *)
Section LAYOUT.
  Variable raw_enc : N -> bytes -> bytes -> bytes -> bytes.

  Lemma skipn_app_exact {A} (a b : list A) : skipn (length a) (a ++ b) = b.
  Proof. induction a; simpl; auto. Qed.
  Lemma firstn_app_exact {A} (a b : list A) : firstn (length a) (a ++ b) = a.
  Proof. induction a; simpl; f_equal; auto. Qed.

  (* the pair returned by Encrypt is exactly (body, nonce) of the primary's ciphertext, and prefix ++ nonce ++ cipher
     is the Tink ciphertext again — for ANY keyset, provided the nonce has the size crypto.go assumes for the primary *)
  Lemma encrypt_layout ks e nonce aad m :
    primary ks = Some e -> length nonce = iv_size (e_prim e) ->
    svc_encrypt raw_enc ks nonce aad m = Some (raw_enc (e_mat e) nonce aad m, nonce) /\
    tink_encrypt raw_enc ks nonce aad m = Some (prefix_of e ++ nonce ++ raw_enc (e_mat e) nonce aad m).
  Proof.
    intros Hp Hl. unfold svc_encrypt, tink_encrypt, prim_encrypt. rewrite Hp. split; [|reflexivity].
    rewrite <- Hl.
    replace (length (prefix_of e) + length nonce)%nat with (length (prefix_of e ++ nonce)) by (apply app_length).
    rewrite app_assoc, skipn_app_exact. rewrite <- app_assoc, skipn_app_exact, firstn_app_exact. reflexivity.
  Qed.
End LAYOUT.

(* ---------- the table composed with the signing path ---------- *)
Section TABLETH.
  Variable msg : Type.
  Variable core_sign : N -> msg -> N -> sval.
  Variable core_verify : N -> msg -> sval -> bool.
  Hypothesis H_correct : forall k m rd, core_verify k m (core_sign k m rd) = true.

  Definition created_key (rw : ktrow) (kid mat : N) : skey :=
    {| s_id := kid; s_pt := kt_create_pt rw; s_mat := mat; s_enc := kt_enc rw |}.

  Lemma row_facts rw : In rw table -> kt_kind rw = KSig -> kt_creatable rw = true ->
    kt_exportable rw = true /\ kt_importable rw = true /\ kt_create_pt rw = PRaw /\ kt_import_pt rw = PRaw /\
    kt_import_enc rw = kt_enc rw.
  Proof.
    intros Hin Hk Hc. pose proof table_sig_consistent as T. rewrite forallb_forall in T. specialize (T rw Hin).
    unfold sig_row_consistent, is_sig in T. rewrite Hk, Hc in T. cbn [andb] in T.
    repeat (apply andb_true_iff in T; destruct T as [T ?]).
    repeat split; auto using ptype_eqb_eq. symmetry. apply senc_eqb_eq. assumption.
  Qed.

  Lemma sign_verify_export_table rw kid mat m rd :
    In rw table -> kt_kind rw = KSig -> kt_creatable rw = true ->
    codec_ok (kt_enc rw) (core_sign mat m rd) ->
    exists sig, svc_sign core_sign (created_key rw kid mat) m rd = Some sig /\
                svc_verify core_verify (reimport (created_key rw kid mat) (kt_import_enc rw)) sig m = true.
  Proof.
    intros Hin Hk Hc Hco. destruct (row_facts rw Hin Hk Hc) as (_ & _ & Hp & _ & He).
    rewrite He. apply (sign_verify_reimport msg core_sign core_verify H_correct (created_key rw kid mat) m rd).
    - exact Hp.
    - exact Hco.
  Qed.
End TABLETH.
