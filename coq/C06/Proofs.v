(* C06 — lemmas *)
From Coq Require Import List NArith Bool Lia.
Import ListNotations.
From VF Require Import C06.Model.
