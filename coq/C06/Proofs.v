(* C06 — lemmas *)
From Coq Require Import List NArith Bool Lia String Ascii PeanoNat.
Import ListNotations.
From VF Require Import C06.Model.

Lemma kid_eqb_eq a b : kid_eqb a b = true <-> a = b.
Proof.
  destruct a, b; simpl; split; intro H; try discriminate; try (apply N.eqb_eq in H; subst; reflexivity);
    inversion H; subst; apply N.eqb_refl.
Qed.
Lemma kid_eqb_refl a : kid_eqb a a = true.
Proof. apply kid_eqb_eq; reflexivity. Qed.
Lemma kid_eqb_neq a b : kid_eqb a b = false <-> a <> b.
Proof.
  split; intro H.
  - intro E. apply kid_eqb_eq in E. congruence.
  - destruct (kid_eqb a b) eqn:E; [apply kid_eqb_eq in E; contradiction | reflexivity].
Qed.

Lemma lookup_remove_same s id : lookup (remove s id) id = None.
Proof.
  induction s as [|[i ks] r IH]; simpl; [reflexivity|].
  destruct (kid_eqb id i) eqn:E; [exact IH|]. simpl. rewrite E. exact IH.
Qed.
Lemma lookup_remove_other s id id' : id' <> id -> lookup (remove s id) id' = lookup s id'.
Proof.
  intro N. induction s as [|[i ks] r IH]; simpl; [reflexivity|].
  destruct (kid_eqb id i) eqn:E.
  - apply kid_eqb_eq in E; subst i. rewrite IH.
    destruct (kid_eqb id' id) eqn:E2; [apply kid_eqb_eq in E2; contradiction | reflexivity].
  - simpl. rewrite IH. reflexivity.
Qed.
Lemma lookup_put_same s id ks : lookup (put s id ks) id = Some ks.
Proof. unfold put; simpl. rewrite kid_eqb_refl. reflexivity. Qed.
Lemma lookup_put_other s id ks id' : id' <> id -> lookup (put s id ks) id' = lookup s id'.
Proof.
  intro N. unfold put; simpl.
  destruct (kid_eqb id' id) eqn:E; [apply kid_eqb_eq in E; contradiction|].
  apply lookup_remove_other; exact N.
Qed.

(* a Put under an absent id keeps every entry *)
Lemma put_absent_keeps s id ks id' ks' :
  lookup s id = None -> lookup s id' = Some ks' -> lookup (put s id ks) id' = Some ks'.
Proof.
  intros A L. rewrite lookup_put_other; [exact L|]. intro E; subst. congruence.
Qed.

Ltac plan_cases :=
  repeat match goal with
  | |- context [if ?b then _ else _] => destruct b eqn:?
  | |- context [match lookup ?s ?i with _ => _ end] => destruct (lookup s i) eqn:?
  | |- context [match v_rot ?v with _ => _ end] => destruct (v_rot v) eqn:?
  | |- context [match ?u with Some _ => _ | None => _ end] => destruct u eqn:?
  end.

(* ---------- crash safety (Fixed order) ---------- *)

(* whatever PROPER prefix of an operation's store calls completes before it is interrupted, every entry of the
   store is still there, unchanged, under its id *)
Lemma prefix_keeps_entries : forall s p o n id ks,
  n < List.length (fst (plan Fixed s p o)) ->
  lookup s id = Some ks ->
  lookup (apply_calls s (firstn n (fst (plan Fixed s p o)))) id = Some ks.
Proof.
  intros s p o n id ks Hn L.
  destruct o as [kt|kt|kt u k|rid|gid|eid|bkt bu bk|uri|inst]; cbn [plan] in *.
  - destruct (negb (kt_creatable kt)); [cbn in Hn; lia|].
    destruct (lookup s (new_id kt p p)) eqn:E; cbn [fst List.length] in Hn;
      destruct n as [|[|n]]; try lia; cbn; exact L.
  - destruct (negb (kt_creatable kt)); [cbn in Hn; lia|].
    destruct (lookup s (new_id kt p p)) eqn:E; cbn [fst List.length] in Hn;
      destruct n as [|[|[|n]]]; try lia; unfold apply_calls; cbn [fst firstn fold_left apply_call];
      try exact L; apply put_absent_keeps; assumption.
  - destruct (negb (kt_importable kt)); [cbn in Hn; lia|].
    match goal with |- context [lookup s ?i] => destruct (lookup s i) eqn:E end; cbn [fst List.length] in Hn;
      destruct n as [|[|[|n]]]; try lia; unfold apply_calls; cbn [fst firstn fold_left apply_call];
      try exact L; apply put_absent_keeps; assumption.
  - destruct (lookup s rid) as [oks|] eqn:E; [|cbn [fst List.length] in Hn; destruct n; [exact L|lia]].
    destruct (negb (kt_rotatable (ks_kt oks))); [cbn [fst List.length] in Hn; destruct n; [exact L|lia]|].
    unfold Fixed in *; cbn [v_rot] in *.
    destruct (lookup s (new_id (ks_kt oks) p p)) eqn:E2; cbn [fst List.length] in Hn;
      destruct n as [|[|[|[|n]]]]; try lia; unfold apply_calls; cbn [fst firstn fold_left apply_call];
      try exact L; apply put_absent_keeps; assumption.
  - cbn [fst List.length] in Hn. destruct n; [exact L|lia].
  - cbn [fst List.length] in Hn. destruct n; [exact L|lia].
  - unfold Fixed in Hn; cbn [v_import_checks] in Hn. destruct (negb (kt_importable bkt)); cbn in Hn; lia.
  - cbn in Hn. lia.
  - cbn in Hn. lia.
Qed.

Lemma survive_is_prefix : forall cs c pre,
  survive c cs = Some pre -> exists n, n < List.length cs /\ pre = firstn n cs.
Proof.
  induction cs as [|x r IH]; intros c pre HS; cbn in HS; [discriminate|].
  destruct (is_mutation x).
  - destruct c as [|c]; [inversion HS; exists 0; cbn; split; [lia|reflexivity]|].
    destruct (survive c r) as [pre'|] eqn:HS'; cbn in HS; [|discriminate]. inversion HS; subst.
    destruct (IH c pre' HS') as (n & Hn & ->). exists (S n). cbn. split; [lia|reflexivity].
  - destruct (survive c r) as [pre'|] eqn:HS'; cbn in HS; [|discriminate]. inversion HS; subst.
    destruct (IH c pre' HS') as (n & Hn & ->). exists (S n). cbn. split; [lia|reflexivity].
Qed.

Lemma cut_is_prefix : forall i cs pre,
  cut i cs = Some pre -> exists n, n < List.length cs /\ pre = firstn n cs.
Proof.
  intros [c|n] cs pre H; unfold cut in H; [apply survive_is_prefix in H; exact H|].
  destruct (Nat.ltb n (List.length cs)) eqn:E; [|discriminate]. inversion H; subst.
  apply Nat.ltb_lt in E. exists n. split; [exact E | reflexivity].
Qed.

Lemma crash_keeps_entries : forall s p o i pre id ks,
  cut i (fst (plan Fixed s p o)) = Some pre ->
  lookup s id = Some ks ->
  lookup (apply_calls s pre) id = Some ks.
Proof.
  intros s p o i pre id ks H L. destruct (cut_is_prefix _ _ _ H) as (n & Hn & ->).
  apply prefix_keeps_entries; assumption.
Qed.

(* the as-is order loses the entry *)
Definition asis_witness_store : store := [(KThumb 0%N, {| ks_kt := K_ED25519; ks_keys := [0%N] |})].

(* ---------- what a completed or interrupted step does to one entry ---------- *)

Definition calls_of (v : variant) (st : kstate) (oc : kop * option intr) : list scall :=
  fst (snd (step_calls v st oc)).

Lemma step_store v st oc :
  st_store (fst (step v st oc)) = apply_calls (st_store st) (calls_of v st oc).
Proof.
  unfold step, calls_of, step_calls. destruct oc as [o c].
  destruct (plan v (st_store st) (st_pos st) o) as [cs out].
  destruct c as [c|]; [destruct (cut c cs)|]; reflexivity.
Qed.

Lemma step_pos v st oc : st_pos (fst (step v st oc)) = N.succ (st_pos st).
Proof.
  unfold step, step_calls. destruct oc as [o c].
  destruct (plan v (st_store st) (st_pos st) o) as [cs out].
  destruct c as [c|]; [destruct (cut c cs)|]; reflexivity.
Qed.

(* a step either crashed (then crash_keeps_entries applies) or ran its whole plan *)
Lemma step_cases v st o c :
  (exists n pre, c = Some n /\ cut n (fst (plan v (st_store st) (st_pos st) o)) = Some pre /\
                 calls_of v st (o, c) = pre /\ snd (step v st (o, c)) = OCrashed) \/
  (calls_of v st (o, c) = fst (plan v (st_store st) (st_pos st) o) /\
   snd (step v st (o, c)) = snd (plan v (st_store st) (st_pos st) o)).
Proof.
  unfold calls_of, step, step_calls.
  destruct (plan v (st_store st) (st_pos st) o) as [cs out] eqn:P.
  destruct c as [n|].
  - destruct (cut n cs) as [pre|] eqn:S.
    + left. exists n, pre. cbn. repeat split; try reflexivity. exact S.
    + right. cbn. split; reflexivity.
  - right. cbn. split; reflexivity.
Qed.

(* full plan, Fixed: an entry changes only by a completed rotation of that very id, which moves its keys (all of
   them, in order, plus the new primary) under the returned id *)
Ltac sc := unfold apply_calls, Fixed, AsIs; cbn [fold_left apply_call fst snd v_rot v_import_thumb v_import_checks].

Lemma full_plan_entry : forall s p o id ks,
  lookup s id = Some ks ->
  lookup (apply_calls s (fst (plan Fixed s p o))) id = Some ks \/
  (o = KRotate id /\ exists nid,
     snd (plan Fixed s p o) = OId nid p /\ nid <> id /\
     lookup (apply_calls s (fst (plan Fixed s p o))) nid =
       Some {| ks_kt := ks_kt ks; ks_keys := ks_keys ks ++ [p] |} /\
     lookup (apply_calls s (fst (plan Fixed s p o))) id = None).
Proof.
  intros s p o id ks L.
  destruct o as [kt|kt|kt u k|rid|gid|eid|bkt bu bk|uri|inst]; cbn [plan].
  - left. destruct (negb (kt_creatable kt)); [exact L|].
    destruct (lookup s (new_id kt p p)) eqn:E; sc; [exact L|]. apply put_absent_keeps; assumption.
  - left. destruct (negb (kt_creatable kt)); [exact L|].
    destruct (lookup s (new_id kt p p)) eqn:E; sc; [exact L|]. apply put_absent_keeps; assumption.
  - left. destruct (negb (kt_importable kt)); [exact L|].
    match goal with |- context [lookup s ?i] => destruct (lookup s i) eqn:E end; sc; [exact L|].
    apply put_absent_keeps; assumption.
  - destruct (lookup s rid) as [oks|] eqn:E; sc; [|left; exact L].
    destruct (negb (kt_rotatable (ks_kt oks))); sc; [left; exact L|].
    destruct (lookup s (new_id (ks_kt oks) p p)) eqn:E2; sc; [left; exact L|].
    destruct (kid_eqb id rid) eqn:EQ.
    + apply kid_eqb_eq in EQ; subst rid. right. split; [reflexivity|].
      rewrite L in E; inversion E; subst oks.
      exists (new_id (ks_kt ks) p p). split; [reflexivity|].
      assert (NE : new_id (ks_kt ks) p p <> id) by (intro X; rewrite X in E2; congruence).
      split; [exact NE|]. split.
      * rewrite lookup_remove_other by exact NE. apply lookup_put_same.
      * apply lookup_remove_same.
    + apply kid_eqb_neq in EQ. left.
      rewrite lookup_remove_other by exact EQ. apply put_absent_keeps; assumption.
  - left. sc. exact L.
  - left. sc. exact L.
  - left. sc. destruct (negb (kt_importable bkt)); sc; exact L.
  - left. sc. exact L.
  - left. sc. exact L.
Qed.

Lemma step_entry : forall st oc id ks,
  lookup (st_store st) id = Some ks ->
  lookup (st_store (fst (step Fixed st oc))) id = Some ks \/
  (fst oc = KRotate id /\ exists nid,
     snd (step Fixed st oc) = OId nid (st_pos st) /\ nid <> id /\
     lookup (st_store (fst (step Fixed st oc))) nid =
       Some {| ks_kt := ks_kt ks; ks_keys := ks_keys ks ++ [st_pos st] |} /\
     lookup (st_store (fst (step Fixed st oc))) id = None).
Proof.
  intros st [o c] id ks L. rewrite step_store.
  destruct (step_cases Fixed st o c) as [(n & pre & -> & S & C & O) | (C & O)].
  - left. rewrite C. eapply crash_keeps_entries; eassumption.
  - rewrite C, O. apply full_plan_entry. exact L.
Qed.

(* no step — completed, failed or interrupted — destroys key material *)
Lemma step_keeps_key : forall st oc k,
  has_key (st_store st) k -> has_key (st_store (fst (step Fixed st oc))) k.
Proof.
  intros st oc k (id & ks & L & I).
  destruct (step_entry st oc id ks L) as [K | (_ & nid & _ & _ & K & _)].
  - exists id, ks. split; assumption.
  - eexists nid, _. split; [exact K|]. cbn. apply in_or_app. left. exact I.
Qed.

Lemma run_keeps_key : forall ops st k,
  has_key (st_store st) k -> has_key (st_store (fst (run Fixed st ops))) k.
Proof.
  induction ops as [|oc r IH]; intros st k H; cbn; [exact H|].
  destruct (step Fixed st oc) as [s1 x] eqn:S.
  specialize (IH s1 k). destruct (run Fixed s1 r) as [s2 xs] eqn:R. cbn.
  apply IH. replace s1 with (fst (step Fixed st oc)) by (rewrite S; reflexivity).
  apply step_keeps_key. exact H.
Qed.

(* durability: an entry stays, unchanged, as long as no rotation of that id is attempted *)
Lemma run_keeps_entry : forall ops st id ks,
  lookup (st_store st) id = Some ks ->
  (forall oc, In oc ops -> fst oc <> KRotate id) ->
  lookup (st_store (fst (run Fixed st ops))) id = Some ks.
Proof.
  induction ops as [|oc r IH]; intros st id ks L NR; cbn; [exact L|].
  destruct (step Fixed st oc) as [s1 x] eqn:S.
  specialize (IH s1 id ks). destruct (run Fixed s1 r) as [s2 xs] eqn:R. cbn.
  apply IH.
  - replace s1 with (fst (step Fixed st oc)) by (rewrite S; reflexivity).
    destruct (step_entry st oc id ks L) as [K | (K & _)]; [exact K|].
    exfalso. apply (NR oc); [left; reflexivity | exact K].
  - intros oc' I. apply NR. right. exact I.
Qed.

(* what a returned id denotes *)
Lemma primary_snoc kt l k : primary {| ks_kt := kt; ks_keys := l ++ [k] |} = Some k.
Proof.
  unfold primary; cbn. rewrite map_app. cbn.
  induction (map Some l) as [|a m IH]; cbn; [reflexivity|].
  destruct (m ++ [Some k]) eqn:E; [destruct m; discriminate|]. exact IH.
Qed.

Ltac sca := unfold apply_calls in *; cbn [fold_left apply_call fst snd] in *.

Lemma returned_is_stored : forall v st o c id k,
  snd (step v st (o, c)) = OId id k \/ snd (step v st (o, c)) = OIdPub id k ->
  exists ks, lookup (st_store (fst (step v st (o, c)))) id = Some ks /\ primary ks = Some k /\
             (forall k', In k' (ks_keys ks) -> k' = k \/ has_key (st_store st) k').
Proof.
  intros v st o c id k H. rewrite step_store.
  destruct (step_cases v st o c) as [(n & pre & -> & S & C & O) | (C & O)].
  - rewrite O in H. destruct H; discriminate.
  - rewrite C. rewrite O in H. clear C O.
    set (s := st_store st) in *. set (p := st_pos st) in *.
    destruct o as [kt|kt|kt u k0|rid|gid|eid|bkt bu bk|uri|inst]; cbn [plan] in *.
    + destruct (negb (kt_creatable kt)); [destruct H; discriminate|].
      destruct (lookup s (new_id kt p p)) eqn:E; sca; [destruct H; discriminate|].
      destruct H as [H|H]; inversion H; subst.
      eexists. split; [apply lookup_put_same|]. split; [reflexivity|].
      intros k' [<-|[]]. left; reflexivity.
    + destruct (negb (kt_creatable kt)); [destruct H; discriminate|].
      destruct (lookup s (new_id kt p p)) eqn:E; sca; [destruct H; discriminate|].
      destruct (kt_random_id kt); destruct H as [H|H]; inversion H; subst.
      eexists. split; [apply lookup_put_same|]. split; [reflexivity|].
      intros k' [<-|[]]. left; reflexivity.
    + destruct (negb (kt_importable kt)); [destruct H; discriminate|].
      match type of H with context [lookup s ?i] => destruct (lookup s i) eqn:E end; sca;
        [destruct H; discriminate|].
      destruct H as [H|H]; inversion H; subst.
      eexists. split; [apply lookup_put_same|]. split; [reflexivity|].
      intros k' [<-|[]]. left; reflexivity.
    + destruct (lookup s rid) as [oks|] eqn:E; sca; [|destruct H; discriminate].
      destruct (negb (kt_rotatable (ks_kt oks))); sca; [destruct H; discriminate|].
      destruct (v_rot v).
      * destruct (lookup (remove s rid) (new_id (ks_kt oks) p p)) eqn:E2; sca; [destruct H; discriminate|].
        destruct H as [H|H]; inversion H; subst.
        eexists. split; [apply lookup_put_same|]. split; [apply primary_snoc|].
        cbn. intros k' I. apply in_app_or in I. destruct I as [I|[<-|[]]]; [right|left; reflexivity].
        exists rid, oks. split; assumption.
      * destruct (lookup s (new_id (ks_kt oks) p p)) eqn:E2; sca; [destruct H; discriminate|].
        destruct H as [H|H]; inversion H; subst.
        assert (NE : new_id (ks_kt oks) (st_pos st) (st_pos st) <> rid)
          by (intro X; fold p in X; rewrite X in E2; congruence).
        eexists. split; [rewrite lookup_remove_other by exact NE; apply lookup_put_same|].
        split; [apply primary_snoc|].
        cbn. intros k' I. apply in_app_or in I. destruct I as [I|[<-|[]]]; [right|left; reflexivity].
        exists rid, oks. split; assumption.
    + destruct (lookup s gid); destruct H; discriminate.
    + destruct (lookup s eid) as [ks|]; [|destruct H; discriminate].
      destruct (kt_random_id (ks_kt ks) || negb (kt_exportable (ks_kt ks))); [destruct H; discriminate|].
      destruct (primary ks); destruct H; discriminate.
    + destruct (negb (kt_importable bkt)); [destruct H; discriminate|].
      destruct (v_import_checks v); [destruct H; discriminate|].
      match type of H with context [lookup s ?i] => destruct (lookup s i) eqn:E end; sca;
        [destruct H; discriminate|].
      destruct H as [H|H]; inversion H; subst.
      eexists. split; [apply lookup_put_same|]. split; [reflexivity|].
      intros k' [<-|[]]. left; reflexivity.
    + destruct H; discriminate.
    + destruct H; discriminate.
Qed.

(* ---------- import never overwrites; no Put ever overwrites ---------- *)

Lemma import_existing_refused : forall v st kt u k c ks,
  lookup (st_store st) (KUser u) = Some ks ->
  (snd (step v st (KImport kt (Some u) k, c)) = OErr \/ snd (step v st (KImport kt (Some u) k, c)) = OCrashed) /\
  st_store (fst (step v st (KImport kt (Some u) k, c))) = st_store st.
Proof.
  intros v st kt u k c ks L. rewrite step_store.
  destruct (step_cases v st (KImport kt (Some u) k) c) as [(n & pre & -> & S & C & O) | (C & O)].
  - split; [right; exact O|]. rewrite C. cbn [plan fst] in S.
    destruct (negb (kt_importable kt)); [destruct n; cbn in S; try discriminate; destruct n; discriminate|].
    rewrite L in S. cbn [fst] in S. destruct (cut_is_prefix _ _ _ S) as (m & Hm & ->).
    cbn in Hm. destruct m; [reflexivity|lia].
  - rewrite C, O. cbn [plan]. destruct (negb (kt_importable kt)); [split; [left|]; reflexivity|].
    rewrite L. split; [left|]; reflexivity.
Qed.

(* every Put of every plan goes to an id that is absent at that moment (both variants) *)
Fixpoint puts_fresh (s : store) (cs : list scall) : Prop :=
  match cs with
  | [] => True
  | c :: r => match c with SPut id _ => lookup s id = None | _ => True end /\ puts_fresh (apply_call s c) r
  end.

Lemma plan_puts_fresh : forall v s p o, puts_fresh s (fst (plan v s p o)).
Proof.
  intros v s p o.
  destruct o as [kt|kt|kt u k|rid|gid|eid|bkt bu bk|uri|inst]; cbn [plan].
  - destruct (negb (kt_creatable kt)); [exact I|].
    destruct (lookup s (new_id kt p p)) eqn:E; cbn; auto.
  - destruct (negb (kt_creatable kt)); [exact I|].
    destruct (lookup s (new_id kt p p)) eqn:E; cbn; auto.
  - destruct (negb (kt_importable kt)); [exact I|].
    match goal with |- context [lookup s ?i] => destruct (lookup s i) eqn:E end; cbn; auto.
  - destruct (lookup s rid) as [oks|] eqn:E; [|cbn; auto].
    destruct (negb (kt_rotatable (ks_kt oks))); [cbn; auto|].
    destruct (v_rot v).
    + destruct (lookup (remove s rid) (new_id (ks_kt oks) p p)) eqn:E2; cbn; auto.
    + destruct (lookup s (new_id (ks_kt oks) p p)) eqn:E2; cbn; auto.
  - cbn; auto.
  - cbn; auto.
  - destruct (negb (kt_importable bkt)); [exact I|]. destruct (v_import_checks v); [exact I|].
    match goal with |- context [lookup s ?i] => destruct (lookup s i) eqn:E end; cbn; auto.
  - exact I.
  - exact I.
Qed.

(* ---------- key ids ---------- *)

Lemma create_id_is_thumbprint : forall v st kt c id k,
  kt_random_id kt = false ->
  snd (step v st (KCreate kt, c)) = OId id k \/ snd (step v st (KCreateExport kt, c)) = OIdPub id k ->
  id = KThumb k /\ k = st_pos st.
Proof.
  intros v st kt c id k A H.
  destruct H as [H|H].
  - destruct (step_cases v st (KCreate kt) c) as [(n & pre & -> & S & C & O) | (C & O)];
      rewrite O in H; [discriminate|]. cbn [plan] in H.
    destruct (negb (kt_creatable kt)); [discriminate|].
    unfold new_id in H. rewrite A in H.
    destruct (lookup (st_store st) (KThumb (st_pos st))); cbn in H; [discriminate|].
    inversion H; subst. split; reflexivity.
  - destruct (step_cases v st (KCreateExport kt) c) as [(n & pre & -> & S & C & O) | (C & O)];
      rewrite O in H; [discriminate|]. cbn [plan] in H.
    destruct (negb (kt_creatable kt)); [discriminate|].
    unfold new_id in H. rewrite A in H.
    destruct (lookup (st_store st) (KThumb (st_pos st))); cbn in H; [discriminate|].
    inversion H; subst. split; reflexivity.
Qed.

Lemma rotate_id_is_thumbprint : forall v st old ks c id k,
  lookup (st_store st) old = Some ks -> kt_random_id (ks_kt ks) = false ->
  snd (step v st (KRotate old, c)) = OId id k ->
  id = KThumb k /\ k = st_pos st.
Proof.
  intros v st old ks c id k L A H.
  destruct (step_cases v st (KRotate old) c) as [(n & pre & -> & S & C & O) | (C & O)];
    rewrite O in H; [discriminate|]. cbn [plan] in H. rewrite L in H.
  destruct (negb (kt_rotatable (ks_kt ks))); [discriminate|].
  unfold new_id in H. rewrite A in H.
  destruct (v_rot v).
  - destruct (lookup (remove (st_store st) old) (KThumb (st_pos st))); cbn in H; [discriminate|].
    inversion H; subst. split; reflexivity.
  - destruct (lookup (st_store st) (KThumb (st_pos st))); cbn in H; [discriminate|].
    inversion H; subst. split; reflexivity.
Qed.

Definition import_thumb_type (kt : ktype) : bool := kt_kid_defined kt && kt_exportable kt.

Lemma import_id : forall st kt u k c id k',
  snd (step Fixed st (KImport kt u k, c)) = OId id k' ->
  k' = k /\ match u with
            | Some n => id = KUser n
            | None => import_thumb_type kt = true -> id = KThumb k
            end.
Proof.
  intros st kt u k c id k' H.
  destruct (step_cases Fixed st (KImport kt u k) c) as [(n & pre & -> & S & C & O) | (C & O)];
    rewrite O in H; [discriminate|]. cbn [plan] in H.
  destruct (negb (kt_importable kt)); [discriminate|].
  match type of H with context [lookup (st_store st) ?i] => destruct (lookup (st_store st) i) eqn:E end;
    cbn in H; [discriminate|].
  inversion H; subst. split; [reflexivity|].
  destruct u; [reflexivity|]. intro T. unfold import_thumb_type in T. cbn [v_import_thumb Fixed].
  cbn. rewrite T. reflexivity.
Qed.

(* a thumbprint id names the keyset whose primary key it is the thumbprint of — in every state reached from a
   state with that property *)
Definition thumb_wf (s : store) : Prop :=
  forall k ks, lookup s (KThumb k) = Some ks -> primary ks = Some k.

Lemma thumb_wf_put s id ks :
  thumb_wf s -> (forall k, id = KThumb k -> primary ks = Some k) -> thumb_wf (put s id ks).
Proof.
  intros W H k ks' L.
  destruct (kid_eqb (KThumb k) id) eqn:E.
  - apply kid_eqb_eq in E. subst id. rewrite lookup_put_same in L. inversion L; subst. apply H; reflexivity.
  - apply kid_eqb_neq in E. rewrite lookup_put_other in L by exact E. apply W; exact L.
Qed.
Lemma thumb_wf_remove s id : thumb_wf s -> thumb_wf (remove s id).
Proof.
  intros W k ks L.
  destruct (kid_eqb (KThumb k) id) eqn:E.
  - apply kid_eqb_eq in E. subst id. rewrite lookup_remove_same in L. discriminate.
  - apply kid_eqb_neq in E. rewrite lookup_remove_other in L by exact E. apply W; exact L.
Qed.

Fixpoint calls_wf (cs : list scall) : Prop :=
  match cs with
  | [] => True
  | SPut id ks :: r => (forall k, id = KThumb k -> primary ks = Some k) /\ calls_wf r
  | _ :: r => calls_wf r
  end.

Lemma apply_calls_wf cs : forall s, thumb_wf s -> calls_wf cs -> thumb_wf (apply_calls s cs).
Proof.
  induction cs as [|c r IH]; intros s W C; [exact W|].
  unfold apply_calls; cbn [fold_left]. fold (apply_calls (apply_call s c) r).
  destruct c as [i|i ks|i]; cbn [calls_wf apply_call] in *.
  - apply IH; assumption.
  - destruct C as [C1 C2]. apply IH; [apply thumb_wf_put; assumption | exact C2].
  - apply IH; [apply thumb_wf_remove; exact W | exact C].
Qed.

Lemma survive_wf : forall cs c pre, survive c cs = Some pre -> calls_wf cs -> calls_wf pre.
Proof.
  induction cs as [|x r IH]; intros c pre S W; cbn in S; [discriminate|].
  destruct (is_mutation x) eqn:M.
  - destruct c as [|c]; [inversion S; exact I|].
    destruct (survive c r) as [pre'|] eqn:S'; cbn in S; [|discriminate]. inversion S; subst.
    destruct x; cbn in *; try discriminate.
    + destruct W as [W1 W2]. split; [exact W1 | eapply IH; eassumption].
    + eapply IH; eassumption.
  - destruct (survive c r) as [pre'|] eqn:S'; cbn in S; [|discriminate]. inversion S; subst.
    destruct x; cbn in *; try discriminate. eapply IH; eassumption.
Qed.

Lemma firstn_wf : forall cs n, calls_wf cs -> calls_wf (firstn n cs).
Proof.
  induction cs as [|x r IH]; intros [|n] W; cbn; try exact I.
  destruct x; cbn in *; [apply IH; exact W | destruct W as [W1 W2]; split; [exact W1 | apply IH; exact W2] | apply IH; exact W].
Qed.

Lemma cut_wf : forall i cs pre, cut i cs = Some pre -> calls_wf cs -> calls_wf pre.
Proof. intros i cs pre H W. destruct (cut_is_prefix _ _ _ H) as (n & _ & ->). apply firstn_wf. exact W. Qed.

Lemma new_id_thumb kt k p k' : new_id kt k p = KThumb k' -> k' = k.
Proof. unfold new_id. destruct (kt_random_id kt); intro H; inversion H; reflexivity. Qed.

Lemma plan_calls_wf : forall v s p o, calls_wf (fst (plan v s p o)).
Proof.
  intros v s p o.
  destruct o as [kt|kt|kt u k|rid|gid|eid|bkt bu bk|uri|inst]; cbn [plan].
  - destruct (negb (kt_creatable kt)); [exact I|].
    destruct (lookup s (new_id kt p p)); cbn [calls_wf fst]; auto.
    split; auto. intros k E. apply new_id_thumb in E. subst. reflexivity.
  - destruct (negb (kt_creatable kt)); [exact I|].
    destruct (lookup s (new_id kt p p)); cbn [calls_wf fst]; auto.
    split; auto. intros k E. apply new_id_thumb in E. subst. reflexivity.
  - destruct (negb (kt_importable kt)); [exact I|].
    match goal with |- context [lookup s ?i] => destruct (lookup s i) eqn:E end; cbn [calls_wf fst]; auto.
    split; auto. intros k' E'. destruct u; [discriminate|].
    destruct (v_import_thumb v && kt_kid_defined kt && _); inversion E'; subst. reflexivity.
  - destruct (lookup s rid) as [oks|]; [|cbn [calls_wf fst]; auto].
    destruct (negb (kt_rotatable (ks_kt oks))); [cbn [calls_wf fst]; auto|].
    destruct (v_rot v).
    + destruct (lookup (remove s rid) (new_id (ks_kt oks) p p)); cbn [calls_wf fst]; auto.
      split; auto. intros k E. apply new_id_thumb in E. subst. apply primary_snoc.
    + destruct (lookup s (new_id (ks_kt oks) p p)); cbn [calls_wf fst]; auto.
      split; auto. intros k E. apply new_id_thumb in E. subst. apply primary_snoc.
  - cbn [calls_wf fst]; auto.
  - cbn [calls_wf fst]; auto.
  - destruct (negb (kt_importable bkt)); [exact I|]. destruct (v_import_checks v); [exact I|].
    match goal with |- context [lookup s ?i] => destruct (lookup s i) eqn:E end; cbn [calls_wf fst]; auto.
    split; auto. intros k' E'. destruct bu; discriminate.
  - exact I.
  - exact I.
Qed.

Lemma step_thumb_wf : forall v st oc, thumb_wf (st_store st) -> thumb_wf (st_store (fst (step v st oc))).
Proof.
  intros v st [o c] W. rewrite step_store.
  destruct (step_cases v st o c) as [(n & pre & -> & S & C & O) | (C & O)]; rewrite C.
  - apply apply_calls_wf; [exact W|]. eapply cut_wf; [exact S | apply plan_calls_wf].
  - apply apply_calls_wf; [exact W | apply plan_calls_wf].
Qed.

Lemma run_thumb_wf : forall v ops st, thumb_wf (st_store st) -> thumb_wf (st_store (fst (run v st ops))).
Proof.
  intros v. induction ops as [|oc r IH]; intros st W; cbn; [exact W|].
  destruct (step v st oc) as [s1 x] eqn:S.
  specialize (IH s1). destruct (run v s1 r) as [s2 xs]. cbn. apply IH.
  replace s1 with (fst (step v st oc)) by (rewrite S; reflexivity). apply step_thumb_wf; exact W.
Qed.

(* ---------- thumbprint pre-images are injective in the key ---------- *)

Definition qa : ascii := ascii_of_nat 34.

Fixpoint noq (s : string) : Prop :=
  match s with EmptyString => True | String a r => a <> qa /\ noq r end.

Lemma app_q_inj : forall x x' r r',
  noq x -> noq x' ->
  (x ++ String qa r)%string = (x' ++ String qa r')%string -> x = x' /\ r = r'.
Proof.
  induction x as [|a x IH]; intros [|a' x'] r r' N N' E; cbn in *.
  - inversion E; split; reflexivity.
  - inversion E; subst. destruct N' as [N' _]. contradiction.
  - inversion E; subst. destruct N as [N _]. contradiction.
  - inversion E; subst. destruct N as [_ N], N' as [_ N'].
    destruct (IH x' r r' N N' H1) as [-> ->]. split; reflexivity.
Qed.

Lemma sapp_assoc (a b c : string) : ((a ++ b) ++ c)%string = (a ++ (b ++ c))%string.
Proof. induction a as [|x a IH]; cbn; [reflexivity | rewrite IH; reflexivity]. Qed.

Lemma preimage_inj : forall c xs ys xs' ys',
  noq xs -> noq ys -> noq xs' -> noq ys' ->
  preimage c xs ys = preimage c xs' ys' ->
  xs = xs' /\ (is_ec c = true -> ys = ys').
Proof.
  intros c xs ys xs' ys' Nx Ny Nx' Ny' E.
  unfold preimage, q in E. fold qa in E.
  destruct c; cbn in E;
    repeat match type of E with String ?a _ = String ?a _ => injection E as E end;
    match type of E with (?a ++ _)%string = _ => idtac end.
  all: apply app_q_inj in E; try assumption; destruct E as [-> E]; split; try reflexivity; intro EC; try discriminate.
  all: repeat match type of E with String ?a _ = String ?a _ => injection E as E end.
  all: rewrite !sapp_assoc in E; cbn [append] in E.
  all: apply app_q_inj in E; try assumption; destruct E as [-> _]; reflexivity.
Qed.

(* ---------- did:key ---------- *)

Lemma all_ktypes_complete : forall k, In k all_ktypes.
Proof. destruct k; cbn; tauto. Qed.

Lemma didkey_readable_all : forall kt ce, build_didkey kt = Some ce -> didkey_readable ce = true.
Proof. intros kt ce H. destruct kt; vm_compute in H; inversion H; subst; reflexivity. Qed.

(* a keyset whose type cannot be rotated (no template, or — ECDSASecp256k1DER — no exportable public key to derive the
   new id from) is left alone by Rotate *)
Lemma rotate_refused_keeps_store : forall v st id ks c,
  lookup (st_store st) id = Some ks -> kt_rotatable (ks_kt ks) = false ->
  st_store (fst (step v st (KRotate id, c))) = st_store st /\
  (snd (step v st (KRotate id, c)) = OErr \/ snd (step v st (KRotate id, c)) = OCrashed).
Proof.
  intros v st id ks c L R. rewrite step_store.
  destruct (step_cases v st (KRotate id) c) as [(n & pre & -> & S & C & O) | (C & O)].
  - split; [|right; exact O]. rewrite C. cbn [plan fst] in S. rewrite L, R in S. cbn [negb fst] in S.
    destruct (cut_is_prefix _ _ _ S) as (m & Hm & ->). cbn in Hm. destruct m; [reflexivity|lia].
  - rewrite C, O. cbn [plan]. rewrite L, R. cbn. split; [reflexivity | left; reflexivity].
Qed.

(* ---------- the executed table (gen/Gen_C06.v, the exec_ definitions) against the tables read from the source text and the
   hand-written ones of the model ---------- *)
Definition opt_enc_eqb (a b : option enc) : bool :=
  match a, b with
  | None, None => true
  | Some ERaw, Some ERaw | Some EUncompressed, Some EUncompressed | Some EPkixDer, Some EPkixDer
  | Some ECompressed, Some ECompressed | Some ECompositeJSON, Some ECompositeJSON => true
  | _, _ => false
  end.

Lemma opt_enc_eqb_eq a b : opt_enc_eqb a b = true -> a = b.
Proof. destruct a as [[]|], b as [[]|]; cbn; congruence. Qed.

(* does the model say a stored keyset of type kt can be exported / gets a thumbprint id *)
Definition model_exportable (kt : ktype) : bool := negb (kt_random_id kt) && kt_exportable kt.

Definition exec_row_ok (kt : ktype) : bool :=
  Bool.eqb (exec_creatable kt) (kt_creatable kt) &&
  Bool.eqb (exec_importable kt) (kt_importable kt) &&
  Bool.eqb (exec_stored kt) (kt_creatable kt || kt_importable kt) &&
  (negb (exec_stored kt) ||
   (Bool.eqb (exec_exportable kt) (model_exportable kt) &&
    opt_enc_eqb (exec_export_enc kt) (if model_exportable kt then export_enc kt else None) &&
    Bool.eqb (exec_thumb_id kt) (model_exportable kt && kt_kid_defined kt) &&
    Bool.eqb (exec_rotatable kt) (kt_rotatable kt))).

Lemma exec_rows_ok : forall kt, exec_row_ok kt = true.
Proof. intro kt. destruct kt; vm_compute; reflexivity. Qed.

Lemma exec_tables_agree : forall kt,
  exec_creatable kt = kt_creatable kt /\ exec_importable kt = kt_importable kt /\
  (exec_stored kt = true ->
     exec_exportable kt = model_exportable kt /\
     exec_export_enc kt = (if model_exportable kt then export_enc kt else None) /\
     exec_thumb_id kt = (model_exportable kt && kt_kid_defined kt)%bool /\
     exec_rotatable kt = kt_rotatable kt).
Proof.
  intro kt. pose proof (exec_rows_ok kt) as H. unfold exec_row_ok in H.
  repeat (apply andb_true_iff in H; destruct H as [H ?]).
  apply eqb_prop in H. split; [exact H|].
  match goal with X : Bool.eqb (exec_importable kt) _ = true |- _ => apply eqb_prop in X; split; [exact X|] end.
  intro S.
  match goal with X : (negb (exec_stored kt) || _)%bool = true |- _ => rewrite S in X; cbn [negb orb] in X; rename X into R end.
  repeat (apply andb_true_iff in R; destruct R as [R ?]).
  apply eqb_prop in R. split; [exact R|].
  match goal with X : opt_enc_eqb _ _ = true |- _ => apply opt_enc_eqb_eq in X; split; [exact X|] end.
  match goal with X : Bool.eqb (exec_thumb_id kt) _ = true |- _ => apply eqb_prop in X; split; [exact X|] end.
  match goal with X : Bool.eqb (exec_rotatable kt) _ = true |- _ => apply eqb_prop in X; exact X end.
Qed.

Lemma export_iff_exportable : forall v st id ks k,
  lookup (st_store st) id = Some ks -> primary ks = Some k ->
  snd (step v st (KExport id, None)) = (if model_exportable (ks_kt ks) then OPub k else OErr).
Proof.
  intros v st id ks k L P. unfold step, step_calls. cbn [plan]. rewrite L, P. cbn [snd].
  unfold model_exportable. destruct (kt_random_id (ks_kt ks)), (kt_exportable (ks_kt ks)); reflexivity.
Qed.

(* ---------- an EC private key that is not on the key type's curve is refused before any store call ---------- *)
Lemma bad_import_refused : forall st kt u k c,
  st_store (fst (step Fixed st (KImportBad kt u k, c))) = st_store st /\
  snd (step Fixed st (KImportBad kt u k, c)) = OErr /\
  fst (snd (step_calls Fixed st (KImportBad kt u k, c))) = [].
Proof.
  intros st kt u k c. unfold step, step_calls. cbn [plan]. unfold Fixed; cbn [v_import_checks].
  destruct (negb (kt_importable kt)); destruct c as [[n|n]|]; cbn; repeat split; reflexivity.
Qed.

(* an import — under whatever id, e.g. another spelling of an id in use — leaves every OTHER id's entry as it was *)
Lemma import_keeps_other_entries : forall st kt u k c id ks,
  lookup (st_store st) id = Some ks ->
  lookup (st_store (fst (step Fixed st (KImport kt (Some u) k, c)))) id = Some ks.
Proof.
  intros st kt u k c id ks L.
  destruct (step_entry st (KImport kt (Some u) k, c) id ks L) as [K | (E & _)]; [exact K | discriminate].
Qed.
