(* C06 — correspondence: the harness records, for the same operations, what the real localkms did
   (store calls in order, result, and the keysets a FRESH key manager reads back under every id seen so far). *)
From Coq Require Import List NArith Bool String.
Import ListNotations.
From VF Require Export C06.Model.

Inductive ccall := CGet (id : kid) | CPut (id : kid) | CDel (id : kid).

Definition erase (c : scall) : ccall :=
  match c with SGet i => CGet i | SPut i _ => CPut i | SDel i => CDel i end.

Definition ccall_eqb (a b : ccall) : bool :=
  match a, b with
  | CGet x, CGet y | CPut x, CPut y | CDel x, CDel y => kid_eqb x y
  | _, _ => false
  end.

Fixpoint list_eqb {A} (e : A -> A -> bool) (a b : list A) : bool :=
  match a, b with
  | [], [] => true
  | x :: r, y :: t => e x y && list_eqb e r t
  | _, _ => false
  end.

Definition kout_eqb (a b : kout) : bool :=
  match a, b with
  | OId i k, OId j l | OIdPub i k, OIdPub j l => kid_eqb i j && N.eqb k l
  | OKeys x, OKeys y => list_eqb N.eqb x y
  | OPub k, OPub l => N.eqb k l
  | OErr, OErr | ODone, ODone | OCrashed, OCrashed => true
  | _, _ => false
  end.

Definition snap_ok (s : store) (e : kid * option (list N)) : bool :=
  match lookup s (fst e), snd e with
  | None, None => true
  | Some ks, Some l => list_eqb N.eqb (ks_keys ks) l
  | _, _ => false
  end.

Definition obs := (list ccall * kout * list (kid * option (list N)))%type.

Inductive case :=
| CHist (ops : list (kop * option intr)) (o : list obs)
  (* the id the KMS gave a key of type kt with coordinates xs/ys is base64url(SHA-256(pre)) — checked in Go *)
| CKid (kt : ktype) (xs ys pre : string)
  (* did:key built for an exported key of type kt: multicodec, encoding found under it, and whether the readers
     (vdr/key, kidresolver) recovered the key and re-derived the KMS id *)
| CDid (kt : ktype) (codec : N) (e : enc) (readable : bool).

Fixpoint check_from (st : kstate) (ops : list (kop * option intr)) (o : list obs) : bool :=
  match ops, o with
  | [], [] => true
  | oc :: r, (calls, out, snap) :: t =>
      let '(st', (mc, mo)) := step_calls repo_variant st oc in
      list_eqb ccall_eqb (map erase mc) calls && kout_eqb mo out &&
      forallb (snap_ok (st_store st')) snap && check_from st' r t
  | _, _ => false
  end.

Definition enc_eqb (a b : enc) : bool :=
  match a, b with
  | ERaw, ERaw | EUncompressed, EUncompressed | EPkixDer, EPkixDer | ECompressed, ECompressed
  | ECompositeJSON, ECompositeJSON => true
  | _, _ => false
  end.

Definition check_case (c : case) : bool :=
  match c with
  | CHist ops o => check_from init ops o
  | CKid kt xs ys pre =>
      match kid_preimage kt xs ys with Some p => String.eqb p pre | None => false end
  | CDid kt codec e readable =>
      match build_didkey kt with
      | Some (c', e') => N.eqb c' codec && enc_eqb e' e && Bool.eqb (didkey_readable (c', e')) readable
      | None => false
      end
  end.

Fixpoint mismatches_from (i : nat) (cs : list case) : list nat :=
  match cs with
  | [] => []
  | c :: r => if check_case c then mismatches_from (S i) r else i :: mismatches_from (S i) r
  end.
Definition mismatches := mismatches_from 0.
