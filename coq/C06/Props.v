(* C06 — property theorems only. *)
From Coq Require Import List NArith Bool String.
Import ListNotations.
From VF Require Import C06.Model C06.Proofs.

Theorem reopen_is_identity : forall ro st, st_store (fst (step ro st (KReopen, None))) = st_store st.
Proof. intros ro st. reflexivity. Qed.
Print Assumptions reopen_is_identity.
