(* C06 — property theorems only.  Every proof is `exact <lemma>` (or a closed computation for a refutation
   witness / a finite generated table); Print Assumptions follows each.

   Model (C06/Model.v): the store of a local key manager, every KMS call expanded into its exact sequence of
   store calls, optional death of the process at any store mutation of the call.  A key manager holds nothing
   but the store, so every statement about "the store afterwards" is a statement about ANY key manager later
   opened over it.  `Fixed` is /repo after the fix: commits (Rotate writes the new entry before deleting the old
   one; an import without a requested id gets the thumbprint id); `AsIs` is the code as found.
   `repo_variant` is read from /repo's source by the translator on every run. *)
From Coq Require Import List NArith Bool String.
Import ListNotations.
From VF Require Import C06.Model C06.Proofs.
Local Open Scope N_scope.

(* the source of /repo has the repaired order and id rule (regenerated table) *)
Theorem repo_is_fixed : repo_variant = Fixed.
Proof. reflexivity. Qed.
Print Assumptions repo_is_fixed.

(* DURABLE.  The id returned by create / create-and-export / import / rotate, in any state, names a stored keyset
   whose primary key is the returned key and whose other keys were all in the store before (rotation keeps them);
   and after ANY further history — calls of any kind with any arguments, failing, interrupted at any store
   mutation, key managers reopened — that does not rotate that very id, a key manager opened over the store
   finds exactly that keyset under that id. *)
Theorem durable : forall st o c id k rest,
  snd (step Fixed st (o, c)) = OId id k \/ snd (step Fixed st (o, c)) = OIdPub id k ->
  (forall oc, In oc rest -> fst oc <> KRotate id) ->
  exists ks,
    lookup (st_store (fst (step Fixed st (o, c)))) id = Some ks /\ primary ks = Some k /\
    lookup (st_store (fst (run Fixed (fst (step Fixed st (o, c))) rest))) id = Some ks.
Proof.
  intros st o c id k rest H NR.
  destruct (returned_is_stored Fixed st o c id k H) as (ks & L & P & _).
  exists ks. split; [exact L|]. split; [exact P|]. apply run_keeps_entry; assumption.
Qed.
Print Assumptions durable.

(* RESTART: opening a fresh key manager — with ANY primary key URI: the stored form does not depend on it, the local
   secret lock ignores it — changes nothing; `durable` above holds across such reopenings (KReopen u is an operation
   like any other in `rest`) *)
Theorem reopen_any_uri_changes_nothing : forall v st u c,
  st_store (fst (step v st (KReopen u, c))) = st_store st /\ snd (step v st (KReopen u, c)) = ODone.
Proof. intros v st u c. destruct c as [[n|n]|]; split; reflexivity. Qed.
Print Assumptions reopen_any_uri_changes_nothing.

(* SEVERAL KEY MANAGERS OVER ONE STORE: going on with another key manager instance — one opened earlier over the same
   data and still alive, through whichever storage wrapper stack, or a new one — changes nothing and needs no store call:
   an instance holds nothing a call depends on (`durable` holds across such switches: KSwitch i is an operation like any
   other in `rest`; the correspondence runs the real calls on up to four long-lived instances over three wrapper stacks) *)
Theorem switch_instance_changes_nothing : forall v st i c,
  st_store (fst (step v st (KSwitch i, c))) = st_store st /\ snd (step v st (KSwitch i, c)) = ODone /\
  fst (snd (step_calls v st (KSwitch i, c))) = [].
Proof. intros v st i c. destruct c as [[n|n]|]; repeat split; reflexivity. Qed.
Print Assumptions switch_instance_changes_nothing.

(* an entry changes only through a COMPLETED rotation of its id, which returns the id under which all its keys,
   in order, followed by the new primary key, are stored from then on *)
Theorem entry_changes_only_by_its_rotation : forall st oc id ks,
  lookup (st_store st) id = Some ks ->
  lookup (st_store (fst (step Fixed st oc))) id = Some ks \/
  (fst oc = KRotate id /\ exists nid,
     snd (step Fixed st oc) = OId nid (st_pos st) /\ nid <> id /\
     lookup (st_store (fst (step Fixed st oc))) nid =
       Some {| ks_kt := ks_kt ks; ks_keys := ks_keys ks ++ [st_pos st] |} /\
     lookup (st_store (fst (step Fixed st oc))) id = None).
Proof. exact step_entry. Qed.
Print Assumptions entry_changes_only_by_its_rotation.

(* CRASH SAFE (full).  For every state, every operation and every point at which it may be interrupted (the
   process dies at, or the store refuses, any one of its store mutations; or any one of its store calls, reads
   included, fails), every entry that was in the store is still there, unchanged, under its
   id, for whatever key manager is opened next. *)
Theorem crash_safe : forall st o (n : intr) id ks,
  snd (step Fixed st (o, Some n)) = OCrashed ->
  lookup (st_store st) id = Some ks ->
  lookup (st_store (fst (step Fixed st (o, Some n)))) id = Some ks.
Proof.
  intros st o n id ks H L. rewrite step_store.
  destruct (step_cases Fixed st o (Some n)) as [(n' & pre & E & S & C & O) | (C & O)].
  - rewrite C. eapply crash_keeps_entries; eassumption.
  - destruct (step_entry st (o, Some n) id ks L) as [K | (_ & nid & K & _)].
    + rewrite step_store in K. exact K.
    + rewrite H in K. discriminate.
Qed.
Print Assumptions crash_safe.

(* no operation sequence — completed, failing or interrupted anywhere — ever destroys key material *)
Theorem key_material_never_destroyed : forall ops st k,
  has_key (st_store st) k -> has_key (st_store (fst (run Fixed st ops))) k.
Proof. exact run_keeps_key. Qed.
Print Assumptions key_material_never_destroyed.

(* a keyset of a type that cannot be rotated (no key template; or ECDSASecp256k1DER, whose public key cannot be exported
   to derive the new id) is refused by Rotate and left exactly as it was *)
Theorem rotate_refused_leaves_store : forall v st id ks c,
  lookup (st_store st) id = Some ks -> kt_rotatable (ks_kt ks) = false ->
  st_store (fst (step v st (KRotate id, c))) = st_store st /\
  (snd (step v st (KRotate id, c)) = OErr \/ snd (step v st (KRotate id, c)) = OCrashed).
Proof. exact rotate_refused_keeps_store. Qed.
Print Assumptions rotate_refused_leaves_store.

(* the code as found: Rotate interrupted between its Delete and its Put loses the key (observation #14) *)
Theorem crash_safe_asis_refuted :
  let st := {| st_store := asis_witness_store; st_pos := 1 |} in
  snd (step AsIs st (KRotate (KThumb 0), Some (IMut 1%nat))) = OCrashed /\
  has_keyb (st_store (fst (step AsIs st (KRotate (KThumb 0), Some (IMut 1%nat))))) 0 = false /\
  entries_kept (st_store st) (st_store (fst (step Fixed st (KRotate (KThumb 0), Some (IMut 1%nat))))) = true.
Proof. vm_compute. repeat split. Qed.
Print Assumptions crash_safe_asis_refuted.

(* IMPORT NEVER OVERWRITES: an import under a caller-chosen id that is in use fails — also when its id check
   cannot be completed because the store's read fails — and changes nothing;
   more generally no store Put of any operation ever hits an id that is present *)
Theorem import_no_overwrite : forall v st kt u k c ks,
  lookup (st_store st) (KUser u) = Some ks ->
  (snd (step v st (KImport kt (Some u) k, c)) = OErr \/ snd (step v st (KImport kt (Some u) k, c)) = OCrashed) /\
  st_store (fst (step v st (KImport kt (Some u) k, c))) = st_store st.
Proof. exact import_existing_refused. Qed.
Print Assumptions import_no_overwrite.

(* ids are exact: an import under ANY caller-chosen id — e.g. another spelling of an id in use (blanks around, another
   case: the model's ids are compared as whole atoms, and the correspondence gives every distinct id STRING its own atom
   and checks that the id the key manager reads, writes and returns is the caller's string) — leaves the entry of every
   id as it was: under another id because it is another id, under the same id because it is refused *)
Theorem import_keeps_every_entry : forall st kt u k c id ks,
  lookup (st_store st) id = Some ks ->
  lookup (st_store (fst (step Fixed st (KImport kt (Some u) k, c)))) id = Some ks.
Proof. exact import_keeps_other_entries. Qed.
Print Assumptions import_keeps_every_entry.

Theorem no_put_overwrites : forall v s p o, puts_fresh s (fst (plan v s p o)).
Proof. exact plan_puts_fresh. Qed.
Print Assumptions no_put_overwrites.

(* MALFORMED IMPORTS: an EC private key that is not on the curve of the key type (a key of another curve, a point off
   the curve) is refused before any store call and changes nothing (repaired code; which code /repo has is read off the
   executed table: repo_is_fixed) *)
Theorem import_of_key_off_the_curve_refused : forall st kt u k c,
  st_store (fst (step Fixed st (KImportBad kt u k, c))) = st_store st /\
  snd (step Fixed st (KImportBad kt u k, c)) = OErr /\
  fst (snd (step_calls Fixed st (KImportBad kt u k, c))) = [].
Proof. exact bad_import_refused. Qed.
Print Assumptions import_of_key_off_the_curve_refused.

(* as found: such a key was accepted and stored — an asymmetric key of a thumbprint-identified type under a random id
   (its public key cannot be exported), returned to the caller as usable *)
Theorem import_of_key_off_the_curve_asis_refuted :
  snd (step AsIs init (KImportBad K_NISTP256ECDHKW None 1000, None)) = OId (KRand 0) 1000 /\
  import_thumb_type K_NISTP256ECDHKW = true /\
  snd (step Fixed init (KImportBad K_NISTP256ECDHKW None 1000, None)) = OErr.
Proof. repeat split; vm_compute; reflexivity. Qed.
Print Assumptions import_of_key_off_the_curve_asis_refuted.

(* KEY IDS.  For the key types the generated table marks as thumbprint-identified (every asymmetric type), the id
   returned by create, create-and-export and rotate is the thumbprint id of the returned (primary) key ... *)
Theorem created_key_id_is_thumbprint : forall v st kt c id k,
  kt_random_id kt = false ->
  snd (step v st (KCreate kt, c)) = OId id k \/ snd (step v st (KCreateExport kt, c)) = OIdPub id k ->
  id = KThumb k /\ k = st_pos st.
Proof. exact create_id_is_thumbprint. Qed.
Print Assumptions created_key_id_is_thumbprint.

Theorem rotated_key_id_is_thumbprint : forall v st old ks c id k,
  lookup (st_store st) old = Some ks -> kt_random_id (ks_kt ks) = false ->
  snd (step v st (KRotate old, c)) = OId id k ->
  id = KThumb k /\ k = st_pos st.
Proof. exact rotate_id_is_thumbprint. Qed.
Print Assumptions rotated_key_id_is_thumbprint.

(* ... an import returns the caller's id when one is given and otherwise (repaired code) the thumbprint id ... *)
Theorem imported_key_id : forall st kt u k c id k',
  snd (step Fixed st (KImport kt u k, c)) = OId id k' ->
  k' = k /\ match u with
            | Some n => id = KUser n
            | None => import_thumb_type kt = true -> id = KThumb k
            end.
Proof. exact import_id. Qed.
Print Assumptions imported_key_id.

Theorem imported_key_id_asis_refuted :
  snd (step AsIs init (KImport K_ED25519 None 1000, None)) = OId (KRand 0) 1000 /\
  snd (step Fixed init (KImport K_ED25519 None 1000, None)) = OId (KThumb 1000) 1000.
Proof. split; vm_compute; reflexivity. Qed.
Print Assumptions imported_key_id_asis_refuted.

(* ... and in every store reached from the empty one a thumbprint id names the keyset whose primary key it is
   the thumbprint of (stable identification) *)
Theorem thumbprint_id_names_its_key : forall v ops k ks,
  lookup (st_store (fst (run v init ops))) (KThumb k) = Some ks -> primary ks = Some k.
Proof.
  intros v ops. apply (run_thumb_wf v ops init). intros k ks L. discriminate.
Qed.
Print Assumptions thumbprint_id_names_its_key.

(* the thumbprint is a function of the public key alone and distinguishes public keys: the RFC 7638 pre-image
   (whose SHA-256 the harness checks to be the id the KMS returned) determines the coordinates *)
Theorem thumbprint_preimage_injective : forall c xs ys xs' ys',
  noq xs -> noq ys -> noq xs' -> noq ys' ->
  preimage c xs ys = preimage c xs' ys' ->
  xs = xs' /\ (is_ec c = true -> ys = ys').
Proof. exact preimage_inj. Qed.
Print Assumptions thumbprint_preimage_injective.

(* every key type with a thumbprint id has a pre-image form; the types with a random id have none *)
Theorem kid_defined_iff_preimage : forall kt,
  kt_kid_defined kt = match kt_curve kt with Some _ => true | None => false end.
Proof. destruct kt; reflexivity. Qed.
Print Assumptions kid_defined_iff_preimage.

Theorem thumbprint_types_are_the_asymmetric_creatable_ones : forall kt,
  kt_creatable kt = true -> (kt_random_id kt = false <-> kt_kid_defined kt = true).
Proof. destruct kt; cbn; intro H; split; intro; try reflexivity; try discriminate. Qed.
Print Assumptions thumbprint_types_are_the_asymmetric_creatable_ones.

(* THE TABLES ARE /repo's.  The translator also EXECUTES the real localkms for every exported kms.KeyType constant
   (Create, ImportPrivateKey of a matching private key, ExportPubKeyBytes, Rotate, jwkkid.CreateKID of the exported key)
   on every run; what it did agrees, for every key type, with the tables read from the source text (kt_creatable,
   kt_importable, kt_random_id, kt_template, kt_kid_defined) and with the hand-written ones of the model (kt_exportable,
   export_enc): which types can be created / imported, whether a stored keyset exports its public key and in which
   encoding, whether its id is the thumbprint of the exported key, whether Rotate accepts it.  A key type added to
   spi/kms or an edit of the export / id / rotate code that the model does not follow breaks this obligation. *)
Theorem executed_tables_agree : forall kt,
  exec_creatable kt = kt_creatable kt /\ exec_importable kt = kt_importable kt /\
  (exec_stored kt = true ->
     exec_exportable kt = model_exportable kt /\
     exec_export_enc kt = (if model_exportable kt then export_enc kt else None) /\
     exec_thumb_id kt = (model_exportable kt && kt_kid_defined kt)%bool /\
     exec_rotatable kt = kt_rotatable kt).
Proof. exact exec_tables_agree. Qed.
Print Assumptions executed_tables_agree.

(* what the model's Export / new-id / Rotate rules say, in terms of these tables: a completed export returns the
   primary key's public key exactly for the exportable types; a created key's id is a thumbprint id exactly for them *)
Theorem export_succeeds_iff_exportable : forall v st id ks k,
  lookup (st_store st) id = Some ks -> primary ks = Some k ->
  snd (step v st (KExport id, None)) = (if model_exportable (ks_kt ks) then OPub k else OErr).
Proof. exact export_iff_exportable. Qed.
Print Assumptions export_succeeds_iff_exportable.

(* DID:KEY FORM.  For every key type (generated tables: multicodec, re-encoding done by BuildDIDKeyByKeyType) the
   did:key built from the exported public key carries an encoding that the did:key readers decode *)
Theorem didkey_form : forall kt ce, build_didkey kt = Some ce -> didkey_readable ce = true.
Proof. exact didkey_readable_all. Qed.
Print Assumptions didkey_form.

(* as found (observation #30): ECDSA signing keys were put under the NIST-P multicodecs as exported *)
Theorem didkey_form_asis_refuted :
  exists kt ce, build_didkey_with asis_didform kt = Some ce /\ didkey_readable ce = false /\
                build_didkey kt = Some (fst ce, ECompressed).
Proof. exists K_ECDSAP256DER, (4608, EPkixDer). vm_compute. repeat split. Qed.
Print Assumptions didkey_form_asis_refuted.

(* non-vacuity: a history with creations, imports, rotations, a crash inside a rotation, reopening *)
Example durable_nonvacuous :
  let ops := [(KCreate K_ED25519, None); (KImport K_ECDSAP256DER (Some 1) 1000, None);
              (KRotate (KThumb 0), Some (IMut 1%nat)); (KReopen 7, None); (KRotate (KThumb 0), None);
              (KImport K_ECDSAP256DER (Some 1) 1001, None); (KCreate K_AES256GCM, Some (IMut 0%nat));
              (KGet (KThumb 4), None)] in
  let '(st, outs) := run Fixed init ops in
  nth 2%nat outs OErr = OCrashed /\ nth 4%nat outs OErr = OId (KThumb 4) 4 /\
  nth 5%nat outs ODone = OErr /\ nth 6%nat outs ODone = OCrashed /\
  nth 7%nat outs OErr = OKeys [0; 4] /\
  option_map ks_keys (lookup (st_store st) (KThumb 2)) = Some [0; 2] /\
  lookup (st_store st) (KThumb 0) = None /\
  option_map ks_keys (lookup (st_store st) (KUser 1)) = Some [1000].
Proof. vm_compute. repeat split. Qed.

(* non-vacuity of import_no_overwrite with a failing read: the id check of an import whose id is in use fails *)
Example import_no_overwrite_failing_read :
  let st := fst (step Fixed init (KImport K_ED25519 (Some 1) 1000, None)) in
  snd (step Fixed st (KImport K_ED25519 (Some 1) 1001, Some (ICall 0%nat))) = OCrashed /\
  option_map ks_keys (lookup (st_store (fst (step Fixed st (KImport K_ED25519 (Some 1) 1001, Some (ICall 0%nat))))) (KUser 1))
    = Some [1000].
Proof. vm_compute. split; reflexivity. Qed.
