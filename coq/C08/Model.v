(* C08 — executable model of compact JWS / JWT verification as /repo does it.  NO proofs here.
   jose.ParseJWS -> parseCompacted (component/kmscrypto/doc/jose/jws.go),
   jwt.Parse (component/models/jwt/jwt.go), jwt.NewVerifier / GetVerifier / UnsecuredJWTVerifier
   (component/models/jwt/verifier.go), didsignjwt.VerifyJWT = jwt.Parse with NewVerifier over the VDR resolver.
   Text fields (alg, kid, typ) are Coq strings; segments, payloads, messages and signatures are lists of bytes (N).
   The alg -> (key family, representation, signing procedure) acceptance relation, the set of registered algs and
   the alg GetVerifier binds to a JWK are GENERATED from /repo (gen/Gen_C08.v). *)
From Coq Require Import List NArith String Ascii Bool.
Import ListNotations.
From VF Require Import common.Base64 C08.Types gen.Gen_C08.
Local Open Scope N_scope.

Definition chars (s : string) : list N := map N_of_ascii (list_ascii_of_string s).

Fixpoint leqb (a b : list N) : bool :=
  match a, b with
  | [], [] => true
  | x :: r, y :: t => (x =? y) && leqb r t
  | _, _ => false
  end.

(* ---- base64url, Go's RawURLEncoding (non-strict): '\n' and '\r' are skipped anywhere, every other character
        must be in the alphabet, '=' is not accepted, trailing bits are ignored (Base64.decode false) ---- *)
Definition sext_of_char (c : N) : option N :=
  if (65 <=? c) && (c <=? 90) then Some (c - 65)
  else if (97 <=? c) && (c <=? 122) then Some (c - 71)
  else if (48 <=? c) && (c <=? 57) then Some (c + 4)
  else if c =? 45 then Some 62
  else if c =? 95 then Some 63
  else None.
Definition char_of_sext (s : N) : N :=
  if s <? 26 then s + 65 else if s <? 52 then s + 71 else if s <? 62 then s - 4
  else if s =? 62 then 45 else 95.

Definition is_nl (c : N) : bool := (c =? 10) || (c =? 13).
Fixpoint sexts (cs : list N) : option (list N) :=
  match cs with
  | [] => Some []
  | c :: r => if is_nl c then sexts r
              else match sext_of_char c, sexts r with
                   | Some s, Some t => Some (s :: t)
                   | _, _ => None
                   end
  end.
Definition b64dec (cs : list N) : option (list N) :=
  match sexts cs with Some ss => decode false ss | None => None end.
Definition b64enc (bs : list N) : list N := map char_of_sext (encode bs).

(* ---- strings.Split(s, ".") on bytes ---- *)
Definition dot : N := 46.
Fixpoint split_dot (cs : list N) : list (list N) :=
  match cs with
  | [] => [[]]
  | c :: r => if c =? dot then [] :: split_dot r
              else match split_dot r with
                   | p :: ps => (c :: p) :: ps
                   | [] => [[c]]
                   end
  end.

(* strings.Split on a Coq string *)
Fixpoint split_on (sep : ascii) (s : string) : list string :=
  match s with
  | EmptyString => [EmptyString]
  | String a r => if Ascii.eqb a sep then EmptyString :: split_on sep r
                  else match split_on sep r with
                       | p :: ps => String a p :: ps
                       | [] => [String a EmptyString]
                       end
  end.

Definition up_ascii (a : ascii) : ascii :=
  let n := N_of_ascii a in if (97 <=? n) && (n <=? 122) then ascii_of_N (n - 32) else a.
Fixpoint upper (s : string) : string :=
  match s with EmptyString => EmptyString | String a r => String (up_ascii a) (upper r) end.

Fixpoint mem_str (s : string) (l : list string) : bool :=
  match l with [] => false | x :: r => String.eqb s x || mem_str s r end.

(* ---- what the code reads from the decoded JOSE header map ---- *)
Inductive jv := JAbsent | JOther | JS (s : string) | JB (b : bool).
(* h_canon: the bytes json.Marshal gives back for the decoded header map (sorted members, no spacing) — what
   jose.DefaultSigningInputVerifier signs/verifies instead of the received header bytes *)
Record hview := { h_alg : jv; h_kid : jv; h_b64 : jv; h_typ : jv; h_cty : jv; h_canon : list N }.

(* ---- keys and the ideal signature ---- *)
Record pkey := { pk_fam : fam; pk_repr : repr; pk_id : N }.
(* the meaning of a byte string offered as a signature: produced by the holder of private key k with procedure p
   over message m, or nothing of the kind *)
Inductive sigv := SBy (k : N) (p : sproc) (m : list N) | SOther | SEmpty.


(* ---- DID documents and the key resolver of didsignjwt (vdrkeyresolver.go resolvePublicKey) ----
   A document is the list of (verification method, relationship under which the document lists it) that
   doc.VerificationMethods() enumerates.  The resolver returns the key of the FIRST entry whose id CONTAINS the
   fragment (strings.Contains) and whose relationship is not keyAgreement; a method listed for key agreement only
   is never a verification key. *)
Inductive rel := RAuth | RAssert | RCapDel | RCapInv | RKeyAgr | RGeneral.
Record vmeth := { vm_id : string; vm_rel : rel; vm_key : pkey }.
Definition signing_rel (r : rel) : bool := match r with RKeyAgr => false | _ => true end.
Fixpoint contains (sub s : string) : bool :=
  String.prefix sub s || match s with String _ r => contains sub r | EmptyString => false end.
Fixpoint first_method (frag : string) (ms : list vmeth) : option vmeth :=
  match ms with
  | [] => None
  | m :: r => if contains frag (vm_id m) && signing_rel (vm_rel m) then Some m else first_method frag r
  end.
Fixpoint find_doc (ds : list (string * list vmeth)) (d : string) : option (list vmeth) :=
  match ds with [] => None | (d', ms) :: r => if String.eqb d d' then Some ms else find_doc r d end.
Definition resolve_docs (ds : list (string * list vmeth)) (d f : string) : option pkey :=
  match find_doc ds d with
  | Some ms => match first_method f ms with Some m => Some (vm_key m) | None => None end
  | None => None
  end.

Inductive variant := AsIs | Fixed.
(* VBasic = jwt.NewVerifier(resolver); VSingle k = jwt.GetVerifier(k); VUnsecured = jwt.UnsecuredJWTVerifier();
   VFixed a k = jwt.NewEd25519Verifier(k) (a = "EdDSA") / jwt.NewRS256Verifier(k) (a = "RS256") (jwt_support.go);
   VDefault k = jose.DefaultSigningInputVerifier over a function that verifies with key k by the key's own
   procedure and never looks at alg (as pkg/didcomm middleware uses it for from_prior) *)
Inductive vcfg := VBasic | VSingle (k : pkey) | VUnsecured | VFixed (a : string) (k : pkey) | VDefault (k : pkey).
(* the procedure the crypto service verifies with for a public key handle of the family (tinkcrypto) *)
Definition default_proc (f : fam) : option sproc :=
  match f with
  | FEd25519 => Some PEd | FP256 => Some (PEc H256) | FP384 => Some (PEc H384) | FP521 => Some (PEc H512)
  | FSecp256k1 => Some (PEc H256) | FRSA => None
  end.
Inductive vres := VOk | VFail | VCrash.
Inductive stage := StSplit | StHdr | StPay | StSigIn | StSigDec | StVerif | StJwtHdr | StClaims.
Inductive out := Accept (h : hview) (payload : list N) | Reject (st : stage) | Crash.

(* acceptance relation of the alg verifiers: generated; the code before `fix: ECDSA ... curve` also accepted
   an EC key of another curve in JWK form (witness kept: ES256 with a secp256k1 JWK) *)
Definition acc_of (v : variant) : list (string * fam * repr * sproc) :=
  match v with
  | Fixed => acc
  | AsIs => ("ES256"%string, FSecp256k1, RJwk, PEc H256) :: acc
  end.
Fixpoint acc_mem (t : list (string * fam * repr * sproc)) (a : string) (f : fam) (r : repr) (p : sproc) : bool :=
  match t with
  | [] => false
  | (a', f', r', p') :: t' =>
      (String.eqb a a' && fam_eqb f f' && repr_eqb r r' && sproc_eqb p p') || acc_mem t' a f r p
  end.
Fixpoint single_alg (t : list (fam * string)) (f : fam) : option string :=
  match t with [] => None | (f', a) :: t' => if fam_eqb f f' then Some a else single_alg t' f end.

Definition starts_brace (tok : list N) : bool := match tok with c :: _ => c =? 123 | [] => false end.
Definition jv_absent (j : jv) : bool := match j with JAbsent => true | _ => false end.
Definition is_nil (l : list N) : bool := match l with [] => true | _ => false end.

(* ---- the published meaning of the algorithm names (RFC 7518 s3.1, RFC 8037, RFC 8812; the implementation
        spells ECDSA P-521/SHA-512 "ES521") ---- *)
Definition alg_spec (a : string) : option (fam * sproc) :=
  if String.eqb a "EdDSA" then Some (FEd25519, PEd)
  else if String.eqb a "ES256" then Some (FP256, PEc H256)
  else if String.eqb a "ES384" then Some (FP384, PEc H384)
  else if String.eqb a "ES521" then Some (FP521, PEc H512)
  else if String.eqb a "ES256K" then Some (FSecp256k1, PEc H256)
  else if String.eqb a "PS256" then Some (FRSA, PPss)
  else if String.eqb a "RS256" then Some (FRSA, PPkcs)
  else None.

Section Verify.
  (* third-party JSON decoding of the header bytes into jose.Headers, projected on the members the code reads *)
  Variable parse_hdr : list N -> option hview.
  (* the KeyResolver given to jwt.NewVerifier: (did, fragment) -> key *)
  Variable resolve : string -> string -> option pkey.
  (* ideal signatures: every byte string is a signature of at most one (key, procedure, message) *)
  Variable sig_meaning : list N -> sigv.
  (* third-party JSON decoding of the claims into a map (jwt.PayloadToMap) *)
  Variable payload_is_obj : list N -> bool.

  Definition crypto_ok (v : variant) (alg : string) (k : pkey) (msg sg : list N) : bool :=
    match sig_meaning sg with
    | SBy kid p m => (kid =? pk_id k) && acc_mem (acc_of v) alg (pk_fam k) (pk_repr k) p && leqb m msg
    | _ => false
    end.

  Definition kid_string (h : hview) : string := match h_kid h with JS s => s | _ => EmptyString end.

  (* jwt.NewVerifier: CompositeAlgSigVerifier.Verify then verifySignature *)
  Definition verify_basic (v : variant) (h : hview) (msg sg : list N) : vres :=
    match h_alg h with
    | JS alg =>
        if negb (mem_str alg registered) then VFail
        else let kid := kid_string h in
             if negb (String.prefix "did:" kid) then VFail
             else match split_on "#" kid with
                  | d :: f :: _ =>
                      match resolve d f with
                      | Some k => if crypto_ok v alg k msg sg then VOk else VFail
                      | None => VFail
                      end
                  | _ => match v with AsIs => VCrash | Fixed => VFail end
                  end
    | _ => VFail
    end.

  (* jwt.GetVerifier(publicKey): one alg, bound to the key's JWK type *)
  Definition verify_single (v : variant) (k : pkey) (h : hview) (msg sg : list N) : vres :=
    match h_alg h, pk_repr k with
    | JS alg, RJwk =>
        match single_alg single (pk_fam k) with
        | Some a => if String.eqb alg a && crypto_ok v alg k msg sg then VOk else VFail
        | None => VFail
        end
    | _, _ => VFail
    end.

  (* jwt.UnsecuredJWTVerifier *)
  Definition verify_unsecured (h : hview) (sg : list N) : vres :=
    match h_alg h with
    | JS alg => if String.eqb alg "none" && is_nil sg then VOk else VFail
    | _ => VFail
    end.

  (* jwt.JoseEd25519Verifier / jwt.RS256Verifier: alg must be the verifier's, the key is the configured one *)
  Definition verify_fixed (a : string) (k : pkey) (h : hview) (msg sg : list N) : vres :=
    match h_alg h, alg_spec a, sig_meaning sg with
    | JS alg, Some (f, p), SBy kid p' m =>
        if String.eqb alg a && fam_eqb f (pk_fam k) && (kid =? pk_id k) && sproc_eqb p p' && leqb m msg then VOk else VFail
    | _, _, _ => VFail
    end.

  (* jose.DefaultSigningInputVerifier: the signing input handed over by parseCompacted is ignored and rebuilt from
     the RE-MARSHALLED header (msgc); the wrapped function checks the signature with the key, whatever alg says *)
  Definition verify_default (k : pkey) (msgc : option (list N)) (sg : list N) : vres :=
    match msgc, default_proc (pk_fam k), sig_meaning sg with
    | Some mc, Some p, SBy kid p' m =>
        if (kid =? pk_id k) && sproc_eqb p p' && leqb m mc then VOk else VFail
    | _, _, _ => VFail
    end.

  Definition verify (v : variant) (c : vcfg) (h : hview) (msg : list N) (msgc : option (list N)) (sg : list N) : vres :=
    match c with
    | VBasic => verify_basic v h msg sg
    | VSingle k => verify_single v k h msg sg
    | VUnsecured => verify_unsecured h sg
    | VFixed a k => verify_fixed a k h msg sg
    | VDefault k => verify_default k msgc sg
    end.

  (* parseCompactedPayload: a non-empty detached payload wins; otherwise the segment is decoded and (since
     `fix: compact JWS payload segment must be canonical`) must be the canonical encoding of the result *)
  Definition payload_of (v : variant) (det : option (list N)) (pseg : list N) : option (list N) :=
    match det with
    | Some (b :: r) => Some (b :: r)
    | _ => match b64dec pseg with
           | Some p => match v with
                       | AsIs => Some p
                       | Fixed => if leqb (b64enc p) pseg then Some p else None
                       end
           | None => None
           end
    end.

  (* signingInput(headers, receivedHeaderSegment, payload) *)
  Definition signing_input (h : hview) (hseg payload : list N) : option (list N) :=
    match h_b64 h with
    | JAbsent | JB true => Some (hseg ++ dot :: b64enc payload)%list
    | JB false => Some (hseg ++ dot :: payload)%list
    | _ => None
    end.

  Definition parse_jws (v : variant) (c : vcfg) (det : option (list N)) (tok : list N) : out :=
    if starts_brace tok then Reject StSplit             (* JSON serialization is not supported *)
    else
      match split_dot tok with
      | [hseg; pseg; sseg] =>
          match b64dec hseg with
          | None => Reject StHdr
          | Some hb =>
            match parse_hdr hb with
            | None => Reject StHdr
            | Some h =>
              if jv_absent (h_alg h) then Reject StHdr
              else
                match payload_of v det pseg with
                | None => Reject StPay
                | Some payload =>
                  match signing_input h hseg payload with
                  | None => Reject StSigIn
                  | Some msg =>
                    match b64dec sseg with
                    | None => Reject StSigDec
                    | Some sg =>
                      match verify v c h msg (signing_input h (b64enc (h_canon h)) payload) sg with
                      | VOk => Accept h payload
                      | VFail => Reject StVerif
                      | VCrash => Crash
                      end
                    end
                  end
                end
            end
          end
      | _ => Reject StSplit
      end.

  (* jwt.checkHeaders after a successful ParseJWS *)
  Definition typ_ok (h : hview) : bool :=
    match h_typ h with
    | JAbsent => true
    | JS t => match split_on "+" t with
              | _ :: c2 :: _ => let e := upper c2 in String.eqb e "JWT" || String.eqb e "SD-JWT"
              | _ => String.eqb t "JWT"
              end
    | _ => false
    end.
  Definition cty_ok (h : hview) : bool :=
    match h_cty h with JS c => negb (String.eqb c "JWT") | _ => true end.

  (* jwt.Parse(token, WithSignatureVerifier(c), [WithJWTDetachedPayload], [WithIgnoreClaimsMapDecoding]) *)
  Definition parse_jwt (v : variant) (c : vcfg) (ignore_claims : bool) (det : option (list N)) (tok : list N) : out :=
    match parse_jws v c det tok with
    | Accept h payload =>
        if negb (typ_ok h && cty_ok h) then Reject StJwtHdr
        else if ignore_claims || payload_is_obj payload then Accept h payload
        else Reject StClaims
    | o => o
    end.
End Verify.

