(* C08 — JSON-level model of the JOSE header decoder.  NO proofs here.
   parseCompactedHeaders (component/kmscrypto/doc/jose/jws.go) hands the decoded header bytes to
   json.Unmarshal(bytes, &Headers) of github.com/go-jose/go-jose/v3/json (Headers = map[string]interface{}) and the
   verifiers then read the members alg, kid, b64, typ, cty with exact (case-sensitive) map lookups and Go type
   assertions.  This file models that decoder on BYTES:
     - the scanner's grammar (RFC 8259 values, the four white-space bytes, the eight simple escapes, \uXXXX,
       no control bytes inside strings, number grammar without leading zeros / bare signs / empty fractions),
     - unquote: escapes, UTF-16 surrogate pairs (a lone or badly paired surrogate becomes U+FFFD and the
       following escape is NOT consumed), invalid UTF-8 coerced byte-by-byte to U+FFFD (Go's utf8.DecodeRune
       acceptance table), member names unquoted the same way BEFORE they are compared,
     - the fork's rejection of duplicate member names in every object (top level and nested),
     - numbers converted with strconv.ParseFloat(64): a literal that rounds to +-Inf fails the whole Unmarshal,
     - a top-level value that is not an object yields no usable header (null gives a nil map without `alg`,
       everything else a type error).
   jval carries what the callers can observe: strings as byte strings (Coq `string`), booleans, and the shape of
   everything else. *)
From Coq Require Import List NArith ZArith String Ascii Bool.
Import ListNotations.
From VF Require Import common.Base64 C08.Types gen.Gen_C08 C08.Model.
Local Open Scope N_scope.

Inductive jval :=
| VNull | VBool (b : bool) | VNum (lit : list N) | VStr (s : string)
| VArr (l : list jval) | VObj (m : list (string * jval)).

Definition str_of (bs : list N) : string := fold_right (fun n s => String (ascii_of_N n) s) EmptyString bs.

Definition is_ws (c : N) : bool := (c =? 32) || (c =? 9) || (c =? 13) || (c =? 10).
Fixpoint skip_ws (cs : list N) : list N :=
  match cs with c :: r => if is_ws c then skip_ws r else cs | [] => [] end.

Definition is_digit (c : N) : bool := (48 <=? c) && (c <=? 57).
Definition hexv (c : N) : option N :=
  if is_digit c then Some (c - 48)
  else if (65 <=? c) && (c <=? 70) then Some (c - 55)
  else if (97 <=? c) && (c <=? 102) then Some (c - 87)
  else None.
Definition hex4 (cs : list N) : option N :=
  match cs with
  | a :: b :: c :: d :: _ =>
      match hexv a, hexv b, hexv c, hexv d with
      | Some a', Some b', Some c', Some d' => Some (((a' * 16 + b') * 16 + c') * 16 + d')
      | _, _, _, _ => None
      end
  | _ => None
  end.
(* getu4 on what follows a high surrogate: `\uXXXX` naming a low surrogate *)
Definition low_surrogate (cs : list N) : option N :=
  match cs with
  | b :: u :: r =>
      if (b =? 92) && (u =? 117) then
        match hex4 r with
        | Some x => if (56320 <=? x) && (x <? 57344) then Some x else None
        | None => None
        end
      else None
  | _ => None
  end.

(* utf8.EncodeRune for a scalar value *)
Definition utf8_enc (r : N) : list N :=
  if r <? 128 then [r]
  else if r <? 2048 then [192 + r / 64; 128 + r mod 64]
  else if r <? 65536 then [224 + r / 4096; 128 + (r / 64) mod 64; 128 + r mod 64]
  else [240 + r / 262144; 128 + (r / 4096) mod 64; 128 + (r / 64) mod 64; 128 + r mod 64].
Definition repl : list N := [239; 191; 189].       (* U+FFFD *)

Definition in_rng (lo hi b : N) : bool := (lo <=? b) && (b <=? hi).
Definition contb (b : N) : bool := in_rng 128 191 b.
(* utf8.DecodeRune at a byte >= 0x80: the number of continuation bytes of the VALID sequence that starts here,
   0 when the byte does not start one (Go then consumes this byte alone and yields U+FFFD) *)
Definition utf8_extra (c : N) (r : list N) : nat :=
  match r with
  | b1 :: r1 =>
      if in_rng 194 223 c then (if contb b1 then 1%nat else 0%nat)
      else if in_rng 224 239 c then
        let ok1 := if c =? 224 then in_rng 160 191 b1 else if c =? 237 then in_rng 128 159 b1 else contb b1 in
        match r1 with b2 :: _ => if ok1 && contb b2 then 2%nat else 0%nat | [] => 0%nat end
      else if in_rng 240 244 c then
        let ok1 := if c =? 240 then in_rng 144 191 b1 else if c =? 244 then in_rng 128 143 b1 else contb b1 in
        match r1 with b2 :: b3 :: _ => if ok1 && contb b2 && contb b3 then 3%nat else 0%nat | _ => 0%nat end
      else 0%nat
  | [] => 0%nat
  end.

Definition simple_esc (e : N) : option N :=
  if e =? 34 then Some 34 else if e =? 92 then Some 92 else if e =? 47 then Some 47
  else if e =? 98 then Some 8 else if e =? 102 then Some 12 else if e =? 110 then Some 10
  else if e =? 114 then Some 13 else if e =? 116 then Some 9 else None.

Definition outcons (bs : list N) (o : option (list N * list N)) : option (list N * list N) :=
  match o with Some (s, r) => Some ((bs ++ s)%list, r) | None => None end.

(* the contents of a string literal after its opening quote: (unquoted bytes, what follows the closing quote).
   cp: bytes still to be copied unchanged (continuation bytes of a sequence already found valid);
   dr: bytes still to be dropped (the rest of an escape already decoded). *)
Fixpoint pstr (cp dr : nat) (cs : list N) : option (list N * list N) :=
  match cs with
  | [] => None
  | c :: r =>
    match dr with
    | S d => pstr cp d r
    | O =>
      match cp with
      | S k => outcons [c] (pstr k O r)
      | O =>
        if c =? 34 then Some ([], r)
        else if c =? 92 then
          match r with
          | [] => None
          | e :: r' =>
            if e =? 117 then
              match hex4 r' with
              | None => None
              | Some rr =>
                  if (55296 <=? rr) && (rr <? 57344) then
                    match (if rr <? 56320 then low_surrogate (skipn 4 r') else None) with
                    | Some rr1 => outcons (utf8_enc (65536 + (rr - 55296) * 1024 + (rr1 - 56320))) (pstr O 11 r)
                    | None => outcons repl (pstr O 5 r)
                    end
                  else outcons (utf8_enc rr) (pstr O 5 r)
              end
            else match simple_esc e with
                 | Some b => outcons [b] (pstr O 1 r)
                 | None => None
                 end
          end
        else if c <? 32 then None
        else if c <? 128 then outcons [c] (pstr O O r)
        else match utf8_extra c r with
             | O => outcons repl (pstr O O r)
             | S k => outcons [c] (pstr (S k) O r)
             end
      end
    end
  end.

(* ---- numbers ---- *)
Fixpoint digits (cs : list N) : list N * list N :=
  match cs with
  | c :: r => if is_digit c then let (d, r') := digits r in (c :: d, r') else ([], cs)
  | [] => ([], [])
  end.
Definition zval (ds : list N) : Z := fold_left (fun a d => (a * 10 + Z.of_N (d - 48))%Z) ds 0%Z.
Fixpoint strip0 (ds : list N) : list N :=
  match ds with d :: r => if d =? 48 then strip0 r else ds | [] => [] end.
(* the smallest magnitude strconv.ParseFloat(.., 64) rounds to Inf: MaxFloat64 + half an ulp *)
Definition float_bound : Z := (2 ^ 1024 - 2 ^ 970)%Z.
(* does (the integer written by ds) * 10^e convert to a finite float64 ? *)
Definition fits (ds : list N) (e : Z) : bool :=
  let ds' := strip0 ds in
  let nd := Z.of_nat (List.length ds') in
  (if nd =? 0 then true
   else if nd + e <=? 308 then true
   else if 310 <=? nd + e then false
   else if 0 <=? e then zval ds' * 10 ^ e <? float_bound
   else zval ds' <? float_bound * 10 ^ (- e))%Z.

Definition is_nil' {A} (l : list A) : bool := match l with [] => true | _ => false end.

(* a number literal at the head of cs (first byte '-' or a digit): None = not a number of the grammar or (rc: the
   decoder converts numbers to float64; rc = false: Decoder.UseNumber keeps the literal) not finite as float64;
   Some (literal, rest) *)
Definition pnum (rc : bool) (cs : list N) : option (list N * list N) :=
  let body := match cs with c :: r => if c =? 45 then r else cs | [] => cs end in
  let (ip, r1) := digits body in
  match ip with
  | [] => None
  | d0 :: more =>
    if (d0 =? 48) && negb (is_nil' more) then None
    else
      let '(fp, r2, okf) :=
        match r1 with
        | c :: r' => if c =? 46 then let (f, r'') := digits r' in (f, r'', negb (is_nil' f)) else ([], r1, true)
        | [] => ([], r1, true)
        end in
      if negb okf then None
      else
        let mant := (ip ++ fp)%list in
        let fl := Z.of_nat (List.length fp) in
        let fin (e : Z) (rest : list N) :=
          if negb rc || fits mant (e - fl) then Some (firstn (List.length cs - List.length rest) cs, rest) else None in
        match r2 with
        | c :: r' =>
            if (c =? 101) || (c =? 69) then
              let '(neg, r'') := match r' with
                                 | s :: t => if s =? 45 then (true, t) else if s =? 43 then (false, t) else (false, r')
                                 | [] => (false, r')
                                 end in
              let (ed, r3) := digits r'' in
              if is_nil' ed then None
              else fin (if neg then (- zval ed)%Z else zval ed) r3
            else fin 0%Z r2
        | [] => fin 0%Z r2
        end
  end.

Fixpoint strip_prefix (p cs : list N) : option (list N) :=
  match p, cs with
  | [], _ => Some cs
  | a :: p', c :: r => if a =? c then strip_prefix p' r else None
  | _ :: _, [] => None
  end.

Fixpoint key_in (k : string) (m : list (string * jval)) : bool :=
  match m with [] => false | (k', _) :: r => String.eqb k k' || key_in k r end.
Fixpoint nodup_keys (m : list (string * jval)) : bool :=
  match m with [] => true | (k, _) :: r => negb (key_in k r) && nodup_keys r end.

(* ---- values.  n is fuel: every nested call is made after at least one byte was consumed, so
        S (length input) is enough for every input. ---- *)
Fixpoint pval (rc : bool) (n : nat) (cs : list N) : option (jval * list N) :=
  match n with
  | O => None
  | S n' =>
    match skip_ws cs with
    | [] => None
    | c :: r =>
      if c =? 34 then
        match pstr O O r with Some (s, r') => Some (VStr (str_of s), r') | None => None end
      else if c =? 123 then
        match skip_ws r with
        | c2 :: r2 =>
            if c2 =? 125 then Some (VObj [], r2)
            else match pmembers rc n' r with
                 | Some (ms, r') => if nodup_keys ms then Some (VObj ms, r') else None
                 | None => None
                 end
        | [] => None
        end
      else if c =? 91 then
        match skip_ws r with
        | c2 :: r2 =>
            if c2 =? 93 then Some (VArr [], r2)
            else match pelems rc n' r with
                 | Some (vs, r') => Some (VArr vs, r')
                 | None => None
                 end
        | [] => None
        end
      else if c =? 116 then
        match strip_prefix [114; 117; 101] r with Some r' => Some (VBool true, r') | None => None end
      else if c =? 102 then
        match strip_prefix [97; 108; 115; 101] r with Some r' => Some (VBool false, r') | None => None end
      else if c =? 110 then
        match strip_prefix [117; 108; 108] r with Some r' => Some (VNull, r') | None => None end
      else if (c =? 45) || is_digit c then
        match pnum rc (c :: r) with Some (l, r') => Some (VNum l, r') | None => None end
      else None
    end
  end
with pmembers (rc : bool) (n : nat) (cs : list N) : option (list (string * jval) * list N) :=
  match n with
  | O => None
  | S n' =>
    match skip_ws cs with
    | [] => None
    | c :: r =>
      if c =? 34 then
        match pstr O O r with
        | None => None
        | Some (k, r1) =>
          match skip_ws r1 with
          | [] => None
          | c1 :: r2 =>
            if c1 =? 58 then
              match pval rc n' r2 with
              | None => None
              | Some (v, r3) =>
                match skip_ws r3 with
                | [] => None
                | c3 :: r4 =>
                  if c3 =? 44 then
                    match pmembers rc n' r4 with
                    | Some (ms, r5) => Some ((str_of k, v) :: ms, r5)
                    | None => None
                    end
                  else if c3 =? 125 then Some ([(str_of k, v)], r4)
                  else None
                end
              end
            else None
          end
        end
      else None
    end
  end
with pelems (rc : bool) (n : nat) (cs : list N) : option (list jval * list N) :=
  match n with
  | O => None
  | S n' =>
    match pval rc n' cs with
    | None => None
    | Some (v, r1) =>
      match skip_ws r1 with
      | [] => None
      | c :: r2 =>
        if c =? 44 then
          match pelems rc n' r2 with Some (vs, r3) => Some (v :: vs, r3) | None => None end
        else if c =? 93 then Some ([v], r2)
        else None
      end
    end
  end.

(* json.Unmarshal of a whole input: one value, then only white space *)
Definition parse_json (bs : list N) : option jval :=
  match pval true (S (S (List.length bs))) bs with
  | Some (v, r) => match skip_ws r with [] => Some v | _ => None end
  | None => None
  end.

(* jwt.PayloadToMap on the payload bytes (claims decoding of jwt.Parse): the same fork's STREAM decoder with
   UseNumber reads ONE value: numbers keep their literal (no float64 range), what follows the value is not looked at
   when the value is an object (its closing brace ends it), duplicate member names are rejected, the value must be
   an object or null (null gives a nil map without error; the stream decoder ends a top-level literal at ANY following
   byte - the scanner's complaint about that byte is recorded but not read -, so "nullx" decodes like "null"). *)
Definition claims_obj (bs : list N) : bool :=
  match pval false (S (S (List.length bs))) bs with
  | Some (VObj _, _) => true
  | Some (VNull, _) => true
  | _ => false
  end.

(* ---- what the callers read: exact member names, Go type assertions ---- *)
Fixpoint jlookup (m : list (string * jval)) (k : string) : option jval :=
  match m with [] => None | (k', v) :: r => if String.eqb k k' then Some v else jlookup r k end.
Definition jv_of (o : option jval) : jv :=
  match o with
  | None => JAbsent
  | Some (VStr s) => JS s
  | Some (VBool b) => JB b
  | Some _ => JOther
  end.
Definition hdr_view (canon : list N) (m : list (string * jval)) : hview :=
  {| h_alg := jv_of (jlookup m "alg"); h_kid := jv_of (jlookup m "kid"); h_b64 := jv_of (jlookup m "b64");
     h_typ := jv_of (jlookup m "typ"); h_cty := jv_of (jlookup m "cty"); h_canon := canon |}.

(* the header decoder of parseCompactedHeaders; `canon hb` = the bytes json.Marshal gives back for the decoded map
   (read by jose.DefaultSigningInputVerifier only).  A top-level null decodes to a nil map, which has no alg:
   rejected at the same stage as an undecodable header. *)
Definition hdr_json (canon : list N -> list N) (hb : list N) : option hview :=
  match parse_json hb with
  | Some (VObj m) => Some (hdr_view (canon hb) m)
  | _ => None
  end.

(* ---- json.Marshal of the decoded map, for decoded values without numbers (float64 formatting is not modelled:
        None).  Members sorted by name (bytewise), no spacing, strings with Go's HTML-safe escaping. ---- *)
Definition hexd (n : N) : N := if n <? 10 then 48 + n else 87 + n.
Definition u00 (c : N) : list N := [92; 117; 48; 48; hexd (c / 16); hexd (c mod 16)].
Fixpoint enc_str (cs : list N) : list N :=
  match cs with
  | [] => []
  | c :: r =>
      if (c =? 34) || (c =? 92) then 92 :: c :: enc_str r
      else if c =? 10 then 92 :: 110 :: enc_str r
      else if c =? 13 then 92 :: 114 :: enc_str r
      else if c =? 9 then 92 :: 116 :: enc_str r
      else if (c <? 32) || (c =? 60) || (c =? 62) || (c =? 38) then (u00 c ++ enc_str r)%list
      else if c =? 226 then
        match r with
        | b1 :: b2 :: r' =>
            if (b1 =? 128) && ((b2 =? 168) || (b2 =? 169))
            then ([92; 117; 50; 48; 50; hexd (b2 - 160)] ++ enc_str r')%list
            else c :: enc_str r
        | _ => c :: enc_str r
        end
      else c :: enc_str r
  end.
Definition quote (s : string) : list N := (34 :: enc_str (chars s) ++ [34])%list.

Fixpoint str_ltb (a b : list N) : bool :=
  match a, b with
  | _, [] => false
  | [], _ :: _ => true
  | x :: r, y :: t => (x <? y) || ((x =? y) && str_ltb r t)
  end.
Fixpoint ins_sorted (kv : string * list N) (l : list (string * list N)) : list (string * list N) :=
  match l with
  | [] => [kv]
  | kv' :: r => if str_ltb (chars (fst kv)) (chars (fst kv')) then kv :: l else kv' :: ins_sorted kv r
  end.
Definition sort_members (l : list (string * list N)) : list (string * list N) := fold_right ins_sorted [] l.
Fixpoint join_comma (ls : list (list N)) : list N :=
  match ls with
  | [] => []
  | [x] => x
  | x :: r => (x ++ 44 :: join_comma r)%list
  end.
Fixpoint all_some {A} (l : list (option A)) : option (list A) :=
  match l with
  | [] => Some []
  | Some x :: r => match all_some r with Some t => Some (x :: t) | None => None end
  | None :: _ => None
  end.

Fixpoint marshal (v : jval) : option (list N) :=
  match v with
  | VNull => Some [110; 117; 108; 108]
  | VBool true => Some [116; 114; 117; 101]
  | VBool false => Some [102; 97; 108; 115; 101]
  | VNum _ => None
  | VStr s => Some (quote s)
  | VArr l => match all_some (map marshal l) with
              | Some es => Some (91 :: join_comma es ++ [93])%list
              | None => None
              end
  | VObj m => match all_some (map (fun kv => match marshal (snd kv) with
                                             | Some b => Some (fst kv, b)
                                             | None => None
                                             end) m) with
              | Some es => Some (123 :: join_comma (map (fun kv => (quote (fst kv) ++ 58 :: snd kv)%list)
                                                        (sort_members es)) ++ [125])%list
              | None => None
              end
  end.
