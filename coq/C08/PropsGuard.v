(* C08 — guard exactness of the partial theorem about jose.DefaultSigningInputVerifier.  Proofs are `exact <lemma>`. *)
From Coq Require Import List NArith String Ascii Bool.
Import ListNotations.
From VF Require Import common.Base64 C08.Types gen.Gen_C08 C08.Model C08.Proofs C08.GuardProofs.
Local Open Scope N_scope.
Local Open Scope list_scope.

(* default_verifier_header_exact_partial (C08/Props.v) holds under the guard
       received header segment = encoding of the re-marshalled header.
   The guard excludes a token ONLY where the exact-header statement really fails: whenever an accepted token is
   outside the guard, the token that carries the re-marshalled header instead (same payload and signature segments)
   is accepted too, and the two differ in their header segments. *)
Theorem default_verifier_guard_exact : forall ph rs sm k tok h payload hseg pseg sseg,
  split_dot tok = [hseg; pseg; sseg] ->
  parse_jws ph rs sm Fixed (VDefault k) None tok = Accept h payload ->
  Forall byte_ok (h_canon h) -> ph (h_canon h) = Some h ->
  b64enc (h_canon h) <> hseg ->
  let tok' := b64enc (h_canon h) ++ dot :: pseg ++ dot :: sseg in
  parse_jws ph rs sm Fixed (VDefault k) None tok' = Accept h payload /\
  nth 0 (split_dot tok') [] <> nth 0 (split_dot tok) [] /\
  nth 1 (split_dot tok') [] = nth 1 (split_dot tok) [] /\ nth 2 (split_dot tok') [] = nth 2 (split_dot tok) [].
Proof. exact default_guard_exact. Qed.
Print Assumptions default_verifier_guard_exact.

(* the compact form round-trips: base64url text of any bytes decodes to those bytes, contains no '.', and three
   dot-free segments joined by '.' split into exactly those segments *)
Theorem b64url_roundtrip : forall bs, Forall byte_ok bs -> b64dec (b64enc bs) = Some bs /\ ~ In dot (b64enc bs).
Proof. exact (fun bs H => conj (b64dec_b64enc bs H) (b64enc_nodot bs H)). Qed.
Print Assumptions b64url_roundtrip.

Theorem compact_split_exact : forall a b c, ~ In dot a -> ~ In dot b -> ~ In dot c ->
  split_dot (a ++ dot :: b ++ dot :: c) = [a; b; c].
Proof. exact split_dot_three. Qed.
Print Assumptions compact_split_exact.

(* non-vacuity: the witness of default_verifier_header_exact_refuted is outside the guard and meets the hypotheses *)
Example guard_exact_nonvacuous :
  let h := {| h_alg := JS "EdDSA"; h_kid := JS "did:x#k"; h_b64 := JAbsent; h_typ := JAbsent; h_cty := JAbsent; h_canon := [123; 125] |} in
  let ph := fun _ : list N => Some h in
  let k := {| pk_fam := FEd25519; pk_repr := RRaw; pk_id := 1 |} in
  let sm := fun bs : list N => match bs with [] => SEmpty | _ => SBy 1 PEd (chars "e30.QQ") end in
  split_dot (chars "eyB9.QQ.QQ") = [chars "eyB9"; chars "QQ"; chars "QQ"] /\
  parse_jws ph (fun _ _ => None) sm Fixed (VDefault k) None (chars "eyB9.QQ.QQ") = Accept h [65] /\
  ph (h_canon h) = Some h /\ b64enc (h_canon h) <> chars "eyB9".
Proof. vm_compute. repeat split; discriminate. Qed.
