(* C08 — property theorems only.  Every proof is `exact <lemma>` or a closed computation (refutation witness /
   finite generated table); Print Assumptions follows each.
   Reading guide.  parse_jws / parse_jwt (C08/Model.v) are the executable model of jose.ParseJWS and jwt.Parse
   (= didsignjwt.VerifyJWT with the VDR resolver) that the correspondence runs against /repo on every check.
   The theorems hold for EVERY JSON header decoder `ph`, EVERY key resolver `rs`, EVERY assignment `sm` of a meaning
   to signature byte strings (ideal signatures: a byte string is a signature of at most one key/procedure/message)
   and every claims decoder `po`; tokens, detached payloads and verifier configurations are arbitrary. *)
From Coq Require Import List NArith String Ascii Bool.
Import ListNotations.
From VF Require Import common.Base64 C08.Types gen.Gen_C08 C08.Model C08.Proofs.
Local Open Scope N_scope.
Local Open Scope list_scope.

(* FULL STATEMENT.  If a signature-checking verifier (jwt.NewVerifier over any resolver, jwt.GetVerifier for any
   key) accepts a compact token, then the token is hseg.pseg.sseg (no further '.'), the header segment decodes to
   a header naming a string alg, the key is the one the kid resolves to (resp. the configured one), the PUBLISHED
   meaning of alg is (family of that key, procedure p), and the signature bytes are a signature by exactly that
   key with exactly that procedure over   received header segment || '.' || payload part,   where for an attached
   payload the payload segment is the canonical encoding of the payload. *)
Theorem accept_sound : forall ph rs sm c det tok h payload,
  sig_checking c ->
  parse_jws ph rs sm Fixed c det tok = Accept h payload ->
  exists hseg pseg sseg hb alg k p sg,
    tok = hseg ++ dot :: pseg ++ dot :: sseg /\ ~ In dot hseg /\ ~ In dot pseg /\ ~ In dot sseg /\
    split_dot tok = [hseg; pseg; sseg] /\
    b64dec hseg = Some hb /\ ph hb = Some h /\
    h_alg h = JS alg /\ key_for rs c h k /\ alg_spec alg = Some (pk_fam k, p) /\
    b64dec sseg = Some sg /\ sm sg = SBy (pk_id k) p (signed_bytes h hseg payload) /\
    payload_received det pseg payload.
Proof. exact jws_accept_sound. Qed.
Print Assumptions accept_sound.

(* the same for jwt.Parse / didsignjwt.VerifyJWT: they accept only what ParseJWS accepted *)
Theorem jwt_accept_sound : forall ph rs sm po c ig det tok h payload,
  sig_checking c ->
  parse_jwt ph rs sm po Fixed c ig det tok = Accept h payload ->
  accepted_facts ph rs sm c det tok h payload.
Proof. intros ph rs sm po c ig det tok h payload SC H. exact (jws_accept_sound ph rs sm c det tok h payload SC (jwt_accept_jws ph rs sm po c ig det tok h payload H)). Qed.
Print Assumptions jwt_accept_sound.

(* exact received bytes: with an attached payload (and b64 not false) the signature covers literally the first
   two segments of the token as received *)
Theorem accept_signs_received_bytes : forall ph rs sm c tok h payload,
  sig_checking c ->
  parse_jws ph rs sm Fixed c None tok = Accept h payload -> h_b64 h <> JB false ->
  exists hseg pseg sseg k p sg,
    tok = hseg ++ dot :: pseg ++ dot :: sseg /\ b64dec sseg = Some sg /\ key_for rs c h k /\
    sm sg = SBy (pk_id k) p (hseg ++ dot :: pseg).
Proof. intros ph rs sm c tok h payload SC H. exact (received_bytes_signed ph rs sm c tok h payload (jws_accept_sound ph rs sm c None tok h payload SC H)). Qed.
Print Assumptions accept_signs_received_bytes.

(* unsigned tokens are rejected: alg none, and an empty signature (no key signs with the empty byte string) *)
Theorem rejects_unsigned : forall ph rs sm c det tok h payload,
  sig_checking c -> (forall k p m, sm [] <> SBy k p m) ->
  parse_jws ph rs sm Fixed c det tok = Accept h payload ->
  h_alg h <> JS "none" /\ b64dec (nth 2 (split_dot tok) []) <> Some [].
Proof. intros ph rs sm c det tok h payload SC E H. exact (accepted_not_unsigned ph rs sm c det tok h payload E (jws_accept_sound ph rs sm c det tok h payload SC H)). Qed.
Print Assumptions rejects_unsigned.

(* algorithm/key agreement: whatever key the kid resolves to, an accepted token's alg means that key's family *)
Theorem alg_matches_resolved_key : forall ph rs sm c det tok h payload alg k,
  sig_checking c ->
  parse_jws ph rs sm Fixed c det tok = Accept h payload ->
  h_alg h = JS alg -> key_for rs c h k ->
  exists p, alg_spec alg = Some (pk_fam k, p).
Proof. intros ph rs sm c det tok h payload alg k SC H. exact (accepted_alg_matches_key ph rs sm c det tok h payload alg k (jws_accept_sound ph rs sm c det tok h payload SC H)). Qed.
Print Assumptions alg_matches_resolved_key.

(* any altered header or payload byte is rejected: two accepted tokens that carry the same signature bytes are
   identical in their header and payload segments, byte for byte (attached payloads) ... *)
Theorem header_payload_exact : forall ph rs sm c1 c2 t1 t2 h1 h2 p1 p2,
  sig_checking c1 -> sig_checking c2 ->
  parse_jws ph rs sm Fixed c1 None t1 = Accept h1 p1 ->
  parse_jws ph rs sm Fixed c2 None t2 = Accept h2 p2 ->
  (exists sg, b64dec (nth 2 (split_dot t1) []) = Some sg /\ b64dec (nth 2 (split_dot t2) []) = Some sg) ->
  nth 0 (split_dot t1) [] = nth 0 (split_dot t2) [] /\ nth 1 (split_dot t1) [] = nth 1 (split_dot t2) [] /\ p1 = p2.
Proof.
  intros ph rs sm c1 c2 t1 t2 h1 h2 p1 p2 S1 S2 H1 H2.
  exact (same_sig_same_token_attached ph rs sm c1 c2 t1 t2 h1 h2 p1 p2
           (jws_accept_sound ph rs sm c1 None t1 h1 p1 S1 H1) (jws_accept_sound ph rs sm c2 None t2 h2 p2 S2 H2)).
Qed.
Print Assumptions header_payload_exact.

(* ... and for detached payloads the header segments and the detached payload bytes are identical *)
Theorem detached_payload_exact : forall ph rs sm c1 c2 b1 r1 b2 r2 t1 t2 h1 h2 p1 p2,
  sig_checking c1 -> sig_checking c2 -> Forall byte_ok (b1 :: r1) -> Forall byte_ok (b2 :: r2) ->
  parse_jws ph rs sm Fixed c1 (Some (b1 :: r1)) t1 = Accept h1 p1 ->
  parse_jws ph rs sm Fixed c2 (Some (b2 :: r2)) t2 = Accept h2 p2 ->
  (exists sg, b64dec (nth 2 (split_dot t1) []) = Some sg /\ b64dec (nth 2 (split_dot t2) []) = Some sg) ->
  nth 0 (split_dot t1) [] = nth 0 (split_dot t2) [] /\ b1 :: r1 = b2 :: r2.
Proof.
  intros ph rs sm c1 c2 b1 r1 b2 r2 t1 t2 h1 h2 p1 p2 S1 S2 B1 B2 H1 H2.
  exact (same_sig_same_detached ph rs sm c1 c2 b1 r1 b2 r2 t1 t2 h1 h2 p1 p2 B1 B2
           (jws_accept_sound ph rs sm c1 _ t1 h1 p1 S1 H1) (jws_accept_sound ph rs sm c2 _ t2 h2 p2 S2 H2)).
Qed.
Print Assumptions detached_payload_exact.

(* no token, header, kid or resolver makes the verifiers panic *)
Theorem never_crashes : forall ph rs sm c det tok, parse_jws ph rs sm Fixed c det tok <> Crash.
Proof. exact jws_no_crash. Qed.
Print Assumptions never_crashes.

(* unsecured JWTs only through the explicit unsecured verifier, which takes nothing else *)
Theorem unsecured_only_none : forall h sg, verify_unsecured h sg = VOk -> h_alg h = JS "none" /\ sg = [].
Proof. exact unsecured_inv. Qed.
Print Assumptions unsecured_only_none.

(* THE GENERATED TABLES (regenerated from /repo by executing the verifiers on every run): every accepted
   (alg, key family, representation, procedure) agrees with the published meaning of the alg name; only
   algs with a published meaning are registered, `none` and the empty name are not; GetVerifier binds each JWK
   family to an alg of that family. *)
Theorem alg_table_sound : forall a f r p, In (a, f, r, p) acc -> alg_spec a = Some (f, p).
Proof. exact acc_sound. Qed.
Print Assumptions alg_table_sound.

Theorem registered_algs_sound :
  forallb (fun a => match alg_spec a with Some _ => true | None => false end) registered = true /\
  mem_str "none" registered = false /\ mem_str "" registered = false.
Proof. exact (conj registered_checked none_unregistered). Qed.
Print Assumptions registered_algs_sound.

Theorem single_table_sound :
  forallb (fun e : fam * string => let '(f, a) := e in
             match alg_spec a with Some (f', _) => fam_eqb f f' | None => false end) single = true.
Proof. exact single_checked. Qed.
Print Assumptions single_table_sound.

(* ---------- a concrete world for witnesses and non-vacuity ---------- *)
Definition w_hdr (alg kid : string) : list N -> option hview :=
  fun _ => Some {| h_alg := JS alg; h_kid := JS kid; h_b64 := JAbsent; h_typ := JAbsent; h_cty := JAbsent; h_canon := [123; 125] |}.
Definition w_key (f : fam) (r : repr) : pkey := {| pk_fam := f; pk_repr := r; pk_id := 1 |}.
Definition w_rs (k : pkey) : string -> string -> option pkey := fun _ _ => Some k.
Definition w_sm (p : sproc) (m : string) : list N -> sigv := fun bs => match bs with [] => SEmpty | _ => SBy 1 p (chars m) end.


(* THE DID-DOCUMENT RESOLVER (didsignjwt.VDRKeyResolver, the one VerifyJWT uses).  For every set of documents:
   the key a kid resolves to belongs to a method of the kid's DID document whose id contains the fragment and
   which the document lists under a relationship other than keyAgreement ... *)
Theorem resolver_returns_signing_method : forall ds d f k, resolve_docs ds d f = Some k ->
  exists ms m, find_doc ds d = Some ms /\ In m ms /\ vm_key m = k /\
               contains f (vm_id m) = true /\ vm_rel m <> RKeyAgr.
Proof. exact resolve_docs_sound. Qed.
Print Assumptions resolver_returns_signing_method.

(* ... a fragment that only names methods listed for key agreement resolves to no key ... *)
Theorem keyagreement_only_never_resolved : forall ds d f ms,
  find_doc ds d = Some ms -> (forall m, In m ms -> contains f (vm_id m) = true -> vm_rel m = RKeyAgr) ->
  resolve_docs ds d f = None.
Proof. exact keyagreement_only_unresolved. Qed.
Print Assumptions keyagreement_only_never_resolved.

(* ... hence a token accepted over the VDR resolver is signed, under its alg, by a signing-capable method of the
   kid's DID *)
Theorem did_accept_signed_by_signing_method : forall ph ds sm tok det h payload,
  parse_jws ph (resolve_docs ds) sm Fixed VBasic det tok = Accept h payload ->
  exists d f rest ms m alg p sg,
    split_on "#" (kid_string h) = d :: f :: rest /\ find_doc ds d = Some ms /\ In m ms /\
    contains f (vm_id m) = true /\ vm_rel m <> RKeyAgr /\
    h_alg h = JS alg /\ alg_spec alg = Some (pk_fam (vm_key m), p) /\
    b64dec (nth 2 (split_dot tok) []) = Some sg /\
    sm sg = SBy (pk_id (vm_key m)) p (signed_bytes h (nth 0 (split_dot tok) []) payload).
Proof. exact did_accept_signing_method. Qed.
Print Assumptions did_accept_signed_by_signing_method.

Example resolver_nonvacuous :
  let k := fun n => {| pk_fam := FP256; pk_repr := RJwk; pk_id := n |} in
  let ds := [("did:x"%string, [ {| vm_id := "did:x#ka"; vm_rel := RKeyAgr; vm_key := k 1 |};
                                 {| vm_id := "did:x#key-10"; vm_rel := RGeneral; vm_key := k 2 |};
                                 {| vm_id := "did:x#key-1"; vm_rel := RAuth; vm_key := k 3 |};
                                 {| vm_id := "did:x#key-1"; vm_rel := RKeyAgr; vm_key := k 3 |} ])] in
  resolve_docs ds "did:x" "ka" = None /\ resolve_docs ds "did:x" "key-1" = Some (k 2) /\
  resolve_docs ds "did:x" "key-1" <> Some (k 3) /\ resolve_docs ds "did:y" "key-1" = None /\
  (exists h, parse_jws (w_hdr "ES256" "did:x#key-10") (resolve_docs ds)
               (fun bs => match bs with [] => SEmpty | _ => SBy 2 (PEc H256) (chars "e30.QQ") end)
               Fixed VBasic None (chars "e30.QQ.QQ") = Accept h [65]).
Proof. vm_compute. repeat split; try discriminate. eexists; reflexivity. Qed.


(* jose.DefaultSigningInputVerifier (a verifier that, BY DESIGN, rebuilds the signing input from the re-marshalled
   header; used by pkg/didcomm middleware for from_prior).  What its acceptance implies: a signature by the
   configured key, with the key's own procedure, over  encoding of the RE-MARSHALLED header || '.' || payload part. *)
Theorem default_verifier_accept_sound : forall ph rs sm k det tok h payload,
  parse_jws ph rs sm Fixed (VDefault k) det tok = Accept h payload ->
  exists hseg pseg sseg hb p sg,
    split_dot tok = [hseg; pseg; sseg] /\ b64dec hseg = Some hb /\ ph hb = Some h /\
    default_proc (pk_fam k) = Some p /\ b64dec sseg = Some sg /\
    sm sg = SBy (pk_id k) p (signed_bytes h (b64enc (h_canon h)) payload) /\
    payload_received det pseg payload.
Proof. exact default_accept_sound. Qed.
Print Assumptions default_verifier_accept_sound.

(* the FULL exact-header statement is refuted for this verifier (known finding, by design): two tokens that differ
   in their header segment ("{}" and "{ }") and carry the same signature are both accepted *)
Theorem default_verifier_header_exact_refuted :
  let ph := w_hdr "EdDSA" "did:x#k" in let rs := w_rs (w_key FEd25519 RRaw) in let sm := w_sm PEd "e30.QQ" in
  let k := w_key FEd25519 RRaw in
  (exists h, parse_jws ph rs sm Fixed (VDefault k) None (chars "e30.QQ.QQ") = Accept h [65]) /\
  (exists h, parse_jws ph rs sm Fixed (VDefault k) None (chars "eyB9.QQ.QQ") = Accept h [65]) /\
  nth 0 (split_dot (chars "e30.QQ.QQ")) [] <> nth 0 (split_dot (chars "eyB9.QQ.QQ")) [] /\
  parse_jws ph rs sm Fixed VBasic None (chars "eyB9.QQ.QQ") = Reject StVerif.
Proof. vm_compute. repeat split; try (eexists; reflexivity). discriminate. Qed.
Print Assumptions default_verifier_header_exact_refuted.

(* PARTIAL: when the received header segment IS the encoding of the re-marshalled header (members sorted, no
   spacing), the signature covers the received header and payload segments *)
Theorem default_verifier_header_exact_partial : forall ph rs sm k tok h payload,
  parse_jws ph rs sm Fixed (VDefault k) None tok = Accept h payload ->
  b64enc (h_canon h) = nth 0 (split_dot tok) [] -> h_b64 h <> JB false ->
  exists p sg, b64dec (nth 2 (split_dot tok) []) = Some sg /\
    sm sg = SBy (pk_id k) p (nth 0 (split_dot tok) [] ++ dot :: nth 1 (split_dot tok) []).
Proof. exact default_received_when_canonical. Qed.
Print Assumptions default_verifier_header_exact_partial.

(* HISTORICAL REFUTATIONS — the code as found (before the three fix: commits); witnesses in corpus/C08. *)
(* DESIGN s11 #6: a payload segment altered within its unused trailing bits ("QQ" -> "QR") or by a line break was
   accepted; the repaired code rejects both at the payload stage *)
Theorem payload_exact_asis_refuted :
  let ph := w_hdr "EdDSA" "did:x#k" in let rs := w_rs (w_key FEd25519 RRaw) in let sm := w_sm PEd "e30.QQ" in
  parse_jws ph rs sm AsIs VBasic None (chars "e30.QQ.QQ") = parse_jws ph rs sm AsIs VBasic None (chars "e30.QR.QQ") /\
  (exists h, parse_jws ph rs sm AsIs VBasic None (chars "e30.QR.QQ") = Accept h [65]) /\
  (exists h, parse_jws ph rs sm AsIs VBasic None [101; 51; 48; 46; 81; 10; 81; 46; 81; 81] = Accept h [65]) /\
  parse_jws ph rs sm Fixed VBasic None [101; 51; 48; 46; 81; 10; 81; 46; 81; 81] = Reject StPay /\
  parse_jws ph rs sm Fixed VBasic None (chars "e30.QR.QQ") = Reject StPay.
Proof. vm_compute. repeat split; eexists; reflexivity. Qed.
Print Assumptions payload_exact_asis_refuted.

(* an ES256 token signed with a secp256k1 key was accepted when the kid resolved to that key as a JWK *)
Theorem alg_matches_key_asis_refuted :
  let ph := w_hdr "ES256" "did:x#k" in let rs := w_rs (w_key FSecp256k1 RJwk) in let sm := w_sm (PEc H256) "e30.QQ" in
  (exists h, parse_jws ph rs sm AsIs VBasic None (chars "e30.QQ.QQ") = Accept h [65]) /\
  alg_spec "ES256" = Some (FP256, PEc H256) /\
  parse_jws ph rs sm Fixed VBasic None (chars "e30.QQ.QQ") = Reject StVerif.
Proof. vm_compute. repeat split; eexists; reflexivity. Qed.
Print Assumptions alg_matches_key_asis_refuted.

(* DESIGN s11 #4: a kid without '#' made the verifier panic *)
Theorem never_crashes_asis_refuted :
  let ph := w_hdr "EdDSA" "did:x" in let rs := w_rs (w_key FEd25519 RRaw) in let sm := w_sm PEd "e30.QQ" in
  parse_jws ph rs sm AsIs VBasic None (chars "e30.QQ.QQ") = Crash /\
  parse_jws ph rs sm Fixed VBasic None (chars "e30.QQ.QQ") = Reject StVerif.
Proof. vm_compute. split; reflexivity. Qed.
Print Assumptions never_crashes_asis_refuted.

(* NON-VACUITY: the hypotheses of the theorems are met — a token is accepted by both kinds of signature-checking
   verifier, attached and detached, and the same token with one header character changed is rejected *)
Example accept_nonvacuous :
  let ph := w_hdr "ES256" "did:x#k" in let k := w_key FP256 RJwk in let rs := w_rs k in let sm := w_sm (PEc H256) "e30.QQ" in
  (exists h, parse_jws ph rs sm Fixed VBasic None (chars "e30.QQ.QQ") = Accept h [65]) /\
  (exists h, parse_jwt ph rs sm (fun _ => true) Fixed (VSingle k) false None (chars "e30.QQ.QQ") = Accept h [65]) /\
  (exists h, parse_jws ph rs sm Fixed VBasic (Some [65]) (chars "e30..QQ") = Accept h [65]) /\
  parse_jws ph rs sm Fixed VBasic None (chars "e31.QQ.QQ") = Reject StVerif /\
  parse_jws ph rs sm Fixed VBasic (Some [66]) (chars "e30..QQ") = Reject StVerif /\
  parse_jws ph rs sm Fixed VBasic None (chars "e30.QQ.") = Reject StVerif /\
  sig_checking VBasic /\ (forall k p m, sm [] <> SBy k p m).
Proof. vm_compute. repeat split; try (eexists; reflexivity); discriminate. Qed.
