From Coq Require Import List NArith String Bool.
Import ListNotations.
From VF Require Import C08.Types gen.Gen_C08 C08.Model.
Theorem placeholder : True. Proof. exact I. Qed.
Print Assumptions placeholder.
