(* C08 — lemmas. *)
From Coq Require Import List NArith String Ascii Bool Lia ZifyN ZifyBool.
Import ListNotations.
From VF Require Import common.Base64 C08.Types gen.Gen_C08 C08.Model.
Local Open Scope N_scope.
Local Open Scope list_scope.

Lemma leqb_eq a b : leqb a b = true <-> a = b.
Proof.
  revert b. induction a as [|x a IH]; intros [|y b]; cbn; split; intro H; try reflexivity; try discriminate.
  - apply andb_true_iff in H as [H1 H2]. apply N.eqb_eq in H1. apply IH in H2. subst. reflexivity.
  - inversion H; subst. rewrite N.eqb_refl. cbn. apply IH. reflexivity.
Qed.

(* ---------- the generated tables against the published meaning of the alg names ---------- *)
Definition entry_ok (e : string * fam * repr * sproc) : bool :=
  let '(a, f, _, p) := e in
  match alg_spec a with Some (f', p') => fam_eqb f f' && sproc_eqb p p' | None => false end.

Lemma acc_checked : forallb entry_ok acc = true.
Proof. vm_compute. reflexivity. Qed.

Lemma acc_sound a f r p : In (a, f, r, p) acc -> alg_spec a = Some (f, p).
Proof.
  intro H. pose proof acc_checked as C. rewrite forallb_forall in C. specialize (C _ H). cbn in C.
  destruct (alg_spec a) as [[f' p']|]; [|discriminate].
  apply andb_true_iff in C as [C1 C2]. apply fam_eqb_eq in C1. apply sproc_eqb_eq in C2. subst. reflexivity.
Qed.

Lemma acc_mem_In t a f r p : acc_mem t a f r p = true -> In (a, f, r, p) t.
Proof.
  induction t as [|[[[a' f'] r'] p'] t IH]; cbn; [discriminate|].
  intro H. apply orb_true_iff in H as [H|H]; [left|right; apply IH; exact H].
  repeat (apply andb_true_iff in H as [H ?]).
  apply String.eqb_eq in H. apply fam_eqb_eq in H2. apply repr_eqb_eq in H1. apply sproc_eqb_eq in H0.
  subst. reflexivity.
Qed.

Lemma registered_checked :
  forallb (fun a => match alg_spec a with Some _ => true | None => false end) registered = true.
Proof. vm_compute. reflexivity. Qed.

Lemma none_unregistered : mem_str "none" registered = false /\ mem_str "" registered = false.
Proof. vm_compute. split; reflexivity. Qed.

Lemma single_checked :
  forallb (fun e : fam * string => let '(f, a) := e in
             match alg_spec a with Some (f', _) => fam_eqb f f' | None => false end) single = true.
Proof. vm_compute. reflexivity. Qed.

(* ---------- strings.Split on "." ---------- *)
Lemma split_dot_nonempty cs : split_dot cs <> [].
Proof.
  induction cs as [|c r IH]; cbn; [discriminate|].
  destruct (c =? dot); [discriminate|]. destruct (split_dot r); [congruence|discriminate].
Qed.

Fixpoint join_dot (ps : list (list N)) : list N :=
  match ps with
  | [] => []
  | [p] => p
  | p :: r => p ++ dot :: join_dot r
  end.

Lemma split_dot_join cs : join_dot (split_dot cs) = cs.
Proof.
  induction cs as [|c r IH]; cbn; [reflexivity|].
  destruct (c =? dot) eqn:E.
  - apply N.eqb_eq in E. subst c. pose proof (split_dot_nonempty r) as NE.
    destruct (split_dot r) as [|p ps] eqn:S; [congruence|]. cbn [join_dot app]. rewrite <- IH. reflexivity.
  - pose proof (split_dot_nonempty r) as NE. destruct (split_dot r) as [|p ps] eqn:S; [congruence|].
    destruct ps as [|p2 ps]; cbn in *; rewrite <- IH; reflexivity.
Qed.

Lemma split_dot_nodot cs : Forall (fun p => ~ In dot p) (split_dot cs).
Proof.
  induction cs as [|c r IH]; cbn.
  - constructor; [intros []|constructor].
  - destruct (c =? dot) eqn:E.
    + constructor; [intros []|exact IH].
    + destruct (split_dot r) as [|p ps]; [constructor; [|constructor]|].
      * intros [H|[]]. subst. rewrite N.eqb_refl in E. discriminate.
      * inversion IH as [|? ? Hp Hps]; subst. constructor; [|exact Hps].
        intros [H|H]; [subst; rewrite N.eqb_refl in E; discriminate|exact (Hp H)].
Qed.

Lemma split3 tok a b c : split_dot tok = [a; b; c] ->
  tok = a ++ dot :: b ++ dot :: c /\ ~ In dot a /\ ~ In dot b /\ ~ In dot c.
Proof.
  intro S. pose proof (split_dot_join tok) as J. pose proof (split_dot_nodot tok) as F. rewrite S in J, F.
  cbn in J. inversion F as [|? ? Ha F1]; subst. inversion F1 as [|? ? Hb F2]; subst. inversion F2 as [|? ? Hc _]; subst.
  repeat split; try assumption; try (symmetry; exact J).
Qed.

(* the first "." of a byte string determines the split *)
Lemma app_dot_inj a a' x x' : ~ In dot a -> ~ In dot a' -> a ++ dot :: x = a' ++ dot :: x' -> a = a' /\ x = x'.
Proof.
  revert a'. induction a as [|c a IH]; intros [|c' a'] Ha Ha' E; cbn in E.
  - inversion E. split; reflexivity.
  - inversion E; subst. exfalso. apply Ha'. left. reflexivity.
  - inversion E; subst. exfalso. apply Ha. left. reflexivity.
  - inversion E; subst. destruct (IH a') as [E1 E2]; try assumption.
    + intro H. apply Ha. right. exact H.
    + intro H. apply Ha'. right. exact H.
    + subst. split; reflexivity.
Qed.

(* ---------- base64url alphabet ---------- *)
Lemma sext_char s : s < 64 -> sext_of_char (char_of_sext s) = Some s.
Proof.
  intro H. unfold char_of_sext, sext_of_char.
  destruct (s <? 26) eqn:E1.
  { replace ((65 <=? s + 65) && (s + 65 <=? 90)) with true by lia. f_equal. lia. }
  destruct (s <? 52) eqn:E2.
  { replace ((65 <=? s + 71) && (s + 71 <=? 90)) with false by lia.
    replace ((97 <=? s + 71) && (s + 71 <=? 122)) with true by lia. f_equal. lia. }
  destruct (s <? 62) eqn:E3.
  { replace ((65 <=? s - 4) && (s - 4 <=? 90)) with false by lia.
    replace ((97 <=? s - 4) && (s - 4 <=? 122)) with false by lia.
    replace ((48 <=? s - 4) && (s - 4 <=? 57)) with true by lia. f_equal. lia. }
  destruct (s =? 62) eqn:E4.
  { apply N.eqb_eq in E4. subst. reflexivity. }
  assert (s = 63) by lia. subst. reflexivity.
Qed.

Lemma char_of_sext_inj s t : s < 64 -> t < 64 -> char_of_sext s = char_of_sext t -> s = t.
Proof.
  intros Hs Ht E. pose proof (sext_char s Hs) as A. pose proof (sext_char t Ht) as B. rewrite E in A. congruence.
Qed.

Lemma map_char_inj ss tt : Forall sext_ok ss -> Forall sext_ok tt ->
  map char_of_sext ss = map char_of_sext tt -> ss = tt.
Proof.
  revert tt. induction ss as [|s ss IH]; intros [|t tt] Hs Ht E; cbn in E; try discriminate; [reflexivity|].
  inversion E as [[E1 E2]]. inversion Hs; subst. inversion Ht; subst.
  f_equal; [apply char_of_sext_inj; assumption|apply IH; assumption].
Qed.

(* the encoder is injective on byte strings (Base64.decode_encode) *)
Lemma b64enc_inj a b : Forall byte_ok a -> Forall byte_ok b -> b64enc a = b64enc b -> a = b.
Proof.
  intros Ha Hb E. unfold b64enc in E.
  apply map_char_inj in E; try (apply encode_sext; assumption).
  pose proof (decode_encode false a Ha) as A. pose proof (decode_encode false b Hb) as B.
  rewrite E in A. congruence.
Qed.


(* ---------- the DID-document resolver ---------- *)
Lemma first_method_sound f ms m : first_method f ms = Some m ->
  In m ms /\ contains f (vm_id m) = true /\ vm_rel m <> RKeyAgr.
Proof.
  induction ms as [|x r IH]; cbn; [discriminate|].
  destruct (contains f (vm_id x) && signing_rel (vm_rel x)) eqn:E.
  - intro H. inversion H; subst. apply andb_true_iff in E as [E1 E2].
    split; [left; reflexivity|]. split; [exact E1|]. intro K. rewrite K in E2. discriminate.
  - intro H. destruct (IH H) as (A & B & C). split; [right; exact A|]. split; assumption.
Qed.

Lemma resolve_docs_sound ds d f k : resolve_docs ds d f = Some k ->
  exists ms m, find_doc ds d = Some ms /\ In m ms /\ vm_key m = k /\
               contains f (vm_id m) = true /\ vm_rel m <> RKeyAgr.
Proof.
  unfold resolve_docs. destruct (find_doc ds d) as [ms|]; [|discriminate].
  destruct (first_method f ms) as [m|] eqn:F; [|discriminate]. intro H. inversion H; subst.
  destruct (first_method_sound _ _ _ F) as (A & B & C). exists ms, m. repeat split; assumption.
Qed.

(* a method the document lists for key agreement only is never resolved *)
Lemma keyagreement_only_unresolved ds d f ms :
  find_doc ds d = Some ms -> (forall m, In m ms -> contains f (vm_id m) = true -> vm_rel m = RKeyAgr) ->
  resolve_docs ds d f = None.
Proof.
  intros FD H. destruct (resolve_docs ds d f) as [k|] eqn:R; [|reflexivity].
  apply resolve_docs_sound in R as (ms' & m & FD' & I & _ & C & NK). rewrite FD in FD'. inversion FD'; subst.
  exfalso. apply NK. apply H; assumption.
Qed.

(* ---------- the verification pipeline ---------- *)
Section Sound.
  Variable parse_hdr : list N -> option hview.
  Variable resolve : string -> string -> option pkey.
  Variable sig_meaning : list N -> sigv.
  Variable payload_is_obj : list N -> bool.

  Local Notation parse_jws := (parse_jws parse_hdr resolve sig_meaning).
  Local Notation parse_jwt := (parse_jwt parse_hdr resolve sig_meaning payload_is_obj).
  Local Notation verify := (verify resolve sig_meaning).
  Local Notation crypto_ok := (crypto_ok sig_meaning).

  (* the key a signature-checking verifier checks against: what the kid resolves to / the configured key *)
  Definition key_for (c : vcfg) (h : hview) (k : pkey) : Prop :=
    match c with
    | VBasic => String.prefix "did:" (kid_string h) = true /\
                exists d f rest, split_on "#" (kid_string h) = d :: f :: rest /\ resolve d f = Some k
    | VSingle k' => k = k'
    | VFixed _ k' => k = k'
    | VUnsecured | VDefault _ => False
    end.

  (* the bytes the signature must cover *)
  Definition signed_bytes (h : hview) (hseg payload : list N) : list N :=
    match h_b64 h with
    | JB false => hseg ++ dot :: payload
    | _ => hseg ++ dot :: b64enc payload
    end.

  Definition payload_received (det : option (list N)) (pseg payload : list N) : Prop :=
    match det with
    | Some (b :: r) => payload = b :: r
    | _ => b64dec pseg = Some payload /\ b64enc payload = pseg
    end.

  (* the verifiers the property's acceptance claim is proved for; VDefault has its own (weaker) theorems *)
  Definition sig_checking (c : vcfg) : Prop :=
    match c with VBasic | VSingle _ | VFixed _ _ => True | VUnsecured | VDefault _ => False end.

  Lemma crypto_ok_inv alg k msg sg : crypto_ok Fixed alg k msg sg = true ->
    exists p, sig_meaning sg = SBy (pk_id k) p msg /\ alg_spec alg = Some (pk_fam k, p).
  Proof.
    unfold Model.crypto_ok. destruct (sig_meaning sg) as [kid p m| |]; try discriminate.
    intro H. apply andb_true_iff in H as [H H3]. apply andb_true_iff in H as [H1 H2].
    apply N.eqb_eq in H1. apply leqb_eq in H3. apply acc_mem_In in H2. cbn in H2. apply acc_sound in H2.
    subst. exists p. split; [reflexivity|exact H2].
  Qed.

  Lemma verify_ok_inv c h msg msgc sg : sig_checking c -> verify Fixed c h msg msgc sg = VOk ->
    exists alg k p, h_alg h = JS alg /\ key_for c h k /\
                    sig_meaning sg = SBy (pk_id k) p msg /\ alg_spec alg = Some (pk_fam k, p).
  Proof.
    intros SC. destruct c as [|k0| |a0 k0|k0]; cbn [Model.verify].
    - unfold verify_basic. destruct (h_alg h) as [| |alg|]; try discriminate.
      destruct (negb (mem_str alg registered)); [discriminate|].
      destruct (negb (String.prefix "did:" (kid_string h))) eqn:P; [discriminate|].
      destruct (split_on "#" (kid_string h)) as [|d [|f rest]] eqn:S; try discriminate.
      destruct (resolve d f) as [k|] eqn:R; [|discriminate].
      destruct (crypto_ok Fixed alg k msg sg) eqn:C; [|discriminate]. intros _.
      apply crypto_ok_inv in C as (p & C1 & C2). exists alg, k, p. repeat split; try assumption.
      + apply negb_false_iff in P. exact P.
      + exists d, f, rest. split; [exact S|exact R].
    - unfold verify_single. destruct (h_alg h) as [| |alg|]; try discriminate.
      destruct (pk_repr k0); [|discriminate].
      destruct (single_alg single (pk_fam k0)) as [a|]; [|discriminate].
      destruct (String.eqb alg a && crypto_ok Fixed alg k0 msg sg) eqn:C; [|discriminate]. intros _.
      apply andb_true_iff in C as [_ C]. apply crypto_ok_inv in C as (p & C1 & C2).
      exists alg, k0, p. repeat split; assumption.
    - destruct SC.
    - unfold verify_fixed. destruct (h_alg h) as [| |alg|]; try discriminate.
      destruct (alg_spec a0) as [[f p]|] eqn:AS; try discriminate.
      destruct (sig_meaning sg) as [kid p' m| |] eqn:SM; try discriminate.
      destruct (String.eqb alg a0 && fam_eqb f (pk_fam k0) && (kid =? pk_id k0) && sproc_eqb p p' && leqb m msg) eqn:C; [|discriminate].
      intros _. repeat (apply andb_true_iff in C as [C ?]).
      apply String.eqb_eq in C. apply fam_eqb_eq in H2. apply N.eqb_eq in H1. apply sproc_eqb_eq in H0. apply leqb_eq in H.
      subst. exists a0, k0, p'. repeat split; try reflexivity. exact AS.
    - destruct SC.
  Qed.

  Lemma payload_of_inv det pseg payload : payload_of Fixed det pseg = Some payload -> payload_received det pseg payload.
  Proof.
    unfold payload_of, payload_received. destruct det as [[|b r]|].
    - destruct (b64dec pseg) as [p|]; [|discriminate]. destruct (leqb (b64enc p) pseg) eqn:L; [|discriminate].
      intro H. inversion H; subst. apply leqb_eq in L. split; [reflexivity|exact L].
    - intro H. inversion H. reflexivity.
    - destruct (b64dec pseg) as [p|]; [|discriminate]. destruct (leqb (b64enc p) pseg) eqn:L; [|discriminate].
      intro H. inversion H; subst. apply leqb_eq in L. split; [reflexivity|exact L].
  Qed.

  Lemma signing_input_inv h hseg payload msg : signing_input h hseg payload = Some msg -> msg = signed_bytes h hseg payload.
  Proof.
    unfold signing_input, signed_bytes. destruct (h_b64 h) as [| | |[|]]; intro H; inversion H; reflexivity.
  Qed.

  (* everything an acceptance by a signature-checking verifier implies *)
  Definition accepted_facts (c : vcfg) (det : option (list N)) (tok : list N) (h : hview) (payload : list N) : Prop :=
    exists hseg pseg sseg hb alg k p sg,
      tok = hseg ++ dot :: pseg ++ dot :: sseg /\ ~ In dot hseg /\ ~ In dot pseg /\ ~ In dot sseg /\
      split_dot tok = [hseg; pseg; sseg] /\
      b64dec hseg = Some hb /\ parse_hdr hb = Some h /\
      h_alg h = JS alg /\ key_for c h k /\ alg_spec alg = Some (pk_fam k, p) /\
      b64dec sseg = Some sg /\ sig_meaning sg = SBy (pk_id k) p (signed_bytes h hseg payload) /\
      payload_received det pseg payload.

  Lemma jws_accept_sound c det tok h payload : sig_checking c ->
    parse_jws Fixed c det tok = Accept h payload -> accepted_facts c det tok h payload.
  Proof.
    intros SC. unfold Model.parse_jws.
    destruct (starts_brace tok); [discriminate|].
    destruct (split_dot tok) as [|hseg [|pseg [|sseg [|x y]]]] eqn:S; try discriminate.
    destruct (b64dec hseg) as [hb|] eqn:DH; [|discriminate].
    destruct (parse_hdr hb) as [h'|] eqn:PH; [|discriminate].
    destruct (jv_absent (h_alg h')); [discriminate|].
    destruct (payload_of Fixed det pseg) as [pl|] eqn:PO; [|discriminate].
    destruct (signing_input h' hseg pl) as [msg|] eqn:SI; [|discriminate].
    destruct (b64dec sseg) as [sg|] eqn:DS; [|discriminate].
    destruct (verify Fixed c h' msg (signing_input h' (b64enc (h_canon h')) pl) sg) eqn:V; try discriminate.
    intro H. inversion H; subst h' pl. clear H.
    apply verify_ok_inv in V as (alg & k & p & A1 & A2 & A3 & A4); [|exact SC].
    apply signing_input_inv in SI. subst msg. apply payload_of_inv in PO.
    destruct (split3 _ _ _ _ S) as (T & N1 & N2 & N3).
    exists hseg, pseg, sseg, hb, alg, k, p, sg. repeat split; assumption.
  Qed.

  Lemma jwt_accept_jws c ig det tok h payload :
    parse_jwt Fixed c ig det tok = Accept h payload -> parse_jws Fixed c det tok = Accept h payload.
  Proof.
    unfold Model.parse_jwt. destruct (parse_jws Fixed c det tok) as [h' p'| |]; try discriminate.
    destruct (negb (typ_ok h' && cty_ok h')); [discriminate|].
    destruct (ig || payload_is_obj p'); [|discriminate]. intro H. exact H.
  Qed.

  (* no input makes the repaired verifiers panic *)
  Lemma jws_no_crash c det tok : parse_jws Fixed c det tok <> Crash.
  Proof.
    unfold Model.parse_jws.
    destruct (starts_brace tok); [discriminate|].
    destruct (split_dot tok) as [|hseg [|pseg [|sseg [|x y]]]]; try discriminate.
    destruct (b64dec hseg) as [hb|]; [|discriminate].
    destruct (parse_hdr hb) as [h'|]; [|discriminate].
    destruct (jv_absent (h_alg h')); [discriminate|].
    destruct (payload_of Fixed det pseg) as [pl|]; [|discriminate].
    destruct (signing_input h' hseg pl) as [msg|]; [|discriminate].
    destruct (b64dec sseg) as [sg|]; [|discriminate].
    destruct (verify Fixed c h' msg (signing_input h' (b64enc (h_canon h')) pl) sg) eqn:V; try discriminate.
    exfalso. destruct c as [|k0| |a0 k0|k0]; cbn [Model.verify] in V.
    - unfold verify_basic in V. destruct (h_alg h'); try discriminate.
      destruct (negb (mem_str s registered)); [discriminate|].
      destruct (negb (String.prefix "did:" (kid_string h'))); [discriminate|].
      destruct (split_on "#" (kid_string h')) as [|d [|f rest]]; try discriminate.
      destruct (resolve d f); [|discriminate]. destruct (crypto_ok Fixed s p msg sg); discriminate.
    - unfold verify_single in V. destruct (h_alg h'); try discriminate. destruct (pk_repr k0); try discriminate.
      destruct (single_alg single (pk_fam k0)); [|discriminate].
      destruct (String.eqb s s0 && crypto_ok Fixed s k0 msg sg); discriminate.
    - unfold verify_unsecured in V. destruct (h_alg h'); try discriminate.
      destruct (String.eqb s "none" && is_nil sg); discriminate.
    - unfold verify_fixed in V. destruct (h_alg h'); try discriminate. destruct (alg_spec a0) as [[f p]|]; try discriminate.
      destruct (sig_meaning sg); try discriminate.
      destruct (String.eqb s a0 && fam_eqb f (pk_fam k0) && (k =? pk_id k0) && sproc_eqb p p0 && leqb m msg); discriminate.
    - unfold verify_default in V. destruct (signing_input h' (b64enc (h_canon h')) pl); try discriminate.
      destruct (default_proc (pk_fam k0)); try discriminate. destruct (sig_meaning sg); try discriminate.
      destruct ((k =? pk_id k0) && sproc_eqb s p && leqb m l); discriminate.
  Qed.

  (* two accepted tokens carrying the same signature bytes have the same header segment, byte for byte, and the
     same signed payload part *)
  Lemma same_sig_same_input c1 c2 d1 d2 t1 t2 h1 h2 p1 p2 :
    accepted_facts c1 d1 t1 h1 p1 -> accepted_facts c2 d2 t2 h2 p2 ->
    (exists sg, b64dec (nth 2 (split_dot t1) []) = Some sg /\ b64dec (nth 2 (split_dot t2) []) = Some sg) ->
    nth 0 (split_dot t1) [] = nth 0 (split_dot t2) [] /\ h1 = h2 /\
    signed_bytes h1 (nth 0 (split_dot t1) []) p1 = signed_bytes h2 (nth 0 (split_dot t2) []) p2.
  Proof.
    intros (hs1 & ps1 & ss1 & hb1 & a1 & k1 & q1 & sg1 & T1 & N1 & _ & _ & S1 & DH1 & PH1 & _ & _ & _ & DS1 & M1 & _)
           (hs2 & ps2 & ss2 & hb2 & a2 & k2 & q2 & sg2 & T2 & N2 & _ & _ & S2 & DH2 & PH2 & _ & _ & _ & DS2 & M2 & _)
           (sg & G1 & G2).
    rewrite S1 in *. rewrite S2 in *. cbn [nth] in *.
    assert (sg1 = sg) by congruence. assert (sg2 = sg) by congruence. subst sg1 sg2.
    rewrite M1 in M2. inversion M2 as [[Ek Eq Em]].
    assert (hs1 = hs2) as EH.
    { unfold signed_bytes in Em. destruct (h_b64 h1) as [| | |[|]], (h_b64 h2) as [| | |[|]];
        apply app_dot_inj in Em; try assumption; destruct Em; assumption. }
    subst hs2. assert (hb1 = hb2) by congruence. subst hb2. assert (h1 = h2) by congruence.
    repeat split; assumption.
  Qed.

  Lemma signed_bytes_inj h hseg p p' : Forall byte_ok p -> Forall byte_ok p' ->
    signed_bytes h hseg p = signed_bytes h hseg p' -> p = p'.
  Proof.
    intros B B'. unfold signed_bytes. destruct (h_b64 h) as [| | |[|]]; intro E; apply app_inv_head in E; inversion E as [E'];
      try (apply b64enc_inj; assumption); reflexivity.
  Qed.

  Lemma key_for_unique c h k k' : key_for c h k -> key_for c h k' -> k = k'.
  Proof.
    destruct c as [|k0| |a0 k0|k0]; cbn.
    - intros (_ & d & f & r & S & R) (_ & d' & f' & r' & S' & R'). rewrite S in S'. inversion S'; subst. congruence.
    - congruence.
    - intros [].
    - congruence.
    - intros [].
  Qed.

  (* attached payload, b64 not false: the signature covers exactly the first two received segments *)
  Lemma received_bytes_signed c tok h payload :
    accepted_facts c None tok h payload -> h_b64 h <> JB false ->
    exists hseg pseg sseg k p sg,
      tok = hseg ++ dot :: pseg ++ dot :: sseg /\ b64dec sseg = Some sg /\ key_for c h k /\ sig_meaning sg = SBy (pk_id k) p (hseg ++ dot :: pseg).
  Proof.
    intros (hs & ps & ss & hb & a & k & q & sg & T & _ & _ & _ & _ & _ & _ & _ & K & _ & DS & M & PR) NB.
    exists hs, ps, ss, k, q, sg. repeat split; try assumption.
    cbn in PR. destruct PR as [_ PR]. unfold signed_bytes in M.
    destruct (h_b64 h) as [| | |[|]]; try (rewrite PR in M; exact M). exfalso. apply NB. reflexivity.
  Qed.

  Lemma accepted_not_unsigned c det tok h payload :
    (forall k p m, sig_meaning [] <> SBy k p m) ->
    accepted_facts c det tok h payload ->
    h_alg h <> JS "none" /\ b64dec (nth 2 (split_dot tok) []) <> Some [].
  Proof.
    intros E (hs & ps & ss & hb & a & k & q & sg & T & _ & _ & _ & S & _ & _ & A & K & AS & DS & M & PR).
    split.
    - rewrite A. intro H. inversion H; subst. vm_compute in AS. discriminate.
    - rewrite S. cbn [nth]. rewrite DS. intro H. inversion H; subst. exact (E _ _ _ M).
  Qed.

  Lemma accepted_alg_matches_key c det tok h payload alg k :
    accepted_facts c det tok h payload -> h_alg h = JS alg -> key_for c h k ->
    exists p, alg_spec alg = Some (pk_fam k, p).
  Proof.
    intros (hs & ps & ss & hb & a & k' & q & sg & T & _ & _ & _ & S & _ & _ & A & K & AS & DS & M & PR) A' K'.
    rewrite A in A'. inversion A'; subst. rewrite (key_for_unique _ _ _ _ K' K). exists q. exact AS.
  Qed.

  Lemma same_sig_same_token_attached c1 c2 t1 t2 h1 h2 p1 p2 :
    accepted_facts c1 None t1 h1 p1 -> accepted_facts c2 None t2 h2 p2 ->
    (exists sg, b64dec (nth 2 (split_dot t1) []) = Some sg /\ b64dec (nth 2 (split_dot t2) []) = Some sg) ->
    nth 0 (split_dot t1) [] = nth 0 (split_dot t2) [] /\ nth 1 (split_dot t1) [] = nth 1 (split_dot t2) [] /\ p1 = p2.
  Proof.
    intros F1 F2 G. destruct (same_sig_same_input _ _ _ _ _ _ _ _ _ _ F1 F2 G) as (EH & Eh & EM).
    destruct F1 as (hs1 & ps1 & ss1 & hb1 & a1 & k1 & q1 & sg1 & _ & _ & _ & _ & S1 & _ & _ & _ & _ & _ & _ & _ & PR1).
    destruct F2 as (hs2 & ps2 & ss2 & hb2 & a2 & k2 & q2 & sg2 & _ & _ & _ & _ & S2 & _ & _ & _ & _ & _ & _ & _ & PR2).
    rewrite S1, S2 in *. cbn [nth] in *. subst hs2 h2. cbn in PR1, PR2. destruct PR1 as [D1 C1], PR2 as [D2 C2].
    assert (ps1 = ps2) as EP.
    { unfold signed_bytes in EM. destruct (h_b64 h1) as [| | |[|]]; apply app_inv_head in EM; inversion EM as [E']; congruence. }
    split; [reflexivity|]. split; [exact EP|]. rewrite EP in D1. rewrite D1 in D2. inversion D2. reflexivity.
  Qed.

  Lemma same_sig_same_detached c1 c2 b1 r1 b2 r2 t1 t2 h1 h2 p1 p2 :
    Forall byte_ok (b1 :: r1) -> Forall byte_ok (b2 :: r2) ->
    accepted_facts c1 (Some (b1 :: r1)) t1 h1 p1 -> accepted_facts c2 (Some (b2 :: r2)) t2 h2 p2 ->
    (exists sg, b64dec (nth 2 (split_dot t1) []) = Some sg /\ b64dec (nth 2 (split_dot t2) []) = Some sg) ->
    nth 0 (split_dot t1) [] = nth 0 (split_dot t2) [] /\ b1 :: r1 = b2 :: r2.
  Proof.
    intros B1 B2 F1 F2 G. destruct (same_sig_same_input _ _ _ _ _ _ _ _ _ _ F1 F2 G) as (EH & Eh & EM).
    destruct F1 as (hs1 & ps1 & ss1 & hb1 & a1 & k1 & q1 & sg1 & _ & _ & _ & _ & S1 & _ & _ & _ & _ & _ & _ & _ & PR1).
    destruct F2 as (hs2 & ps2 & ss2 & hb2 & a2 & k2 & q2 & sg2 & _ & _ & _ & _ & S2 & _ & _ & _ & _ & _ & _ & _ & PR2).
    rewrite S1, S2 in *. cbn [nth] in *. subst hs2 h2. cbn in PR1, PR2. subst p1 p2.
    split; [reflexivity|]. eapply signed_bytes_inj; eassumption.
  Qed.

  Lemma unsecured_inv h sg : verify_unsecured h sg = VOk -> h_alg h = JS "none" /\ sg = [].
  Proof.
    unfold verify_unsecured. destruct (h_alg h) as [| |a|]; try discriminate.
    destruct (String.eqb a "none") eqn:E; [|discriminate]. destruct sg; [|discriminate].
    intros _. apply String.eqb_eq in E. subst. split; reflexivity.
  Qed.

  (* ---------- jose.DefaultSigningInputVerifier ---------- *)
  Lemma default_accept_sound k det tok h payload :
    parse_jws Fixed (VDefault k) det tok = Accept h payload ->
    exists hseg pseg sseg hb p sg,
      split_dot tok = [hseg; pseg; sseg] /\ b64dec hseg = Some hb /\ parse_hdr hb = Some h /\
      default_proc (pk_fam k) = Some p /\ b64dec sseg = Some sg /\
      sig_meaning sg = SBy (pk_id k) p (signed_bytes h (b64enc (h_canon h)) payload) /\
      payload_received det pseg payload.
  Proof.
    unfold Model.parse_jws.
    destruct (starts_brace tok); [discriminate|].
    destruct (split_dot tok) as [|hseg [|pseg [|sseg [|x y]]]] eqn:S; try discriminate.
    destruct (b64dec hseg) as [hb|] eqn:DH; [|discriminate].
    destruct (parse_hdr hb) as [h'|] eqn:PH; [|discriminate].
    destruct (jv_absent (h_alg h')); [discriminate|].
    destruct (payload_of Fixed det pseg) as [pl|] eqn:PO; [|discriminate].
    destruct (signing_input h' hseg pl) as [msg|] eqn:SI; [|discriminate].
    destruct (b64dec sseg) as [sg|] eqn:DS; [|discriminate].
    cbn [Model.verify]. unfold verify_default.
    destruct (signing_input h' (b64enc (h_canon h')) pl) as [mc|] eqn:SC; [|discriminate].
    destruct (default_proc (pk_fam k)) as [p|] eqn:DP; [|discriminate].
    destruct (sig_meaning sg) as [kid p' m| |] eqn:SM; try discriminate.
    destruct ((kid =? pk_id k) && sproc_eqb p p' && leqb m mc) eqn:C; [|discriminate].
    intro H. inversion H; subst h' pl. clear H.
    apply andb_true_iff in C as [C C3]. apply andb_true_iff in C as [C1 C2].
    apply N.eqb_eq in C1. apply sproc_eqb_eq in C2. apply leqb_eq in C3. subst kid p' m.
    apply signing_input_inv in SC. subst mc. apply payload_of_inv in PO.
    exists hseg, pseg, sseg, hb, p, sg. repeat split; assumption.
  Qed.

  (* under the guard "the received header segment is the encoding of the re-marshalled header" the signature covers
     the received bytes *)
  Lemma default_received_when_canonical k tok h payload :
    parse_jws Fixed (VDefault k) None tok = Accept h payload ->
    b64enc (h_canon h) = nth 0 (split_dot tok) [] -> h_b64 h <> JB false ->
    exists p sg, b64dec (nth 2 (split_dot tok) []) = Some sg /\
      sig_meaning sg = SBy (pk_id k) p (nth 0 (split_dot tok) [] ++ dot :: nth 1 (split_dot tok) []).
  Proof.
    intros H CAN NB. apply default_accept_sound in H as (hs & ps & ss & hb & p & sg & S & _ & _ & _ & DS & M & PR).
    rewrite S in *. cbn [nth] in *. exists p, sg. split; [exact DS|].
    cbn in PR. destruct PR as [_ PR]. rewrite CAN in M. unfold signed_bytes in M.
    destruct (h_b64 h) as [| | |[|]]; try (rewrite PR in M; exact M). exfalso. apply NB. reflexivity.
  Qed.
End Sound.

(* didsignjwt.VerifyJWT / any verifier over the VDR resolver: an accepted token is signed, under its alg, by a key
   that the document of the kid's DID lists under a relationship other than keyAgreement, in a method whose id
   contains the kid's fragment *)
Lemma did_accept_signing_method ph ds sm tok det h payload :
  parse_jws ph (resolve_docs ds) sm Fixed VBasic det tok = Accept h payload ->
  exists d f rest ms m alg p sg,
    split_on "#" (kid_string h) = d :: f :: rest /\ find_doc ds d = Some ms /\ In m ms /\
    contains f (vm_id m) = true /\ vm_rel m <> RKeyAgr /\
    h_alg h = JS alg /\ alg_spec alg = Some (pk_fam (vm_key m), p) /\
    b64dec (nth 2 (split_dot tok) []) = Some sg /\
    sm sg = SBy (pk_id (vm_key m)) p (signed_bytes h (nth 0 (split_dot tok) []) payload).
Proof.
  intro H. apply jws_accept_sound in H; [|exact I].
  destruct H as (hs & ps & ss & hb & a & k & q & sg & T & _ & _ & _ & S & _ & _ & A & K & AS & DS & M & PR).
  cbn in K. destruct K as (_ & d & f & rest & SP & R).
  apply resolve_docs_sound in R as (ms & m & FD & I & EK & C & NK). subst k.
  exists d, f, rest, ms, m, a, q, sg. rewrite S. cbn [nth]. repeat split; assumption.
Qed.
