(* C08 — the generated tables (gen/Gen_C08.v, regenerated from /repo on every run by executing the verifiers) are
   EXACTLY the published meaning of the algorithm names, restricted to the registered algs: obligations that break
   when /repo registers an alg the model has no row for, drops one of the seven, or changes a key-type x alg cell. *)
From Coq Require Import List NArith String Ascii Bool Lia.
Import ListNotations.
From VF Require Import common.Base64 C08.Types gen.Gen_C08 C08.Model C08.Proofs.
Local Open Scope list_scope.
Local Open Scope string_scope.

Definition all_fams : list fam := [FEd25519; FP256; FP384; FP521; FSecp256k1; FRSA].
Definition all_reprs : list repr := [RJwk; RRaw].
(* the algorithms the property quantifies over *)
Definition property_algs : list string := ["EdDSA"; "ES256"; "ES384"; "ES521"; "ES256K"; "PS256"; "RS256"].

Lemma mem_str_In s l : mem_str s l = true <-> In s l.
Proof.
  induction l as [|x r IH]; cbn.
  - split; [discriminate|intros []].
  - rewrite orb_true_iff, IH, String.eqb_eq. split; intros [H|H]; auto.
Qed.

Lemma alg_spec_dom a x : alg_spec a = Some x -> In a property_algs.
Proof.
  unfold alg_spec, property_algs.
  destruct (String.eqb a "EdDSA") eqn:E1; [apply String.eqb_eq in E1; subst; intros _; cbn; auto 10|].
  destruct (String.eqb a "ES256") eqn:E2; [apply String.eqb_eq in E2; subst; intros _; cbn; auto 10|].
  destruct (String.eqb a "ES384") eqn:E3; [apply String.eqb_eq in E3; subst; intros _; cbn; auto 10|].
  destruct (String.eqb a "ES521") eqn:E4; [apply String.eqb_eq in E4; subst; intros _; cbn; auto 10|].
  destruct (String.eqb a "ES256K") eqn:E5; [apply String.eqb_eq in E5; subst; intros _; cbn; auto 10|].
  destruct (String.eqb a "PS256") eqn:E6; [apply String.eqb_eq in E6; subst; intros _; cbn; auto 10|].
  destruct (String.eqb a "RS256") eqn:E7; [apply String.eqb_eq in E7; subst; intros _; cbn; auto 10|].
  intro H; discriminate.
Qed.

Lemma property_algs_registered : forallb (fun a => mem_str a registered) property_algs = true.
Proof. vm_compute. reflexivity. Qed.

(* registered = the names with a published meaning: nothing else (none, HS256, "" ...), nothing missing *)
Lemma registered_exact a : mem_str a registered = true <-> alg_spec a <> None.
Proof.
  split.
  - intros H E. apply mem_str_In in H. pose proof registered_checked as C. rewrite forallb_forall in C.
    specialize (C a H). rewrite E in C. discriminate.
  - intro H. destruct (alg_spec a) as [x|] eqn:E; [|congruence]. apply alg_spec_dom in E.
    pose proof property_algs_registered as C. rewrite forallb_forall in C. exact (C a E).
Qed.

Lemma acc_algs_registered : forallb (fun e : string * fam * repr * sproc => let '(a, _, _, _) := e in mem_str a registered) acc = true.
Proof. vm_compute. reflexivity. Qed.

(* every registered alg has its row for BOTH key representations *)
Lemma acc_rows_complete :
  forallb (fun a => match alg_spec a with
                    | Some (f, p) => forallb (fun r => acc_mem acc a f r p) all_reprs
                    | None => false
                    end) registered = true.
Proof. vm_compute. reflexivity. Qed.

Lemma acc_mem_of_In t a f r p : In (a, f, r, p) t -> acc_mem t a f r p = true.
Proof.
  induction t as [|[[[a' f'] r'] p'] t IH]; cbn; [intros []|].
  intros [H|H].
  - inversion H; subst. rewrite String.eqb_refl.
    assert (F : fam_eqb f f = true) by (apply fam_eqb_eq; reflexivity).
    assert (R : repr_eqb r r = true) by (apply repr_eqb_eq; reflexivity).
    assert (P : sproc_eqb p p = true) by (apply sproc_eqb_eq; reflexivity).
    rewrite F, R, P. reflexivity.
  - rewrite (IH H). apply orb_true_r.
Qed.

(* THE ACCEPTANCE TABLE IS THE SPECIFICATION: a signature made with procedure p by a key of family f in
   representation r is accepted under alg a  iff  a is registered and the published meaning of a is (f, p) *)
Lemma acc_exact a f r p : acc_mem acc a f r p = true <-> (mem_str a registered = true /\ alg_spec a = Some (f, p)).
Proof.
  split.
  - intro H. apply acc_mem_In in H. split.
    + pose proof acc_algs_registered as C. rewrite forallb_forall in C. exact (C _ H).
    + apply acc_sound in H. exact H.
  - intros [R S]. apply mem_str_In in R. pose proof acc_rows_complete as C. rewrite forallb_forall in C.
    specialize (C a R). rewrite S in C. rewrite forallb_forall in C. apply C. destruct r; cbn; auto.
Qed.

(* GetVerifier: every JWK family is bound to an alg, and that alg means the family *)
Lemma single_total : forallb (fun f => match single_alg single f with
                                       | Some a => match alg_spec a with Some (f', _) => fam_eqb f f' | None => false end
                                       | None => false
                                       end) all_fams = true.
Proof. vm_compute. reflexivity. Qed.

Lemma single_exact f : exists a p, single_alg single f = Some a /\ alg_spec a = Some (f, p).
Proof.
  pose proof single_total as C. rewrite forallb_forall in C.
  assert (I : In f all_fams) by (destruct f; cbn; auto 10).
  specialize (C f I). destruct (single_alg single f) as [a|] eqn:E1; [|discriminate].
  destruct (alg_spec a) as [[f' p]|] eqn:E2; [|discriminate]. apply fam_eqb_eq in C. subst f'. exists a, p. split; [reflexivity|exact E2].
Qed.

(* ---- consequence for the model: the signature check of the alg verifiers, characterised exactly ---- *)
Lemma crypto_ok_exact sm alg k msg sg :
  crypto_ok sm Fixed alg k msg sg = true <->
  exists p, sm sg = SBy (pk_id k) p msg /\ alg_spec alg = Some (pk_fam k, p).
Proof.
  split; [apply crypto_ok_inv|].
  intros (p & S & A). unfold crypto_ok. rewrite S. rewrite N.eqb_refl. cbn [acc_of andb].
  assert (M : acc_mem acc alg (pk_fam k) (pk_repr k) p = true).
  { apply acc_exact. split; [|exact A]. apply registered_exact. rewrite A. discriminate. }
  rewrite M. cbn. apply leqb_eq. reflexivity.
Qed.

(* COMPLETENESS of jwt.NewVerifier (guard exactness of accept_sound): a token in compact form whose header decodes,
   names a string alg with a published meaning and a DID-URL kid that resolves to a key of the alg's family, and
   whose signature bytes are a signature by that key with the alg's procedure over the received header segment,
   '.', payload part, IS accepted.  Together with accept_sound: the model accepts exactly those tokens. *)
Lemma basic_accept_complete ph rs sm det tok hseg pseg sseg hb h payload alg d f rest k p sg :
  starts_brace tok = false -> split_dot tok = [hseg; pseg; sseg] ->
  b64dec hseg = Some hb -> ph hb = Some h -> h_alg h = JS alg ->
  payload_of Fixed det pseg = Some payload ->
  (h_b64 h = JAbsent \/ exists b, h_b64 h = JB b) ->
  String.prefix "did:" (kid_string h) = true -> split_on "#" (kid_string h) = d :: f :: rest -> rs d f = Some k ->
  alg_spec alg = Some (pk_fam k, p) ->
  b64dec sseg = Some sg -> sm sg = SBy (pk_id k) p (signed_bytes h hseg payload) ->
  parse_jws ph rs sm Fixed VBasic det tok = Accept h payload.
Proof.
  intros B S D P A PO B64 KP KS R AS SD SM.
  unfold parse_jws. rewrite B, S, D, P. rewrite A. cbn [jv_absent]. rewrite PO.
  assert (SI : signing_input h hseg payload = Some (signed_bytes h hseg payload)).
  { unfold signing_input, signed_bytes. destruct B64 as [E|[b E]]; rewrite E; [reflexivity|destruct b; reflexivity]. }
  rewrite SI, SD. cbn [verify]. unfold verify_basic. rewrite A.
  assert (RG : mem_str alg registered = true) by (apply registered_exact; rewrite AS; discriminate).
  rewrite RG, KP, KS, R. cbn [negb].
  assert (C : crypto_ok sm Fixed alg k (signed_bytes h hseg payload) sg = true).
  { apply crypto_ok_exact. exists p. split; assumption. }
  rewrite C. reflexivity.
Qed.
