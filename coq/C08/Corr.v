(* C08 — correspondence: the harness records, for a token / verifier configuration / resolver, what the real
   jose.ParseJWS, jwt.Parse and didsignjwt.VerifyJWT did; check_case runs the SAME parse_jws / parse_jwt the
   theorems are about, with the third-party parsers and the ideal signature instantiated from the case. *)
From Coq Require Import List NArith String Ascii Bool.
Import ListNotations.
From VF Require Export common.Base64 C08.Types gen.Gen_C08 C08.Model C08.HeaderJson.
Local Open Scope N_scope.

Inductive entry := EJws | EJwt (ignore_claims : bool).
Inductive obs := OAccept (payload : string) | OReject (st : stage) | OCrash.

Record case := {
  c_entry : entry;
  c_cfg : vcfg;
  c_det : option string;                       (* detached payload option *)
  c_tok : string;                              (* the token as received *)
  c_canon : string;                            (* base64url of what json.Marshal gave back for the decoded header map
                                                  (read by the DefaultSigningInputVerifier configuration only; the model's
                                                  own marshal must agree whenever the header carries no number) *)
  c_docs : list (string * list vmeth);         (* the DID documents the VDR serves (the one the kid names) *)
  c_sig0 : string;                             (* a signature segment whose meaning the harness knows ... *)
  c_sigv0 : sigv;                              (* ... and that meaning *)
  c_payobj : bool;                             (* what the real jwt.PayloadToMap said about the payload bytes: compared
                                                  with the model's claims_obj on every case *)
  c_obs : obs
}.

(* short constructor for the case files *)
Definition M (id : string) (r : rel) (f : fam) (p : repr) (n : N) : vmeth :=
  {| vm_id := id; vm_rel := r; vm_key := {| pk_fam := f; pk_repr := p; pk_id := n |} |}.

Definition case_sig_meaning (c : case) (bs : list N) : sigv :=
  match bs with
  | [] => SEmpty
  | _ => match b64dec (chars (c_sig0 c)) with
         | Some b0 => if leqb bs b0 then c_sigv0 c else SOther
         | None => SOther
         end
  end.

(* the header bytes are decoded by the MODEL (hdr_json: scanner, unquote, duplicate members, number range) *)
Definition case_canon (c : case) : list N :=
  match b64dec (chars (c_canon c)) with Some b => b | None => [] end.

(* the model's json.Marshal of the decoded header (None when it carries a number or is not an object) *)
Definition model_canon (tok : list N) : option (list N) :=
  match split_dot tok with
  | [hseg; _; _] =>
      match b64dec hseg with
      | Some hb => match parse_json hb with Some (VObj m) => marshal (VObj m) | _ => None end
      | None => None
      end
  | _ => None
  end.

(* the payload bytes jwt.Parse would hand to PayloadToMap: the detached payload when one is given, otherwise the
   (leniently) decoded middle segment *)
Definition case_payload (c : case) : option (list N) :=
  match c_det c with
  | Some (String a r) => Some (chars (String a r))
  | _ => match split_dot (chars (c_tok c)) with
         | [_; pseg; _] => b64dec pseg
         | _ => None
         end
  end.

Definition stage_eqb (a b : stage) : bool :=
  match a, b with
  | StSplit, StSplit | StHdr, StHdr | StPay, StPay | StSigIn, StSigIn | StSigDec, StSigDec
  | StVerif, StVerif | StJwtHdr, StJwtHdr | StClaims, StClaims => true
  | _, _ => false
  end.

Definition run_case (v : variant) (c : case) : out :=
  let ph := hdr_json (fun _ => case_canon c) in
  let rs := resolve_docs (c_docs c) in
  let sm := case_sig_meaning c in
  let det := option_map chars (c_det c) in
  match c_entry c with
  | EJws => parse_jws ph rs sm v (c_cfg c) det (chars (c_tok c))
  | EJwt ig => parse_jwt ph rs sm claims_obj v (c_cfg c) ig det (chars (c_tok c))
  end.

Definition check_case (c : case) : bool :=
  (match run_case Fixed c, c_obs c with
   | Accept _ p, OAccept p' => leqb p (chars p')
   | Reject s, OReject s' => stage_eqb s s'
   | Crash, OCrash => true
   | _, _ => false
   end)
  && (* re-marshalled header: the model's marshal equals the real encoder's output; the harness sends "" when the
        real decoder rejected the header, and then the model must not have decoded an object either *)
     (match model_canon (chars (c_tok c)) with
      | Some m => leqb m (case_canon c)
      | None => true
      end)
  && (* claims decoding: the model's claims_obj on the payload bytes equals the real PayloadToMap's verdict *)
     (match case_payload c with
      | Some p => Bool.eqb (claims_obj p) (c_payobj c)
      | None => true
      end).

Fixpoint mismatches_from (i : nat) (cs : list case) : list nat :=
  match cs with
  | [] => []
  | c :: r => if check_case c then mismatches_from (S i) r else i :: mismatches_from (S i) r
  end.
Definition mismatches := mismatches_from 0.
