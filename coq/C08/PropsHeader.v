(* C08 — property theorems about the JSON-level header decoder, the exactness of the generated alg tables and the
   completeness of the basic verifier.  Every proof is `exact <lemma>`; Print Assumptions follows each.
   hdr_json (C08/HeaderJson.v) is the model of json.Unmarshal(headerBytes, &jose.Headers) + the member reads of the
   verifiers; the correspondence runs it on the header bytes of every case (the harness no longer hands the decoded
   header to the model). *)
From Coq Require Import List NArith ZArith String Ascii Bool.
Import ListNotations.
From VF Require Import common.Base64 C08.Types gen.Gen_C08 C08.Model C08.Proofs C08.HeaderJson C08.HeaderProofs C08.TableProofs.
Local Open Scope N_scope.
Local Open Scope list_scope.

(* FULL.  acceptance with the header decoded by the model: the header bytes are a JSON object without duplicate
   member names (names compared after unquoting), THE member named exactly "alg" is a string with a published
   meaning, that meaning is (family of the key the kid resolves to, procedure p), and the signature bytes are a
   signature by that key with that procedure over the received header segment, '.', payload part. *)
Theorem accept_sound_json : forall canon rs sm c det tok h payload,
  sig_checking c ->
  parse_jws (hdr_json canon) rs sm Fixed c det tok = Accept h payload ->
  exists hseg pseg sseg hb m alg k p sg,
    split_dot tok = [hseg; pseg; sseg] /\ b64dec hseg = Some hb /\
    parse_json hb = Some (VObj m) /\ NoDup (map fst m) /\ h = hdr_view (canon hb) m /\
    the_member m "alg" (VStr alg) /\
    key_for rs c h k /\ alg_spec alg = Some (pk_fam k, p) /\
    b64dec sseg = Some sg /\ sm sg = SBy (pk_id k) p (signed_bytes h hseg payload) /\
    payload_received det pseg payload.
Proof. exact json_accept_sound. Qed.
Print Assumptions accept_sound_json.

(* duplicate members: whatever the decoder returns as an object has pairwise different member names *)
Theorem header_members_unique : forall bs m, parse_json bs = Some (VObj m) -> NoDup (map fst m).
Proof. exact parse_json_obj_nodup. Qed.
Print Assumptions header_members_unique.

(* case variants / look-alikes: without a member named exactly "alg" the token is rejected before any verifier *)
Theorem alg_member_name_exact : forall canon rs sm v c det tok hseg pseg sseg hb m,
  starts_brace tok = false -> split_dot tok = [hseg; pseg; sseg] -> b64dec hseg = Some hb ->
  parse_json hb = Some (VObj m) -> ~ In "alg"%string (map fst m) ->
  parse_jws (hdr_json canon) rs sm v c det tok = Reject StHdr.
Proof. exact no_alg_member_rejected. Qed.
Print Assumptions alg_member_name_exact.

(* header bytes that are not a JSON object acceptable to the decoder (syntax, duplicate member, number out of the
   float64 range, top-level array/string/number/bool/null) are rejected at the header stage *)
Theorem undecodable_header_is_rejected : forall canon rs sm v c det tok hseg pseg sseg hb,
  starts_brace tok = false -> split_dot tok = [hseg; pseg; sseg] -> b64dec hseg = Some hb ->
  (forall m, parse_json hb <> Some (VObj m)) ->
  parse_jws (hdr_json canon) rs sm v c det tok = Reject StHdr.
Proof. exact undecodable_header_rejected. Qed.
Print Assumptions undecodable_header_is_rejected.

(* crit, jwk, jku, x5c, x5u ... : no member other than alg, kid, b64, typ, cty has any influence on the verdict
   (in particular a key embedded in the header is never the verification key) *)
Theorem unread_members_ignored : forall c m1 m2,
  (forall k, In k read_members -> jlookup m1 k = jlookup m2 k) -> hdr_view c m1 = hdr_view c m2.
Proof. exact hdr_view_ext. Qed.
Print Assumptions unread_members_ignored.

(* jose.DefaultSigningInputVerifier with decoding AND re-marshalling inside the model *)
Theorem default_verifier_accept_sound_json : forall rs sm k det tok h payload,
  parse_jws (hdr_json canon_model) rs sm Fixed (VDefault k) det tok = Accept h payload ->
  exists hseg pseg sseg hb m p sg,
    split_dot tok = [hseg; pseg; sseg] /\ b64dec hseg = Some hb /\
    parse_json hb = Some (VObj m) /\ NoDup (map fst m) /\ h = hdr_view (canon_model hb) m /\
    default_proc (pk_fam k) = Some p /\ b64dec sseg = Some sg /\
    sm sg = SBy (pk_id k) p (signed_bytes h (b64enc (canon_model hb)) payload) /\
    payload_received det pseg payload.
Proof. exact default_json_accept_sound. Qed.
Print Assumptions default_verifier_accept_sound_json.

(* THE GENERATED TABLES ARE EXACTLY THE SPECIFICATION (re-proved about the regenerated file on every run). *)
Theorem alg_table_exact : forall a f r p,
  acc_mem acc a f r p = true <-> (mem_str a registered = true /\ alg_spec a = Some (f, p)).
Proof. exact acc_exact. Qed.
Print Assumptions alg_table_exact.

Theorem registered_algs_exact : forall a, mem_str a registered = true <-> alg_spec a <> None.
Proof. exact registered_exact. Qed.
Print Assumptions registered_algs_exact.

Theorem property_algs_all_registered : forallb (fun a => mem_str a registered) property_algs = true.
Proof. exact property_algs_registered. Qed.
Print Assumptions property_algs_all_registered.

Theorem single_table_exact : forall f, exists a p, single_alg single f = Some a /\ alg_spec a = Some (f, p).
Proof. exact single_exact. Qed.
Print Assumptions single_table_exact.

(* the signature check of every alg verifier, characterised exactly (both key representations) *)
Theorem signature_check_exact : forall sm alg k msg sg,
  crypto_ok sm Fixed alg k msg sg = true <->
  exists p, sm sg = SBy (pk_id k) p msg /\ alg_spec alg = Some (pk_fam k, p).
Proof. exact crypto_ok_exact. Qed.
Print Assumptions signature_check_exact.

(* COMPLETENESS (converse of accept_sound for jwt.NewVerifier): exactly the validly signed tokens are accepted *)
Theorem accept_complete : forall ph rs sm det tok hseg pseg sseg hb h payload alg d f rest k p sg,
  starts_brace tok = false -> split_dot tok = [hseg; pseg; sseg] ->
  b64dec hseg = Some hb -> ph hb = Some h -> h_alg h = JS alg ->
  payload_of Fixed det pseg = Some payload ->
  (h_b64 h = JAbsent \/ exists b, h_b64 h = JB b) ->
  String.prefix "did:" (kid_string h) = true -> split_on "#" (kid_string h) = d :: f :: rest -> rs d f = Some k ->
  alg_spec alg = Some (pk_fam k, p) ->
  b64dec sseg = Some sg -> sm sg = SBy (pk_id k) p (signed_bytes h hseg payload) ->
  parse_jws ph rs sm Fixed VBasic det tok = Accept h payload.
Proof. exact basic_accept_complete. Qed.
Print Assumptions accept_complete.

(* ---------- witnesses and non-vacuity: real header BYTES through the model's decoder ---------- *)
Definition hj (s : string) : option hview := hdr_json canon_model (chars s).
Definition jtok (hdr pay sig : string) : list N := b64enc (chars hdr) ++ dot :: chars pay ++ dot :: chars sig.
Definition jsm (k : N) (p : sproc) (hdr pay : string) : list N -> sigv :=
  fun bs => match bs with [] => SEmpty | _ => SBy k p (b64enc (chars hdr) ++ dot :: chars pay) end.

Example json_decoder_behaviour :
  (* an ordinary header *)
  (exists c, hj "{""alg"":""ES256"", ""kid"" : ""did:x#k"",""b64"":false}"
             = Some {| h_alg := JS "ES256"; h_kid := JS "did:x#k"; h_b64 := JB false; h_typ := JAbsent; h_cty := JAbsent; h_canon := c |}) /\
  (* duplicate members, also when one of the names is written with an escape *)
  hj "{""alg"":""none"",""alg"":""ES256""}" = None /\
  hj "{""alg"":""ES256"",""alg"":""none""}" = None /\
  hj "{""alg"":""ES256"",""x"":{""a"":1,""a"":2}}" = None /\
  (* an escaped member name IS the member; an escaped value is the value *)
  option_map h_alg (hj "{""alg"":""EdDSA""}") = Some (JS "EdDSA") /\
  (* case variants are other members *)
  option_map h_alg (hj "{""ALG"":""ES256"",""Alg"":""ES256""}") = Some JAbsent /\
  (* wrong types *)
  option_map h_alg (hj "{""alg"":null}") = Some JOther /\
  option_map h_alg (hj "{""alg"":[""ES256""]}") = Some JOther /\
  option_map h_alg (hj "{""alg"":{""x"":""ES256""}}") = Some JOther /\
  option_map h_b64 (hj "{""alg"":""ES256"",""b64"":""false""}") = Some (JS "false") /\
  option_map h_b64 (hj "{""alg"":""ES256"",""b64"":0}") = Some JOther /\
  (* numbers: grammar and float64 range *)
  hj "{""alg"":""ES256"",""exp"":1e309}" = None /\ hj "{""alg"":""ES256"",""exp"":01}" = None /\
  hj "{""alg"":""ES256"",""exp"":1.7976931348623158e308}" <> None /\ hj "{""alg"":""ES256"",""exp"":-0.0e-999999999999}" <> None /\
  (* not an object, trailing bytes, single quotes, trailing comma, control byte in a string *)
  hj "null" = None /\ hj "[]" = None /\ hj """x""" = None /\ hj "{""alg"":""ES256""} x" = None /\
  hj "{'alg':'ES256'}" = None /\ hj "{""alg"":""ES256"",}" = None /\ hj "" = None /\
  hdr_json canon_model (chars "{""alg"":""ES" ++ [10] ++ chars "256""}") = None /\
  (* white space around every token is insignificant *)
  option_map h_alg (hdr_json canon_model ([32; 10] ++ chars "{ ""alg""" ++ [9] ++ chars ": ""ES256"" }" ++ [13; 10])) = Some (JS "ES256") /\
  (* a lone surrogate becomes U+FFFD and does not swallow what follows; invalid UTF-8 is coerced byte by byte *)
  option_map h_kid (hj "{""alg"":""x"",""kid"":""\ud800A""}") = Some (JS (str_of [239; 191; 189; 65])) /\
  option_map h_kid (hj "{""alg"":""x"",""kid"":""😀""}") = Some (JS (str_of [240; 159; 152; 128])) /\
  option_map h_kid (hdr_json canon_model (chars "{""alg"":""x"",""kid"":""" ++ [255; 226; 130] ++ chars """}"))
    = Some (JS (str_of [239; 191; 189; 239; 191; 189; 239; 191; 189])).
Proof. vm_compute. repeat split; try discriminate; try reflexivity. eexists; reflexivity. Qed.

(* the re-marshalled header: members sorted, no spacing, HTML-safe escapes *)
Example marshal_behaviour :
  option_map (fun h => str_of (h_canon h)) (hj "{ ""kid"" : ""a<b&c"", ""alg"":""ES256"",""b64"":true,""crit"":[""b64""],""x"":null }")
  = Some "{""alg"":""ES256"",""b64"":true,""crit"":[""b64""],""kid"":""a\u003cb\u0026c"",""x"":null}"%string.
Proof. vm_compute. reflexivity. Qed.

(* end to end with header bytes decoded by the model: accepted; the same token with a duplicate alg member, with
   the member renamed "ALG", or with the attacker's key embedded as jwk/crit members (and then not signed over) is
   rejected; a `crit` member the signer did sign is ignored *)
Example accept_json_nonvacuous :
  let hdr := "{""alg"":""ES256"",""kid"":""did:x#k""}"%string in
  let hcrit := "{""alg"":""ES256"",""kid"":""did:x#k"",""crit"":[""exp""],""exp"":1}"%string in
  let k := {| pk_fam := FP256; pk_repr := RJwk; pk_id := 1 |} in
  let rs := fun _ _ : string => Some k in
  (exists h, parse_jws (hdr_json canon_model) rs (jsm 1 (PEc H256) hdr "QQ") Fixed VBasic None (jtok hdr "QQ" "QQ") = Accept h [65]) /\
  (exists h, parse_jws (hdr_json canon_model) rs (jsm 1 (PEc H256) hcrit "QQ") Fixed VBasic None (jtok hcrit "QQ" "QQ") = Accept h [65]) /\
  parse_jws (hdr_json canon_model) rs (jsm 1 (PEc H256) hdr "QQ") Fixed VBasic None
            (jtok "{""alg"":""ES256"",""alg"":""ES256"",""kid"":""did:x#k""}" "QQ" "QQ") = Reject StHdr /\
  parse_jws (hdr_json canon_model) rs (jsm 1 (PEc H256) hdr "QQ") Fixed VBasic None
            (jtok "{""ALG"":""ES256"",""kid"":""did:x#k""}" "QQ" "QQ") = Reject StHdr /\
  parse_jws (hdr_json canon_model) rs (jsm 1 (PEc H256) hdr "QQ") Fixed VBasic None
            (jtok "{""alg"":""ES256"",""kid"":""did:x#k"",""jwk"":{""kty"":""EC""}}" "QQ" "QQ") = Reject StVerif /\
  sig_checking VBasic.
Proof. vm_compute. repeat split; try (eexists; reflexivity). Qed.

(* CLAIMS DECODING inside the model: jwt.Parse with claims decoding accepts only when the payload bytes start with
   ONE JSON value that is an object without duplicate member names (numbers of any magnitude; whatever follows the
   closing brace is not looked at) or the literal null *)
Theorem jwt_accept_claims_decoded : forall ph rs sm c det tok h payload,
  parse_jwt ph rs sm claims_obj Fixed c false det tok = Accept h payload ->
  (exists m r, pval false (S (S (List.length payload))) payload = Some (VObj m, r) /\ NoDup (map fst m)) \/
  (exists r, pval false (S (S (List.length payload))) payload = Some (VNull, r)).
Proof. exact (fun ph rs sm c det tok h payload H => claims_obj_sound payload (jwt_accept_claims ph rs sm c det tok h payload H)). Qed.
Print Assumptions jwt_accept_claims_decoded.

Example claims_decoder_behaviour :
  claims_obj (chars "{""iss"":""a"",""exp"":1e999}") = true /\ claims_obj (chars "{""iss"":""a""}xyz") = true /\
  claims_obj (chars "null") = true /\ claims_obj (chars "null ") = true /\ claims_obj (chars "nullx") = true /\ claims_obj (chars "nul") = false /\
  claims_obj (chars "{""iss"":""a"",""iss"":""b""}") = false /\ claims_obj (chars "[1]") = false /\
  claims_obj (chars "") = false /\ claims_obj (chars "{""exp"":01}") = false /\
  (* the header decoder converts numbers, the claims decoder does not *)
  parse_json (chars "{""exp"":1e999}") = None.
Proof. vm_compute. repeat split. Qed.
