(* C08 — the guard of default_verifier_header_exact_partial is EXACT: outside it the exact-header statement really
   fails (a second token with another header segment and the same signature is accepted too). *)
From Coq Require Import List NArith String Ascii Bool Lia ZifyN ZifyBool.
Import ListNotations.
From VF Require Import common.Base64 C08.Types gen.Gen_C08 C08.Model C08.Proofs.
Local Open Scope N_scope.
Local Open Scope list_scope.

Lemma split_dot_single c : ~ In dot c -> split_dot c = [c].
Proof.
  induction c as [|x c IH]; cbn; intro H; [reflexivity|].
  destruct (x =? dot) eqn:E.
  - apply N.eqb_eq in E. exfalso. apply H. left. exact E.
  - rewrite IH; [reflexivity|]. intro I. apply H. right. exact I.
Qed.

Lemma split_dot_app a r : ~ In dot a -> split_dot (a ++ dot :: r) = a :: split_dot r.
Proof.
  induction a as [|x a IH]; cbn [app split_dot]; intro H.
  - rewrite N.eqb_refl. reflexivity.
  - destruct (x =? dot) eqn:E.
    + apply N.eqb_eq in E. exfalso. apply H. left. exact E.
    + rewrite IH; [reflexivity|]. intro I. apply H. right. exact I.
Qed.

Lemma split_dot_three a b c : ~ In dot a -> ~ In dot b -> ~ In dot c ->
  split_dot (a ++ dot :: b ++ dot :: c) = [a; b; c].
Proof.
  intros Ha Hb Hc. rewrite split_dot_app by exact Ha. rewrite split_dot_app by exact Hb.
  rewrite split_dot_single by exact Hc. reflexivity.
Qed.

(* characters of the base64url alphabet: never '.', '{', line breaks *)
Lemma char_of_sext_range s : s < 64 ->
  let c := char_of_sext s in c <> dot /\ c <> 123 /\ is_nl c = false.
Proof.
  intro H. unfold char_of_sext, dot, is_nl.
  destruct (s <? 26) eqn:E1; [repeat split; lia|].
  destruct (s <? 52) eqn:E2; [repeat split; lia|].
  destruct (s <? 62) eqn:E3; [repeat split; lia|].
  destruct (s =? 62) eqn:E4; repeat split; lia.
Qed.

Lemma b64enc_nodot bs : Forall byte_ok bs -> ~ In dot (b64enc bs).
Proof.
  intros H I. unfold b64enc in I. apply in_map_iff in I as (s & E & I).
  pose proof (encode_sext bs H) as S. rewrite Forall_forall in S. specialize (S s I).
  destruct (char_of_sext_range s S) as (A & _ & _). apply A. exact E.
Qed.

Lemma b64enc_nobrace bs : Forall byte_ok bs -> starts_brace (b64enc bs ++ dot :: nil) = false.
Proof.
  intro H. unfold b64enc. pose proof (encode_sext bs H) as S.
  destruct (encode bs) as [|s r]; [reflexivity|]. cbn. inversion S; subst.
  destruct (char_of_sext_range s H2) as (_ & B & _). apply N.eqb_neq. exact B.
Qed.

Lemma sexts_chars ss : Forall sext_ok ss -> sexts (map char_of_sext ss) = Some ss.
Proof.
  induction ss as [|s ss IH]; intro H; [reflexivity|]. inversion H; subst. cbn [map sexts].
  destruct (char_of_sext_range s H2) as (_ & _ & NL). rewrite NL.
  rewrite (sext_char s H2). rewrite (IH H3). reflexivity.
Qed.

Lemma b64dec_b64enc bs : Forall byte_ok bs -> b64dec (b64enc bs) = Some bs.
Proof.
  intro H. unfold b64dec, b64enc. rewrite sexts_chars by (apply encode_sext; exact H).
  apply decode_encode. exact H.
Qed.

Lemma starts_brace_app a r : a <> [] -> starts_brace (a ++ r) = starts_brace a.
Proof. destruct a; [congruence|reflexivity]. Qed.

Section Guard.
  Variable ph : list N -> option hview.
  Variable rs : string -> string -> option pkey.
  Variable sm : list N -> sigv.

  (* GUARD EXACTNESS.  A token accepted through jose.DefaultSigningInputVerifier whose received header segment is NOT
     the encoding of the re-marshalled header has a sibling: the token with the re-marshalled header in its place and
     the SAME payload and signature segments is accepted as well, and its header segment differs.  So the class
     excluded by the guard of default_verifier_header_exact_partial is exactly where header exactness fails.
     (ph (h_canon h) = Some h: decoding the re-marshalled bytes gives the same header, as it does for the real
     decoder/encoder pair.) *)
  Lemma default_guard_exact k tok h payload hseg pseg sseg :
    split_dot tok = [hseg; pseg; sseg] ->
    parse_jws ph rs sm Fixed (VDefault k) None tok = Accept h payload ->
    Forall byte_ok (h_canon h) -> ph (h_canon h) = Some h ->
    b64enc (h_canon h) <> hseg ->
    let tok' := b64enc (h_canon h) ++ dot :: pseg ++ dot :: sseg in
    parse_jws ph rs sm Fixed (VDefault k) None tok' = Accept h payload /\
    nth 0 (split_dot tok') [] <> nth 0 (split_dot tok) [] /\
    nth 1 (split_dot tok') [] = nth 1 (split_dot tok) [] /\ nth 2 (split_dot tok') [] = nth 2 (split_dot tok) [].
  Proof.
    intros S A BO PH NE tok'.
    pose proof (split_dot_nodot tok) as ND. rewrite S in ND.
    inversion ND as [|? ? N1 ND1]; subst. inversion ND1 as [|? ? N2 ND2]; subst. inversion ND2 as [|? ? N3 _]; subst.
    assert (S' : split_dot tok' = [b64enc (h_canon h); pseg; sseg]).
    { apply split_dot_three; [apply b64enc_nodot; exact BO|exact N2|exact N3]. }
    split; [|rewrite S', S; cbn [nth]; repeat split; exact NE].
    (* replay the acceptance of tok on tok' *)
    revert A. unfold parse_jws. rewrite S, S'.
    assert (B' : starts_brace tok' = false).
    { unfold tok'. destruct (b64enc (h_canon h)) as [|c r] eqn:E; [reflexivity|].
      pose proof (b64enc_nobrace (h_canon h) BO) as X. rewrite E in X. exact X. }
    rewrite B'. destruct (starts_brace tok); [discriminate|].
    rewrite (b64dec_b64enc _ BO), PH.
    destruct (b64dec hseg) as [hb|]; [|discriminate].
    destruct (ph hb) as [h0|] eqn:P0; [|discriminate].
    destruct (jv_absent (h_alg h0)) eqn:JA; [discriminate|].
    destruct (payload_of Fixed None pseg) as [pl|] eqn:PO; [|discriminate].
    destruct (signing_input h0 hseg pl) as [msg|] eqn:SI; [|discriminate].
    destruct (b64dec sseg) as [sg|] eqn:DS; [|discriminate].
    cbn [verify].
    destruct (verify_default sm k (signing_input h0 (b64enc (h_canon h0)) pl) sg) eqn:V; try discriminate.
    intro A. inversion A; subst h0 pl. rewrite JA.
    assert (SI' : exists m', signing_input h (b64enc (h_canon h)) payload = Some m').
    { unfold signing_input in *. destruct (h_b64 h) as [| | |[|]]; try discriminate; eexists; reflexivity. }
    destruct SI' as (m' & SI'). rewrite SI'. cbn [verify]. rewrite SI' in V. rewrite V. reflexivity.
  Qed.
End Guard.
