(* C08 — lemmas about the JSON-level header decoder (C08/HeaderJson.v) and the acceptance theorem specialised to it. *)
From Coq Require Import List NArith ZArith String Ascii Bool Lia.
Import ListNotations.
From VF Require Import common.Base64 C08.Types gen.Gen_C08 C08.Model C08.HeaderJson C08.Proofs.
Local Open Scope N_scope.
Local Open Scope list_scope.

Lemma key_in_spec k m : key_in k m = true <-> In k (map fst m).
Proof.
  induction m as [|[k' v] r IH]; cbn.
  - split; [discriminate|intros []].
  - rewrite orb_true_iff, IH, String.eqb_eq. split; intros [H|H]; auto.
Qed.

Lemma nodup_keys_sound m : nodup_keys m = true -> NoDup (map fst m).
Proof.
  induction m as [|[k v] r IH]; cbn; intro H.
  - constructor.
  - apply andb_true_iff in H as [H1 H2]. constructor.
    + intro I. apply key_in_spec in I. rewrite I in H1. discriminate.
    + apply IH, H2.
Qed.

Lemma nodup_keys_complete m : NoDup (map fst m) -> nodup_keys m = true.
Proof.
  induction m as [|[k v] r IH]; cbn; intro H; [reflexivity|].
  inversion H as [|? ? NI ND]; subst. apply andb_true_iff. split.
  - destruct (key_in k r) eqn:E; [|reflexivity]. apply key_in_spec in E. contradiction.
  - apply IH, ND.
Qed.

(* an object that comes out of the decoder has pairwise different member names (compared AFTER unquoting) *)
Lemma pval_obj_nodup rc n cs m r : pval rc n cs = Some (VObj m, r) -> nodup_keys m = true.
Proof.
  destruct n as [|n']; [discriminate|]. cbn [pval].
  repeat match goal with
         | |- context [match ?x with _ => _ end] => destruct x eqn:?
         end; intro H; inversion H; subst; try reflexivity; assumption.
Qed.

Lemma parse_json_obj_nodup bs m : parse_json bs = Some (VObj m) -> NoDup (map fst m).
Proof.
  unfold parse_json. destruct (pval true (S (S (List.length bs))) bs) as [[v r]|] eqn:E; [|discriminate].
  destruct (skip_ws r); [|discriminate]. intro H. inversion H; subst.
  apply nodup_keys_sound. eapply pval_obj_nodup. exact E.
Qed.

Lemma jlookup_In m k v : jlookup m k = Some v -> In (k, v) m.
Proof.
  induction m as [|[k' v'] r IH]; cbn; [discriminate|].
  destruct (String.eqb k k') eqn:E.
  - apply String.eqb_eq in E. subst. intro H. inversion H. left. reflexivity.
  - intro H. right. apply IH, H.
Qed.

Lemma jlookup_unique m k v : NoDup (map fst m) -> In (k, v) m -> jlookup m k = Some v.
Proof.
  induction m as [|[k' v'] r IH]; cbn; intros ND I; [destruct I|].
  inversion ND as [|? ? NI ND']; subst. destruct I as [I|I].
  - inversion I; subst. rewrite String.eqb_refl. reflexivity.
  - destruct (String.eqb k k') eqn:E.
    + apply String.eqb_eq in E. subst. exfalso. apply NI. apply (in_map fst) in I. exact I.
    + apply IH; assumption.
Qed.

Lemma jlookup_none m k : jlookup m k = None <-> ~ In k (map fst m).
Proof.
  induction m as [|[k' v'] r IH]; cbn.
  - split; [intros _ []|reflexivity].
  - destruct (String.eqb k k') eqn:E.
    + apply String.eqb_eq in E. subst. split; [discriminate|]. intro H. exfalso. apply H. left. reflexivity.
    + rewrite IH. apply String.eqb_neq in E. split.
      * intros H [H'|H']; [apply E; symmetry; exact H'|exact (H H')].
      * intros H H'. apply H. right. exact H'.
Qed.

Lemma hdr_json_sound canon hb h : hdr_json canon hb = Some h ->
  exists m, parse_json hb = Some (VObj m) /\ NoDup (map fst m) /\ h = hdr_view (canon hb) m.
Proof.
  unfold hdr_json. destruct (parse_json hb) as [[| | | | |m]|] eqn:E; try discriminate.
  intro H. inversion H. exists m. repeat split. apply (parse_json_obj_nodup hb). exact E.
Qed.

Lemma jv_of_str o s : jv_of o = JS s -> o = Some (VStr s).
Proof. destruct o as [[| | | | |]|]; cbn; intro H; try discriminate. inversion H. reflexivity. Qed.
Lemma jv_of_bool o b : jv_of o = JB b -> o = Some (VBool b).
Proof. destruct o as [[| | | | |]|]; cbn; intro H; try discriminate. inversion H. reflexivity. Qed.
Lemma jv_of_absent o : jv_of o = JAbsent -> o = None.
Proof. destruct o as [[| | | | |]|]; cbn; intro H; try discriminate. reflexivity. Qed.

(* THE member of a duplicate-free object named exactly k *)
Definition the_member (m : list (string * jval)) (k : string) (v : jval) : Prop :=
  In (k, v) m /\ forall v', In (k, v') m -> v' = v.

Lemma the_member_of_lookup m k v : NoDup (map fst m) -> jlookup m k = Some v -> the_member m k v.
Proof.
  intros ND L. split; [apply jlookup_In, L|]. intros v' I.
  apply (jlookup_unique m k v' ND) in I. rewrite L in I. inversion I. reflexivity.
Qed.

(* the members the verifiers read; nothing else of the header (crit, jwk, jku, x5c, x5u, ...) has any influence *)
Definition read_members : list string := ["alg"; "kid"; "b64"; "typ"; "cty"]%string.
Lemma hdr_view_ext c m1 m2 :
  (forall k, In k read_members -> jlookup m1 k = jlookup m2 k) -> hdr_view c m1 = hdr_view c m2.
Proof.
  intro H. unfold hdr_view.
  rewrite (H "alg"%string), (H "kid"%string), (H "b64"%string), (H "typ"%string), (H "cty"%string);
    [reflexivity| | | | |]; cbn; auto 10.
Qed.

(* acceptance, with the header decoded by the model's JSON decoder *)
Definition json_accepted_facts (canon : list N -> list N) (rs : string -> string -> option pkey) (sm : list N -> sigv)
           (c : vcfg) (det : option (list N)) (tok : list N) (h : hview) (payload : list N) : Prop :=
  exists hseg pseg sseg hb m alg k p sg,
    split_dot tok = [hseg; pseg; sseg] /\ b64dec hseg = Some hb /\
    parse_json hb = Some (VObj m) /\ NoDup (map fst m) /\ h = hdr_view (canon hb) m /\
    the_member m "alg" (VStr alg) /\
    key_for rs c h k /\ alg_spec alg = Some (pk_fam k, p) /\
    b64dec sseg = Some sg /\ sm sg = SBy (pk_id k) p (signed_bytes h hseg payload) /\
    payload_received det pseg payload.

Lemma json_accept_sound canon rs sm c det tok h payload :
  sig_checking c ->
  parse_jws (hdr_json canon) rs sm Fixed c det tok = Accept h payload ->
  json_accepted_facts canon rs sm c det tok h payload.
Proof.
  intros SC H. apply (jws_accept_sound _ rs sm c det tok h payload SC) in H.
  destruct H as (hseg & pseg & sseg & hb & alg & k & p & sg & E1 & N1 & N2 & N3 & E2 & E3 & E4 & E5 & E6 & E7 & E8 & E9 & E10).
  apply hdr_json_sound in E4 as (m & P & ND & HV).
  exists hseg, pseg, sseg, hb, m, alg, k, p, sg. repeat split; try assumption.
  - apply jlookup_In. subst h. cbn in E5. apply jv_of_str in E5. exact E5.
  - intros v' I. subst h. cbn in E5. apply jv_of_str in E5.
    apply (jlookup_unique m _ v' ND) in I. rewrite E5 in I. inversion I. reflexivity.
Qed.

(* a header without a member named exactly "alg" (e.g. only "ALG" or "Alg") is rejected before any verifier runs *)
Lemma no_alg_member_rejected canon rs sm v c det tok hseg pseg sseg hb m :
  starts_brace tok = false -> split_dot tok = [hseg; pseg; sseg] -> b64dec hseg = Some hb ->
  parse_json hb = Some (VObj m) -> ~ In "alg"%string (map fst m) ->
  parse_jws (hdr_json canon) rs sm v c det tok = Reject StHdr.
Proof.
  intros B S D P NI. unfold parse_jws. rewrite B, S, D. unfold hdr_json. rewrite P.
  apply jlookup_none in NI. cbn [hdr_view h_alg]. rewrite NI. reflexivity.
Qed.

(* a header that is not decodable JSON / has a duplicate member / is not an object is rejected at the header stage *)
Lemma undecodable_header_rejected canon rs sm v c det tok hseg pseg sseg hb :
  starts_brace tok = false -> split_dot tok = [hseg; pseg; sseg] -> b64dec hseg = Some hb ->
  (forall m, parse_json hb <> Some (VObj m)) ->
  parse_jws (hdr_json canon) rs sm v c det tok = Reject StHdr.
Proof.
  intros B S D P. unfold parse_jws. rewrite B, S, D. unfold hdr_json.
  destruct (parse_json hb) as [[| | | | |m]|]; try reflexivity. exfalso. apply (P m). reflexivity.
Qed.

(* the re-marshalled header inside the model: total version of marshal on what parse_json decodes *)
Definition canon_model (hb : list N) : list N :=
  match parse_json hb with
  | Some v => match marshal v with Some b => b | None => [] end
  | None => []
  end.

(* jose.DefaultSigningInputVerifier with the header decoded AND re-marshalled inside the model *)
Lemma default_json_accept_sound rs sm k det tok h payload :
  parse_jws (hdr_json canon_model) rs sm Fixed (VDefault k) det tok = Accept h payload ->
  exists hseg pseg sseg hb m p sg,
    split_dot tok = [hseg; pseg; sseg] /\ b64dec hseg = Some hb /\
    parse_json hb = Some (VObj m) /\ NoDup (map fst m) /\ h = hdr_view (canon_model hb) m /\
    default_proc (pk_fam k) = Some p /\ b64dec sseg = Some sg /\
    sm sg = SBy (pk_id k) p (signed_bytes h (b64enc (canon_model hb)) payload) /\
    payload_received det pseg payload.
Proof.
  intro H. apply default_accept_sound in H.
  destruct H as (hseg & pseg & sseg & hb & p & sg & E1 & E2 & E3 & E4 & E5 & E6 & E7).
  apply hdr_json_sound in E3 as (m & P & ND & HV).
  exists hseg, pseg, sseg, hb, m, p, sg. repeat split; try assumption.
  subst h. exact E6.
Qed.

(* claims decoding of jwt.Parse (jwt.PayloadToMap), decided by the model on the payload bytes *)
Lemma claims_obj_sound bs : claims_obj bs = true ->
  (exists m r, pval false (S (S (List.length bs))) bs = Some (VObj m, r) /\ NoDup (map fst m)) \/
  (exists r, pval false (S (S (List.length bs))) bs = Some (VNull, r)).
Proof.
  unfold claims_obj. destruct (pval false (S (S (List.length bs))) bs) as [[[| | | | |m] r]|] eqn:E; try discriminate; intros _.
  - right. exists r. reflexivity.
  - left. exists m, r. split; [reflexivity|]. apply nodup_keys_sound. eapply pval_obj_nodup. exact E.
Qed.

Lemma jwt_accept_claims ph rs sm c det tok h payload :
  parse_jwt ph rs sm claims_obj Fixed c false det tok = Accept h payload -> claims_obj payload = true.
Proof.
  unfold parse_jwt. destruct (parse_jws ph rs sm Fixed c det tok) as [h' p'| |]; try discriminate.
  destruct (negb (typ_ok h' && cty_ok h')); [discriminate|]. cbn [orb].
  destruct (claims_obj p') eqn:E; [|discriminate]. intro H. inversion H; subst. exact E.
Qed.
