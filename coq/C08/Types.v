(* C08 — types shared by the generated table (gen/Gen_C08.v) and the model. *)
From Coq Require Import List NArith String Bool.

(* public-key families a resolver can hand to the verifier *)
Inductive fam := FEd25519 | FP256 | FP384 | FP521 | FSecp256k1 | FRSA.
(* how the resolved key is represented in verifier.PublicKey: as a JWK or as raw Value bytes *)
Inductive repr := RJwk | RRaw.
Inductive hash := H256 | H384 | H512.
(* the procedure by which the holder of a private key produced a signature *)
Inductive sproc := PEd | PEc (h : hash) | PPss | PPkcs.

Definition fam_eqb (a b : fam) : bool :=
  match a, b with
  | FEd25519, FEd25519 | FP256, FP256 | FP384, FP384 | FP521, FP521 | FSecp256k1, FSecp256k1 | FRSA, FRSA => true
  | _, _ => false
  end.
Definition repr_eqb (a b : repr) : bool :=
  match a, b with RJwk, RJwk | RRaw, RRaw => true | _, _ => false end.
Definition hash_eqb (a b : hash) : bool :=
  match a, b with H256, H256 | H384, H384 | H512, H512 => true | _, _ => false end.
Definition sproc_eqb (a b : sproc) : bool :=
  match a, b with
  | PEd, PEd | PPss, PPss | PPkcs, PPkcs => true
  | PEc h, PEc h' => hash_eqb h h'
  | _, _ => false
  end.

Lemma fam_eqb_eq a b : fam_eqb a b = true <-> a = b.
Proof. destruct a, b; cbn; split; intro H; try reflexivity; try discriminate. Qed.
Lemma repr_eqb_eq a b : repr_eqb a b = true <-> a = b.
Proof. destruct a, b; cbn; split; intro H; try reflexivity; try discriminate. Qed.
Lemma sproc_eqb_eq a b : sproc_eqb a b = true <-> a = b.
Proof.
  destruct a as [|h| |], b as [|h'| |]; cbn; split; intro H; try reflexivity; try discriminate.
  - destruct h, h'; cbn in H; try discriminate; reflexivity.
  - inversion H; subst. destruct h'; reflexivity.
Qed.
