(* C02 — correspondence: the harness builds two honest envelopes with the real packers, derives an adversarial
   envelope from them (mutation, splice, re-serialization, attack construction), unpacks it with a party on
   the real code, and describes the adversarial envelope symbolically as a function of the two honest wires;
   the model must predict the party's result. *)
From Coq Require Import List NArith Bool.
Import ListNotations.
From VF Require Export C02.Model C02.Text.
Local Open Scope N_scope.

Inductive uobs := UOk (m from to : N) | URej.
Definition uobs_eqb (a b : uobs) : bool :=
  match a, b with
  | UOk m f t, UOk m' f' t' => (m =? m') && (f =? f') && (t =? t')
  | URej, URej => true
  | _, _ => false
  end.
Definition proj (r : res (term * option N * N)) : uobs :=
  match r with
  | Ok (Bytes m, from, to) => UOk m (match from with Some s => s | None => 0 end) to
  | Ok _ => UOk 999998 0 0
  | _ => URej            (* error or panic: rejected *)
  end.

(* c_up = None: through the packager's dispatch; Some p: packer p's Unpack *)
(* c_alt = Some (legacy, member, chars): a GROUP of cases — the adversarial envelopes are the first honest envelope with
   ONE base64 member altered by a single character edit; the case carries the member's original characters once and,
   per alteration (c_alts), the edit, the position, the recorded UnwrapKey calls and the observed result only.  The
   model (C02/Text.v) decodes both strings, decides what each alteration means and builds the adversarial envelope
   itself (c_E, c_att, c_obs are not used); the honest member must be the canonical encoding of its bytes. *)
Record altobs := mkao { ao_edit : edit; ao_pos : nat; ao_junk : N; ao_att : option (list attempt); ao_obs : uobs }.
Record case := { c_h1 : henv; c_h2 : henv; c_E : wire -> wire -> wire;
                 c_alt : option (bool * member * list N); c_alts : list altobs; c_up : option packer;
                 (* the protected header has a member that is 'skid' up to letter case (see C02/Model.v dispatch_cv) *)
                 c_cv : bool;
                 c_party : list N; c_att : option (list attempt); c_obs : uobs }.

Definition check_E (c : case) (E : wire) (att : option (list attempt)) (obs : uobs) : bool :=
  match att with Some l => attempts_eqb l (attempts Fixed (c_party c) E) | None => true end &&
  uobs_eqb obs (proj (match c_up c with
                      | None => unpack_pkgr_cv (c_cv c) Fixed (c_party c) E
                      | Some p => unpack Fixed p (c_party c) E
                      end)).

Definition check_case (c : case) : bool :=
  match hpack (c_h1 c), hpack (c_h2 c) with
  | Ok w1, Ok w2 =>
      match c_alt c with
      | Some (leg, m, old) =>
          canonical leg old &&
          forallb (fun ao => check_E c (altered (mkalt leg m old (ao_edit ao) (ao_pos ao) (ao_junk ao)) w1) (ao_att ao) (ao_obs ao))
                  (c_alts c)
      | None => check_E c (c_E c w1 w2) (c_att c) (c_obs c)
      end
  | _, _ => false
  end.

Fixpoint mismatches_from (i : nat) (cs : list case) : list nat :=
  match cs with
  | [] => []
  | c :: r => if check_case c then mismatches_from (S i) r else i :: mismatches_from (S i) r
  end.
Definition mismatches := mismatches_from 0.
