(* C02 — correspondence: the harness builds two honest envelopes with the real packers, derives an adversarial
   envelope from them (mutation, splice, re-serialization, attack construction), unpacks it with a party on
   the real code, and describes the adversarial envelope symbolically as a function of the two honest wires;
   the model must predict the party's result. *)
From Coq Require Import List NArith Bool.
Import ListNotations.
From VF Require Export C02.Model.
Local Open Scope N_scope.

Inductive uobs := UOk (m from to : N) | URej.
Definition uobs_eqb (a b : uobs) : bool :=
  match a, b with
  | UOk m f t, UOk m' f' t' => (m =? m') && (f =? f') && (t =? t')
  | URej, URej => true
  | _, _ => false
  end.
Definition proj (r : res (term * option N * N)) : uobs :=
  match r with
  | Ok (Bytes m, from, to) => UOk m (match from with Some s => s | None => 0 end) to
  | Ok _ => UOk 999998 0 0
  | _ => URej            (* error or panic: rejected *)
  end.

(* c_up = None: through the packager's dispatch; Some p: packer p's Unpack *)
Record case := { c_h1 : henv; c_h2 : henv; c_E : wire -> wire -> wire; c_up : option packer;
                 c_party : list N; c_att : option (list attempt); c_obs : uobs }.

Definition check_case (c : case) : bool :=
  match hpack (c_h1 c), hpack (c_h2 c) with
  | Ok w1, Ok w2 =>
      let E := c_E c w1 w2 in
      match c_att c with Some l => attempts_eqb l (attempts Fixed (c_party c) E) | None => true end &&
      uobs_eqb (c_obs c) (proj (match c_up c with
                                | None => unpack_pkgr Fixed (c_party c) E
                                | Some p => unpack Fixed p (c_party c) E
                                end))
  | _, _ => false
  end.

Fixpoint mismatches_from (i : nat) (cs : list case) : list nat :=
  match cs with
  | [] => []
  | c :: r => if check_case c then mismatches_from (S i) r else i :: mismatches_from (S i) r
  end.
Definition mismatches := mismatches_from 0.
