From Coq Require Import List NArith Bool.
Import ListNotations.
From VF Require Import C02.Model.
Local Open Scope N_scope.

(* placeholder obligation while the check is being built; replaced by the integrity theorems *)
Theorem es_forgery_rejected :
  unpack Fixed JweAuth [2] (WJwe (adv_es_jwe (mkcfg JweAnon P256 A256CBC512 DidKey) (Some (KDidKey 1)) 888 [2] (mkrnd 7 8 9)))
  = Err EInvalid.
Proof. vm_compute. reflexivity. Qed.
Print Assumptions es_forgery_rejected.
