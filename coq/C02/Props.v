(* C02 — property theorems only.  "unpack" is the executable model of C01/Model.v that the correspondences
   C01/Corr.v and C02/Corr.v run against the real packers; E is an ARBITRARY adversarial envelope.

   Adversary: [adv k] = the adversary holds private key k (its own keys, ephemeral keys it generates, keys of
   colluding parties such as co-recipients).  [hs] = the honest envelopes in circulation.
   [wf_jwe adv hs E] / [wf_leg adv hs E]: every encrypted-key term of E is taken from an honest envelope (any entry
   of any of them), or is no key wrap at all, or is a wrap under a key-encryption key the adversary can compute
   (every DH secret in its KDF input involves an adversary key).  EVERYTHING ELSE of E is unconstrained:
   protected header (skid, alg, enc, kid, epk, apu, apv, serialization), per-recipient headers, number and order
   of recipients, iv, ciphertext, tag, aad — in particular every mutation, truncation, splice and
   re-serialization of C02's quantifier, and envelopes built with the public crypto API. *)
From Coq Require Import List NArith Bool.
Import ListNotations.
From VF Require Import common.Base64 C01.Model C01.Proofs C02.Model C02.Proofs C02.Text C02.TextProofs.
Local Open Scope N_scope.

(* FULL STATEMENT for the JWE authcrypt packer (payload and sender).  Whatever envelope the adversary presents:
   if a party none of whose keys the adversary holds unpacks it with FromKey = s, then either s is a key of
   the adversary itself (it sent a message of its own, under its own name) or there is an honest authcrypt
   envelope with exactly that payload, exactly that sender, addressed to a key the party holds.  No hypothesis on
   the ciphertext: a co-recipient who knows the content key cannot re-attribute or alter either (the tag is in
   the ECDH-1PU KDF). *)
Theorem integrity_jwe_authcrypt : forall adv hs party E m s to,
  wf_jwe adv hs E ->
  (forall k, In k party -> adv k = false) ->
  (forall h k, In h hs -> In k party -> rn_eph (h_rnd h) <> k) ->
  unpack Fixed JweAuth party (WJwe E) = Ok (m, Some s, to) ->
  adv s = true \/
  exists h, In h hs /\ packer_of (h_cfg h) = JweAuth /\ m = Bytes (h_payload h) /\ s = h_sender h /\
            exists k, In k party /\ In k (h_rcpts h).
Proof. intros adv hs party E m s to. exact (sender_auth_jwe_lemma adv hs party E m s to). Qed.
Print Assumptions integrity_jwe_authcrypt.

(* the same through the packager's dispatch (which chooses authcrypt iff a skid header is present) *)
Theorem integrity_jwe_packager : forall adv hs party E m s to,
  wf_jwe adv hs E ->
  (forall k, In k party -> adv k = false) ->
  (forall h k, In h hs -> In k party -> rn_eph (h_rnd h) <> k) ->
  unpack_pkgr Fixed party (WJwe E) = Ok (m, Some s, to) ->
  adv s = true \/
  exists h, In h hs /\ packer_of (h_cfg h) = JweAuth /\ m = Bytes (h_payload h) /\ s = h_sender h /\
            exists k, In k party /\ In k (h_rcpts h).
Proof.
  intros adv hs party E m s to Hwf Hp He. unfold unpack_pkgr, dispatch.
  destruct (j_prot E) as [prot|]; [|discriminate]. destruct (p_skid prot).
  - exact (sender_auth_jwe_lemma adv hs party E m s to Hwf Hp He).
  - cbn [unpack]. intros H. apply unpack_jwe_anon_from in H. discriminate.
Qed.
Print Assumptions integrity_jwe_packager.

(* "an envelope produced with sender key A can never be unpacked as coming from sender key B" *)
Theorem no_misattribution : forall adv hs party E m s to,
  wf_jwe adv hs E ->
  (forall k, In k party -> adv k = false) ->
  (forall h k, In h hs -> In k party -> rn_eph (h_rnd h) <> k) ->
  adv s = false ->
  unpack Fixed JweAuth party (WJwe E) = Ok (m, Some s, to) ->
  ~ (forall h, In h hs -> m = Bytes (h_payload h) -> h_sender h <> s).
Proof.
  intros adv hs party E m s to Hwf Hp He Hs Hu Hno.
  destruct (sender_auth_jwe_lemma adv hs party E m s to Hwf Hp He Hu) as [Ha|[h [Hin [_ [Hm [Hse _]]]]]].
  - congruence.
  - apply (Hno h Hin Hm). symmetry; exact Hse.
Qed.
Print Assumptions no_misattribution.

(* The recipient key.  FULL statement: ToKey is a recipient key of that honest envelope — REFUTED by the faithful
   model (known finding tokey-is-another-own-key): ToKey is the first kid of E's recipients array that the party
   holds, not the key that unwrapped. *)
Definition tokey_h : henv := mkhenv (mkcfg JweAuth P256 A256CBC512 DidKey) [1] 11 1 [2; 3] (mkrnd 100 101 102).
Definition tokey_E (w : wire) : jwe :=
  set_recs (mkrcp (Some (mkrhdr (Some (KDidKey 9)) None None None None)) (Junk 9) :: j_recs (J w)) (J w).
Theorem tokey_exact_refuted :
  exists w, hpack tokey_h = Ok w /\
    wf_jwe (fun _ => false) [tokey_h] (tokey_E w) /\
    unpack Fixed JweAuth [2; 9] (WJwe (tokey_E w)) = Ok (Bytes 11, Some 1, 9) /\ ~ In 9 (h_rcpts tokey_h).
Proof.
  eexists. split; [vm_compute; reflexivity|]. split; [|split; [vm_compute; reflexivity|vm_compute; intuition discriminate]].
  unfold wf_jwe. cbn [tokey_E set_recs j_recs J map].
  apply Forall_cons; [|apply Forall_cons; [|apply Forall_cons; [|apply Forall_nil]]].
  - right. right. left. reflexivity.
  - left. exists tokey_h. eexists. split; [left; reflexivity|]. split; [vm_compute; reflexivity|]. vm_compute. tauto.
  - left. exists tokey_h. eexists. split; [left; reflexivity|]. split; [vm_compute; reflexivity|]. vm_compute. tauto.
Qed.
Print Assumptions tokey_exact_refuted.

(* ... and PARTIAL: it holds for a party that holds a single key *)
Theorem tokey_exact_partial : forall adv hs k0 E m s to,
  wf_jwe adv hs E ->
  adv k0 = false ->
  (forall h, In h hs -> rn_eph (h_rnd h) <> k0) ->
  unpack Fixed JweAuth [k0] (WJwe E) = Ok (m, Some s, to) ->
  adv s = true \/
  exists h, In h hs /\ m = Bytes (h_payload h) /\ s = h_sender h /\ In to (h_rcpts h).
Proof.
  intros adv hs k0 E m s to Hwf Ha He Hu.
  assert (Hto : In to [k0]) by (eapply unpack_jwe_to; exact Hu).
  destruct (sender_auth_jwe_lemma adv hs [k0] E m s to Hwf) as [H|[h [Hin [_ [Hm [Hs [k [Hk Hr]]]]]]]]; try assumption.
  - intros k [<-|[]]. assumption.
  - intros h k Hin [<-|[]]. apply He; assumption.
  - left; assumption.
  - right. exists h. repeat split; try assumption. destruct Hto as [<-|[]]. destruct Hk as [<-|[]]. assumption.
Qed.
Print Assumptions tokey_exact_partial.

(* Outsider integrity for EVERY JWE packer (anoncrypt included; anyone may author an anoncrypt envelope, so
   the statement is about envelopes that re-use an honest wrapped key).  Hypothesis [ct_ok]: a ciphertext under
   an honest content key is an honest envelope's ciphertext — the adversary is not a recipient (it does not know
   honest content keys).  Then an accepted envelope either contains a key wrap the adversary made itself (its
   own envelope) or yields an honest payload together with that envelope's authenticated data (protected
   header and aad, hence enc, skid, kid ... are that envelope's). *)
Theorem integrity_outsider_jwe : forall adv hs auth party E m fr to,
  wf_jwe adv hs E -> ct_ok hs (j_ct E) ->
  unpack_jwe Fixed auth party E = Ok (m, fr, to) ->
  (exists h' w', In h' hs /\ hpack h' = Ok w' /\ m = Bytes (h_payload h') /\ aad_of (WJwe E) = aad_of w')
  \/ adv_made adv E.
Proof. exact integrity_outsider_jwe_lemma. Qed.
Print Assumptions integrity_outsider_jwe.

(* the symmetric layer of all four packers: whoever decrypts with an honest content key gets an honest payload
   and the honest authenticated data *)
Theorem content_integrity : forall hs h cek aad iv ct tag m,
  In h hs -> cek = cek_of (h_rnd h) -> ct_ok hs ct -> c_dec cek aad iv ct tag = Some m ->
  exists h' w', In h' hs /\ hpack h' = Ok w' /\ m = Bytes (h_payload h') /\ aad = aad_of w'.
Proof. exact content_integrity_lemma. Qed.
Print Assumptions content_integrity.

(* Legacy (RFC 0019) authcrypt.  FULL statement (as for JWE authcrypt, no hypothesis on the ciphertext) is
   REFUTED by the faithful model: a co-recipient re-encrypts another payload under the content key (known
   finding legacy-authcrypt-corecipient-forgery; adv 3 = the co-recipient colludes). *)
Definition leg_h : henv := mkhenv (mkcfg LegAuth Ed25519 XC20P RawKey) [1] 11 1 [2; 3] (mkrnd 100 101 102).
Theorem integrity_legacy_authcrypt_refuted :
  exists w, hpack leg_h = Ok w /\
    let E := reenc_leg (cek_of (h_rnd leg_h)) 888 (L w) in
    wf_leg (fun k => k =? 3) [leg_h] E /\
    unpack Fixed LegAuth [2] (WLeg E) = Ok (Bytes 888, Some 1, 2).
Proof.
  eexists. split; [vm_compute; reflexivity|]. split; [|vm_compute; reflexivity].
  unfold wf_leg. cbn. apply Forall_cons; [|apply Forall_cons; [|apply Forall_nil]].
  - right. left. exists leg_h. eexists. eexists. split; [left; reflexivity|]. split; [vm_compute; reflexivity|].
    split; [reflexivity|]. vm_compute. tauto.
  - right. left. exists leg_h. eexists. eexists. split; [left; reflexivity|]. split; [vm_compute; reflexivity|].
    split; [reflexivity|]. vm_compute. tauto.
Qed.
Print Assumptions integrity_legacy_authcrypt_refuted.

(* PARTIAL (guard: [ct_ok], the adversary is not a recipient): payload, sender and recipient are an honest
   envelope's, or the sender is the adversary itself *)
Theorem integrity_legacy_authcrypt_partial : forall adv hs party E m s k,
  wf_leg adv hs E -> ct_ok hs (le_ct E) -> (forall k, In k party -> adv k = false) ->
  unpack Fixed LegAuth party (WLeg E) = Ok (m, Some s, k) ->
  adv s = true \/
  exists h, In h hs /\ packer_of (h_cfg h) = LegAuth /\ m = Bytes (h_payload h) /\ s = h_sender h /\
            In k (h_rcpts h) /\ In k party.
Proof. intros adv hs party E m s k. exact (legacy_auth_lemma adv hs party E m s k). Qed.
Print Assumptions integrity_legacy_authcrypt_partial.

(* The ECDH-1PU key-encryption key binds the WHOLE received tag (the term as received, not a prefix of it) together
   with alg, both DH secrets, apu and apv: a wrapped key opens under a KEK derived from another tag / header value
   never.  This is the step of integrity_jwe_authcrypt that the co-recipient forgeries of the harness exercise
   (re-encryption; tag = honest ++ forged, forged ++ honest, truncated, extended; iv / ciphertext of other lengths). *)
Theorem kek_binds_whole_tag : forall a ze zs apu apv tag a' ze' zs' apu' apv' tag' cek c,
  unwrap (kek_1pu a' ze' zs' apu' apv' tag') (Wrap (kek_1pu a ze zs apu apv tag) cek) = Some c ->
  tag' = tag /\ apu' = apu /\ apv' = apv /\ ze' = ze /\ zs' = zs /\ c = cek.
Proof.
  intros a ze zs apu apv tag a' ze' zs' apu' apv' tag' cek c H. apply unwrap_inv in H.
  unfold kek_1pu in H. inversion H. repeat split; reflexivity.
Qed.
Print Assumptions kek_binds_whole_tag.

(* the mutation grammar of the harness (any protected header, aad, iv, ciphertext, tag; any recipients array made of
   entries whose encrypted key comes from an honest envelope or is junk, with arbitrary headers, in any order and
   number; re-encryption under any key) never leaves the hypothesis of the theorems above *)
Theorem mutations_covered : forall adv hs E, mut_jwe hs E -> wf_jwe adv hs E.
Proof. intros adv hs E. exact (mutations_covered_lemma adv hs E). Qed.
Print Assumptions mutations_covered.

(* Legacy (RFC 0019) ANONCRYPT against an outsider (guard [ct_ok]: the adversary knows no honest content key; anyone may
   author an anoncrypt envelope, so the claim is about envelopes that carry an honest content key).  Whatever the
   recipients array, sealed boxes, headers, iv and tag of E are: an accepted envelope has no sender, ToKey is a key of
   the party, and either the payload is exactly an honest legacy anoncrypt envelope's and ToKey one of ITS recipient
   keys, or the content key obtained from the sealed box is no honest envelope's (the adversary's own envelope).
   No hypothesis on the sealed boxes is needed: a sealed box reveals only the key it carries, the AEAD with the
   protected string as associated data does the rest. *)
Theorem integrity_legacy_anoncrypt : forall hs party E m fr k,
  ct_ok hs (le_ct E) ->
  unpack Fixed LegAnon party (WLeg E) = Ok (m, fr, k) ->
  fr = None /\ In k party /\
  ((exists h, In h hs /\ packer_of (h_cfg h) = LegAnon /\ m = Bytes (h_payload h) /\ In k (h_rcpts h)) \/
   (exists t cek, seal_open k t = Some cek /\ forall h, In h hs -> cek <> cek_of (h_rnd h))).
Proof. intros hs party E m fr k. exact (legacy_anon_lemma hs party E m fr k). Qed.
Print Assumptions integrity_legacy_anoncrypt.

(* HISTORICAL REFUTATION (before fix: 234874c).  The code as found unwrapped ECDH-ES keys although a sender key
   id was present: an outsider holding only the ephemeral key 200000 makes an envelope that the victim [2]
   unpacks as coming from the honest key 1.  The repaired decrypter rejects it. *)
Definition forged_E : jwe := adv_es_jwe (mkcfg JweAnon P256 A256CBC512 DidKey) (Some (KDidKey 1)) 888 [2] (mkrnd 200000 200050 200051).
Theorem sender_auth_asis_refuted :
  wf_jwe (fun k => 200000 <=? k) [] forged_E /\
  unpack AsIs JweAuth [2] (WJwe forged_E) = Ok (Bytes 888, Some 1, 2) /\
  unpack_pkgr AsIs [2] (WJwe forged_E) = Ok (Bytes 888, Some 1, 2) /\
  unpack Fixed JweAuth [2] (WJwe forged_E) = Err EInvalid.
Proof.
  split; [|repeat split; vm_compute; reflexivity].
  unfold wf_jwe. cbn. apply Forall_cons; [|apply Forall_nil]. right. right. right. eexists. eexists.
  split; [reflexivity|]. vm_compute. reflexivity.
Qed.
Print Assumptions sender_auth_asis_refuted.

(* ... and whatever the letter case of member names does to the routing: a protected member spelled 'SKID' / 'Skid' is no
   skid for JWEDecrypt and the packers (map lookup) but still routes the envelope to the authcrypt packer (the packager
   decodes the header with encoding/json, case-insensitively).  For BOTH routings the conclusion is the same: a sender
   is reported only from an exactly spelled, authenticated skid. *)
Theorem integrity_jwe_packager_anycase : forall cv adv hs party E m s to,
  wf_jwe adv hs E ->
  (forall k, In k party -> adv k = false) ->
  (forall h k, In h hs -> In k party -> rn_eph (h_rnd h) <> k) ->
  unpack_pkgr_cv cv Fixed party (WJwe E) = Ok (m, Some s, to) ->
  adv s = true \/
  exists h, In h hs /\ packer_of (h_cfg h) = JweAuth /\ m = Bytes (h_payload h) /\ s = h_sender h /\
            exists k, In k party /\ In k (h_rcpts h).
Proof.
  intros cv adv hs party E m s to Hwf Hp He. unfold unpack_pkgr_cv, dispatch_cv, dispatch.
  destruct (j_prot E) as [prot|]; [|discriminate]. destruct (p_skid prot); [|destruct cv].
  - exact (sender_auth_jwe_lemma adv hs party E m s to Hwf Hp He).
  - exact (sender_auth_jwe_lemma adv hs party E m s to Hwf Hp He).
  - cbn [unpack]. intros H. apply unpack_jwe_anon_from in H. discriminate.
Qed.
Print Assumptions integrity_jwe_packager_anycase.

(* CHARACTER LEVEL (C02/Text.v: the model decodes the base64url members of the serialized envelope itself, with Go's
   decoder semantics).  "every byte/bit position of every base64 field": for EVERY byte string, EVERY position of its
   canonical base64url encoding and EVERY replacement character, the altered segment decodes to the SAME bytes exactly
   in the characterised lenient case — the last symbol of a 2- or 3-symbol tail replaced by an alphabet symbol that
   agrees on the used high bits; in every other case it is undecodable or decodes to other bytes. *)
Theorem replace_classification : forall bs pre c post c',
  Forall byte_ok bs -> encode_raw bs = pre ++ c :: post -> c' <> c ->
  (decode_raw (pre ++ c' :: post) = Some bs <-> lenient_tail pre c post c').
Proof. exact replace_classification_lemma. Qed.
Print Assumptions replace_classification.

(* an inserted character leaves the bytes unchanged exactly when it is one the decoder skips (CR, LF) ... *)
Theorem insert_classification : forall bs pre post c',
  Forall byte_ok bs -> encode_raw bs = pre ++ post ->
  (decode_raw (pre ++ c' :: post) = Some bs <-> is_nl c' = true).
Proof. exact insert_classification_lemma. Qed.
Print Assumptions insert_classification.

(* ... and a deleted character never does *)
Theorem delete_classification : forall bs pre c post,
  Forall byte_ok bs -> encode_raw bs = pre ++ c :: post -> decode_raw (pre ++ post) <> Some bs.
Proof. exact delete_classification_lemma. Qed.
Print Assumptions delete_classification.

(* the same in terms of the very functions the correspondence evaluates on the real wires (apply_edit, classify):
   the class is "same bytes" iff the edit is one of the two characterised lenient preimages *)
Theorem alteration_classified : forall bs e pos,
  Forall byte_ok bs -> real_edit e pos (encode_raw bs) ->
  (classify false (encode_raw bs) (apply_edit e pos (encode_raw bs)) = CSame <-> lenient e pos (encode_raw bs)).
Proof. exact alteration_classified_lemma. Qed.
Print Assumptions alteration_classified.

(* what the model makes of an altered member of an honest envelope is an envelope the integrity theorems above
   speak about (its encrypted keys are honest ones or no key wraps) *)
Theorem altered_covered : forall adv hs h j m old e pos jn,
  In h hs -> hpack h = Ok (WJwe j) ->
  match altered_jwe m old e pos jn (WJwe j) with WJwe E => wf_jwe adv hs E | _ => True end.
Proof. intros adv hs h j m old e pos jn. exact (altered_covered_lemma adv hs h j m old e pos jn). Qed.
Print Assumptions altered_covered.

(* a strict decoder would have no such preimages; Go's is not strict: REFUTED that every replacement changes the
   bytes or fails ("QQ" / "QR", and "QUI" / "QUJ") *)
Theorem every_replacement_detected_refuted :
  exists bs pre c post c', Forall byte_ok bs /\ encode_raw bs = pre ++ c :: post /\ c' <> c /\ decode_raw (pre ++ c' :: post) = Some bs.
Proof.
  exists [65], [81], 81, [], 82. split; [repeat constructor|]. split; [reflexivity|]. split; [discriminate|reflexivity].
Qed.
Print Assumptions every_replacement_detected_refuted.

Example alteration_nonvacuous :
  let old := encode_raw [1; 2; 3; 4; 5] in
  classify false old (apply_edit (EReplace 66) 0 old) = CChanged /\
  classify false old (apply_edit (EReplace 10) 3 old) = CChanged /\
  classify false old (apply_edit (EInsert 10) 3 old) = CSame /\
  classify false old (apply_edit EDelete 6 old) = CChanged /\
  classify false old (apply_edit (EReplace 86) 6 old) = CSame /\
  classify false old (apply_edit (EReplace 61) 2 old) = CBad /\
  classify true (encode_pad [1; 2; 3; 4; 5]) (apply_edit (EReplace 65) 7 (encode_pad [1; 2; 3; 4; 5])) = CChanged /\
  canonical true (encode_pad [1; 2; 3; 4]) = true /\
  canonical false (encode_raw [7]) = true.
Proof. vm_compute. repeat split. Qed.

(* non-vacuity: adversarial envelopes that satisfy the hypotheses and ARE accepted / rejected as the theorems say:
   (1) the honest envelope with its recipients rotated and one entry's key replaced by junk: accepted, honest triple;
   (2) the content of e2 spliced under the recipients of e1: rejected; (3) the co-recipient's re-encryption: rejected
   by the JWE authcrypt packer *)
Definition nv_h1 : henv := mkhenv (mkcfg JweAuth X25519 XC20P DidDoc) [1] 11 1 [2; 3] (mkrnd 100 101 102).
Definition nv_h2 : henv := mkhenv (mkcfg JweAuth X25519 XC20P DidDoc) [1] 22 1 [2; 3] (mkrnd 200 201 202).
Example integrity_nonvacuous :
  exists w1 w2, hpack nv_h1 = Ok w1 /\ hpack nv_h2 = Ok w2 /\
    let E1 := set_recs [mkrcp (r_hdr (R w1 1)) (Junk 5); R w1 0] (J w1) in
    wf_jwe (fun k => k =? 3) [nv_h1; nv_h2] E1 /\
    unpack Fixed JweAuth [2] (WJwe E1) = Ok (Bytes 11, Some 1, 2) /\
    unpack Fixed JweAuth [2] (WJwe (set_recs (j_recs (J w1)) (J w2))) = Err ERejected /\
    unpack Fixed JweAuth [2] (WJwe (reenc_jwe (cek_of (h_rnd nv_h1)) 888 (J w1))) = Err ERejected.
Proof.
  eexists. eexists. split; [vm_compute; reflexivity|]. split; [vm_compute; reflexivity|].
  split; [|repeat split; vm_compute; reflexivity].
  unfold wf_jwe. cbn [set_recs j_recs]. apply Forall_cons; [|apply Forall_cons; [|apply Forall_nil]].
  - right. right. left. reflexivity.
  - left. exists nv_h1. eexists. split; [left; reflexivity|]. split; [vm_compute; reflexivity|]. vm_compute. tauto.
Qed.

(* non-vacuity for adversary-BUILT envelopes (the harness's construction grammar): an outsider holding only the
   ephemeral keys 200000, 200001 wraps its own content key with ECDH-ES for a decoy (key 7) and the victim (key 2),
   names the honest key 1 in skid, labels the decoy entry ECDH-1PU.  The envelope satisfies the theorems'
   hypothesis and is rejected; the single-recipient ECDH-ES envelope without skid whose apu is key 1's id is
   accepted WITHOUT a sender. *)
Definition built_cek : term := cek_of (mkrnd 200000 200050 200051).
Definition built_mixed : jwe :=
  reenc_jwe built_cek 888
    (mkjwe (Some (mkphdr (Some A256CBC512) (Some (KDidKey 1)) None None None None None 0))
       [mkrcp (Some (mkrhdr (Some (KDidKey 7)) (Some PU_A256KW) (Some (Pub 200000)) (Some (apu_es (Pub 200000))) None))
              (Wrap (kek_es ES_A256KW (dh 200000 7) (apu_es (Pub 200000)) (Tup [])) built_cek);
        mkrcp (Some (mkrhdr (Some (KDidKey 2)) (Some ES_A256KW) (Some (Pub 200001)) (Some (apu_es (Pub 200001))) None))
              (Wrap (kek_es ES_A256KW (dh 200001 2) (apu_es (Pub 200001)) (Tup [])) built_cek)]
       (Tup []) (Bytes 77) (Junk 0) (Junk 0)).
Definition built_apu : jwe :=
  reenc_jwe built_cek 888
    (mkjwe (Some (mkphdr (Some A256CBC512) None (Some ES_A256KW) (Some (KDidKey 2)) (Some (Pub 200000))
                         (Some (t_kref (KDidKey 1))) None 0))
       [mkrcp None (Wrap (kek_es ES_A256KW (dh 200000 2) (t_kref (KDidKey 1)) (Tup [])) built_cek)]
       (Tup []) (Bytes 77) (Junk 0) (Junk 0)).
Example built_envelopes_nonvacuous :
  wf_jwe (fun k => 200000 <=? k) [] built_mixed /\ wf_jwe (fun k => 200000 <=? k) [] built_apu /\
  unpack Fixed JweAuth [2] (WJwe built_mixed) = Err EInvalid /\
  unpack_pkgr Fixed [2] (WJwe built_mixed) = Err EInvalid /\
  unpack Fixed JweAuth [2] (WJwe built_apu) = Ok (Bytes 888, None, 2).
Proof.
  split; [|split; [|repeat split; vm_compute; reflexivity]].
  - unfold wf_jwe. cbn. apply Forall_cons; [|apply Forall_cons; [|apply Forall_nil]];
      right; right; right; eexists; eexists; (split; [reflexivity|vm_compute; reflexivity]).
  - unfold wf_jwe. cbn. apply Forall_cons; [|apply Forall_nil].
    right; right; right; eexists; eexists; (split; [reflexivity|vm_compute; reflexivity]).
Qed.
